/-!
# Model of the temporary-override machinery of tf-pwa (property C17)

Observable state, a small language of programs (override blocks, derived computations, `raise`) and a
big-step semantics that follows Python's generator-`@contextmanager` exception semantics: the statements
after `yield` are skipped when the body raises unless they sit in a `finally`; an abandoned generator
(`factor_iteration`, `split_gls`) only runs its `finally` clauses.

Every block / computation is transcribed twice, selected per defect site by a flag of `Fix`:
* flag `false` — the statements of the source tree **as it is** (tf_pwa/amp/amp.py, amp/core.py, variable.py,
  config.py, fitfractions.py, experimental/opt_int.py, experimental/build_amp.py);
* flag `true`  — the statements after the proposed `fix_C17_*.diff` patches (exit clauses in `finally`,
  stored values / previous selection / `not_full` saved and restored).
The harness observes, by one probe per site on the real objects, which variant the tree has, and runs the
correspondence against that variant.  Mathlib-free.
-/
namespace TfPwaV.Override

/-- Abstract parameter values: literals (an index into the harness' pool of floats) and the image of a value
under the bound transformation `Bound.get_y2x` of a variable and under the float32 rounding of masked values
(both kept symbolic). -/
inductive Val where
  | lit (n : Nat)
  | y2x (var : Nat) (v : Val)
  /-- `tf.cast(<python float>, float64)` goes through float32: the value `read` substitutes for a masked variable -/
  | f32 (v : Val)
  /-- an unspecified temporary value written by an inner step of a computation (the point a minimiser stopped at, a
  finite-difference point); the harness treats it as a wildcard -/
  | tmp
  deriving DecidableEq, Repr, Inhabited

/-- A value in a params dict passed to `temp_params`: `bad` makes `tf.Variable.assign` raise. -/
inductive PV where
  | good (v : Val)
  | bad
  deriving DecidableEq, Repr

/-- An entry of a resonance selection: a resonance (by index in `decay_group.resonances`) or a chain index. -/
inductive Sel where
  | res (r : Nat)
  | idx (i : Nat)
  deriving DecidableEq, Repr

/-- Static data of the decay group (extracted from the real object by the harness). -/
structure Env where
  nChains : Nat
  /-- for resonance `r`: the chains whose `inner` contains it -/
  resChains : List (List Nat)
  /-- variables with a registered bound (`vm.bnd_dic`) -/
  bounded : List Nat
  /-- per chain: the mask dicts yielded by `factor_iter_names` -/
  factorMasks : List (List (List (Nat × Val)))
  /-- per chain: indices of its decays (into `St.ls`); chains that share a decay object share the index -/
  chainDecays : List (List Nat)
  deriving Repr

/-- Observable state. -/
structure St where
  /-- stored values of `vm.variables`, by variable index -/
  params : List Val
  /-- `vm.mask_vars` (dict, insertion order) -/
  mask : List (Nat × Val)
  /-- `decay_group.chains_idx` -/
  chainsIdx : List Nat
  /-- `decay_group.not_full` -/
  notFull : Bool
  /-- `mask_factor` of every DISTINCT chain and decay object (first occurrence in the `mask_part` list of
  `temp_total_gls_one`).  The code's list repeats a decay object shared by several chains; because it reads all old
  values before it sets any, every repetition records the same old value and the per-object reading is exact. -/
  maskFactor : List Bool
  /-- values of the observed configuration keys -/
  config : List Val
  /-- per DISTINCT decay object (a decay shared by several chains is one entry): the selected ls couplings as
  indices into `total_ls` -/
  ls : List (List Nat)
  /-- `vm.trainable_vars` (variable indices, in the order of the list: the order a value SEQUENCE is assigned in
  and the order of the rows of an error matrix) -/
  trainable : List Nat
  deriving DecidableEq, Repr

/-- Which defect sites carry the proposed patch. -/
structure Fix where
  absTemp : Bool      -- AbsPDF.temp_params
  vmTemp : Bool       -- VarsManager.temp_params
  vmMask : Bool       -- VarsManager.mask_params
  usedRes : Bool      -- DecayGroup.temp_used_res
  glsOne : Bool       -- BaseAmplitudeModel.temp_total_gls_one
  tempConfig : Bool   -- config.temp_config
  pw : Bool           -- DecayGroup.partial_weight
  pwBase : Bool       -- BaseAmplitudeModel.partial_weight
  pwi : Bool          -- DecayGroup.partial_weight_interference
  calFF : Bool        -- fitfractions.cal_fitfractions
  appendInt : Bool    -- FitFractions.append_int
  factorIter : Bool   -- DecayGroup.factor_iteration
  splitGls : Bool     -- opt_int.split_gls
  bam : Bool          -- build_amp.build_amp_matrix
  plotAll : Bool      -- config_loader/plotter.py PlotAllData.__init__ (the `res` loop)
  likeProf : Bool     -- ConfigLoader.likelihood_profile
  hesse : Bool        -- ConfigLoader.get_params_error / cal_hesse_correct / num_hess_inv_3point
  tempVar : Bool      -- experimental/factor_system.py temp_var (used by partial_amp)
  deriving DecidableEq, Repr

def Fix.none : Fix :=
  ⟨false, false, false, false, false, false, false, false, false, false, false, false, false, false, false, false, false, false⟩
def Fix.all : Fix :=
  ⟨true, true, true, true, true, true, true, true, true, true, true, true, true, true, true, true, true, true⟩

inductive Block where
  | absTemp (p : List (Nat × PV))      -- `amp.temp_params(dict)`
  | vmTemp (p : List (Nat × PV))       -- `amp.vm.temp_params(dict)`
  | maskParams (m : List (Nat × Val))  -- `amp.mask_params(dict)` (= `with vm.mask_params(dict): yield`)
  | usedRes (r : List Sel)             -- `amp.temp_used_res(list)` (= `with decay_group.temp_used_res(..): yield`)
  | glsOne                             -- `amp.temp_total_gls_one()`
  | tempConfig (k : Nat) (v : Val)     -- `temp_config(key_k, v)`
  | absTempSeq (vals : List PV)        -- `amp.temp_params(list / ndarray)`: one value per trainable variable, in order
  | vmTempSeq (vals : List PV)         -- `amp.vm.temp_params(list)`: `params.keys()` raises before anything is touched
  deriving DecidableEq, Repr

inductive Comp where
  | pw (comb : List (List Sel))        -- `AmplitudeModel.partial_weight` → `DecayGroup.partial_weight(data, combine)`
  | pwBase (comb : List (List Nat))    -- `BaseAmplitudeModel.partial_weight(data, combine)`
  | pwi                                -- `partial_weight_interference(data)`
  | calFF (nb : Nat) (res : List Sel)  -- `cal_fitfractions(amp, data, res, batch)` with `nb` batches
  | ffNew (nb : Nat) (res : List Sel)  -- `FitFractions(amp, res).integral(data, batch=…)` with `nb` batches
  | factorIter (deep : Nat)            -- `for _ in amp.factor_iteration(deep): amp(data)`
  | bam                                -- `build_amp_matrix(decay_group, data)`
  | evalN (n : Nat)                    -- `n` plain density evaluations (`amp(data)` in batches; `cal_bins_numbers`)
  | plotAll (res : List (List Sel))    -- `PlotAllData(amp, data, phsp, res=res)` (get_all_plotdatas / get_plotter)
  | likeProf (v : Nat) (up down : List Val)  -- `ConfigLoader.likelihood_profile(var_v, …)`: scan points up / down
  | paramsError (p : List (Nat × PV)) (nfd : Nat)  -- `get_params_error(params=p, …)` with `nfd` finite-difference `fcn(x)` calls
  | partialAmp (zs : List Nat)         -- `factor_system.partial_amp`: `with temp_var(vm): vm.set_all({z: 0}); amp(data)`
  deriving DecidableEq, Repr

/-- Programs.  `compute c fault`: the `k`-th evaluation of the density inside the computation raises when
`fault = some k`.  `raise`: the user code inside a block raises. -/
inductive Prog where
  | skip
  | raise
  | compute (c : Comp) (fault : Option Nat)
  /-- `amp.set_params(dict)` by the user code of a body: a PERMANENT assignment -/
  | setParams (p : List (Nat × PV))
  | block (b : Block) (body : Prog)
  | seq (p q : Prog)
  deriving DecidableEq, Repr

/-! ## primitive state updates -/

def lookup (m : List (Nat × Val)) (i : Nat) : Option Val :=
  match m with
  | [] => none
  | (k, v) :: rest => if k = i then some v else lookup rest i

/-- `get_params()` = `vm.get_all_dic()`: `read(name)` substitutes the masked value. -/
def viewFrom (mask : List (Nat × Val)) : List Val → Nat → List Val
  | [], _ => []
  | v :: vs, i => (match lookup mask i with | some w => .f32 w | none => v) :: viewFrom mask vs (i + 1)

def St.view (s : St) : List Val := viewFrom s.mask s.params 0

/-- `vm.set(name, v, val_in_fit=False)` for every item, in order; stops at the first value that cannot be assigned.
Unknown names only warn. -/
def setAll : List (Nat × PV) → List Val → List Val × Bool
  | [], ps => (ps, false)
  | (i, .good v) :: rest, ps => setAll rest (ps.set i v)
  | (i, .bad) :: rest, ps => if i < ps.length then (ps, true) else setAll rest ps

def setVals : List (Nat × Val) → List Val → List Val
  | [], ps => ps
  | (i, v) :: rest, ps => setVals rest (ps.set i v)

/-- `vm.set_all(sequence)`: `for name in trainable_vars: set(name, vals[i])`; a sequence that is too short raises
`IndexError` after the values it has were assigned, a value that cannot be assigned raises, surplus values are ignored. -/
def setSeq : List Nat → List PV → List Val → List Val × Bool
  | [], _, ps => (ps, false)
  | _ :: _, [], ps => (ps, true)
  | t :: ts, .good v :: vs, ps => setSeq ts vs (ps.set t v)
  | _ :: _, .bad :: _, ps => (ps, true)

/-- every trainable variable receives an unspecified value (`set_params(ndarray)` at a point chosen by a minimiser /
a finite-difference formula) -/
def havocTr (s : St) : St := { s with params := setVals (s.trainable.map fun t => (t, Val.tmp)) s.params }

/-- `vm.get(name)` (`val_in_fit=True`): the fit-space value when a bound is registered. -/
def getFit (E : Env) (ps : List Val) (i : Nat) : Val :=
  let v := ps[i]?.getD (.lit 0)
  if E.bounded.contains i then .y2x i v else v

def getRaw (ps : List Val) (i : Nat) : Val := ps[i]?.getD (.lit 0)

/-- `DecayGroup.set_used_chains`. -/
def setUsedChains (E : Env) (s : St) (l : List Nat) : St :=
  { s with chainsIdx := l, notFull := l.length != E.nChains }

def addUsed (acc : List Nat) : List Nat → List Nat
  | [] => acc
  | i :: rest => addUsed (if acc.contains i then acc else acc ++ [i]) rest

def selIdx : List Sel → List Nat
  | [] => []
  | .idx i :: rest => i :: selIdx rest
  | .res _ :: rest => selIdx rest

def selHits (E : Env) (r : List Sel) (j : Nat) : Bool :=
  r.any fun
    | .res k => (E.resChains[k]?.getD []).contains j
    | .idx _ => false

/-- `DecayGroup.set_used_res(res)` (`only=False`): chains containing one of the named resonances
(`set` of small ints → ascending), `set_used_chains`, then `add_used_chains` for the integer entries
(appended; `not_full` is not recomputed). -/
def setUsedRes (E : Env) (s : St) (r : List Sel) : St :=
  let s1 := setUsedChains E s ((List.range E.nChains).filter (selHits E r))
  { s1 with chainsIdx := addUsed s1.chainsIdx (selIdx r) }

def allRes (E : Env) : List Sel := (List.range E.resChains.length).map Sel.res

def setLs (s : St) (d : Nat) (l : List Nat) : St := { s with ls := s.ls.set d l }

def restoreLs (s : St) : List Nat → List (List Nat) → St
  | d :: ds, g :: gs => restoreLs (setLs s d g) ds gs
  | _, _ => s

/-! ## steps of a computation -/

inductive Step where
  | setChains (l : List Nat)
  | setRes (r : List Sel)
  | setMask (m : List (Nat × Val))
  | setLs1 (d : Nat) (g : Nat)
  | eval
  deriving DecidableEq, Repr

def applyStep (E : Env) (st : Step) (s : St) : St :=
  match st with
  | .setChains l => setUsedChains E s l
  | .setRes r => setUsedRes E s r
  | .setMask m => { s with mask := m }
  | .setLs1 d g => setLs s d [g]
  | .eval => s

/-- Run steps; `i` counts the evaluations done so far; the evaluation number `fault` raises.
Returns state, raised?, evaluations done. -/
def runSteps (E : Env) (fault : Option Nat) : List Step → Nat → St → St × Bool × Nat
  | [], i, s => (s, false, i)
  | st :: rest, i, s =>
    match st with
    | .eval => if fault = some i then (s, true, i) else runSteps E fault rest (i + 1) s
    | _ => runSteps E fault rest i (applyStep E st s)

def evals (n : Nat) : List Step := List.replicate n Step.eval

/-- the (i, j ≤ i) loop of the fit-fraction routines -/
def ffPairs (nb : Nat) (res : List Sel) : List Step :=
  (List.range res.length).flatMap fun i =>
    ((List.range (i + 1)).reverse).flatMap fun j =>
      match res[i]?, res[j]? with
      | some a, some b => (if i = j then Step.setRes [a] else Step.setRes [a, b]) :: evals nb
      | _, _ => []

def pairs (n : Nat) : List (List Nat) :=
  (List.range n).flatMap fun i => ((List.range n).filter (fun j => i < j)).map fun j => [i, j]

def product : List (List Nat) → List (List Nat)
  | [] => [[]]
  | l :: rest => l.flatMap fun x => (product rest).map fun t => x :: t

def restoreChains (s0 s : St) : St := { s with chainsIdx := s0.chainsIdx, notFull := s0.notFull }

/-- Shared shape of `partial_weight*`: `o = chains_idx; for …: select; eval; set_used_chains(o)`. -/
def saveRunRestore (fixed : Bool) (E : Env) (fault : Option Nat) (steps : List Step) (s : St) : St × Bool :=
  let (s1, r, _) := runSteps E fault steps 0 s
  if fixed then (restoreChains s s1, r)
  else if r then (s1, true) else (setUsedChains E s1 s.chainsIdx, false)

/-- one chain of `DecayGroup.factor_iteration(deep)` consumed by `for …: amp(data)` -/
def fiChain (fx : Fix) (E : Env) (fault : Option Nat) (deep : Nat) (k : Nat) (i : Nat) (s : St) : St × Bool × Nat :=
  let s1 := setUsedChains E s [k]
  if deep ≤ 1 then
    -- `DecayChain.factor_iteration(0)`: `yield {}`
    runSteps E fault [Step.eval] i s1
  else
    let saved := s1.mask
    let steps := (E.factorMasks[k]?.getD []).flatMap fun j => [Step.setMask j, Step.eval, Step.setMask saved]
    let (s2, r, i2) := runSteps E fault steps i s1
    -- abandoned generator: `with vm.mask_params(j)` receives GeneratorExit
    if r && fx.vmMask then ({ s2 with mask := saved }, r, i2) else (s2, r, i2)

def fiChains (fx : Fix) (E : Env) (fault : Option Nat) (deep : Nat) : List Nat → Nat → St → St × Bool × Nat
  | [], i, s => (s, false, i)
  | k :: ks, i, s =>
    let (s1, r, i1) := fiChain fx E fault deep k i s
    if r then (s1, true, i1) else fiChains fx E fault deep ks i1 s1

/-- one chain of `build_amp_matrix`: `set_used_chains([k])`, then `split_gls(chain)` consumed by `build_sum_amplitude` -/
def bamChain (fx : Fix) (E : Env) (fault : Option Nat) (k : Nat) (i : Nat) (s : St) : St × Bool × Nat :=
  let s1 := setUsedChains E s [k]
  let ds := E.chainDecays[k]?.getD []
  let gls := ds.map fun d => s1.ls[d]?.getD []
  let steps := (product gls).flatMap fun c => ((ds.zip c).map fun (d, g) => Step.setLs1 d g) ++ [Step.eval]
  let (s2, r, i2) := runSteps E fault steps i s1
  if r then ((if fx.splitGls then restoreLs s2 ds gls else s2), true, i2)
  else (restoreLs s2 ds gls, false, i2)

def bamChains (fx : Fix) (E : Env) (fault : Option Nat) : List Nat → Nat → St → St × Bool × Nat
  | [], i, s => (s, false, i)
  | k :: ks, i, s =>
    let (s1, r, i1) := bamChain fx E fault k i s
    if r then (s1, true, i1) else bamChains fx E fault ks i1 s1

/-- the batches of `FitFractions.integral`: each `append_int` evaluates the total with the selection it finds,
runs the pair loop and "restores" -/
def ffNewBatches (fx : Fix) (E : Env) (fault : Option Nat) (res : List Sel) : Nat → Nat → St → St × Bool × Nat
  | 0, i, s => (s, false, i)
  | nb + 1, i, s =>
    let (s1, r, i1) := runSteps E fault (Step.eval :: ffPairs 1 res) i s
    if fx.appendInt then
      let s2 := restoreChains s s1
      if r then (s2, true, i1) else ffNewBatches fx E fault res nb i1 s2
    else if r then (s1, true, i1)
    else ffNewBatches fx E fault res nb i1 (setUsedRes E s1 (allRes E))

/-- `VarsManager.set_fix(name, value, unfix)`: the value goes through `Bound.get_y2x` when the variable has a bound;
fixing removes the name from `trainable_vars`, freeing APPENDS it (unless it is there already: warning only). -/
def setFix (E : Env) (s : St) (v : Nat) (val : Val) (unfix : Bool) : St :=
  { s with params := s.params.set v (if E.bounded.contains v then Val.y2x v val else val),
           trainable := if unfix then (if s.trainable.contains v then s.trainable else s.trainable ++ [v])
                        else s.trainable.erase v }

/-- one scan direction of `likelihood_profile`: `vm.set_fix(var, x); self.fit()`; the fit number `fault` raises; a fit
that returns leaves every (still) trainable variable at an unspecified value -/
def lpScan (E : Env) (fault : Option Nat) (v : Nat) : List Val → Nat → St → St × Bool × Nat
  | [], i, s => (s, false, i)
  | x :: xs, i, s =>
    let s1 := setFix E s v x false
    if fault = some i then (s1, true, i) else lpScan E fault v xs (i + 1) (havocTr s1)

/-- `ConfigLoader.likelihood_profile`.  As it is: `params = get_params()` (the masked view of all variables);
scan up; `set_params(params)`; scan down; `set_params(params)`; `vm.set_fix(var, params[var], unfix=was_trainable)`;
nothing in a `finally`.  Patched: stored values and the `trainable_vars` list saved, put back in `finally`. -/
def execLikeProf (fixed : Bool) (E : Env) (fault : Option Nat) (v : Nat) (up down : List Val) (s : St) : St × Bool :=
  if s.params.length ≤ v then (s, true)   -- `params[var]`: KeyError
  else
    let fin := fun (t : St) (r : Bool) =>
      if fixed then ({ t with params := s.params, trainable := s.trainable }, r) else (t, r)
    let saved := s.view
    let unfix := s.trainable.contains v
    let (s1, r1, i1) := lpScan E fault v up 0 s
    if r1 then fin s1 true
    else
      let (s3, r3, _) := lpScan E fault v down i1 { s1 with params := saved }
      if r3 then fin s3 true
      else fin (setFix E { s3 with params := saved } v (saved[v]?.getD (.lit 0)) unfix) false

/-- the finite-difference loop of `cal_hesse_correct` / `num_hess_inv_3point`: every `fcn(x)` assigns the displaced
point to the trainable variables, then evaluates -/
def fdLoop (fault : Option Nat) : Nat → Nat → St → St × Bool × Nat
  | 0, i, s => (s, false, i)
  | n + 1, i, s =>
    let s1 := havocTr s
    if fault = some i then (s1, true, i) else fdLoop fault n (i + 1) s1

/-- `ConfigLoader.get_params_error(params=p, …)`: `fcn.nll_grad_hessian(p)` does `model.set_params(p)` (kept) and
evaluates; then `nfd` finite-difference calls `fcn(x)`; as it is, the model stays at `p` / at the last displaced
point.  Patched: the stored values are put back in `finally`. -/
def execParamsError (fixed : Bool) (fault : Option Nat) (p : List (Nat × PV)) (nfd : Nat) (s : St) : St × Bool :=
  let (ps, r) := setAll p s.params
  let s1 := { s with params := ps }
  let out : St × Bool :=
    if r then (s1, true)
    else if fault = some 0 then (s1, true)
    else
      let (s2, r2, _) := fdLoop fault nfd 1 s1
      (s2, r2)
  if fixed then ({ out.1 with params := s.params }, out.2) else out

def execComp (fx : Fix) (E : Env) (c : Comp) (fault : Option Nat) (s : St) : St × Bool :=
  match c with
  | .pw comb => saveRunRestore fx.pw E fault (comb.flatMap fun r => [Step.setRes r, Step.eval]) s
  | .pwBase comb => saveRunRestore fx.pwBase E fault (comb.flatMap fun l => [Step.setChains l, Step.eval]) s
  | .pwi => saveRunRestore fx.pwi E fault ((pairs E.nChains).flatMap fun l => [Step.setChains l, Step.eval]) s
  | .calFF nb res =>
    -- cahced_res = amp.used_res (all resonances); set_used_res(res); total; pair loop; set_used_res(cahced_res)
    let (s1, r, _) := runSteps E fault (Step.setRes res :: evals nb ++ ffPairs nb res) 0 s
    if fx.calFF then (restoreChains s s1, r)
    else if r then (s1, true) else (setUsedRes E s1 (allRes E), false)
  | .ffNew nb res =>
    let (s1, r, _) := ffNewBatches fx E fault res nb 0 s
    (s1, r)
  | .factorIter deep =>
    if deep = 0 then
      -- `yield None`
      let (s1, r, _) := runSteps E fault [Step.eval] 0 s
      (s1, r)
    else
      let (s1, r, _) := fiChains fx E fault deep s.chainsIdx 0 s
      if fx.factorIter then (restoreChains s s1, r)
      else if r then (s1, true) else ({ s1 with chainsIdx := s.chainsIdx }, false)
  | .bam =>
    let (s1, r, _) := bamChains fx E fault (List.range E.nChains) 0 s
    if fx.bam then (restoreChains s s1, r)
    else if r then (s1, true) else (setUsedChains E s1 s.chainsIdx, false)
  | .evalN n =>
    let (s1, r, _) := runSteps E fault (evals n) 0 s
    (s1, r)
  | .plotAll res =>
    -- weight of the fitted sample; used_res = amp.used_res (all resonances); for i in res: set_used_res(i); amp(phsp);
    -- set_used_res(used_res)
    let (s1, r, _) := runSteps E fault (Step.eval :: res.flatMap fun l => [Step.setRes l, Step.eval]) 0 s
    if fx.plotAll then (restoreChains s s1, r)
    else if r then (s1, true) else (setUsedRes E s1 (allRes E), false)
  | .likeProf v up down => execLikeProf fx.likeProf E fault v up down s
  | .paramsError p nfd => execParamsError fx.hesse fault p nfd s
  | .partialAmp zs =>
    -- `temp_var` as it is: params = vm.get_all_dic() (masked view); yield; vm.set_all(params) — the statements of the
    -- unpatched `AbsPDF.temp_params`; patched: stored values, `finally`
    let saved := s.view
    let s0 := { s with params := setVals (zs.map fun z => (z, Val.lit 0)) s.params }
    let (s1, r, _) := runSteps E fault [Step.eval] 0 s0
    if fx.tempVar then ({ s1 with params := s.params }, r)
    else if r then (s1, true) else ({ s1 with params := saved }, false)

/-! ## blocks -/

def execBlock (fx : Fix) (E : Env) (b : Block) (body : St → St × Bool) (s : St) : St × Bool :=
  match b with
  | .absTemp p =>
    if fx.absTemp then
      -- old = stored values; try: set_params(var); yield; finally: assign old
      let (ps, r) := setAll p s.params
      if r then ({ s with params := s.params }, true)
      else
        let (s2, r2) := body { s with params := ps }
        ({ s2 with params := s.params }, r2)
    else
      -- params = get_params() (masked view); set_params(var); yield; set_params(params)
      let saved := s.view
      let (ps, r) := setAll p s.params
      if r then ({ s with params := ps }, true)
      else
        let (s2, r2) := body { s with params := ps }
        if r2 then (s2, true) else ({ s2 with params := saved }, false)
  | .vmTemp p =>
    if p.any (fun kv => decide (s.params.length ≤ kv.1)) then (s, true)   -- `vm.get` raises "not found"
    else if fx.vmTemp then
      let old := p.map fun kv => (kv.1, getRaw s.params kv.1)
      let (ps, r) := setAll p s.params
      if r then ({ s with params := setVals old ps }, true)
      else
        let (s2, r2) := body { s with params := ps }
        ({ s2 with params := setVals old s2.params }, r2)
    else
      let old := p.map fun kv => (kv.1, getFit E s.params kv.1)
      let (ps, r) := setAll p s.params
      if r then ({ s with params := ps }, true)
      else
        let (s2, r2) := body { s with params := ps }
        if r2 then (s2, true) else ({ s2 with params := setVals old s2.params }, false)
  | .maskParams m =>
    let (s2, r2) := body { s with mask := m }
    if fx.vmMask || !r2 then ({ s2 with mask := s.mask }, r2) else (s2, r2)
  | .usedRes r =>
    let (s2, r2) := body (setUsedRes E s r)
    if fx.usedRes then (restoreChains s s2, r2)
    else if r2 then (s2, true) else ({ s2 with chainsIdx := s.chainsIdx }, false)
  | .glsOne =>
    let (s2, r2) := body { s with maskFactor := s.maskFactor.map fun _ => true }
    if fx.glsOne || !r2 then ({ s2 with maskFactor := s.maskFactor }, r2) else (s2, r2)
  | .tempConfig k v =>
    if s.config.length ≤ k then (s, true)   -- `get_config` raises: no such configuration
    else
      let old := s.config[k]?.getD (.lit 0)
      let (s2, r2) := body { s with config := s.config.set k v }
      if fx.tempConfig || !r2 then ({ s2 with config := s2.config.set k old }, r2) else (s2, r2)
  | .absTempSeq vals =>
    let (ps, r) := setSeq s.trainable vals s.params
    if fx.absTemp then
      if r then ({ s with params := s.params }, true)
      else
        let (s2, r2) := body { s with params := ps }
        ({ s2 with params := s.params }, r2)
    else
      let saved := s.view
      if r then ({ s with params := ps }, true)
      else
        let (s2, r2) := body { s with params := ps }
        if r2 then (s2, true) else ({ s2 with params := saved }, false)
  | .vmTempSeq _ => (s, true)   -- `params.keys()`: AttributeError

def exec (fx : Fix) (E : Env) : Prog → St → St × Bool
  | .skip, s => (s, false)
  | .raise, s => (s, true)
  | .compute c fault, s => execComp fx E c fault s
  | .setParams p, s =>
    let (ps, r) := setAll p s.params
    ({ s with params := ps }, r)
  | .block b body, s => execBlock fx E b (fun t => exec fx E body t) s
  | .seq p q, s =>
    let (s1, r) := exec fx E p s
    if r then (s1, true) else exec fx E q s1

/-- `applications.fit_fractions(amp, data, params=…, res=…, batch=…)` is a derived program. -/
def fitFractions (p : List (Nat × PV)) (nb : Nat) (res : List Sel) (new : Bool) (fault : Option Nat) : Prog :=
  .block (.absTemp p) (.compute (if new then .ffNew nb res else .calFF nb res) fault)

/-! ## further read-only entry points of the library as derived programs -/

/-- `ConfigLoader.cal_fitfractions(params, mcdata, res, batch, method)` = `fit_fractions(amp, …)`. -/
def cfgCalFitfractions := fitFractions

/-- `ConfigLoader.cal_signal_yields`: one `fit_fractions` per data set. -/
def calSignalYields (p : List (Nat × PV)) (nb : Nat) (res : List Sel) : List (Option Nat) → Prog
  | [] => .skip
  | f :: fs => .seq (fitFractions p nb res false f) (calSignalYields p nb res fs)

/-- `_cal_partial_wave` (the weight computation of `plot_partial_wave` / `_get_plot_partial_wave_input`):
`with amp.temp_params(params):` total weights in `nb` batches, then `amp.partial_weight(batch, combine=res)` per batch. -/
def pwBatches (comb : List (List Sel)) : List (Option Nat) → Prog
  | [] => .skip
  | f :: fs => .seq (.compute (.pw comb) f) (pwBatches comb fs)

def calPartialWave (p : List (Nat × PV)) (nb : Nat) (comb : List (List Sel)) (f0 : Option Nat)
    (fs : List (Option Nat)) : Prog :=
  .block (.absTemp p) (.seq (.compute (.evalN nb) f0) (pwBatches comb fs))

/-- the `weights_function` of `plot_partial_wave_interf`: three `temp_used_res` blocks with one evaluation each. -/
def interfWeights (r1 r2 : List Sel) (f1 f2 f3 : Option Nat) : Prog :=
  .seq (.block (.usedRes r1) (.compute (.evalN 1) f1))
    (.seq (.block (.usedRes r2) (.compute (.evalN 1) f2)) (.block (.usedRes (r1 ++ r2)) (.compute (.evalN 1) f3)))

/-- `cal_bins_numbers`: one evaluation of the density on the phase-space sample, nothing else touches the model. -/
def calBinsNumbers (f : Option Nat) : Prog := .compute (.evalN 1) f

/-- `BaseCustomModel.eval_normal_factors` (model/custom.py): per constrained fraction
`with temp_used_res(res): with mask_params(m): amp(mc)`. -/
def evalNormalFactors : List (List Sel × List (Nat × Val) × Option Nat) → Prog
  | [] => .compute (.evalN 1) none
  | (r, m, f) :: rest =>
    .seq (evalNormalFactors rest) (.block (.usedRes r) (.block (.maskParams m) (.compute (.evalN 1) f)))

/-! ## line protocol -/

abbrev P (α : Type) := List String → Option (α × List String)

def pNat : P Nat
  | w :: ws => w.toNat?.map fun n => (n, ws)
  | [] => none

def pBool : P Bool
  | "1" :: ws => some (true, ws)
  | "0" :: ws => some (false, ws)
  | _ => none

def pVal : P Val := fun ws => (pNat ws).map fun (n, r) => (Val.lit n, r)

def pList {α : Type} (p : P α) : P (List α) := fun ws =>
  match pNat ws with
  | none => none
  | some (n, rest) =>
    let rec go : Nat → List String → List α → Option (List α × List String)
      | 0, ws, acc => some (acc.reverse, ws)
      | k + 1, ws, acc =>
        match p ws with
        | none => none
        | some (a, ws') => go k ws' (a :: acc)
    go n rest []

def pPair {α β : Type} (p : P α) (q : P β) : P (α × β) := fun ws =>
  match p ws with
  | none => none
  | some (a, r) => (q r).map fun (b, r') => ((a, b), r')

def pPV : P PV
  | "bad" :: ws => some (.bad, ws)
  | ws => (pVal ws).map fun (v, r) => (.good v, r)

def pSel : P Sel
  | "r" :: ws => (pNat ws).map fun (n, r) => (.res n, r)
  | "i" :: ws => (pNat ws).map fun (n, r) => (.idx n, r)
  | _ => none

def pFault : P (Option Nat)
  | "-" :: ws => some (none, ws)
  | ws => (pNat ws).map fun (n, r) => (some n, r)

def pBlock : P Block
  | "at" :: ws => (pList (pPair pNat pPV) ws).map fun (p, r) => (.absTemp p, r)
  | "vt" :: ws => (pList (pPair pNat pPV) ws).map fun (p, r) => (.vmTemp p, r)
  | "mp" :: ws => (pList (pPair pNat pVal) ws).map fun (p, r) => (.maskParams p, r)
  | "ur" :: ws => (pList pSel ws).map fun (p, r) => (.usedRes p, r)
  | "g1" :: ws => some (.glsOne, ws)
  | "tc" :: ws => (pPair pNat pVal ws).map fun ((k, v), r) => (.tempConfig k v, r)
  | "ats" :: ws => (pList pPV ws).map fun (p, r) => (.absTempSeq p, r)
  | "vts" :: ws => (pList pPV ws).map fun (p, r) => (.vmTempSeq p, r)
  | _ => none

def pComp : P Comp
  | "pw" :: ws => (pList (pList pSel) ws).map fun (c, r) => (.pw c, r)
  | "pwb" :: ws => (pList (pList pNat) ws).map fun (c, r) => (.pwBase c, r)
  | "pwi" :: ws => some (.pwi, ws)
  | "cff" :: ws => (pPair pNat (pList pSel) ws).map fun ((nb, l), r) => (.calFF nb l, r)
  | "ffn" :: ws => (pPair pNat (pList pSel) ws).map fun ((nb, l), r) => (.ffNew nb l, r)
  | "fi" :: ws => (pNat ws).map fun (d, r) => (.factorIter d, r)
  | "bam" :: ws => some (.bam, ws)
  | "evn" :: ws => (pNat ws).map fun (n, r) => (.evalN n, r)
  | "pla" :: ws => (pList (pList pSel) ws).map fun (c, r) => (.plotAll c, r)
  | "lp" :: ws => (pPair pNat (pPair (pList pVal) (pList pVal)) ws).map fun ((v, u, d), r) => (.likeProf v u d, r)
  | "pe" :: ws => (pPair (pList (pPair pNat pPV)) pNat ws).map fun ((p, n), r) => (.paramsError p n, r)
  | "pam" :: ws => (pList pNat ws).map fun (z, r) => (.partialAmp z, r)
  | _ => none

def pProg : Nat → P Prog
  | 0, _ => none
  | fuel + 1, ws =>
    match ws with
    | "skip" :: r => some (.skip, r)
    | "raise" :: r => some (.raise, r)
    | "setp" :: r => (pList (pPair pNat pPV) r).map fun (p, r1) => (.setParams p, r1)
    | "cmp" :: r =>
      match pComp r with
      | none => none
      | some (c, r1) => (pFault r1).map fun (f, r2) => (.compute c f, r2)
    | "blk" :: r =>
      match pBlock r with
      | none => none
      | some (b, r1) => (pProg fuel r1).map fun (p, r2) => (.block b p, r2)
    | "seq" :: r =>
      match pProg fuel r with
      | none => none
      | some (p, r1) => (pProg fuel r1).map fun (q, r2) => (.seq p q, r2)
    | _ => none

def pFix : P Fix := fun ws =>
  match pList pBool ws with
  | some ([a, b, c, d, e, f, g, h, i, j, k, l, m, n, o, p, q, t], r) =>
    some (⟨a, b, c, d, e, f, g, h, i, j, k, l, m, n, o, p, q, t⟩, r)
  | _ => none

def pEnv : P Env := fun ws =>
  match pNat ws with
  | none => none
  | some (n, r0) =>
    match pList (pList pNat) r0 with
    | none => none
    | some (rc, r1) =>
      match pList pNat r1 with
      | none => none
      | some (bd, r2) =>
        match pList (pList (pList (pPair pNat pVal))) r2 with
        | none => none
        | some (fm, r3) => (pList (pList pNat) r3).map fun (cd, r4) => (⟨n, rc, bd, fm, cd⟩, r4)

def pSt : P St := fun ws =>
  match pList pVal ws with
  | none => none
  | some (ps, r0) =>
    match pList (pPair pNat pVal) r0 with
    | none => none
    | some (mk, r1) =>
      match pList pNat r1 with
      | none => none
      | some (ci, r2) =>
        match pBool r2 with
        | none => none
        | some (nf, r3) =>
          match pList pBool r3 with
          | none => none
          | some (mf, r4) =>
            match pList pVal r4 with
            | none => none
            | some (cf, r5) =>
              match pList (pList pNat) r5 with
              | none => none
              | some (ls, r6) => (pList pNat r6).map fun (tr, r7) => (⟨ps, mk, ci, nf, mf, cf, ls, tr⟩, r7)

def showVal : Val → String
  | .lit n => toString n
  | .y2x i v => "y" ++ toString i ++ "(" ++ showVal v ++ ")"
  | .f32 v => "f(" ++ showVal v ++ ")"
  | .tmp => "t"

def showL {α : Type} (f : α → String) (l : List α) : String :=
  " ".intercalate (toString l.length :: l.map f)

def showB (b : Bool) : String := if b then "1" else "0"

def showSt (s : St) : String :=
  " ".intercalate
    [ showL showVal s.params,
      showL (fun kv => toString kv.1 ++ " " ++ showVal kv.2) s.mask,
      showL toString s.chainsIdx,
      showB s.notFull,
      showL showB s.maskFactor,
      showL showVal s.config,
      showL (showL toString) s.ls,
      showL toString s.trainable ]

/-- `run <fix> <env> <state> <prog>` → `<raised> <state>` -/
def handle : List String → Option String
  | "run" :: ws =>
    match pFix ws with
    | none => none
    | some (fx, r0) =>
      match pEnv r0 with
      | none => none
      | some (E, r1) =>
        match pSt r1 with
        | none => none
        | some (s, r2) =>
          match pProg (r2.length + 1) r2 with
          | some (p, []) =>
            let (s', r) := exec fx E p s
            some (showB r ++ " " ++ showSt s')
          | _ => none
  | _ => none

end TfPwaV.Override
