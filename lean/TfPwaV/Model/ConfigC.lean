import TfPwaV.Model.Config
/-!
Model of the constraint part of the loader (C19): `ConfigLoader.add_constraints` of
`tf_pwa/config_loader/config_loader.py` (`add_decay_constraints`, `add_particle_constraints` with
`set_prefix_constrains`, `add_fix_var_constraints`, `add_free_var_constraints`, `add_var_range_constraints`,
`add_var_equal_constraints`, `add_gauss_constr_constraints`) on top of the variable creation of
`DecayGroup.init_params` (amp/core.py) and of the parts of `VarsManager` they use (`add_real_var`, `add_complex_var`,
`set_fix`, `set`, `set_same` for groups that do not overlap an earlier group).

The function is  card + `constrains` section  ↦  (ordered `vm.trainable_vars`, `bound_dic`, `vm.same_list`,
`gauss_constr_dic`, the values the loader assigns).  Numbers are opaque text (`Num`): the loader only moves them
around; `"None"` is Python `None`, `"?"` is a value the loader draws at random (never compared).

Second part: the shared cache that made /repo commit 0e31b14 necessary, as an explicit parameter (`CacheMode`,
`loadObs`, `runHistory`).
-/
namespace TfPwaV.ConfigC
open TfPwaV.Config

abbrev Num := String

/-- the `constrains` section -/
structure Constr where
  fixIdx : Nat := 0                              -- decay.fix_chain_idx
  fixVal : Num := "?"                            -- decay.fix_chain_val (default: np.random.uniform)
  fixVar : List (String × Num) := []             -- fix_var: {name: value}
  freeVar : List String := []                    -- free_var: [name]
  varRange : List (String × Num × Num) := []     -- var_range: {name: [lo, hi]}
  varEqual : List (List String) := []            -- var_equal: [[name, …]]
  gauss : List (String × Num × Num) := []        -- gauss_constr: {name: [mu, sigma]}
  equalMass : List (List Name) := []             -- particle.equal.mass: [[R1, R2]]
  deriving Repr

/-- the part of the `VarsManager` / `ConfigLoader` state the constraints touch -/
structure VM where
  vars : List String                    -- vm.variables (creation order)
  train : List String                   -- vm.trainable_vars (ORDER = optimiser coordinates)
  cell : List (String × String)         -- name ↦ name of the tf.Variable object it is bound to after `set_same`
  vals : List (String × Num)            -- object ↦ value assigned by the loader
  bound : List (String × Num × Num)     -- ConfigLoader.bound_dic
  same : List (List String)             -- vm.same_list
  gauss : List (String × Num × Num)     -- ConfigLoader.gauss_constr_dic
  deriving Repr

def VM.rep (s : VM) (n : String) : String := (getKV s.cell n).getD n
def VM.valOf (s : VM) (n : String) : Num := (getKV s.vals (s.rep n)).getD "?"

/-- `vm.set(name, value)` (no bound registered at load time) -/
def VM.setVal (s : VM) (name : String) (v : Num) : VM :=
  if s.vars.contains name then { s with vals := setKV s.vals (s.rep name) v } else s

/-- `vm.set_fix(name, value, unfix)`: `self.variables[name]` raises KeyError for an unknown name -/
def VM.setFix (s : VM) (name : String) (val : Option Num) (unfix : Bool) : Except String VM :=
  if !s.vars.contains name then .error "KeyError" else
  .ok { s with
    vals := match val with
      | some v => setKV s.vals (s.rep name) v
      | none => s.vals
    train := if unfix then (if s.train.contains name then s.train else s.train ++ [name]) else s.train.erase name }

/-- `same_real(name_list, name_list)` inside `set_same` -/
def VM.sameReal (s : VM) (names : List String) : VM :=
  match names.filter s.vars.contains with
  | [] => s
  | h :: rest =>
    { s with
      train := rest.foldl (fun tr n => if tr.contains n then tr.erase n else if tr.contains h then tr.erase h else tr) s.train
      cell := (h :: rest).foldl (fun c n => setKV c n (s.rep h)) s.cell }

/-- `vm.set_same(names)`; modelled for a group that shares no name with an earlier group -/
def VM.setSame (s : VM) (names : List String) : Except String VM :=
  if names.any (fun n => s.same.any (·.contains n)) then .error "unsupported"
  else .ok { (s.sameReal names) with same := s.same ++ [names] }

/-! ## creation: `DecayGroup.init_params` -/

/-- complex variable `head_i r/i`, `i < n`; `fix0`: `set_fix_idx(fix_idx=0)` right after creation -/
def tagged (head : String) (n : Nat) (fix0 : Bool) : List (String × Bool) :=
  (List.range n).flatMap fun i =>
    [(head ++ "_" ++ toString i ++ "r", !(fix0 && i == 0)), (head ++ "_" ++ toString i ++ "i", !(fix0 && i == 0))]

/-- every variable with its trainability at creation (same order as `Ctx.paramNames`) -/
def created (x : Ctx) (chains : List Chain) : List (String × Bool) :=
  let res := (resonances chains).flatMap fun n =>
    [(n ++ "_mass", false)] ++ (if hasWidth ((getKV x.props n).getD []) then [(n ++ "_width", false)] else [])
  let step := fun (st : List (String × Bool) × List BDecay) (c : Chain) =>
    c.foldl (fun (st : List (String × Bool) × List BDecay) d =>
      if st.2.any (fun e => e.same d) then st
      else (st.1 ++ tagged (decayHead d ++ "_g_ls") (x.ls d).length true, st.2 ++ [d]))
      (st.1 ++ tagged (chainHead c ++ "_total") 1 false, st.2)
  res ++ (chains.foldl step ([], [])).1

def numOf : PVal → Num
  | .spin j => toString j
  | .int i => toString i
  | .none => "None"
  | .other s => s

def optNum (v : Option PVal) : Num :=
  match v with
  | some x => numOf x
  | none => "None"

def isNoneV (v : Option PVal) : Bool :=
  match v with
  | none => true
  | some .none => true
  | _ => false

/-- Python truthiness of the values the grammar writes -/
def truthy : PVal → Bool
  | .none => false
  | .int i => i != 0
  | .spin j => j != 0
  | .other s => !(s == "False" || s == "0" || s == "0.0" || s == "" || s == "None")

def initVals (x : Ctx) (chains : List Chain) : List (String × Num) :=
  let res := (resonances chains).flatMap fun n =>
    let r := renameParams ((getKV x.props n).getD [])
    (match getKV r "mass" with
      | some .none => []
      | some v => [(n ++ "_mass", numOf v)]
      | none => []) ++
    (match getKV r "width" with
      | some .none => []
      | some v => [(n ++ "_width", numOf v)]
      | none => [])
  let g := (chains.flatMap id).flatMap fun d => [(decayHead d ++ "_g_ls_0r", "1.0"), (decayHead d ++ "_g_ls_0i", "0.0")]
  (res ++ g).foldl (fun acc kv => setKV acc kv.1 kv.2) []

def initVM (x : Ctx) (chains : List Chain) : VM :=
  let cr := created x chains
  { vars := cr.map (·.1), train := (cr.filter (·.2)).map (·.1), cell := [], vals := initVals x chains,
    bound := [], same := [], gauss := [] }

/-! ## `add_decay_constraints` -/

def decayStage (s : VM) (chains : List Chain) (k : Constr) : Except String VM :=
  match chains[k.fixIdx]? with
  | none => .error "IndexError"
  | some c => do
    let s ← s.setFix (chainHead c ++ "_total_0r") (some k.fixVal) false
    s.setFix (chainHead c ++ "_total_0i") (some "0.0") false

/-! ## `add_particle_constraints` -/

def prefixMap : List (String × String) := [("m0", "mass"), ("g0", "width"), ("m_", "mass_"), ("g_", "width_")]

/-- `params_dic` built from the raw particle dict -/
def paramsDic (pc : PDict) : PDict :=
  pc.foldl (fun acc kv =>
    let acc := prefixMap.foldl (fun acc pm =>
      if kv.1.startsWith pm.1 then setKV acc (pm.2 ++ (kv.1.drop pm.1.length).toString) kv.2 else acc) acc
    ["mass", "width", "mass_", "width_"].foldl (fun acc p => if kv.1.startsWith p then setKV acc kv.1 kv.2 else acc) acc) []

def tails : List String := ["_range", "_sigma", "_free", "_constr", "_min", "_max"]

def stripTail (v : String) : String :=
  match tails.find? (fun t => v.endsWith t) with
  | some t => (v.dropEnd t.length).toString
  | none => v

def parseRange (s : String) : Option (Num × Num) :=
  match ((((s.replace "[" "").replace "]" "").replace "(" "").replace ")" "").splitOn "," with
  | [a, b] => some (a, b)
  | _ => none

def setBound (s : VM) (n : String) (lo hi : Num) : VM := { s with bound := setKV s.bound n (lo, hi) }

/-- one iteration of the loop of `set_prefix_constrains` -/
def prefixStep (n : Name) (hasW : Bool) (pd : PDict) (st : VM × List String) (v : String) :
    Except String (VM × List String) :=
  let vname := stripTail v
  if st.2.contains vname then .ok st else
  let pl := st.2 ++ [vname]
  if !(vname == "mass" || (vname == "width" && hasW)) then .ok (st.1, pl) else
  let full := n ++ "_" ++ vname
  let get := fun (t : String) => getKV pd (vname ++ t)
  let pval : Option Num := if isNoneV (getKV pd vname) then none else some (optNum (getKV pd vname))
  let psig : Option Num := if isNoneV (get "_sigma") then none else some (optNum (get "_sigma"))
  let s := match pval with
    | some x => st.1.setVal full x
    | none => st.1
  do
  let s ← match get "_free" with
    | some f => if truthy f then s.setFix full none true else if f == .other "False" then s.setFix full none false else .ok s
    | none => .ok s
  let s := if !isNoneV (get "_range") then
      (match parseRange (optNum (get "_range")) with
        | some (lo, hi) => setBound s full lo hi
        | none => s)
    else if isNoneV (get "_min") && isNoneV (get "_max") then s
    else setBound s full (optNum (get "_min")) (optNum (get "_max"))
  if !isNoneV (get "_constr") && truthy ((get "_constr").getD .none) then
    match pval, psig with
    | some x, some sg => .ok ({ s with gauss := setKV s.gauss full (x, sg) }, pl)
    | _, _ => .error "Exception"
  else .ok (s, pl)

def parseGaussDict (s : String) : List (String × String) :=
  if s == "" then [] else (s.splitOn ";").filterMap fun kv =>
    match kv.splitOn "=" with
    | [a, b] => some (a, b)
    | _ => none

/-- body of the loop `for p_i in d.inner` for the particle `n` -/
def particleStep (props : List (Name × PDict)) (s : VM) (n : Name) : Except String VM :=
  match getKV props n with
  | none => .error "KeyError"
  | some pc => do
    let pd := paramsDic pc
    let hasW := hasWidth pc
    let (s, _) ← (pd.map (·.1)).foldlM (prefixStep n hasW pd) (s, [])
    -- `gauss_constr: {m: sigma, g: sigma}`
    let s ← match getKV pc "gauss_constr" with
      | some (.other g) => (parseGaussDict g).foldlM (fun (s : VM) kv =>
          if truthy (.other kv.2) then
            let full := n ++ "_" ++ (if kv.1 == "m" then "mass" else if kv.1 == "g" then "width" else kv.1)
            if s.vars.contains full then .ok { s with gauss := setKV s.gauss full (s.valOf full, kv.2) }
            else .error "Exception"
          else .error "Exception") s
      | _ => .ok s
    -- `float`
    match getKV pc "float" with
    | none => .ok s
    | some fv =>
      if !truthy fv then .ok s else do
      let fl := numOf fv
      let s ← if fl.contains 'm' then do
          let s ← s.setFix (n ++ "_mass") none true
          pure (setBound s (n ++ "_mass") (optNum (getKV pd "mass_min")) (optNum (getKV pd "mass_max")))
        else pure s
      if fl.contains 'g' then
        if !hasW then .error "AttributeError" else do
        let s ← s.setFix (n ++ "_width") none true
        pure (setBound s (n ++ "_width") (optNum (getKV pd "width_min")) (optNum (getKV pd "width_max")))
      else pure s

/-- `for d in decay_group: for p_i in d.inner` -/
def particleStage (props : List (Name × PDict)) (s : VM) (chains : List Chain) : Except String VM :=
  (chains.flatMap fun c => sortNames (chainInner c)).foldlM (particleStep props) s

/-- `equal: {mass: [[R1, R2]]}`: `arg_i.sameas(arg)` = `set_same([R2_mass, R1_mass])` -/
def equalStage (s : VM) (chains : List Chain) (groups : List (List Name)) : Except String VM :=
  groups.foldlM (fun (s : VM) vi =>
    match (resonances chains).filter vi.contains with
    | [] => .error "IndexError"
    | a0 :: rest => rest.foldlM (fun (s : VM) i => s.setSame [i ++ "_mass", a0 ++ "_mass"]) s) s

/-! ## the five name-addressed sections -/

def fixVarStage (s : VM) (l : List (String × Num)) : Except String VM :=
  l.foldlM (fun (s : VM) kv => s.setFix kv.1 (if kv.2 == "None" then none else some kv.2) false) s

def freeVarStage (s : VM) (l : List String) : Except String VM :=
  l.foldlM (fun (s : VM) k => s.setFix k none true) s

/-- `self.bound_dic[k] = v` — the name is NOT looked up -/
def varRangeStage (s : VM) (l : List (String × Num × Num)) : VM :=
  { s with bound := l.foldl (fun b kv => setKV b kv.1 kv.2) s.bound }

def varEqualStage (s : VM) (l : List (List String)) : Except String VM :=
  l.foldlM (fun (s : VM) g => s.setSame g) s

/-- `self.gauss_constr_dic.update(dic)` — the names are NOT looked up -/
def gaussStage (s : VM) (l : List (String × Num × Num)) : VM :=
  { s with gauss := l.foldl (fun b kv => setKV b kv.1 kv.2) s.gauss }

/-- `ConfigLoader.add_constraints` after `create_amplitude` -/
def constrain (x : Ctx) (chains : List Chain) (k : Constr) : Except String VM := do
  let s ← decayStage (initVM x chains) chains k
  let s ← particleStage x.props s chains
  let s ← equalStage s chains k.equalMass
  let s ← fixVarStage s k.fixVar
  let s ← freeVarStage s k.freeVar
  let s := varRangeStage s k.varRange
  let s ← varEqualStage s k.varEqual
  pure (gaussStage s k.gauss)

def Card.constraints (c : Card) (k : Constr) : Except String VM :=
  match c.expand with
  | .raise w => .error w
  | .ok ctx chains => constrain ctx chains k

/-! ## history: the cache of per-decay factors as explicit state

Before /repo commit 0e31b14 `get_cg_matrix` was memoised in a process-wide table keyed by the decay, and decays
compare by the NAMES of their particles; since then the memo lives on the decay object.  `CacheMode.byName` is the
former, `.byObject` the latter (a fresh object identity per load). -/

inductive CacheMode where
  | byName
  | byObject
  deriving DecidableEq, Repr

/-- what determines the CG factor of a decay: the three spins and the (l,s) list -/
abbrev Sig := Nat × Nat × Nat × List (Nat × Nat)

def sigOf (x : Ctx) (d : BDecay) : Sig :=
  ((qnOfName x.props d.core).j2, (qnOfName x.props d.o1).j2, (qnOfName x.props d.o2).j2, x.ls d)

/-- cache key: the decay object (identity of the load + the decay), or — keyed by name — the decay up to the order
of its daughters (`BaseDecay.__hash__/__eq__` use `(core, sorted(outs))`) -/
abbrev Key := Nat × BDecay

def normDecay (d : BDecay) : BDecay := if d.o2 < d.o1 then ⟨d.core, d.o2, d.o1⟩ else d

def keyOf (m : CacheMode) (loadId : Nat) (d : BDecay) : Key :=
  match m with
  | .byName => (0, normDecay d)
  | .byObject => (loadId, d)

abbrev Cache := List (Key × Sig)

def lookup (c : Cache) (k : Key) : Option Sig :=
  match c with
  | [] => none
  | (k', v) :: r => if k' = k then some v else lookup r k

/-- memoised evaluation of `f` over `xs` -/
def mapCached {α : Type} (key : α → Key) (f : α → Sig) : List α → Cache → List Sig × Cache
  | [], c => ([], c)
  | x :: xs, c =>
    match lookup c (key x) with
    | some v => let r := mapCached key f xs c; (v :: r.1, r.2)
    | none => let r := mapCached key f xs ((key x, f x) :: c); (f x :: r.1, r.2)

structure Proc where
  cache : Cache := []
  nextId : Nat := 1

def decaysOfOutcome : Outcome → Option (Ctx × List BDecay)
  | .raise _ => none
  | .ok ctx chains => some (ctx, chains.flatMap id)

/-- one load in a process: the factors the loaded model carries, and the process afterwards -/
def loadObs (m : CacheMode) (p : Proc) (c : Card) : List Sig × Proc :=
  match decaysOfOutcome c.expand with
  | none => ([], { p with nextId := p.nextId + 1 })
  | some (ctx, ds) =>
    let r := mapCached (keyOf m p.nextId) (sigOf ctx) ds p.cache
    (r.1, { cache := r.2, nextId := p.nextId + 1 })

def runHistory (m : CacheMode) (p : Proc) : List Card → Proc
  | [] => p
  | c :: cs => runHistory m (loadObs m p c).2 cs

/-- the factors of the card's own model -/
def ownObs (c : Card) : List Sig :=
  match decaysOfOutcome c.expand with
  | none => []
  | some (ctx, ds) => ds.map (sigOf ctx)

/-! ## line protocol: `C19k cons <card> @@K <constr>` / `C19k hist <mode> <card> @@H <card>` -/

def splitAt (sep : String) : List String → List String × List String
  | [] => ([], [])
  | w :: ws => if w == sep then ([], ws) else let r := splitAt sep ws; (w :: r.1, r.2)

def parseStr : List String → Option (String × List String)
  | w :: ws => some (w, ws)
  | [] => none

def parseNamed3 : List String → Option ((String × Num × Num) × List String)
  | a :: b :: c :: ws => some ((a, b, c), ws)
  | _ => none

def parseNamed2 : List String → Option ((String × Num) × List String)
  | a :: b :: ws => some ((a, b), ws)
  | _ => none

def parseConstr (ws : List String) : Option Constr := do
  let (fi, fv, ws) ← match ws with
    | "FI" :: i :: "FV" :: v :: ws => i.toNat?.map fun i => (i, v, ws)
    | _ => none
  let (fx, ws) ← match ws with
    | "FX" :: ws => parseCounted parseNamed2 ws
    | _ => none
  let (fr, ws) ← match ws with
    | "FR" :: ws => parseCounted parseStr ws
    | _ => none
  let (vr, ws) ← match ws with
    | "VR" :: ws => parseCounted parseNamed3 ws
    | _ => none
  let (ve, ws) ← match ws with
    | "VE" :: ws => parseCounted (parseCounted parseStr) ws
    | _ => none
  let (gc, ws) ← match ws with
    | "GC" :: ws => parseCounted parseNamed3 ws
    | _ => none
  let (eq, ws) ← match ws with
    | "EQ" :: ws => parseCounted (parseCounted parseStr) ws
    | _ => none
  let k : Constr := { fixIdx := fi, fixVal := fv, fixVar := fx, freeVar := fr, varRange := vr, varEqual := ve,
                      gauss := gc, equalMass := eq }
  if ws.isEmpty then some k else none

def show3 (l : List (String × Num × Num)) : String := " ".intercalate (l.map fun kv => kv.1 ++ "=" ++ kv.2.1 ++ "," ++ kv.2.2)

def showVM (s : VM) : String :=
  " # ".intercalate [" ".intercalate s.vars, " ".intercalate s.train, show3 s.bound,
    " ".intercalate (s.same.map fun g => ",".intercalate g), show3 s.gauss,
    " ".intercalate ((s.vars.filter fun n => s.valOf n != "?").map fun n => n ++ "=" ++ s.valOf n)]

def showSig (s : Sig) : String :=
  s!"{s.1}.{s.2.1}.{s.2.2.1}:" ++ ";".intercalate (s.2.2.2.map fun p => s!"{p.1},{p.2}")

def handle : List String → Option String
  | "cons" :: ws =>
    let (cw, kw) := splitAt "@@K" ws
    match parseCard cw, parseConstr kw with
    | some card, some k =>
      match Card.constraints card k with
      | .error w => some ("raise:" ++ w)
      | .ok s => some (showVM s)
    | _, _ => some "parse-error"
  | "hist" :: mode :: ws =>
    let (c1, c2) := splitAt "@@H" ws
    match parseCard c1, parseCard c2 with
    | some a, some b =>
      let m := if mode == "name" then CacheMode.byName else CacheMode.byObject
      let obs := (loadObs m (runHistory m {} [a]) b).1
      some ("|".intercalate (obs.map showSig) ++ " # " ++ "|".intercalate ((ownObs b).map showSig))
    | _, _ => some "parse-error"
  | _ => none

end TfPwaV.ConfigC
