import TfPwaV.Model.LS
/-!
Line-protocol extension of `TfPwaV.LS` (kept in its own file so that the heavy proof files importing `Model/LS.lean`
are not rebuilt): the user restrictions of `HelicityDecay.get_ls_list` (amp/core.py), `l_list` and `ls_list`, through the
definitions `LS.filterL` / `LS.filterLS` that `C13.ls_restrict` is about.
-/
namespace TfPwaV.LSX
open TfPwaV.LS

def parseNats (s : String) : Option (List Nat) :=
  if s == "-" then some [] else (s.splitOn ",").mapM fun w => w.toNat?

def parsePairs (s : String) : Option (List (Nat × Nat)) :=
  if s == "-" then some [] else (s.splitOn ";").mapM fun w =>
    match w.splitOn "," with
    | [a, b] => match a.toNat?, b.toNat? with
      | some a, some b => some (a, b)
      | _, _ => none
    | _ => none

def handle : List String → Option String
  -- `get_ls_list` with an `l_list` restriction: last word = comma separated l values ("-" = empty)
  | ["lsl", ja, jb, jc, pa, pb, pc, pbk, ca, ll] =>
    match ja.toNat?, jb.toNat?, jc.toNat?, parseNats ll with
    | some ja, some jb, some jc, some ll =>
      some (showList (filterL (lsList ja jb jc (parseOptInt pa) (parseOptInt pb) (parseOptInt pc) (pbk == "1") (parseOptInt ca)) ll))
    | _, _, _, _ => none
  -- `ls_list` restriction: last word = `l,2s;l,2s;…` ("-" = empty)
  | ["lss", ja, jb, jc, pa, pb, pc, pbk, ca, sel] =>
    match ja.toNat?, jb.toNat?, jc.toNat?, parsePairs sel with
    | some ja, some jb, some jc, some sel =>
      some (showList (filterLS (lsList ja jb jc (parseOptInt pa) (parseOptInt pb) (parseOptInt pc) (pbk == "1") (parseOptInt ca)) sel))
    | _, _, _, _ => none
  -- count clause: number of helicity pairs with |λb−λc| ≤ ja (`LS.helCount`, the definition `C13.ls_count_broken_all` is about)
  | ["hel", ja, jb, jc] =>
    match ja.toNat?, jb.toNat?, jc.toNat? with
    | some ja, some jb, some jc => some (toString (helCount ja jb jc))
    | _, _, _ => none
  -- number of parity orbits compatible with η = p·(−1)^(ja−jb−jc) (`LS.helCountParity` of `LS.etaOf`, as in `C13.ls_count_parity_all`)
  | ["help", ja, jb, jc, p] =>
    match ja.toNat?, jb.toNat?, jc.toNat?, p.toInt? with
    | some ja, some jb, some jc, some p => some (toString (helCountParity ja jb jc (etaOf ja jb jc p)))
    | _, _, _, _ => none
  | ws => LS.handle ws

end TfPwaV.LSX
