/-!
Bookkeeping of `tf_pwa.particle.DecayChain` as used by `tf_pwa/data_trans/helicity_angle.py` (C11, `Props/C11e.lean`):
a chain is the LIST of its decays in LISTING order (`DecayChain.chain`, iterated by `for i in self.decay_chain`,
`enumerate(self.decay_chain)`), particles are numbered.  Core Lean only (no Mathlib), scalar-free; the scalar part is
`templates/CascadeL.lean.in`.
-/
namespace TfPwaV.ChainL

/-- a two-body decay `core → o1 + o2` (`BaseDecay(core, [outs[0], outs[1]])`) -/
structure Dec where
  core : Nat
  o1 : Nat
  o2 : Nat
deriving DecidableEq, Repr

/-- `node_map = {i.core: i for i in self.chain}` of `DecayChain.depth_first` (a dict comprehension: the LAST listed decay
of a core wins), joined with the position `j` the decay has in `enumerate(self.decay_chain)` (`build_data` stores the
positional `costheta[j]`, `phi[j]` under the key `data[dec]`) -/
def lookupAux (p : Nat) : List Dec → Nat → Option (Nat × Dec) → Option (Nat × Dec)
  | [], _, acc => acc
  | d :: ds, j, acc => lookupAux p ds (j + 1) (if d.core = p then some (j, d) else acc)

def lookup (ch : List Dec) (p : Nat) : Option (Nat × Dec) := lookupAux p ch 0 none

/-- the decay tree as `depth_first()` walks it: particle ids, and at every decay its position `j` in the listing -/
inductive ITree where
  | leaf (id : Nat)
  | node (id j : Nat) (a b : ITree)
deriving Repr

/-- `DecayChain.depth_first()` (`node_first=True`): `_dep(t)` looks `t` up in `node_map`, yields the decay, then recurses
into `outs[0]`, `outs[1]`.  `fuel` bounds the recursion depth (Python: unbounded; a tree with `n` decays has depth ≤ n). -/
def depthFirst (ch : List Dec) : Nat → Nat → ITree
  | 0, p => .leaf p
  | fuel + 1, p =>
    match lookup ch p with
    | none => .leaf p
    | some (j, d) => .node p j (depthFirst ch fuel d.o1) (depthFirst ch fuel d.o2)

def depthFirstTop (ch : List Dec) (top : Nat) : ITree := depthFirst ch (ch.length + 1) top

def ITree.id : ITree → Nat
  | .leaf i => i
  | .node i _ _ _ => i

/-- listing positions of the decays in depth-first pre-order (the order of `create_rotate_p_decay`'s loop) -/
def ITree.idxs : ITree → List Nat
  | .leaf _ => []
  | .node _ j a b => j :: (a.idxs ++ b.idxs)

/-- all particles, pre-order -/
def ITree.ids : ITree → List Nat
  | .leaf i => [i]
  | .node i _ a b => i :: (a.ids ++ b.ids)

/-- final-state particles in depth-first order -/
def ITree.leafIds : ITree → List Nat
  | .leaf i => [i]
  | .node _ _ a b => a.leafIds ++ b.leafIds

/-- `split_particle_type_list`: the top particles are the cores that are nobody's daughter (`DecayChain.__init__`
asserts that there is exactly one) -/
def tops (ch : List Dec) : List Nat :=
  ((ch.map (·.core)).filter fun c => !(ch.any fun d => d.o1 == c || d.o2 == c)).eraseDups

/-- key order of the dict built by `HelicityAngle.get_all_mass` (= `DecayChain.get_all_particles`): first occurrence in
`core, outs[0], outs[1]` of the decays in listing order -/
def allParticles (ch : List Dec) : List Nat := (ch.flatMap fun d => [d.core, d.o1, d.o2]).eraseDups

/-! ### ground truth: a labelled binary decay tree and its decays -/

inductive LTree where
  | leaf (id : Nat)
  | node (id : Nat) (a b : LTree)

def LTree.id : LTree → Nat
  | .leaf i => i
  | .node i _ _ => i

/-- the decays of the tree (depth-first pre-order; any permutation of this list is a listing of the same chain) -/
def LTree.decs : LTree → List Dec
  | .leaf _ => []
  | .node i a b => ⟨i, a.id, b.id⟩ :: (a.decs ++ b.decs)

def LTree.cores : LTree → List Nat
  | .leaf _ => []
  | .node i a b => i :: (a.cores ++ b.cores)

def LTree.leafIds : LTree → List Nat
  | .leaf i => [i]
  | .node _ a b => a.leafIds ++ b.leafIds

def LTree.depth : LTree → Nat
  | .leaf _ => 0
  | .node _ a b => max a.depth b.depth + 1

/-- the tree `depth_first()` is expected to walk for a listing `ch` of the decays of `t`:
same shape, every decay tagged with its position in `ch` -/
def LTree.tag (ch : List Dec) : LTree → ITree
  | .leaf i => .leaf i
  | .node i a b => .node i (ch.idxOf (⟨i, a.id, b.id⟩ : Dec)) (a.tag ch) (b.tag ch)

/-- parse `n top (core o1 o2)×n rest…` -/
def parseChain : List Nat → Option (List Dec × Nat × List Nat)
  | n :: top :: rest =>
    let rec go : Nat → List Nat → List Dec → Option (List Dec × List Nat)
      | 0, r, acc => some (acc.reverse, r)
      | k + 1, c :: a :: b :: r, acc => go k r (⟨c, a, b⟩ :: acc)
      | _, _, _ => none
    match go n rest [] with
    | some (ch, r) => some (ch, top, r)
    | none => none
  | _ => none

def showNats (l : List Nat) : String := " ".intercalate (l.map toString)

/-- scalar-free ops: `shape n top decs…` → `tops… | depth-first listing positions… | leaf ids… | all particles…` -/
def handle : List String → Option String
  | "shape" :: ws => do
    let xs ← ws.mapM String.toNat?
    let (ch, top, _) ← parseChain xs
    let S := depthFirstTop ch top
    some (showNats (tops ch) ++ " | " ++ showNats S.idxs ++ " | " ++ showNats S.leafIds ++ " | " ++ showNats (allParticles ch))
  | _ => none

end TfPwaV.ChainL
