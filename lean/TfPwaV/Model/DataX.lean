import TfPwaV.Model.Data
/-
Second part of the model of `tf_pwa/data.py` and of the data plumbing of `tf_pwa/config_loader/data.py` (C18, round 2).
Same data trees `D α` as `Model/Data.lean`.  Mirrored here, as the code is:

    data_shape(data, all_list)          leafList / leafLens / dataShape
    data_strip(data, keys)              strip
    data_replace(data, key, value)      replace          (dict: `type(data)({**data, key: value})`; LazyCall: copy + __setitem__)
    flatten_dict_data(data)             flatten          (sequential `ret[key] = value`, collisions overwrite in place)
    data_cut(data, expr, var_map)       cut              (mask computed from one addressed 1-d leaf)
    batch_sum(f, data, b)               batchSumV        (`ret[0] + ret[1] + ...`, IndexError for no batch)
    check_nan(data, no_raise)           checkNan
    LazyCall.__setitem__/__getitem__/get/copy/create_new/merge/as_dataset/__iter__/eval, LazyFile, EvalLazy   (structure `Lazy`)
    SimpleData.get_dat_order / savetxt / load_p4                saveOrd / loadOrd
    SimpleData.load_weight_file / load_extra_var                loadWeightFiles / loadExtra
-/
namespace TfPwaV.DataX
open TfPwaV.Data

variable {α β γ : Type}

-- data_shape --------------------------------------------------------------------------------

mutual
/-- the arrays in the order `data_map` visits them (`flatten` inside `data_shape`) -/
def leafList : D α → List (List α)
  | .leaf r => [r]
  | .node _ ch => leafListCh ch
def leafListCh : List (String × D α) → List (List α)
  | [] => []
  | (_, v) :: rest => leafList v ++ leafListCh rest
end

/-- `[s[0] for s in data_shape(data, all_list=True)]` -/
def leafLens (d : D α) : List Nat := (leafList d).map List.length

/-- `data_shape(data)` = `shapes[0][0]`; `none`: IndexError (no array) -/
def dataShape (d : D α) : Option Nat := (leafLens d).head?

-- data_strip --------------------------------------------------------------------------------

mutual
/-- `data_strip(data, keys)`: dict entries whose key is in `keys` are dropped at every depth; list / tuple kept -/
def strip (ks : List String) : D α → D α
  | .leaf r => .leaf r
  | .node k ch => .node k (stripCh (k == .dict) ks ch)
def stripCh (isDict : Bool) (ks : List String) : List (String × D α) → List (String × D α)
  | [] => []
  | (k, v) :: rest =>
    if isDict && ks.contains k then stripCh isDict ks rest
    else (k, strip ks v) :: stripCh isDict ks rest
end

-- data_replace --------------------------------------------------------------------------------

/-- `type(data)({**data, key: value})`; `none`: TypeError (`**` of a list / tuple / array) -/
def replace (d : D α) (k : String) (v : D α) : Option (D α) := setItem d k v

-- flatten_dict_data ---------------------------------------------------------------------------

/-- `ret[k] = v` on a Python dict given as its item list: an existing key keeps its place -/
def setKV (kv : List (String × β)) (k : String) (v : β) : List (String × β) :=
  if kv.any (fun p => p.1 == k) then kv.map fun p => if p.1 == k then (p.1, v) else p
  else kv ++ [(k, v)]

/-- a sequence of assignments `ret[k] = v` -/
def insAll (acc ins : List (String × β)) : List (String × β) :=
  ins.foldl (fun a p => setKV a p.1 p.2) acc

/-- `str(key)`: "@name" is a key object printing as `name`, "#3" is the Python int 3 -/
def strKey (k : String) : String :=
  if k.startsWith "@" || k.startsWith "#" then (k.drop 1).toString else k

mutual
/-- the assignments caused by one child `(i, data_i)` of the loop in `flatten_dict_data`:
    `tmp = flatten_dict_data(data_i)`; a container gives `ret["{}/{}".format(i, j)] = tmp_j` for its items,
    an array gives `ret[i] = tmp`.  `key` is `i` itself, `strKey key` its `str()`. -/
def flatV (key : String) : D α → List (String × List α)
  | .leaf r => [(key, r)]
  | .node k ch =>
    (insAll [] (flatIns (k == .dict) 0 ch)).map fun p => (strKey key ++ "/" ++ strKey p.1, p.2)
def flatIns (isDict : Bool) (i : Nat) : List (String × D α) → List (String × List α)
  | [] => []
  | (k, v) :: rest => flatV (if isDict then k else "#" ++ toString i) v ++ flatIns isDict (i + 1) rest
end

/-- `flatten_dict_data(data)` for a container (an array is returned as it is) -/
def flatten : D α → List (String × List α)
  | .leaf _ => []
  | .node k ch => insAll [] (flatIns (k == .dict) 0 ch)

-- data_cut ------------------------------------------------------------------------------------

/-- `data_cut(data, "v <cmp> c", var_map={"v": path})`: the mask is computed row by row from the addressed leaf -/
def cut (path : List Key) (pred : α → Bool) (d : D α) : Option (D α) :=
  match index d path with
  | some (.leaf rows) => mask (rows.map pred) d
  | _ => none

-- batch_sum -----------------------------------------------------------------------------------

/-- `batch_sum(f, data, b)`: `tmp = ret[0]; for i in ret[1:]: tmp = tmp + i`; `none`: IndexError (no batch) -/
def batchSumOver {δ : Type} (f : δ → γ) (add : γ → γ → γ) (pieces : List δ) : Option γ :=
  match pieces.map f with
  | [] => none
  | x :: xs => some (xs.foldl add x)

def batchSumV (fixed : Bool) (f : D α → γ) (add : γ → γ → γ) (b : Nat) (d : D α) : Option γ :=
  batchSumOver f add (splitV fixed b d)

-- check_nan -----------------------------------------------------------------------------------

mutual
/-- `check_nan(data, no_raise=True)`: same structure with `True` / `False` per array (here a one-row leaf) -/
def checkNan (bad : α → Bool) (t f : α) : D α → D α
  | .leaf r => .leaf [if r.any bad then f else t]
  | .node k ch => .node k (checkNanCh bad t f ch)
def checkNanCh (bad : α → Bool) (t f : α) : List (String × D α) → List (String × D α)
  | [] => []
  | (k, v) :: rest => (k, checkNan bad t f v) :: checkNanCh bad t f rest
end

/-- `check_nan(data)`: raises (`none`) when any array holds a NaN -/
def checkNanRaise (bad : α → Bool) (t f : α) (d : D α) : Option (D α) :=
  if (leafList d).any (fun r => r.any bad) then none else some (checkNan bad t f d)

-- LazyCall as an object -------------------------------------------------------------------------

/-- the state of a `LazyCall` that the data helpers read: `x`, `extra` (a dict), `batch_size`.
    The function `f` is a parameter of `eval` / `iter` (it never changes). -/
structure Lazy (α β : Type) where
  x : D α
  extra : List (String × D β)
  batch : Option Nat

/-- `LazyCall(f, x)` -/
def Lazy.new (x : D α) : Lazy α β := ⟨x, [], none⟩

/-- `L[k] = v` -/
def Lazy.setItem (L : Lazy α β) (k : String) (v : D β) : Lazy α β := { L with extra := dictSet L.extra k v }

/-- `L[k]` / `L.get(k)`; `none` is the default value `None` -/
def Lazy.getItem (L : Lazy α β) (k : String) : Option (D β) := lookup k L.extra

/-- `L.copy()`: `create_new(f, x)` + `extra.copy()`; batch size and cache are those of a new object -/
def Lazy.copy (L : Lazy α β) : Lazy α β := ⟨L.x, L.extra, none⟩

/-- `data_replace(L, k, v)` -/
def Lazy.replace (L : Lazy α β) (k : String) (v : D β) : Lazy α β := (L.copy).setItem k v

/-- `L.as_dataset(b)` (plain function) -/
def Lazy.asDataset (L : Lazy α β) (b : Nat) : Lazy α β := { L with batch := some b }

/-- `L.eval()` -/
def Lazy.eval (f : D α → D β) (L : Lazy α β) : Option (D β) := lazyEval f L.x (.node .dict L.extra)

/-- `iter(L)` (fixed code); `none`: AssertionError without batch size, or a non-dict batch -/
def Lazy.iter (f : D α → D β) (L : Lazy α β) : Option (List (D β)) :=
  match L.batch with
  | none => none
  | some b => lazyIterF f L.x (.node .dict L.extra) b

/-- `LazyCall.merge(L, *others)` = `data_merge(L, *others)`: `x` and `extra` are merged separately -/
def Lazy.merge (L : Lazy α β) (others : List (Lazy α β)) : Option (Lazy α β) :=
  match merge1 (D.node .dict L.extra) (others.map fun o => D.node .dict o.extra), merge1 L.x (others.map (·.x)) with
  | some (.node .dict e), some x => some ⟨x, e, none⟩
  | _, _ => none

/-- `LazyCall(g, LazyFile(x))`: `LazyFile` is the LazyCall of the identity with `eval() = x` -/
def lazyFileIter (g : D α → D β) (x : D α) (e2 : D β) (b : Nat) : Option (List (D β)) :=
  lazyIterNestedF g id x (.node .dict []) e2 b

def lazyFileEval (g : D α → D β) (x : D α) (e2 : D β) : Option (D β) := lazyEval g x e2

/-- `EvalLazy(g)(x)`: a LazyCall argument is evaluated first -/
def evalLazy (f : D α → D β) (g : D β → γ) : Sum (Lazy α β) (D β) → Option γ
  | .inl L => (L.eval f).map g
  | .inr d => some (g d)

-- dat_order: SimpleData.savetxt / load_p4 ------------------------------------------------------

def lookupP (k : String) : List (String × β) → Option β
  | [] => none
  | (k', v) :: rest => if k' = k then some v else lookupP k rest

/-- `SimpleData.savetxt(file, data)`: `p4 = [data[i] for i in dat_order]`, then the `savetxt` layout -/
def saveOrd (order : List String) (data : List (String × List α)) : Option (List α) :=
  (order.mapM fun k => lookupP k data).map saveTxt

/-- `SimpleData.load_p4(files)` = `load_dat_file(files, dat_order)`: `ret[particles[idx]] = column idx` -/
def loadOrd (order : List String) (files : List (List α)) : Option (List (String × List α)) :=
  (loadDat order.length files none true).map fun ps => insAll [] (order.zip ps)

-- weight / charge side files ----------------------------------------------------------------------

/-- `load_weight_file(files)`: `np.concatenate` of the flattened files in the given order -/
def loadWeightFiles (files : List (List β)) : List β := files.flatten

/-- `load_extra_var`: a number is broadcast, a file (list) is cut to the first `n_data` entries -/
def loadExtra (nData : Nat) : Sum β (List (List β)) → List β
  | .inl c => List.replicate nData c
  | .inr files => (loadWeightFiles files).take nData

-- line protocol ---------------------------------------------------------------------------------

def NAN : Int := 99999

def showFlat (kv : List (String × List Row)) : String :=
  "ok " ++ toString kv.length ++ " ; " ++ " ; ".intercalate (kv.map fun p => p.1 ++ " " ++ showTree false (.leaf p.2))

def sumAll (d : D Row) : Int := ((leafList d).map fun rs => (rs.map fun r => r.foldl (· + ·) 0).foldl (· + ·) 0).foldl (· + ·) 0

def cmpPred (op : String) (c : Int) (r : Row) : Bool :=
  let v := r.head?.getD 0
  match op with
  | "gt" => v > c
  | "lt" => v < c
  | "ge" => v ≥ c
  | _ => v ≤ c

/-- `n (key tree)*`: a sequence of `L[key] = tree` -/
partial def parseSets (n : Nat) (ws : List String) : Option (List (String × D Row) × List String) :=
  if n = 0 then some ([], ws) else
    match ws with
    | k :: ws => do
      let (t, ws) ← parseTree ws
      let (r, ws) ← parseSets (n - 1) ws
      some ((k, t) :: r, ws)
    | [] => none

def mkLazy (x : D Row) (sets : List (String × D Row)) : Lazy Row Row :=
  sets.foldl (fun L p => L.setItem p.1 p.2) (Lazy.new x)

def dictOf : D Row → Option (List (String × D Row))
  | .node .dict kv => some kv
  | _ => none

def handle : List String → Option String
  | "shape" :: rest => do
    let (t, _) ← parseTree rest
    let s := match dataShape t with | some n => toString n | none => "none"
    some (s ++ " | " ++ ",".intercalate ((leafLens t).map toString))
  | "strip" :: nk :: rest => do
    let nk ← nk.toNat?
    let (t, _) ← parseTree (rest.drop nk)
    some (showTree false (strip (rest.take nk) t))
  | "replace" :: k :: rest => do
    let (t, rest) ← parseTree rest
    let (v, _) ← parseTree rest
    some (showOpt false (replace t k v))
  | "flatten" :: rest => do
    let (t, _) ← parseTree rest
    some (showFlat (flatten t))
  | "cut" :: op :: c :: nk :: rest => do
    let nk ← nk.toNat?
    let (t, _) ← parseTree (rest.drop nk)
    some (showOpt false (cut ((rest.take nk).map parseKey) (cmpPred op (← c.toInt?)) t))
  | "bsum" :: v :: b :: rest => do
    let (t, _) ← parseTree rest
    match batchSumV (v == "1") sumAll (· + ·) (← b.toNat?) t with
    | some s => some ("ok " ++ toString s)
    | none => some "none"
  | "checknan" :: nr :: rest => do
    let (t, _) ← parseTree rest
    let bad : Row → Bool := fun r => r.any (· == NAN)
    if nr == "1" then some (showOpt false (some (checkNan bad [1] [0] t)))
    else some (showOpt false (checkNanRaise bad [1] [0] t))
  | "lazyget" :: key :: n :: rest => do
    let (sets, _) ← parseSets (← n.toNat?) rest
    let L := mkLazy (.node .dict []) sets
    some (",".intercalate (L.extra.map (·.1)) ++ " | " ++ showOpt false (L.getItem key))
  | "lazyreplace" :: fid :: key :: rest => do
    let (x, rest) ← parseTree rest
    let (e, rest) ← parseTree rest
    let (v, _) ← parseTree rest
    let f := testF (← fid.toNat?)
    let L : Lazy Row Row := ⟨x, ← dictOf e, none⟩
    some (showOpt true ((L.replace key v).eval f) ++ " | " ++ showOpt true (L.eval f))
  | "lazymerge" :: fid :: b :: m :: rest => do
    let f := testF (← fid.toNat?)
    let b ← b.toNat?
    let (ts, _) ← parseTrees (2 * (← m.toNat?)) rest
    let rec pairs : List (D Row) → Option (List (Lazy Row Row))
      | x :: e :: r => do some (⟨x, ← dictOf e, none⟩ :: (← pairs r))
      | _ => some []
    match ← pairs ts with
    | [] => none
    | L :: others =>
      match L.merge others with
      | none => some "none"
      | some M =>
        let it := match (M.asDataset b).iter f with
          | some ps => showOpt true (merge ps)
          | none => "none"
        some (showOpt true (M.eval f) ++ " | " ++ it)
  | "lazyfile" :: gid :: b :: rest => do
    let (x, rest) ← parseTree rest
    let (e2, _) ← parseTree rest
    let g := testF (← gid.toNat?)
    let it := match lazyFileIter g x e2 (← b.toNat?) with
      | some ps => showOpt true (merge ps)
      | none => "none"
    some (it ++ " | " ++ showOpt true (lazyFileEval g x e2))
  | "datord" :: n :: rest => do
    let n ← n.toNat?
    let order := rest.take n
    let (t, _) ← parseTree (rest.drop n)
    let kv ← dictOf t
    let data ← kv.mapM fun p => (asLeaf p.2).map fun r => (p.1, r)
    match saveOrd order data with
    | none => some "none"
    | some file =>
      match loadOrd order [file] with
      | none => some (showTree false (.leaf file) ++ " | none")
      | some back => some (showTree false (.leaf file) ++ " | " ++ showTree false (.node .dict (back.map fun p => (p.1, .leaf p.2))))
  | "loadw" :: n :: nf :: rest => do
    let (fs, _) ← parseTrees (← nf.toNat?) rest
    let files ← fs.mapM asLeaf
    some (showTree false (.leaf (loadExtra (← n.toNat?) (.inr files))))
  | _ => none

end TfPwaV.DataX
