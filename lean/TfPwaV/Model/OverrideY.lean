import TfPwaV.Model.Override
/-!
# C17, round 4: selection statements in block bodies, the block `keep_used_chains`

`Model/Override.lean` has one kind of PERMANENT edit by the user code of a body (`setParams`).  Here the grammar gets
the permanent edits of the chain selection,

* `addUsedChains l`  = `decay_group.add_used_chains(l)`  (edits the active list IN PLACE, `not_full` untouched),
* `setUsedChains l`  = `decay_group.set_used_chains(l)`  (binds a new list, recomputes `not_full`),
* `setUsedRes r`     = `decay_group.set_used_res(r)`     (`set_used_chains` of the chains that contain a named
  resonance, then `add_used_chains` of the integer entries),

and the block `keepChains` = `with decay_group.keep_used_chains():` — the save / restore block behind `temp_used_res`,
`partial_weight*`, the fit-fraction routines, `factor_iteration`, `build_amp_matrix`, `PlotAllData`.

Blocks and computations are those of `Override` (`execBlock`, `execComp` are reused, not copied): `embed` maps the
old programs into the new grammar and `execY_embed` (Proofs/OverrideY.lean) says the semantics agree.

`keep_used_chains` as it is in the tree: `old_idx, old_not_full = list(self.chains_idx), self.not_full; try: yield;
finally: self.chains_idx, self.not_full = old_idx, old_not_full` — the saved selection is a COPY, so no statement
of the body can reach it.  In the tree before `fix_C17_used_chains.diff` the method does not exist
(`AttributeError` before anything is touched).

`SelStmt` / `runSel` / `savedLive`: the straight-line selection bodies, with the value the SAVED list has at exit
when the block keeps the live list object instead of a copy (`savedLive`; in-place edits before the first rebinding
reach it) — the variant refuted in Props/C17c.lean.  Mathlib-free.
-/
namespace TfPwaV.OverrideY
open TfPwaV.Override

inductive ProgY where
  | skip
  | raise
  | compute (c : Comp) (fault : Option Nat)
  | setParams (p : List (Nat × PV))
  | addUsedChains (l : List Nat)
  | setUsedChains (l : List Nat)
  | setUsedRes (r : List Sel)
  | block (b : Block) (body : ProgY)
  | keepChains (body : ProgY)
  | seq (p q : ProgY)
  deriving DecidableEq, Repr

/-- `DecayGroup.add_used_chains`: appends the indices that are not active yet; `not_full` is not recomputed. -/
def addUsedChains (s : St) (l : List Nat) : St := { s with chainsIdx := addUsed s.chainsIdx l }

/-- `with decay_group.keep_used_chains(): body` -/
def execKeep (fx : Fix) (body : St → St × Bool) (s : St) : St × Bool :=
  if fx.usedRes then
    let (s2, r2) := body s
    (restoreChains s s2, r2)
  else (s, true)   -- no such method before the patch: AttributeError

def execY (fx : Fix) (E : Env) : ProgY → St → St × Bool
  | .skip, s => (s, false)
  | .raise, s => (s, true)
  | .compute c fault, s => execComp fx E c fault s
  | .setParams p, s =>
    let (ps, r) := setAll p s.params
    ({ s with params := ps }, r)
  | .addUsedChains l, s => (addUsedChains s l, false)
  | .setUsedChains l, s => (setUsedChains E s l, false)
  | .setUsedRes r, s => (setUsedRes E s r, false)
  | .block b body, s => execBlock fx E b (fun t => execY fx E body t) s
  | .keepChains body, s => execKeep fx (fun t => execY fx E body t) s
  | .seq p q, s =>
    let (s1, r) := execY fx E p s
    if r then (s1, true) else execY fx E q s1

/-- the programs of `Override` in the new grammar -/
def embed : Prog → ProgY
  | .skip => .skip
  | .raise => .raise
  | .compute c f => .compute c f
  | .setParams p => .setParams p
  | .block b body => .block b (embed body)
  | .seq p q => .seq (embed p) (embed q)

/-! ## straight-line selection bodies; the saved list when it is the live object -/

inductive SelStmt where
  | add (l : List Nat)
  | set (l : List Nat)
  | res (r : List Sel)
  deriving DecidableEq, Repr

def SelStmt.toProg : SelStmt → ProgY
  | .add l => .addUsedChains l
  | .set l => .setUsedChains l
  | .res r => .setUsedRes r

def selBody : List SelStmt → ProgY
  | [] => .skip
  | st :: rest => .seq st.toProg (selBody rest)

def runSel (E : Env) : List SelStmt → St → St
  | [], s => s
  | .add l :: rest, s => runSel E rest (addUsedChains s l)
  | .set l :: rest, s => runSel E rest (setUsedChains E s l)
  | .res r :: rest, s => runSel E rest (setUsedRes E s r)

/-- the value of the saved list at exit when `keep_used_chains` keeps the LIVE list (`old_idx = self.chains_idx`):
`add_used_chains` edits it in place as long as no statement has bound a new list to `chains_idx` -/
def savedLive : List SelStmt → List Nat → List Nat
  | .add l :: rest, saved => savedLive rest (addUsed saved l)
  | _, saved => saved

/-- `keep_used_chains` with the live list saved, around a straight-line selection body (normal exit or a raise after
the statements: the `finally` is the same) -/
def execKeepLive (E : Env) (stmts : List SelStmt) (s : St) : St :=
  { runSel E stmts s with chainsIdx := savedLive stmts s.chainsIdx, notFull := s.notFull }


/-! ## per-object `mask_factor` flags with shared objects (`temp_total_gls_one`)

`m : List Bool` is the flag of every DISTINCT chain / decay object (by identity); `visit` is the `mask_part` list of the
code: the objects in visiting order, a decay object shared by several chains appears once per chain. -/

def getFlag (m : List Bool) (i : Nat) : Bool := m[i]?.getD false

/-- `old_mask = [getattr(i, "mask_factor", False) for i in mask_part]` -/
def saveAll (m : List Bool) (visit : List Nat) : List Bool := visit.map (getFlag m)

/-- `for i in mask_part: i.mask_factor = True` -/
def setAllTrue (m : List Bool) : List Nat → List Bool
  | [] => m
  | i :: rest => setAllTrue (m.set i true) rest

/-- `for i, j in zip(mask_part, old_mask): i.mask_factor = j` -/
def restoreAll (m : List Bool) : List Nat → List Bool → List Bool
  | i :: rest, b :: bs => restoreAll (m.set i b) rest bs
  | _, _ => m

/-- `temp_total_gls_one` as it is: save all, THEN set all; body; restore all (in `finally`: also when the body raises) -/
def glsOneObjs (visit : List Nat) (body : List Bool → List Bool) (m : List Bool) : List Bool :=
  restoreAll (body (setAllTrue m visit)) visit (saveAll m visit)

/-- the fused loop `for i in mask_part: old_mask.append(i.mask_factor); i.mask_factor = True` → (saved, flags) -/
def fusedSave (m : List Bool) : List Nat → List Bool × List Bool
  | [] => ([], m)
  | i :: rest =>
    let (saved, m') := fusedSave (m.set i true) rest
    (getFlag m i :: saved, m')

def glsOneFused (visit : List Nat) (body : List Bool → List Bool) (m : List Bool) : List Bool :=
  let (saved, m') := fusedSave m visit
  restoreAll (body m') visit saved

/-! ## the entry points of round 4 as programs -/

/-- `CachedShapeAmplitudeModel.pdf` AS IT IS: `old = chains_idx; set_used_chains(subset); build_params_vector;
set_used_chains(old)`, nothing in a `finally`, `not_full` recomputed from the length — the frame of the unpatched
`partial_weight` (`saveRunRestore false`) with one evaluation -/
def cachedShapePdfAsIs (E : Env) (subset : List Nat) (fault : Option Nat) (s : St) : St × Bool :=
  saveRunRestore false E fault [Step.setChains subset, Step.eval] s

/-- … after fixes/C17-cached_shape.diff: `with keep_used_chains(): set_used_chains(subset); build_params_vector` -/
def cachedShapePdf (subset : List Nat) (fault : Option Nat) : ProgY :=
  .keepChains (.seq (.setUsedChains subset) (.compute (.evalN 1) fault))

/-- `CachedShapePreProcessor.build_cached` AS IT IS: `used = chains_idx; set_used_chains(cached);
with temp_total_gls_one(): build_params_vector; …; set_used_chains(used)` (the inner block has its `finally`) -/
def buildCachedAsIs (E : Env) (cached : List Nat) (fault : Option Nat) (s : St) : St × Bool :=
  let (s1, r) := execY Fix.all E (.block .glsOne (.compute (.evalN 1) fault)) (setUsedChains E s cached)
  if r then (s1, true) else (setUsedChains E s1 s.chainsIdx, false)

def buildCached (cached : List Nat) (fault : Option Nat) : ProgY :=
  .keepChains (.seq (.setUsedChains cached) (.block .glsOne (.compute (.evalN 1) fault)))

/-- `VarsManager.set_fix(name, unfix=True)` / `set_fix(name)` with `value=None`: the variable is assigned its own value;
freeing APPENDS the name to `trainable_vars` unless it is there, fixing removes it -/
def freeVars (tr : List Nat) : List Nat → List Nat
  | [] => tr
  | v :: vs => freeVars (if tr.contains v then tr else tr ++ [v]) vs

def fixVars (tr : List Nat) : List Nat → List Nat
  | [] => tr
  | v :: vs => fixVars (tr.erase v) vs

/-- `ConfigLoader.attach_fix_params_error(params)`: free the given parameters, evaluate the Hessian, fix them again;
`fixed` = the re-fixing loop sits in a `finally` (fixes/C17-attach_fix_params_error.diff) -/
def attachFixParamsError (fixed : Bool) (vs : List Nat) (fault : Bool) (s : St) : St × Bool :=
  let s1 := { s with trainable := freeVars s.trainable vs }
  if fault && !fixed then (s1, true) else ({ s1 with trainable := fixVars s1.trainable vs }, fault)

/-! ## line protocol -/

def pProgY : Nat → P ProgY
  | 0, _ => none
  | fuel + 1, ws =>
    match ws with
    | "skip" :: r => some (.skip, r)
    | "raise" :: r => some (.raise, r)
    | "setp" :: r => (pList (pPair pNat pPV) r).map fun (p, r1) => (.setParams p, r1)
    | "addc" :: r => (pList pNat r).map fun (l, r1) => (.addUsedChains l, r1)
    | "setc" :: r => (pList pNat r).map fun (l, r1) => (.setUsedChains l, r1)
    | "setr" :: r => (pList pSel r).map fun (l, r1) => (.setUsedRes l, r1)
    | "cmp" :: r =>
      match pComp r with
      | none => none
      | some (c, r1) => (pFault r1).map fun (f, r2) => (.compute c f, r2)
    | "blk" :: r =>
      match pBlock r with
      | none => none
      | some (b, r1) => (pProgY fuel r1).map fun (p, r2) => (.block b p, r2)
    | "kc" :: r => (pProgY fuel r).map fun (p, r2) => (.keepChains p, r2)
    | "seq" :: r =>
      match pProgY fuel r with
      | none => none
      | some (p, r1) => (pProgY fuel r1).map fun (q, r2) => (.seq p q, r2)
    | _ => none

/-- `run <fix> <env> <state> <prog>` → `<raised> <state>` -/
def handle : List String → Option String
  | "run" :: ws =>
    match pFix ws with
    | none => none
    | some (fx, r0) =>
      match pEnv r0 with
      | none => none
      | some (E, r1) =>
        match pSt r1 with
        | none => none
        | some (s, r2) =>
          match pProgY (r2.length + 1) r2 with
          | some (p, []) =>
            let (s', r) := execY fx E p s
            some (showB r ++ " " ++ showSt s')
          | _ => none
  -- `gls <visit> <flags>` → flags inside the block, flags after it (as it is), flags after the fused loop
  | "gls" :: ws =>
    match pList pNat ws with
    | none => none
    | some (visit, r0) =>
      match pList pBool r0 with
      | some (m, []) =>
        some (" ".intercalate [showL showB (setAllTrue m visit), showL showB (glsOneObjs visit id m),
          showL showB (glsOneFused visit id m)])
      | _ => none
  -- `csp|bc <patched> <nChains> <chainsIdx> <notFull> <maskFactor> <subset> <fault>` → `<raised> <chainsIdx> <notFull> <maskFactor>`
  | op :: ws =>
    if op = "csp" || op = "bc" then
      match pBool ws with
      | none => none
      | some (patched, r0) =>
        match pPair pNat (pPair (pList pNat) (pPair pBool (pPair (pList pBool) (pPair (pList pNat) pFault)))) r0 with
        | some ((n, ci, nf, mf, subset, fault), []) =>
          let E : Env := ⟨n, [], [], [], []⟩
          let s : St := ⟨[], [], ci, nf, mf, [], [], []⟩
          let (s', r) :=
            if op = "csp" then
              (if patched then execY Fix.all E (cachedShapePdf subset fault) s else cachedShapePdfAsIs E subset fault s)
            else
              (if patched then execY Fix.all E (buildCached subset fault) s else buildCachedAsIs E subset fault s)
          some (" ".intercalate [showB r, showL toString s'.chainsIdx, showB s'.notFull, showL showB s'.maskFactor])
        | _ => none
    else if op = "afp" then
      -- `afp <patched> <trainable> <vs> <fault>` → `<raised> <trainable>`
      match pPair pBool (pPair (pList pNat) (pPair (pList pNat) pBool)) ws with
      | some ((patched, tr, vs, fault), []) =>
        let (s', r) := attachFixParamsError patched vs fault ⟨[], [], [], false, [], [], [], tr⟩
        some (showB r ++ " " ++ showL toString s'.trainable)
      | _ => none
    else none
  | _ => none

end TfPwaV.OverrideY
