import TfPwaV.Model.LS
/-!
Model of the decay-card loader (C19): `tf_pwa/config_loader/decay_config.py`
(`decay_item`, `_list2decay`, `particle_item`, `_do_include_dict`, `particle_item_list`, `rename_params`,
`get_decay_struct`, `decay_cut`/`decay_cut_ls`), `tf_pwa/particle.py` (`BaseParticle.chain_decay`, `cross_combine`,
`split_particle_type_list`, `BaseDecay.__eq__`, `BaseParticle.add_decay`), `tf_pwa/amp/core.py`
(`HelicityDecay.get_ls_list`, `get_name`, `init_params` naming of `DecayGroup`/`DecayChain`/`HelicityDecay`/`Particle`).

Scope (everything else is rejected by the parser or reported as `unsupported`):
* two-body decays only (`HelicityDecay`); every particle name at most once in a chain (all `name:id` counters are 0);
* `$top` and `$finals` given (string / list form or dict form); `$include` through `share_dict` dictionaries;
* candidate lists of plain names (no nested dict items);
* per-decay options `p_break`, `c_break`, `l_list`, `ls_list` (other option keys do not influence chains or (l,s) lists);
* cuts: the default `ls_cut` only.

Python dicts are association lists in insertion order with unique keys; `dict[k] = v` is `setKV`.
Spins are doubled (`j2 = 2 J`), `l` undoubled, `s` doubled – as in `TfPwaV.LS`.
-/
namespace TfPwaV.Config

abbrev Name := String

/-! ## Python dict as association list -/

/-- `d[k] = v` : replace in place if the key exists, else append -/
def setKV {β : Type} (d : List (String × β)) (k : String) (v : β) : List (String × β) :=
  match d with
  | [] => [(k, v)]
  | (k', v') :: r => if k' = k then (k', v) :: r else (k', v') :: setKV r k v

def getKV {β : Type} (d : List (String × β)) (k : String) : Option β :=
  match d with
  | [] => none
  | (k', v') :: r => if k' = k then some v' else getKV r k

/-- `a.update(b)` -/
def updKV {β : Type} (a b : List (String × β)) : List (String × β) :=
  b.foldl (fun acc kv => setKV acc kv.1 kv.2) a

/-! ## Per-decay options (`_list2decay`: every dict item of the list is merged, later keys win) -/

structure DOpt where
  pBreak : Option Bool := none
  cBreak : Option Bool := none
  lList  : Option (List Nat) := none
  lsList : Option (List (Nat × Nat)) := none
  deriving DecidableEq, Repr, Inhabited

/-- `params[k] = v` for every key of the later dict -/
def DOpt.update (a b : DOpt) : DOpt :=
  { pBreak := b.pBreak.orElse fun _ => a.pBreak
    cBreak := b.cBreak.orElse fun _ => a.cBreak
    lList  := b.lList.orElse fun _ => a.lList
    lsList := b.lsList.orElse fun _ => a.lsList }

inductive DItem where
  | name (n : Name)
  | opt (o : DOpt)
  deriving DecidableEq, Repr

/-- entry of `DecayConfig.dec` (two-body: `none` if the number of names is not 2) -/
structure DecEntry where
  core : Name
  o1 : Name
  o2 : Name
  params : DOpt
  deriving DecidableEq, Repr

def itemNames : List DItem → List Name
  | [] => []
  | .name n :: r => n :: itemNames r
  | .opt _ :: r => itemNames r

def itemOptsAux (acc : DOpt) : List DItem → DOpt
  | [] => acc
  | .name _ :: r => itemOptsAux acc r
  | .opt o :: r => itemOptsAux (acc.update o) r

def itemOpts (items : List DItem) : DOpt := itemOptsAux {} items

/-- `_list2decay(core, outs)` -/
def list2decay (core : Name) (items : List DItem) : Option DecEntry :=
  match itemNames items with
  | [a, b] => some ⟨core, a, b, itemOpts items⟩
  | _ => none

/-- value of a key of the `decay` section: one decay `[B, C, {opts}]` or a list of such lists -/
inductive DVal where
  | flat (items : List DItem)
  | nested (ls : List (List DItem))
  deriving Repr

/-- `decay_item` (an empty list has `all([]) = True`, hence declares nothing) -/
def decayItem (sec : List (Name × DVal)) : Option (List DecEntry) :=
  sec.foldlM (init := []) fun acc (core, v) =>
    match v with
    | .flat [] => some acc
    | .flat items => (list2decay core items).map fun d => acc ++ [d]
    | .nested ls => (ls.mapM (list2decay core)).map fun ds => acc ++ ds

/-! ## Particle section -/

inductive PVal where
  | spin (j2 : Nat)      -- value of `J` (int, float k/2 or string "k/2"), doubled
  | int (i : Int)        -- `P`, `C`, …
  | none                 -- YAML null
  | other (s : String)   -- anything else (mass, width, model name, …), opaque
  deriving DecidableEq, Repr

abbrev PDict := List (String × PVal)

inductive PEntry where
  | cands (n : Name) (l : List Name)
  | props (n : Name) (d : PDict)
  deriving DecidableEq, Repr

def PEntry.key : PEntry → Name
  | .cands n _ => n
  | .props n _ => n

/-- `particle_key_map.get(k, k)` -/
def renameKey (k : String) : String :=
  if k = "Par" then "P" else if k = "m0" then "mass" else if k = "g0" then "width"
  else if k = "bw" then "model" else k

/-- `rename_params(params)`: `ret[key_map.get(k, k)] = v` in the order of the dict -/
def renameParams (d : PDict) : PDict :=
  d.foldl (fun acc kv => setKV acc (renameKey kv.1) kv.2) []

/-- the documented expansion of the aliases, applied to the card text -/
def expandAliases (d : PDict) : PDict := d.map fun kv => (renameKey kv.1, kv.2)

def findEntry (d : List PEntry) (k : Name) : Option PEntry :=
  match d with
  | [] => none
  | e :: r => if e.key = k then some e else findEntry r k

def replaceEntry (d : List PEntry) (e : PEntry) : List PEntry :=
  match d with
  | [] => [e]
  | e' :: r => if e'.key = e.key then e :: r else e' :: replaceEntry r e

/-- `_do_include_dict(d, o)`: included entries are added; for a particle defined in both places the included
dict is updated by the local one (and takes the place of the local entry); a local candidate list wins. -/
def doInclude (d : List PEntry) (s : List PEntry) : Option (List PEntry) :=
  s.foldlM (init := d) fun d si =>
    match findEntry d si.key with
    | none => some (d ++ [si])
    | some (.cands _ _) => some d
    | some (.props n loc) =>
      match si with
      | .props _ inc => some (replaceEntry d (.props n (updKV inc loc)))
      | .cands _ _ => none          -- `list.update` raises AttributeError

def mergeIncludes (d : List PEntry) (incs : List (List PEntry)) : Option (List PEntry) :=
  incs.foldlM (init := d) doInclude

/-- `particle_item_list` restricted to plain candidate names: (particle_map, particle_property) -/
def particleMap (d : List PEntry) : List (Name × List Name) :=
  d.filterMap fun e => match e with | .cands n l => some (n, l) | .props _ _ => none

def particleProp (d : List PEntry) : List (Name × PDict) :=
  d.filterMap fun e => match e with | .props n p => some (n, p) | .cands _ _ => none

structure Card where
  top : Name
  topDict : Option PDict                    -- `$top: {A: {...}}` form
  finals : List Name
  finalsDict : Option (List (Name × PDict)) -- `$finals: {B: {...}, ...}` form (same names, same order)
  includes : List (List PEntry)
  particle : List PEntry
  decay : List (Name × DVal)
  deriving Repr

/-- `particle_item`: includes merged, then `particle_property.update(top)`, `.update(finals)` -/
def Card.props (c : Card) (merged : List PEntry) : List (Name × PDict) :=
  let p0 := particleProp merged
  let p1 := match c.topDict with | some d => setKV p0 c.top d | none => p0
  match c.finalsDict with
  | some fd => updKV p1 fd
  | none => p1

/-! ## `get_decay_struct` -/

/-- a decay between base particles; `BaseDecay.__eq__` compares `(core, sorted(outs))` -/
structure BDecay where
  core : Name
  o1 : Name
  o2 : Name
  deriving DecidableEq, Repr, Inhabited

def BDecay.same (a b : BDecay) : Bool :=
  a.core == b.core && ((a.o1 == b.o1 && a.o2 == b.o2) || (a.o1 == b.o2 && a.o2 == b.o1))

/-- registration of `dec_i = get_decay(i, j)`: `core.add_decay` keeps the first of equal decays (with its order of
the daughters), `new_decay_params[dec_i] = params` keeps the first key object and the LAST params. -/
def register (regs : List (BDecay × DOpt)) (d : BDecay) (o : DOpt) : List (BDecay × DOpt) :=
  match regs with
  | [] => [(d, o)]
  | (d', o') :: r => if d'.same d then (d', o) :: r else (d', o') :: register r d o

def wrap (pm : List (Name × List Name)) (n : Name) : List Name := (getKV pm n).getD [n]

/-- all decays of the card in registration order: `for dec: for i in core: for j in all_combine(outs)` -/
def instances (pm : List (Name × List Name)) (e : DecEntry) : List (BDecay × DOpt) :=
  (wrap pm e.core).flatMap fun c => (wrap pm e.o1).flatMap fun a => (wrap pm e.o2).map fun b => (⟨c, a, b⟩, e.params)

def registerAll (pm : List (Name × List Name)) (decs : List DecEntry) : List (BDecay × DOpt) :=
  (decs.flatMap (instances pm)).foldl (fun regs x => register regs x.1 x.2) []

abbrev Chain := List BDecay

/-- `cross_combine` (particle.py:20) -/
def crossCombine : List (List Chain) → List Chain
  | [] => []
  | head :: tail =>
    let other := crossCombine tail
    head.flatMap fun i => if other.isEmpty then [i] else other.map fun j => i ++ j

/-- `ret_tmp = [[[i]]]; for j in i.outs: tmp = j.chain_decay(); if tmp: ret_tmp.append(tmp)` then `cross_combine` -/
def combine (d : BDecay) (a b : List Chain) : List Chain :=
  crossCombine ([[[d]]] ++ (if a.isEmpty then [] else [a]) ++ (if b.isEmpty then [] else [b]))

def decaysOf (regs : List BDecay) (x : Name) : List BDecay := regs.filter fun d => d.core == x

def overDecays (f : Name → Option (List Chain)) : List BDecay → Option (List Chain)
  | [] => some []
  | d :: ds =>
    match f d.o1, f d.o2, overDecays f ds with
    | some a, some b, some r => some (combine d a b ++ r)
    | _, _, _ => none

/-- `BaseParticle.chain_decay` with a recursion budget: `none` = the budget ran out on a particle that still has
decays (Python: RecursionError on a cyclic card). -/
def chainDecay (regs : List BDecay) : Nat → Name → Option (List Chain)
  | 0, x => if (decaysOf regs x).isEmpty then some [] else none
  | n + 1, x => overDecays (chainDecay regs n) (decaysOf regs x)

/-- `split_particle_type_list(chain)[2]`: daughters that are not also mothers, in order of appearance -/
def chainOuts (c : Chain) : List Name := c.flatMap fun d => [d.o1, d.o2]
def chainCores (c : Chain) : List Name := c.map (·.core)
def chainInner (c : Chain) : List Name := (chainCores c).filter fun x => (chainOuts c).contains x
def chainLeaves (c : Chain) : List Name := (chainOuts c).filter fun x => !(chainInner c).contains x
def chainTops (c : Chain) : List Name := (chainCores c).filter fun x => !(chainInner c).contains x

/-- `sorted(DecayChain(i).outs) == sorted(finals)` -/
def matchesFinals (finals : List Name) (c : Chain) : Bool := (chainLeaves c).isPerm finals

/-- names of all particles of a chain in the order `add_particle` meets them -/
def chainNames (c : Chain) : List Name := c.flatMap fun d => [d.core, d.o1, d.o2]

/-- the model covers chains in which a name is mother at most once and daughter at most once (all ids are 0) -/
def simpleChain (c : Chain) : Bool := (chainCores c).Nodup && (chainOuts c).Nodup

/-! ## quantum numbers, (l,s) lists, the cut -/

structure QN where
  j2 : Nat := 0
  p : Option Int := some (-1)
  c : Option Int := none
  deriving DecidableEq, Repr

/-- `BaseParticle(name, **rename_params(props))`: defaults `J=0, P=-1, C=None` -/
def qnOf (d : PDict) : QN :=
  let r := renameParams d
  { j2 := match getKV r "J" with | some (.spin j) => j | _ => 0
    p := match getKV r "P" with | some (.int i) => some i | some .none => none | _ => some (-1)
    c := match getKV r "C" with | some (.int i) => some i | _ => none }

def qnOfName (props : List (Name × PDict)) (n : Name) : QN := qnOf ((getKV props n).getD [])

/-- `HelicityDecay.get_ls_list`: a given `ls_list` is taken as it is; otherwise `GetA2BC_LS_list` (with
`ca = core.C if not c_break else None`) restricted to `l_list` -/
def lsOf (a b c : QN) (o : DOpt) : List (Nat × Nat) :=
  match o.lsList with
  | some l => l
  | none =>
    let base := LS.lsList a.j2 b.j2 c.j2 a.p b.p c.p (o.pBreak.getD false)
      (if o.cBreak.getD true then none else a.c)
    match o.lList with
    | none => base
    | some ll => LS.filterL base ll

structure Ctx where
  props : List (Name × PDict)
  regs : List (BDecay × DOpt)

def Ctx.optOf (x : Ctx) (d : BDecay) : DOpt :=
  match x.regs.find? fun r => r.1.same d with
  | some r => r.2
  | none => {}

def Ctx.ls (x : Ctx) (d : BDecay) : List (Nat × Nat) :=
  lsOf (qnOfName x.props d.core) (qnOfName x.props d.o1) (qnOfName x.props d.o2) (x.optOf d)

/-- `decay_cut` with `ls_cut`: the chain survives iff no decay has an empty list -/
def Ctx.survives (x : Ctx) (c : Chain) : Bool := c.all fun d => !(x.ls d).isEmpty

inductive Outcome where
  | ok (ctx : Ctx) (chains : List Chain)
  | raise (what : String)

def recursionBudget (regs : List BDecay) : Nat := regs.length + 1

/-- candidate chains: `top.chain_decay()` filtered by the final state, in the code's order -/
def candidates (regs : List BDecay) (top : Name) (finals : List Name) : Option (List Chain) :=
  (chainDecay regs (recursionBudget regs) top).map fun cs => cs.filter (matchesFinals finals)

def Card.context (c : Card) : Option Ctx := do
  let decs ← decayItem c.decay
  let merged ← mergeIncludes c.particle c.includes
  some ⟨c.props merged, registerAll (particleMap merged) decs⟩

/-- the whole loader up to `full_decay`: ordered list of surviving chains -/
def Card.expand (c : Card) : Outcome :=
  match c.context with
  | none => .raise "malformed"
  | some ctx =>
    match candidates (ctx.regs.map (·.1)) c.top c.finals with
    | none => .raise "RecursionError"
    | some cand =>
      if !(cand.all simpleChain) then .raise "unsupported"
      else if (cand.filter ctx.survives).isEmpty then .raise "RuntimeError"
      else .ok ctx (cand.filter ctx.survives)

/-! ## names -/

def showDecay (d : BDecay) : String := d.core ++ "->" ++ d.o1 ++ "+" ++ d.o2
def showChain (c : Chain) : String := "[" ++ ", ".intercalate (c.map showDecay) ++ "]"

/-- `get_name`: `+`→`.`, `:`→`/`, and `,` `[` `]` blank removed -/
def decayHead (d : BDecay) : String := d.core ++ "->" ++ d.o1 ++ "." ++ d.o2
def chainHead (c : Chain) : String := String.join (c.map decayHead)

def complexNames (head : String) (n : Nat) : List String :=
  (List.range n).flatMap fun i => [head ++ "_" ++ toString i ++ "r", head ++ "_" ++ toString i ++ "i"]

/-- `DecayChain.inner` = sorted(mothers that are daughters); `DecayGroup.resonances` = first appearance -/
def insertSorted (x : String) : List String → List String
  | [] => [x]
  | y :: r => if x < y then x :: y :: r else y :: insertSorted x r
def sortNames (l : List String) : List String := l.foldr insertSorted []

def resonances (chains : List Chain) : List Name :=
  chains.foldl (fun acc c => (sortNames (chainInner c)).foldl (fun acc n => if acc.contains n then acc else acc ++ [n]) acc) []

/-- does `BaseParticle(**props)` have a width (`init_params` creates `<name>_width` only then) -/
def hasWidth (d : PDict) : Bool :=
  match getKV (renameParams d) "width" with
  | some .none => false
  | some _ => true
  | none => false

/-- `DecayGroup.init_params` for the default models: variable names in creation order -/
def Ctx.paramNames (x : Ctx) (chains : List Chain) : List String :=
  let res := (resonances chains).flatMap fun n =>
    [n ++ "_mass"] ++ (if hasWidth ((getKV x.props n).getD []) then [n ++ "_width"] else [])
  let step := fun (st : List String × List BDecay) (c : Chain) =>
    let tot := complexNames (chainHead c ++ "_total") 1
    c.foldl (fun (st : List String × List BDecay) d =>
      if st.2.any (fun e => e.same d) then st
      else (st.1 ++ complexNames (decayHead d ++ "_g_ls") (x.ls d).length, st.2 ++ [d])) (st.1 ++ tot, st.2)
  res ++ (chains.foldl step ([], [])).1

/-! ## export: `DecayGroup.as_config` restricted to what the loader reads back
(J, P, C, mass, width of every particle; `p_break`, `c_break` of every decay — `l_list` / `ls_list` are constructor
arguments of `HelicityDecay` and are NOT part of the export) -/

def exportDict (props : List (Name × PDict)) (n : Name) : PDict :=
  let r := renameParams ((getKV props n).getD [])
  let q := qnOfName props n
  [("J", .spin q.j2),
   ("P", match q.p with | some i => .int i | none => .none),
   ("C", match q.c with | some i => .int i | none => .none),
   ("mass", (getKV r "mass").getD .none), ("width", (getKV r "width").getD .none)]

/-- `config["decay"][core].append([outs…, {p_break, c_break, …}])` -/
def appendDecay (acc : List (Name × List (List DItem))) (k : Name) (v : List DItem) : List (Name × List (List DItem)) :=
  match acc with
  | [] => [(k, [v])]
  | (k', vs) :: r => if k' = k then (k', vs ++ [v]) :: r else (k', vs) :: appendDecay r k v

def Ctx.exportDecays (x : Ctx) (chains : List Chain) : List (Name × List (List DItem)) :=
  (chains.flatMap id).foldl (fun acc d =>
    let o := x.optOf d
    appendDecay acc d.core [.name d.o1, .name d.o2,
      .opt { pBreak := some (o.pBreak.getD false), cBreak := some (o.cBreak.getD true) }]) []

/-- `DecayGroup.as_config()` of the loaded group as a card (`$top`, `$finals` in dict form, `outs` sorted) -/
def Ctx.asConfig (x : Ctx) (top : Name) (chains : List Chain) : Card :=
  let outs := match chains with
    | [] => []
    | c :: _ => sortNames (chainLeaves c)
  { top := top, topDict := some (exportDict x.props top)
    finals := outs, finalsDict := some (outs.map fun n => (n, exportDict x.props n))
    includes := []
    particle := (resonances chains).map fun n => .props n (exportDict x.props n)
    decay := (x.exportDecays chains).map fun kv => (kv.1, .nested kv.2) }

/-- export then load -/
def Card.roundTrip (c : Card) : Outcome :=
  match c.expand with
  | .raise w => .raise w
  | .ok ctx chains => (ctx.asConfig c.top chains).expand

/-! ## line protocol -/

def parseNat (s : String) : Option Nat := s.toNat?

/-- parse `n` items with `p` -/
def parseMany {α : Type} (p : List String → Option (α × List String)) : Nat → List String → Option (List α × List String)
  | 0, ws => some ([], ws)
  | n + 1, ws => do
    let (a, ws) ← p ws
    let (r, ws) ← parseMany p n ws
    some (a :: r, ws)

def parseCounted {α : Type} (p : List String → Option (α × List String)) : List String → Option (List α × List String)
  | w :: ws => do
    let n ← parseNat w
    parseMany p n ws
  | [] => none

def parseName : List String → Option (Name × List String)
  | w :: ws => some (w, ws)
  | [] => none

def parsePVal (s : String) : Option PVal :=
  match s.splitOn ":" with
  | ["N"] => some .none
  | ["j", n] => n.toNat?.map .spin
  | ["i", n] => n.toInt?.map .int
  | "x" :: r => some (.other (":".intercalate r))
  | _ => none

def parseKV : List String → Option ((String × PVal) × List String)
  | k :: v :: ws => (parsePVal v).map fun v => ((k, v), ws)
  | _ => none

def parsePDict : List String → Option (PDict × List String) := parseCounted parseKV

def parsePEntry : List String → Option (PEntry × List String)
  | "c" :: n :: ws => (parseCounted parseName ws).map fun (l, ws) => (.cands n l, ws)
  | "d" :: n :: ws => (parsePDict ws).map fun (d, ws) => (.props n d, ws)
  | _ => none

def parseNatList (s : String) : Option (List Nat) :=
  if s = "" then some [] else (s.splitOn ",").mapM String.toNat?

def parsePairList (s : String) : Option (List (Nat × Nat)) :=
  if s = "" then some [] else (s.splitOn ",").mapM fun p =>
    match p.splitOn "." with
    | [a, b] => do some ((← a.toNat?), (← b.toNat?))
    | _ => none

def parseOptField (o : DOpt) (f : String) : Option DOpt :=
  match f.splitOn "=" with
  | ["pb", v] => some { o with pBreak := some (v == "1") }
  | ["cb", v] => some { o with cBreak := some (v == "1") }
  | ["l", v] => (parseNatList v).map fun l => { o with lList := some l }
  | ["ls", v] => (parsePairList v).map fun l => { o with lsList := some l }
  | ["u"] => some o
  | _ => none

def parseDItem : List String → Option (DItem × List String)
  | w :: ws =>
    match w.splitOn ":" with
    | ["n", n] => some (.name n, ws)
    | ["o", spec] => ((spec.splitOn ";").foldlM parseOptField ({} : DOpt)).map fun o => (.opt o, ws)
    | _ => none
  | [] => none

def parseItems : List String → Option (List DItem × List String) := parseCounted parseDItem

def parseDVal : List String → Option (DVal × List String)
  | "f" :: ws => (parseItems ws).map fun (l, ws) => (.flat l, ws)
  | "n" :: ws => (parseCounted parseItems ws).map fun (l, ws) => (.nested l, ws)
  | _ => none

def parseDecayEntry : List String → Option ((Name × DVal) × List String)
  | n :: ws => (parseDVal ws).map fun (v, ws) => ((n, v), ws)
  | [] => none

def parseNamedDict : List String → Option ((Name × PDict) × List String)
  | n :: ws => (parsePDict ws).map fun (d, ws) => ((n, d), ws)
  | [] => none

def parseCard (ws : List String) : Option Card := do
  let (top, topDict, ws) ← match ws with
    | "T" :: n :: ws => some (n, (none : Option PDict), ws)
    | "TD" :: n :: ws => (parsePDict ws).map fun (d, ws) => (n, some d, ws)
    | _ => none
  let (finals, finalsDict, ws) ← match ws with
    | "F" :: ws => (parseCounted parseName ws).map fun (l, ws) => (l, (none : Option (List (Name × PDict))), ws)
    | "FD" :: ws => (parseCounted parseNamedDict ws).map fun (l, ws) => (l.map (·.1), some l, ws)
    | _ => none
  let (incs, ws) ← match ws with
    | "I" :: ws => parseCounted (parseCounted parsePEntry) ws
    | _ => none
  let (part, ws) ← match ws with
    | "P" :: ws => parseCounted parsePEntry ws
    | _ => none
  let (dec, ws) ← match ws with
    | "D" :: ws => parseCounted parseDecayEntry ws
    | _ => none
  if ws.isEmpty then some ⟨top, topDict, finals, finalsDict, incs, part, dec⟩ else none

def showLs (l : List (Nat × Nat)) : String := " ".intercalate (l.map fun p => s!"{p.1},{p.2}")

def handle : List String → Option String
  | op :: ws =>
    match parseCard ws with
    | none => some "parse-error"
    | some card =>
      if op == "rt" then
        match card.roundTrip with
        | .raise w => some ("raise:" ++ w)
        | .ok ctx chains => some ("|".intercalate (chains.map showChain) ++ " # " ++
            "|".intercalate (chains.map fun c => ";".intercalate (c.map fun d => showLs (ctx.ls d))))
      else
      match card.expand with
      | .raise w => some ("raise:" ++ w)
      | .ok ctx chains =>
        if op == "chains" then some ("|".intercalate (chains.map showChain))
        else if op == "ls" then some ("|".intercalate (chains.map fun c => ";".intercalate (c.map fun d => showLs (ctx.ls d))))
        else if op == "params" then some (" ".intercalate (ctx.paramNames chains))
        else if op == "cands" then
          match candidates (ctx.regs.map (·.1)) card.top card.finals with
          | some cs => some ("|".intercalate (cs.map showChain))
          | none => some "raise:RecursionError"
        else none
  | [] => none

end TfPwaV.Config
