import TfPwaV.Model.Bins
/-!
Model of the weighted histogram behind `tf_pwa/histogram.py: Hist1D.histogram` (C20), Mathlib-free and
polymorphic (values: comparisons only; weights: `+ 0 *`).  Executed at `Rat`.

`numpy.histogram(m, bins, weights=w)` with the edge array `e₀ < … < e_n` it returns: an entry `v` falls in bin
`i` iff `eᵢ ≤ v < eᵢ₊₁`, the last bin also contains `v = e_n` (numpy's documented convention; the uniform-bin
fast path corrects its arithmetic index against the edges, so the edges define the result).
`Hist1D.histogram` histograms `w`, `w²` and the unweighted entries with the same call.
-/
namespace TfPwaV.Hist

section
variable {α : Type} [LT α] [LE α] [DecidableLT α] [DecidableLE α]

/-- bin index of `v` among the edges, counting from `i` -/
def binOf (v : α) : List α → Nat → Option Nat
  | lo :: hi :: [], i => if lo ≤ v ∧ v ≤ hi then some i else none
  | lo :: hi :: rest, i => if lo ≤ v ∧ v < hi then some i else if v < lo then none else binOf v (hi :: rest) (i + 1)
  | _, _ => none

variable {β : Type} [Add β] [Zero β] [Mul β]

/-- Σ of `f w` over the entries that fall in bin `i` -/
def binSum (edges : List α) (f : β → β) (evs : List (α × β)) (i : Nat) : β :=
  ((evs.filter fun e => binOf e.1 edges 0 == some i).map fun e => f e.2).sum

def binN (edges : List α) (evs : List (α × β)) (i : Nat) : Nat :=
  (evs.filter fun e => binOf e.1 edges 0 == some i).length

def nBins (edges : List α) : Nat := edges.length - 1

/-- `count` of `Hist1D.histogram` -/
def counts (edges : List α) (evs : List (α × β)) : List β :=
  (List.range (nBins edges)).map (binSum edges (fun w => w) evs)

/-- `count2` before masking -/
def sumW2 (edges : List α) (evs : List (α × β)) : List β :=
  (List.range (nBins edges)).map (binSum edges (fun w => w * w) evs)

/-- `mask_count` -/
def entries (edges : List α) (evs : List (α × β)) : List Nat :=
  (List.range (nBins edges)).map (binN (β := β) edges evs)

def inRange (edges : List α) (e : α × β) : Bool := (binOf e.1 edges 0).isSome

end

open TfPwaV.Bins in
/-- `hist n e₀ … e_n  m  v₁ w₁ … v_m w_m` -/
def handle : List String → Option String
  | "hist" :: ws => do
    let (edges, ws) ← parseCounted itemQ ws
    let (flat, _) ← parseCounted itemQ ws
    let rec pairs : List Rat → List (Rat × Rat)
      | v :: w :: rest => (v, w) :: pairs rest
      | _ => []
    let evs := pairs flat
    some (" ".intercalate ((counts edges evs).map showQ) ++ "|" ++ " ".intercalate ((sumW2 edges evs).map showQ) ++ "|" ++
      " ".intercalate ((entries edges evs).map toString))
  | _ => none

end TfPwaV.Hist
