/-
Model of the factorised / cached evaluation strategies (C05, part B), as plain algebra over any type with `0 1 + *`
(executed over `Int` and over the Gaussian integers `GI`, so that the implementation run on integer-valued
float64 / complex128 tensors must agree EXACTLY).

Python                                                        model
------------------------------------------------------------  ----------------------------------------------------
experimental/build_amp.py  build_params_vector (one chain)     paramsVector (per event) / paramsVectorBatch (rows, tile)
experimental/opt_int.py    gls_combine / build_params_vector   paramsVector / paramsConcat (concat over chains)
  `tmp[:, :, None] * tmp2[:, None, :]` + reshape(-1, prod)     outer  (row-major: the EARLIER factor is the slow index)
build_amp.cached_amp / build_amp2s / CachedAmpAmplitudeModel   cachedAmp, cachedAmpV (Σ_chains Σ_k pv_k · ang_k), amp2s
amp.FactorAmplitudeModel.get_amp_list                          contractLead / factorAmp (successive contraction of the
                                                               leading axis of the angular tensor), factorAmpTotal
opt_int.build_int_matrix                                       intMatrix   M_ab = Σ_slots w · (x_a · conj x_b)
opt_int.build_params_matrix                                    paramsMatrix pm_ab = p_a · conj p_b
opt_int.cached_int_mc / ModelCachedInt.build_cached_int        cachedInt   Σ_ab pm_ab · M_ab   (the code takes tf.math.real
                                                               of it; `cachedInt_selfconj` shows it is self-conjugate)
Σ_events w |A|²                                                directInt, with A = lin p xs = Σ_a p_a · x_a
Σ_chains Π_decays (Σ_ls g_ls · part_ls)                        directAmp

Index conventions (all taken from the code):
* a chain's factor list is `m_dep = [ls-amp of decay 1, …, ls-amp of decay D, total]` (build_amp) or
  `[total, g_ls of decay 1, …]` (opt_int.get_all_factor); `paramsVector` folds them from the left with `outer`, so the
  flat position of the combination (l_1,…,l_D) is ((l_1·n_2 + l_2)·n_3 + …) — the order of `itertools.product` in `split_gls`.
* `intMatrix`: the ROW index a carries the un-conjugated factor, the COLUMN index b the conjugated one, in both
  `xij = hij[i] * conj(hij[j])` and `pm = pv[:, None] * conj(pv)[None, :]`.
* the event weight is broadcast over the helicity axes (`tf.reshape(weight, [-1] + [1] * n_lambda)`): `expandW`.
-/
namespace TfPwaV.Factorise

section ops
variable {R : Type} [Zero R] [One R] [Add R] [Mul R]

/-- `c * v` -/
def smul (c : R) (v : List R) : List R := v.map (c * ·)
/-- elementwise sum of two vectors of equal length -/
def vadd (a b : List R) : List R := List.zipWith (· + ·) a b
/-- `tf.reshape(a[:, None] * b[None, :], (-1,))`: position i·|b| + j holds a_i · b_j -/
def outer (a b : List R) : List R := a.flatMap fun x => smul x b
/-- `tf.reduce_sum(p * a)` -/
def dot (p a : List R) : R := (List.zipWith (· * ·) p a).sum
def prodL : List R → R
  | [] => 1
  | x :: xs => x * prodL xs

/-- `build_params_vector` for one chain at one event / `gls_combine`: `tmp = i[0]; for j in i[1:]: tmp = flatten(tmp ⊗ j)`.
    For an empty factor list the Python code raises (`i[0]`); `handle` answers "raise" there. -/
def paramsVector : List (List R) → List R
  | [] => []
  | f :: fs => fs.foldl outer f

/-- `opt_int.build_params_vector(dec, concat=True)` -/
def paramsConcat (chains : List (List (List R))) : List R := chains.flatMap paramsVector

/-- row `e` of a batched factor; a factor with a single row is the same for every event
    (first factor: `tf.tile`; later factors: broadcasting of `tmp[:, :, None] * tmp2[:, None, :]`) -/
def rowOf (rows : List (List R)) (e : Nat) : List R := if rows.length = 1 then rows.headD [] else rows.getD e []

/-- `build_amp.build_params_vector` for one chain on `n` events; `none` = the TensorFlow ops raise -/
def paramsVectorBatch (n : Nat) (fs : List (List (List R))) : Option (List (List R)) :=
  if fs.isEmpty then none
  else if fs.any (fun rows => rows.length != 1 && rows.length != n) then none
  else some ((List.range n).map fun e => paramsVector (fs.map fun rows => rowOf rows e))

/-- one event, helicities already fixed: `Σ_chains Σ_k pv_k · ang_k`
    (`tf.reduce_sum(a * tf.stack(j, axis=1), axis=1)` then `tf.reduce_sum(ret, axis=0)`) -/
def cachedAmp (pvs : List (List R)) (angs : List (List R)) : R := (List.zipWith dot pvs angs).sum

/-- the same with a trailing (flattened) helicity axis of size `H`: `angs[c][k]` is a vector of `H` entries -/
def cachedAmpV (H : Nat) (pvs : List (List R)) (angs : List (List (List R))) : List R :=
  (List.range H).map fun h => cachedAmp pvs (angs.map fun ac => ac.map fun ak => ak.getD h 0)

/-- the direct multilinear expression `Σ_chains Π_decays (Σ_ls g_ls · part_ls)`; a chain is a list of (g, part) pairs -/
def directAmp (chains : List (List (List R × List R))) : R :=
  (chains.map fun c => prodL (c.map fun d => dot d.1 d.2)).sum

/-- the angular cache of one chain built from the per-decay parts in the order of `split_gls` / `itertools.product` -/
def angOf (parts : List (List R)) : List R := paramsVector parts

/-- the full angular tensor of one chain in product form, row-major over (l_1, …, l_D, h):
    entry = Π_d part_d[l_d] · hel[h]  (`get_factor_angle_amp`: einsum output "...zyx…" + helicity labels) -/
def angTensor (parts : List (List R)) (hel : List R) : List R := parts.foldr outer hel

/-- one step of `FactorAmplitudeModel.get_amp_list`:
    `tmp = reshape(tmp, (-1, m, s)); tmp = tmp * g[..., None]; tmp = reduce_sum(tmp, axis=-2)` with `s = size / m`. -/
def contractLead : List R → List R → Nat → List R
  | [], _, s => List.replicate s 0
  | x :: g, tmp, s => vadd (smul x (tmp.take s)) (contractLead g (tmp.drop s) s)

/-- `get_amp_list` for one chain at one event: contract the leading axis of the angular tensor with each factor in turn.
    `none`: the reshape raises (size not divisible / empty factor). -/
def factorAmp : List (List R) → List R → Option (List R)
  | [], tmp => some tmp
  | g :: gs, tmp =>
    if g.length = 0 ∨ tmp.length % g.length ≠ 0 then none
    else factorAmp gs (contractLead g tmp (tmp.length / g.length))

def vsum (H : Nat) (vs : List (List R)) : List R := vs.foldr vadd (List.replicate H 0)

/-- `tf.reduce_sum(get_amp_list(data), axis=0)` at one event -/
def factorAmpTotal (H : Nat) (chains : List (List (List R) × List R)) : Option (List R) :=
  (chains.mapM fun c => factorAmp c.1 c.2).map (vsum H)

/-- `Σ_a p_a · x_a` as a vector over `n` slots (event × helicity): the amplitude in the cached formulation -/
def lin (n : Nat) : List R → List (List R) → List R
  | p :: ps, x :: xs => vadd (smul p x) (lin n ps xs)
  | _, _ => List.replicate n 0

variable (conj : R → R)

/-- `tf.reduce_sum(amp * conj(amp))` over the helicity axes (the code takes `tf.math.real` first) -/
def amp2s (A : List R) : R := (A.map fun a => a * conj a).sum

/-- `tf.reduce_sum(weight * (x * conj(y)))` -/
def wsum : List R → List R → List R → R
  | w :: ws, x :: xs, y :: ys => w * (x * conj y) + wsum ws xs ys
  | _, _, _ => 0

/-- `tf.reshape(weight, [-1] + [1] * n_lambda)` broadcast against (n, H) in row-major order -/
def expandW (H : Nat) (w : List R) : List R := w.flatMap fun x => List.replicate H x

/-- `build_int_matrix`: `M[a][b] = Σ w · x_a · conj(x_b)` -/
def intMatrix (w : List R) (xs : List (List R)) : List (List R) :=
  xs.map fun xa => xs.map fun xb => wsum conj w xa xb

/-- `build_params_matrix`: `pv[:, None] * conj(pv)[None, :]` -/
def paramsMatrix (p : List R) : List (List R) := p.map fun a => p.map fun b => a * conj b

/-- `tf.reduce_sum(pm * int_matrix)` -/
def cachedInt (p : List R) (M : List (List R)) : R := (List.zipWith dot (paramsMatrix conj p) M).sum

/-- `Σ_slots w · A · conj(A)` -/
def directInt (w : List R) (A : List R) : R := wsum conj w A A

/-- sum of the per-batch matrices (`tf.reduce_sum(ret, axis=0)` in `build_cached_int` / `build_int_matrix_batch`) -/
def matAdd (A B : List (List R)) : List (List R) := List.zipWith vadd A B

end ops

/-! ### Gaussian integers (complex128 values with integer parts) -/

structure GI where
  re : Int
  im : Int
deriving DecidableEq, Repr

instance : Zero GI := ⟨⟨0, 0⟩⟩
instance : One GI := ⟨⟨1, 0⟩⟩
instance : Add GI := ⟨fun a b => ⟨a.re + b.re, a.im + b.im⟩⟩
instance : Mul GI := ⟨fun a b => ⟨a.re * b.re - a.im * b.im, a.re * b.im + a.im * b.re⟩⟩
def GI.conj (a : GI) : GI := ⟨a.re, -a.im⟩

/-! ### line protocol

`C05f <op> <kind> …`, kind `Z` (Int, conj = id) or `G` (Gaussian integers, entries as re,im pairs).
A vector is a comma list (`-` = empty), a list of vectors joins them with `;`, (`_` = empty list of vectors).
-/

def parseInts (s : String) : Option (List Int) :=
  if s == "-" then some [] else (s.splitOn ",").mapM (·.toInt?)
def showInts (l : List Int) : String := if l.isEmpty then "-" else ",".intercalate (l.map toString)

def pairUp : List Int → Option (List GI)
  | a :: b :: r => (pairUp r).map (⟨a, b⟩ :: ·)
  | [] => some []
  | _ => none

/-- a scalar type of the protocol -/
structure Codec (R : Type) where
  parse : String → Option (List R)
  shw : List R → String

def codecZ : Codec Int := ⟨parseInts, showInts⟩
def codecG : Codec GI := ⟨fun s => (parseInts s).bind pairUp, fun l => showInts (l.flatMap fun g => [g.re, g.im])⟩

def Codec.parseRows {R : Type} (c : Codec R) (s : String) : Option (List (List R)) :=
  if s == "_" then some [] else (s.splitOn ";").mapM c.parse
def Codec.showRows {R : Type} (c : Codec R) (l : List (List R)) : String :=
  if l.isEmpty then "_" else ";".intercalate (l.map c.shw)

/-- chains for `famp`: alternating `<factors rows> <angular tensor>` -/
def parseFChains {R : Type} (c : Codec R) : List String → Option (List (List (List R) × List R))
  | gs :: t :: rest => do
    let g ← c.parseRows gs
    let tt ← c.parse t
    let r ← parseFChains c rest
    pure ((g, tt) :: r)
  | [] => some []
  | _ => none

/-- chains for `camp`: alternating `<pv> <ang rows (one row of H entries per combination k)>` -/
def parseCChains {R : Type} (c : Codec R) : List String → Option (List (List R × List (List R)))
  | p :: a :: rest => do
    let pv ← c.parse p
    let ang ← c.parseRows a
    let r ← parseCChains c rest
    pure ((pv, ang) :: r)
  | [] => some []
  | _ => none

section handleR
variable {R : Type} [Zero R] [One R] [Add R] [Mul R] (c : Codec R) (conj : R → R)

def handleR : List String → Option String
  -- pv <n> <factor rows> …   (one chain, n events)
  | "pv" :: n :: fs => do
    let n ← n.toNat?
    let fs ← fs.mapM c.parseRows
    pure (match paramsVectorBatch n fs with
      | none => "raise"
      | some rows => "ok " ++ c.showRows rows)
  -- pcat <chain1 factors as rows> <chain2 …>   (opt_int.build_params_vector: one row per factor)
  | "pcat" :: chains => do
    let cs ← chains.mapM c.parseRows
    if cs.any (·.isEmpty) then pure "raise" else pure ("ok " ++ c.shw (paramsConcat cs))
  -- camp <H> (<pv> <ang rows>)*   one event: amplitude vector over H helicity slots, then Σ_h A conj A
  | "camp" :: H :: rest => do
    let H ← H.toNat?
    let cs ← parseCChains c rest
    let A := cachedAmpV H (cs.map (·.1)) (cs.map (·.2))
    pure ("ok " ++ c.shw A ++ " " ++ c.shw [amp2s conj A])
  -- famp <H> (<factor rows> <angular tensor>)*   one event
  | "famp" :: H :: rest => do
    let H ← H.toNat?
    let cs ← parseFChains c rest
    pure (match factorAmpTotal H cs with
      | none => "raise"
      | some A => "ok " ++ c.shw A)
  -- imat <H> <w> <x rows: one row per index a, n*H entries>
  | ["imat", H, w, xs] => do
    let H ← H.toNat?
    let w ← c.parse w
    let xs ← c.parseRows xs
    pure ("ok " ++ c.showRows (intMatrix conj (expandW H w) xs))
  -- cint <p> <M rows>
  | ["cint", p, M] => do
    let p ← c.parse p
    let M ← c.parseRows M
    pure ("ok " ++ c.shw [cachedInt conj p M])
  -- dint <H> <w> <p> <x rows>   Σ w |Σ_a p_a x_a|²
  | ["dint", H, w, p, xs] => do
    let H ← H.toNat?
    let w ← c.parse w
    let p ← c.parse p
    let xs ← c.parseRows xs
    let we := expandW H w
    pure ("ok " ++ c.shw [directInt conj we (lin we.length p xs)])
  | _ => none

end handleR

def handle : List String → Option String
  | op :: "Z" :: rest => handleR codecZ id (op :: rest)
  | op :: "G" :: rest => handleR codecG GI.conj (op :: rest)
  | _ => none

end TfPwaV.Factorise
