/-! Scalar vocabulary for templates instantiated at `Float` (executable). -/
namespace TfPwaV.ScalarF
abbrev K := Float
def ksqrt (x : K) : K := Float.sqrt x
def ksin (x : K) : K := Float.sin x
def kcos (x : K) : K := Float.cos x
def ktan (x : K) : K := Float.tan x
def katan (x : K) : K := Float.atan x
def katan2 (y x : K) : K := Float.atan2 y x
def kacos (x : K) : K := Float.acos x
def kexp (x : K) : K := Float.exp x
def klog (x : K) : K := Float.log x
def kabs (x : K) : K := Float.abs x
def kpi : K := 3.141592653589793
def kofNat (n : Nat) : K := n.toFloat
end TfPwaV.ScalarF
