import TfPwaV.Gen.BExprF
import TfPwaV.Model.Util
/-! Line protocol for the custom bound expressions of `tf_pwa.variable.Bound` (C16b), Float instance.

An expression travels as a PREFIX (Polish) token list:
`x` | `c <float-bits>` | `add|sub|mul|div <e> <e>` | `neg|exp|log|sin|cos|tanh|sqrt <e>` | `pow <n> <e>`.

Ops:  `eval <order> <xbits> <tokens…>`  value of the `order`-th symbolic derivative at `x`;
      `dom  <order> <xbits> <tokens…>`  `1`/`0`: side conditions of the `order`-th derivative expression at `x`. -/
namespace TfPwaV.BExprH
open TfPwaV.BExprF TfPwaV.Util

/-- parse one expression from the front of the token list; `fuel` bounds the nesting depth (the length of the token
list always suffices) -/
def parse : Nat → List String → Option (Expr × List String)
  | 0, _ => none
  | fuel + 1, ws =>
    match ws with
    | [] => none
    | "x" :: rest => some (.x, rest)
    | "c" :: b :: rest => (parseF b).map fun v => (.const v, rest)
    | "pow" :: n :: rest => do
      let n ← n.toNat?
      let (e, r) ← parse fuel rest
      some (.pow e n, r)
    | op :: rest =>
      let un (k : Expr → Expr) : Option (Expr × List String) := do
        let (e, r) ← parse fuel rest
        some (k e, r)
      let bin (k : Expr → Expr → Expr) : Option (Expr × List String) := do
        let (e, r) ← parse fuel rest
        let (f, r') ← parse fuel r
        some (k e f, r')
      if op == "add" then bin .add
      else if op == "sub" then bin .sub
      else if op == "mul" then bin .mul
      else if op == "div" then bin .div
      else if op == "neg" then un .neg
      else if op == "exp" then un .exp
      else if op == "log" then un .log
      else if op == "sin" then un .sin
      else if op == "cos" then un .cos
      else if op == "tanh" then un .tanh
      else if op == "sqrt" then un .sqrt
      else none

/-- the whole token list must be exactly one expression -/
def parseAll (ws : List String) : Option Expr :=
  match parse (ws.length + 1) ws with
  | some (e, []) => some e
  | _ => none

def handle : List String → Option String
  | "eval" :: order :: xb :: toks => do
    let k ← order.toNat?
    let x ← parseF xb
    let e ← parseAll toks
    some (showF (eval (diffN k e) x))
  | "dom" :: order :: xb :: toks => do
    let k ← order.toNat?
    let x ← parseF xb
    let e ← parseAll toks
    some (showB (domB (diffN k e) x))
  | _ => none

end TfPwaV.BExprH
