import TfPwaV.Model.Vars
/-! C16: the sub-domain on which "tied stays tied" holds for the `set_same` of the current tree — a complex parameter
is tied as a whole (`set_same(cplx=True)`, `Variable.sameas`) or through its parts (`set_same` of real names,
`set_share_r`), not both.  Decidable predicates on the state in which a tie call is made (Mathlib-free; evaluated by
`Model/VarsSepF.lean` for the harness, hypotheses of `Props/C16c.lean`). -/
namespace TfPwaV.Vars

variable {V : Type}

/-- real tie of `names`: no listed name is a part of a complex parameter that belongs to a group -/
def sepReal (s : State V) (names : List Name) : Bool :=
  names.all fun n => s.same.all fun g => g.all fun c => !(isCplxBase s c) || (n != c ++ "r" && n != c ++ "i")

/-- complex tie of `names`: no part of a listed parameter belongs to a group -/
def sepCplx (s : State V) (names : List Name) : Bool :=
  names.all fun n => s.same.all fun g => g.all fun m => m != n ++ "r" && m != n ++ "i"

/-- precondition of a tie call for "tied stays tied" -/
def sepOK (s : State V) : Op V → Bool
  | .setSame names cplx => if cplx then sepCplx s names else sepReal s names
  | .setShareR names => sepReal s (names.map (· ++ "r"))
  | _ => true

def wellSepFrom (A : Arith V) (cfg : Cfg) : State V → List (Op V) → Bool
  | _, [] => true
  | s, op :: ops => sepOK s op && wellSepFrom A cfg (step A cfg s op).1 ops

/-- every tie call of the history satisfies `sepOK` in the state in which it is made -/
def WellSeparated (A : Arith V) (cfg : Cfg) (s : State V) (ops : List (Op V)) : Prop := wellSepFrom A cfg s ops = true

end TfPwaV.Vars
