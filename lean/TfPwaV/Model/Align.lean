import TfPwaV.Model.Util
/-!
Discrete model of the reference-chain bookkeeping of `tf_pwa.cal_angle` (C02), Mathlib-free.

`aligned_angle_ref_rule1` (cal_angle.py:346-378), with particles as `Nat`, a decay as `(core, outs)`, a chain as
the list of its decays in the chain's own iteration order, `decay_chain_struct` as the ORDERED list of chains:

    set_x = {}
    for idx, decay_chain in enumerate(decay_chain_struct):          -- pass 1: produced by the top particle
        for decay in decay_chain:
            if decay.core == decay_group.top:
                for i in decay.outs:
                    if (i not in set_x) and (i in decay_group.outs):
                        set_x[i] = (decay_chain, ...)
    for i in decay_group.outs:                                       -- pass 2: else in the first chain
        if i not in set_x:
            decay_chain = next(iter(decay_chain_struct))             -- StopIteration on an empty list
            for decay in decay_chain:
                for j in decay.outs:
                    if i == j:
                        set_x[i] = (decay_chain, ...)
    ref_matrix_final = {i: ... ref_matrix[i] ... for i in decay_group.outs}      -- KeyError if i was never set

and the loop of `cal_angle_from_particle` (cal_angle.py:452-484) that stores an `aligned_angle` for every
`(chain, decay, final particle)` whose chain is not the reference of that particle.
The dictionary `set_x` is an association list in insertion order; a chain is identified by its index in
`decay_chain_struct` (the chains of `topology_structure()` are pairwise different, so `!=` on chains is `≠` on indices).
-/
namespace TfPwaV.Align

structure Decay where
  core : Nat
  outs : List Nat
deriving Repr, DecidableEq

abbrev Chain := List Decay

/-- `set_x` / `ref_matrix`: final particle ↦ index of its reference chain -/
abbrev RefMap := List (Nat × Nat)

/-- the inner loop `for i in decay.outs: if (i not in set_x) and (i in decay_group.outs): set_x[i] = idx` -/
def addOuts (outs : List Nat) (idx : Nat) (m : RefMap) : List Nat → RefMap
  | [] => m
  | i :: is =>
    addOuts outs idx (if (m.lookup i).isNone && outs.contains i then m ++ [(i, idx)] else m) is

/-- `for decay in decay_chain: if decay.core == top: …` -/
def pass1Chain (top : Nat) (outs : List Nat) (idx : Nat) (m : RefMap) : Chain → RefMap
  | [] => m
  | d :: ds => pass1Chain top outs idx (if d.core == top then addOuts outs idx m d.outs else m) ds

/-- `for idx, decay_chain in enumerate(decay_chain_struct)` starting at index `idx` -/
def pass1From (top : Nat) (outs : List Nat) : Nat → RefMap → List Chain → RefMap
  | _, m, [] => m
  | idx, m, c :: cs => pass1From top outs (idx + 1) (pass1Chain top outs idx m c) cs

/-- Python `d[i] = k` on an insertion-ordered dict -/
def setKey (m : RefMap) (i k : Nat) : RefMap :=
  if (m.lookup i).isSome then m.map (fun p => if p.1 == i then (i, k) else p) else m ++ [(i, k)]

/-- `for j in decay.outs: if i == j: set_x[i] = first chain` -/
def pass2Outs (i : Nat) (m : RefMap) : List Nat → RefMap
  | [] => m
  | j :: js => pass2Outs i (if i == j then setKey m i 0 else m) js

/-- `for decay in first_chain: for j in decay.outs: …` -/
def pass2Chain (i : Nat) (m : RefMap) : Chain → RefMap
  | [] => m
  | d :: ds => pass2Chain i (pass2Outs i m d.outs) ds

/-- pass 2 over `decay_group.outs`; `none` = `StopIteration` from `next(iter([]))` -/
def pass2 (chains : List Chain) (m : RefMap) : List Nat → Option RefMap
  | [] => some m
  | i :: is =>
    if (m.lookup i).isSome then pass2 chains m is
    else match chains with
      | [] => none
      | c0 :: _ => pass2 chains (pass2Chain i m c0) is

/-- `set_x` after both passes -/
def setX (top : Nat) (outs : List Nat) (chains : List Chain) : Option RefMap :=
  pass2 chains (pass1From top outs 0 [] chains) outs

/-- `ref_matrix_final`: for every final particle (in the order of `decay_group.outs`) the index of its reference chain;
`none` when the real function raises (`StopIteration` / `KeyError`). -/
def refRule1 (top : Nat) (outs : List Nat) (chains : List Chain) : Option (List (Nat × Nat)) := do
  let m ← setX top outs chains
  outs.mapM fun i => (m.lookup i).map fun k => (i, k)

/-! ### specification -/

/-- is `i` a daughter of the top particle in chain `c` -/
def producedAtTop (top : Nat) (i : Nat) (c : Chain) : Bool :=
  c.any fun d => d.core == top && d.outs.contains i

/-- does chain `c` contain `i` as a daughter of some decay -/
def produced (i : Nat) (c : Chain) : Bool := c.any fun d => d.outs.contains i

/-- "top-level producer first, else first chain" -/
def refSpec (top : Nat) (chains : List Chain) (i : Nat) : Nat :=
  (chains.findIdx? (producedAtTop top i)).getD 0

/-! ### which (chain, decay, particle) receive an `aligned_angle` -/

/-- `for idx, chain: for decay in chain: for i in decay.outs: if i in outs and chain != set_x[i][0]`;
`ref i = none` models `aligned_angle_ref_rule2` where `set_x[i][0] is None` (no chain is the reference). -/
def alignedKeysFrom (outs : List Nat) (ref : Nat → Option Nat) : Nat → List Chain → List (Nat × Nat × Nat)
  | _, [] => []
  | k, c :: cs =>
    (c.zipIdx.flatMap fun (d, n) =>
      (d.outs.filter fun i => outs.contains i && ref i != some k).map fun i => (k, n, i))
    ++ alignedKeysFrom outs ref (k + 1) cs

def alignedKeys (outs : List Nat) (ref : Nat → Option Nat) (chains : List Chain) : List (Nat × Nat × Nat) :=
  alignedKeysFrom outs ref 0 chains

/-! ### `only_left_angle` (cal_angle.py:486-489): `del ret[chain][decay][decay.outs[1]]["ang"]`
The helicity-angle entries of the data dictionary are keyed by (chain, decay, daughter); a two-body decay
amplitude reads the entry of `decay.outs[0]` only. -/

/-- keys `(chain index, decay index, particle)` holding an `"ang"` entry after `cal_helicity_angle` (two-body decays) -/
def angKeys (chains : List Chain) : List (Nat × Nat × Nat) :=
  chains.zipIdx.flatMap fun (c, k) => c.zipIdx.flatMap fun (d, n) => d.outs.map fun i => (k, n, i)

/-- keys deleted by `only_left_angle=True` -/
def deletedKeys (chains : List Chain) : List (Nat × Nat × Nat) :=
  chains.zipIdx.flatMap fun (c, k) => c.zipIdx.filterMap fun (d, n) => (d.outs[1]?).map fun i => (k, n, i)

/-- keys read by the helicity amplitude of every decay: the angles of the first daughter -/
def readKeys (chains : List Chain) : List (Nat × Nat × Nat) :=
  chains.zipIdx.flatMap fun (c, k) => c.zipIdx.filterMap fun (d, n) => (d.outs[0]?).map fun i => (k, n, i)

/-! ### line protocol
`ref1 <top> <n> o₁ … oₙ <m> (<nd> (<core> <k> x₁ … x_k)^nd)^m`  →  `r₁ … rₙ ; k.n.i …`  or `E` -/

def takeDecay : List Nat → Option (Decay × List Nat)
  | core :: k :: rest => if rest.length < k then none else some (⟨core, rest.take k⟩, rest.drop k)
  | _ => none

def takeDecays : Nat → List Nat → Option (List Decay × List Nat)
  | 0, xs => some ([], xs)
  | n + 1, xs => do
    let (d, r) ← takeDecay xs
    let (ds, r') ← takeDecays n r
    some (d :: ds, r')

def takeChains : Nat → List Nat → Option (List Chain × List Nat)
  | 0, xs => some ([], xs)
  | n + 1, xs =>
    match xs with
    | nd :: r => do
      let (c, r1) ← takeDecays nd r
      let (cs, r2) ← takeChains n r1
      some (c :: cs, r2)
    | [] => none

def parseProblem (xs : List Nat) : Option (Nat × List Nat × List Chain) :=
  match xs with
  | top :: n :: rest =>
    if rest.length < n then none else
    let outs := rest.take n
    match rest.drop n with
    | m :: r => do
      let (cs, _) ← takeChains m r
      some (top, outs, cs)
    | [] => none
  | _ => none

def showKeys (ks : List (Nat × Nat × Nat)) : String :=
  " ".intercalate (ks.map fun (k, n, i) => s!"{k}.{n}.{i}")

def handle : List String → Option String
  | "ref1" :: ws => do
    let xs ← ws.mapM Util.parseN
    let (top, outs, cs) ← parseProblem xs
    match refRule1 top outs cs with
    | none => some "E"
    | some r =>
      let ref := fun i => r.lookup i
      some (" ".intercalate (r.map fun p => toString p.2) ++ " ; " ++ showKeys (alignedKeys outs ref cs))
  | "ref2" :: ws => do
    let xs ← ws.mapM Util.parseN
    let (_, outs, cs) ← parseProblem xs
    some (showKeys (alignedKeys outs (fun _ => none) cs))
  | "left" :: ws => do
    let xs ← ws.mapM Util.parseN
    let (_, _, cs) ← parseProblem xs
    some (showKeys (deletedKeys cs) ++ " ; " ++ showKeys (readKeys cs))
  | _ => none

end TfPwaV.Align
