import TfPwaV.Model.Wigner
import TfPwaV.Model.Util
/-! Float execution of the exact Wigner model: `small_d_matrix` / `D_matrix_conj` entries (C12 correspondence). -/
namespace TfPwaV.WignerF
open TfPwaV.Wigner TfPwaV.Util

def ratToFloat (q : Rat) : Float := Float.ofInt q.num / q.den.toFloat

def fpow (x : Float) : Nat → Float
  | 0 => 1.0
  | n + 1 => x * fpow x n

/-- `small_d_matrix(β, N)[im][in]` evaluated from the exact weights -/
def dF (N im inn : Nat) (beta : Float) : Float :=
  let s := Float.sin (0.5 * beta)
  let c := Float.cos (0.5 * beta)
  let r := Float.sqrt (A N im * A N inn).toFloat
  (List.range (N + 1)).foldl (fun acc l => acc + r * ratToFloat (dR N im inn l) * fpow s l * fpow c (N - l)) 0.0

/-- `D_matrix_conj(α,β,γ,N)[im][in] = e^{i m α} d_{mn}(β) e^{i n γ}`, m = im - N/2 -/
def dConjF (N im inn : Nat) (al be ga : Float) : Float × Float :=
  let m := im.toFloat - N.toFloat / 2
  let n := inn.toFloat - N.toFloat / 2
  let ph := m * al + n * ga
  let d := dF N im inn be
  (d * Float.cos ph, d * Float.sin ph)

def handle : List String → Option String
  | ["d", N, im, inn, b] => do
    let N ← N.toNat?; let im ← im.toNat?; let inn ← inn.toNat?; let b ← parseF b
    some (showF (dF N im inn b))
  | ["D", N, im, inn, a, b, g] => do
    let N ← N.toNat?; let im ← im.toNat?; let inn ← inn.toNat?
    let a ← parseF a; let b ← parseF b; let g ← parseF g
    let (re, im') := dConjF N im inn a b g
    some (showFs [re, im'])
  | ws => TfPwaV.Wigner.handle ws

end TfPwaV.WignerF
