import TfPwaV.Model.Fit
import TfPwaV.Model.VarsF
/-! Float instance of the fit bookkeeping model + line protocol (C08).

`C08 fit <fixSame> <fixStd> <polar> <lbfgsb> <newtonRm> <hessOpt> <minuitSet> <exceptRm> <method> <stdc>
      | <setup ops of C16, separated by ;> | <bounds: n (name lo hi)*> | <abort> <hasHessInv> <success> <fval> <x: n v*>
      | <evals: (t|r) n v* separated by ;>`
`C08 fitv <fixSame> <fixStd> <stdFree> <boundHead> <polar> <lbfgsb> <newtonRm> <hessOpt> <minuitSet> <exceptRm> <stdBounded>
      <method> <stdc> | …` : the same with every variant flag of `Vars.Cfg` and `Fit.Fix`
answer: `<dump of the state before the fit> # <dump of the state when the minimiser returns (bounds registered)> # <dump of the final state> # ok <ndf> <success> <minNll> <k=v,...>` or `… # raised <exc>` -/
namespace TfPwaV.FitF
open TfPwaV.Vars TfPwaV.Util TfPwaV.Fit TfPwaV.VarsF

def splitBar (ws : List String) : List (List String) :=
  let rec go (cur : List String) (acc : List (List String)) : List String → List (List String)
    | [] => (cur.reverse :: acc).reverse
    | w :: rest => if w == "|" then go [] (cur.reverse :: acc) rest else go (w :: cur) acc rest
  go [] [] ws

def pMethod (s : String) : Option Method :=
  if s == "quasi" then some .quasi else if s == "lbfgsb" then some .lbfgsb else if s == "newton" then some .newton
  else if s == "minuit" then some .minuit else if s == "unknown" then some .unknown else none

def pEval (ws : List String) : Option (Eval Float) :=
  match ws with
  | k :: rest => do
    let (l, _) ← pFloats rest
    if k == "t" then some (.trans l) else if k == "r" then some (.raw l) else none
  | [] => none

def runSetup (cfg : Cfg) (s : State Float) : List (List String) → Option (State Float)
  | [] => some s
  | o :: rest => do
    let op ← parseOp o
    runSetup cfg (step arithF cfg s op).1 rest

def showOutcome : Outcome Float → String
  | .raised e => "raised " ++ e
  | .ok r => "ok " ++ toString r.ndf ++ " " ++ showB r.success ++ " " ++ showF r.minNll ++ " " ++
      ",".intercalate (r.params.map fun kv => kv.1 ++ "=" ++ showF kv.2)

/-- run one case with all variant flags given -/
def runCase (cfg : Cfg) (fx : Fix) (pol : Bool) (m : Method) (stdc : Bool) (rest : List String) : Option String :=
  match splitBar rest with
  | [setup, bnds, ora, evs] => do
    let s0 ← runSetup cfg (State.empty 0.0 pol) (splitOps setup)
    let (b, _) ← pBounds bnds
    match ora with
    | ab :: hh :: su :: fv :: xs => do
      let ab ← pB ab; let hh ← pB hh; let su ← pB su; let fv ← parseF fv
      let (x, _) ← pFloats xs
      let evals ← (splitOps evs).mapM pEval
      let o : Oracle Float := ⟨evals, ab, x, fv, su, hh⟩
      let r := fit arithF cfg fx m stdc s0 b o
      let mid := afterEvals arithF cfg m s0 (regBounds cfg s0 b) o
      some (dump s0 .none ++ "#" ++ dump mid .none ++ "#" ++ dump r.1 .none ++ "#" ++ showOutcome r.2)
    | _ => none
  | _ => none

def handle : List String → Option String
  | "fit" :: fs :: fa :: pol :: f1 :: f2 :: f3 :: f4 :: f5 :: meth :: stdc :: "|" :: rest => do
    let fs ← pB fs; let fa ← pB fa; let pol ← pB pol
    let f1 ← pB f1; let f2 ← pB f2; let f3 ← pB f3; let f4 ← pB f4; let f5 ← pB f5
    let m ← pMethod meth; let stdc ← pB stdc
    runCase ⟨fs, fa, false, false⟩ ⟨f1, f2, f3, f4, f5, false⟩ pol m stdc rest
  -- all variant flags: Cfg = fixSame fixStd stdFree boundHead; Fix = lbfgsb newtonRm hessOpt minuitSet exceptRm stdBounded
  | "fitv" :: fs :: fa :: sf :: bh :: pol :: f1 :: f2 :: f3 :: f4 :: f5 :: f6 :: meth :: stdc :: "|" :: rest => do
    let fs ← pB fs; let fa ← pB fa; let sf ← pB sf; let bh ← pB bh; let pol ← pB pol
    let f1 ← pB f1; let f2 ← pB f2; let f3 ← pB f3; let f4 ← pB f4; let f5 ← pB f5; let f6 ← pB f6
    let m ← pMethod meth; let stdc ← pB stdc
    runCase ⟨fs, fa, sf, bh⟩ ⟨f1, f2, f3, f4, f5, f6⟩ pol m stdc rest
  | _ => none

end TfPwaV.FitF
