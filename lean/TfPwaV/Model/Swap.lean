/-
Model of `DecayGroup.get_swap_factor` (tf_pwa/amp/core.py) for one group of identical fermions (C01).
A permutation of the group is the list of images `σ = [σ 0, σ 1, …]`.  Core Lean only.
-/
namespace TfPwaV.Swap

/-- the code before the fix: `-1` for every not yet seen unordered pair `(m, σ m)` with `m ≠ σ m` -/
def legacyFactor (σ : List Nat) : Int :=
  (((List.range σ.length).zip σ).foldl
    (fun (acc : List (Nat × Nat) × Int) (mn : Nat × Nat) =>
      if acc.1.contains mn || acc.1.contains (mn.2, mn.1) then acc
      else (mn :: acc.1, if mn.1 ≠ mn.2 then -acc.2 else acc.2))
    ([], 1)).2

/-- length of the cycle through `m`, marking its members as seen (`fuel` ≥ length of σ) -/
def walk (σ : List Nat) : Nat → Nat → List Nat → Nat → Nat × List Nat
  | 0, _, seen, len => (len, seen)
  | fuel + 1, m, seen, len => if seen.contains m then (len, seen) else walk σ fuel (σ.getD m m) (m :: seen) (len + 1)

/-- the code after the fix: `-1` for every cycle of even length -/
def fixedFactor (σ : List Nat) : Int :=
  ((List.range σ.length).foldl
    (fun (acc : List Nat × Int) (m : Nat) =>
      let r := walk σ (σ.length + 1) m acc.1 0
      (r.2, if r.1 > 0 ∧ r.1 % 2 = 0 then -acc.2 else acc.2))
    ([], 1)).2

/-- the sign of a permutation: `(-1)^(number of inversions)` -/
def permSign (σ : List Nat) : Int :=
  let inv := ((List.range σ.length).map fun i =>
    ((List.range σ.length).filter fun j => i < j ∧ σ.getD j 0 < σ.getD i 0).length).foldl (· + ·) 0
  if inv % 2 = 0 then 1 else -1

def compose (a b : List Nat) : List Nat := b.map fun i => a.getD i i

def insertAll (x : Nat) : List Nat → List (List Nat)
  | [] => [[x]]
  | y :: ys => (x :: y :: ys) :: (insertAll x ys).map (y :: ·)

def permsOf : List Nat → List (List Nat)
  | [] => [[]]
  | x :: xs => (permsOf xs).flatMap (insertAll x)

/-- all `n!` permutations of `0..n-1` as image lists -/
def perms (n : Nat) : List (List Nat) := permsOf (List.range n)

theorem perms_count : (perms 3).length = 6 ∧ (perms 4).length = 24 := by decide

/-- the legacy factor is the permutation sign for one or two identical fermions … -/
theorem legacy_ok_le2 : ∀ n ≤ 2, (perms n).all (fun σ => legacyFactor σ = permSign σ) = true := by decide +kernel

/-- … but for three it gives `-1` on the 3-cycles, which are even: it is not multiplicative
(`(0 1)(1 2)` is a 3-cycle), i.e. not a character of the exchange group. -/
theorem legacy_wrong_3cycle : legacyFactor [1, 2, 0] = -1 ∧ permSign [1, 2, 0] = 1 ∧
    compose [1, 0, 2] [0, 2, 1] = [1, 2, 0] ∧ legacyFactor [1, 0, 2] * legacyFactor [0, 2, 1] = 1 := by decide

/-- the repaired factor is the permutation sign for every exchange of up to four identical fermions -/
theorem fixed_is_sign : ∀ n ≤ 4, (perms n).all (fun σ => fixedFactor σ = permSign σ) = true := by decide +kernel

/-- hence multiplicative (a character) on S₃ -/
theorem fixed_multiplicative_3 :
    (perms 3).all (fun a => (perms 3).all fun b => fixedFactor (compose a b) = fixedFactor a * fixedFactor b) = true := by
  decide +kernel

-- line protocol: `swapfac legacy|fixed σ0 σ1 …` → factor
def handle : List String → Option String
  | "swapfac" :: variant :: ws => do
    let σ ← ws.mapM String.toNat?
    match variant with
    | "legacy" => some (toString (legacyFactor σ))
    | "fixed" => some (toString (fixedFactor σ))
    | _ => none
  | _ => none

end TfPwaV.Swap
