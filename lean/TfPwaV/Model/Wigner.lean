/-
Exact model of the rotation-group tables of tf-pwa (C12; reused by C04, C13, C01).

* `small_d_weight(j)` (dfun.py): with `N = 2j` and indices `im = (m+N)/2`, `in = (n+N)/2 ∈ 0..N`
    w_l^{(m,n)} = (-1)^(k+im-in) * sqrt(A im * A in) / ((N-im-k)! (in-k)! (k+im-in)! k!),   l = 2k+im-in
  with `A i = i! (N-i)!`.  We carry the rational part `dR` and the radicand `A im * A in` separately:
    d^j_{mn}(β) = sqrt(A im * A in) * Σ_l dR N im in l * sin(β/2)^l cos(β/2)^(N-l).
* Clebsch-Gordan coefficients by Racah's closed form, doubled arguments:
    <j1 m1 j2 m2 | J M> = sqrt(cgRad) * cgRat      (cgRad ≥ 0 rational, cgRat rational with the sign)

Everything here is core Lean (`Nat`, `Int`, `Rat`, `List`) and kernel-evaluable.
-/
namespace TfPwaV.Wigner

def fact : Nat → Nat
  | 0 => 1
  | n + 1 => (n + 1) * fact n

def negOnePow (n : Nat) : Int := if n % 2 = 0 then 1 else -1

/-- `A N i = i! (N-i)!` : the radicand factor of row/column `i` of `d^{N/2}` -/
def A (N i : Nat) : Nat := fact i * fact (N - i)

/-- rational part of `small_d_weight(N)[l][im][in]` -/
def dR (N im inn l : Nat) : Rat :=
  if im ≤ N ∧ inn ≤ N ∧ im ≤ l + inn ∧ (l + inn - im) % 2 = 0 then
    let k := (l + inn - im) / 2
    if k + im ≤ N ∧ k ≤ inn ∧ inn ≤ k + im then
      (negOnePow (k + im - inn) : Rat) /
        ((fact (N - im - k) * fact (inn - k) * fact (k + im - inn) * fact k : Nat) : Rat)
    else 0
  else 0

/-- coefficient list (index l = power of sin(β/2)) of the rational part of `d_{im,in}` -/
def dPoly (N im inn : Nat) : List Rat := (List.range (N + 1)).map (dR N im inn)

def choose : Nat → Nat → Nat
  | _, 0 => 1
  | 0, _ + 1 => 0
  | n + 1, k + 1 => choose n k + choose n (k + 1)

/-- integer form: `dR N im in l = zCoef N im in l / A N im`
    (since 1/((N-im-k)! k!) = C(N-im,k)/(N-im)!  and 1/((in-k)! (k+im-in)!) = C(im,in-k)/im!) -/
def zCoef (N im inn l : Nat) : Int :=
  if im ≤ N ∧ inn ≤ N ∧ im ≤ l + inn ∧ (l + inn - im) % 2 = 0 then
    let k := (l + inn - im) / 2
    if k + im ≤ N ∧ k ≤ inn ∧ inn ≤ k + im then
      negOnePow (k + im - inn) * (choose (N - im) k * choose im (inn - k) : Nat)
    else 0
  else 0

def zPoly (N im inn : Nat) : List Int := (List.range (N + 1)).map (zCoef N im inn)

/-- kernel-checkable tie between the transcription `dR` of the code's formula and the integer form -/
def dzCheck (N : Nat) : Bool :=
  (List.range (N + 1)).all fun im => (List.range (N + 1)).all fun inn =>
    decide (dPoly N im inn = (zPoly N im inn).map fun (z : Int) => (z : Rat) / ((A N im : Nat) : Rat))

/-! ### homogeneous bivariate polynomials as integer coefficient lists
`p = [a₀,…,a_n]` stands for `Σ a_i s^i c^(n-i)` -/

def scale (a : Int) (p : List Int) : List Int := p.map (a * ·)
def addP (p q : List Int) : List Int := List.zipWith (· + ·) p q

def mulP : List Int → List Int → List Int
  | [], _ => []
  | [a], q => scale a q
  | a :: b :: p, q => addP (scale a q ++ List.replicate (p.length + 1) 0) (0 :: mulP (b :: p) q)

def powP (p : List Int) : Nat → List Int
  | 0 => [1]
  | n + 1 => mulP p (powP p n)

def sumP (len : Nat) (ps : List (List Int)) : List Int :=
  ps.foldr addP (List.replicate len 0)

/-- `Σ_in A(in) · zPoly(im,in) · zPoly(im',in)` -/
def unitaryLHS (N im im' : Nat) : List Int :=
  sumP (2 * N + 1) ((List.range (N + 1)).map fun inn =>
    scale (A N inn : Nat) (mulP (zPoly N im inn) (zPoly N im' inn)))

/-- `δ_{im,im'} A(im) (s²+c²)^N` -/
def unitaryRHS (N im im' : Nat) : List Int :=
  scale (if im = im' then (A N im : Nat) else 0) (powP [1, 0, 1] N)

def unitaryCheck (N : Nat) : Bool :=
  (List.range (N + 1)).all fun im => (List.range (N + 1)).all fun im' =>
    decide (unitaryLHS N im im' = unitaryRHS N im im')

/-! ### Clebsch–Gordan (Racah), all arguments doubled: j's are `Nat`, m's are `Int` -/

def ihalf (x : Int) : Nat := (x / 2).toNat

/-- triangle coefficient Δ(j1 j2 J) as a rational -/
def triDelta (j1 j2 J : Nat) : Rat :=
  ((fact ((j1 + j2 - J) / 2) * fact ((j1 + J - j2) / 2) * fact ((j2 + J - j1) / 2) : Nat) : Rat) /
    ((fact ((j1 + j2 + J) / 2 + 1) : Nat) : Rat)

def cgValid (j1 : Nat) (m1 : Int) (j2 : Nat) (m2 : Int) (J : Nat) (M : Int) : Bool :=
  decide (m1 + m2 = M) && decide (J ≤ j1 + j2) && decide (j1 ≤ j2 + J) && decide (j2 ≤ j1 + J) &&
  decide ((j1 + j2 + J) % 2 = 0) &&
  decide (-(j1 : Int) ≤ m1 ∧ m1 ≤ j1) && decide (-(j2 : Int) ≤ m2 ∧ m2 ≤ j2) &&
  decide (-(J : Int) ≤ M ∧ M ≤ J) &&
  decide ((j1 + m1) % 2 = 0) && decide ((j2 + m2) % 2 = 0) && decide ((J + M) % 2 = 0)

/-- radicand: (2J+1) Δ (j1+m1)!(j1-m1)!(j2+m2)!(j2-m2)!(J+M)!(J-M)! -/
def cgRad (j1 : Nat) (m1 : Int) (j2 : Nat) (m2 : Int) (J : Nat) (M : Int) : Rat :=
  if cgValid j1 m1 j2 m2 J M then
    ((J + 1 : Nat) : Rat) * triDelta j1 j2 J *
      ((fact (ihalf (j1 + m1)) * fact (ihalf (j1 - m1)) * fact (ihalf (j2 + m2)) * fact (ihalf (j2 - m2)) *
        fact (ihalf (J + M)) * fact (ihalf (J - M)) : Nat) : Rat)
  else 0

/-- the alternating sum Σ_k (-1)^k / (k! (j1+j2-J-k)! (j1-m1-k)! (j2+m2-k)! (J-j2+m1+k)! (J-j1-m2+k)!) -/
def cgRat (j1 : Nat) (m1 : Int) (j2 : Nat) (m2 : Int) (J : Nat) (M : Int) : Rat :=
  if cgValid j1 m1 j2 m2 J M then
    ((List.range ((j1 + j2 - J) / 2 + 1)).map fun (k : Nat) =>
      let a : Int := ((j1 + j2 - J) / 2 : Nat) - (k : Int)
      let b : Int := (j1 - m1) / 2 - k
      let c : Int := (j2 + m2) / 2 - k
      let d : Int := ((J : Int) - j2 + m1) / 2 + k
      let e : Int := ((J : Int) - j1 - m2) / 2 + k
      if 0 ≤ a ∧ 0 ≤ b ∧ 0 ≤ c ∧ 0 ≤ d ∧ 0 ≤ e then
        (negOnePow k : Rat) /
          ((fact k * fact a.toNat * fact b.toNat * fact c.toNat * fact d.toNat * fact e.toNat : Nat) : Rat)
      else 0).foldl (· + ·) 0
  else 0

/-- `cg² = cgRad * cgRat²` and `sign cg = sign cgRat` -/
def cgSq (j1 : Nat) (m1 : Int) (j2 : Nat) (m2 : Int) (J : Nat) (M : Int) : Rat :=
  cgRad j1 m1 j2 m2 J M * cgRat j1 m1 j2 m2 J M * cgRat j1 m1 j2 m2 J M

def ratSign (q : Rat) : Int := if q > 0 then 1 else if q < 0 then -1 else 0

/-- `get_cg_coef` symmetry rule (cg.py): value for (j1,j2) from the stored entry with j1 ≥ j2 -/
def cgSwapSign (j1 j2 J : Nat) : Int := if j1 < j2 ∧ ((j1 + j2 - J) / 2) % 2 = 1 then -1 else 1

/-- helicities -j..j (doubled) -/
def mRange (j : Nat) : List Int := (List.range (j + 1)).map fun (i : Nat) => 2 * (i : Int) - (j : Int)

/-- the m-dependent part of the radicand: (j1+m1)!(j1-m1)!(j2+m2)!(j2-m2)! -/
def mPart (j1 : Nat) (m1 : Int) (j2 : Nat) (m2 : Int) : Rat :=
  ((fact (ihalf (j1 + m1)) * fact (ihalf (j1 - m1)) * fact (ihalf (j2 + m2)) * fact (ihalf (j2 - m2)) : Nat) : Rat)

/-- the (J,M)-dependent part: (2J+1) Δ (J+M)!(J-M)! -/
def jPart (j1 j2 J : Nat) (M : Int) : Rat :=
  ((J + 1 : Nat) : Rat) * triDelta j1 j2 J * ((fact (ihalf (J + M)) * fact (ihalf (J - M)) : Nat) : Rat)

/-- Σ_{m1} mPart · cgRat(J) · cgRat(J')  — the rational content of ⟨JM|J'M⟩ -/
def orthoSum (j1 j2 J J' : Nat) (M : Int) : Rat :=
  ((mRange j1).map fun m1 =>
    let m2 := M - m1
    if cgValid j1 m1 j2 m2 J M && cgValid j1 m1 j2 m2 J' M then
      mPart j1 m1 j2 m2 * cgRat j1 m1 j2 m2 J M * cgRat j1 m1 j2 m2 J' M
    else 0).foldl (· + ·) 0

def jRange (j1 j2 : Nat) : List Nat :=
  (List.range (j1 + j2 + 1)).filter fun J => (if j1 ≤ j2 then j2 - j1 else j1 - j2) ≤ J ∧ (j1 + j2 + J) % 2 = 0

/-- orthonormality ⟨J M | J' M⟩ = δ_{JJ'} in rational form:
    jPart(J) · orthoSum(J,J) = 1 and orthoSum(J,J') = 0 for J ≠ J' -/
def orthoCheck (j1 j2 : Nat) : Bool :=
  (jRange j1 j2).all fun J => (jRange j1 j2).all fun J' =>
    (mRange J).all fun M =>
      if J = J' then jPart j1 j2 J M * orthoSum j1 j2 J J M == 1
      else if (-(J' : Int) ≤ M ∧ M ≤ J') then orthoSum j1 j2 J J' M == 0 else true

-- line protocol ---------------------------------------------------------------

def showRat (q : Rat) : String := s!"{q.num}/{q.den}"

def handle : List String → Option String
  | ["dw", N, im, inn, l] => do
    let N ← N.toNat?; let im ← im.toNat?; let inn ← inn.toNat?; let l ← l.toNat?
    -- answer: rational part and radicand:  w = dR * sqrt(A im * A in)
    some s!"{showRat (dR N im inn l)} {A N im * A N inn}"
  | ["cg", j1, m1, j2, m2, J, M] => do
    let j1 ← j1.toNat?; let m1 ← m1.toInt?; let j2 ← j2.toNat?; let m2 ← m2.toInt?
    let J ← J.toNat?; let M ← M.toInt?
    some s!"{ratSign (cgRat j1 m1 j2 m2 J M)} {showRat (cgSq j1 m1 j2 m2 J M)}"
  | _ => none

end TfPwaV.Wigner
