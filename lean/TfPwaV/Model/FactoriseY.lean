import TfPwaV.Model.Factorise
/-
Model of the remaining evaluation strategies of C05 (part Y), Mathlib-free and executable:

Python                                                         model
-------------------------------------------------------------  ---------------------------------------------------
amp/amp.py  BaseAmplitudeModel.temp_total_gls_one               saveAll / setAll / restoreAll / tempGlsOne over a flag table
            (mask_part = [chain, *chain for chain in group])    maskPart (chains refer to decay OBJECTS by index: sharing)
seeded change C05-03 (record and set in ONE loop)               fusedEnter / tempGlsOneFused
amp/core.py HelicityDecay.get_g_ls  (`tf.ones_like` if masked)  getGls
            DecayChain.get_amp_total (`tf.ones_like` if masked) getTotal
            DecayChain.get_m_dep  [g_ls·bf …, total·rs]         mDep
            DecayChain.get_all_factor [total, g_ls …]           allFactor
experimental/build_amp.build_params_vector (one chain, event)   pvBuild   (= Factorise.paramsVector ∘ mDep)
experimental/opt_int.build_params_vector(concat=False)[c]       pvCoupling (= gls_combine ∘ get_all_factor)
amp/preprocess.py CachedShapePreProcessor.build_cached          cacheOf / preprocess  (`a * tf.stack(tmp, axis=1)` under the mask)
amp/amp.py  CachedShapeAmplitudeModel.pdf                       shapePdf (part A: chains outside cached_shape_idx as cached_amp,
                                                                part B: Σ_k pvCoupling_k · cache_k)
            CachedAmpAmplitudeModel.pdf / plain evaluation      chainAmp / defaultAmp
amp/amp.py  AbsPDF.__call__ (f_data, no_id_cached, cached_fun)  PdfSt / Op / stepPdf / runPdf   (state machine over calls)
amp/preprocess.py BasePreProcessor.__call__ + amp.pdf           pipeDefault
            p4_directly preprocessor + P4DirectlyAmplitudeModel pipeP4
            cached_angle preprocessor + FactorAmplitudeModel    pipeCachedAngle / pipeBaseFactor

Everything below is for ONE event and ONE fixed helicity slot (the tensors of the code carry an event axis and trailing
helicity axes that are only broadcast); `handle` maps over the helicity slots.  Object identities: chain number c has the
flag cell `chainId c = 2c`, decay-table entry d has `decayId d = 2d+1` (a decay object shared by several chains is ONE cell).
-/
namespace TfPwaV.FactoriseY
open TfPwaV.Factorise

/-! ## 1. the `mask_factor` protocol -/

/-- `getattr(obj, "mask_factor", False)` for every object (cell) -/
abbrev Flags := Nat → Bool

def setF (fl : Flags) (i : Nat) (b : Bool) : Flags := fun j => if j = i then b else fl j

/-- `old_mask = [getattr(i, "mask_factor", False) for i in mask_part]` -/
def saveAll (fl : Flags) (vis : List Nat) : List Bool := vis.map fl
/-- `for i in mask_part: i.mask_factor = True` -/
def setAll (fl : Flags) (vis : List Nat) : Flags := vis.foldl (fun f i => setF f i true) fl
/-- `for i, j in zip(mask_part, old_mask): i.mask_factor = j` -/
def restoreAll (fl : Flags) : List Nat → List Bool → Flags
  | i :: vis, b :: old => restoreAll (setF fl i b) vis old
  | _, _ => fl

/-- `with temp_total_gls_one(): body` — the `finally` restores whatever the body returns (also an exception value) -/
def tempGlsOne {α : Type} (fl : Flags) (vis : List Nat) (body : Flags → α) : α × Flags :=
  let old := saveAll fl vis
  let fl1 := setAll fl vis
  (body fl1, restoreAll fl1 vis old)

/-- seeded change C05-03: `for part in …: mask_part.append(part); old_mask.append(part.mask_factor); part.mask_factor = True` -/
def fusedEnter (fl : Flags) : List Nat → Flags × List Bool
  | [] => (fl, [])
  | i :: vis => let r := fusedEnter (setF fl i true) vis; (r.1, fl i :: r.2)

def tempGlsOneFused {α : Type} (fl : Flags) (vis : List Nat) (body : Flags → α) : α × Flags :=
  let r := fusedEnter fl vis
  (body r.1, restoreAll r.1 vis r.2)

def chainId (c : Nat) : Nat := 2 * c
def decayId (d : Nat) : Nat := 2 * d + 1

/-- `for i in decay_group: mask_part.append(i); for j in i: mask_part.append(j)`; `decs[c]` = decay-table indices of chain c -/
def maskPartFrom (c0 : Nat) : List (List Nat) → List Nat
  | [] => []
  | ds :: rest => chainId c0 :: (ds.map decayId ++ maskPartFrom (c0 + 1) rest)
def maskPart (decs : List (List Nat)) : List Nat := maskPartFrom 0 decs

/-! ## 2. `cached_shape` -/

/-- what does not depend on the fit parameters (one event, one helicity slot) -/
structure Struct (R : Type) where
  /-- chain c ↦ indices into the decay table (the same index in two chains = one shared decay object) -/
  decs : List (List Nat)
  /-- chain c ↦ angular entries, one per ls combination in the order of `split_gls` -/
  ang : List (List R)

/-- what depends on the fit parameters -/
structure Params (R : Type) where
  /-- decay object d ↦ couplings g_ls -/
  g : List (List R)
  /-- chain c ↦ `total` -/
  total : List R
  /-- chain c, decay position j ↦ barrier factor per ls (depends on masses; `get_ls_amp` multiplies it with g_ls) -/
  bf : List (List (List R))
  /-- chain c ↦ product of the propagators (`get_amp_particle`; depends on masses and widths) -/
  rs : List R

section ops
variable {R : Type} [Zero R] [One R] [Add R] [Mul R]

/-- elementwise product (`mag * bf`, `a * tf.stack(tmp, axis=1)`) -/
def hmul (a b : List R) : List R := List.zipWith (· * ·) a b
/-- `tf.ones_like` -/
def onesLike (g : List R) : List R := g.map fun _ => 1

def getGls (fl : Flags) (P : Params R) (d : Nat) : List R :=
  if fl (decayId d) then onesLike (P.g.getD d []) else P.g.getD d []
def getTotal (fl : Flags) (P : Params R) (c : Nat) : R :=
  if fl (chainId c) then 1 else P.total.getD c 0

/-- `DecayChain.get_m_dep`: `[g_ls·bf of each decay …, total·rs]` -/
def mDep (fl : Flags) (S : Struct R) (P : Params R) (c : Nat) : List (List R) :=
  List.zipWith (fun d b => hmul (getGls fl P d) b) (S.decs.getD c []) (P.bf.getD c [])
    ++ [[getTotal fl P c * P.rs.getD c 0]]
/-- `build_amp.build_params_vector(dg, data)[c]` at one event -/
def pvBuild (fl : Flags) (S : Struct R) (P : Params R) (c : Nat) : List R := paramsVector (mDep fl S P c)
/-- `DecayChain.get_all_factor` -/
def allFactor (fl : Flags) (S : Struct R) (P : Params R) (c : Nat) : List (List R) :=
  [getTotal fl P c] :: (S.decs.getD c []).map (getGls fl P)
/-- `opt_int.build_params_vector(dg, concat=False)[c]` = `gls_combine(get_all_factor())` -/
def pvCoupling (fl : Flags) (S : Struct R) (P : Params R) (c : Nat) : List R := paramsVector (allFactor fl S P c)

/-- plain evaluation of chain c in the `cached_amp` form `Σ_k pv_k · ang_k` (Props/C05c: = Π_decays Σ_ls …) -/
def chainAmp (fl : Flags) (S : Struct R) (P : Params R) (c : Nat) : R := dot (pvBuild fl S P c) (S.ang.getD c [])
/-- `Σ_{c ∈ chains_idx}` -/
def defaultAmp (fl : Flags) (S : Struct R) (P : Params R) (used : List Nat) : R := (used.map (chainAmp fl S P)).sum

/-- what `CachedShapePreProcessor.build_cached` stores for chain c when the masked flags are `flm`:
    chains of `cached_shape_idx` get `pv_masked ⊙ ang`, the others the bare angular cache -/
def cacheOf (flm : Flags) (S : Struct R) (P0 : Params R) (idx : List Nat) (c : Nat) : List R :=
  if idx.contains c then hmul (pvBuild flm S P0 c) (S.ang.getD c []) else S.ang.getD c []

/-- the preprocessor run from flags `fl0` at parameters `P0`: (cache, flags afterwards) -/
def preprocess (fl0 : Flags) (S : Struct R) (P0 : Params R) (idx : List Nat) : (Nat → List R) × Flags :=
  tempGlsOne fl0 (maskPart S.decs) fun flm => cacheOf flm S P0 idx
/-- the same with the fused loop of C05-03 -/
def preprocessFused (fl0 : Flags) (S : Struct R) (P0 : Params R) (idx : List Nat) : (Nat → List R) × Flags :=
  tempGlsOneFused fl0 (maskPart S.decs) fun flm => cacheOf flm S P0 idx

/-- `CachedShapeAmplitudeModel.pdf` (before `sum_with_polarization`): part A = used chains outside `cached_shape_idx`
    (`used_chains_idx`), part B = `cached_shape_idx2 = [i for i in cached_shape_idx if i in old_chains_idx]` -/
def shapePdf (fl : Flags) (S : Struct R) (P : Params R) (cache : Nat → List R) (used idx : List Nat) : R :=
  ((used.filter fun i => !idx.contains i).map fun c => dot (pvBuild fl S P c) (cache c)).sum
    + ((idx.filter fun i => used.contains i).map fun c => dot (pvCoupling fl S P c) (cache c)).sum

/-- the direct multilinear expression of chain c for product-form angular entries:
    `total · rs · Π_decays Σ_ls g_ls · bf_ls · part_ls` -/
def directChain (fl : Flags) (S : Struct R) (P : Params R) (parts : List (List R)) (c : Nat) : R :=
  prodL ((List.zipWith (fun (d : Nat) (bp : List R × List R) => dot (hmul (getGls fl P d) bp.1) bp.2)
      (S.decs.getD c []) ((P.bf.getD c []).zip parts))) * (getTotal fl P c * P.rs.getD c 0)

end ops

/-! ## 3. the id()-based switch of `AbsPDF.__call__` -/

/-- `self.f_data`, the current parameters (`vm`), `cached_available()` (= `not decay_group.not_full`) -/
structure PdfSt (P : Type) where
  fData : List Nat
  params : P
  avail : Bool

inductive Op (P D : Type) where
  /-- `amp(data)`: the object identity `id(data)` and the content are independent inputs (ids may be reused) -/
  | call (id : Nat) (d : D)
  /-- `amp.set_params(...)` / an optimiser step on `vm` -/
  | setParams (p : P)
  /-- `set_used_chains`: toggles `cached_available()` -/
  | setAvail (b : Bool)

/-- the two implementations and the option -/
structure PdfEnv (P D O : Type) where
  pdf : P → D → O
  cachedFun : P → D → O
  noIdCached : Bool

/-- one operation: new state and, for a call, (value, ran `cached_fun`?) -/
def stepPdf {P D O : Type} (env : PdfEnv P D O) (st : PdfSt P) : Op P D → PdfSt P × Option (O × Bool)
  | .call i d =>
    if st.fData.contains i || env.noIdCached then
      if st.avail then (st, some (env.cachedFun st.params d, true))
      else (st, some (env.pdf st.params d, false))
    else ({ st with fData := st.fData ++ [i] }, some (env.pdf st.params d, false))
  | .setParams p => ({ st with params := p }, none)
  | .setAvail b => ({ st with avail := b }, none)

def runPdf {P D O : Type} (env : PdfEnv P D O) : PdfSt P → List (Op P D) → List (O × Bool) × PdfSt P
  | st, [] => ([], st)
  | st, op :: ops =>
    let r := stepPdf env st op
    let rest := runPdf env r.1 ops
    (match r.2 with
      | some o => o :: rest.1
      | none => rest.1, rest.2)

/-- the specification: every call returns `pdf (current parameters) data`; no history -/
def runRef {P D O : Type} (pdf : P → D → O) : P → List (Op P D) → List O
  | _, [] => []
  | p, .call _ d :: ops => pdf p d :: runRef pdf p ops
  | _, .setParams p' :: ops => runRef pdf p' ops
  | p, .setAvail _ :: ops => runRef pdf p ops

/-! ## 4. the preprocessor / amplitude pipelines -/

section pipes
variable {P4 Ang T M Θ Out : Type}

/-- `dic.get("cp_trans", True)`: config_loader/data.py (hands it to the preprocessor) and
    `P4DirectlyAmplitudeModel.pdf` read the SAME `data:` section with the SAME default -/
def resolveCp (o : Option Bool) : Bool := o.getD true
/-- `BasePreProcessor.__call__` when it is constructed without ConfigLoader: `self.kwargs.get("cp_trans", False)` -/
def resolveCpBare (o : Option Bool) : Bool := o.getD false

/-- `parity_trans(p, charges)`: `None` → unchanged; `tf.where(charges > 0, p, neg(p))` -/
def parityTrans (neg : P4 → P4) (p : P4) : Option Int → P4
  | none => p
  | some c => if c > 0 then p else neg p

/-- default: the preprocessor (at load time) flips and computes the angles, the amplitude gets angles + extras -/
def pipeDefault (cp : Bool) (neg : P4 → P4) (calAngle : P4 → Ang) (sumAmp : Θ → Ang → Option Int → Out)
    (θ : Θ) (p : P4) (ch : Option Int) : Out :=
  let pre := calAngle (if cp then parityTrans neg p ch else p)   -- at load time
  sumAmp θ pre ch                                                 -- at call time
/-- p4_directly: the preprocessor keeps `{"p4": p4}`, the model flips and computes the angles inside `pdf` -/
def pipeP4 (cp : Bool) (neg : P4 → P4) (calAngle : P4 → Ang) (sumAmp : Θ → Ang → Option Int → Out)
    (θ : Θ) (p : P4) (ch : Option Int) : Out :=
  let pre := p                                                    -- at load time
  let p' := if cp then parityTrans neg pre ch else pre            -- at call time
  sumAmp θ (calAngle p') ch

/-- base_factor: `get_amp_list` = contraction of the mass-dependent factors (θ) with the angular tensor (no θ) -/
def pipeBaseFactor (calAngle : P4 → Ang) (angAmp : Ang → T) (mdep : Θ → Ang → M) (contract : M → T → Out)
    (θ : Θ) (p : P4) : Out :=
  let ang := calAngle p                                           -- at load time
  contract (mdep θ ang) (angAmp ang)                              -- at call time: both recomputed
/-- cached_angle + base_factor: the angular tensor is computed at load time (`data["cached_angle"]`) -/
def pipeCachedAngle (calAngle : P4 → Ang) (angAmp : Ang → T) (mdep : Θ → Ang → M) (contract : M → T → Out)
    (θ : Θ) (p : P4) : Out :=
  let ang := calAngle p                                           -- at load time
  let cached := angAmp ang                                        -- at load time
  contract (mdep θ ang) cached                                    -- at call time
/-- a (hypothetical) angular tensor that depends on the parameters at load time `θ0` -/
def pipeCachedAngleθ (calAngle : P4 → Ang) (angAmpθ : Θ → Ang → T) (mdep : Θ → Ang → M) (contract : M → T → Out)
    (θ0 θ : Θ) (p : P4) : Out :=
  let ang := calAngle p
  let cached := angAmpθ θ0 ang
  contract (mdep θ ang) cached

/-- `LazyCall`: the events are preprocessed / evaluated batch by batch and concatenated -/
def batched {α β : Type} (f : α → β) (k : Nat) (evs : List α) : List β := (evs.take k).map f ++ (evs.drop k).map f

end pipes

/-! ## line protocol  `C05y <op> …`

* `mask <init flags 0/1 csv> <visiting sequence csv> <0|1 fused>` → `ok <flags during body> <flags after>`
* `shape <Z|G> <H> <fused 0/1> <used csv> <idx csv> <init flags csv> <decs rows> <g0 rows> <total0> <rs0> <g rows> <total> <rs>
   then per chain: <bf0 rows> <bf rows> <ang rows (K rows of H entries)>`
   → `ok <cache chain 0 rows | …> <amplitude over H> <default amplitude over H> <flags after preprocessing>`
* `pdf <noIdCached 0/1> <p0> <ops…>` with ops `c:<id>:<x>`, `p:<v>`, `a:<0|1>`; pdf p x = p·x, cached_fun the same
   → `ok <v:which …> <f_data csv>`
-/

def parseNats (s : String) : Option (List Nat) :=
  if s == "-" then some [] else (s.splitOn ",").mapM (·.toNat?)
def parseNatRows (s : String) : Option (List (List Nat)) :=
  if s == "_" then some [] else (s.splitOn ";").mapM parseNats
def flagsOf (l : List Nat) : Flags := fun i => l.getD i 0 != 0
def showFlags (fl : Flags) (n : Nat) : String :=
  if n == 0 then "-" else ",".intercalate ((List.range n).map fun i => if fl i then "1" else "0")

def handleMask : List String → Option String
  | [init, vis, fused] => do
    let init ← parseNats init
    let vis ← parseNats vis
    let n := (vis.foldl max 0 + 1).max init.length
    let fl0 := flagsOf init
    let r := if fused == "1" then tempGlsOneFused fl0 vis (fun f => showFlags f n) else tempGlsOne fl0 vis (fun f => showFlags f n)
    pure ("ok " ++ r.1 ++ " " ++ showFlags r.2 n)
  | _ => none

/-- split `n` leading triples (bf0 rows, bf rows, ang rows) -/
def parseChains {R : Type} (c : Codec R) : List String → Option (List (List (List R) × List (List R) × List (List R)))
  | b0 :: b :: a :: rest => do
    let b0 ← c.parseRows b0
    let b ← c.parseRows b
    let a ← c.parseRows a
    let r ← parseChains c rest
    pure ((b0, b, a) :: r)
  | [] => some []
  | _ => none

section handleR
variable {R : Type} [Zero R] [One R] [Add R] [Mul R] (c : Codec R)

def handleShape : List String → Option String
  | H :: fused :: used :: idx :: init :: decs :: g0 :: t0 :: r0 :: g :: t :: r :: chains => do
    let H ← H.toNat?
    let used ← parseNats used
    let idx ← parseNats idx
    let init ← parseNats init
    let decs ← parseNatRows decs
    let g0 ← c.parseRows g0
    let t0 ← c.parse t0
    let r0 ← c.parse r0
    let g ← c.parseRows g
    let t ← c.parse t
    let r ← c.parse r
    let chs ← parseChains c chains
    let P0 : Params R := ⟨g0, t0, chs.map (·.1), r0⟩
    let P : Params R := ⟨g, t, chs.map (·.2.1), r⟩
    let fl0 := flagsOf init
    let nfl := (2 * (decs.length.max g.length) + 2).max init.length
    let col (h : Nat) : Struct R := ⟨decs, chs.map fun x => x.2.2.map fun row => row.getD h 0⟩
    let pre (h : Nat) := if fused == "1" then preprocessFused fl0 (col h) P0 idx else preprocess fl0 (col h) P0 idx
    let flAfter := (pre 0).2
    let cacheRows := (List.range decs.length).map fun ci =>
      let K := ((chs.getD ci ([], [], [])).2.2).length
      c.showRows ((List.range K).map fun k => (List.range H).map fun h => ((pre h).1 ci).getD k 0)
    let amp := (List.range H).map fun h => shapePdf flAfter (col h) P (pre h).1 used idx
    let dflt := (List.range H).map fun h => defaultAmp flAfter (col h) P used
    pure ("ok " ++ "|".intercalate cacheRows ++ " " ++ c.shw amp ++ " " ++ c.shw dflt ++ " " ++ showFlags flAfter nfl)
  | _ => none

end handleR

def parseOp (s : String) : Option (Op Int Int) :=
  match s.splitOn ":" with
  | ["c", i, x] => do pure (.call (← i.toNat?) (← x.toInt?))
  | ["p", v] => do pure (.setParams (← v.toInt?))
  | ["a", b] => some (.setAvail (b == "1"))
  | _ => none

def handlePdf : List String → Option String
  | nic :: p0 :: ops => do
    let p0 ← p0.toInt?
    let ops ← ops.mapM parseOp
    let env : PdfEnv Int Int Int := ⟨fun p x => p * x, fun p x => p * x, nic == "1"⟩
    let r := runPdf env ⟨[], p0, true⟩ ops
    let outs := r.1.map fun o => toString o.1 ++ ":" ++ (if o.2 then "1" else "0")
    pure ("ok " ++ (if outs.isEmpty then "-" else ",".intercalate outs) ++ " "
      ++ (if r.2.fData.isEmpty then "-" else ",".intercalate (r.2.fData.map toString)))
  | _ => none

def handle : List String → Option String
  | "mask" :: rest => handleMask rest
  | "shape" :: "Z" :: rest => handleShape codecZ rest
  | "shape" :: "G" :: rest => handleShape codecG rest
  | "pdf" :: rest => handlePdf rest
  | _ => none

end TfPwaV.FactoriseY
