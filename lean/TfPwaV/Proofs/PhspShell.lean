import TfPwaV.Proofs.PhspTree
/-! Helper lemmas for C10: mass shells and intermediate masses of `ChainGenerator` output over arbitrary nestings. -/
open TfPwaV.ScalarR
namespace TfPwaV.PhspR
open TfPwaV.KinR

/-- regular branch of `LorentzVector.boost` for the velocity of `p` -/
def Regular (p : V4) : Prop := eps < p.boostVector.norm2 ∧ p.boostVector.norm2 < 1

mutual
/-- the nodes of a struct in `_get_generator` order, each with its list of daughters -/
def MTree.specs : MTree → List (ℝ × List MTree)
  | .leaf _ => []
  | .node m ch => specsL ch ++ [(m, ch)]
def specsL : List MTree → List (ℝ × List MTree)
  | [] => []
  | t :: ts => t.specs ++ specsL ts
end

mutual
theorem specs_gens : ∀ t : MTree, t.specs.map (fun s => (s.1, s.2.map MTree.mass)) = t.gens
  | .leaf _ => by simp [MTree.specs, MTree.gens]
  | .node m ch => by simp [MTree.specs, MTree.gens, specsL_gensL ch]
theorem specsL_gensL : ∀ l : List MTree, (specsL l).map (fun s => (s.1, s.2.map MTree.mass)) = gensL l
  | [] => by simp [specsL, gensL]
  | t :: ts => by simp [specsL, gensL, specs_gens t, specsL_gensL ts]
end

/-- what a correct generator of the node `(m, daughters)` returns, incl. the regular-branch condition on the
momenta of the *nested* daughters (the only ones `tree_boost` boosts by) -/
def GoodNode (s : ℝ × List MTree) (pi : List V4) : Prop :=
  sumV4 pi = ⟨s.1, 0, 0, 0⟩ ∧ (∀ p ∈ pi, 0 < p.t) ∧
    List.Forall₂ (fun c p => OnShell p c.mass ∧ (match c with | .leaf _ => True | .node _ _ => Regular p)) s.2 pi

mutual
/-- a momentum tree realises a struct: every final particle on its mass shell, every intermediate state on its
fixed mass shell and equal to the sum of the final-state momenta below it -/
def Match : MTree → PTree → Prop
  | .leaf m, .leaf p => OnShell p m
  | .node m ch, .node p f => OnShell p m ∧ sumV4 (leavesL f) = p ∧ MatchL ch f
  | _, _ => False
def MatchL : List MTree → List PTree → Prop
  | [], [] => True
  | t :: ts, q :: qs => Match t q ∧ MatchL ts qs
  | _, _ => False
end

mutual
def MTree.leafMasses : MTree → List ℝ
  | .leaf m => [m]
  | .node _ ch => leafMassesL ch
def leafMassesL : List MTree → List ℝ
  | [] => []
  | t :: ts => t.leafMasses ++ leafMassesL ts
end

theorem forall₂_append' {α β : Type} {R : α → β → Prop} {a b : List α} {c d : List β}
    (h1 : List.Forall₂ R a c) (h2 : List.Forall₂ R b d) : List.Forall₂ R (a ++ b) (c ++ d) := by
  induction h1 with
  | nil => simpa using h2
  | cons h _ ih => exact List.Forall₂.cons h ih

mutual
theorem match_leaves : ∀ (t : MTree) (q : PTree), Match t q → List.Forall₂ OnShell q.leaves t.leafMasses
  | .leaf m, .leaf p, h => by
    simp only [Match] at h
    simp only [PTree.leaves, MTree.leafMasses]
    exact List.Forall₂.cons h List.Forall₂.nil
  | .leaf m, .node p f, h => by simp [Match] at h
  | .node m ch, .leaf p, h => by simp [Match] at h
  | .node m ch, .node p f, h => by
    simp only [Match] at h
    simp only [PTree.leaves, MTree.leafMasses]
    exact matchL_leaves ch f h.2.2
theorem matchL_leaves : ∀ (l : List MTree) (qs : List PTree), MatchL l qs → List.Forall₂ OnShell (leavesL qs) (leafMassesL l)
  | [], [], _ => by simp [leavesL, leafMassesL]
  | [], q :: qs, h => by simp [MatchL] at h
  | t :: ts, [], h => by simp [MatchL] at h
  | t :: ts, q :: qs, h => by
    simp only [MatchL] at h
    simp only [leavesL, leafMassesL]
    exact forall₂_append' (match_leaves t q h.1) (matchL_leaves ts qs h.2)
end

theorem onShell_boost {p : V4} {m : ℝ} (p0 : V4) (hr : Regular p0) (h : OnShell p m) : OnShell (p0.neg.restVector p) m := by
  simp only [OnShell, V4.m2, V4.restVector, neg_neg_boostVector] at h ⊢
  rw [TfPwaV.C11.boost_minkowski _ _ _ hr.1 hr.2]
  exact h

theorem sum_boost (p0 : V4) (l : List V4) : sumV4 (l.map (fun x => p0.neg.restVector x)) = p0.neg.restVector (sumV4 l) := by
  have hrest : (fun x : V4 => p0.neg.restVector x) = (fun x : V4 => x.boost p0.boostVector) := by
    funext x; simp only [V4.restVector, neg_neg_boostVector]
  rw [hrest, sumV4_map_boost]
  simp only [V4.restVector, neg_neg_boostVector]

mutual
/-- `tree_boost` by a regular momentum preserves the whole structure -/
theorem match_boost (p0 : V4) (hr : Regular p0) : ∀ (t : MTree) (q : PTree), Match t q → Match t (q.boostBy p0)
  | .leaf m, .leaf p, h => by
    simp only [Match, PTree.boostBy] at h ⊢
    exact onShell_boost p0 hr h
  | .leaf m, .node p f, h => by simp [Match] at h
  | .node m ch, .leaf p, h => by simp [Match] at h
  | .node m ch, .node p f, h => by
    simp only [Match, PTree.boostBy] at h ⊢
    refine ⟨onShell_boost p0 hr h.1, ?_, matchL_boost p0 hr ch f h.2.2⟩
    rw [leavesL_boostByL, sum_boost, h.2.1]
theorem matchL_boost (p0 : V4) (hr : Regular p0) : ∀ (l : List MTree) (qs : List PTree), MatchL l qs → MatchL l (boostByL p0 qs)
  | [], [], _ => by simp [boostByL, MatchL]
  | [], q :: qs, h => by simp [MatchL] at h
  | t :: ts, [], h => by simp [MatchL] at h
  | t :: ts, q :: qs, h => by
    simp only [MatchL, boostByL] at h ⊢
    exact ⟨match_boost p0 hr t q h.1, matchL_boost p0 hr ts qs h.2⟩
end

/-- the sub-forest returned for a daughter realises the daughter's struct in its rest frame -/
def SubOK2 : MTree → Option (List PTree) → Prop
  | .leaf _, none => True
  | .node m ch, some f => sumV4 (leavesL f) = ⟨m, 0, 0, 0⟩ ∧ MatchL ch f
  | _, _ => False

theorem attach_match : ∀ (ch : List MTree) (subs : List (Option (List PTree))) (pi : List V4),
    posNodesL ch → List.Forall₂ SubOK2 ch subs → (∀ p ∈ pi, 0 < p.t) →
    List.Forall₂ (fun c p => OnShell p c.mass ∧ (match c with | .leaf _ => True | .node _ _ => Regular p)) ch pi →
    MatchL ch (attach subs pi) ∧ sumV4 (leavesL (attach subs pi)) = sumV4 pi := by
  intro ch
  induction ch with
  | nil =>
    intro subs pi _ hs _ hp
    cases hs; cases hp
    simp [attach, MatchL, leavesL]
  | cons t ts ih =>
    intro subs pi hpos hs hE hp
    cases hs with
    | @cons _ s _ ss hst hsts =>
      cases hp with
      | @cons _ p _ ps hcp hcps =>
        simp only [posNodesL] at hpos
        obtain ⟨ihM, ihS⟩ := ih ss ps hpos.2 hsts (fun q hq => hE q (by simp [hq])) hcps
        cases t with
        | leaf m =>
          cases s with
          | some f => simp [SubOK2] at hst
          | none =>
            simp only [attach, MatchL, Match, leavesL, PTree.leaves, List.singleton_append, sumV4_cons, ihS]
            exact ⟨⟨by simpa [MTree.mass] using hcp.1, ihM⟩, trivial⟩
        | node m c =>
          cases s with
          | none => simp [SubOK2] at hst
          | some f =>
            simp only [SubOK2] at hst
            simp only [MTree.posNodes] at hpos
            have hsh : OnShell p m := by simpa [MTree.mass] using hcp.1
            have hreg : Regular p := hcp.2
            have hsum : sumV4 (leavesL (boostByL p f)) = p := by
              rw [leavesL_boostByL]
              exact tree_boost_sum_aux p m _ hpos.1.1 (hE p (by simp)) hsh hst.1
            simp only [attach, MatchL, Match, leavesL, PTree.leaves, sumV4_append, sumV4_cons, ihS, hsum]
            exact ⟨⟨⟨hsh, trivial, matchL_boost p hreg c f hst.2⟩, ihM⟩, trivial⟩

mutual
theorem restruct_match : ∀ (t : MTree) (pis : List (List V4)) (forest : List PTree) (rest : List (List V4)),
    t.restruct pis = some (forest, rest) →
    ∃ used, pis = used ++ rest ∧ used.length = t.specs.length ∧
      (t.posNodes → List.Forall₂ GoodNode t.specs used →
        match t with
        | .leaf _ => False
        | .node m ch => sumV4 (leavesL forest) = ⟨m, 0, 0, 0⟩ ∧ MatchL ch forest)
  | .leaf m, pis, forest, rest, h => by simp [MTree.restruct] at h
  | .node m ch, pis, forest, rest, h => by
    simp only [MTree.restruct] at h
    cases hL : restructL ch pis with
    | none => rw [hL] at h; simp at h
    | some q =>
      obtain ⟨subs, pis1⟩ := q
      rw [hL] at h
      simp only at h
      cases pis1 with
      | nil => simp at h
      | cons pi pis2 =>
        simp only [Option.some.injEq, Prod.mk.injEq] at h
        obtain ⟨hf, hr⟩ := h
        subst hf; subst hr
        obtain ⟨used1, hu1, hlen1, hsubs⟩ := restructL_match ch pis subs (pi :: pis2) hL
        refine ⟨used1 ++ [pi], by rw [hu1]; simp, by simp [MTree.specs, hlen1], ?_⟩
        intro hpos hgood
        simp only [MTree.posNodes] at hpos
        simp only [MTree.specs] at hgood
        obtain ⟨hg1, hg2⟩ := forall₂_split _ _ _ _ hlen1.symm hgood
        have hsubsOK := hsubs hpos.2 hg1
        cases hg2 with
        | cons hgo _ =>
          obtain ⟨hsum, hE, hshell⟩ := hgo
          obtain ⟨hM, hS⟩ := attach_match ch subs pi hpos.2 hsubsOK hE hshell
          exact ⟨by rw [hS]; exact hsum, hM⟩
theorem restructL_match : ∀ (ch : List MTree) (pis : List (List V4)) (subs : List (Option (List PTree))) (rest : List (List V4)),
    restructL ch pis = some (subs, rest) →
    ∃ used, pis = used ++ rest ∧ used.length = (specsL ch).length ∧
      (posNodesL ch → List.Forall₂ GoodNode (specsL ch) used → List.Forall₂ SubOK2 ch subs)
  | [], pis, subs, rest, h => by
    simp only [restructL, Option.some.injEq, Prod.mk.injEq] at h
    obtain ⟨h1, h2⟩ := h
    subst h1; subst h2
    exact ⟨[], by simp, by simp [specsL], fun _ _ => List.Forall₂.nil⟩
  | .leaf m :: ts, pis, subs, rest, h => by
    simp only [restructL] at h
    cases hL : restructL ts pis with
    | none => rw [hL] at h; simp at h
    | some q =>
      obtain ⟨r, pis1⟩ := q
      rw [hL] at h
      simp only [Option.some.injEq, Prod.mk.injEq] at h
      obtain ⟨h1, h2⟩ := h
      subst h1; subst h2
      obtain ⟨used, hu, hlen, hs⟩ := restructL_match ts pis r pis1 hL
      refine ⟨used, hu, by simpa [specsL, MTree.specs] using hlen, ?_⟩
      intro hpos hgood
      simp only [posNodesL] at hpos
      simp only [specsL, MTree.specs, List.nil_append] at hgood
      exact List.Forall₂.cons (by simp [SubOK2]) (hs hpos.2 hgood)
  | .node m c :: ts, pis, subs, rest, h => by
    simp only [restructL] at h
    cases hT : MTree.restruct (.node m c) pis with
    | none => rw [hT] at h; simp at h
    | some q =>
      obtain ⟨sub, pis1⟩ := q
      rw [hT] at h
      simp only at h
      cases hL : restructL ts pis1 with
      | none => rw [hL] at h; simp at h
      | some q2 =>
        obtain ⟨r, pis2⟩ := q2
        rw [hL] at h
        simp only [Option.some.injEq, Prod.mk.injEq] at h
        obtain ⟨h1, h2⟩ := h
        subst h1; subst h2
        obtain ⟨usedT, huT, hlenT, hsT⟩ := restruct_match (.node m c) pis sub pis1 hT
        obtain ⟨usedL, huL, hlenL, hsL⟩ := restructL_match ts pis1 r pis2 hL
        refine ⟨usedT ++ usedL, by rw [huT, huL]; simp, by simp [specsL, hlenT, hlenL], ?_⟩
        intro hpos hgood
        simp only [posNodesL] at hpos
        simp only [specsL] at hgood
        obtain ⟨hg1, hg2⟩ := forall₂_split _ _ _ _ hlenT.symm hgood
        have := hsT hpos.1 hg1
        exact List.Forall₂.cons (by simpa [SubOK2] using this) (hsL hpos.2 hg2)
end

end TfPwaV.PhspR
