import TfPwaV.Gen.ToyR
import TfPwaV.Proofs.Sampler
import Mathlib.Tactic.Linarith
import Mathlib.Tactic.NormNum
import Mathlib.Tactic.Positivity
import Mathlib.Algebra.Order.Floor.Semiring
/-! Helper lemmas for C20h (toy-generation drivers), about the ℝ-instance of `templates/Toy.lean.in`. -/
open TfPwaV.ScalarR
namespace TfPwaV.ToyR
open TfPwaV.SamplerR

/-! ### importance weights -/

theorem zipWith_div_nonneg : ∀ (amp impv : List ℝ), (∀ a ∈ amp, 0 ≤ a) → (∀ f ∈ impv, 0 < f) →
    ∀ w ∈ List.zipWith (fun a f => a / f) amp impv, 0 ≤ w := by
  intro amp
  induction amp with
  | nil => intro impv _ _ w hw; simp at hw
  | cons a as ih =>
    intro impv ha hf w hw
    cases impv with
    | nil => simp at hw
    | cons f fs =>
      simp only [List.zipWith_cons_cons, List.mem_cons] at hw
      rcases hw with rfl | hw
      · exact div_nonneg (ha a (by simp)) (le_of_lt (hf f (by simp)))
      · exact ih fs (fun x hx => ha x (List.mem_cons_of_mem _ hx)) (fun x hx => hf x (List.mem_cons_of_mem _ hx)) w hw

theorem impWeights_nonneg (imp : Bool) (amp impv : List ℝ) (ha : ∀ a ∈ amp, 0 ≤ a) (hf : ∀ f ∈ impv, 0 < f) :
    ∀ w ∈ impWeights imp amp impv, 0 ≤ w := by
  unfold impWeights
  cases imp
  · simpa using ha
  · simpa using zipWith_div_nonneg amp impv ha hf

theorem impWeights_length (imp : Bool) (amp impv : List ℝ) (n : Nat) (ha : amp.length = n)
    (hf : imp = true → impv.length = n) : (impWeights imp amp impv).length = n := by
  unfold impWeights
  cases imp
  · simpa using ha
  · simp [List.length_zipWith, ha, hf rfl]

/-- amplitudes are squared moduli, importance densities are positive -/
def RawNonneg (gen : Nat → Nat → RawBatch) : Prop :=
  ∀ k n, (∀ a ∈ (gen k n).amp, 0 ≤ a) ∧ (∀ f ∈ (gen k n).impv, 0 < f)

/-- `phsp(n)` returns `n` events and `importance_f` one value per event -/
def RawExact (imp : Bool) (gen : Nat → Nat → RawBatch) : Prop :=
  ∀ k n, (gen k n).amp.length = n ∧ (imp = true → (gen k n).impv.length = n)

theorem nonneg_of_raw (imp : Bool) (gen : Nat → Nat → RawBatch) (h : RawNonneg gen) :
    NonnegWeights (fun k n => (gen k n).toBatch imp) := by
  intro k n w hw
  exact impWeights_nonneg imp _ _ (h k n).1 (h k n).2 w hw

theorem exact_of_raw (imp : Bool) (gen : Nat → Nat → RawBatch) (h : RawExact imp gen) :
    ExactBatches (fun k n => (gen k n).toBatch imp) := by
  intro k n
  exact impWeights_length imp _ _ n (h k n).1 (h k n).2

/-! ### `thinList` as a filter, sub-list facts -/

theorem thinList_eq_filter (M m : ℝ) : ∀ (es : List Ev) (rs : List ℝ),
    thinList M m es rs = ((es.zip rs).filter (fun p => decide (p.2 * M / m < 1))).map Prod.fst := by
  intro es
  induction es with
  | nil => intro rs; simp [thinList]
  | cons e es ih =>
    intro rs
    cases rs with
    | nil => simp [thinList]
    | cons r rs =>
      unfold thinList
      by_cases h : r * M / m < 1
      · simp [h, ih rs]
      · simp [h, ih rs]

theorem thinList_sublist (M m : ℝ) : ∀ (es : List Ev) (rs : List ℝ), (thinList M m es rs).Sublist es := by
  intro es
  induction es with
  | nil => intro rs; simp [thinList]
  | cons e es ih =>
    intro rs
    cases rs with
    | nil => simp [thinList]
    | cons r rs =>
      unfold thinList
      split
      · exact (ih rs).cons_cons e
      · exact (ih rs).cons e

/-! ### accepted events and masked columns -/

theorem acceptList_map_idx {α : Type} (k : Nat) (M : ℝ) (f : Nat → α) : ∀ (ws rs : List ℝ) (i : Nat),
    (acceptList k M i ws rs).map (fun e => f e.idx) =
      maskList (cutList M ws rs) ((List.range' i ws.length).map f) := by
  intro ws
  induction ws with
  | nil => intro rs i; simp [acceptList, cutList, maskList]
  | cons w ws ih =>
    intro rs i
    cases rs with
    | nil => simp [acceptList, cutList, maskList]
    | cons r rs =>
      unfold acceptList
      by_cases h : r * M < w
      · simp [h, cutList, maskList, List.range'_succ, ih rs (i + 1)]
      · simp [h, cutList, maskList, List.range'_succ, ih rs (i + 1)]

theorem maskList_zip {α β : Type} : ∀ (cut : List Bool) (xs : List α) (ys : List β),
    xs.length = ys.length →
    maskList cut (List.zip xs ys) = List.zip (maskList cut xs) (maskList cut ys) := by
  intro cut
  induction cut with
  | nil => intro xs ys _; simp [maskList]
  | cons c cs ih =>
    intro xs ys hl
    cases xs with
    | nil => cases ys with
      | nil => simp [maskList]
      | cons y ys => simp at hl
    | cons x xs =>
      cases ys with
      | nil => simp at hl
      | cons y ys =>
        have hl' : xs.length = ys.length := by simpa using hl
        cases c
        · simp [maskList, ih xs ys hl']
        · simp [maskList, ih xs ys hl']

/-! ### `generate_toy_o` -/

theorem mem_oAcceptList (k : Nat) (mx : ℝ) (e : Ev) :
    ∀ (ws rs : List ℝ) (i : Nat), e ∈ oAcceptList k mx i ws rs → e.w ∈ ws ∧ e.bound = mx * c11 ∧ e.batch = k := by
  intro ws
  induction ws with
  | nil => intro rs i h; simp [oAcceptList] at h
  | cons w ws ih =>
    intro rs i h
    cases rs with
    | nil => simp [oAcceptList] at h
    | cons r rs =>
      unfold oAcceptList at h
      split at h
      · rcases List.mem_cons.mp h with rfl | h
        · simp
        · obtain ⟨h1, h2⟩ := ih rs (i + 1) h
          exact ⟨List.mem_cons_of_mem _ h1, h2⟩
      · obtain ⟨h1, h2⟩ := ih rs (i + 1) h
        exact ⟨List.mem_cons_of_mem _ h1, h2⟩

theorem oAcceptList_length_le (k : Nat) (mx : ℝ) :
    ∀ (ws rs : List ℝ) (i : Nat), (oAcceptList k mx i ws rs).length ≤ ws.length := by
  intro ws
  induction ws with
  | nil => intro rs i; simp [oAcceptList]
  | cons w ws ih =>
    intro rs i
    cases rs with
    | nil => simp [oAcceptList]
    | cons r rs =>
      unfold oAcceptList
      have := ih rs (i + 1)
      split <;> simp only [List.length_cons] <;> omega

theorem oRun_induct (fixed : Bool) (N maxN : Nat) (gen : Nat → Nat → Batch) (P : OSt → Prop)
    (hstep : ∀ k s, P s → P (oStep fixed N maxN k (gen k (oRequest maxN s)) s)) :
    ∀ fuel k s, P s → P (oRun fixed N maxN gen fuel k s) := by
  intro fuel
  induction fuel with
  | zero => intro k s h; simpa [oRun] using h
  | succ f ih =>
    intro k s h
    unfold oRun
    split
    · exact ih _ _ (hstep k s h)
    · exact h

/-- counter invariant of `generate_toy_o`: `n_accept` is the number of retained events and never exceeds `n_total` -/
def OCounters (s : OSt) : Prop := s.nAccept = s.all.length ∧ s.nAccept ≤ s.nTotal

theorem ocounters_step (fixed : Bool) (N maxN k : Nat) (b : Batch) (s : OSt) (hb : b.ws.length = oRequest maxN s)
    (h : OCounters s) : OCounters (oStep fixed N maxN k b s) := by
  obtain ⟨h1, h2⟩ := h
  have ha := oAcceptList_length_le k (listMax b.ws) b.ws b.rnd 0
  unfold oStep
  refine ⟨by simp [h1], ?_⟩
  simp only
  omega

theorem ocounters_run (fixed : Bool) (N maxN : Nat) (gen : Nat → Nat → Batch) (hx : ExactBatches gen) (fuel : Nat) :
    OCounters (oRun fixed N maxN gen fuel 0 (oInit N)) := by
  refine oRun_induct fixed N maxN gen OCounters ?_ fuel 0 (oInit N) ?_
  · intro k s h; exact ocounters_step _ _ _ _ _ _ (hx k _) h
  · exact ⟨by simp [oInit], by simp [oInit]⟩

/-! ### `gen_data` -/

theorem mem_gdPass (ampsq : List ℝ) (j : Nat) : ∀ (is : List Nat) (us : List ℝ),
    j ∈ gdPass ampsq is us → ∃ u ∈ us, j ∈ is ∧ u < ampsq.getD j 0 := by
  intro is
  induction is with
  | nil => intro us h; simp [gdPass] at h
  | cons i is ih =>
    intro us h
    cases us with
    | nil => simp [gdPass] at h
    | cons u us =>
      unfold gdPass at h
      split at h
      · rcases List.mem_cons.mp h with rfl | h
        · exact ⟨u, by simp, by simp, by assumption⟩
        · obtain ⟨u', h1, h2, h3⟩ := ih us h
          exact ⟨u', List.mem_cons_of_mem _ h1, List.mem_cons_of_mem _ h2, h3⟩
      · obtain ⟨u', h1, h2, h3⟩ := ih us h
        exact ⟨u', List.mem_cons_of_mem _ h1, List.mem_cons_of_mem _ h2, h3⟩

theorem gdRun_induct (nmc : Nat) (ampsq : List ℝ) (gen : Nat → List Nat × List ℝ) (P : GdSt → Prop)
    (hstep : ∀ k s, P s → P ⟨s.idxs ++ gdPass ampsq (gen k).1 (gen k).2, s.n + (gdPass ampsq (gen k).1 (gen k).2).length⟩) :
    ∀ fuel k s, P s → P (gdRun nmc ampsq gen fuel k s) := by
  intro fuel
  induction fuel with
  | zero => intro k s h; simpa [gdRun] using h
  | succ f ih =>
    intro k s h
    unfold gdRun
    split
    · exact ih _ _ (hstep k s h)
    · exact h

end TfPwaV.ToyR
