import TfPwaV.Proofs.InterpND
import Mathlib.Analysis.SpecialFunctions.Integrals.Basic
/-! Integrals for C20 / `InterpND`: the iterated integral of the multilinear interpolant over the unit cell, and the
one-dimensional cumulative functions of the within-cell laws. -/
open TfPwaV.ScalarR
namespace TfPwaV.InterpNDR

/-- the multilinear interpolant on the unit cell with corner values `vals` in `itertools.product` order
(first coordinate = most significant bit): what `InterpND.__call__` evaluates inside a cell -/
def evalL : Nat → List ℝ → List ℝ → ℝ
  | 0, vals, _ => vals.headD 0
  | n + 1, vals, t :: ts => (1 - t) * evalL n (vals.take (2 ^ n)) ts + t * evalL n (vals.drop (2 ^ n)) ts
  | _ + 1, _, [] => 0

/-- iterated integral over the unit cube `[0,1]^n` -/
noncomputable def iint : Nat → (List ℝ → ℝ) → ℝ
  | 0, f => f []
  | n + 1, f => ∫ t in (0 : ℝ)..1, iint n (fun ts => f (t :: ts))

def comb (a b : ℝ) (u v : List ℝ) : List ℝ := List.zipWith (fun x y => a * x + b * y) u v

theorem comb_length (a b : ℝ) (u v : List ℝ) (h : u.length = v.length) : (comb a b u v).length = u.length := by
  simp [comb, h]

theorem sum_comb (a b : ℝ) : ∀ (u v : List ℝ), u.length = v.length →
    (comb a b u v).sum = a * u.sum + b * v.sum := by
  intro u
  induction u with
  | nil => intro v h; cases v with
    | nil => simp [comb]
    | cons _ _ => simp at h
  | cons x u ih =>
    intro v h
    cases v with
    | nil => simp at h
    | cons y v =>
      have := ih v (by simpa using h)
      simp only [comb, List.zipWith_cons_cons, List.sum_cons] at this ⊢
      rw [this]; ring

theorem evalL_comb (a b : ℝ) : ∀ (n : Nat) (u v : List ℝ) (ts : List ℝ), u.length = 2 ^ n → v.length = 2 ^ n →
    evalL n (comb a b u v) ts = a * evalL n u ts + b * evalL n v ts := by
  intro n
  induction n with
  | zero =>
    intro u v ts hu hv
    match u, v, hu, hv with
    | [x], [y], _, _ => simp [evalL, comb]
  | succ n ih =>
    intro u v ts hu hv
    cases ts with
    | nil => simp [evalL]
    | cons t ts =>
      have h2 : 2 ^ (n + 1) = 2 ^ n + 2 ^ n := by rw [pow_succ]; ring
      simp only [evalL, comb, List.take_zipWith, List.drop_zipWith]
      have e1 := ih (u.take (2 ^ n)) (v.take (2 ^ n)) ts (by simp [hu, h2]) (by simp [hv, h2])
      have e2 := ih (u.drop (2 ^ n)) (v.drop (2 ^ n)) ts (by simp [hu, h2]) (by simp [hv, h2])
      simp only [comb] at e1 e2
      rw [e1, e2]; ring

theorem integral_affine (a b c : ℝ) : ∫ t in (0 : ℝ)..1, ((1 - t) * a + t * b) / c = (a + b) / 2 / c := by
  have h : ∀ t : ℝ, ((1 - t) * a + t * b) / c = a / c + (b - a) / c * t := by intro t; ring
  simp_rw [h]
  rw [intervalIntegral.integral_add (f := fun _ => a / c) (g := fun t => (b - a) / c * t)
    ((by fun_prop : Continuous fun _ : ℝ => a / c).intervalIntegrable _ _)
    ((by fun_prop : Continuous fun t : ℝ => (b - a) / c * t).intervalIntegrable _ _)]
  rw [intervalIntegral.integral_const, intervalIntegral.integral_const_mul, integral_id]
  simp; ring

/-- ★ the integral of the multilinear interpolant over the unit cell is the mean of its `2^n` corner values -/
theorem iint_evalL : ∀ (n : Nat) (vals : List ℝ), vals.length = 2 ^ n →
    iint n (evalL n vals) = vals.sum / 2 ^ n := by
  intro n
  induction n with
  | zero =>
    intro vals h
    match vals, h with
    | [x], _ => simp [iint, evalL]
  | succ n ih =>
    intro vals h
    have h2 : 2 ^ (n + 1) = 2 ^ n + 2 ^ n := by rw [pow_succ]; ring
    have hA : (vals.take (2 ^ n)).length = 2 ^ n := by simp [h, h2]
    have hB : (vals.drop (2 ^ n)).length = 2 ^ n := by simp [h, h2]
    have hfun : (fun t : ℝ => iint n (fun ts => evalL (n + 1) vals (t :: ts))) =
        fun t => ((1 - t) * (vals.take (2 ^ n)).sum + t * (vals.drop (2 ^ n)).sum) / 2 ^ n := by
      funext t
      have : (fun ts => evalL (n + 1) vals (t :: ts)) =
          evalL n (comb (1 - t) t (vals.take (2 ^ n)) (vals.drop (2 ^ n))) := by
        funext ts
        rw [evalL_comb (1 - t) t n _ _ ts hA hB]
        simp only [evalL]
      rw [this, ih _ (by rw [comb_length _ _ _ _ (by rw [hA, hB]), hA]), sum_comb _ _ _ _ (by rw [hA, hB])]
    have hsum : vals.sum = (vals.take (2 ^ n)).sum + (vals.drop (2 ^ n)).sum := by
      rw [← List.sum_append, List.take_append_drop]
    simp only [iint]
    rw [hfun, integral_affine, hsum, pow_succ]
    field_simp

-- corner mixture ------------------------------------------------------------------------------------------------

/-- joint density on the unit cell of independent coordinates with densities `2 t` (bit 1) / `2 (1 - t)` (bit 0) -/
def prodDens : List Nat → List ℝ → ℝ
  | b :: bs, t :: ts => (if b = 1 then 2 * t else 2 * (1 - t)) * prodDens bs ts
  | _, _ => 1

/-- density of: pick corner `p` with probability proportional to `vals[p] / 2^n`, then draw the point with the product law of
that corner (normalised by the cell mean this is the law `InterpND.generate` samples inside a cell) -/
noncomputable def mix (n : Nat) (vals ts : List ℝ) : ℝ :=
  (List.zipWith (fun v bits => v / 2 ^ n * prodDens bits ts) vals (paths n)).sum

theorem sum_zipWith_mul_left (c : ℝ) (g : ℝ → List Nat → ℝ) : ∀ (A : List ℝ) (P : List (List Nat)),
    (List.zipWith (fun v b => c * g v b) A P).sum = c * (List.zipWith g A P).sum := by
  intro A
  induction A with
  | nil => intro P; simp
  | cons a A ih =>
    intro P
    cases P with
    | nil => simp
    | cons q P => simp only [List.zipWith_cons_cons, List.sum_cons, ih P]; ring

/-- ★ the corner mixture with the `√u` product laws has exactly the multilinear interpolant as its density -/
theorem mix_eq_evalL : ∀ (n : Nat) (vals ts : List ℝ), vals.length = 2 ^ n → ts.length = n →
    mix n vals ts = evalL n vals ts := by
  intro n
  induction n with
  | zero =>
    intro vals ts h _
    match vals, h with
    | [x], _ => simp [mix, paths, prodDens, evalL]
  | succ n ih =>
    intro vals ts h hts
    cases ts with
    | nil => simp at hts
    | cons t ts =>
      have h2 : 2 ^ (n + 1) = 2 ^ n + 2 ^ n := by rw [pow_succ]; ring
      have hA : (vals.take (2 ^ n)).length = 2 ^ n := by simp [h, h2]
      have hB : (vals.drop (2 ^ n)).length = 2 ^ n := by simp [h, h2]
      have hts' : ts.length = n := by simpa using hts
      have e1 := ih _ ts hA hts'
      have e2 := ih _ ts hB hts'
      unfold mix at e1 e2 ⊢
      simp only [evalL, paths]
      conv_lhs => rw [← List.take_append_drop (2 ^ n) vals]
      rw [List.zipWith_append (by simp [hA, paths_length])]
      rw [List.zipWith_map_right, List.zipWith_map_right, List.sum_append]
      have f0 : (fun (v : ℝ) (bits : List Nat) => v / 2 ^ (n + 1) * prodDens (0 :: bits) (t :: ts)) =
          fun v bits => (1 - t) * (v / 2 ^ n * prodDens bits ts) := by
        funext v bits; simp only [prodDens]; rw [pow_succ]; norm_num; field_simp
      have f1 : (fun (v : ℝ) (bits : List Nat) => v / 2 ^ (n + 1) * prodDens (1 :: bits) (t :: ts)) =
          fun v bits => t * (v / 2 ^ n * prodDens bits ts) := by
        funext v bits; simp only [prodDens]; rw [pow_succ]; norm_num; field_simp
      rw [f0, f1, sum_zipWith_mul_left, sum_zipWith_mul_left, e1, e2]

-- one-dimensional within-cell laws ------------------------------------------------------------------------------

/-- cumulative function of the density `2 t` on `[0,1]` (coordinate drawn towards the upper corner) -/
noncomputable def cdfHi (y : ℝ) : ℝ := ∫ t in (0 : ℝ)..y, 2 * t
/-- cumulative function of the density `2 (1 - t)` on `[0,1]` (coordinate drawn towards the lower corner) -/
noncomputable def cdfLo (y : ℝ) : ℝ := ∫ t in (0 : ℝ)..y, 2 * (1 - t)

theorem cdfHi_eq (y : ℝ) : cdfHi y = y ^ 2 := by
  unfold cdfHi
  rw [intervalIntegral.integral_const_mul, integral_id]; ring

theorem cdfLo_eq (y : ℝ) : cdfLo y = 1 - (1 - y) ^ 2 := by
  unfold cdfLo
  have h : ∀ t : ℝ, 2 * (1 - t) = 2 + (-2) * t := by intro t; ring
  simp_rw [h]
  rw [intervalIntegral.integral_add (f := fun _ => (2 : ℝ)) (g := fun t => (-2 : ℝ) * t)
    ((by fun_prop : Continuous fun _ : ℝ => (2 : ℝ)).intervalIntegrable _ _)
    ((by fun_prop : Continuous fun t : ℝ => (-2 : ℝ) * t).intervalIntegrable _ _)]
  rw [intervalIntegral.integral_const, intervalIntegral.integral_const_mul, integral_id]
  simp; ring

end TfPwaV.InterpNDR
