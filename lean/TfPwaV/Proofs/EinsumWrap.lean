import TfPwaV.Proofs.EinsumLoopB

/-! C05 (einsum): the wrapper of `einsum` around the pairwise loop — removal of the size-1 labels before the loop
    (`remove_size1`) and the final reshape that re-inserts them. -/
namespace TfPwaV.Einsum

/-! ### tensors are determined by their entries -/

theorem flatIdx_surj : ∀ (s : List Nat) (i : Nat), i < prodN s → ∃ idx, InRange s idx ∧ flatIdx s idx = i
  | [], i, h => by
    simp only [prodN] at h
    exact ⟨[], trivial, by simp only [flatIdx]; omega⟩
  | n :: s, i, h => by
    simp only [prodN] at h
    have hP : 0 < prodN s := by
      rcases Nat.eq_zero_or_pos (prodN s) with hc | hc
      · rw [hc] at h; simp at h
      · exact hc
    obtain ⟨idx, h1, h2⟩ := flatIdx_surj s (i % prodN s) (Nat.mod_lt _ hP)
    refine ⟨(i / prodN s) :: idx, ⟨?_, h1⟩, ?_⟩
    · exact (Nat.div_lt_iff_lt_mul hP).mpr h
    · simp only [flatIdx, h2]
      exact Nat.div_add_mod' i (prodN s)

theorem tensor_ext {R : Type} [Zero R] (t1 t2 : Tensor R) (hs : t1.shape = t2.shape)
    (h1 : t1.data.size = prodN t1.shape) (h2 : t2.data.size = prodN t2.shape)
    (hg : ∀ idx, InRange t1.shape idx → t1.get idx = t2.get idx) : t1 = t2 := by
  obtain ⟨s1, d1⟩ := t1
  obtain ⟨s2, d2⟩ := t2
  simp only at hs h1 h2
  subst hs
  congr 1
  apply Array.ext
  · rw [h1, h2]
  · intro i hi1 hi2
    obtain ⟨idx, hin, hfl⟩ := flatIdx_surj s1 i (by rw [← h1]; exact hi1)
    have := hg idx hin
    unfold Tensor.get at this
    simp only [hfl] at this
    rw [Array.getD_eq_getD_getElem?, Array.getD_eq_getD_getElem?, Array.getElem?_eq_getElem hi1,
      Array.getElem?_eq_getElem hi2] at this
    simpa using this

theorem size_ofFn {R : Type} (s : List Nat) (f : List Nat → R) : (ofFn s f).data.size = prodN s := by
  unfold ofFn
  simp [length_allIdx]

/-! ### dropping the axes of size 1 -/

/-- drop the entries of a multi-index at the positions of the dropped labels -/
def shrinkIdx (keep : Idx → Bool) : List Idx → List Nat → List Nat
  | l :: ls, i :: is => if keep l then i :: shrinkIdx keep ls is else shrinkIdx keep ls is
  | _, _ => []

theorem allIdx_shrink (sizes : Idx → Nat) (keep : Idx → Bool) : ∀ (L : List Idx),
    (∀ l ∈ L, keep l = false → sizes l = 1) →
    (allIdx (L.map sizes)).map (shrinkIdx keep L) = allIdx ((L.filter keep).map sizes)
  | [], _ => by simp [allIdx, shrinkIdx]
  | l :: L, h => by
    have ih := allIdx_shrink sizes keep L (fun x hx => h x (List.mem_cons_of_mem _ hx))
    by_cases hk : keep l = true
    · simp only [List.map_cons, List.filter_cons, hk, if_true, allIdx, List.map_flatMap, List.map_map]
      congr 1
      funext i
      rw [← ih, List.map_map]
      apply List.map_congr_left
      intro is _
      simp [shrinkIdx, hk]
    · simp only [Bool.not_eq_true] at hk
      have h1 := h l List.mem_cons_self hk
      simp only [List.map_cons, List.filter_cons, hk, Bool.false_eq_true, if_false, allIdx, h1, List.range_one,
        List.flatMap_cons, List.flatMap_nil, List.append_nil, List.map_map]
      rw [← ih]
      apply List.map_congr_left
      intro is _
      simp [shrinkIdx, hk]

theorem envOfList_shrink (keep : Idx → Bool) : ∀ (L : List Idx) (vs : List Nat) (b1 b2 : Env),
    vs.length = L.length → (∀ x, keep x = true → b1 x = b2 x) →
    ∀ x, keep x = true → envOfList L vs b1 x = envOfList (L.filter keep) (shrinkIdx keep L vs) b2 x
  | [], vs, b1, b2, _, hb, x, hx => by
    cases vs <;> simp [envOfList, shrinkIdx, hb x hx]
  | l :: L, [], _, _, hlen, _, _, _ => by simp at hlen
  | l :: L, v :: vs, b1, b2, hlen, hb, x, hx => by
    simp only [List.length_cons, Nat.add_right_cancel_iff] at hlen
    by_cases hk : keep l = true
    · simp only [List.filter_cons, hk, if_true, shrinkIdx, envOfList]
      apply envOfList_shrink keep L vs _ _ hlen _ x hx
      intro y hy
      by_cases hyl : y = l
      · subst hyl; simp [upd]
      · rw [upd_of_ne _ _ _ _ hyl, upd_of_ne _ _ _ _ hyl]; exact hb y hy
    · simp only [Bool.not_eq_true] at hk
      simp only [List.filter_cons, hk, Bool.false_eq_true, if_false, shrinkIdx, envOfList]
      apply envOfList_shrink keep L vs _ _ hlen _ x hx
      intro y hy
      have hyl : y ≠ l := by
        intro hh; subst hh; rw [hk] at hy; exact absurd hy (by simp)
      rw [upd_of_ne _ _ _ _ hyl]; exact hb y hy

theorem filter_zip_map (keep : Idx → Bool) (d : Idx → Nat) : ∀ (L : List Idx),
    ((L.zip (L.map d)).filter fun q => keep q.1).map (·.2) = (L.filter keep).map d
  | [] => by simp
  | l :: L => by
    have ih := filter_zip_map keep d L
    simp only [List.map_cons, List.zip_cons_cons, List.filter_cons]
    by_cases hk : keep l = true
    · simp [hk, ih]
    · simp only [Bool.not_eq_true] at hk
      simp [hk, ih]

section
variable {R : Type} [CommSemiring R]

/-- the operand with its dropped axes removed (`tf.reshape` in `remove_size1`) -/
def shrinkOp (keep : Idx → Bool) (p : List Idx × Tensor R) : List Idx × Tensor R :=
  (p.1.filter keep, ⟨((p.1.zip p.2.shape).filter fun q => keep q.1).map (·.2), p.2.data⟩)

omit [CommSemiring R] in
theorem shrinkOp_shape (keep : Idx → Bool) (p : List Idx × Tensor R) (hsh : p.2.shape = p.1.map (dimOf p)) :
    (shrinkOp keep p).2.shape = (p.1.filter keep).map (dimOf p) := by
  unfold shrinkOp
  simp only
  rw [hsh]
  exact filter_zip_map keep _ p.1

omit [CommSemiring R] in
theorem bget_shrinkOp [Zero R] (keep : Idx → Bool) (p : List Idx × Tensor R) (e : Env)
    (hsh : p.2.shape = p.1.map (dimOf p)) (hdrop : ∀ l ∈ p.1, keep l = false → dimOf p l = 1) :
    bget (shrinkOp keep p).2 (shrinkOp keep p).1 e = bget p.2 p.1 e := by
  show bget (shrinkOp keep p).2 (p.1.filter keep) e = bget p.2 p.1 e
  rw [bget_map_dim _ _ (dimOf p) e (shrinkOp_shape keep p hsh), bget_map_dim _ _ (dimOf p) e hsh]
  unfold Tensor.get
  rw [shrinkOp_shape keep p hsh, hsh]
  show p.2.data.getD _ 0 = p.2.data.getD _ 0
  congr 1
  have h1 : p.1.map (dimOf p) = p.1.map (fun l => if keep l then dimOf p l else 1) := by
    apply List.map_congr_left
    intro l hl
    by_cases hk : keep l = true
    · simp [hk]
    · simp only [Bool.not_eq_true] at hk
      simp [hk, hdrop l hl hk]
  have h2 : (p.1.map fun l => if dimOf p l = 1 then 0 else e l)
      = p.1.map (fun l => if keep l then (if dimOf p l = 1 then 0 else e l) else 0) := by
    apply List.map_congr_left
    intro l hl
    by_cases hk : keep l = true
    · simp [hk]
    · simp only [Bool.not_eq_true] at hk
      simp [hk, hdrop l hl hk]
  rw [h1, h2]
  exact ((flatIdx_expand (dimOf p) (fun l => if dimOf p l = 1 then 0 else e l) keep p.1).1).symm

omit [CommSemiring R] in
theorem dimOf_shrinkOp (keep : Idx → Bool) (p : List Idx × Tensor R) (hsh : p.2.shape = p.1.map (dimOf p)) (l : Idx)
    (hl : l ∈ p.1) (hk : keep l = true) : dimOf (shrinkOp keep p) l = dimOf p l :=
  dimOf_of_shape _ _ (dimOf p) (shrinkOp_shape keep p hsh) l (List.mem_filter.mpr ⟨hl, hk⟩)

omit [CommSemiring R] in
theorem termProd_congr [Zero R] [Mul R] (ops1 ops2 : List (List Idx × Tensor R)) (e1 e2 : Env)
    (h : ops1.map (fun p => bget p.2 p.1 e1) = ops2.map (fun p => bget p.2 p.1 e2)) :
    termProd ops1 e1 = termProd ops2 e2 := by
  unfold termProd
  rw [h]

omit [CommSemiring R] in
/-- the invariant survives the removal of the dropped labels -/
theorem inv_shrink (sizes : Idx → Nat) (keep : Idx → Bool) (data : List (List Idx × Tensor R)) (hinv : Inv sizes data) :
    Inv sizes (data.map (shrinkOp keep)) := by
  refine ⟨?_, ?_, ?_⟩
  · intro q hq
    obtain ⟨p, hp, rfl⟩ := List.mem_map.mp hq
    exact (hinv.nd p hp).filter _
  · intro q hq
    obtain ⟨p, hp, rfl⟩ := List.mem_map.mp hq
    have hsh := (hinv.bs p hp).1
    refine ⟨?_, ?_⟩
    · rw [shrinkOp_shape keep p hsh]
      apply List.map_congr_left
      intro l hl
      obtain ⟨hl1, hl2⟩ := List.mem_filter.mp hl
      exact (dimOf_shrinkOp keep p hsh l hl1 hl2).symm
    · intro l hl
      obtain ⟨hl1, hl2⟩ := List.mem_filter.mp hl
      rw [dimOf_shrinkOp keep p hsh l hl1 hl2]
      exact (hinv.bs p hp).2 l hl1
  · intro l hl
    obtain ⟨q, hq, hlq⟩ := hl
    obtain ⟨p0, hp0, rfl⟩ := List.mem_map.mp hq
    obtain ⟨hl1, hl2⟩ := List.mem_filter.mp hlq
    obtain ⟨p, hp, hlp, hdim⟩ := hinv.cov l ⟨p0, hp0, hl1⟩
    refine ⟨shrinkOp keep p, List.mem_map.mpr ⟨p, hp, rfl⟩, List.mem_filter.mpr ⟨hlp, hl2⟩, ?_⟩
    rw [dimOf_shrinkOp keep p (hinv.bs p hp).1 l hlp hl2]
    exact hdim

theorem sumLabels_size1 (sizes : Idx → Nat) (f : Env → R) : ∀ (ls : List Idx) (env : Env),
    (∀ l ∈ ls, sizes l = 1) → (∀ e l v, l ∈ ls → f (upd e l v) = f e) → sumLabels sizes ls env f = f env
  | [], _, _, _ => rfl
  | l :: ls, env, h1, h2 => by
    simp only [sumLabels, h1 l List.mem_cons_self, List.range_one, List.map_cons, List.map_nil, List.sum_cons,
      List.sum_nil, add_zero]
    rw [sumLabels_size1 sizes f ls _ (fun x hx => h1 x (List.mem_cons_of_mem _ hx))
      (fun e x v hx => h2 e x v (List.mem_cons_of_mem _ hx))]
    exact h2 env l 0 List.mem_cons_self

/-- **`remove_size1` is a re-indexing**: the reference contraction of the operands with their size-1 labels dropped
    has the same entries, in the same row-major order, as the reference contraction of the original operands. -/
theorem einsumRef_shrink (sizes : Idx → Nat) (keep : Idx → Bool) (data : List (List Idx × Tensor R)) (out : List Idx)
    (hinv : Inv sizes data) (hdrop : ∀ l, keep l = false → sizes l = 1) :
    einsumRef sizes data out = ⟨out.map sizes, (einsumRef sizes (data.map (shrinkOp keep)) (out.filter keep)).data⟩ := by
  have hdim1 : ∀ p ∈ data, ∀ l ∈ p.1, keep l = false → dimOf p l = 1 := by
    intro p hp l hl hk
    rcases (hinv.bs p hp).2 l hl with h | h
    · rw [h]; exact hdrop l hk
    · exact h
  have hterm : ∀ e, termProd (data.map (shrinkOp keep)) e = termProd data e := by
    intro e
    apply termProd_congr
    rw [List.map_map]
    apply List.map_congr_left
    intro p hp
    exact bget_shrinkOp keep p e (hinv.bs p hp).1 (hdim1 p hp)
  have hinvar : ∀ e l v, keep l = false → termProd data (upd e l v) = termProd data e := by
    intro e l v hk
    apply termProd_congr
    apply List.map_congr_left
    intro p hp
    apply bget_congr_b p.2 p.1 _ _ (hinv.bs p hp).1
    intro x hx hd
    have hxl : x ≠ l := by
      intro hh; subst hh
      exact hd (hdim1 p hp x hx hk)
    exact upd_of_ne _ _ _ _ hxl
  unfold einsumRef ofFn
  congr 2
  rw [← allIdx_shrink sizes keep out (fun l _ hk => hdrop l hk), List.map_map]
  apply List.map_congr_left
  intro oi hoi
  have hoi' := mem_allIdx _ _ hoi
  simp only [Function.comp]
  have hfun : termProd (data.map (shrinkOp keep)) = termProd data := funext hterm
  rw [hfun]
  generalize hS1 : summedLabels (data.map (·.1)) out = S1
  generalize hS2 : summedLabels ((data.map (shrinkOp keep)).map (·.1)) (out.filter keep) = S2
  have hnd1 : S1.Nodup := by rw [← hS1]; exact nodup_summedLabels _ _
  have hnd2 : S2.Nodup := by rw [← hS2]; exact nodup_summedLabels _ _
  have hmem1 : ∀ a, a ∈ S1 ↔ (∃ p ∈ data, a ∈ p.1) ∧ a ∉ out := by
    intro a
    rw [← hS1, mem_summedLabels]
    simp only [List.mem_map]
    constructor
    · rintro ⟨⟨l, ⟨q, hq, rfl⟩, hal⟩, h⟩
      exact ⟨⟨q, hq, hal⟩, h⟩
    · rintro ⟨⟨q, hq, haq⟩, h⟩
      exact ⟨⟨q.1, ⟨q, hq, rfl⟩, haq⟩, h⟩
  have hmem2 : ∀ a, a ∈ S2 ↔ ((∃ p ∈ data, a ∈ p.1) ∧ a ∉ out) ∧ keep a = true := by
    intro a
    rw [← hS2, mem_summedLabels]
    simp only [List.mem_map, List.mem_filter]
    constructor
    · rintro ⟨⟨l, ⟨q, ⟨p, hp, rfl⟩, rfl⟩, hal⟩, h⟩
      have := List.mem_filter.mp hal
      exact ⟨⟨⟨p, hp, this.1⟩, fun hh => h ⟨hh, this.2⟩⟩, this.2⟩
    · rintro ⟨⟨⟨p, hp, hap⟩, h⟩, hk⟩
      exact ⟨⟨(shrinkOp keep p).1, ⟨shrinkOp keep p, ⟨p, hp, rfl⟩, rfl⟩, List.mem_filter.mpr ⟨hap, hk⟩⟩, fun hh => h hh.1⟩
  have hperm : S1.Perm (S2 ++ S1.filter (fun l => !keep l)) := by
    have h0 := (List.filter_append_perm keep S1).symm
    refine h0.trans (List.Perm.append_right _ ?_)
    rw [List.perm_ext_iff_of_nodup (hnd1.filter _) hnd2]
    intro a
    rw [List.mem_filter, hmem1, hmem2]
  rw [sumLabels_perm sizes _ hperm hnd1, sumLabels_append]
  have hinner : ∀ e, sumLabels sizes (S1.filter fun l => !keep l) e (termProd data) = termProd data e := by
    intro e
    apply sumLabels_size1
    · intro l hl
      have := (List.mem_filter.mp hl).2
      exact hdrop l (by simpa using this)
    · intro e' l v hl
      have := (List.mem_filter.mp hl).2
      exact hinvar e' l v (by simpa using this)
  rw [funext hinner]
  apply sumLabels_env_congr sizes (termProd data) (fun x => keep x = true)
  · intro e1 e2 hh
    apply termProd_congr
    apply List.map_congr_left
    intro p hp
    apply bget_congr_b p.2 p.1 _ _ (hinv.bs p hp).1
    intro x hx hd
    apply hh
    by_contra hk
    simp only [Bool.not_eq_true] at hk
    exact hd (hdim1 p hp x hx hk)
  · intro x hx _
    apply envOfList_shrink keep out oi _ _ _ (fun _ _ => rfl) x hx
    rw [length_of_inRange _ _ hoi', List.length_map]

end

end TfPwaV.Einsum
