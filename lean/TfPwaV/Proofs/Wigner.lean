import TfPwaV.Model.Wigner
import Mathlib.Data.Real.Basic
import Mathlib.Tactic.Ring
import Mathlib.Tactic.Linarith
import Mathlib.Tactic.Positivity
import Mathlib.Analysis.Real.Sqrt
import Mathlib.Analysis.SpecialFunctions.Trigonometric.Basic
import Mathlib.Algebra.BigOperators.Group.Finset.Basic
/-! Lifting of the kernel-checked rational polynomial identities of `Model/Wigner.lean` to ℝ. -/
namespace TfPwaV.Wigner

/-- value of the homogeneous polynomial `Σ a_i s^i c^(n-i)` -/
noncomputable def evalH : List Int → ℝ → ℝ → ℝ
  | [], _, _ => 0
  | a :: p, s, c => (a : ℝ) * c ^ p.length + s * evalH p s c

theorem evalH_replicate_zero (n : Nat) (s c : ℝ) : evalH (List.replicate n 0) s c = 0 := by
  induction n with
  | zero => rfl
  | succ n ih => simp [List.replicate_succ, evalH, ih]

theorem evalH_append_zeros (q : List Int) (n : Nat) (s c : ℝ) :
    evalH (q ++ List.replicate n 0) s c = c ^ n * evalH q s c := by
  induction q with
  | nil => simp [evalH, evalH_replicate_zero]
  | cons a q ih =>
    simp only [List.cons_append, evalH, ih, List.length_append, List.length_replicate, pow_add]
    ring

theorem evalH_scale (a : Int) (p : List Int) (s c : ℝ) :
    evalH (scale a p) s c = (a : ℝ) * evalH p s c := by
  induction p with
  | nil => simp [scale, evalH]
  | cons b p ih =>
    unfold scale at ih ⊢
    simp only [List.map_cons, evalH, ih, List.length_map, Int.cast_mul]
    ring

theorem evalH_addP (p q : List Int) (h : p.length = q.length) (s c : ℝ) :
    evalH (addP p q) s c = evalH p s c + evalH q s c := by
  induction p generalizing q with
  | nil =>
    cases q with
    | nil => simp [addP, evalH]
    | cons b q => simp at h
  | cons a p ih =>
    cases q with
    | nil => simp at h
    | cons b q =>
      simp only [List.length_cons, Nat.add_right_cancel_iff] at h
      have := ih q h
      unfold addP at this ⊢
      simp only [List.zipWith_cons_cons, evalH, this, List.length_zipWith, h, Nat.min_self, Int.cast_add]
      ring

theorem length_scale (a : Int) (p : List Int) : (scale a p).length = p.length := by simp [scale]

theorem length_addP (p q : List Int) : (addP p q).length = min p.length q.length := by simp [addP]

theorem length_mulP (p q : List Int) (hp : p ≠ []) (hq : q ≠ []) :
    (mulP p q).length = p.length + q.length - 1 := by
  induction p with
  | nil => exact absurd rfl hp
  | cons a p ih =>
    cases p with
    | nil => simp [mulP, length_scale]
    | cons b p =>
      have := ih (by simp)
      have hq' : 0 < q.length := List.length_pos_iff.mpr hq
      simp only [mulP, length_addP, List.length_append, length_scale, List.length_replicate, List.length_cons, this]
      omega

theorem evalH_mulP (p q : List Int) (hq : q ≠ []) (s c : ℝ) :
    evalH (mulP p q) s c = evalH p s c * evalH q s c := by
  induction p with
  | nil => simp [mulP, evalH]
  | cons a p ih =>
    cases p with
    | nil => simp [mulP, evalH, evalH_scale]
    | cons b p =>
      have hq' : 0 < q.length := List.length_pos_iff.mpr hq
      have hl := length_mulP (b :: p) q (by simp) hq
      rw [mulP, evalH_addP, evalH_append_zeros, evalH_scale]
      · simp only [evalH, ih, List.length_cons] at *
        ring
      · simp only [List.length_append, length_scale, List.length_replicate, List.length_cons, hl]
        omega

theorem length_powP (p : List Int) (hp : p ≠ []) (n : Nat) :
    (powP p n).length = n * (p.length - 1) + 1 := by
  induction n with
  | zero => simp [powP]
  | succ n ih =>
    have hne : powP p n ≠ [] := by
      intro h; rw [h] at ih; simp at ih
    have hp' : 0 < p.length := List.length_pos_iff.mpr hp
    rw [powP, length_mulP p _ hp hne, ih, Nat.succ_mul]
    omega

theorem evalH_powP (p : List Int) (hp : p ≠ []) (n : Nat) (s c : ℝ) :
    evalH (powP p n) s c = evalH p s c ^ n := by
  induction n with
  | zero => simp [powP, evalH]
  | succ n ih =>
    have hne : powP p n ≠ [] := by
      intro h
      have := length_powP p hp n
      rw [h] at this; simp at this
    rw [powP, evalH_mulP _ _ hne, ih, pow_succ]
    ring

theorem length_sumP (len : Nat) (ps : List (List Int)) (h : ∀ p ∈ ps, p.length = len) :
    (sumP len ps).length = len := by
  induction ps with
  | nil => simp [sumP]
  | cons p ps ih =>
    have h1 := ih (fun q hq => h q (List.mem_cons_of_mem _ hq))
    unfold sumP at h1 ⊢
    simp only [List.foldr_cons, length_addP, h1, h p List.mem_cons_self, Nat.min_self]

theorem evalH_sumP (len : Nat) (ps : List (List Int)) (h : ∀ p ∈ ps, p.length = len) (s c : ℝ) :
    evalH (sumP len ps) s c = (ps.map fun p => evalH p s c).sum := by
  induction ps with
  | nil => simp [sumP, evalH_replicate_zero]
  | cons p ps ih =>
    have hps : ∀ q ∈ ps, q.length = len := fun q hq => h q (List.mem_cons_of_mem _ hq)
    have h1 := ih hps
    have hl := length_sumP len ps hps
    unfold sumP at h1 hl ⊢
    simp only [List.foldr_cons, List.map_cons, List.sum_cons]
    rw [evalH_addP _ _ (by rw [hl, h p List.mem_cons_self]), h1]

theorem length_zPoly (N im inn : Nat) : (zPoly N im inn).length = N + 1 := by simp [zPoly]

end TfPwaV.Wigner
