import TfPwaV.Gen.CascadeR
import TfPwaV.Props.C11c
/-!
Helper lemmas for the cascade theorems of C11 (`Props/C11d.lean`), part 1: frames handed to the daughters, the
single-vertex extraction with an un-normalised z-axis (the extractor hands `set_z[j] = vect(rest_p[j])`), the second
daughter, and the `alpha` range shift.
-/
open TfPwaV.ScalarR
namespace TfPwaV.C11
open TfPwaV.KinR TfPwaV.AngleR TfPwaV.CascadeR

theorem cross_neg_right (a b : V3) : a.cross b.neg = (a.cross b).neg := by
  ext <;> simp [V3.cross, V3.neg] <;> ring
theorem cross_neg_left (a b : V3) : a.neg.cross b = (a.cross b).neg := by
  ext <;> simp [V3.cross, V3.neg] <;> ring
theorem neg_neg' (a : V3) : a.neg.neg = a := by ext <;> simp [V3.neg]
theorem dot_neg_left (a b : V3) : a.neg.dot b = -(a.dot b) := by simp [V3.dot, V3.neg]; ring
theorem dot_neg_right (a b : V3) : a.dot b.neg = -(a.dot b) := by simp [V3.dot, V3.neg]; ring
theorem smul_neg' (s : ℝ) (a : V3) : V3.smul s a.neg = (V3.smul s a).neg := by ext <;> simp [V3.smul, V3.neg]

/-- two orthogonal unit vectors `a, b` give the right-handed frame `(a × b, a, b)` -/
theorem frame_of_orthonormal (a b : V3) (ha : a.dot a = 1) (hb : b.dot b = 1) (hab : a.dot b = 0) :
    IsFrame (a.cross b) a b := by
  have hn : (a.cross b).dot (a.cross b) = 1 := by
    have := norm2_cross a b
    rw [norm2_eq_dot, norm2_eq_dot, norm2_eq_dot, ha, hb, hab] at this
    rw [this]; ring
  simp only [V3.dot] at ha hb hab
  refine ⟨hn, ha, hb, ?_, by simpa [V3.dot] using hab, ?_, ?_, rfl, ?_⟩
  · simp [V3.dot, V3.cross]; ring
  · simp [V3.dot, V3.cross]; ring
  · ext <;> simp only [V3.cross]
    · linear_combination b.x * ha - a.x * hab
    · linear_combination b.y * ha - a.y * hab
    · linear_combination b.z * ha - a.z * hab
  · ext <;> simp only [V3.cross]
    · linear_combination a.x * hb - b.x * hab
    · linear_combination a.y * hb - b.y * hab
    · linear_combination a.z * hb - b.z * hab

/-- the frame `[px, -py, -pz]` handed to `outs[1]` is again orthonormal and right-handed -/
theorem frame_flip {X Y Z : V3} (hF : IsFrame X Y Z) : IsFrame X Y.neg Z.neg := by
  obtain ⟨xx, yy, zz, xy, yz, zx, cxy, cyz, czx⟩ := hF
  refine ⟨xx, ?_, ?_, ?_, ?_, ?_, ?_, ?_, ?_⟩
  · rw [dot_neg_left, dot_neg_right, yy]; ring
  · rw [dot_neg_left, dot_neg_right, zz]; ring
  · rw [dot_neg_right, xy]; ring
  · rw [dot_neg_left, dot_neg_right, yz]; ring
  · rw [dot_neg_left, zx]; ring
  · rw [cross_neg_right, cxy]
  · rw [cross_neg_left, cross_neg_right, neg_neg', cyz]
  · rw [cross_neg_left, czx]

section dirfacts
variable {X Y Z : V3} (hF : IsFrame X Y Z) (θ φ : ℝ)
include hF

theorem dir_norm : (dir X Y Z θ φ).dot (dir X Y Z θ φ) = 1 := by
  obtain ⟨xx, yy, zz, xy, yz, zx, -, -, -⟩ := hF
  have yx : Y.dot X = 0 := by rw [dot_comm]; exact xy
  have zy : Z.dot Y = 0 := by rw [dot_comm]; exact yz
  have xz : X.dot Z = 0 := by rw [dot_comm]; exact zx
  unfold dir
  simp only [dot_add_left, dot_add_right, dot_smul_left, dot_smul_right, xx, yy, zz, xy, yx, yz, zy, zx, xz]
  nlinarith [Real.sin_sq_add_cos_sq φ, Real.sin_sq_add_cos_sq θ]

theorem yNew_norm : (yNew X Y φ).dot (yNew X Y φ) = 1 := by
  obtain ⟨xx, yy, zz, xy, yz, zx, -, -, -⟩ := hF
  have yx : Y.dot X = 0 := by rw [dot_comm]; exact xy
  unfold yNew
  simp only [dot_add_left, dot_add_right, dot_smul_left, dot_smul_right, xx, yy, xy, yx]
  nlinarith [Real.sin_sq_add_cos_sq φ]

theorem yNew_dir : (yNew X Y φ).dot (dir X Y Z θ φ) = 0 := by
  obtain ⟨xx, yy, zz, xy, yz, zx, -, -, -⟩ := hF
  have yx : Y.dot X = 0 := by rw [dot_comm]; exact xy
  have xz : X.dot Z = 0 := by rw [dot_comm]; exact zx
  unfold yNew dir
  simp only [dot_add_left, dot_add_right, dot_smul_left, dot_smul_right, xx, yy, xy, yx, yz, xz]
  ring

/-- the axes `[px', py', pz']` handed to `outs[0]` form a frame (for every θ, φ) -/
theorem frame_first : IsFrame ((yNew X Y φ).cross (dir X Y Z θ φ)) (yNew X Y φ) (dir X Y Z θ φ) :=
  frame_of_orthonormal _ _ (yNew_norm hF φ) (dir_norm hF θ φ) (yNew_dir hF θ φ)

/-- … and so do the axes `[px', -py', -pz']` handed to `outs[1]` -/
theorem frame_second : IsFrame ((yNew X Y φ).cross (dir X Y Z θ φ)) (yNew X Y φ).neg (dir X Y Z θ φ).neg :=
  frame_flip (frame_first hF θ φ)

end dirfacts

/-- `angle_step_roundtrip` with the un-normalised z-axis `s·Z` that `cal_helicity_angle` hands down
(`set_z[j] = vect(rest_p[j])`): the guards of `cross_unit` then read `|s·Z × X| = s ≥ ε` and
`|s·Z × p| = s·P·sinθ ≥ ε`. -/
theorem angle_step_scaled (X Y Z : V3) (hF : IsFrame X Y Z) (s P θ φ : ℝ) (hs : eps ≤ s) (hP : 0 < P)
    (hθ0 : 0 < θ) (hθπ : θ < Real.pi) (hφ0 : -Real.pi < φ) (hφπ : φ ≤ Real.pi)
    (hguard : eps ≤ s * (P * Real.sin θ)) :
    let out := angleZxZGetx (V3.smul s Z) X (V3.smul P (dir X Y Z θ φ))
    out.alpha = φ ∧ out.beta = θ ∧ out.x2 = (yNew X Y φ).cross (dir X Y Z θ φ) := by
  intro out
  have hs0 : 0 < s := lt_of_lt_of_le eps_pos hs
  have d_norm := dir_norm hF θ φ
  have yn_norm := yNew_norm hF φ
  have yn_d := yNew_dir hF θ φ
  obtain ⟨xx, yy, zz, xy, yz, zx, cxy, cyz, czx⟩ := hF
  have yx : Y.dot X = 0 := by rw [dot_comm]; exact xy
  have zy : Z.dot Y = 0 := by rw [dot_comm]; exact yz
  have xz : X.dot Z = 0 := by rw [dot_comm]; exact zx
  have sc := Real.sin_sq_add_cos_sq φ
  set d := dir X Y Z θ φ with hd
  set yn := yNew X Y φ with hyn
  set xr : V3 := (V3.smul (Real.cos φ) X).add (V3.smul (Real.sin φ) Y) with hxr
  have xr_norm : xr.norm2 = 1 := by
    rw [norm2_eq_dot, hxr]
    simp only [dot_add_left, dot_add_right, dot_smul_left, dot_smul_right, xx, yy, xy, yx]
    nlinarith [sc]
  have zX : Z.cross Y = V3.smul (-1) X := by rw [cross_anti, cyz]
  have xZ : X.cross Z = V3.smul (-1) Y := by rw [cross_anti, czx]
  have c1 : (V3.smul s Z).cross (V3.smul P d) = V3.smul (s * (P * Real.sin θ)) yn := by
    rw [cross_smul_left, cross_smul_right, hd]; unfold dir
    simp only [cross_add_right, cross_smul_right, czx, zX, cross_self, hyn]
    unfold yNew
    ext <;> simp [V3.smul, V3.add, V3.zero] <;> ring
  have c2' : yn.cross Z = xr := by
    rw [hyn]; unfold yNew
    simp only [cross_add_left, cross_smul_left, xZ, cyz, hxr]
    ext <;> simp [V3.smul, V3.add] <;> ring
  have c2 : yn.cross (V3.smul s Z) = V3.smul s xr := by
    rw [cross_smul_right, c2']
  have c3 : (V3.smul s Z).cross X = V3.smul s Y := by rw [cross_smul_left, czx]
  have c4 : Y.cross (V3.smul s Z) = V3.smul s X := by rw [cross_smul_right, cyz]
  have c5 : (yn.cross d).norm2 = 1 := by
    rw [norm2_cross, norm2_eq_dot, norm2_eq_dot, yn_norm, d_norm, yn_d]; ring
  have c5' : yn.cross d = V3.smul 1 (yn.cross d) := (one_smul' _).symm
  have uz1 : (V3.smul s Z).unit = Z := unit_smul s Z hs0 (by rw [norm2_eq_dot]; exact zz)
  have uz2 : (V3.smul P d).unit = d := unit_smul P d hP (by rw [norm2_eq_dot]; exact d_norm)
  have uy1 : crossUnit (V3.smul s Z) X = Y := crossUnit_eq _ X Y s c3 (by rw [norm2_eq_dot]; exact yy) hs
  have ux1 : crossUnit Y (V3.smul s Z) = X := crossUnit_eq Y _ X s c4 (by rw [norm2_eq_dot]; exact xx) hs
  have uyr : crossUnit (V3.smul s Z) (V3.smul P d) = yn :=
    crossUnit_eq _ _ yn _ c1 (by rw [norm2_eq_dot]; exact yn_norm) hguard
  have uxr : crossUnit yn (V3.smul s Z) = xr := crossUnit_eq yn _ xr s c2 xr_norm hs
  have ux2 : crossUnit yn d = yn.cross d := crossUnit_eq yn d _ 1 c5' c5 eps_le_one
  have a1 : xr.dot Y = Real.sin φ := by
    rw [hxr]; simp only [dot_add_left, dot_smul_left, xy, yy]; ring
  have a2 : xr.dot X = Real.cos φ := by
    rw [hxr]; simp only [dot_add_left, dot_smul_left, xx, yx]; ring
  have b1 : d.dot xr = Real.sin θ := by
    rw [hd, hxr]; unfold dir
    simp only [dot_add_left, dot_add_right, dot_smul_left, dot_smul_right, xx, yy, xy, yx, zx, zy]
    linear_combination (Real.sin θ) * sc
  have b2 : d.dot Z = Real.cos θ := by
    rw [hd]; unfold dir
    simp only [dot_add_left, dot_smul_left, xz, yz, zz]; ring
  have hout : angleZxZGetx (V3.smul s Z) X (V3.smul P d) = ⟨angleFrom xr X Y, angleFrom d Z xr, crossUnit yn d⟩ := by
    unfold angleZxZGetx
    simp only [uz1, uz2, uy1, ux1, uyr, uxr]
  show (angleZxZGetx (V3.smul s Z) X (V3.smul P d)).alpha = φ ∧ (angleZxZGetx (V3.smul s Z) X (V3.smul P d)).beta = θ ∧
    (angleZxZGetx (V3.smul s Z) X (V3.smul P d)).x2 = yn.cross d
  rw [hout]
  refine ⟨?_, ?_, ux2⟩
  · simp only [angleFrom, a1, a2]
    exact atan2_sin_cos φ hφ0 hφπ
  · simp only [angleFrom, b1, b2]
    exact atan2_sin_cos θ (by linarith [Real.pi_pos]) hθπ.le

/-- azimuth of the opposite direction, in the range `(-π, π]` of `atan2` -/
noncomputable def phiOpp (φ : ℝ) : ℝ := if 0 < φ then φ - Real.pi else φ + Real.pi

theorem dir_opp (X Y Z : V3) (θ φ : ℝ) : dir X Y Z (Real.pi - θ) (phiOpp φ) = (dir X Y Z θ φ).neg := by
  unfold phiOpp dir
  split_ifs <;>
    simp only [Real.sin_pi_sub, Real.cos_pi_sub, Real.cos_sub_pi, Real.sin_sub_pi, Real.cos_add_pi, Real.sin_add_pi] <;>
    ext <;> simp [V3.smul, V3.add, V3.neg] <;> ring

theorem yNew_opp (X Y : V3) (φ : ℝ) : yNew X Y (phiOpp φ) = (yNew X Y φ).neg := by
  unfold phiOpp yNew
  split_ifs <;>
    simp only [Real.cos_sub_pi, Real.sin_sub_pi, Real.cos_add_pi, Real.sin_add_pi] <;>
    ext <;> simp [V3.smul, V3.add, V3.neg] <;> ring

/-- the second daughter (momentum `−P·dir θ φ`) seen from the mother's axes: polar angle `π − θ`, azimuth `φ ∓ π`,
and the SAME new x-axis as the first daughter -/
theorem angle_step_second (X Y Z : V3) (hF : IsFrame X Y Z) (s P θ φ : ℝ) (hs : eps ≤ s) (hP : 0 < P)
    (hθ0 : 0 < θ) (hθπ : θ < Real.pi) (hφ0 : -Real.pi < φ) (hφπ : φ ≤ Real.pi)
    (hguard : eps ≤ s * (P * Real.sin θ)) :
    let out := angleZxZGetx (V3.smul s Z) X (V3.smul P (dir X Y Z θ φ)).neg
    out.alpha = phiOpp φ ∧ out.beta = Real.pi - θ ∧ out.x2 = (yNew X Y φ).cross (dir X Y Z θ φ) := by
  have h1 : -Real.pi < phiOpp φ := by unfold phiOpp; split_ifs <;> linarith [Real.pi_pos]
  have h2 : phiOpp φ ≤ Real.pi := by unfold phiOpp; split_ifs <;> linarith [Real.pi_pos]
  have := angle_step_scaled X Y Z hF s P (Real.pi - θ) (phiOpp φ) hs hP (by linarith) (by linarith) h1 h2
    (by rw [Real.sin_pi_sub]; exact hguard)
  rw [dir_opp, yNew_opp, cross_neg_left, cross_neg_right, neg_neg', smul_neg'] at this
  exact this

/-! ### the `alpha` range shift `(alpha - bias) % 2π + bias` -/

theorem kmod_small (x y : ℝ) (h0 : 0 ≤ x) (h1 : x < y) : kmod x y = x := by
  have hy : 0 < y := lt_of_le_of_lt h0 h1
  have : ⌊x / y⌋ = 0 := by
    rw [Int.floor_eq_zero_iff]; exact ⟨div_nonneg h0 hy.le, (div_lt_one hy).mpr h1⟩
  unfold kmod kfloor; rw [this]; simp

theorem kmod_next (x y : ℝ) (hy : 0 < y) (h0 : y ≤ x) (h1 : x < 2 * y) : kmod x y = x - y := by
  have : ⌊x / y⌋ = 1 := by
    rw [Int.floor_eq_iff]
    refine ⟨?_, ?_⟩
    · rw [Int.cast_one, le_div_iff₀ hy]; linarith
    · rw [Int.cast_one, div_lt_iff₀ hy]; linarith
  unfold kmod kfloor; rw [this]; simp

/-- `outs[0]` (`bias = -π`): an azimuth in `(-π, π)` is returned unchanged -/
theorem shift_first (φ : ℝ) (h1 : -Real.pi < φ) (h2 : φ < Real.pi) : shiftAlpha φ (-kpi) = φ := by
  unfold shiftAlpha kpi
  rw [kmod_small _ _ (by linarith) (by linarith)]; ring

/-- `outs[0]` at the boundary: `atan2` returns `π`, the shift maps it to `-π` -/
theorem shift_first_pi : shiftAlpha Real.pi (-kpi) = -Real.pi := by
  unfold shiftAlpha kpi
  rw [kmod_next _ _ (by linarith [Real.pi_pos]) (by linarith) (by linarith [Real.pi_pos])]; ring

/-- `outs[1]` (`bias = -2π`): the opposite azimuth `φ ∓ π ∈ (-π, π]` is returned as `φ - π ∈ (-2π, 0)` -/
theorem shift_second (φ : ℝ) (h1 : -Real.pi < φ) (h2 : φ < Real.pi) :
    shiftAlpha (phiOpp φ) (-kpi - kpi) = φ - Real.pi := by
  unfold shiftAlpha kpi phiOpp
  split_ifs with h
  · rw [kmod_small _ _ (by linarith) (by linarith)]; ring
  · rw [kmod_next _ _ (by linarith [Real.pi_pos]) (by linarith) (by linarith)]; ring

end TfPwaV.C11
