import TfPwaV.Gen.DalitzR
import Mathlib.Tactic.LinearCombination
import Mathlib.Tactic.FieldSimp
import Mathlib.Tactic.Positivity
/-! Helper lemmas for the Dalitz clause of C11.  Certificates computed by sympy (`reduced` w.r.t. the three
relations `m0*i0 = 1`, `r²·λ = 1`, `pc² = r²·G`); Lean only checks them.  (Generated once by a sympy script, committed.) -/
namespace TfPwaV.DalitzR

/-- expanded Källén polynomial -/
def Lpoly (m23 m0 m1 : ℝ) : ℝ := m0^4 - 2*m0^2*m1^2 - 2*m0^2*m23 + m1^4 - 2*m1^2*m23 + m23^2

/-- expanded polynomial under the last root -/
def Gpoly (m12 m23 m0 m1 m2 m3 : ℝ) : ℝ := -m0^4*m2^2 + m0^2*m1^2*m2^2 - m0^2*m1^2*m23 + m0^2*m1^2*m3^2 + m0^2*m12*m2^2 + m0^2*m12*m23 - m0^2*m12*m3^2 - m0^2*m2^4 + m0^2*m2^2*m23 + m0^2*m2^2*m3^2 - m1^4*m3^2 - m1^2*m12*m2^2 + m1^2*m12*m23 + m1^2*m12*m3^2 + m1^2*m2^2*m3^2 + m1^2*m23*m3^2 - m1^2*m3^4 - m12^2*m23 + m12*m2^2*m23 - m12*m23^2 + m12*m23*m3^2 - m2^2*m23*m3^2

theorem lam_eq (m23 m0 m1 : ℝ) : lam m23 m0 m1 = Lpoly m23 m0 m1 := by unfold lam Lpoly; ring

theorem gpoly_eq (m12 m23 m0 m1 m2 m3 : ℝ) : gpoly m12 m23 m0 m1 m2 m3 = Gpoly m12 m23 m0 m1 m2 m3 := by unfold gpoly Gpoly; ring

theorem aux_esum (m12 m23 m0 m1 m2 m3 i0 r pc : ℝ)
    (h0 : m0 * i0 = 1) (hr : r * r * Lpoly m23 m0 m1 = 1)
    (hpc : pc * pc = r * r * Gpoly m12 m23 m0 m1 m2 m3) :
    i0*(m0^2 + m1^2 - m23)/2 + i0*(m0^2 - m12 + m3^2)/2 + i0*(-m1^2 + m12 + m23 - m3^2)/2 - m0 = 0 := by
  unfold Lpoly at hr; unfold Gpoly at hpc
  linear_combination (0) * hpc + (0) * hr + (m0) * h0

theorem aux_on1 (m12 m23 m0 m1 m2 m3 i0 r pc : ℝ)
    (h0 : m0 * i0 = 1) (hr : r * r * Lpoly m23 m0 m1 = 1)
    (hpc : pc * pc = r * r * Gpoly m12 m23 m0 m1 m2 m3) :
    -i0^2*r^2*(-m0^4/2 + m0^2*m1^2 + m0^2*m23 - m1^4/2 + m1^2*m23 - m23^2/2)^2 + i0^2*(m0^2 + m1^2 - m23)^2/4 - m1^2 = 0 := by
  unfold Lpoly at hr; unfold Gpoly at hpc
  linear_combination (0) * hpc + (-i0^2*m0^4/4 + i0^2*m0^2*m1^2/2 + i0^2*m0^2*m23/2 - i0^2*m1^4/4 + i0^2*m1^2*m23/2 - i0^2*m23^2/4) * hr + (i0*m0*m1^2 + m1^2) * h0

theorem aux_on2 (m12 m23 m0 m1 m2 m3 i0 r pc : ℝ)
    (h0 : m0 * i0 = 1) (hr : r * r * Lpoly m23 m0 m1 = 1)
    (hpc : pc * pc = r * r * Gpoly m12 m23 m0 m1 m2 m3) :
    -i0^2*r^2*(-m0^2*m1^2 + m0^2*m12 - 2*m0^2*m2^2 - m0^2*m23 + m0^2*m3^2 + m1^4 - m1^2*m12 - 2*m1^2*m23 + m1^2*m3^2 + m12*m23 + m23^2 - m23*m3^2)^2/4 + i0^2*(-m1^2 + m12 + m23 - m3^2)^2/4 - m2^2 - pc^2 = 0 := by
  unfold Lpoly at hr; unfold Gpoly at hpc
  linear_combination (-1) * hpc + (-i0^2*m0^2*m12 + i0^2*m0^2*m2^2 - i0^2*m1^4/4 + i0^2*m1^2*m12/2 + i0^2*m1^2*m23/2 - i0^2*m1^2*m3^2/2 - i0^2*m12^2/4 - i0^2*m12*m23/2 + i0^2*m12*m3^2/2 - i0^2*m23^2/4 + i0^2*m23*m3^2/2 - i0^2*m3^4/4 + m12) * hr + (i0*m0^5*m12*r^2 - i0*m0^5*m2^2*r^2 - 2*i0*m0^3*m1^2*m12*r^2 + i0*m0^3*m1^2*m2^2*r^2 - i0*m0^3*m1^2*m23*r^2 + i0*m0^3*m1^2*m3^2*r^2 + i0*m0^3*m12*m2^2*r^2 - i0*m0^3*m12*m23*r^2 - i0*m0^3*m12*m3^2*r^2 - i0*m0^3*m2^4*r^2 + i0*m0^3*m2^2*m23*r^2 + i0*m0^3*m2^2*m3^2*r^2 + i0*m0*m1^4*m12*r^2 - i0*m0*m1^4*m3^2*r^2 - i0*m0*m1^2*m12*m2^2*r^2 - i0*m0*m1^2*m12*m23*r^2 + i0*m0*m1^2*m12*m3^2*r^2 + i0*m0*m1^2*m2^2*m3^2*r^2 + i0*m0*m1^2*m23*m3^2*r^2 - i0*m0*m1^2*m3^4*r^2 - i0*m0*m12^2*m23*r^2 + i0*m0*m12*m2^2*m23*r^2 + i0*m0*m12*m23*m3^2*r^2 - i0*m0*m12 - i0*m0*m2^2*m23*m3^2*r^2 + i0*m0*m2^2 + m0^4*m12*r^2 - m0^4*m2^2*r^2 - 2*m0^2*m1^2*m12*r^2 + m0^2*m1^2*m2^2*r^2 - m0^2*m1^2*m23*r^2 + m0^2*m1^2*m3^2*r^2 + m0^2*m12*m2^2*r^2 - m0^2*m12*m23*r^2 - m0^2*m12*m3^2*r^2 - m0^2*m2^4*r^2 + m0^2*m2^2*m23*r^2 + m0^2*m2^2*m3^2*r^2 + m1^4*m12*r^2 - m1^4*m3^2*r^2 - m1^2*m12*m2^2*r^2 - m1^2*m12*m23*r^2 + m1^2*m12*m3^2*r^2 + m1^2*m2^2*m3^2*r^2 + m1^2*m23*m3^2*r^2 - m1^2*m3^4*r^2 - m12^2*m23*r^2 + m12*m2^2*m23*r^2 + m12*m23*m3^2*r^2 - m12 - m2^2*m23*m3^2*r^2 + m2^2) * h0

theorem aux_on3 (m12 m23 m0 m1 m2 m3 i0 r pc : ℝ)
    (h0 : m0 * i0 = 1) (hr : r * r * Lpoly m23 m0 m1 = 1)
    (hpc : pc * pc = r * r * Gpoly m12 m23 m0 m1 m2 m3) :
    i0^2*(m0^2 - m12 + m3^2)^2/4 - m3^2 - pc^2 - (i0*r*(-m0^4/2 + m0^2*m1^2 + m0^2*m23 - m1^4/2 + m1^2*m23 - m23^2/2) + i0*r*(-m0^2*m1^2 + m0^2*m12 - 2*m0^2*m2^2 - m0^2*m23 + m0^2*m3^2 + m1^4 - m1^2*m12 - 2*m1^2*m23 + m1^2*m3^2 + m12*m23 + m23^2 - m23*m3^2)/2)^2 = 0 := by
  unfold Lpoly at hr; unfold Gpoly at hpc
  linear_combination (-1) * hpc + (-i0^2*m0^4/4 - i0^2*m0^2*m12/2 + i0^2*m0^2*m3^2/2 - i0^2*m12^2/4 + i0^2*m12*m3^2/2 - i0^2*m3^4/4 + m12) * hr + (i0*m0^5*m12*r^2 - i0*m0^5*m2^2*r^2 - 2*i0*m0^3*m1^2*m12*r^2 + i0*m0^3*m1^2*m2^2*r^2 - i0*m0^3*m1^2*m23*r^2 + i0*m0^3*m1^2*m3^2*r^2 + i0*m0^3*m12*m2^2*r^2 - i0*m0^3*m12*m23*r^2 - i0*m0^3*m12*m3^2*r^2 - i0*m0^3*m2^4*r^2 + i0*m0^3*m2^2*m23*r^2 + i0*m0^3*m2^2*m3^2*r^2 + i0*m0*m1^4*m12*r^2 - i0*m0*m1^4*m3^2*r^2 - i0*m0*m1^2*m12*m2^2*r^2 - i0*m0*m1^2*m12*m23*r^2 + i0*m0*m1^2*m12*m3^2*r^2 + i0*m0*m1^2*m2^2*m3^2*r^2 + i0*m0*m1^2*m23*m3^2*r^2 - i0*m0*m1^2*m3^4*r^2 - i0*m0*m12^2*m23*r^2 + i0*m0*m12*m2^2*m23*r^2 + i0*m0*m12*m23*m3^2*r^2 - i0*m0*m12 - i0*m0*m2^2*m23*m3^2*r^2 + i0*m0*m3^2 + m0^4*m12*r^2 - m0^4*m2^2*r^2 - 2*m0^2*m1^2*m12*r^2 + m0^2*m1^2*m2^2*r^2 - m0^2*m1^2*m23*r^2 + m0^2*m1^2*m3^2*r^2 + m0^2*m12*m2^2*r^2 - m0^2*m12*m23*r^2 - m0^2*m12*m3^2*r^2 - m0^2*m2^4*r^2 + m0^2*m2^2*m23*r^2 + m0^2*m2^2*m3^2*r^2 + m1^4*m12*r^2 - m1^4*m3^2*r^2 - m1^2*m12*m2^2*r^2 - m1^2*m12*m23*r^2 + m1^2*m12*m3^2*r^2 + m1^2*m2^2*m3^2*r^2 + m1^2*m23*m3^2*r^2 - m1^2*m3^4*r^2 - m12^2*m23*r^2 + m12*m2^2*m23*r^2 + m12*m23*m3^2*r^2 - m12 - m2^2*m23*m3^2*r^2 + m3^2) * h0

theorem aux_s12 (m12 m23 m0 m1 m2 m3 i0 r pc : ℝ)
    (h0 : m0 * i0 = 1) (hr : r * r * Lpoly m23 m0 m1 = 1)
    (hpc : pc * pc = r * r * Gpoly m12 m23 m0 m1 m2 m3) :
    -m12 - pc^2 + (i0*(m0^2 + m1^2 - m23)/2 + i0*(-m1^2 + m12 + m23 - m3^2)/2)^2 - (i0*r*(-m0^4/2 + m0^2*m1^2 + m0^2*m23 - m1^4/2 + m1^2*m23 - m23^2/2) + i0*r*(-m0^2*m1^2 + m0^2*m12 - 2*m0^2*m2^2 - m0^2*m23 + m0^2*m3^2 + m1^4 - m1^2*m12 - 2*m1^2*m23 + m1^2*m3^2 + m12*m23 + m23^2 - m23*m3^2)/2)^2 = 0 := by
  unfold Lpoly at hr; unfold Gpoly at hpc
  linear_combination (-1) * hpc + (-i0^2*m0^4/4 - i0^2*m0^2*m12/2 + i0^2*m0^2*m3^2/2 - i0^2*m12^2/4 + i0^2*m12*m3^2/2 - i0^2*m3^4/4 + m12) * hr + (i0*m0^5*m12*r^2 - i0*m0^5*m2^2*r^2 - 2*i0*m0^3*m1^2*m12*r^2 + i0*m0^3*m1^2*m2^2*r^2 - i0*m0^3*m1^2*m23*r^2 + i0*m0^3*m1^2*m3^2*r^2 + i0*m0^3*m12*m2^2*r^2 - i0*m0^3*m12*m23*r^2 - i0*m0^3*m12*m3^2*r^2 - i0*m0^3*m2^4*r^2 + i0*m0^3*m2^2*m23*r^2 + i0*m0^3*m2^2*m3^2*r^2 + i0*m0*m1^4*m12*r^2 - i0*m0*m1^4*m3^2*r^2 - i0*m0*m1^2*m12*m2^2*r^2 - i0*m0*m1^2*m12*m23*r^2 + i0*m0*m1^2*m12*m3^2*r^2 + i0*m0*m1^2*m2^2*m3^2*r^2 + i0*m0*m1^2*m23*m3^2*r^2 - i0*m0*m1^2*m3^4*r^2 - i0*m0*m12^2*m23*r^2 + i0*m0*m12*m2^2*m23*r^2 + i0*m0*m12*m23*m3^2*r^2 - i0*m0*m2^2*m23*m3^2*r^2 + m0^4*m12*r^2 - m0^4*m2^2*r^2 - 2*m0^2*m1^2*m12*r^2 + m0^2*m1^2*m2^2*r^2 - m0^2*m1^2*m23*r^2 + m0^2*m1^2*m3^2*r^2 + m0^2*m12*m2^2*r^2 - m0^2*m12*m23*r^2 - m0^2*m12*m3^2*r^2 - m0^2*m2^4*r^2 + m0^2*m2^2*m23*r^2 + m0^2*m2^2*m3^2*r^2 + m1^4*m12*r^2 - m1^4*m3^2*r^2 - m1^2*m12*m2^2*r^2 - m1^2*m12*m23*r^2 + m1^2*m12*m3^2*r^2 + m1^2*m2^2*m3^2*r^2 + m1^2*m23*m3^2*r^2 - m1^2*m3^4*r^2 - m12^2*m23*r^2 + m12*m2^2*m23*r^2 + m12*m23*m3^2*r^2 - m2^2*m23*m3^2*r^2) * h0

theorem aux_s23 (m12 m23 m0 m1 m2 m3 i0 r pc : ℝ)
    (h0 : m0 * i0 = 1) (hr : r * r * Lpoly m23 m0 m1 = 1)
    (hpc : pc * pc = r * r * Gpoly m12 m23 m0 m1 m2 m3) :
    -i0^2*r^2*(-m0^4/2 + m0^2*m1^2 + m0^2*m23 - m1^4/2 + m1^2*m23 - m23^2/2)^2 - m23 + (i0*(m0^2 - m12 + m3^2)/2 + i0*(-m1^2 + m12 + m23 - m3^2)/2)^2 = 0 := by
  unfold Lpoly at hr; unfold Gpoly at hpc
  linear_combination (0) * hpc + (-i0^2*m0^4/4 + i0^2*m0^2*m1^2/2 + i0^2*m0^2*m23/2 - i0^2*m1^4/4 + i0^2*m1^2*m23/2 - i0^2*m23^2/4) * hr + (i0*m0*m23 + m23) * h0

end TfPwaV.DalitzR
