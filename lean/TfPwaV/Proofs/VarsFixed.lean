import TfPwaV.Proofs.Vars
/-! C16: the patched `set_same` (`cfg.fixSame = true`, the tree after commit 647ec00) keeps the full constraint
invariant and ties everything it lists.  Core Lean only. -/
namespace TfPwaV.Vars

variable {V : Type}

/-! ### strings and keys -/

theorem append_r_ne_i (a b : String) : a ++ "r" ≠ b ++ "i" := by
  intro h
  have := congrArg String.toList h
  simp only [String.toList_append] at this
  have h2 := List.append_inj_right' this (by rfl)
  revert h2
  decide

theorem mem_dkeys_of_dhas {β : Type} (d : Dict β) (k : Name) (h : dhas d k = true) : k ∈ dkeys d := by
  induction d with
  | nil => simp [dhas, dget] at h
  | cons hd t ih =>
    obtain ⟨k', v⟩ := hd
    by_cases hk : k' = k
    · simp [dkeys, hk]
    · have : dhas t k = true := by
        unfold dhas at h ⊢
        simpa [dget, hk] using h
      have := ih this
      simp only [dkeys, List.map_cons, List.mem_cons] at this ⊢
      exact Or.inr this

theorem ncOK_spec (s : State V) (h : ncOK s = true) (n : Name) (hn : dhas s.vars n = true) :
    dhas s.vars (n ++ "r") = false := by
  unfold ncOK at h
  rw [List.all_eq_true] at h
  have := h n (mem_dkeys_of_dhas _ _ hn)
  simpa using this

/-! ### the first loop of `set_same` -/

theorem mergeLoop_spec (inVars : Name → Bool) (headOf : List Name → Name → Name) (names : List Name) :
    ∀ (same0 : List (List Name)) (tmp0 heads0 : List Name),
      (∀ g ∈ (mergeLoop inVars headOf names (same0, tmp0, heads0)).1, g ∈ same0) ∧
      (∀ f ∈ (mergeLoop inVars headOf names (same0, tmp0, heads0)).2.1, f ∈ tmp0 ∨
          ∃ g ∈ same0, ∃ n, f ∈ g ∧ n ∈ g ∧ inVars n = true ∧
            headOf g n ∈ (mergeLoop inVars headOf names (same0, tmp0, heads0)).2.2) ∧
      (∀ h ∈ heads0, h ∈ (mergeLoop inVars headOf names (same0, tmp0, heads0)).2.2) ∧
      (∀ h ∈ (mergeLoop inVars headOf names (same0, tmp0, heads0)).2.2, h ∈ heads0 ∨
          ∃ g ∈ same0, ∃ n, n ∈ g ∧ inVars n = true ∧ h = headOf g n) := by
  induction names with
  | nil =>
    intro same0 tmp0 heads0
    simp only [mergeLoop]
    exact ⟨fun g h => h, fun f h => Or.inl h, fun h hh => hh, fun h hh => Or.inl hh⟩
  | cons name rest ih =>
    intro same0 tmp0 heads0
    simp only [mergeLoop]
    by_cases hin : inVars name = true
    · simp only [hin, Bool.not_true, Bool.false_eq_true, if_false]
      cases hf : same0.find? (fun g => decide (name ∈ g)) with
      | none => simp only; exact ih same0 tmp0 heads0
      | some g =>
        simp only
        have hg : g ∈ same0 := List.mem_of_find?_eq_some hf
        have hng : name ∈ g := by simpa using List.find?_some hf
        obtain ⟨i1, i2, i3, i4⟩ := ih (same0.erase g) (tmp0 ++ g) (heads0 ++ [headOf g name])
        refine ⟨?_, ?_, ?_, ?_⟩
        · intro g' hg'; exact List.mem_of_mem_erase (i1 g' hg')
        · intro f hf'
          rcases i2 f hf' with h | ⟨g', hg', n, h1, h2, h3, h4⟩
          · rcases List.mem_append.1 h with h | h
            · exact Or.inl h
            · exact Or.inr ⟨g, hg, name, h, hng, hin, i3 _ (by simp)⟩
          · exact Or.inr ⟨g', List.mem_of_mem_erase hg', n, h1, h2, h3, h4⟩
        · intro h hh; exact i3 h (by simp [hh])
        · intro h hh
          rcases i4 h hh with h' | ⟨g', hg', n, h1, h2, h3⟩
          · rcases List.mem_append.1 h' with h' | h'
            · exact Or.inl h'
            · simp only [List.mem_singleton] at h'
              exact Or.inr ⟨g, hg, name, hng, hin, h'⟩
          · exact Or.inr ⟨g', List.mem_of_mem_erase hg', n, h1, h2, h3⟩
    · have hin' : inVars name = false := by simpa using hin
      simp only [hin', Bool.not_false, if_true]
      exact ih same0 tmp0 heads0

theorem mem_ssNameList (names tmp : List Name) (m : Name) : m ∈ ssNameList names tmp ↔ m ∈ names ∨ m ∈ tmp := by
  unfold ssNameList
  induction tmp generalizing names with
  | nil => simp
  | cons x xs ih =>
    rw [List.foldl_cons, ih]
    by_cases hx : names.contains x = true
    · have hx' : x ∈ names := by simpa using hx
      simp only [hx, if_true, List.mem_cons]
      constructor
      · rintro (h | h)
        · exact Or.inl h
        · exact Or.inr (Or.inr h)
      · rintro (h | h | h)
        · exact Or.inl h
        · subst h; exact Or.inl hx'
        · exact Or.inr h
    · have hx' : names.contains x = false := by simpa using hx
      simp only [hx', Bool.false_eq_true, if_false, List.mem_append, List.mem_cons, List.not_mem_nil, or_false]
      constructor
      · rintro ((h | h) | h)
        · exact Or.inl h
        · exact Or.inr (Or.inl h)
        · exact Or.inr (Or.inr h)
      · rintro (h | h | h)
        · exact Or.inl (Or.inl h)
        · exact Or.inl (Or.inr h)
        · exact Or.inr h

theorem ssHeadOf_mem (cfg : Cfg) (s : State V) (cplx : Bool) (g : List Name) (n : Name) (hn : n ∈ g) :
    ssHeadOf cfg s cplx g n ∈ g := by
  have hhead : g.headD n ∈ g := by
    cases g with
    | nil => simp at hn
    | cons x xs => simp
  unfold ssHeadOf
  split
  · cases hf : g.find? (ssIsTr s cplx) with
    | none => simpa using hhead
    | some x => simpa using List.mem_of_find?_eq_some hf
  · exact hhead

/-! ### the group invariant -/

/-- some part of the complex parameter `a` is free -/
def trC (s : State V) (a : Name) : Prop := a ++ "r" ∈ s.trainable ∨ a ++ "i" ∈ s.trainable

/-- a group of real names with at most one free member -/
def GReal (s : State V) (g : List Name) : Prop :=
  (∀ m ∈ g, dhas s.vars m = true) ∧ ∀ a ∈ g, ∀ b ∈ g, a ∈ s.trainable → b ∈ s.trainable → a = b

/-- a group of complex parameters with at most one member that has a free part -/
def GCplx (s : State V) (g : List Name) : Prop :=
  (∀ m ∈ g, isCplxBase s m = true) ∧ ∀ a ∈ g, ∀ b ∈ g, trC s a → trC s b → a = b

def GOK (s : State V) (g : List Name) : Prop := GReal s g ∨ GCplx s g

/-- the invariant of the patched tree: `Inv` plus "every tie group has at most one free member" -/
structure InvF (s : State V) : Prop where
  inv : Inv s
  groups : ∀ g ∈ s.same, GOK s g

theorem GOK.mono {s t : State V} {g : List Name} (hd : ∀ n, dhas t.vars n = dhas s.vars n)
    (ht : ∀ n, n ∈ t.trainable → n ∈ s.trainable) (h : GOK s g) : GOK t g := by
  rcases h with ⟨h1, h2⟩ | ⟨h1, h2⟩
  · left
    exact ⟨fun m hm => by rw [hd]; exact h1 m hm, fun a ha b hb hta htb => h2 a ha b hb (ht a hta) (ht b htb)⟩
  · right
    refine ⟨fun m hm => ?_, fun a ha b hb hta htb => h2 a ha b hb ?_ ?_⟩
    · have := h1 m hm
      unfold isCplxBase at this ⊢
      rw [hd, hd]; exact this
    · rcases hta with h | h
      · exact Or.inl (ht _ h)
      · exact Or.inr (ht _ h)
    · rcases htb with h | h
      · exact Or.inl (ht _ h)
      · exact Or.inr (ht _ h)

theorem InvF.of_skel {s t : State V} (h : t.skel = s.skel) (hi : InvF s) : InvF t := by
  obtain ⟨h1, h2, h3, _⟩ := (skel_eq_iff t s).1 h
  refine ⟨Inv.of_skel h hi.inv, ?_⟩
  intro g hg
  rw [h3] at hg
  exact (hi.groups g hg).mono (fun n => by rw [h1]) (fun n hn => by rw [← h2]; exact hn)

/-- a group that contains a bound real name is a group of real names -/
theorem real_group_of_member (s : State V) (hnc : ncOK s = true) (g : List Name) (hg : GOK s g) (n : Name)
    (hn : n ∈ g) (hin : dhas s.vars n = true) : GReal s g := by
  rcases hg with h | h
  · exact h
  · have := h.1 n hn
    unfold isCplxBase at this
    rw [ncOK_spec s hnc n hin] at this
    simp at this

/-- a group that contains a complex parameter is a group of complex parameters -/
theorem cplx_group_of_member (s : State V) (hnc : ncOK s = true) (g : List Name) (hg : GOK s g) (n : Name)
    (hn : n ∈ g) (hin : dhas s.vars (n ++ "r") = true) : GCplx s g := by
  rcases hg with h | h
  · have := ncOK_spec s hnc n (h.1 n hn)
    rw [hin] at this
    simp at this
  · exact h

/-- a member of a real group other than the chosen head is not free -/
theorem key_real (cfg : Cfg) (hc : cfg.fixSame = true) (s : State V) (g : List Name) (hg : GReal s g) (n f : Name)
    (hf : f ∈ g) (hne : f ≠ ssHeadOf cfg s false g n) : f ∉ s.trainable := by
  intro hft
  apply hne
  unfold ssHeadOf
  simp only [hc, if_true]
  cases hfind : g.find? (ssIsTr s false) with
  | none =>
    have := List.find?_eq_none.1 hfind f hf
    simp [ssIsTr, hft] at this
  | some x =>
    have hx : x ∈ g := List.mem_of_find?_eq_some hfind
    have hxt : x ∈ s.trainable := by simpa [ssIsTr] using List.find?_some hfind
    simp only [Option.getD_some]
    exact hg.2 f hf x hx hft hxt

theorem key_cplx (cfg : Cfg) (hc : cfg.fixSame = true) (s : State V) (g : List Name) (hg : GCplx s g) (n f : Name)
    (hf : f ∈ g) (hne : f ≠ ssHeadOf cfg s true g n) : ¬ trC s f := by
  intro hft
  apply hne
  unfold ssHeadOf
  simp only [hc, if_true]
  cases hfind : g.find? (ssIsTr s true) with
  | none =>
    have := List.find?_eq_none.1 hfind f hf
    unfold trC at hft
    simp only [ssIsTr, if_true, Bool.or_eq_true, decide_eq_true_eq] at this
    exact absurd hft this
  | some x =>
    have hx : x ∈ g := List.mem_of_find?_eq_some hfind
    have hxt : trC s x := by
      have := List.find?_some hfind
      simpa [ssIsTr, trC] using this
    simp only [Option.getD_some]
    exact hg.2 f hf x hx hft hxt

/-! ### `same_real` with followers -/

theorem sameReal_cases' (s : State V) (names fol : List Name) :
    (names.filter (dhas s.vars) = [] ∧ sameReal s names fol = s) ∨
    ∃ first rest c, names.filter (dhas s.vars) = first :: rest ∧ cellOf s first = some c ∧
      sameReal s names fol = { s with trainable := sameRealTr first rest s.trainable,
                                      vars := rebind (rebind s.vars (first :: rest) c) (fol.filter (dhas s.vars)) c } := by
  cases hf : names.filter (dhas s.vars) with
  | nil => left; refine ⟨rfl, ?_⟩; unfold sameReal; simp only [hf]
  | cons first rest =>
    right
    have hfm : first ∈ names.filter (dhas s.vars) := by rw [hf]; simp
    obtain ⟨c, hc⟩ := (dhas_iff _ _).1 (List.mem_filter.1 hfm).2
    refine ⟨first, rest, c, rfl, hc, ?_⟩
    unfold sameReal
    simp only [hf]
    have : cellOf s first = some c := hc
    rw [this]

theorem sameReal_same (s : State V) (names fol : List Name) : (sameReal s names fol).same = s.same := by
  rcases sameReal_cases' s names fol with ⟨_, h⟩ | ⟨first, rest, c, _, _, h⟩ <;> rw [h]

theorem sameReal_tr_sub (s : State V) (names fol : List Name) (n : Name) (h : n ∈ (sameReal s names fol).trainable) :
    n ∈ s.trainable := by
  rcases sameReal_cases' s names fol with ⟨_, e⟩ | ⟨first, rest, c, _, _, e⟩
  · rw [e] at h; exact h
  · rw [e] at h; exact (sameRealTr_sublist first rest s.trainable).subset h

theorem sameReal_dhas (s : State V) (names fol : List Name) (n : Name) :
    dhas (sameReal s names fol).vars n = dhas s.vars n := by
  rcases sameReal_cases' s names fol with ⟨_, e⟩ | ⟨first, rest, c, hf, _, e⟩
  · rw [e]
  · rw [e]
    simp only
    unfold dhas
    simp only [dget_rebind]
    split
    · next hm => have := (List.mem_filter.1 hm).2; unfold dhas at this; simp [this]
    · split
      · next hm =>
        have : n ∈ names.filter (dhas s.vars) := by rw [hf]; exact hm
        have := (List.mem_filter.1 this).2; unfold dhas at this; simp [this]
      · rfl

theorem sameReal_cell_other (s : State V) (names fol : List Name) (x : Name) (h1 : x ∉ names) (h2 : x ∉ fol) :
    cellOf (sameReal s names fol) x = cellOf s x := by
  rcases sameReal_cases' s names fol with ⟨_, e⟩ | ⟨first, rest, c, hf, _, e⟩
  · rw [e]
  · rw [e]
    unfold cellOf
    simp only [dget_rebind]
    have a1 : x ∉ fol.filter (dhas s.vars) := fun hm => h2 (List.mem_filter.1 hm).1
    have a2 : x ∉ first :: rest := by
      rw [← hf]; exact fun hm => h1 (List.mem_filter.1 hm).1
    simp [a1, a2]

/-- the free member that survives `same_real` is the first existing name of the list -/
theorem sameReal_tr_head (s : State V) (hnd : s.trainable.Nodup) (names fol : List Name) (x : Name) (hx : x ∈ names)
    (hxe : dhas s.vars x = true) (hxt : x ∈ (sameReal s names fol).trainable) :
    (names.filter (dhas s.vars)).head? = some x := by
  have hxm : x ∈ names.filter (dhas s.vars) := List.mem_filter.2 ⟨hx, hxe⟩
  rcases sameReal_cases' s names fol with ⟨h0, _⟩ | ⟨first, rest, c, hf, _, e⟩
  · rw [h0] at hxm; simp at hxm
  · rw [e] at hxt
    simp only at hxt
    rw [hf] at hxm ⊢
    have hnr : x ∉ rest := fun hm => sameRealTr_not_mem first rest s.trainable hnd x hm hxt
    simp only [List.mem_cons] at hxm
    rcases hxm with h | h
    · simp [h]
    · exact absurd h hnr

/-- `same_real` keeps the invariant when every follower that is still free is one of the listed names -/
theorem sameReal_inv_fol (s : State V) (hi : Inv s) (names fol : List Name)
    (hfol : ∀ f ∈ fol, f ∈ s.trainable → f ∈ names) : Inv (sameReal s names fol) := by
  have h0 := sameReal_inv0 s hi.toInv0 names fol
  refine ⟨h0.nodup, h0.sub, h0.fresh, ?_⟩
  rcases sameReal_cases' s names fol with ⟨_, h⟩ | ⟨first, rest, c, hf, hc, h⟩
  · rw [h]; exact hi.once
  · rw [h]
    intro a ha b hb hab
    have ha' := (sameRealTr_sublist first rest s.trainable).subset ha
    have hb' := (sameRealTr_sublist first rest s.trainable).subset hb
    have key : ∀ x, x ∈ sameRealTr first rest s.trainable →
        dget (rebind (rebind s.vars (first :: rest) c) (fol.filter (dhas s.vars)) c) x = cellOf s x := by
      intro x hx
      have hxt := (sameRealTr_sublist first rest s.trainable).subset hx
      have hxr : x ∉ rest := fun hm => sameRealTr_not_mem first rest s.trainable hi.nodup x hm hx
      have hfirst : x ∈ first :: rest → some c = cellOf s x := by
        intro hm
        simp only [List.mem_cons] at hm
        rcases hm with e | e
        · rw [e, hc]
        · exact absurd e hxr
      simp only [dget_rebind]
      split
      · next hm =>
        have hxn : x ∈ names := hfol x (List.mem_filter.1 hm).1 hxt
        have : x ∈ names.filter (dhas s.vars) := List.mem_filter.2 ⟨hxn, hi.sub x hxt⟩
        rw [hf] at this
        exact hfirst this
      · split
        · next hm => exact hfirst hm
        · rfl
    show cellOf _ a ≠ cellOf _ b
    unfold cellOf
    simp only
    rw [key a ha, key b hb]
    exact hi.once a ha' b hb' hab

/-! ### the patched `set_same` keeps the invariant -/

theorem ss_facts (cfg : Cfg) (s : State V) (names : List Name) (cplx : Bool) :
    (∀ g ∈ (mergeLoop (ssInVars cfg s cplx) (ssHeadOf cfg s cplx) names (s.same, [], [])).1, g ∈ s.same) ∧
    (∀ f ∈ (mergeLoop (ssInVars cfg s cplx) (ssHeadOf cfg s cplx) names (s.same, [], [])).2.1,
        ∃ g ∈ s.same, ∃ n, f ∈ g ∧ n ∈ g ∧ ssInVars cfg s cplx n = true ∧
          ssHeadOf cfg s cplx g n ∈ (mergeLoop (ssInVars cfg s cplx) (ssHeadOf cfg s cplx) names (s.same, [], [])).2.2) ∧
    (∀ h ∈ (mergeLoop (ssInVars cfg s cplx) (ssHeadOf cfg s cplx) names (s.same, [], [])).2.2,
        ∃ g ∈ s.same, ∃ n, n ∈ g ∧ ssInVars cfg s cplx n = true ∧ h = ssHeadOf cfg s cplx g n) := by
  obtain ⟨h1, h2, _, h4⟩ := mergeLoop_spec (ssInVars cfg s cplx) (ssHeadOf cfg s cplx) names s.same [] []
  refine ⟨h1, ?_, ?_⟩
  · intro f hf
    rcases h2 f hf with h | h
    · simp at h
    · exact h
  · intro h hh
    rcases h4 h hh with h' | h'
    · simp at h'
    · exact h'

theorem mem_ssNewNames (names tmp heads : List Name) (m : Name) :
    m ∈ ssNewNames names tmp heads ↔ m ∈ heads ∨ (m ∈ names ∧ m ∉ tmp) := by
  unfold ssNewNames
  simp [List.mem_append, List.mem_filter]

theorem mem_final_group (nn nl : List Name) (m : Name) :
    m ∈ nn ++ nl.filter (fun i => !(nn.contains i)) → m ∈ nn ∨ m ∈ nl := by
  intro h
  rcases List.mem_append.1 h with h | h
  · exact Or.inl h
  · exact Or.inr (List.mem_filter.1 h).1

theorem head_map_suffix (l : List Name) (a : Name) (suf : String) (h : (l.map (· ++ suf)).head? = some (a ++ suf)) :
    l.head? = some a := by
  cases l with
  | nil => simp at h
  | cons x xs =>
    simp only [List.map_cons, List.head?_cons, Option.some.injEq] at h ⊢
    exact (String.append_left_inj suf).1 h

theorem Inv.of_vars_tr {s t : State V} (h1 : t.vars = s.vars) (h2 : t.trainable = s.trainable) (h3 : t.next = s.next)
    (hi : Inv s) : Inv t := Inv.of_eq h1 h2 h3 hi

/-- core of the real call: `s1` is `s` with the merged groups removed from `same_list` -/
theorem ssReal_core (cfg : Cfg) (hc : cfg.fixSame = true) (s : State V) (hi : InvF s) (hnc : ncOK s = true)
    (names tmp heads : List Name) (hnames : ∀ n ∈ names, dhas s.vars n = true)
    (f2 : ∀ f ∈ tmp, ∃ g ∈ s.same, ∃ n, f ∈ g ∧ n ∈ g ∧ ssInVars cfg s false n = true ∧ ssHeadOf cfg s false g n ∈ heads)
    (f3 : ∀ h ∈ heads, ∃ g ∈ s.same, ∃ n, n ∈ g ∧ ssInVars cfg s false n = true ∧ h = ssHeadOf cfg s false g n)
    (s1 : State V) (hv : s1.vars = s.vars) (htr : s1.trainable = s.trainable) (hnx : s1.next = s.next) :
    Inv (sameReal s1 (ssNewNames names tmp heads) (ssNameList names tmp)) ∧
    (∀ g, GOK s g → GOK (sameReal s1 (ssNewNames names tmp heads) (ssNameList names tmp)) g) ∧
    GOK (sameReal s1 (ssNewNames names tmp heads) (ssNameList names tmp))
      (ssNewNames names tmp heads ++ (ssNameList names tmp).filter (fun i => !((ssNewNames names tmp heads).contains i))) ∧
    (∀ m, m ∈ ssNewNames names tmp heads ∨ m ∈ ssNameList names tmp → dhas s.vars m = true) ∧
    (∀ m, m ∈ ssNameList names tmp → m ∉ ssNewNames names tmp heads → ∃ h ∈ heads, dhas s.vars h = true) := by
  have hInv1 : Inv s1 := Inv.of_eq hv htr hnx hi.inv
  have hgreal : ∀ g ∈ s.same, ∀ n, n ∈ g → ssInVars cfg s false n = true → GReal s g := by
    intro g hg n hn hin
    have : dhas s.vars n = true := by simpa [ssInVars] using hin
    exact real_group_of_member s hnc g (hi.groups g hg) n hn this
  have F2 : ∀ f ∈ tmp, f ∉ heads → f ∉ s.trainable := by
    intro f hf hnh
    obtain ⟨g, hg, n, hfg, hng, hin, hhead⟩ := f2 f hf
    exact key_real cfg hc s g (hgreal g hg n hng hin) n f hfg (fun e => hnh (e ▸ hhead))
  have F1 : ∀ f ∈ ssNameList names tmp, f ∉ ssNewNames names tmp heads → f ∈ tmp ∧ f ∉ heads := by
    intro f hf hn
    rw [mem_ssNameList] at hf
    rw [mem_ssNewNames] at hn
    have h1 : f ∉ heads := fun h => hn (Or.inl h)
    rcases hf with h | h
    · by_cases ht : f ∈ tmp
      · exact ⟨ht, h1⟩
      · exact absurd (Or.inr ⟨h, ht⟩) hn
    · exact ⟨h, h1⟩
  have hfol : ∀ f ∈ ssNameList names tmp, f ∈ s1.trainable → f ∈ ssNewNames names tmp heads := by
    intro f hf ht
    rw [htr] at ht
    by_cases hn : f ∈ ssNewNames names tmp heads
    · exact hn
    · obtain ⟨a, b⟩ := F1 f hf hn
      exact absurd ht (F2 f a b)
  have hInv2 := sameReal_inv_fol s1 hInv1 (ssNewNames names tmp heads) (ssNameList names tmp) hfol
  have hdh : ∀ m, m ∈ ssNewNames names tmp heads ∨ m ∈ ssNameList names tmp → dhas s.vars m = true := by
    intro m hm
    have hcases : m ∈ heads ∨ m ∈ names ∨ m ∈ tmp := by
      rcases hm with h | h
      · rw [mem_ssNewNames] at h
        rcases h with h | h
        · exact Or.inl h
        · exact Or.inr (Or.inl h.1)
      · rw [mem_ssNameList] at h
        exact Or.inr h
    rcases hcases with h | h | h
    · obtain ⟨g, hg, n, hng, hin, e⟩ := f3 m h
      rw [e]
      exact (hgreal g hg n hng hin).1 _ (ssHeadOf_mem cfg s false g n hng)
    · exact hnames m h
    · obtain ⟨g, hg, n, hfg, hng, hin, _⟩ := f2 m h
      exact (hgreal g hg n hng hin).1 m hfg
  have hd : ∀ n, dhas (sameReal s1 (ssNewNames names tmp heads) (ssNameList names tmp)).vars n = dhas s.vars n := by
    intro n; rw [sameReal_dhas, hv]
  have ht : ∀ n, n ∈ (sameReal s1 (ssNewNames names tmp heads) (ssNameList names tmp)).trainable → n ∈ s.trainable := by
    intro n h; rw [← htr]; exact sameReal_tr_sub s1 _ _ n h
  refine ⟨hInv2, fun g hg => hg.mono hd ht, ?_, hdh, ?_⟩
  · left
    constructor
    · intro m hm
      rw [hd]
      exact hdh m (mem_final_group _ _ m hm)
    · have hone : ∀ a, a ∈ ssNewNames names tmp heads ++
            (ssNameList names tmp).filter (fun i => !((ssNewNames names tmp heads).contains i)) →
          a ∈ (sameReal s1 (ssNewNames names tmp heads) (ssNameList names tmp)).trainable →
          ((ssNewNames names tmp heads).filter (dhas s1.vars)).head? = some a := by
        intro a ha hat
        have hat' := ht a hat
        have hann : a ∈ ssNewNames names tmp heads := by
          rcases mem_final_group _ _ a ha with h | h
          · exact h
          · exact hfol a h (by rw [htr]; exact hat')
        exact sameReal_tr_head s1 hInv1.nodup _ _ a hann (by rw [hv]; exact hi.inv.sub a hat') hat
      intro a ha b hb hta htb
      have e1 := hone a ha hta
      have e2 := hone b hb htb
      rw [e1] at e2
      exact Option.some.inj e2
  · intro m hm hn
    obtain ⟨a, _⟩ := F1 m hm hn
    obtain ⟨g, hg, n, _, hng, hin, hhead⟩ := f2 m a
    exact ⟨_, hhead, (hgreal g hg n hng hin).1 _ (ssHeadOf_mem cfg s false g n hng)⟩

theorem GOK.of_eq {s t : State V} {g : List Name} (h1 : t.vars = s.vars) (h2 : t.trainable = s.trainable)
    (h : GOK s g) : GOK t g :=
  h.mono (fun n => by rw [h1]) (fun n hn => by rw [← h2]; exact hn)

/-- real ties: the patched `set_same` keeps `InvF` -/
theorem setSame_invF_real (cfg : Cfg) (hc : cfg.fixSame = true) (s : State V) (hi : InvF s) (names : List Name)
    (hok : tieOK s (.setSame names false) = true) : InvF (setSame cfg s names false).1 := by
  have hok' : ncOK s = true ∧ ∀ n ∈ names, dhas s.vars n = true := by
    simpa [tieOK, List.all_eq_true] using hok
  obtain ⟨hnc, hnames⟩ := hok'
  have facts := ss_facts cfg s names false
  revert facts
  unfold setSame
  simp only [hc, if_true]
  generalize mergeLoop (ssInVars cfg s false) (ssHeadOf cfg s false) names (s.same, [], []) = r
  intro facts
  obtain ⟨f1, f2, f3⟩ := facts
  obtain ⟨c1, c2, c3, _, _⟩ := ssReal_core cfg hc s hi hnc names r.2.1 r.2.2 hnames f2 f3
    ({ s with same := r.1 } : State V) rfl rfl rfl
  unfold ssCore
  simp only [Bool.false_eq_true, if_false]
  refine ⟨Inv.with_same _ _ c1, ?_⟩
  intro g hg
  simp only [sameReal_same] at hg
  apply GOK.of_eq (s := sameReal ({ s with same := r.1 } : State V) (ssNewNames names r.2.1 r.2.2)
    (ssNameList names r.2.1)) rfl rfl
  rcases List.mem_append.1 hg with hg | hg
  · exact c2 g (hi.groups g (f1 g hg))
  · simp only [List.mem_singleton] at hg
    subst hg
    exact c3

theorem isCplxBase_iff (s : State V) (n : Name) :
    isCplxBase s n = true ↔ dhas s.vars (n ++ "r") = true ∧ dhas s.vars (n ++ "i") = true := by
  unfold isCplxBase; simp

/-- core of the complex call (two `same_real` calls, on the `r` and on the `i` parts) -/
theorem ssCplx_core (cfg : Cfg) (hc : cfg.fixSame = true) (s : State V) (hi : InvF s) (hnc : ncOK s = true)
    (names tmp heads : List Name) (hnames : ∀ n ∈ names, isCplxBase s n = true)
    (f2 : ∀ f ∈ tmp, ∃ g ∈ s.same, ∃ n, f ∈ g ∧ n ∈ g ∧ ssInVars cfg s true n = true ∧ ssHeadOf cfg s true g n ∈ heads)
    (f3 : ∀ h ∈ heads, ∃ g ∈ s.same, ∃ n, n ∈ g ∧ ssInVars cfg s true n = true ∧ h = ssHeadOf cfg s true g n)
    (s1 : State V) (hv : s1.vars = s.vars) (htr : s1.trainable = s.trainable) (hnx : s1.next = s.next) :
    Inv (sameReal (sameReal s1 ((ssNewNames names tmp heads).map (· ++ "r")) ((ssNameList names tmp).map (· ++ "r")))
          ((ssNewNames names tmp heads).map (· ++ "i")) ((ssNameList names tmp).map (· ++ "i"))) ∧
    (∀ g, GOK s g → GOK (sameReal (sameReal s1 ((ssNewNames names tmp heads).map (· ++ "r")) ((ssNameList names tmp).map (· ++ "r")))
          ((ssNewNames names tmp heads).map (· ++ "i")) ((ssNameList names tmp).map (· ++ "i"))) g) ∧
    GOK (sameReal (sameReal s1 ((ssNewNames names tmp heads).map (· ++ "r")) ((ssNameList names tmp).map (· ++ "r")))
          ((ssNewNames names tmp heads).map (· ++ "i")) ((ssNameList names tmp).map (· ++ "i")))
      (ssNewNames names tmp heads ++ (ssNameList names tmp).filter (fun i => !((ssNewNames names tmp heads).contains i))) ∧
    (∀ m, m ∈ ssNewNames names tmp heads ∨ m ∈ ssNameList names tmp → isCplxBase s m = true) ∧
    (∀ m, m ∈ ssNameList names tmp → m ∉ ssNewNames names tmp heads → ∃ h ∈ heads, isCplxBase s h = true) := by
  have hInv1 : Inv s1 := Inv.of_eq hv htr hnx hi.inv
  have hgc : ∀ g ∈ s.same, ∀ n, n ∈ g → ssInVars cfg s true n = true → GCplx s g := by
    intro g hg n hn hin
    have : dhas s.vars (n ++ "r") = true := by simpa [ssInVars, hc] using hin
    exact cplx_group_of_member s hnc g (hi.groups g hg) n hn this
  have F2 : ∀ f ∈ tmp, f ∉ heads → ¬ trC s f := by
    intro f hf hnh
    obtain ⟨g, hg, n, hfg, hng, hin, hhead⟩ := f2 f hf
    exact key_cplx cfg hc s g (hgc g hg n hng hin) n f hfg (fun e => hnh (e ▸ hhead))
  have F1 : ∀ f ∈ ssNameList names tmp, f ∉ ssNewNames names tmp heads → f ∈ tmp ∧ f ∉ heads := by
    intro f hf hn
    rw [mem_ssNameList] at hf
    rw [mem_ssNewNames] at hn
    have h1 : f ∉ heads := fun h => hn (Or.inl h)
    rcases hf with h | h
    · by_cases ht : f ∈ tmp
      · exact ⟨ht, h1⟩
      · exact absurd (Or.inr ⟨h, ht⟩) hn
    · exact ⟨h, h1⟩
  -- a follower with a free part is one of the new names
  have hfree : ∀ f ∈ ssNameList names tmp, trC s f → f ∈ ssNewNames names tmp heads := by
    intro f hf ht
    by_cases hn : f ∈ ssNewNames names tmp heads
    · exact hn
    · obtain ⟨a, b⟩ := F1 f hf hn
      exact absurd ht (F2 f a b)
  have hfolr : ∀ x ∈ (ssNameList names tmp).map (· ++ "r"), x ∈ s1.trainable →
      x ∈ (ssNewNames names tmp heads).map (· ++ "r") := by
    intro x hx ht
    rw [htr] at ht
    obtain ⟨f, hf, rfl⟩ := List.mem_map.1 hx
    exact List.mem_map.2 ⟨f, hfree f hf (Or.inl ht), rfl⟩
  have hInv2 := sameReal_inv_fol s1 hInv1 _ _ hfolr
  have ht1 : ∀ n, n ∈ (sameReal s1 ((ssNewNames names tmp heads).map (· ++ "r"))
      ((ssNameList names tmp).map (· ++ "r"))).trainable → n ∈ s.trainable := by
    intro n h; rw [← htr]; exact sameReal_tr_sub s1 _ _ n h
  have hfoli : ∀ x ∈ (ssNameList names tmp).map (· ++ "i"),
      x ∈ (sameReal s1 ((ssNewNames names tmp heads).map (· ++ "r")) ((ssNameList names tmp).map (· ++ "r"))).trainable →
      x ∈ (ssNewNames names tmp heads).map (· ++ "i") := by
    intro x hx ht
    have ht' := ht1 x ht
    obtain ⟨f, hf, rfl⟩ := List.mem_map.1 hx
    exact List.mem_map.2 ⟨f, hfree f hf (Or.inr ht'), rfl⟩
  have hInv3 := sameReal_inv_fol _ hInv2 _ _ hfoli
  have hd1 : ∀ n, dhas (sameReal s1 ((ssNewNames names tmp heads).map (· ++ "r"))
      ((ssNameList names tmp).map (· ++ "r"))).vars n = dhas s.vars n := by
    intro n; rw [sameReal_dhas, hv]
  have hd2 : ∀ n, dhas (sameReal (sameReal s1 ((ssNewNames names tmp heads).map (· ++ "r"))
      ((ssNameList names tmp).map (· ++ "r"))) ((ssNewNames names tmp heads).map (· ++ "i"))
      ((ssNameList names tmp).map (· ++ "i"))).vars n = dhas s.vars n := by
    intro n; rw [sameReal_dhas, hd1]
  have ht2 : ∀ n, n ∈ (sameReal (sameReal s1 ((ssNewNames names tmp heads).map (· ++ "r"))
      ((ssNameList names tmp).map (· ++ "r"))) ((ssNewNames names tmp heads).map (· ++ "i"))
      ((ssNameList names tmp).map (· ++ "i"))).trainable →
      n ∈ (sameReal s1 ((ssNewNames names tmp heads).map (· ++ "r")) ((ssNameList names tmp).map (· ++ "r"))).trainable :=
    fun n h => sameReal_tr_sub _ _ _ n h
  have hty : ∀ m, m ∈ ssNewNames names tmp heads ∨ m ∈ ssNameList names tmp → isCplxBase s m = true := by
    intro m hm
    have hcases : m ∈ heads ∨ m ∈ names ∨ m ∈ tmp := by
      rcases hm with h | h
      · rw [mem_ssNewNames] at h
        rcases h with h | h
        · exact Or.inl h
        · exact Or.inr (Or.inl h.1)
      · rw [mem_ssNameList] at h
        exact Or.inr h
    rcases hcases with h | h | h
    · obtain ⟨g, hg, n, hng, hin, e⟩ := f3 m h
      rw [e]
      exact (hgc g hg n hng hin).1 _ (ssHeadOf_mem cfg s true g n hng)
    · exact hnames m h
    · obtain ⟨g, hg, n, hfg, hng, hin, _⟩ := f2 m h
      exact (hgc g hg n hng hin).1 m hfg
  refine ⟨hInv3, fun g hg => hg.mono hd2 (fun n h => ht1 n (ht2 n h)), ?_, hty, ?_⟩
  · right
    constructor
    · intro m hm
      have := (isCplxBase_iff s m).1 (hty m (mem_final_group _ _ m hm))
      rw [isCplxBase_iff, hd2, hd2]
      exact this
    · have hone : ∀ a, a ∈ ssNewNames names tmp heads ++
            (ssNameList names tmp).filter (fun i => !((ssNewNames names tmp heads).contains i)) →
          trC (sameReal (sameReal s1 ((ssNewNames names tmp heads).map (· ++ "r")) ((ssNameList names tmp).map (· ++ "r")))
            ((ssNewNames names tmp heads).map (· ++ "i")) ((ssNameList names tmp).map (· ++ "i"))) a →
          (ssNewNames names tmp heads).head? = some a := by
        intro a ha hat
        have hts : trC s a := by
          rcases hat with h | h
          · exact Or.inl (ht1 _ (ht2 _ h))
          · exact Or.inr (ht1 _ (ht2 _ h))
        have hann : a ∈ ssNewNames names tmp heads := by
          rcases mem_final_group _ _ a ha with h | h
          · exact h
          · exact hfree a h hts
        have hallr : ((ssNewNames names tmp heads).map (· ++ "r")).filter (dhas s1.vars) =
            (ssNewNames names tmp heads).map (· ++ "r") := by
          rw [List.filter_eq_self]
          intro x hx
          obtain ⟨f, hf, rfl⟩ := List.mem_map.1 hx
          rw [hv]; exact ((isCplxBase_iff s f).1 (hty f (Or.inl hf))).1
        have halli : ((ssNewNames names tmp heads).map (· ++ "i")).filter
            (dhas (sameReal s1 ((ssNewNames names tmp heads).map (· ++ "r")) ((ssNameList names tmp).map (· ++ "r"))).vars) =
            (ssNewNames names tmp heads).map (· ++ "i") := by
          rw [List.filter_eq_self]
          intro x hx
          obtain ⟨f, hf, rfl⟩ := List.mem_map.1 hx
          rw [hd1]; exact ((isCplxBase_iff s f).1 (hty f (Or.inl hf))).2
        have hab := (isCplxBase_iff s a).1 (hty a (Or.inl hann))
        rcases hat with h | h
        · have := sameReal_tr_head s1 hInv1.nodup _ ((ssNameList names tmp).map (· ++ "r")) (a ++ "r")
            (List.mem_map.2 ⟨a, hann, rfl⟩) (by rw [hv]; exact hab.1) (ht2 _ h)
          rw [hallr] at this
          exact head_map_suffix _ a "r" this
        · have := sameReal_tr_head _ hInv2.nodup _ ((ssNameList names tmp).map (· ++ "i")) (a ++ "i")
            (List.mem_map.2 ⟨a, hann, rfl⟩) (by rw [hd1]; exact hab.2) h
          rw [halli] at this
          exact head_map_suffix _ a "i" this
      intro a ha b hb hta htb
      have e1 := hone a ha hta
      have e2 := hone b hb htb
      rw [e1] at e2
      exact Option.some.inj e2
  · intro m hm hn
    obtain ⟨a, _⟩ := F1 m hm hn
    obtain ⟨g, hg, n, _, hng, hin, hhead⟩ := f2 m a
    exact ⟨_, hhead, (hgc g hg n hng hin).1 _ (ssHeadOf_mem cfg s true g n hng)⟩

/-- complex ties: the patched `set_same` keeps `InvF` -/
theorem setSame_invF_cplx (cfg : Cfg) (hc : cfg.fixSame = true) (s : State V) (hi : InvF s) (names : List Name)
    (hok : tieOK s (.setSame names true) = true) : InvF (setSame cfg s names true).1 := by
  have hok' : ncOK s = true ∧ ∀ n ∈ names, isCplxBase s n = true := by
    simpa [tieOK, List.all_eq_true] using hok
  obtain ⟨hnc, hnames⟩ := hok'
  have facts := ss_facts cfg s names true
  revert facts
  unfold setSame
  simp only [hc, if_true]
  generalize mergeLoop (ssInVars cfg s true) (ssHeadOf cfg s true) names (s.same, [], []) = r
  intro facts
  obtain ⟨f1, f2, f3⟩ := facts
  obtain ⟨c1, c2, c3, _, _⟩ := ssCplx_core cfg hc s hi hnc names r.2.1 r.2.2 hnames f2 f3
    ({ s with same := r.1 } : State V) rfl rfl rfl
  unfold ssCore
  simp only [if_true]
  refine ⟨Inv.with_same _ _ c1, ?_⟩
  intro g hg
  simp only [sameReal_same] at hg
  apply GOK.of_eq (s := sameReal (sameReal ({ s with same := r.1 } : State V)
    ((ssNewNames names r.2.1 r.2.2).map (· ++ "r")) ((ssNameList names r.2.1).map (· ++ "r")))
    ((ssNewNames names r.2.1 r.2.2).map (· ++ "i")) ((ssNameList names r.2.1).map (· ++ "i"))) rfl rfl
  rcases List.mem_append.1 hg with hg | hg
  · exact c2 g (hi.groups g (f1 g hg))
  · simp only [List.mem_singleton] at hg
    subst hg
    exact c3

theorem setSame_invF (cfg : Cfg) (hc : cfg.fixSame = true) (s : State V) (hi : InvF s) (names : List Name) (cplx : Bool)
    (hok : tieOK s (.setSame names cplx) = true) : InvF (setSame cfg s names cplx).1 := by
  cases cplx
  · exact setSame_invF_real cfg hc s hi names hok
  · exact setSame_invF_cplx cfg hc s hi names hok

/-! ### `set_same` ties everything it lists (patched tree) -/

theorem cell_isSome_of_dhas (s : State V) (n : Name) (h : dhas s.vars n = true) : (cellOf s n).isSome = true := h

theorem setSame_ties_real (cfg : Cfg) (hc : cfg.fixSame = true) (s : State V) (hi : InvF s) (names : List Name)
    (hok : tieOK s (.setSame names false) = true) :
    ∀ a ∈ (setSame cfg s names false).2, ∀ b ∈ (setSame cfg s names false).2,
      cellOf (setSame cfg s names false).1 a = cellOf (setSame cfg s names false).1 b ∧
      (cellOf (setSame cfg s names false).1 a).isSome = true := by
  have hok' : ncOK s = true ∧ ∀ n ∈ names, dhas s.vars n = true := by
    simpa [tieOK, List.all_eq_true] using hok
  obtain ⟨hnc, hnames⟩ := hok'
  have facts := ss_facts cfg s names false
  revert facts
  unfold setSame
  simp only [hc, if_true]
  generalize mergeLoop (ssInVars cfg s false) (ssHeadOf cfg s false) names (s.same, [], []) = r
  intro facts
  obtain ⟨_, f2, f3⟩ := facts
  obtain ⟨_, _, _, c4, c5⟩ := ssReal_core cfg hc s hi hnc names r.2.1 r.2.2 hnames f2 f3
    ({ s with same := r.1 } : State V) rfl rfl rfl
  unfold ssCore
  simp only [Bool.false_eq_true, if_false]
  intro a ha b hb
  have ha' := mem_final_group _ _ a ha
  have hb' := mem_final_group _ _ b hb
  have hne : ∃ n ∈ ssNewNames names r.2.1 r.2.2, dhas ({ s with same := r.1 } : State V).vars n = true := by
    rcases ha' with h | h
    · exact ⟨a, h, c4 a (Or.inl h)⟩
    · by_cases hn : a ∈ ssNewNames names r.2.1 r.2.2
      · exact ⟨a, hn, c4 a (Or.inl hn)⟩
      · obtain ⟨h', hh, hd⟩ := c5 a h hn
        exact ⟨h', (mem_ssNewNames _ _ _ _).2 (Or.inl hh), hd⟩
  have key := sameReal_ties ({ s with same := r.1 } : State V) (ssNewNames names r.2.1 r.2.2) (ssNameList names r.2.1)
    a b ha' hb' (c4 a ha') (c4 b hb') hne
  refine ⟨key, ?_⟩
  apply cell_isSome_of_dhas
  show dhas (sameReal _ _ _).vars a = true
  rw [sameReal_dhas]
  exact c4 a ha'

theorem setSame_ties_cplx (cfg : Cfg) (hc : cfg.fixSame = true) (s : State V) (hi : InvF s) (names : List Name)
    (hok : tieOK s (.setSame names true) = true) :
    ∀ a ∈ (setSame cfg s names true).2, ∀ b ∈ (setSame cfg s names true).2,
      cellOf (setSame cfg s names true).1 (a ++ "r") = cellOf (setSame cfg s names true).1 (b ++ "r") ∧
      cellOf (setSame cfg s names true).1 (a ++ "i") = cellOf (setSame cfg s names true).1 (b ++ "i") ∧
      (cellOf (setSame cfg s names true).1 (a ++ "r")).isSome = true ∧
      (cellOf (setSame cfg s names true).1 (a ++ "i")).isSome = true := by
  have hok' : ncOK s = true ∧ ∀ n ∈ names, isCplxBase s n = true := by
    simpa [tieOK, List.all_eq_true] using hok
  obtain ⟨hnc, hnames⟩ := hok'
  have facts := ss_facts cfg s names true
  revert facts
  unfold setSame
  simp only [hc, if_true]
  generalize mergeLoop (ssInVars cfg s true) (ssHeadOf cfg s true) names (s.same, [], []) = r
  intro facts
  obtain ⟨_, f2, f3⟩ := facts
  obtain ⟨_, _, _, c4, c5⟩ := ssCplx_core cfg hc s hi hnc names r.2.1 r.2.2 hnames f2 f3
    ({ s with same := r.1 } : State V) rfl rfl rfl
  unfold ssCore
  simp only [if_true]
  intro a ha b hb
  have ha' := mem_final_group _ _ a ha
  have hb' := mem_final_group _ _ b hb
  have hta := (isCplxBase_iff s a).1 (c4 a ha')
  have htb := (isCplxBase_iff s b).1 (c4 b hb')
  have hne : ∃ n ∈ ssNewNames names r.2.1 r.2.2, isCplxBase s n = true := by
    rcases ha' with h | h
    · exact ⟨a, h, c4 a (Or.inl h)⟩
    · by_cases hn : a ∈ ssNewNames names r.2.1 r.2.2
      · exact ⟨a, hn, c4 a (Or.inl hn)⟩
      · obtain ⟨h', hh, hd⟩ := c5 a h hn
        exact ⟨h', (mem_ssNewNames _ _ _ _).2 (Or.inl hh), hd⟩
  obtain ⟨n0, hn0, hn0t⟩ := hne
  have hn0' := (isCplxBase_iff s n0).1 hn0t
  have mapmem : ∀ (suf : String) (x : Name), (x ∈ ssNewNames names r.2.1 r.2.2 ∨ x ∈ ssNameList names r.2.1) →
      (x ++ suf ∈ (ssNewNames names r.2.1 r.2.2).map (· ++ suf) ∨ x ++ suf ∈ (ssNameList names r.2.1).map (· ++ suf)) := by
    intro suf x hx
    rcases hx with h | h
    · exact Or.inl (List.mem_map.2 ⟨x, h, rfl⟩)
    · exact Or.inr (List.mem_map.2 ⟨x, h, rfl⟩)
  have hd1 : ∀ n, dhas (sameReal ({ s with same := r.1 } : State V) ((ssNewNames names r.2.1 r.2.2).map (· ++ "r"))
      ((ssNameList names r.2.1).map (· ++ "r"))).vars n = dhas s.vars n := fun n => sameReal_dhas _ _ _ n
  -- the r parts after the first call
  have keyr := sameReal_ties ({ s with same := r.1 } : State V) ((ssNewNames names r.2.1 r.2.2).map (· ++ "r"))
    ((ssNameList names r.2.1).map (· ++ "r")) (a ++ "r") (b ++ "r") (mapmem "r" a ha') (mapmem "r" b hb') hta.1 htb.1
    ⟨n0 ++ "r", List.mem_map.2 ⟨n0, hn0, rfl⟩, hn0'.1⟩
  -- the second call does not touch names ending in "r"
  have other : ∀ x : Name, cellOf (sameReal (sameReal ({ s with same := r.1 } : State V)
      ((ssNewNames names r.2.1 r.2.2).map (· ++ "r")) ((ssNameList names r.2.1).map (· ++ "r")))
      ((ssNewNames names r.2.1 r.2.2).map (· ++ "i")) ((ssNameList names r.2.1).map (· ++ "i"))) (x ++ "r") =
      cellOf (sameReal ({ s with same := r.1 } : State V) ((ssNewNames names r.2.1 r.2.2).map (· ++ "r"))
      ((ssNameList names r.2.1).map (· ++ "r"))) (x ++ "r") := by
    intro x
    apply sameReal_cell_other
    · intro hm
      obtain ⟨f, _, e⟩ := List.mem_map.1 hm
      exact append_r_ne_i x f e.symm
    · intro hm
      obtain ⟨f, _, e⟩ := List.mem_map.1 hm
      exact append_r_ne_i x f e.symm
  have keyi := sameReal_ties (sameReal ({ s with same := r.1 } : State V) ((ssNewNames names r.2.1 r.2.2).map (· ++ "r"))
      ((ssNameList names r.2.1).map (· ++ "r"))) ((ssNewNames names r.2.1 r.2.2).map (· ++ "i"))
    ((ssNameList names r.2.1).map (· ++ "i")) (a ++ "i") (b ++ "i") (mapmem "i" a ha') (mapmem "i" b hb')
    (by rw [hd1]; exact hta.2) (by rw [hd1]; exact htb.2)
    ⟨n0 ++ "i", List.mem_map.2 ⟨n0, hn0, rfl⟩, by rw [hd1]; exact hn0'.2⟩
  refine ⟨?_, keyi, ?_, ?_⟩
  · show cellOf (sameReal _ _ _) (a ++ "r") = cellOf (sameReal _ _ _) (b ++ "r")
    rw [other a, other b]; exact keyr
  · apply cell_isSome_of_dhas
    show dhas (sameReal _ _ _).vars (a ++ "r") = true
    rw [sameReal_dhas, hd1]; exact hta.1
  · apply cell_isSome_of_dhas
    show dhas (sameReal _ _ _).vars (a ++ "i") = true
    rw [sameReal_dhas, hd1]; exact hta.2

/-! ### whole histories on the patched tree -/

theorem ncOK_of_vars {s t : State V} (h : t.vars = s.vars) : ncOK t = ncOK s := by
  unfold ncOK; rw [h]

theorem setShareR_invF (A : Arith V) (cfg : Cfg) (hc : cfg.fixSame = true) (s : State V) (hi : InvF s)
    (names : List Name) (hok : tieOK s (.setShareR names) = true) : InvF (step A cfg s (.setShareR names)).1 := by
  have hok' : ncOK s = true ∧ ∀ n ∈ names, isCplxBase s n = true := by
    simpa [tieOK, List.all_eq_true] using hok
  obtain ⟨hnc, hnames⟩ := hok'
  simp only [step]
  have hx := forNames_skel (xy2rp A) (xy2rp_skel A) s (if names.isEmpty then dkeys s.cplx else names)
  revert hx
  cases forNames (xy2rp A) s (if names.isEmpty then dkeys s.cplx else names) with
  | mk s1 ok =>
    intro hx
    have h1 : InvF s1 := InvF.of_skel hx hi
    have hv1 : s1.vars = s.vars := ((skel_eq_iff s1 s).1 hx).1
    cases ok
    · exact h1
    · simp only
      have h2 : InvF ({ s1 with polar := true } : State V) := InvF.of_skel (s := s1) rfl h1
      have hok2 : tieOK ({ s1 with polar := true } : State V) (.setSame (names.map (· ++ "r")) false) = true := by
        have e : ncOK ({ s1 with polar := true } : State V) = true := by
          rw [ncOK_of_vars (s := s) (t := ({ s1 with polar := true } : State V)) hv1]; exact hnc
        simp only [tieOK, e, Bool.true_and, List.all_eq_true, Bool.false_eq_true, if_false]
        intro x hx'
        obtain ⟨f, hf, rfl⟩ := List.mem_map.1 hx'
        show dhas s1.vars (f ++ "r") = true
        rw [hv1]
        exact ((isCplxBase_iff s f).1 (hnames f hf)).1
      exact InvF.of_skel (s := (setSame cfg { s1 with polar := true } (names.map (· ++ "r")) false).1) rfl
        (setSame_invF cfg hc _ h2 _ false hok2)

theorem setFix_same (A : Arith V) (s : State V) (name : Name) (val : Option V) (unfix : Bool) :
    (setFix A s name val unfix).1.same = s.same := by
  unfold setFix; split <;> rfl

/-- one call in phase order keeps the invariant of the patched tree -/
theorem step_invF (A : Arith V) (cfg : Cfg) (hc : cfg.fixSame = true) (s : State V) (op : Op V) (p p' : Nat)
    (hp : nextPhase p op = some p') (hn : tieOK s op = true) (hi : InvF s) (hj : p ≤ 1 → Inj s ∧ s.same = []) :
    InvF (step A cfg s op).1 ∧ (p' ≤ 1 → Inj (step A cfg s op).1 ∧ (step A cfg s op).1.same = []) := by
  by_cases hs : structural op = false
  · have hk := step_skel A cfg s op hs
    refine ⟨InvF.of_skel hk hi, ?_⟩
    intro hp'
    have : 3 ≤ p' := by
      cases op <;> simp only [structural, Bool.true_eq_false] at hs <;> simp only [nextPhase] at hp <;>
        (injection hp with hp; omega)
    omega
  · cases op <;> simp only [structural, Bool.true_eq_false, not_true_eq_false, not_false_eq_true] at hs
    case addReal name val hasInit tr =>
      simp only [nextPhase] at hp
      split at hp
      · next h0 =>
        obtain ⟨hinj, hsame⟩ := hj (by omega)
        have := addRealVar_inv s hi.inv hinj name val hasInit tr
        have hs' : (step A cfg s (.addReal name val hasInit tr)).1.same = [] := hsame
        exact ⟨⟨this.1, fun g hg => by rw [hs'] at hg; simp at hg⟩, fun _ => ⟨this.2, hs'⟩⟩
      · exact absurd hp (by simp)
    case addComplex name pol tr v1 v2 =>
      simp only [nextPhase] at hp
      split at hp
      · next h0 =>
        obtain ⟨hinj, hsame⟩ := hj (by omega)
        have := addComplexVar_inv s hi.inv hinj name pol tr v1 v2
        have hs' : (step A cfg s (.addComplex name pol tr v1 v2)).1.same = [] := hsame
        exact ⟨⟨this.1, fun g hg => by rw [hs'] at hg; simp at hg⟩, fun _ => ⟨this.2, hs'⟩⟩
      · exact absurd hp (by simp)
    case setFix name val unfix =>
      simp only [nextPhase] at hp
      split at hp
      · next h0 =>
        obtain ⟨hinj, hsame⟩ := hj h0
        have := setFix_inv A s hi.inv hinj name val unfix
        have hs' : (step A cfg s (.setFix name val unfix)).1.same = [] := by
          simp only [step]; rw [setFix_same]; exact hsame
        exact ⟨⟨this.1, fun g hg => by rw [hs'] at hg; simp at hg⟩, fun _ => ⟨this.2, hs'⟩⟩
      · exact absurd hp (by simp)
    case setSame names cplx =>
      simp only [nextPhase] at hp
      split at hp
      · injection hp with hp
        exact ⟨setSame_invF cfg hc s hi names cplx hn, fun h => by omega⟩
      · exact absurd hp (by simp)
    case setShareR names =>
      simp only [nextPhase] at hp
      split at hp
      · injection hp with hp
        exact ⟨setShareR_invF A cfg hc s hi names hn, fun h => by omega⟩
      · exact absurd hp (by simp)

theorem run_invF (A : Arith V) (cfg : Cfg) (hc : cfg.fixSame = true) (ops : List (Op V)) :
    ∀ (p : Nat) (s : State V), wellPhasedFrom p ops = true → wellNamedFrom A cfg s ops = true → InvF s →
      (p ≤ 1 → Inj s ∧ s.same = []) → InvF (run A cfg s ops) := by
  induction ops with
  | nil => intro p s _ _ hi _; exact hi
  | cons op ops ih =>
    intro p s hw hn hi hj
    simp only [wellPhasedFrom] at hw
    simp only [wellNamedFrom, Bool.and_eq_true] at hn
    simp only [run]
    cases hp : nextPhase p op with
    | none => rw [hp] at hw; exact absurd hw (by simp)
    | some p' =>
      rw [hp] at hw
      obtain ⟨h1, h2⟩ := step_invF A cfg hc s op p p' hp hn.1 hi hj
      exact ih p' _ hw hn.2 h1 h2

theorem empty_invF (d : V) (pol : Bool) : InvF (State.empty d pol) :=
  ⟨(empty_inv d pol).1, fun g hg => by simp [State.empty] at hg⟩

end TfPwaV.Vars
