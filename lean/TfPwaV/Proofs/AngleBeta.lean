import TfPwaV.Proofs.Angle
/-!
The polar helicity angle returned by `EulerAngle.angle_zx_z_getx` (model `AngleR.angleZxZGetx`), for ANY reference
x-axis: away from the code's degenerate branches (`|z × w| ≥ ε`, `|z| ≥ ε`)

  `cos β = z·w / (|z| |w|)`.

Used by `Props/C04b.lean` to identify the helicity angle computed by `cal_angle` with the boost-defined angle of the
closed form of C04.
-/
open TfPwaV.ScalarR
namespace TfPwaV.AngleR
open TfPwaV.KinR

theorem norm_sq (a : V3) : a.norm * a.norm = a.norm2 := by
  unfold V3.norm ksqrt
  exact Real.mul_self_sqrt (by unfold V3.norm2; nlinarith [mul_self_nonneg a.x, mul_self_nonneg a.y, mul_self_nonneg a.z])

theorem norm_nonneg' (a : V3) : 0 ≤ a.norm := by unfold V3.norm ksqrt; exact Real.sqrt_nonneg _

/-- `cross_unit` outside the degenerate branch is the normalised cross product -/
theorem crossUnit_regular (a b : V3) (h : eps ≤ (a.cross b).norm) : crossUnit a b = (a.cross b).unit := by
  unfold crossUnit
  simp only [if_neg (not_lt.mpr h)]

/-- `cos (atan2 y x) = x` on the unit circle -/
theorem cos_atan2_unit (x y : ℝ) (h : x * x + y * y = 1) : kcos (katan2 y x) = x := by
  unfold kcos katan2
  have hne : (⟨x, y⟩ : ℂ) ≠ 0 := by
    intro h0
    have hx : x = 0 := by simpa using congrArg Complex.re h0
    have hy : y = 0 := by simpa using congrArg Complex.im h0
    rw [hx, hy] at h; norm_num at h
  rw [Complex.cos_arg hne]
  have hn : ‖(⟨x, y⟩ : ℂ)‖ = 1 := by
    rw [Complex.norm_def, Complex.normSq_mk, h, Real.sqrt_one]
  rw [hn]; simp

theorem unit_eq_smul (a : V3) : a.unit = V3.smul (1 / a.norm) a := by
  unfold V3.unit V3.smul
  ext <;> simp <;> ring

theorem norm2_smul (c : ℝ) (a : V3) : (V3.smul c a).norm2 = c * c * a.norm2 := by
  simp [V3.smul, V3.norm2]; ring

theorem cross_dot_left (a b : V3) : (a.cross b).dot a = 0 := by
  simp [V3.cross, V3.dot]; ring

/-- scalar triple product: `w · ((z × w) × z) = |z × w|²` -/
theorem triple (z w : V3) : w.dot ((z.cross w).cross z) = (z.cross w).norm2 := by
  simp [V3.cross, V3.dot, V3.norm2]; ring

/-- the polar angle of `angle_zx_z_getx(z, x, w)`: `cos β = ẑ·ŵ`, whatever the reference axis `x` -/
theorem beta_cos (z x w : V3) (hs : eps ≤ (z.cross w).norm) (hz : eps ≤ z.norm) :
    kcos (angleZxZGetx z x w).beta = z.dot w / (z.norm * w.norm) := by
  have he := eps_pos
  set c := z.cross w with hc
  set s := c.norm with hsdef
  set nz := z.norm with hnz
  set nw := w.norm with hnw
  have hs0 : 0 < s := lt_of_lt_of_le he hs
  have hz0 : 0 < nz := lt_of_lt_of_le he hz
  have hcc : s * s = c.norm2 := norm_sq c
  have hss : s * s = z.norm2 * w.norm2 - (z.dot w) ^ 2 := by rw [hcc, hc, norm2_cross]
  have hzz : nz * nz = z.norm2 := norm_sq z
  have hww : nw * nw = w.norm2 := norm_sq w
  have hw0 : 0 < nw := by
    have h1 : 0 ≤ nw := norm_nonneg' w
    rcases h1.lt_or_eq with h | h
    · exact h
    · exfalso
      have : w.norm2 = 0 := by rw [← hww, ← h]; ring
      have : s * s = -(z.dot w) ^ 2 := by rw [hss, this]; ring
      nlinarith [mul_pos hs0 hs0, sq_nonneg (z.dot w)]
  have huyr : crossUnit z w = V3.smul (1 / s) c := by
    rw [crossUnit_regular z w hs, unit_eq_smul]
  -- |uyr × z| = |z|
  have hcro : (V3.smul (1 / s) c).cross z = V3.smul (1 / s) (c.cross z) := cross_smul_left _ _ _
  have hcz : c.dot z = 0 := cross_dot_left z w
  have hn2 : ((V3.smul (1 / s) c).cross z).norm = nz := by
    unfold V3.norm ksqrt
    have : ((V3.smul (1 / s) c).cross z).norm2 = nz * nz := by
      rw [hcro, norm2_smul, norm2_cross, hcz, ← hcc, ← hzz]
      field_simp
      ring
    rw [this, Real.sqrt_mul_self hz0.le]
  have huxr : crossUnit (crossUnit z w) z = V3.smul (1 / nz) (V3.smul (1 / s) (c.cross z)) := by
    rw [huyr, crossUnit_regular _ _ (by rw [hn2]; exact hz), unit_eq_smul, hn2, hcro]
  unfold angleZxZGetx angleFrom
  simp only
  rw [huxr, unit_eq_smul w, unit_eq_smul z, ← hnz, ← hnw]
  have hx : (V3.smul (1 / nw) w).dot (V3.smul (1 / nz) z) = z.dot w / (nz * nw) := by
    rw [dot_smul_left, dot_smul_right, dot_comm w z]; field_simp
  have hy : (V3.smul (1 / nw) w).dot (V3.smul (1 / nz) (V3.smul (1 / s) (c.cross z))) = s / (nz * nw) := by
    rw [dot_smul_left, dot_smul_right, dot_smul_right, hc, triple, ← hc, ← hcc]; field_simp
  rw [hx, hy]
  apply cos_atan2_unit
  have h1 : z.dot w ^ 2 + s * s = nz * nz * (nw * nw) := by rw [hss, hzz, hww]; ring
  field_simp
  nlinarith [h1]

end TfPwaV.AngleR
