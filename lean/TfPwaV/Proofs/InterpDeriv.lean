import TfPwaV.Proofs.Interp
import Mathlib.Analysis.Calculus.Deriv.Mul
import Mathlib.Analysis.Calculus.Deriv.Add
/-! `LinearInterp.integral` is an antiderivative of `LinearInterp.__call__` away from the interior nodes (C20). -/
open TfPwaV.ScalarR
namespace TfPwaV.InterpR

theorem prim_hasDerivAt (s : Seg) (t : ℝ) : HasDerivAt s.prim (s.k * t + s.b) t := by
  have h1 : HasDerivAt (fun t : ℝ => t * t - s.xb * s.xb) (1 * t + t * 1) t :=
    ((hasDerivAt_id t).mul (hasDerivAt_id t)).sub_const _
  have h2 : HasDerivAt (fun t : ℝ => t - s.xb) 1 t := (hasDerivAt_id t).sub_const _
  have h3 := (h1.const_mul (0.5 * s.k)).add (h2.const_mul s.b)
  have e : (0.5 * s.k * (1 * t + t * 1) + s.b * 1) = s.k * t + s.b := by ring
  rw [e] at h3
  exact h3

theorem integralAux_hasDerivAt : ∀ (segs : List Seg) (c t : ℝ), (∀ s ∈ segs.dropLast, t ≠ s.xb) →
    HasDerivAt (fun t' => integralAux segs c t') (callAux segs t) t := by
  intro segs
  induction segs with
  | nil => intro c t _; simp only [integralAux, callAux]; exact hasDerivAt_const _ _
  | cons s rest ih =>
    intro c t hne
    cases rest with
    | nil =>
      simp only [integralAux, callAux]
      exact (prim_hasDerivAt s t).add_const _
    | cons s' r =>
      have hs : t ≠ s.xb := hne s (by simp [List.dropLast])
      have hrest : ∀ x ∈ (s' :: r).dropLast, t ≠ x.xb := by
        intro x hx; apply hne x; simp only [List.dropLast_cons_cons]; exact List.mem_cons_of_mem _ hx
      rcases lt_or_gt_of_ne hs with hlt | hgt
      · have hev : (fun t' => integralAux (s :: s' :: r) c t') =ᶠ[nhds t] fun t' => s.prim t' + (c + s.m) := by
          filter_upwards [Iio_mem_nhds hlt] with t' ht'
          have ht'' : t' < s.xb := ht'
          simp only [integralAux]; rw [if_pos ht'']
        have hc : callAux (s :: s' :: r) t = s.k * t + s.b := by simp only [callAux]; rw [if_pos hlt]
        rw [hc]
        exact ((prim_hasDerivAt s t).add_const _).congr_of_eventuallyEq hev
      · have hev : (fun t' => integralAux (s :: s' :: r) c t') =ᶠ[nhds t]
            fun t' => integralAux (s' :: r) (c + s.m) t' := by
          filter_upwards [Ioi_mem_nhds hgt] with t' ht'
          have ht'' : s.xb < t' := ht'
          simp only [integralAux]; rw [if_neg (not_lt.mpr (le_of_lt ht''))]
        have hc : callAux (s :: s' :: r) t = callAux (s' :: r) t := by
          simp only [callAux]; rw [if_neg (not_lt.mpr (le_of_lt hgt))]
        rw [hc]
        exact (ih (c + s.m) t hrest).congr_of_eventuallyEq hev

/-- `integral` is continuous across a shared bin edge: both one-sided formulas give the cumulative mass -/
theorem integral_edge (s s' : Seg) (c : ℝ) (h' : s'.WF) :
    s.prim s.xb + (c + s.m) = s'.prim s'.xa + (c + s.m + s'.m) := by
  unfold Seg.prim; rw [h'.mass]; ring

end TfPwaV.InterpR
