import TfPwaV.Model.Data
/-!
Helper definitions and lemmas for C18 (core Lean only).

`tab n g` is the list `[g 0, …, g (n-1)]`; the central facts are
* `gen_eq`     : the generator model yields `tab (slen b d) (fun j => mapLeaves (win b j) d)`,
* `merge1_map` : `data_merge` of trees that differ only in their leaves concatenates leaf-wise,
* `flatten_win`: the windows `[j*b, (j+1)*b)` of a list concatenate to a prefix.
-/
namespace TfPwaV.Data

variable {α β : Type}

def tab (n : Nat) (g : Nat → β) : List β := (List.range n).map g

/-- the j-th batch of one leaf: `dat[j*b : min(j*b+b, n)]` -/
def win (b j : Nat) (rows : List α) : List α :=
  (rows.take (min (j * b + b) rows.length)).drop (j * b)

theorem tab_succ (n : Nat) (g : Nat → β) : tab (n + 1) g = g 0 :: tab n (fun j => g (j + 1)) := by
  simp [tab, List.range_succ_eq_map, List.map_map, Function.comp_def]

theorem tab_succ_last (n : Nat) (g : Nat → β) : tab (n + 1) g = tab n g ++ [g n] := by
  simp [tab, List.range_succ]

theorem tab_const (n : Nat) (x : β) : tab n (fun _ => x) = List.replicate n x := by
  apply List.ext_getElem <;> simp [tab]

theorem tab_length (n : Nat) (g : Nat → β) : (tab n g).length = n := by simp [tab]

theorem tab_getElem? (n : Nat) (g : Nat → β) (j : Nat) (h : j < n) : (tab n g)[j]? = some (g j) := by
  simp [tab, h]

theorem tab_map {γ : Type} (n : Nat) (g : Nat → β) (f : β → γ) : (tab n g).map f = tab n (fun j => f (g j)) := by
  simp [tab, List.map_map, Function.comp_def]

theorem zipWith_cons_tab (f : Nat → β) (g : Nat → List β) (n m : Nat) :
    List.zipWith List.cons (tab n f) (tab m g) = tab (min n m) (fun j => f j :: g j) := by
  apply List.ext_getElem
  · simp [tab]
  · intro i h1 h2
    simp [tab]

theorem chunks_eq (b : Nat) (rows : List α) : chunks b rows = tab (nChunks b rows.length) (fun j => win b j rows) := rfl

-- stream length ------------------------------------------------------------------------------

mutual
/-- number of batches yielded by `_gen` (unfixed code) -/
def slen (b : Nat) : D α → Nat
  | .leaf r => nChunks b r.length
  | .node k ch => if ch.isEmpty then (if k = .tuple then 0 else MAX_ITER) else slenCh b ch
def slenCh (b : Nat) : List (String × D α) → Nat
  | [] => 0
  | (_, v) :: rest => if rest.isEmpty then slen b v else min (slen b v) (slenCh b rest)
end

theorem zip_keys_map (f : List α → List β) (ch : List (String × D α)) :
    (ch.map (·.1)).zip (ch.map fun p => mapLeaves f p.2) = mapLeavesCh f ch := by
  induction ch with
  | nil => simp [mapLeavesCh]
  | cons p rest ih =>
    obtain ⟨k, v⟩ := p
    simp [mapLeavesCh, ih]

theorem zipAll_tab (ch : List (String × D α)) (b : Nat) :
    zipAll (ch.map fun p => tab (slen b p.2) (fun j => mapLeaves (win b j) p.2)) =
      tab (slenCh b ch) (fun j => ch.map fun p => mapLeaves (win b j) p.2) := by
  induction ch with
  | nil => simp [zipAll, slenCh, tab]
  | cons p rest ih =>
    obtain ⟨k, v⟩ := p
    cases rest with
    | nil => simp [zipAll, slenCh, tab_map]
    | cons q rest' =>
      simp only [List.map_cons] at ih ⊢
      rw [zipAll]
      rw [ih, zipWith_cons_tab]
      simp [slenCh]

mutual
theorem gen_eq (b : Nat) : (d : D α) → gen b d = tab (slen b d) (fun j => mapLeaves (win b j) d)
  | .leaf rows => by
    simp [gen, slen, chunks_eq, tab_map, mapLeaves]
  | .node k ch => by
    have ih := genCh_eq b ch
    cases ch with
    | nil =>
      cases k <;> simp [gen, genCh, slen, zipAll, mapLeaves, mapLeavesCh, tab_const]
    | cons p rest =>
      rw [gen, ih, zipAll_tab]
      simp only [slen, tab_map, mapLeaves, zip_keys_map]
      simp
theorem genCh_eq (b : Nat) : (ch : List (String × D α)) →
    genCh b ch = ch.map fun p => tab (slen b p.2) (fun j => mapLeaves (win b j) p.2)
  | [] => by simp [genCh]
  | (k, v) :: rest => by
    simp [genCh, gen_eq b v, genCh_eq b rest]
end

-- well-formedness: a Python dict has no repeated key ------------------------------------------

mutual
def WF : D α → Prop
  | .leaf _ => True
  | .node k ch => (k = .dict → (ch.map (·.1)).Nodup) ∧ WFCh ch
def WFCh : List (String × D α) → Prop
  | [] => True
  | (_, v) :: rest => WF v ∧ WFCh rest
end

theorem mapLeavesCh_eq_map (f : List α → List β) (ch : List (String × D α)) :
    mapLeavesCh f ch = ch.map fun p => (p.1, mapLeaves f p.2) := by
  induction ch with
  | nil => simp [mapLeavesCh]
  | cons p rest ih => obtain ⟨k, v⟩ := p; simp [mapLeavesCh, ih]

theorem lookup_mapLeavesCh (f : List α → List β) (k : String) (v : D α) :
    (ch : List (String × D α)) → (k, v) ∈ ch → (ch.map (·.1)).Nodup →
    lookup k (mapLeavesCh f ch) = some (mapLeaves f v)
  | [], h, _ => by simp at h
  | (k', v') :: rest, h, hnd => by
    simp only [List.map_cons, List.nodup_cons] at hnd
    simp only [mapLeavesCh, lookup]
    by_cases hk : k' = k
    · subst hk
      simp only [if_true]
      rcases List.mem_cons.mp h with h | h
      · cases h; rfl
      · exact absurd (List.mem_map.mpr ⟨(k', v), h, rfl⟩) hnd.1
    · simp only [hk, if_false]
      rcases List.mem_cons.mp h with h | h
      · cases h; exact absurd rfl hk
      · exact lookup_mapLeavesCh f k v rest h hnd.2

theorem filterMap_map_some {γ δ ε : Type} (fs : List γ) (g : γ → δ) (h : δ → Option ε) (t : γ → ε)
    (H : ∀ f, h (g f) = some (t f)) : (fs.map g).filterMap h = fs.map t := by
  induction fs with
  | nil => rfl
  | cons f fs ih => simp [H, ih]

theorem mapM_map_some {γ δ ε : Type} (fs : List γ) (g : γ → δ) (h : δ → Option ε) (t : γ → ε)
    (H : ∀ f, h (g f) = some (t f)) : (fs.map g).mapM h = some (fs.map t) := by
  induction fs with
  | nil => rfl
  | cons f fs ih => simp [List.mapM_cons, H, ih]

/-- leaf-wise concatenation of a family of leaf functions -/
def catF (f0 : List α → List β) (fs : List (List α → List β)) : List α → List β :=
  fun r => f0 r ++ (fs.map (· r)).flatten

theorem mergeL_map (f0 : List α → List β) (fs : List (List α → List β))
    (ih : ∀ p ∈ xs, merge1 (mapLeaves f0 p.2) (fs.map fun f => mapLeaves f p.2) = some (mapLeaves (catF f0 fs) p.2)) :
    mergeL (mapLeavesCh f0 xs) (fs.map fun f => mapLeavesCh f xs) = some (mapLeavesCh (catF f0 fs) xs) := by
  induction xs with
  | nil => simp [mapLeavesCh, mergeL]
  | cons p rest ihr =>
    obtain ⟨k, x⟩ := p
    have h1 : (fs.map fun f => mapLeavesCh f ((k, x) :: rest)).all (fun c => !c.isEmpty) = true := by
      simp [mapLeavesCh]
    have h2 : (fs.map fun f => mapLeavesCh f ((k, x) :: rest)).filterMap (fun c => c.head?.map (·.2)) =
        fs.map fun f => mapLeaves f x :=
      filterMap_map_some fs _ _ _ (by intro f; simp [mapLeavesCh])
    have h3 : (fs.map fun f => mapLeavesCh f ((k, x) :: rest)).map List.tail = fs.map fun f => mapLeavesCh f rest := by
      simp [List.map_map, Function.comp_def, mapLeavesCh]
    rw [show mapLeavesCh f0 ((k, x) :: rest) = (k, mapLeaves f0 x) :: mapLeavesCh f0 rest from by simp [mapLeavesCh]]
    rw [mergeL, h1, h2, h3]
    simp only [if_true]
    rw [ih (k, x) (List.mem_cons_self), ihr (fun p hp => ih p (List.mem_cons_of_mem _ hp))]
    simp [mapLeavesCh]

theorem mergeKV_map (f0 : List α → List β) (fs : List (List α → List β)) (ch : List (String × D α))
    (hnd : (ch.map (·.1)).Nodup) :
    (kv : List (String × D α)) → (∀ p ∈ kv, p ∈ ch) →
    (∀ p ∈ kv, merge1 (mapLeaves f0 p.2) (fs.map fun f => mapLeaves f p.2) = some (mapLeaves (catF f0 fs) p.2)) →
    mergeKV (mapLeavesCh f0 kv) (fs.map fun f => mapLeavesCh f ch) = some (mapLeavesCh (catF f0 fs) kv)
  | [], _, _ => by simp [mapLeavesCh, mergeKV]
  | (k, v) :: rest, hsub, ih => by
    have hmem : (k, v) ∈ ch := hsub _ List.mem_cons_self
    have h1 : (fs.map fun f => mapLeavesCh f ch).all (fun c => (lookup k c).isSome) = true := by
      simp only [List.all_map, List.all_eq_true]
      intro f _
      simp [lookup_mapLeavesCh f k v ch hmem hnd]
    have h2 : (fs.map fun f => mapLeavesCh f ch).filterMap (lookup k) = fs.map fun f => mapLeaves f v :=
      filterMap_map_some fs _ _ _ (fun f => lookup_mapLeavesCh f k v ch hmem hnd)
    rw [show mapLeavesCh f0 ((k, v) :: rest) = (k, mapLeaves f0 v) :: mapLeavesCh f0 rest from by simp [mapLeavesCh]]
    rw [mergeKV, h1, h2]
    simp only [if_true]
    rw [ih (k, v) List.mem_cons_self,
      mergeKV_map f0 fs ch hnd rest (fun p hp => hsub p (List.mem_cons_of_mem _ hp))
        (fun p hp => ih p (List.mem_cons_of_mem _ hp))]
    simp [mapLeavesCh]

mutual
/-- `data_merge` of trees that differ only in their leaves concatenates leaf by leaf. -/
theorem merge1_map (f0 : List α → List β) (fs : List (List α → List β)) :
    (d : D α) → WF d →
    merge1 (mapLeaves f0 d) (fs.map fun f => mapLeaves f d) = some (mapLeaves (catF f0 fs) d)
  | .leaf r, _ => by
    simp only [mapLeaves, merge1]
    rw [mapM_map_some fs (fun f => D.leaf (f r)) asLeaf (fun f => f r) (by intro f; rfl)]
    simp [catF]
  | .node k ch, hwf => by
    have hwf' : (k = .dict → (ch.map (·.1)).Nodup) ∧ WFCh ch := by simpa [WF] using hwf
    have ihc := merge1_mapCh f0 fs ch hwf'.2
    simp only [mapLeaves, merge1]
    rw [mapM_map_some fs (fun f => D.node k (mapLeavesCh f ch)) (asNode k) (fun f => mapLeavesCh f ch)
      (by intro f; simp [asNode])]
    cases k with
    | dict =>
      simp only []
      rw [mergeKV_map f0 fs ch (hwf'.1 rfl) ch (fun p hp => hp) ihc]
      rfl
    | list => simp only []; rw [mergeL_map f0 fs ihc]; rfl
    | tuple => simp only []; rw [mergeL_map f0 fs ihc]; rfl
theorem merge1_mapCh (f0 : List α → List β) (fs : List (List α → List β)) :
    (ch : List (String × D α)) → WFCh ch →
    ∀ p ∈ ch, merge1 (mapLeaves f0 p.2) (fs.map fun f => mapLeaves f p.2) = some (mapLeaves (catF f0 fs) p.2)
  | [], _ => by simp
  | (k, v) :: rest, hwf => by
    have hwf' : WF v ∧ WFCh rest := by simpa [WFCh] using hwf
    intro p hp
    rcases List.mem_cons.mp hp with h | h
    · subst h; exact merge1_map f0 fs v hwf'.1
    · exact merge1_mapCh f0 fs rest hwf'.2 p h
end

-- windows concatenate to a prefix ---------------------------------------------------------------

theorem win_eq (b j : Nat) (r : List α) : win b j r = (r.take (j * b + b)).drop (j * b) := by
  unfold win
  congr 1
  by_cases h : j * b + b ≤ r.length
  · rw [Nat.min_eq_left h]
  · rw [Nat.min_eq_right (by omega), List.take_of_length_le (Nat.le_refl _), List.take_of_length_le (by omega)]

theorem flatten_win (b : Nat) (r : List α) : (m : Nat) → (tab m (fun j => win b j r)).flatten = r.take (m * b)
  | 0 => by simp [tab]
  | m + 1 => by
    rw [tab_succ_last, List.flatten_append, flatten_win b r m, win_eq]
    simp only [List.flatten_cons, List.flatten_nil, List.append_nil]
    have h : (m + 1) * b = m * b + b := by rw [Nat.add_mul, Nat.one_mul]
    rw [h]
    have h2 : List.take (m * b) r = List.take (m * b) (List.take (m * b + b) r) := by
      rw [List.take_take]; congr 1; omega
    rw [h2, List.take_append_drop]

theorem win_length (b j : Nat) (r : List α) : (win b j r).length = min b (r.length - j * b) := by
  rw [win_eq]; simp; omega

theorem mapLeaves_congr (f g : List α → List β) (h : ∀ r, f r = g r) (d : D α) : mapLeaves f d = mapLeaves g d := by
  have : f = g := funext h
  rw [this]

/-- `data_merge` of the first `m` windows of `e` is `e` cut after `m*b` rows -/
theorem merge_tab (b m : Nat) (e : D α) (hwf : WF e) (hm : 0 < m) :
    merge (tab m (fun j => mapLeaves (win b j) e)) = some (mapLeaves (List.take (m * b)) e) := by
  obtain ⟨m', rfl⟩ : ∃ m', m = m' + 1 := ⟨m - 1, by omega⟩
  rw [tab_succ, merge]
  have : tab m' (fun j => mapLeaves (win b (j + 1)) e) =
      ((tab m' (fun j => win b (j + 1))).map fun f => mapLeaves f e) := by
    simp [tab, List.map_map, Function.comp_def]
  rw [this, merge1_map _ _ e hwf]
  congr 1
  apply mapLeaves_congr
  intro r
  rw [← flatten_win b r (m' + 1), tab_succ]
  simp [catF, tab, List.map_map, Function.comp_def]

-- uniform trees -----------------------------------------------------------------------------------

mutual
theorem mapLeaves_id_of (f : List α → List α) (n : Nat) (hf : ∀ r : List α, r.length = n → f r = r) :
    (d : D α) → uniform n d = true → mapLeaves f d = d
  | .leaf r, h => by
    simp only [uniform, beq_iff_eq] at h
    simp [mapLeaves, hf r h]
  | .node k ch, h => by
    simp only [uniform] at h
    simp [mapLeaves, mapLeavesCh_id_of f n hf ch h]
theorem mapLeavesCh_id_of (f : List α → List α) (n : Nat) (hf : ∀ r : List α, r.length = n → f r = r) :
    (ch : List (String × D α)) → uniformCh n ch = true → mapLeavesCh f ch = ch
  | [], _ => by simp [mapLeavesCh]
  | (k, v) :: rest, h => by
    simp only [uniformCh, Bool.and_eq_true] at h
    simp [mapLeavesCh, mapLeaves_id_of f n hf v h.1, mapLeavesCh_id_of f n hf rest h.2]
end

mutual
theorem uniform_mapLeaves (f : List α → List β) (n m : Nat) (hf : ∀ r : List α, r.length = n → (f r).length = m) :
    (d : D α) → uniform n d = true → uniform m (mapLeaves f d) = true
  | .leaf r, h => by
    simp only [uniform, beq_iff_eq] at h
    simp [mapLeaves, uniform, hf r h]
  | .node k ch, h => by
    simp only [uniform] at h
    simp [mapLeaves, uniform, uniformCh_mapLeaves f n m hf ch h]
theorem uniformCh_mapLeaves (f : List α → List β) (n m : Nat) (hf : ∀ r : List α, r.length = n → (f r).length = m) :
    (ch : List (String × D α)) → uniformCh n ch = true → uniformCh m (mapLeavesCh f ch) = true
  | [], _ => by simp [mapLeavesCh, uniformCh]
  | (k, v) :: rest, h => by
    simp only [uniformCh, Bool.and_eq_true] at h
    simp [mapLeavesCh, uniformCh, uniform_mapLeaves f n m hf v h.1, uniformCh_mapLeaves f n m hf rest h.2]
end

mutual
theorem WF_mapLeaves (f : List α → List β) : (d : D α) → WF d → WF (mapLeaves f d)
  | .leaf r, _ => by simp [mapLeaves, WF]
  | .node k ch, h => by
    have h' : (k = .dict → (ch.map (·.1)).Nodup) ∧ WFCh ch := by simpa [WF] using h
    simp only [mapLeaves, WF]
    refine ⟨?_, WFCh_mapLeaves f ch h'.2⟩
    intro hk
    have := h'.1 hk
    rw [mapLeavesCh_eq_map]
    simpa [List.map_map, Function.comp_def] using this
theorem WFCh_mapLeaves (f : List α → List β) : (ch : List (String × D α)) → WFCh ch → WFCh (mapLeavesCh f ch)
  | [], _ => by simp [mapLeavesCh, WFCh]
  | (k, v) :: rest, h => by
    have h' : WF v ∧ WFCh rest := by simpa [WFCh] using h
    simp only [mapLeavesCh, WFCh]
    exact ⟨WF_mapLeaves f v h'.1, WFCh_mapLeaves f rest h'.2⟩
end

-- which trees bound the iteration ---------------------------------------------------------------------

mutual
/-- no empty container of kind in `ks` anywhere -/
def noEmptyOf (ks : List Kind) : D α → Bool
  | .leaf _ => true
  | .node k ch => !(ch.isEmpty && ks.contains k) && noEmptyOfCh ks ch
def noEmptyOfCh (ks : List Kind) : List (String × D α) → Bool
  | [] => true
  | (_, v) :: rest => noEmptyOf ks v && noEmptyOfCh ks rest
end

/-- no empty dict / list / tuple -/
def noEmpty (d : D α) : Bool := noEmptyOf [.dict, .list, .tuple] d
/-- no empty tuple -/
def noEmptyTuple (d : D α) : Bool := noEmptyOf [.tuple] d

theorem nChunks_mul_ge (b n : Nat) (hb : 0 < b) : n ≤ nChunks b n * b := by
  unfold nChunks
  have h1 := Nat.div_add_mod (n + b - 1) b
  have h2 := Nat.mod_lt (n + b - 1) hb
  rw [Nat.mul_comm]
  omega

theorem nChunks_pos (b n : Nat) (hb : 0 < b) (hn : 0 < n) : 0 < nChunks b n := by
  unfold nChunks
  apply Nat.div_pos <;> omega

mutual
/-- the number of batches is at least `c` when every leaf gives at least `c` and `c ≤ MAX_ITER` or nothing is empty -/
theorem slen_ge (b n c : Nat) (hc : c ≤ nChunks b n) (ks : List Kind) (hks : Kind.tuple ∈ ks)
    (hmax : (Kind.dict ∈ ks ∧ Kind.list ∈ ks) ∨ c ≤ MAX_ITER) :
    (d : D α) → uniform n d = true → noEmptyOf ks d = true → c ≤ slen b d
  | .leaf r, hu, _ => by
    simp only [uniform, beq_iff_eq] at hu
    simp [slen, hu, hc]
  | .node k ch, hu, hne => by
    simp only [uniform] at hu
    simp only [noEmptyOf, Bool.and_eq_true, Bool.not_eq_true'] at hne
    cases ch with
    | nil =>
      simp only [List.isEmpty_nil, Bool.true_and, List.contains_eq_mem, decide_eq_false_iff_not] at hne
      simp only [slen, List.isEmpty_nil, if_true]
      have hk : k ≠ .tuple := fun h => hne.1 (h ▸ hks)
      simp only [hk, if_false]
      rcases hmax with h | h
      · cases k
        · exact absurd h.1 hne.1
        · exact absurd h.2 hne.1
        · exact absurd rfl hk
      · exact h
    | cons p rest =>
      simp only [slen, List.isEmpty_cons]
      exact slenCh_ge b n c hc ks hks hmax (p :: rest) (by simp) hu hne.2
theorem slenCh_ge (b n c : Nat) (hc : c ≤ nChunks b n) (ks : List Kind) (hks : Kind.tuple ∈ ks)
    (hmax : (Kind.dict ∈ ks ∧ Kind.list ∈ ks) ∨ c ≤ MAX_ITER) :
    (ch : List (String × D α)) → ch ≠ [] → uniformCh n ch = true → noEmptyOfCh ks ch = true → c ≤ slenCh b ch
  | [], h, _, _ => absurd rfl h
  | (k, v) :: rest, _, hu, hne => by
    simp only [uniformCh, Bool.and_eq_true] at hu
    simp only [noEmptyOfCh, Bool.and_eq_true] at hne
    have h1 := slen_ge b n c hc ks hks hmax v hu.1 hne.1
    cases rest with
    | nil => simp [slenCh, h1]
    | cons q rest' =>
      have h2 := slenCh_ge b n c hc ks hks hmax (q :: rest') (by simp) hu.2 hne.2
      simp only [slenCh, List.isEmpty_cons]
      exact Nat.le_min.mpr ⟨h1, h2⟩
end

-- upper bounds on the number of batches ------------------------------------------------------------

mutual
/-- some container of a kind in `ks` is empty -/
def hasEmptyOf (ks : List Kind) : D α → Bool
  | .leaf _ => false
  | .node k ch => (ch.isEmpty && ks.contains k) || hasEmptyOfCh ks ch
def hasEmptyOfCh (ks : List Kind) : List (String × D α) → Bool
  | [] => false
  | (_, v) :: rest => hasEmptyOf ks v || hasEmptyOfCh ks rest
end

def hasEmptyDL (d : D α) : Bool := hasEmptyOf [.dict, .list] d
def hasEmptyTuple (d : D α) : Bool := hasEmptyOf [.tuple] d

theorem slenCh_cons_le_head (b : Nat) (k : String) (v : D α) (rest : List (String × D α)) :
    slenCh b ((k, v) :: rest) ≤ slen b v := by
  simp only [slenCh]
  split
  · exact Nat.le_refl _
  · exact Nat.min_le_left _ _

theorem slenCh_cons_le_tail (b : Nat) (k : String) (v : D α) (rest : List (String × D α)) (h : rest ≠ []) :
    slenCh b ((k, v) :: rest) ≤ slenCh b rest := by
  simp only [slenCh]
  have : rest.isEmpty = false := by cases rest <;> simp_all
  simp only [this]
  exact Nat.min_le_right _ _

mutual
theorem slen_le_of_hasEmptyOf (b : Nat) (ks : List Kind) (bound : Nat)
    (hks : ∀ k ∈ ks, (if k = Kind.tuple then 0 else MAX_ITER) ≤ bound) :
    (d : D α) → hasEmptyOf ks d = true → slen b d ≤ bound
  | .leaf _, h => by simp [hasEmptyOf] at h
  | .node k ch, h => by
    cases ch with
    | nil =>
      simp only [hasEmptyOf, hasEmptyOfCh, List.isEmpty_nil, Bool.true_and, Bool.or_false,
        List.contains_eq_mem, decide_eq_true_eq] at h
      simpa [slen] using hks k h
    | cons p rest =>
      simp only [hasEmptyOf, List.isEmpty_cons, Bool.false_and, Bool.false_or] at h
      simp only [slen, List.isEmpty_cons]
      exact slenCh_le_of_hasEmptyOf b ks bound hks (p :: rest) h
theorem slenCh_le_of_hasEmptyOf (b : Nat) (ks : List Kind) (bound : Nat)
    (hks : ∀ k ∈ ks, (if k = Kind.tuple then 0 else MAX_ITER) ≤ bound) :
    (ch : List (String × D α)) → hasEmptyOfCh ks ch = true → slenCh b ch ≤ bound
  | [], h => by simp [hasEmptyOfCh] at h
  | (k, v) :: rest, h => by
    simp only [hasEmptyOfCh, Bool.or_eq_true] at h
    rcases h with h | h
    · exact Nat.le_trans (slenCh_cons_le_head b k v rest) (slen_le_of_hasEmptyOf b ks bound hks v h)
    · have hne : rest ≠ [] := by intro h0; subst h0; simp [hasEmptyOfCh] at h
      exact Nat.le_trans (slenCh_cons_le_tail b k v rest hne) (slenCh_le_of_hasEmptyOf b ks bound hks rest h)
end

theorem slen_le_of_hasEmptyDL (b : Nat) (d : D α) (h : hasEmptyDL d = true) : slen b d ≤ MAX_ITER :=
  slen_le_of_hasEmptyOf b _ MAX_ITER (by intro k _; split <;> simp [MAX_ITER]) d h

theorem slen_zero_of_hasEmptyTuple (b : Nat) (d : D α) (h : hasEmptyTuple d = true) : slen b d = 0 := by
  have := slen_le_of_hasEmptyOf b [Kind.tuple] 0 (by intro k hk; simp at hk; simp [hk]) d h
  omega

mutual
/-- a tree with an array cannot give more batches than its leaves -/
theorem slen_le (b n : Nat) : (d : D α) → uniform n d = true → noArray d = false → slen b d ≤ nChunks b n
  | .leaf r, hu, _ => by
    simp only [uniform, beq_iff_eq] at hu
    simp [slen, hu]
  | .node k ch, hu, hl => by
    simp only [uniform] at hu
    simp only [noArray] at hl
    cases ch with
    | nil => simp [noArrayCh] at hl
    | cons p rest =>
      simp only [slen, List.isEmpty_cons]
      exact slenCh_le b n (p :: rest) hu hl
theorem slenCh_le (b n : Nat) : (ch : List (String × D α)) → uniformCh n ch = true → noArrayCh ch = false →
    slenCh b ch ≤ nChunks b n
  | [], _, hl => by simp [noArrayCh] at hl
  | (k, v) :: rest, hu, hl => by
    simp only [uniformCh, Bool.and_eq_true] at hu
    simp only [noArrayCh, Bool.and_eq_false_iff] at hl
    rcases hl with hl | hl
    · exact Nat.le_trans (slenCh_cons_le_head b k v rest) (slen_le b n v hu.1 hl)
    · have hne : rest ≠ [] := by intro h0; subst h0; simp [noArrayCh] at hl
      exact Nat.le_trans (slenCh_cons_le_tail b k v rest hne) (slenCh_le b n rest hu.2 hl)
end

-- boolean mask ------------------------------------------------------------------------------------------

theorem maskRows_eq (sel : List Bool) : (rows : List α) →
    maskRows sel rows = (List.range rows.length).filterMap fun i => if sel.getD i false then rows[i]? else none := by
  induction sel with
  | nil =>
    intro rows
    simp [maskRows]
  | cons s sel ih =>
    intro rows
    cases rows with
    | nil => simp [maskRows]
    | cons r rows =>
      have := ih rows
      simp only [maskRows] at this
      simp only [maskRows, List.zip_cons_cons, List.filterMap_cons, List.length_cons,
        List.range_succ_eq_map, List.filterMap_map, Function.comp_def]
      cases s <;> simp [this]

theorem maskRows_length (sel : List Bool) : (rows : List α) → rows.length = sel.length →
    (maskRows sel rows).length = sel.count true := by
  induction sel with
  | nil => intro rows h; simp [maskRows]
  | cons s sel ih =>
    intro rows h
    cases rows with
    | nil => simp at h
    | cons r rows =>
      have := ih rows (by simpa using h)
      simp only [maskRows] at this
      cases s <;> simp [maskRows, this]

-- file layout: reshape / transpose -------------------------------------------------------------------------

/-- every row of the matrix has `c` entries -/
def Rect (c : Nat) (M : List (List α)) : Prop := ∀ m ∈ M, m.length = c

theorem rect_flatten_length (c : Nat) : (M : List (List α)) → Rect c M → M.flatten.length = M.length * c
  | [], _ => by simp
  | m :: M, h => by
    have h1 : m.length = c := h m List.mem_cons_self
    have h2 := rect_flatten_length c M (fun x hx => h x (List.mem_cons_of_mem _ hx))
    simp [h1, h2, Nat.add_mul, Nat.add_comm]

theorem tab_chunks_flatten (c : Nat) : (M : List (List α)) → Rect c M →
    tab M.length (fun e => (M.flatten.drop (e * c)).take c) = M
  | [], _ => by simp [tab]
  | m :: M, h => by
    have h1 : m.length = c := h m List.mem_cons_self
    have ih := tab_chunks_flatten c M (fun x hx => h x (List.mem_cons_of_mem _ hx))
    rw [List.length_cons, tab_succ]
    congr 1
    · simp [h1]
    · have hstep : tab M.length (fun j => ((m :: M).flatten.drop ((j + 1) * c)).take c) =
          tab M.length (fun e => (M.flatten.drop (e * c)).take c) := by
        simp only [tab]
        apply List.map_congr_left
        intro e _
        have : (e + 1) * c = m.length + e * c := by rw [Nat.add_mul, Nat.one_mul, h1, Nat.add_comm]
        rw [this, List.flatten_cons, List.drop_append]
        rw [List.drop_of_length_le (by omega)]
        simp
      rw [hstep, ih]

theorem reshape_flatten (c : Nat) (hc : 0 < c) (M : List (List α)) (h : Rect c M) :
    reshape c M.flatten = some M := by
  unfold reshape
  have hl := rect_flatten_length c M h
  have h0 : c ≠ 0 := by omega
  simp only [h0, if_false, hl, Nat.mul_mod_left, ne_eq, not_true_eq_false, Nat.mul_div_cancel _ hc]
  have := tab_chunks_flatten c M h
  simp only [tab] at this
  simp [this]

theorem transposeN_spec : (N : Nat) → (ps : List (List α)) → Rect N ps →
    (transposeN N ps).length = N ∧ Rect ps.length (transposeN N ps)
  | 0, ps, _ => by simp [transposeN, Rect]
  | N + 1, ps, h => by
    have hh : (ps.filterMap List.head?).length = ps.length := by
      clear transposeN_spec
      induction ps with
      | nil => rfl
      | cons p ps ih =>
        have hp : p.length = N + 1 := h p List.mem_cons_self
        cases p with
        | nil => simp at hp
        | cons x p => simp [ih (fun q hq => h q (List.mem_cons_of_mem _ hq))]
    have ht : Rect N (ps.map List.tail) := by
      intro m hm
      obtain ⟨q, hq, rfl⟩ := List.mem_map.mp hm
      simp [h q hq]
    have ih := transposeN_spec N (ps.map List.tail) ht
    simp only [transposeN, List.length_cons, ih.1, true_and]
    intro m hm
    rcases List.mem_cons.mp hm with rfl | hm
    · exact hh
    · simpa using ih.2 m hm

theorem transposeN_cons : (N : Nat) → (p : List α) → (ps : List (List α)) → p.length = N → Rect N ps →
    (transposeN N (p :: ps)).filterMap List.head? = p ∧ (transposeN N (p :: ps)).map List.tail = transposeN N ps
  | 0, p, ps, hp, _ => by
    have : p = [] := List.eq_nil_of_length_eq_zero hp
    simp [transposeN, this]
  | N + 1, p, ps, hp, h => by
    cases p with
    | nil => simp at hp
    | cons x p =>
      have ht : Rect N (ps.map List.tail) := by
        intro m hm
        obtain ⟨q, hq, rfl⟩ := List.mem_map.mp hm
        simp [h q hq]
      have ih := transposeN_cons N p (ps.map List.tail) (by simpa using hp) ht
      simp only [transposeN, List.filterMap_cons, List.head?_cons, List.map_cons, List.tail_cons]
      simp [ih.1, ih.2]

/-- transposing twice gives the matrix back (n arrays of N rows) -/
theorem transposeN_transposeN (N : Nat) : (ps : List (List α)) → Rect N ps →
    transposeN ps.length (transposeN N ps) = ps
  | [], _ => by simp [transposeN]
  | p :: ps, h => by
    have hp : p.length = N := h p List.mem_cons_self
    have hps : Rect N ps := fun x hx => h x (List.mem_cons_of_mem _ hx)
    have hc := transposeN_cons N p ps hp hps
    rw [List.length_cons, transposeN, hc.1, hc.2, transposeN_transposeN N ps hps]

theorem saveTxt_eq (N : Nat) (g : List (List α)) (hne : g ≠ []) (h : Rect N g) :
    saveTxt g = (transposeN N g).flatten := by
  cases g with
  | nil => exact absurd rfl hne
  | cons p g =>
    have : p.length = N := h p List.mem_cons_self
    simp [saveTxt, this]

theorem saveTxt_length (N : Nat) (g : List (List α)) (hne : g ≠ []) (h : Rect N g) :
    (saveTxt g).length = N * g.length := by
  rw [saveTxt_eq N g hne h, rect_flatten_length g.length _ (transposeN_spec N g h).2, (transposeN_spec N g h).1]

/-- one file: `reshape(-1, size, 4).transpose((1,0,2))` undoes the layout written by `savetxt` -/
theorem load_one (N : Nat) (g : List (List α)) (hne : g ≠ []) (h : Rect N g) :
    (reshape g.length (saveTxt g)).map (fun x => transposeN g.length x) = some g := by
  have hpos : 0 < g.length := List.length_pos_iff.mpr hne
  rw [saveTxt_eq N g hne h, reshape_flatten g.length hpos _ (transposeN_spec N g h).2]
  simp [transposeN_transposeN N g h]

theorem load_parts (N : Nat) : (groups : List (List (List α))) → (∀ g ∈ groups, g ≠ [] ∧ Rect N g) →
    (List.zipWith (fun size data => (reshape size data).map fun x => transposeN size x)
      (groups.map List.length) (groups.map saveTxt)).mapM id = some groups
  | [], _ => rfl
  | g :: groups, h => by
    have hg := h g List.mem_cons_self
    have ih := load_parts N groups (fun x hx => h x (List.mem_cons_of_mem _ hx))
    simp only [List.map_cons, List.zipWith_cons_cons, List.mapM_cons] at ih ⊢
    rw [load_one N g hg.1 hg.2, ih]
    rfl

theorem foldl_add_eq_sum (l : List Nat) (a : Nat) : l.foldl (· + ·) a = a + l.sum := by
  induction l generalizing a with
  | nil => simp
  | cons x l ih => simp [ih, Nat.add_assoc]

theorem sizes_sum (N : Nat) : (groups : List (List (List α))) → (∀ g ∈ groups, g ≠ [] ∧ Rect N g) →
    ((groups.map saveTxt).map List.length).sum = N * (groups.map List.length).sum
  | [], _ => by simp
  | g :: groups, h => by
    have hg := h g List.mem_cons_self
    have ih := sizes_sum N groups (fun x hx => h x (List.mem_cons_of_mem _ hx))
    simp only [List.map_cons, List.sum_cons, ih, saveTxt_length N g hg.1 hg.2, Nat.mul_add]

theorem sizes_div (N : Nat) (hN : 0 < N) : (groups : List (List (List α))) → (∀ g ∈ groups, g ≠ [] ∧ Rect N g) →
    ((groups.map saveTxt).map List.length).map (· / N) = groups.map List.length
  | [], _ => by simp
  | g :: groups, h => by
    have hg := h g List.mem_cons_self
    have ih := sizes_div N hN groups (fun x hx => h x (List.mem_cons_of_mem _ hx))
    simp only [List.map_cons, ih, saveTxt_length N g hg.1 hg.2, Nat.mul_div_cancel_left _ hN]

-- the generator after the fix ---------------------------------------------------------------------------------

mutual
theorem mapLeaves_noArray (f : List α → List α) : (d : D α) → noArray d = true → mapLeaves f d = d
  | .leaf _, h => by simp [noArray] at h
  | .node k ch, h => by
    simp only [noArray] at h
    simp [mapLeaves, mapLeavesCh_noArray f ch h]
theorem mapLeavesCh_noArray (f : List α → List α) : (ch : List (String × D α)) → noArrayCh ch = true →
    mapLeavesCh f ch = ch
  | [], _ => by simp [mapLeavesCh]
  | (k, v) :: rest, h => by
    simp only [noArrayCh, Bool.and_eq_true] at h
    simp [mapLeavesCh, mapLeaves_noArray f v h.1, mapLeavesCh_noArray f rest h.2]
end

theorem map_noArrayCh (f : List α → List α) (ch : List (String × D α)) (h : noArrayCh ch = true) :
    (ch.map fun p => mapLeaves f p.2) = ch.map (·.2) := by
  have := mapLeavesCh_noArray f ch h
  rw [mapLeavesCh_eq_map] at this
  have h2 := congrArg (List.map (·.2)) this
  simpa [List.map_map, Function.comp_def] using h2

/-- the stream of one child of a tree whose leaves all have `n` rows (`m = ceil(n/b)`) -/
def childStrm (b m : Nat) (d : D α) : Strm (D α) :=
  if noArray d then .rep d else .fin (tab m (fun j => mapLeaves (win b j) d))

theorem zipAllS_cons_cons (s t : Strm β) (ss : List (Strm β)) :
    zipAllS (s :: t :: ss) = zipCons s (zipAllS (t :: ss)) := rfl

theorem zipAllS_uniform (b m : Nat) : (ch : List (String × D α)) → ch ≠ [] →
    zipAllS (ch.map fun p => childStrm b m p.2) =
      if noArrayCh ch then .rep (ch.map (·.2))
      else .fin (tab m (fun j => ch.map fun p => mapLeaves (win b j) p.2))
  | [], h => absurd rfl h
  | [(k, v)], _ => by
    simp only [List.map_cons, List.map_nil, zipAllS, childStrm, noArrayCh, Bool.and_true]
    cases hv : noArray v <;> simp [Strm.map, tab_map]
  | (k, v) :: q :: rest, _ => by
    have ih := zipAllS_uniform b m (q :: rest) (by simp)
    simp only [List.map_cons] at ih
    simp only [List.map_cons]
    rw [zipAllS_cons_cons, ih]
    simp only [childStrm, noArrayCh]
    by_cases hv : noArray v = true <;> by_cases hr : (noArray q.2 && noArrayCh rest) = true
    · simp [hv, hr, zipCons]
    · simp [hv, hr, zipCons, tab_map, mapLeaves_noArray _ v hv]
    · have hr' : noArrayCh (q :: rest) = true := by simpa [noArrayCh] using hr
      have := fun j => map_noArrayCh (win b j) (q :: rest) hr'
      simp only [List.map_cons] at this
      simp [hv, hr, zipCons, tab_map, this]
    · simp [hv, hr, zipCons, zipWith_cons_tab]

mutual
theorem genF_eq (b n : Nat) : (d : D α) → uniform n d = true → genF b d = childStrm b (nChunks b n) d
  | .leaf rows, hu => by
    simp only [uniform, beq_iff_eq] at hu
    simp [genF, childStrm, noArray, chunks_eq, tab_map, mapLeaves, hu]
  | .node k ch, hu => by
    simp only [uniform] at hu
    have ih := genFCh_eq b n ch hu
    simp only [genF, childStrm, noArray]
    by_cases hc : noArrayCh ch = true
    · simp [hc]
    · have hne : ch ≠ [] := by intro h0; subst h0; simp [noArrayCh] at hc
      simp only [hc]
      rw [ih, zipAllS_uniform b _ ch hne]
      simp [hc, Strm.map, tab_map, mapLeaves, zip_keys_map]
theorem genFCh_eq (b n : Nat) : (ch : List (String × D α)) → uniformCh n ch = true →
    genFCh b ch = ch.map fun p => childStrm b (nChunks b n) p.2
  | [], _ => by simp [genFCh]
  | (k, v) :: rest, hu => by
    simp only [uniformCh, Bool.and_eq_true] at hu
    simp [genFCh, genF_eq b n v hu.1, genFCh_eq b n rest hu.2]
end

theorem splitF_eq (b n : Nat) (d : D α) (hu : uniform n d = true) :
    splitF b d = tab (if noArray d then MAX_ITER else nChunks b n) (fun j => mapLeaves (win b j) d) := by
  unfold splitF
  rw [genF_eq b n d hu]
  unfold childStrm
  cases h : noArray d
  · simp
  · simp only [if_true]
    rw [← tab_const]
    simp [mapLeaves_noArray _ d h]

-- LazyCall ------------------------------------------------------------------------------------------------------

theorem zipWith_tab {γ δ : Type} (h : β → γ → δ) (f : Nat → β) (g : Nat → γ) (n m : Nat) :
    List.zipWith h (tab n f) (tab m g) = tab (min n m) (fun j => h (f j) (g j)) := by
  apply List.ext_getElem
  · simp [tab]
  · intro i h1 h2
    simp [tab]

theorem mapM_id_tab (m : Nat) (h : Nat → β) : (tab m (fun j => some (h j))).mapM id = some (tab m h) := by
  have : tab m (fun j => some (h j)) = (tab m h).map some := by simp [tab]
  rw [this]
  simpa using mapM_map_some (tab m h) some id id (fun _ => rfl)

theorem lookup_map_isSome (g : List α → List β) (k : String) (kv : List (String × D α)) :
    (lookup k (mapLeavesCh g kv)).isSome = (lookup k kv).isSome := by
  induction kv with
  | nil => simp [mapLeavesCh, lookup]
  | cons p rest ih =>
    obtain ⟨k', v⟩ := p
    simp only [mapLeavesCh, lookup]
    split <;> simp [ih]

theorem dictSet_map (g : List α → List β) (kv : List (String × D α)) (k : String) (v : D α) :
    mapLeavesCh g (dictSet kv k v) = dictSet (mapLeavesCh g kv) k (mapLeaves g v) := by
  unfold dictSet
  rw [lookup_map_isSome]
  split
  · simp only [mapLeavesCh_eq_map, List.map_map]
    apply List.map_congr_left
    intro p _
    simp only [Function.comp_def]
    split <;> simp_all
  · simp [mapLeavesCh_eq_map]

theorem dictUpdate_map (g : List α → List β) (j : List (String × D α)) : (a : List (String × D α)) →
    mapLeavesCh g (dictUpdate a j) = dictUpdate (mapLeavesCh g a) (mapLeavesCh g j) := by
  induction j with
  | nil => intro a; simp [dictUpdate, mapLeavesCh]
  | cons p rest ih =>
    intro a
    obtain ⟨k, v⟩ := p
    have := ih (dictSet a k v)
    simp only [dictUpdate, List.foldl_cons, mapLeavesCh] at this ⊢
    rw [this, dictSet_map]

theorem foldlM_setItem (ex : List (String × D β)) : (a : List (String × D β)) →
    ex.foldlM (fun acc p => setItem acc p.1 p.2) (D.node .dict a) = some (.node .dict (dictUpdate a ex)) := by
  induction ex with
  | nil => intro a; simp [dictUpdate]
  | cons p rest ih =>
    intro a
    simp only [List.foldlM_cons, setItem, dictUpdate, List.foldl_cons]
    exact ih (dictSet a p.1 p.2)

theorem lazyEval_dict (f : D α → D β) (x : D α) (fx ex : List (String × D β)) (hfx : f x = .node .dict fx) :
    lazyEval f x (.node .dict ex) = some (.node .dict (dictUpdate fx ex)) := by
  simp only [lazyEval, hfx]
  exact foldlM_setItem ex fx

-- data_shape of a batch / scalar broadcast --------------------------------------------------------------------------

mutual
theorem noArray_mapLeaves (f : List α → List β) : (d : D α) → noArray (mapLeaves f d) = noArray d
  | .leaf _ => by simp [mapLeaves, noArray]
  | .node k ch => by simp [mapLeaves, noArray, noArrayCh_mapLeaves f ch]
theorem noArrayCh_mapLeaves (f : List α → List β) : (ch : List (String × D α)) →
    noArrayCh (mapLeavesCh f ch) = noArrayCh ch
  | [] => by simp [mapLeavesCh, noArrayCh]
  | (k, v) :: rest => by simp [mapLeavesCh, noArrayCh, noArray_mapLeaves f v, noArrayCh_mapLeaves f rest]
end

mutual
theorem firstLen_noArray : (d : D α) → noArray d = true → firstLen d = none
  | .leaf _, h => by simp [noArray] at h
  | .node k ch, h => by
    simp only [noArray] at h
    simp [firstLen, firstLenCh_noArray ch h]
theorem firstLenCh_noArray : (ch : List (String × D α)) → noArrayCh ch = true → firstLenCh ch = none
  | [], _ => by simp [firstLenCh]
  | (k, v) :: rest, h => by
    simp only [noArrayCh, Bool.and_eq_true] at h
    simp [firstLenCh, firstLen_noArray v h.1, firstLenCh_noArray rest h.2]
end

mutual
/-- `data_shape`: the leading size of the first array -/
theorem firstLen_uniform (n : Nat) : (d : D α) → uniform n d = true → noArray d = false → firstLen d = some n
  | .leaf r, hu, _ => by
    simp only [uniform, beq_iff_eq] at hu
    simp [firstLen, hu]
  | .node k ch, hu, hl => by
    simp only [uniform] at hu
    simp only [noArray] at hl
    simp [firstLen, firstLenCh_uniform n ch hu hl]
theorem firstLenCh_uniform (n : Nat) : (ch : List (String × D α)) → uniformCh n ch = true → noArrayCh ch = false →
    firstLenCh ch = some n
  | [], _, hl => by simp [noArrayCh] at hl
  | (k, v) :: rest, hu, hl => by
    simp only [uniformCh, Bool.and_eq_true] at hu
    simp only [firstLenCh]
    by_cases hv : noArray v = true
    · have hr : noArrayCh rest = false := by simpa [noArrayCh, hv] using hl
      rw [firstLen_noArray v hv]
      exact firstLenCh_uniform n rest hu.2 hr
    · have hv' : noArray v = false := by simpa using hv
      rw [firstLen_uniform n v hu.1 hv']
end

theorem win_replicate (b j n : Nat) (c : β) : win b j (List.replicate n c) = List.replicate (min b (n - j * b)) c := by
  rw [win_eq]
  simp only [List.take_replicate, List.drop_replicate]
  congr 1
  omega

-- LazyCall after the fix ---------------------------------------------------------------------------------------------

/-- `_split_extra` yields the row windows of `extra` as long as `x` has batches: no early stop -/
theorem splitExtraF_eq (b n : Nat) (extra : D β) (hu : uniform n extra = true) :
    splitExtraF b (nChunks b n) extra = tab (nChunks b n) (fun j => mapLeaves (win b j) extra) := by
  unfold splitExtraF
  by_cases h : noArray extra = true
  · simp only [h, if_true]
    rw [← tab_const]
    simp [mapLeaves_noArray _ extra h]
  · simp only [h, Bool.false_eq_true, if_false]
    rw [splitF_eq b n extra hu]
    simp [h]

/-- the shared loop of `LazyCall.__iter__` on the `ceil(n/b)` row windows of `X`: batch `j` is the `j`-th row
    window of the eager value `{**g(X), **extra}` -/
theorem lazyIterOverF_tab {γ : Type} (g : D β → D γ) (X : D β) (gx ex : List (String × D γ)) (b n : Nat)
    (hgx : g X = .node .dict gx)
    (hg : ∀ j, g (mapLeaves (win b j) X) = mapLeaves (win b j) (g X))
    (hue : uniform n (D.node .dict ex) = true) :
    lazyIterOverF g (tab (nChunks b n) fun j => mapLeaves (win b j) X) (.node .dict ex) b =
      some (tab (nChunks b n) fun j => mapLeaves (win b j) (D.node .dict (dictUpdate gx ex))) := by
  unfold lazyIterOverF
  rw [tab_length, splitExtraF_eq b n _ hue, zipWith_tab, Nat.min_self]
  have hpiece : ∀ j, updateD (g (mapLeaves (win b j) X)) (mapLeaves (win b j) (D.node .dict ex)) =
      some (mapLeaves (win b j) (D.node .dict (dictUpdate gx ex))) := by
    intro j
    rw [hg j, hgx]
    simp only [mapLeaves, updateD, dictUpdate_map]
  simp only [hpiece]
  exact mapM_id_tab _ _

theorem merge_windows (b n : Nat) (e : D α) (hwf : WF e) (hu : uniform n e = true) (hb : 0 < b) (hn : 0 < n) :
    merge (tab (nChunks b n) fun j => mapLeaves (win b j) e) = some e := by
  rw [merge_tab b _ e hwf (nChunks_pos b n hb hn)]
  congr 1
  apply mapLeaves_id_of _ n _ e hu
  intro r hr
  apply List.take_of_length_le
  rw [hr]
  exact nChunks_mul_ge b n hb

end TfPwaV.Data
