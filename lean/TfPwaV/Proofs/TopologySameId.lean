import TfPwaV.Proofs.TopologyMapP
/-! C14d, all n: two chains of named binary trees with EQUAL `topology_id(identical=False)` are renamed copies of one
tree (converse of `Rep.rename_topologyId`).

No tree isomorphism is constructed by hand: the bijection `matchVert` sends a vertex of the first tree to the vertex
of the second tree with the same finals below it; the table of the second chain is then a table of BOTH the second
tree and the renamed first tree, `from_sorted_table` (a function of the table, `fromSortedTable_rep`) rebuilds ONE
chain from it that consists of the decays of both, and `Rep` is invariant under `DecayChain.__eq__`. -/
set_option linter.unusedSectionVars false
namespace TfPwaV.Topology

section
variable {α : Type} [DecidableEq α] [LT α] [DecidableLT α]

/-- `Rep` only depends on the chain up to `DecayChain.__eq__` (order of decays and of daughters) -/
theorem Rep.of_eqv (hα : LinLt α) {c c' : Chain α} {M : NT α} (h : Rep c' M) (he : ChainEqv c' c)
    (hcores : (coreList c).Nodup) : Rep c M := by
  refine ⟨hcores, ?_, ?_⟩
  · intro e he'
    obtain ⟨d, hd, hs⟩ := he.right e he'
    simp only [Decay.same, Bool.and_eq_true, decide_eq_true_eq] at hs
    obtain ⟨l, r, hn, hp⟩ := h.sound d hd
    refine ⟨l, r, by rw [hs.1]; exact hn, ?_⟩
    exact ((isort_eq_iff_perm hα _ _).1 hs.2).trans hp
  · intro a l r hn
    obtain ⟨d, hd, hda⟩ := List.mem_map.1 (h.complete a l r hn)
    obtain ⟨e, he', hs⟩ := he.left d hd
    simp only [Decay.same, Bool.and_eq_true, decide_eq_true_eq] at hs
    exact List.mem_map.2 ⟨e, he', by rw [← hs.1]; exact hda⟩

/-- the vertex of `N2` that has the same finals below it as the vertex `x` of `N1` (`x` itself if there is none):
what the first loop of `topology_map` computes from the two tables -/
def matchVert (N1 N2 : NT α) (x : α) : α :=
  match N1.subs.find? (fun s => decide (s.name = x)) with
  | some s =>
    match N2.subs.find? (fun s' => decide (isort s'.leaves = isort s.leaves)) with
    | some s' => s'.name
    | none => x
  | none => x

theorem matchVert_spec (hα : LinLt α) {N1 N2 : NT α} (hv1 : N1.verts.Nodup) (hv2 : N2.verts.Nodup)
    {s s' : NT α} (hs : s ∈ N1.subs) (hs' : s' ∈ N2.subs) (he : isort s'.leaves = isort s.leaves) :
    matchVert N1 N2 s.name = s'.name := by
  have h1 : (N1.subs.find? (fun t => decide (t.name = s.name))).isSome = true := by
    rw [List.find?_isSome]; exact ⟨s, hs, by simp⟩
  obtain ⟨s0, hs0⟩ := Option.isSome_iff_exists.1 h1
  have e0 : s0 = s := by
    have hp := List.find?_some hs0
    simp only [decide_eq_true_eq] at hp
    exact NT.eq_of_name hv1 (List.mem_of_find?_eq_some hs0) hs hp
  subst e0
  have h2 : (N2.subs.find? (fun t => decide (isort t.leaves = isort s0.leaves))).isSome = true := by
    rw [List.find?_isSome]; exact ⟨s', hs', by simp [he]⟩
  obtain ⟨s1, hs1⟩ := Option.isSome_iff_exists.1 h2
  have e1 : s1 = s' := by
    have hp := List.find?_some hs1
    simp only [decide_eq_true_eq] at hp
    exact NT.eq_of_leaves_perm hv2 (List.mem_of_find?_eq_some hs1) hs'
      ((isort_eq_iff_perm hα _ _).1 (hp.trans he.symm))
  subst e1
  simp only [matchVert, hs0, hs1]

/-- ★ two chains of named binary trees with equal `topology_id(identical=False)`: the second chain consists of the
decays of the FIRST tree with its vertices renamed by a map that is injective on the vertices and fixes the finals;
the renaming maps the vertices of the first tree onto those of the second. -/
theorem sameId_renamed_copy (hα : LinLt α) {c1 c2 : Chain α} {a1 a2 : α} {l1 r1 l2 r2 : NT α}
    (h1 : Rep c1 (NT.node a1 l1 r1)) (hv1 : (NT.node a1 l1 r1).verts.Nodup)
    (h2 : Rep c2 (NT.node a2 l2 r2)) (hv2 : (NT.node a2 l2 r2).verts.Nodup)
    (hid : topologyId (fun x : α => x) c1 = topologyId (fun x : α => x) c2) :
    ∃ f : α → α,
      (∀ x ∈ (NT.node a1 l1 r1).verts, ∀ y ∈ (NT.node a1 l1 r1).verts, f x = f y → x = y) ∧
      (∀ z ∈ (NT.node a1 l1 r1).leaves, f z = z) ∧
      Rep c2 ((NT.node a1 l1 r1).mapN f) ∧
      ((NT.node a1 l1 r1).verts.map f).Perm (NT.node a2 l2 r2).verts := by
  generalize hN1 : NT.node a1 l1 r1 = N1 at h1 hv1 hid
  generalize hN2 : NT.node a2 l2 r2 = N2 at h2 hv2 hid
  -- A. the groupings of the two trees are permutations of each other
  have hG : (N1.subs.map fun s => isort s.leaves).Perm (N2.subs.map fun s => isort s.leaves) := by
    subst hN1; subst hN2
    rw [Rep.topologyId hα hα (fun x : α => x) h1 hv1, Rep.topologyId hα hα (fun x : α => x) h2 hv2,
      Option.some.injEq, isort_eq_iff_perm hα.list] at hid
    simpa using hid
  have hto : ∀ s ∈ N1.subs, ∃ s' ∈ N2.subs, isort s'.leaves = isort s.leaves := by
    intro s hs
    have : isort s.leaves ∈ N2.subs.map fun s => isort s.leaves :=
      hG.mem_iff.1 (List.mem_map.2 ⟨s, hs, rfl⟩)
    obtain ⟨s', hs', e⟩ := List.mem_map.1 this
    exact ⟨s', hs', e⟩
  have hfrom : ∀ s' ∈ N2.subs, ∃ s ∈ N1.subs, isort s'.leaves = isort s.leaves := by
    intro s' hs'
    have : isort s'.leaves ∈ N1.subs.map fun s => isort s.leaves :=
      hG.mem_iff.2 (List.mem_map.2 ⟨s', hs', rfl⟩)
    obtain ⟨s, hs, e⟩ := List.mem_map.1 this
    exact ⟨s, hs, e.symm⟩
  let f : α → α := matchVert N1 N2
  have hf : ∀ {s s'}, s ∈ N1.subs → s' ∈ N2.subs → isort s'.leaves = isort s.leaves → f s.name = s'.name :=
    fun hs hs' he => matchVert_spec hα hv1 hv2 hs hs' he
  -- B. f is injective on the vertices and fixes the finals
  have hinj : ∀ x ∈ N1.verts, ∀ y ∈ N1.verts, f x = f y → x = y := by
    intro x hx y hy hxy
    obtain ⟨s1, hs1, rfl⟩ := List.mem_map.1 hx
    obtain ⟨s2, hs2, rfl⟩ := List.mem_map.1 hy
    obtain ⟨s1', hs1', e1⟩ := hto s1 hs1
    obtain ⟨s2', hs2', e2⟩ := hto s2 hs2
    rw [hf hs1 hs1' e1, hf hs2 hs2' e2] at hxy
    have := NT.eq_of_name hv2 hs1' hs2' hxy
    subst this
    have := NT.eq_of_leaves_perm hv1 hs1 hs2 ((isort_eq_iff_perm hα _ _).1 (e1.symm.trans e2))
    rw [this]
  have hfix : ∀ z ∈ N1.leaves, f z = z := by
    intro z hz
    have hs : NT.leaf z ∈ N1.subs := (NT.leaf_mem_subs _ _).2 hz
    obtain ⟨s', hs', e⟩ := hto _ hs
    have hlen : s'.leaves.length = 1 := by
      have := congrArg List.length e
      simpa [isort_length, NT.leaves] using this
    obtain ⟨b, rfl⟩ := s'.eq_leaf_of_length_one hlen
    have hb : b = z := by simpa [NT.leaves, isort_singleton] using e
    have := hf hs hs' e
    simpa [NT.name, hb] using this
  have hleaves : ∀ s ∈ N1.subs, (s.mapN f).leaves = s.leaves := by
    intro s hs
    rw [NT.mapN_leaves]
    have h := List.map_congr_left (f := f) (g := id) (l := s.leaves)
      (fun z hz => hfix z (NT.sub_leaves hs z hz))
    simpa using h
  obtain ⟨hrep1', hv1'⟩ := h1.rename f hinj
  have hvM := hv1' hv1
  -- C. the table of the second chain is a table of the second tree and of the renamed first tree
  obtain ⟨t2, ht2, hk2, hp2⟩ : ∃ t, sortedTable c2 = some t ∧ t.keys.Nodup ∧
      t.Perm (N2.subs.map fun s => (s.name, isort s.leaves)) := by
    subst hN2; exact sortedTable_rep hα h2 hv2
  have hmapM : ((N1.mapN f).subs.map fun s => (s.name, isort s.leaves))
      = N1.subs.map fun s => (f s.name, isort s.leaves) := by
    rw [NT.mapN_subs, List.map_map]
    apply List.map_congr_left
    intro s hs
    simp only [Function.comp_def, NT.mapN_name, hleaves s hs]
  have hpM : (N2.subs.map fun s => (s.name, isort s.leaves)).Perm
      ((N1.mapN f).subs.map fun s => (s.name, isort s.leaves)) := by
    have nd2 : (N2.subs.map fun s => (s.name, isort s.leaves)).Nodup :=
      hp2.nodup_iff.1 (Dict.nodup_of_keys _ hk2)
    have ndM : ((N1.mapN f).subs.map fun s => (s.name, isort s.leaves)).Nodup := by
      apply nodup_of_nodup_map (fun kv : α × List α => kv.1)
      simpa [NT.verts, List.map_map, Function.comp_def] using hvM
    rw [List.perm_ext_iff_of_nodup nd2 ndM, hmapM]
    intro x
    simp only [List.mem_map]
    constructor
    · rintro ⟨s', hs', rfl⟩
      obtain ⟨s, hs, e⟩ := hfrom s' hs'
      exact ⟨s, hs, by rw [hf hs hs' e, e]⟩
    · rintro ⟨s, hs, rfl⟩
      obtain ⟨s', hs', e⟩ := hto s hs
      exact ⟨s', hs', by rw [hf hs hs' e, e]⟩
  have hT2 : IsTableOf t2 N2 := ⟨hk2, hp2⟩
  have hTM : IsTableOf t2 (N1.mapN f) := ⟨hk2, hp2.trans hpM⟩
  -- D. `from_sorted_table` rebuilds ONE chain from that table
  obtain ⟨c', hc', hrep'⟩ : ∃ c, fromSortedTable t2 = some c ∧ Rep c N2 := by
    subst hN2; exact fromSortedTable_rep hα hv2 hT2
  obtain ⟨c'', hc'', hrep''⟩ : ∃ c, fromSortedTable t2 = some c ∧ Rep c (N1.mapN f) := by
    subst hN1; exact fromSortedTable_rep hα (a := f a1) (l := l1.mapN f) (r := r1.mapN f) hvM hTM
  rw [hc'] at hc''
  cases hc''
  -- E. it equals the second chain as a DecayChain
  have heqv : ChainEqv c' c2 := Rep.eqv hα hv2 hrep' h2
  refine ⟨f, hinj, hfix, Rep.of_eqv hα hrep'' heqv h2.cores, ?_⟩
  have k2 := hp2.map (·.1)
  have kM := (hp2.trans hpM).map (·.1)
  have e2 : (N2.subs.map fun s => (s.name, isort s.leaves)).map (·.1) = N2.verts := by
    simp [NT.verts, List.map_map, Function.comp_def]
  have eM : ((N1.mapN f).subs.map fun s => (s.name, isort s.leaves)).map (·.1) = N1.verts.map f := by
    rw [← NT.mapN_verts]; simp [NT.verts, List.map_map, Function.comp_def]
  rw [e2] at k2
  rw [eM] at kM
  exact kM.symm.trans k2

end

end TfPwaV.Topology
