import TfPwaV.Proofs.TopologyTable
/-! C14, all n, `from_sorted_table` (part 2): `split_len` produces the start state and a schedule that satisfy the
loop invariant of part 1; hence `from_sorted_table` of ANY table of a named binary tree (any insertion order of
the entries) returns a chain that consists of exactly the decays of that tree (`fromSortedTable_rep`); the
round trips table → chain → table and chain → table → chain (`Rep.roundtrip`). -/
set_option linter.unusedSectionVars false
namespace TfPwaV.Topology

section
variable {α : Type} [DecidableEq α] [LT α] [DecidableLT α]

/-- `t` is a `sorted_table` of the named tree `N`: one entry (vertex, sorted finals below it) per vertex, in ANY
insertion order (what `sortedTable_rep` returns) -/
structure IsTableOf (t : Dict α (List α)) (N : NT α) : Prop where
  keys : t.keys.Nodup
  perm : t.Perm (N.subs.map fun s => (s.name, isort s.leaves))

theorem IsTableOf.mem_iff {t : Dict α (List α)} {N : NT α} (h : IsTableOf t N) (x : α) (L : List α) :
    (x, L) ∈ t ↔ ∃ s ∈ N.subs, s.name = x ∧ isort s.leaves = L := by
  rw [h.perm.mem_iff]
  simp only [List.mem_map, Prod.mk.injEq]

theorem IsTableOf.get_iff {t : Dict α (List α)} {N : NT α} (h : IsTableOf t N) (x : α) (L : List α) :
    t.get? x = some L ↔ ∃ s ∈ N.subs, s.name = x ∧ isort s.leaves = L := by
  rw [← Dict.mem_iff_get _ h.keys, h.mem_iff]

/-- Python `dict.__eq__`: same keys with the same values, insertion order irrelevant -/
structure DictEq (a b : Dict α (List α)) : Prop where
  keysL : a.keys.Nodup
  keysR : b.keys.Nodup
  perm : a.Perm b

theorem DictEq.get_eq {a b : Dict α (List α)} (h : DictEq a b) (k : α) : a.get? k = b.get? k := by
  apply Option.ext
  intro L
  rw [← Dict.mem_iff_get _ h.keysL, ← Dict.mem_iff_get _ h.keysR, h.perm.mem_iff]

theorem IsTableOf.dictEq {t t' : Dict α (List α)} {N : NT α} (h : IsTableOf t N) (h' : IsTableOf t' N) :
    DictEq t' t := ⟨h'.keys, h.keys, h'.perm.trans h.perm.symm⟩

/-- `DecayChain.__eq__`: the same decays up to the order of the decays and of the daughters -/
structure ChainEqv (a b : Chain α) : Prop where
  len : a.length = b.length
  left : ∀ d ∈ a, ∃ e ∈ b, Decay.same d e = true
  right : ∀ e ∈ b, ∃ d ∈ a, Decay.same e d = true

theorem Rep.mem_cores {c : Chain α} {N : NT α} (hc : Rep c N) (x : α) :
    x ∈ coreList c ↔ ∃ l r, NT.node x l r ∈ N.subs := by
  constructor
  · intro hx
    obtain ⟨d, hd, rfl⟩ := List.mem_map.1 hx
    obtain ⟨l, r, h, _⟩ := hc.sound d hd
    exact ⟨l, r, h⟩
  · rintro ⟨l, r, h⟩
    exact hc.complete x l r h

/-- two chains that consist of the decays of one tree are equal as `DecayChain`s -/
theorem Rep.eqv (hα : LinLt α) {c c' : Chain α} {N : NT α} (hv : N.verts.Nodup) (hc' : Rep c' N) (hc : Rep c N) :
    ChainEqv c' c := by
  have half : ∀ {c₁ c₂ : Chain α}, Rep c₁ N → Rep c₂ N → ∀ d ∈ c₁, ∃ e ∈ c₂, Decay.same d e = true := by
    intro c₁ c₂ h₁ h₂ d hd
    obtain ⟨l, r, hn, hp⟩ := h₁.sound d hd
    obtain ⟨e, he, hec, hep⟩ := h₂.decay hv hn
    refine ⟨e, he, ?_⟩
    simp only [Decay.same, Bool.and_eq_true, decide_eq_true_eq]
    exact ⟨hec.symm, (isort_eq_iff_perm hα _ _).2 (hp.trans hep.symm)⟩
  refine ⟨?_, half hc' hc, half hc hc'⟩
  have hp : (coreList c').Perm (coreList c) := by
    rw [List.perm_ext_iff_of_nodup hc'.cores hc.cores]
    intro x
    rw [hc'.mem_cores, hc.mem_cores]
  simpa [coreList] using hp.length_eq

/-- `base_dict` of `from_sorted_table`: the entries with one final -/
def baseOf (t : Dict α (List α)) : Dict α (List α) := t.filter fun kv => kv.2.length == 1

theorem splitLen_eq (t : Dict α (List α)) (k : Nat) (hm : (t.map fun kv => kv.2.length).foldl max 0 = k + 1) :
    splitLen t = (t.filter fun kv => kv.2.length == 0) :: baseOf t ::
      (List.range' 2 k).map fun i => t.filter fun kv => kv.2.length == i := by
  simp only [splitLen, hm, range_two_add, List.map_cons, baseOf]

theorem flatten_map_eq_buckets (t : Dict α (List α)) (lo n : Nat) :
    ((List.range' lo n).map fun i => t.filter fun kv => kv.2.length == i).flatten
      = buckets (fun kv : α × List α => kv.2.length) t lo n := by
  simp only [buckets, List.flatMap_def]

/-- ★ `from_sorted_table` of ANY table (any entry order) of the named binary tree `a → l r` with pairwise different
vertices returns a chain that consists of exactly the decays of that tree: one decay per inner vertex, its
daughters being the two daughter vertices (in the order in which they stand in `base_dict`). -/
theorem fromSortedTable_rep (hα : LinLt α) {a : α} {l r : NT α} (hv : (NT.node a l r).verts.Nodup)
    {t : Dict α (List α)} (ht : IsTableOf t (NT.node a l r)) :
    ∃ c, fromSortedTable t = some c ∧ Rep c (NT.node a l r) := by
  have hN := NT.self_mem_subs (NT.node a l r)
  have hl1 := l.leaves_length_pos
  have hr1 := r.leaves_length_pos
  -- the largest value length
  obtain ⟨_, hmax⟩ := foldl_max_ge (t.map fun kv => kv.2.length) 0
  have hroot : (a, isort (l.leaves ++ r.leaves)) ∈ t := (ht.mem_iff _ _).2 ⟨_, hN, rfl, rfl⟩
  have hm2 : 2 ≤ (t.map fun kv => kv.2.length).foldl max 0 := by
    have := hmax _ (List.mem_map.2 ⟨_, hroot, rfl⟩)
    simp only [isort_length, List.length_append] at this
    omega
  obtain ⟨k, hk⟩ : ∃ k, (t.map fun kv => kv.2.length).foldl max 0 = k + 1 :=
    ⟨(t.map fun kv => kv.2.length).foldl max 0 - 1, by omega⟩
  have hle : ∀ e ∈ t, e.2.length < 2 + k := by
    intro e he
    have := hmax _ (List.mem_map.2 ⟨e, he, rfl⟩)
    omega
  -- base_dict
  have hbk : (baseOf t).keys.Nodup :=
    List.Nodup.sublist (List.Sublist.map _ List.filter_sublist) ht.keys
  have hbg : ∀ x L, (baseOf t).get? x = some L ↔
      ∃ b, x = b ∧ L = [b] ∧ b ∈ (NT.node a l r).leaves := by
    intro x L
    rw [← Dict.mem_iff_get _ hbk, baseOf, List.mem_filter, ht.mem_iff]
    simp only [beq_iff_eq]
    constructor
    · rintro ⟨⟨s, hs, hsn, hsL⟩, hlen⟩
      rw [← hsL, isort_length] at hlen
      obtain ⟨b, rfl⟩ := s.eq_leaf_of_length_one hlen
      exact ⟨b, hsn.symm, hsL.symm, (NT.leaf_mem_subs _ _).1 hs⟩
    · rintro ⟨b, rfl, rfl, hb⟩
      exact ⟨⟨.leaf x, (NT.leaf_mem_subs _ _).2 hb, rfl, rfl⟩, rfl⟩
  have hinv0 : FInv (NT.node a l r) [] (baseOf t) [] := by
    refine ⟨hbk, ?_, ?_, ?_, ?_, rfl, List.nodup_nil, fun d hd => by simp at hd⟩
    · intro x L hx
      obtain ⟨b, rfl, rfl, hb⟩ := (hbg x L).1 hx
      exact ⟨.leaf x, (NT.leaf_mem_subs _ _).2 hb, rfl, rfl⟩
    · intro x y Lx Ly hxy hx hy z hzx hzy
      obtain ⟨b, rfl, rfl, _⟩ := (hbg x Lx).1 hx
      obtain ⟨b', rfl, rfl, _⟩ := (hbg y Ly).1 hy
      simp only [List.mem_singleton] at hzx hzy
      exact hxy (hzx.symm.trans hzy)
    · intro z hz
      exact ⟨z, [z], (hbg z [z]).2 ⟨z, rfl, rfl, hz⟩, by simp⟩
    · intro s hs hfin _
      rcases hfin with ⟨b, rfl⟩ | hm
      · exact (hbg b [b]).2 ⟨b, rfl, rfl, (NT.leaf_mem_subs _ _).1 hs⟩
      · simp at hm
  -- the rows
  have hrows := mem_buckets (fun kv : α × List α => kv.2.length) t 2 k
  obtain ⟨hsorted, hrnd⟩ := buckets_sorted (fun kv : α × List α => kv.2.length) t (Dict.nodup_of_keys _ ht.keys) 2 k
  have hallrows : ∀ a' l' r', NT.node a' l' r' ∈ (NT.node a l r).subs →
      (a', isort (l'.leaves ++ r'.leaves)) ∈ buckets (fun kv : α × List α => kv.2.length) t 2 k := by
    intro a' l' r' hn
    have hmem : (a', isort (l'.leaves ++ r'.leaves)) ∈ t := (ht.mem_iff _ _).2 ⟨_, hn, rfl, rfl⟩
    refine (hrows _).2 ⟨hmem, ?_, hle _ hmem⟩
    have h1 := l'.leaves_length_pos
    have h2 := r'.leaves_length_pos
    simp only [isort_length, List.length_append]
    omega
  have hsched : Sched (NT.node a l r) [] (buckets (fun kv : α × List α => kv.2.length) t 2 k) := by
    have := sched_of_sorted hv [] (buckets (fun kv : α × List α => kv.2.length) t 2 k) ?_ ?_ ?_ ?_
    · simpa using this
    · intro j hj
      simp only [List.nil_append] at hj
      obtain ⟨hjt, h2, _⟩ := (hrows j).1 hj
      obtain ⟨s, hs, hsn, hsL⟩ := (ht.mem_iff j.1 j.2).1 hjt
      cases s with
      | leaf b =>
        rw [← hsL] at h2
        simp [NT.leaves, isort_singleton] at h2
      | node a' l' r' =>
        refine ⟨a', l', r', hs, ?_⟩
        rw [Prod.ext_iff]
        exact ⟨hsn.symm, hsL.symm⟩
    · simpa using hallrows
    · simp only [List.nil_append]
      apply nodup_map_of_inj_on _ _ hrnd
      intro x hx y hy hxy
      exact inj_of_nodup_map (fun kv : α × List α => kv.1) t ht.keys x ((hrows x).1 hx).1 y ((hrows y).1 hy).1 hxy
    · simpa using hsorted
  obtain ⟨c, base', hc, hinv⟩ := fstLoop_inv hα hv _ [] _ [] hinv0 hsched
  have hrep : Rep c (NT.node a l r) := by
    refine ⟨?_, hinv.accSound, ?_⟩
    · rw [hinv.cores]; exact hinv.dnodup
    · intro a' l' r' hn
      rw [hinv.cores]
      simp only [List.nil_append]
      exact List.mem_map.2 ⟨_, hallrows a' l' r' hn, rfl⟩
  refine ⟨c, ?_, hrep⟩
  have hne : (baseOf t).isEmpty = false := by
    obtain ⟨z, hz⟩ := (NT.node a l r).leaves_exists
    have := (hbg z [z]).2 ⟨z, rfl, rfl, hz⟩
    rw [← Dict.mem_iff_get _ hbk] at this
    cases hb : baseOf t with
    | nil => rw [hb] at this; simp at this
    | cons _ _ => rfl
  simp only [fromSortedTable, splitLen_eq t k hk, hne, flatten_map_eq_buckets, hc, hrep.topOf hv]
  simp

/-- ★ both round trips for ANY chain `c` (any order of decays and of daughters) that consists of the decays of the
named binary tree `a → l r`: `sorted_table(c)` returns `t`; `from_sorted_table(t)` returns a chain `c'` that
consists of the decays of the same tree, so `c' == c` as `DecayChain`s (`ChainEqv`); and `sorted_table(c')` is the
same dictionary as `t` (`DictEq`; the insertion ORDER of the two dictionaries may differ: `c'` lists the decays by
non-decreasing number of finals, `c` need not). -/
theorem Rep.roundtrip (hα : LinLt α) {c : Chain α} {a : α} {l r : NT α} (hc : Rep c (NT.node a l r))
    (hv : (NT.node a l r).verts.Nodup) :
    ∃ t c' t', sortedTable c = some t ∧ IsTableOf t (NT.node a l r) ∧
      fromSortedTable t = some c' ∧ Rep c' (NT.node a l r) ∧ ChainEqv c' c ∧
      sortedTable c' = some t' ∧ DictEq t' t := by
  obtain ⟨t, ht, hk, hp⟩ := sortedTable_rep hα hc hv
  have hT : IsTableOf t (NT.node a l r) := ⟨hk, hp⟩
  obtain ⟨c', hc', hrep'⟩ := fromSortedTable_rep hα hv hT
  obtain ⟨t', ht', hk', hp'⟩ := sortedTable_rep hα hrep' hv
  exact ⟨t, c', t', ht, hT, hc', hrep', Rep.eqv hα hv hrep' hc, ht', hT.dictEq ⟨hk', hp'⟩⟩

end

end TfPwaV.Topology
