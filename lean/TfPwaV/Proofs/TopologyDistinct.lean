import TfPwaV.Proofs.Topology
/-! C14, all n: the trees produced by the edge-insertion enumeration are pairwise different topologies
(different sets of final-state groupings). Removing the last-inserted leaf is a left inverse of insertion on
grouping sets (`IsGroup_insE_strip`), insertion on two different edges of one tree gives different grouping sets
(`insE_edges_differ`); induction over the insertion sequence (`enumGT_pairwise`). -/
namespace TfPwaV.Topology

variable {α : Type} [DecidableEq α]

/-- the tree after `add_node(e, d)` with new vertex `node_c`: the subtree hanging on edge `e` becomes the left
daughter of the new vertex, the new leaf `d` the right daughter (edge order of `add_node`). -/
def Tr.insE (c : Nat) (d : α) : Tr α → Node α → Edge α → Tr α
  | .leaf a, par, e => if e = (par, Node.p a) then .node c (.leaf a) (.leaf d) else .leaf a
  | .node k l r, par, e =>
    if e = (par, Node.n k) then .node c (.node k l r) (.leaf d)
    else if e ∈ l.hang (Node.n k) then .node k (l.insE c d (Node.n k) e) r
    else .node k l (r.insE c d (Node.n k) e)

theorem Tr.mem_hang_node (k : Nat) (l r : Tr α) (par : Node α) (e : Edge α)
    (he : e ∈ (Tr.node k l r).hang par) (h0 : e ≠ (par, Node.n k)) :
    e ∈ l.hang (Node.n k) ∨ e ∈ r.hang (Node.n k) := by
  simp only [Tr.hang, Tr.edges, Tr.root, List.mem_cons, List.mem_append] at he ⊢
  rcases he with h | h | h | h | h
  · exact absurd h h0
  · exact Or.inl (Or.inl h)
  · exact Or.inr (Or.inl h)
  · exact Or.inl (Or.inr h)
  · exact Or.inr (Or.inr h)

theorem Tr.insE_spec (t : Tr α) (par : Node α) (e : Edge α) (c : Nat) (d : α) (he : e ∈ t.hang par) :
    ((t.insE c d par e).hang par).Perm
        ((t.hang par).erase e ++ [(e.1, Node.n c), (Node.n c, e.2), (Node.n c, Node.p d)])
      ∧ (t.insE c d par e).leaves.Perm (d :: t.leaves) ∧ (t.insE c d par e).labels.Perm (c :: t.labels) := by
  induction t generalizing par with
  | leaf a =>
    simp only [Tr.hang, Tr.edges, Tr.root, List.mem_singleton] at he
    subst he
    simp only [Tr.insE, if_true]
    refine ⟨?_, ?_, ?_⟩
    · simp [Tr.hang, Tr.edges, Tr.root]
    · simp [Tr.leaves]; exact List.Perm.swap _ _ _
    · simp [Tr.labels]
  | node k l r ihl ihr =>
    by_cases h0 : e = (par, Node.n k)
    · subst h0
      simp only [Tr.insE, if_true]
      refine ⟨?_, ?_, ?_⟩
      · simp only [Tr.hang, Tr.edges, Tr.root, List.erase_cons_head, List.append_nil]
        rw [List.perm_iff_count]
        intro x
        simp only [List.count_cons, List.count_append, List.count_nil]
        omega
      · simp only [Tr.leaves]
        exact (List.perm_append_comm).trans (by simp)
      · simp [Tr.labels]
    · by_cases hl : e ∈ l.hang (Node.n k)
      · simp only [Tr.insE, if_neg h0, if_pos hl]
        obtain ⟨hp, hlv, hlb⟩ := ihl (Node.n k) hl
        refine ⟨?_, ?_, ?_⟩
        · rw [List.perm_iff_count] at hp ⊢
          intro x
          have hx := hp x
          have hc : 1 ≤ List.count e (l.hang (Node.n k)) := List.count_pos_iff.2 hl
          simp only [Tr.hang, Tr.edges, Tr.root, List.count_cons, List.count_append, List.count_nil,
            count_erase'] at hx hc ⊢
          by_cases hex : e = x
          · subst hex; simp only [if_true] at hx ⊢; simp only [beq_iff_eq] at hx hc ⊢; omega
          · simp only [if_neg hex] at hx ⊢; omega
        · simp only [Tr.leaves]
          exact (List.Perm.append_right _ hlv).trans (by simp)
        · simp only [Tr.labels]
          refine (List.Perm.cons k (List.Perm.append_right _ hlb)).trans ?_
          simp only [List.cons_append]
          exact List.Perm.swap _ _ _
      · have hr : e ∈ r.hang (Node.n k) := (Tr.mem_hang_node k l r par e he h0).resolve_left hl
        simp only [Tr.insE, if_neg h0, if_neg hl]
        obtain ⟨hp, hlv, hlb⟩ := ihr (Node.n k) hr
        refine ⟨?_, ?_, ?_⟩
        · rw [List.perm_iff_count] at hp ⊢
          intro x
          have hx := hp x
          have hc : 1 ≤ List.count e (r.hang (Node.n k)) := List.count_pos_iff.2 hr
          simp only [Tr.hang, Tr.edges, Tr.root, List.count_cons, List.count_append, List.count_nil,
            count_erase'] at hx hc ⊢
          by_cases hex : e = x
          · subst hex; simp only [if_true] at hx ⊢; simp only [beq_iff_eq] at hx hc ⊢; omega
          · simp only [if_neg hex] at hx ⊢; omega
        · simp only [Tr.leaves]
          refine (List.Perm.append_left _ hlv).trans ?_
          exact List.perm_middle
        · simp only [Tr.labels]
          refine (List.Perm.cons k (List.Perm.append_left _ hlb)).trans ?_
          exact (List.Perm.cons k List.perm_middle).trans (List.Perm.swap _ _ _)

theorem Tr.mem_leaves_insE (t : Tr α) (par : Node α) (e : Edge α) (c : Nat) (d : α) (he : e ∈ t.hang par)
    (x : α) : x ∈ (t.insE c d par e).leaves ↔ x = d ∨ x ∈ t.leaves := by
  rw [(t.insE_spec par e c d he).2.1.mem_iff, List.mem_cons]

theorem Tr.leaves_ne (t : Tr α) : ∃ x, x ∈ t.leaves := by
  induction t with
  | leaf a => exact ⟨a, by simp [Tr.leaves]⟩
  | node k l r ihl _ => obtain ⟨x, hx⟩ := ihl; exact ⟨x, by simp [Tr.leaves, hx]⟩

/-! ### final-state groupings of a tree -/

/-- `S` (a list read as a set) is the set of final particles below some vertex of `t`
(one entry of `sorted_table`, up to order). -/
def Tr.IsGroup : Tr α → List α → Prop
  | .leaf a, S => ∀ x, x ∈ S ↔ x = a
  | .node _ l r, S => (∀ x, x ∈ S ↔ x ∈ l.leaves ∨ x ∈ r.leaves) ∨ l.IsGroup S ∨ r.IsGroup S

/-- same topology: the sets of final-state groupings coincide (what `topology_id` compares) -/
def Tr.SameTopo (t₁ t₂ : Tr α) : Prop := ∀ S, t₁.IsGroup S ↔ t₂.IsGroup S

theorem Tr.IsGroup.sub {t : Tr α} {S : List α} (h : t.IsGroup S) : ∀ x ∈ S, x ∈ t.leaves := by
  induction t with
  | leaf a => intro x hx; simp [Tr.leaves, (h x).1 hx]
  | node k l r ihl ihr =>
    intro x hx
    simp only [Tr.leaves, List.mem_append]
    rcases h with h | h | h
    · exact (h x).1 hx
    · exact Or.inl (ihl h x hx)
    · exact Or.inr (ihr h x hx)

theorem Tr.IsGroup.ne {t : Tr α} {S : List α} (h : t.IsGroup S) : ∃ x, x ∈ S := by
  induction t with
  | leaf a => exact ⟨a, (h a).2 rfl⟩
  | node k l r ihl ihr =>
    rcases h with h | h | h
    · obtain ⟨x, hx⟩ := l.leaves_ne; exact ⟨x, (h x).2 (Or.inl hx)⟩
    · exact ihl h
    · exact ihr h

theorem Tr.IsGroup.congr {t : Tr α} {S S' : List α} (hS : ∀ x, x ∈ S ↔ x ∈ S') (h : t.IsGroup S) :
    t.IsGroup S' := by
  induction t with
  | leaf a => intro x; rw [← hS x]; exact h x
  | node k l r ihl ihr =>
    rcases h with h | h | h
    · exact Or.inl (fun x => by rw [← hS x]; exact h x)
    · exact Or.inr (Or.inl (ihl h))
    · exact Or.inr (Or.inr (ihr h))

theorem Tr.isGroup_self (t : Tr α) : t.IsGroup t.leaves := by
  cases t with
  | leaf a => intro x; simp [Tr.leaves]
  | node k l r => exact Or.inl (fun x => by simp [Tr.leaves])

/-! ### (B) removing the inserted leaf is a left inverse on grouping sets -/

theorem Tr.isGroup_strip (t : Tr α) (par : Node α) (e : Edge α) (c : Nat) (d : α)
    (he : e ∈ t.hang par) (hd : d ∉ t.leaves) (S : List α) :
    t.IsGroup S ↔ (∃ x, x ∈ S) ∧ ∃ S', (t.insE c d par e).IsGroup S' ∧ ∀ x, x ∈ S ↔ (x ∈ S' ∧ x ≠ d) := by
  induction t generalizing par with
  | leaf a =>
    simp only [Tr.hang, Tr.edges, Tr.root, List.mem_singleton] at he
    subst he
    have had : a ≠ d := by intro h; apply hd; simp [Tr.leaves, h]
    simp only [Tr.insE, if_true, Tr.IsGroup, Tr.leaves, List.mem_singleton]
    constructor
    · intro h
      refine ⟨⟨a, (h a).2 rfl⟩, S, Or.inr (Or.inl h), ?_⟩
      intro x; have := h x; grind
    · rintro ⟨⟨y, hy⟩, S', h | h | h, hS⟩
      · intro x; have := h x; have := hS x; grind
      · intro x; have := h x; have := hS x; grind
      · exfalso; have := h y; have := hS y; grind
  | node k l r ihl ihr =>
    have hdl : d ∉ l.leaves := fun h => hd (by simp [Tr.leaves, h])
    have hdr : d ∉ r.leaves := fun h => hd (by simp [Tr.leaves, h])
    by_cases h0 : e = (par, Node.n k)
    · subst h0
      simp only [Tr.insE, if_true]
      constructor
      · intro h
        refine ⟨h.ne, S, Or.inr (Or.inl h), ?_⟩
        intro x
        have := h.sub x
        grind
      · rintro ⟨⟨y, hy⟩, S', h | h | h, hS⟩
        · -- S' = all leaves + d
          refine Or.inl (fun x => ?_)
          have h1 := h x; have h2 := hS x
          simp only [Tr.leaves, List.mem_append, List.mem_singleton] at h1 hd ⊢
          grind
        · have hdS : d ∉ S' := fun hh => hd (h.sub d hh)
          exact h.congr (fun x => by have := hS x; grind)
        · exfalso
          have := (show (Tr.leaf d).IsGroup S' from h) y; have := hS y; grind
    · by_cases hl : e ∈ l.hang (Node.n k)
      · simp only [Tr.insE, if_neg h0, if_pos hl]
        have ih := ihl (Node.n k) hl hdl
        have hml := l.mem_leaves_insE (Node.n k) e c d hl
        constructor
        · intro h
          rcases h with h | h | h
          · refine ⟨by obtain ⟨x, hx⟩ := l.leaves_ne; exact ⟨x, (h x).2 (Or.inl hx)⟩, d :: S, Or.inl ?_, ?_⟩
            · intro x; have := h x; have := hml x; simp only [List.mem_cons]; grind
            · intro x; have := h x; simp only [List.mem_cons]; grind
          · obtain ⟨hne, S', hS', hS⟩ := (ih).1 h
            exact ⟨hne, S', Or.inr (Or.inl hS'), hS⟩
          · refine ⟨h.ne, S, Or.inr (Or.inr h), ?_⟩
            intro x; have := h.sub x; grind
        · rintro ⟨hne, S', h | h | h, hS⟩
          · refine Or.inl (fun x => ?_)
            have := h x; have := hS x; have := hml x; grind
          · exact Or.inr (Or.inl ((ih).2 ⟨hne, S', h, hS⟩))
          · have hdS : d ∉ S' := fun hh => hdr (h.sub d hh)
            exact Or.inr (Or.inr (h.congr (fun x => by have := hS x; grind)))
      · have hr : e ∈ r.hang (Node.n k) := (Tr.mem_hang_node k l r par e he h0).resolve_left hl
        simp only [Tr.insE, if_neg h0, if_neg hl]
        have ih := ihr (Node.n k) hr hdr
        have hmr := r.mem_leaves_insE (Node.n k) e c d hr
        constructor
        · intro h
          rcases h with h | h | h
          · refine ⟨by obtain ⟨x, hx⟩ := l.leaves_ne; exact ⟨x, (h x).2 (Or.inl hx)⟩, d :: S, Or.inl ?_, ?_⟩
            · intro x; have := h x; have := hmr x; simp only [List.mem_cons]; grind
            · intro x; have := h x; simp only [List.mem_cons]; grind
          · refine ⟨h.ne, S, Or.inr (Or.inl h), ?_⟩
            intro x; have := h.sub x; grind
          · obtain ⟨hne, S', hS', hS⟩ := (ih).1 h
            exact ⟨hne, S', Or.inr (Or.inr hS'), hS⟩
        · rintro ⟨hne, S', h | h | h, hS⟩
          · refine Or.inl (fun x => ?_)
            have := h x; have := hS x; have := hmr x; grind
          · have hdS : d ∉ S' := fun hh => hdl (h.sub d hh)
            exact Or.inr (Or.inl (h.congr (fun x => by have := hS x; grind)))
          · exact Or.inr (Or.inr ((ih).2 ⟨hne, S', h, hS⟩))

/-- (B): trees of different topology stay different after inserting the same new leaf anywhere -/
theorem Tr.sameTopo_of_insE (t₁ t₂ : Tr α) (par : Node α) (e₁ e₂ : Edge α) (c₁ c₂ : Nat) (d : α)
    (h₁ : e₁ ∈ t₁.hang par) (h₂ : e₂ ∈ t₂.hang par) (hd₁ : d ∉ t₁.leaves) (hd₂ : d ∉ t₂.leaves)
    (h : (t₁.insE c₁ d par e₁).SameTopo (t₂.insE c₂ d par e₂)) : t₁.SameTopo t₂ := by
  intro S
  rw [t₁.isGroup_strip par e₁ c₁ d h₁ hd₁ S, t₂.isGroup_strip par e₂ c₂ d h₂ hd₂ S]
  constructor
  · rintro ⟨hne, S', hS', hS⟩; exact ⟨hne, S', (h S').1 hS', hS⟩
  · rintro ⟨hne, S', hS', hS⟩; exact ⟨hne, S', (h S').2 hS', hS⟩

/-! ### (A) insertion on two different edges of one tree gives different grouping sets -/

theorem Tr.SameTopo.symm {t₁ t₂ : Tr α} (h : t₁.SameTopo t₂) : t₂.SameTopo t₁ := fun S => (h S).symm

theorem Tr.sameTopo_restrictL (k k' : Nat) (L₁ L₂ r : Tr α) (hL : ∀ x, x ∈ L₁.leaves ↔ x ∈ L₂.leaves)
    (hdis : ∀ x ∈ L₁.leaves, x ∉ r.leaves) (h : (Tr.node k L₁ r).SameTopo (Tr.node k' L₂ r)) :
    L₁.SameTopo L₂ := by
  obtain ⟨y, hy⟩ := r.leaves_ne
  intro S
  constructor
  · intro hS
    rcases (h S).1 (Or.inr (Or.inl hS)) with g | g | g
    · exact absurd hy (hdis y (hS.sub y ((g y).2 (Or.inr hy))))
    · exact g
    · obtain ⟨z, hz⟩ := hS.ne
      exact absurd (g.sub z hz) (hdis z (hS.sub z hz))
  · intro hS
    rcases (h S).2 (Or.inr (Or.inl hS)) with g | g | g
    · exact absurd hy (hdis y ((hL y).2 (hS.sub y ((g y).2 (Or.inr hy)))))
    · exact g
    · obtain ⟨z, hz⟩ := hS.ne
      exact absurd (g.sub z hz) (hdis z ((hL z).2 (hS.sub z hz)))

theorem Tr.sameTopo_restrictR (k k' : Nat) (l R₁ R₂ : Tr α) (hR : ∀ x, x ∈ R₁.leaves ↔ x ∈ R₂.leaves)
    (hdis : ∀ x ∈ R₁.leaves, x ∉ l.leaves) (h : (Tr.node k l R₁).SameTopo (Tr.node k' l R₂)) :
    R₁.SameTopo R₂ := by
  obtain ⟨y, hy⟩ := l.leaves_ne
  intro S
  constructor
  · intro hS
    rcases (h S).1 (Or.inr (Or.inr hS)) with g | g | g
    · exact absurd hy (hdis y (hS.sub y ((g y).2 (Or.inl hy))))
    · obtain ⟨z, hz⟩ := hS.ne
      exact absurd (g.sub z hz) (hdis z (hS.sub z hz))
    · exact g
  · intro hS
    rcases (h S).2 (Or.inr (Or.inr hS)) with g | g | g
    · exact absurd hy (hdis y ((hR y).2 (hS.sub y ((g y).2 (Or.inl hy)))))
    · obtain ⟨z, hz⟩ := hS.ne
      exact absurd (g.sub z hz) (hdis z ((hR z).2 (hS.sub z hz)))
    · exact g

/-- insertion on the edge above a vertex vs. insertion strictly below it -/
theorem Tr.top_vs_inner (k : Nat) (l r : Tr α) (par : Node α) (e : Edge α) (c₁ c₂ : Nat) (d : α)
    (he : e ∈ (Tr.node k l r).hang par) (h0 : e ≠ (par, Node.n k))
    (hnd : (Tr.node k l r).leaves.Nodup) (hd : d ∉ (Tr.node k l r).leaves) :
    ¬ (Tr.node c₁ (Tr.node k l r) (Tr.leaf d)).SameTopo ((Tr.node k l r).insE c₂ d par e) := by
  intro hST
  simp only [Tr.leaves, List.nodup_append] at hnd
  obtain ⟨_, _, hdis⟩ := hnd
  have hdl : d ∉ l.leaves := fun h => hd (by simp [Tr.leaves, h])
  have hdr : d ∉ r.leaves := fun h => hd (by simp [Tr.leaves, h])
  obtain ⟨yl, hyl⟩ := l.leaves_ne
  obtain ⟨yr, hyr⟩ := r.leaves_ne
  have g1 : (Tr.node c₁ (Tr.node k l r) (Tr.leaf d)).IsGroup (Tr.node k l r).leaves :=
    Or.inr (Or.inl (Tr.isGroup_self _))
  have g2 := (hST _).1 g1
  by_cases hl : e ∈ l.hang (Node.n k)
  · simp only [Tr.insE, if_neg h0, if_pos hl] at g2
    have hml := l.mem_leaves_insE (Node.n k) e c₂ d hl
    rcases g2 with g | g | g
    · have := g d; have := hml d; simp only [Tr.leaves, List.mem_append] at *; grind
    · have := g.sub yr (by simp [Tr.leaves, hyr]); have := hml yr; have := hdis yr; grind
    · have := g.sub yl (by simp [Tr.leaves, hyl]); have := hdis yl hyl yr; grind
  · have hr : e ∈ r.hang (Node.n k) := (Tr.mem_hang_node k l r par e he h0).resolve_left hl
    simp only [Tr.insE, if_neg h0, if_neg hl] at g2
    have hmr := r.mem_leaves_insE (Node.n k) e c₂ d hr
    rcases g2 with g | g | g
    · have := g d; have := hmr d; simp only [Tr.leaves, List.mem_append] at *; grind
    · have := g.sub yr (by simp [Tr.leaves, hyr]); have := hdis yl hyl yr; grind
    · have := g.sub yl (by simp [Tr.leaves, hyl]); have := hmr yl; have := hdis yl hyl; grind

/-- insertion below the left daughter vs. below the right daughter -/
theorem Tr.left_vs_right (k k' : Nat) (l r : Tr α) (e₁ e₂ : Edge α) (c₁ c₂ : Nat) (d : α)
    (h₁ : e₁ ∈ l.hang (Node.n k)) (h₂ : e₂ ∈ r.hang (Node.n k))
    (hnd : (Tr.node k l r).leaves.Nodup) (hd : d ∉ (Tr.node k l r).leaves) :
    ¬ (Tr.node k (l.insE c₁ d (Node.n k) e₁) r).SameTopo (Tr.node k' l (r.insE c₂ d (Node.n k) e₂)) := by
  intro hST
  simp only [Tr.leaves, List.nodup_append] at hnd
  obtain ⟨_, _, hdis⟩ := hnd
  have hdl : d ∉ l.leaves := fun h => hd (by simp [Tr.leaves, h])
  have hdr : d ∉ r.leaves := fun h => hd (by simp [Tr.leaves, h])
  obtain ⟨yl, hyl⟩ := l.leaves_ne
  obtain ⟨yr, hyr⟩ := r.leaves_ne
  have hml := l.mem_leaves_insE (Node.n k) e₁ c₁ d h₁
  have hmr := r.mem_leaves_insE (Node.n k) e₂ c₂ d h₂
  have g1 : (Tr.node k (l.insE c₁ d (Node.n k) e₁) r).IsGroup (l.insE c₁ d (Node.n k) e₁).leaves :=
    Or.inr (Or.inl (Tr.isGroup_self _))
  rcases (hST _).1 g1 with g | g | g
  · have := g yr; have := hml yr; have := hmr yr; have := hdis yl hyl yr; have := hdis yr; grind
  · have := g.sub d ((hml d).2 (Or.inl rfl)); grind
  · have := g.sub yl ((hml yl).2 (Or.inr hyl)); have := hmr yl; have := hdis yl hyl; grind

/-- (A): inserting the new leaf on two different edges of the same tree gives different topologies -/
theorem Tr.insE_edges_differ (t : Tr α) (par : Node α) (e₁ e₂ : Edge α) (c₁ c₂ : Nat) (d : α)
    (h₁ : e₁ ∈ t.hang par) (h₂ : e₂ ∈ t.hang par) (hne : e₁ ≠ e₂)
    (hnd : t.leaves.Nodup) (hd : d ∉ t.leaves) :
    ¬ (t.insE c₁ d par e₁).SameTopo (t.insE c₂ d par e₂) := by
  induction t generalizing par with
  | leaf a =>
    simp only [Tr.hang, Tr.edges, Tr.root, List.mem_singleton] at h₁ h₂
    exact absurd (h₁.trans h₂.symm) hne
  | node k l r ihl ihr =>
    have hnd' := hnd
    simp only [Tr.leaves, List.nodup_append] at hnd'
    obtain ⟨hnl, hnr, hdis⟩ := hnd'
    have hdl : d ∉ l.leaves := fun h => hd (by simp [Tr.leaves, h])
    have hdr : d ∉ r.leaves := fun h => hd (by simp [Tr.leaves, h])
    by_cases t1 : e₁ = (par, Node.n k)
    · by_cases t2 : e₂ = (par, Node.n k)
      · exact absurd (t1.trans t2.symm) hne
      · have := Tr.top_vs_inner k l r par e₂ c₁ c₂ d h₂ t2 hnd hd
        rw [show (Tr.node k l r).insE c₁ d par e₁ = Tr.node c₁ (Tr.node k l r) (Tr.leaf d) by
          simp [Tr.insE, t1]]
        exact this
    · by_cases t2 : e₂ = (par, Node.n k)
      · have := Tr.top_vs_inner k l r par e₁ c₂ c₁ d h₁ t1 hnd hd
        rw [show (Tr.node k l r).insE c₂ d par e₂ = Tr.node c₂ (Tr.node k l r) (Tr.leaf d) by
          simp [Tr.insE, t2]]
        exact fun h => this h.symm
      · by_cases l1 : e₁ ∈ l.hang (Node.n k)
        · by_cases l2 : e₂ ∈ l.hang (Node.n k)
          · simp only [Tr.insE, if_neg t1, if_neg t2, if_pos l1, if_pos l2]
            intro hST
            refine ihl (Node.n k) l1 l2 hnl hdl (Tr.sameTopo_restrictL k k _ _ r ?_ ?_ hST)
            · intro x; rw [l.mem_leaves_insE _ _ _ _ l1, l.mem_leaves_insE _ _ _ _ l2]
            · intro x hx
              rcases (l.mem_leaves_insE _ _ _ _ l1 x).1 hx with rfl | hx
              · exact hdr
              · exact fun hxr => hdis x hx x hxr rfl
          · have r2 : e₂ ∈ r.hang (Node.n k) := (Tr.mem_hang_node k l r par e₂ h₂ t2).resolve_left l2
            simp only [Tr.insE, if_neg t1, if_neg t2, if_pos l1, if_neg l2]
            exact Tr.left_vs_right k k l r e₁ e₂ c₁ c₂ d l1 r2 hnd hd
        · have r1 : e₁ ∈ r.hang (Node.n k) := (Tr.mem_hang_node k l r par e₁ h₁ t1).resolve_left l1
          by_cases l2 : e₂ ∈ l.hang (Node.n k)
          · simp only [Tr.insE, if_neg t1, if_neg t2, if_neg l1, if_pos l2]
            exact fun h => Tr.left_vs_right k k l r e₂ e₁ c₂ c₁ d l2 r1 hnd hd h.symm
          · have r2 : e₂ ∈ r.hang (Node.n k) := (Tr.mem_hang_node k l r par e₂ h₂ t2).resolve_left l2
            simp only [Tr.insE, if_neg t1, if_neg t2, if_neg l1, if_neg l2]
            intro hST
            refine ihr (Node.n k) r1 r2 hnr hdr (Tr.sameTopo_restrictR k k l _ _ ?_ ?_ hST)
            · intro x; rw [r.mem_leaves_insE _ _ _ _ r1, r.mem_leaves_insE _ _ _ _ r2]
            · intro x hx
              rcases (r.mem_leaves_insE _ _ _ _ r1 x).1 hx with rfl | hx
              · exact hdl
              · exact fun hxl => hdis x hxl x hx rfl

/-! ### the edges of a hanging tree are pairwise different -/

def Tr.verts : Tr α → List (Node α)
  | .leaf a => [Node.p a]
  | .node k l r => Node.n k :: (l.verts ++ r.verts)

theorem Tr.mem_verts_n (t : Tr α) (j : Nat) : Node.n j ∈ t.verts ↔ j ∈ t.labels := by
  induction t with
  | leaf a => simp [Tr.verts, Tr.labels]
  | node k l r ihl ihr => simp [Tr.verts, Tr.labels, ihl, ihr]

theorem Tr.mem_verts_p (t : Tr α) (a : α) : Node.p a ∈ t.verts ↔ a ∈ t.leaves := by
  induction t with
  | leaf b => simp [Tr.verts, Tr.leaves]
  | node k l r ihl ihr => simp [Tr.verts, Tr.leaves, ihl, ihr]

theorem Tr.verts_nodup (t : Tr α) (hl : t.labels.Nodup) (hv : t.leaves.Nodup) : t.verts.Nodup := by
  induction t with
  | leaf a => simp [Tr.verts]
  | node k l r ihl ihr =>
    simp only [Tr.labels, List.nodup_cons, List.nodup_append, List.mem_append] at hl
    simp only [Tr.leaves, List.nodup_append] at hv
    obtain ⟨hk, hll, hlr, hld⟩ := hl
    obtain ⟨hvl, hvr, hvd⟩ := hv
    simp only [Tr.verts, List.nodup_cons, List.nodup_append, List.mem_append]
    refine ⟨?_, ihl hll hvl, ihr hlr hvr, ?_⟩
    · rw [Tr.mem_verts_n, Tr.mem_verts_n]; exact hk
    · intro a ha b hb hab
      subst hab
      cases a with
      | p x => exact hvd x ((l.mem_verts_p x).1 ha) x ((r.mem_verts_p x).1 hb) rfl
      | n j => exact hld j ((l.mem_verts_n j).1 ha) j ((r.mem_verts_n j).1 hb) rfl

theorem Tr.hang_targets (t : Tr α) (par : Node α) : ((t.hang par).map Prod.snd).Perm t.verts := by
  induction t generalizing par with
  | leaf a => simp [Tr.hang, Tr.edges, Tr.root, Tr.verts]
  | node k l r ihl ihr =>
    have h1 := ihl (Node.n k)
    have h2 := ihr (Node.n k)
    simp only [Tr.hang, Tr.edges, Tr.root, Tr.verts, List.map_cons, List.map_append] at h1 h2 ⊢
    refine List.Perm.cons _ ?_
    refine List.Perm.trans ?_ (List.Perm.append h1 h2)
    simp only [List.cons_append]
    exact List.Perm.cons _ List.perm_middle.symm

theorem Tr.hang_nodup (t : Tr α) (par : Node α) (hl : t.labels.Nodup) (hv : t.leaves.Nodup) :
    (t.hang par).Nodup := by
  have h : ((t.hang par).map Prod.snd).Nodup := (t.hang_targets par).nodup_iff.2 (t.verts_nodup hl hv)
  exact List.Pairwise.of_map Prod.snd (fun a b hab heq => hab (congrArg Prod.snd heq)) h

/-! ### induction over the insertion sequence -/

/-- `get_graphs` run on (graph, tree) pairs: same order as `getGraphs`, the tree follows every `add_node` -/
def enumGT (top : α) : Graph α → Tr α → List α → List (Graph α × Tr α)
  | g, t, [] => [(g, t)]
  | g, t, p :: ps =>
    g.edges.flatMap fun e => enumGT top (g.addNode e p) (t.insE g.count p (Node.p top) e) ps

theorem enumGT_fst (top : α) (ps : List α) (g : Graph α) (t : Tr α) :
    (enumGT top g t ps).map Prod.fst = getGraphs g ps := by
  induction ps generalizing g t with
  | nil => simp [enumGT, getGraphs]
  | cons p ps ih => simp only [enumGT, getGraphs, List.map_flatMap, ih]

/-- invariant carried along the enumeration -/
structure EnumInv (top : α) (g : Graph α) (t : Tr α) (ps : List α) : Prop where
  edges : g.edges.Perm (t.hang (Node.p top))
  leavesNodup : t.leaves.Nodup
  fresh : ∀ x ∈ ps, x ∉ t.leaves
  psNodup : ps.Nodup
  labelsNodup : t.labels.Nodup
  labelsLt : ∀ j ∈ t.labels, j < g.count

theorem EnumInv.step {top : α} {g : Graph α} {t : Tr α} {p : α} {ps : List α}
    (h : EnumInv top g t (p :: ps)) {e : Edge α} (he : e ∈ g.edges) :
    e ∈ t.hang (Node.p top) ∧ EnumInv top (g.addNode e p) (t.insE g.count p (Node.p top) e) ps := by
  have he' : e ∈ t.hang (Node.p top) := h.edges.mem_iff.1 he
  obtain ⟨hp1, hl1, hb1⟩ := t.insE_spec (Node.p top) e g.count p he'
  have hpf : p ∉ t.leaves := h.fresh p List.mem_cons_self
  have hps := List.nodup_cons.1 h.psNodup
  refine ⟨he', ?_, ?_, ?_, hps.2, ?_, ?_⟩
  · simp only [Graph.addNode]
    exact (List.Perm.append_right _ (h.edges.erase e)).trans hp1.symm
  · exact hl1.nodup_iff.2 (List.nodup_cons.2 ⟨hpf, h.leavesNodup⟩)
  · intro x hx hmem
    rcases List.mem_cons.1 (hl1.mem_iff.1 hmem) with rfl | hm
    · exact hps.1 hx
    · exact h.fresh x (List.mem_cons_of_mem _ hx) hm
  · refine hb1.nodup_iff.2 (List.nodup_cons.2 ⟨fun hc => ?_, h.labelsNodup⟩)
    exact Nat.lt_irrefl _ (h.labelsLt _ hc)
  · intro j hj
    simp only [Graph.addNode]
    rcases List.mem_cons.1 (hb1.mem_iff.1 hj) with rfl | hm
    · exact Nat.lt_succ_self _
    · exact Nat.lt_succ_of_lt (h.labelsLt j hm)

theorem enumGT_inv (top : α) (ps : List α) (g : Graph α) (t : Tr α) (h : EnumInv top g t ps) :
    ∀ x ∈ enumGT top g t ps, EnumInv top x.1 x.2 [] ∧ x.2.leaves.Perm (t.leaves ++ ps) := by
  induction ps generalizing g t with
  | nil => intro x hx; simp only [enumGT, List.mem_singleton] at hx; subst hx; exact ⟨h, by simp⟩
  | cons p ps ih =>
    intro x hx
    simp only [enumGT, List.mem_flatMap] at hx
    obtain ⟨e, he, hx⟩ := hx
    obtain ⟨he', h'⟩ := h.step he
    obtain ⟨h1, h2⟩ := ih _ _ h' x hx
    refine ⟨h1, h2.trans ?_⟩
    refine (List.Perm.append_right _ (t.insE_spec (Node.p top) e g.count p he').2.1).trans ?_
    simp only [List.cons_append]
    exact List.perm_middle.symm

/-- descendants of trees of different topology have different topologies -/
theorem enumGT_cross (top : α) (ps : List α) (g₁ g₂ : Graph α) (t₁ t₂ : Tr α)
    (h₁ : EnumInv top g₁ t₁ ps) (h₂ : EnumInv top g₂ t₂ ps) (hne : ¬ t₁.SameTopo t₂) :
    ∀ x ∈ enumGT top g₁ t₁ ps, ∀ y ∈ enumGT top g₂ t₂ ps, ¬ x.2.SameTopo y.2 := by
  induction ps generalizing g₁ g₂ t₁ t₂ with
  | nil =>
    intro x hx y hy
    simp only [enumGT, List.mem_singleton] at hx hy
    subst hx; subst hy; exact hne
  | cons p ps ih =>
    intro x hx y hy
    simp only [enumGT, List.mem_flatMap] at hx hy
    obtain ⟨e₁, he₁, hx⟩ := hx
    obtain ⟨e₂, he₂, hy⟩ := hy
    obtain ⟨m₁, i₁⟩ := h₁.step he₁
    obtain ⟨m₂, i₂⟩ := h₂.step he₂
    refine ih _ _ _ _ i₁ i₂ (fun hs => hne ?_) x hx y hy
    exact Tr.sameTopo_of_insE t₁ t₂ (Node.p top) e₁ e₂ _ _ p m₁ m₂
      (h₁.fresh p List.mem_cons_self) (h₂.fresh p List.mem_cons_self) hs

/-- the enumerated trees are pairwise different topologies -/
theorem enumGT_pairwise (top : α) (ps : List α) (g : Graph α) (t : Tr α) (h : EnumInv top g t ps) :
    (enumGT top g t ps).Pairwise fun a b => ¬ a.2.SameTopo b.2 := by
  induction ps generalizing g t with
  | nil => simp [enumGT]
  | cons p ps ih =>
    simp only [enumGT]
    rw [List.pairwise_flatMap]
    refine ⟨fun e he => ih _ _ (h.step he).2, ?_⟩
    have hnd : g.edges.Nodup :=
      h.edges.nodup_iff.2 (t.hang_nodup (Node.p top) h.labelsNodup h.leavesNodup)
    refine List.Pairwise.imp_of_mem ?_ hnd
    intro e₁ e₂ he₁ he₂ hne x hx y hy
    obtain ⟨m₁, i₁⟩ := h.step he₁
    obtain ⟨m₂, i₂⟩ := h.step he₂
    exact enumGT_cross top ps _ _ _ _ i₁ i₂
      (Tr.insE_edges_differ t (Node.p top) e₁ e₂ _ _ p m₁ m₂ hne h.leavesNodup
        (h.fresh p List.mem_cons_self)) x hx y hy

/-! ### computable list of groupings of a tree (for the kernel-checked link to `topology_id`) -/

/-- leaf lists of all vertices of the tree (the values of `sorted_table`, up to order) -/
def Tr.groups : Tr α → List (List α)
  | .leaf a => [[a]]
  | .node k l r => (Tr.node k l r).leaves :: (l.groups ++ r.groups)

theorem Tr.isGroup_iff_groups (t : Tr α) (S : List α) :
    t.IsGroup S ↔ ∃ g ∈ t.groups, ∀ x, x ∈ S ↔ x ∈ g := by
  induction t with
  | leaf a => simp [Tr.IsGroup, Tr.groups]
  | node k l r ihl ihr =>
    simp only [Tr.IsGroup, Tr.groups, ihl, ihr, List.mem_cons, List.mem_append, Tr.leaves]
    constructor
    · rintro (h | ⟨g, hg, h⟩ | ⟨g, hg, h⟩)
      · exact ⟨_, Or.inl rfl, fun x => by rw [h x, List.mem_append]⟩
      · exact ⟨g, Or.inr (Or.inl hg), h⟩
      · exact ⟨g, Or.inr (Or.inr hg), h⟩
    · rintro ⟨g, rfl | hg | hg, h⟩
      · exact Or.inl (fun x => by rw [h x, List.mem_append])
      · exact Or.inr (Or.inl ⟨g, hg, h⟩)
      · exact Or.inr (Or.inr ⟨g, hg, h⟩)

end TfPwaV.Topology
