import TfPwaV.Proofs.UnitaryMix
import TfPwaV.Props.C12
import TfPwaV.Props.C11
import Mathlib.Analysis.SpecialFunctions.Exp
import Mathlib.Analysis.SpecialFunctions.Trigonometric.Basic
import Mathlib.Algebra.BigOperators.Fin
/-!
Helper lemmas for C01 (frame independence): the code's conjugated Wigner D-matrix
`D^{j*}_{m n}(α,β,γ) = e^{i m α} d^j_{m n}(β) e^{i n γ}` (`tf_pwa.dfun.D_matrix_conj`) as a Mathlib `Matrix` over
`Fin (2j+1)` built from the exact small-d table model (`TfPwaV.Wigner`, `TfPwaV.C12.dReal`), and its unitarity.
-/
open Matrix BigOperators
namespace TfPwaV.FrameAlg
open TfPwaV.Wigner TfPwaV.C12

theorem list_range_sum (f : ℕ → ℝ) (n : ℕ) : ((List.range n).map f).sum = ∑ i ∈ Finset.range n, f i := by
  induction n with
  | zero => simp
  | succ n ih => rw [List.range_succ, List.map_append, List.sum_append, ih, Finset.sum_range_succ]; simp

/-- `small_d_matrix(β, N)` as a real matrix over `Fin (N+1)` (index `i ↔ m = i - N/2`) -/
noncomputable def dMat (N : ℕ) (β : ℝ) : Matrix (Fin (N + 1)) (Fin (N + 1)) ℝ := fun i k => dReal N i k β

theorem dMat_mul_transpose (N : ℕ) (hN : N ≤ 8) (β : ℝ) : dMat N β * (dMat N β)ᵀ = 1 := by
  ext i k
  have h := d_unitary N i k hN (by omega) (by omega) β
  rw [list_range_sum, Finset.sum_range] at h
  simp only [mul_apply, transpose_apply, dMat, one_apply]
  rw [h]
  simp only [Fin.val_inj]

theorem dMat_transpose_mul (N : ℕ) (hN : N ≤ 8) (β : ℝ) : (dMat N β)ᵀ * dMat N β = 1 :=
  mul_eq_one_comm.mp (dMat_mul_transpose N hN β)

/-- helicity value of index `i` for spin `N/2` -/
noncomputable def hel (N : ℕ) (i : Fin (N + 1)) : ℝ := ((i : ℕ) : ℝ) - (N : ℝ) / 2

/-- `exp_i(θ, m)` for all m: the diagonal of phases `e^{i m θ}` -/
noncomputable def phase (N : ℕ) (θ : ℝ) : Fin (N + 1) → ℂ := fun i => Complex.exp (((hel N i * θ : ℝ) : ℂ) * Complex.I)

theorem phase_unit (N : ℕ) (θ : ℝ) (i : Fin (N + 1)) : star (phase N θ i) * phase N θ i = 1 := by
  unfold phase
  rw [Complex.star_def, ← Complex.exp_conj, ← Complex.exp_add]
  simp

theorem diag_phase_unitary (N : ℕ) (θ : ℝ) : star (diagonal (phase N θ)) * diagonal (phase N θ) = 1 := by
  rw [star_eq_conjTranspose, diagonal_conjTranspose, diagonal_mul_diagonal]
  rw [← diagonal_one]
  congr 1
  funext i
  exact phase_unit N θ i

theorem dMat_complex_unitary (N : ℕ) (hN : N ≤ 8) (β : ℝ) :
    star ((dMat N β).map Complex.ofReal) * (dMat N β).map Complex.ofReal = 1 := by
  have h := dMat_transpose_mul N hN β
  have h2 : star ((dMat N β).map Complex.ofReal) = ((dMat N β)ᵀ).map Complex.ofReal := by
    ext i k
    simp [star_apply]
  rw [h2]
  ext i k
  have hik := congrFun (congrFun h i) k
  simp only [mul_apply, transpose_apply, Matrix.map_apply, one_apply] at hik ⊢
  split_ifs at hik ⊢ with hc <;> exact_mod_cast hik

/-- `D_matrix_conj(α, β, γ, N)`: `e^{i m α} d_{m n}(β) e^{i n γ}` -/
noncomputable def DConj (N : ℕ) (α β γ : ℝ) : Matrix (Fin (N + 1)) (Fin (N + 1)) ℂ :=
  diagonal (phase N α) * (dMat N β).map Complex.ofReal * diagonal (phase N γ)

theorem DConj_apply (N : ℕ) (α β γ : ℝ) (i k : Fin (N + 1)) :
    DConj N α β γ i k = phase N α i * ((dReal N i k β : ℝ) : ℂ) * phase N γ k := by
  simp [DConj, dMat, diagonal_mul, mul_diagonal]

theorem unitary_mul {n : Type} [Fintype n] [DecidableEq n] (U V : Matrix n n ℂ)
    (hU : star U * U = 1) (hV : star V * V = 1) : star (U * V) * (U * V) = 1 := by
  rw [star_mul, Matrix.mul_assoc, ← Matrix.mul_assoc (star U), hU, Matrix.one_mul, hV]

theorem DConj_unitary (N : ℕ) (hN : N ≤ 8) (α β γ : ℝ) : star (DConj N α β γ) * DConj N α β γ = 1 :=
  unitary_mul _ _ (unitary_mul _ _ (diag_phase_unitary N α) (dMat_complex_unitary N hN β)) (diag_phase_unitary N γ)


/-! ### parity / transposition symmetry of the small-d tables (kernel-checked on the exact model) -/

def sgn (im inn : Nat) : Rat := if (im + inn) % 2 = 0 then 1 else -1

/-- for every `m, n`: the coefficient list of `d_{-m,-n}` and of `d_{n,m}` equals `(-1)^{m-n}` times that of `d_{m,n}` -/
def symCheck (N : Nat) : Bool :=
  (List.range (N + 1)).all fun im => (List.range (N + 1)).all fun inn =>
    decide (dPoly N (N - im) (N - inn) = (dPoly N im inn).map (sgn im inn * ·)) &&
    decide (dPoly N inn im = (dPoly N im inn).map (sgn im inn * ·))

theorem sym_check_all : (List.range 9).all symCheck = true := by decide +kernel

theorem dPoly_sym (N im inn : Nat) (hN : N ≤ 8) (hm : im ≤ N) (hn : inn ≤ N) :
    dPoly N (N - im) (N - inn) = (dPoly N im inn).map (sgn im inn * ·) ∧
    dPoly N inn im = (dPoly N im inn).map (sgn im inn * ·) := by
  have h := sym_check_all
  rw [List.all_eq_true] at h
  have h1 := h N (List.mem_range.mpr (by omega))
  unfold symCheck at h1
  rw [List.all_eq_true] at h1
  have h2 := h1 im (List.mem_range.mpr (by omega))
  rw [List.all_eq_true] at h2
  have h3 := h2 inn (List.mem_range.mpr (by omega))
  rw [Bool.and_eq_true] at h3
  exact ⟨of_decide_eq_true h3.1, of_decide_eq_true h3.2⟩

theorem evalQ_map_mul (p : List Rat) (a : Rat) (s c : ℝ) :
    evalQ (p.map (a * ·)) s c = (a : ℝ) * evalQ p s c := by
  induction p with
  | nil => simp [evalQ]
  | cons z p ih =>
    simp only [List.map_cons, evalQ, ih, List.length_map]
    push_cast
    ring

theorem A_reflect (N i : Nat) (h : i ≤ N) : A N (N - i) = A N i := by
  unfold A
  rw [Nat.sub_sub_self h, Nat.mul_comm]

theorem sgn_cast (im inn : Nat) : ((sgn im inn : Rat) : ℝ) = (-1 : ℝ) ^ (im + inn) := by
  unfold sgn
  rcases Nat.even_or_odd (im + inn) with h | h
  · rw [if_pos (Nat.even_iff.mp h), h.neg_one_pow]; simp
  · rw [if_neg (by rw [Nat.odd_iff.mp h]; decide), h.neg_one_pow]; simp

/-! ### three-vectors: rotation by π about an axis -/
open TfPwaV.KinR in
/-- rotation by π about the axis `n`: `v ↦ 2 (n·v)/(n·n) n - v` -/
noncomputable def rotPi (n v : TfPwaV.KinR.V3) : TfPwaV.KinR.V3 :=
  (TfPwaV.KinR.V3.smul (2 * n.dot v / n.norm2) n).sub v

end TfPwaV.FrameAlg
