import Mathlib.Algebra.BigOperators.Group.List.Basic
import Mathlib.Algebra.BigOperators.Ring.List
import Mathlib.Tactic.Ring
import Mathlib.Data.List.Induction
import TfPwaV.Proofs.Factorise
import TfPwaV.Model.FactoriseY

/-! C05 part Y: helper lemmas for Props/C05d.lean (mask protocol, Hadamard products of outer products, permutations). -/
namespace TfPwaV.FactoriseY
open TfPwaV.Factorise

/-! ### the flag table -/

@[simp] theorem setF_same (fl : Flags) (i : Nat) (b : Bool) : setF fl i b i = b := by simp [setF]
theorem setF_other (fl : Flags) (i j : Nat) (b : Bool) (h : j ≠ i) : setF fl i b j = fl j := by simp [setF, h]

theorem setAll_keeps_true (fl : Flags) (vis : List Nat) (i : Nat) (h : fl i = true) : setAll fl vis i = true := by
  unfold setAll
  induction vis generalizing fl with
  | nil => simpa using h
  | cons b vis ih =>
    simp only [List.foldl_cons]
    apply ih
    by_cases hb : i = b
    · subst hb; simp
    · rw [setF_other _ _ _ _ hb]; exact h

theorem setAll_mem (fl : Flags) (vis : List Nat) (i : Nat) (h : i ∈ vis) : setAll fl vis i = true := by
  induction vis generalizing fl with
  | nil => simp at h
  | cons a vis ih =>
    by_cases hi : i ∈ vis
    · exact ih _ hi
    · have ha : i = a := by simpa [hi] using h
      subst ha
      exact setAll_keeps_true (setF fl i true) vis i (by simp)

theorem setAll_not_mem (fl : Flags) (vis : List Nat) (i : Nat) (h : i ∉ vis) : setAll fl vis i = fl i := by
  unfold setAll
  induction vis generalizing fl with
  | nil => rfl
  | cons a vis ih =>
    simp only [List.foldl_cons]
    rw [ih _ (fun hm => h (List.mem_cons_of_mem _ hm))]
    exact setF_other _ _ _ _ (fun e => h (e ▸ List.mem_cons_self))

theorem setAll_snoc (fl : Flags) (vis : List Nat) (i : Nat) : setAll fl (vis ++ [i]) = setF (setAll fl vis) i true := by
  simp [setAll, List.foldl_append]

/-- restoring values saved from a table `fl` (whatever the current table `fl1` is): visited cells get `fl`'s value -/
theorem restoreAll_saved (fl fl1 : Flags) (vis : List Nat) (j : Nat) :
    restoreAll fl1 vis (vis.map fl) j = if j ∈ vis then fl j else fl1 j := by
  induction vis generalizing fl1 with
  | nil => simp [restoreAll]
  | cons i vis ih =>
    simp only [List.map_cons, restoreAll]
    rw [ih]
    by_cases hj : j ∈ vis
    · simp [hj]
    · by_cases hi : j = i
      · subst hi; simp [hj]
      · simp [hj, hi, setF_other _ _ _ _ hi]

theorem restoreAll_congr (fl1 fl2 : Flags) (vis : List Nat) (old : List Bool) (j : Nat) (h : fl1 j = fl2 j) :
    restoreAll fl1 vis old j = restoreAll fl2 vis old j := by
  induction vis generalizing fl1 fl2 old with
  | nil => simpa [restoreAll] using h
  | cons i vis ih =>
    cases old with
    | nil => simpa [restoreAll] using h
    | cons b old =>
      simp only [restoreAll]
      apply ih
      by_cases hi : j = i
      · subst hi; simp
      · rw [setF_other _ _ _ _ hi, setF_other _ _ _ _ hi, h]

theorem restoreAll_snoc (fl1 : Flags) (vis : List Nat) (old : List Bool) (i : Nat) (b : Bool) (j : Nat)
    (hl : old.length = vis.length) :
    restoreAll fl1 (vis ++ [i]) (old ++ [b]) j = if j = i then b else restoreAll fl1 vis old j := by
  induction vis generalizing fl1 old with
  | nil =>
    have : old = [] := List.length_eq_zero_iff.mp (by simpa using hl)
    subst this
    by_cases hj : j = i
    · subst hj; simp [restoreAll]
    · simp [restoreAll, hj, setF_other _ _ _ _ hj]
  | cons a vis ih =>
    cases old with
    | nil => simp at hl
    | cons c old =>
      simp only [List.cons_append, restoreAll]
      exact ih _ _ (by simpa using hl)

theorem fusedEnter_fst (fl : Flags) (vis : List Nat) : (fusedEnter fl vis).1 = setAll fl vis := by
  induction vis generalizing fl with
  | nil => rfl
  | cons i vis ih => simp only [fusedEnter, setAll, List.foldl_cons]; exact ih _

theorem fusedEnter_length (fl : Flags) (vis : List Nat) : (fusedEnter fl vis).2.length = vis.length := by
  induction vis generalizing fl with
  | nil => rfl
  | cons i vis ih => simp only [fusedEnter, List.length_cons]; rw [ih]

theorem fusedEnter_snoc_snd (fl : Flags) (vis : List Nat) (i : Nat) :
    (fusedEnter fl (vis ++ [i])).2 = (fusedEnter fl vis).2 ++ [setAll fl vis i] := by
  induction vis generalizing fl with
  | nil => simp [fusedEnter, setAll]
  | cons a vis ih =>
    simp only [List.cons_append, fusedEnter, setAll, List.foldl_cons]
    rw [ih]; rfl

/-- the complete description of the fused loop: exactly the cells visited at least twice are left masked -/
theorem fused_final (fl : Flags) (vis : List Nat) (j : Nat) :
    restoreAll (fusedEnter fl vis).1 vis (fusedEnter fl vis).2 j = if 2 ≤ vis.count j then true else fl j := by
  induction vis using List.reverseRecOn with
  | nil => simp [fusedEnter, restoreAll]
  | append_singleton vis i ih =>
    rw [fusedEnter_snoc_snd, restoreAll_snoc _ _ _ _ _ _ (fusedEnter_length fl vis)]
    by_cases hj : j = i
    · subst hj
      simp only [if_true, List.count_append, List.count_singleton_self]
      by_cases hm : j ∈ vis
      · rw [setAll_mem _ _ _ hm]
        have : 0 < vis.count j := List.count_pos_iff.mpr hm
        rw [if_pos (by omega)]
      · rw [setAll_not_mem _ _ _ hm]
        have : vis.count j = 0 := List.count_eq_zero.mpr hm
        simp [this]
    · rw [if_neg hj]
      have hc : (vis ++ [i]).count j = vis.count j := by
        simp [List.count_append, Ne.symm hj]
      rw [hc, ← ih]
      apply restoreAll_congr
      rw [fusedEnter_fst, fusedEnter_fst, setAll_snoc, setF_other _ _ _ _ hj]

/-! ### the visiting sequence of `temp_total_gls_one` -/

theorem mem_maskPartFrom (c0 : Nat) (decs : List (List Nat)) (c : Nat) (h1 : c0 ≤ c) (h2 : c < c0 + decs.length) :
    chainId c ∈ maskPartFrom c0 decs ∧ ∀ d ∈ decs.getD (c - c0) [], decayId d ∈ maskPartFrom c0 decs := by
  induction decs generalizing c0 with
  | nil => simp at h2; omega
  | cons ds rest ih =>
    simp only [maskPartFrom]
    by_cases hc : c = c0
    · subst hc
      refine ⟨List.mem_cons_self, ?_⟩
      intro d hd
      simp only [Nat.sub_self, List.getD_cons_zero] at hd
      exact List.mem_cons_of_mem _ (List.mem_append_left _ (List.mem_map_of_mem hd))
    · have h1' : c0 + 1 ≤ c := by omega
      have h2' : c < c0 + 1 + rest.length := by simp at h2; omega
      obtain ⟨ha, hb⟩ := ih (c0 + 1) h1' h2'
      refine ⟨List.mem_cons_of_mem _ (List.mem_append_right _ ha), ?_⟩
      intro d hd
      have : c - c0 = (c - (c0 + 1)) + 1 := by omega
      rw [this, List.getD_cons_succ] at hd
      exact List.mem_cons_of_mem _ (List.mem_append_right _ (hb d hd))

theorem mem_maskPart (decs : List (List Nat)) (c : Nat) (h : c < decs.length) :
    chainId c ∈ maskPart decs ∧ ∀ d ∈ decs.getD c [], decayId d ∈ maskPart decs := by
  have := mem_maskPartFrom 0 decs c (Nat.zero_le _) (by simpa using h)
  simpa [maskPart] using this

/-! ### Hadamard products of flattened outer products -/

variable {R : Type} [CommRing R]

@[simp] theorem hmul_nil_left (b : List R) : hmul [] b = [] := by simp [hmul]
@[simp] theorem hmul_nil_right (a : List R) : hmul a [] = [] := by simp [hmul]
@[simp] theorem hmul_cons (x y : R) (a b : List R) : hmul (x :: a) (y :: b) = (x * y) :: hmul a b := rfl
theorem length_hmul (a b : List R) (h : a.length = b.length) : (hmul a b).length = a.length := by
  simp [hmul, h]
theorem hmul_append (a a' b b' : List R) (h : a.length = b.length) :
    hmul (a ++ a') (b ++ b') = hmul a b ++ hmul a' b' := by
  simp [hmul, List.zipWith_append h]
theorem hmul_smul_smul (x y : R) (a b : List R) : hmul (smul x a) (smul y b) = smul (x * y) (hmul a b) := by
  induction a generalizing b with
  | nil => simp
  | cons u a ih => cases b with
    | nil => simp
    | cons v b => simp [ih]; ring
theorem hmul_onesLike (g b : List R) (h : g.length = b.length) : hmul (onesLike g) b = b := by
  induction g generalizing b with
  | nil => cases b with
    | nil => rfl
    | cons _ _ => simp at h
  | cons x g ih => cases b with
    | nil => simp at h
    | cons y b => simp [onesLike] at ih ⊢; exact ih b (by simpa using h)

theorem hmul_outer (a b c d : List R) (h : b.length = d.length) :
    hmul (outer a b) (outer c d) = outer (hmul a c) (hmul b d) := by
  induction a generalizing c with
  | nil => simp
  | cons x a ih =>
    cases c with
    | nil => simp
    | cons y c =>
      rw [outer_cons, outer_cons, hmul_append _ _ _ _ (by simp [h]), hmul_smul_smul, ih, hmul_cons, outer_cons]

theorem dot_hmul (p q a : List R) : dot p (hmul q a) = dot (hmul p q) a := by
  induction p generalizing q a with
  | nil => simp
  | cons x p ih => cases q with
    | nil => simp
    | cons y q => cases a with
      | nil => simp
      | cons z a => simp [ih]; ring

/-- the right-nested (row-major) product tensor of a factor list -/
def nest (L : List (List R)) : List R := L.foldr outer [1]

theorem paramsVector_eq_nest (L : List (List R)) (h : L ≠ []) : paramsVector L = nest L := by
  have := angOf_eq_angTensor L h
  simpa [angOf, angTensor, nest] using this

theorem paramsVector_snoc (L : List (List R)) (x : R) : paramsVector (L ++ [[x]]) = smul x (nest L) := by
  rw [paramsVector_eq_nest _ (by simp), nest, List.foldr_append, nest, smul_foldr_outer]
  simp

theorem paramsVector_cons_single (t : R) (G : List (List R)) : paramsVector ([t] :: G) = smul t (nest G) := by
  rw [paramsVector_eq_nest _ (by simp), nest, List.foldr_cons]
  simp [nest]

theorem hmul_nest (G B : List (List R)) (h : List.Forall₂ (fun g b => g.length = b.length) G B) :
    hmul (nest G) (nest B) = nest (List.zipWith hmul G B) ∧ (nest G).length = (nest B).length := by
  induction h with
  | nil => simp [nest, hmul]
  | cons hgb _ ih =>
    obtain ⟨ih1, ih2⟩ := ih
    simp only [nest, List.foldr_cons, List.zipWith_cons_cons] at ih1 ih2 ⊢
    refine ⟨?_, ?_⟩
    · rw [hmul_outer _ _ _ _ ih2, ih1]
    · rw [length_outer, length_outer, hgb, ih2]

/-! ### sums over chain selections -/

theorem sum_split_perm {α : Type} [DecidableEq α] (f : α → R) (used idx : List α) (hu : used.Nodup) (hi : idx.Nodup) :
    ((used.filter fun i => !idx.contains i).map f).sum + ((idx.filter fun i => used.contains i).map f).sum
      = (used.map f).sum := by
  have h1 : (idx.filter fun i => used.contains i).Perm (used.filter fun i => idx.contains i) := by
    rw [List.perm_ext_iff_of_nodup (hi.filter _) (hu.filter _)]
    intro a
    simp [and_comm]
  have h2 : ((used.filter fun i => idx.contains i) ++ (used.filter fun i => !idx.contains i)).Perm used :=
    List.filter_append_perm _ _
  rw [← (h2.map f).sum_eq, List.map_append, List.sum_append, (h1.map f).sum_eq]
  ring

end TfPwaV.FactoriseY

namespace TfPwaV.FactoriseY
open TfPwaV.Factorise

variable {R : Type} [CommRing R]

/-- the shapes of chain c fit: every decay of the chain has as many couplings as barrier factors (ls terms) -/
def WellShaped (S : Struct R) (P : Params R) (c : Nat) : Prop :=
  List.Forall₂ (fun d b => (P.g.getD d []).length = b.length) (S.decs.getD c []) (P.bf.getD c [])

theorem length_getGls (fl : Flags) (P : Params R) (d : Nat) : (getGls fl P d).length = (P.g.getD d []).length := by
  unfold getGls onesLike
  split <;> simp

theorem pvBuild_eq (fl : Flags) (S : Struct R) (P : Params R) (c : Nat) :
    pvBuild fl S P c = smul (getTotal fl P c * P.rs.getD c 0)
      (nest (List.zipWith hmul ((S.decs.getD c []).map (getGls fl P)) (P.bf.getD c []))) := by
  unfold pvBuild mDep
  rw [paramsVector_snoc, List.zipWith_map_left]

theorem pvCoupling_eq (fl : Flags) (S : Struct R) (P : Params R) (c : Nat) :
    pvCoupling fl S P c = smul (getTotal fl P c) (nest ((S.decs.getD c []).map (getGls fl P))) := by
  unfold pvCoupling allFactor
  rw [paramsVector_cons_single]

/-- under the mask the ls amplitudes are the bare barrier factors -/
theorem masked_lsamp (flm : Flags) (P0 : Params R) (ds : List Nat) (bfs : List (List R))
    (h : List.Forall₂ (fun d b => (P0.g.getD d []).length = b.length) ds bfs)
    (hm : ∀ d ∈ ds, flm (decayId d) = true) :
    List.zipWith hmul (ds.map (getGls flm P0)) bfs = bfs := by
  induction h with
  | nil => rfl
  | @cons d b ds bfs hdb _ ih =>
    simp only [List.map_cons, List.zipWith_cons_cons]
    rw [ih (fun e he => hm e (List.mem_cons_of_mem _ he))]
    congr 1
    unfold getGls
    rw [if_pos (hm d List.mem_cons_self)]
    exact hmul_onesLike _ _ hdb

/-- **the heart of `cached_shape`**: (couplings only) ⊙ (masked params vector at θ0) = full params vector at θ,
    when the line-shape parts of the chain agree at θ0 and θ -/
theorem pv_split (fl flm : Flags) (S : Struct R) (P0 P : Params R) (c : Nat)
    (hm : flm (chainId c) = true) (hmd : ∀ d ∈ S.decs.getD c [], flm (decayId d) = true)
    (h0 : WellShaped S P0 c) (h : WellShaped S P c)
    (hbf : P.bf.getD c [] = P0.bf.getD c []) (hrs : P.rs.getD c 0 = P0.rs.getD c 0) :
    hmul (pvCoupling fl S P c) (pvBuild flm S P0 c) = pvBuild fl S P c := by
  rw [pvCoupling_eq, pvBuild_eq, pvBuild_eq, masked_lsamp flm P0 _ _ h0 hmd, hmul_smul_smul]
  have hG : List.Forall₂ (fun (g b : List R) => g.length = b.length)
      ((S.decs.getD c []).map (getGls fl P)) (P.bf.getD c []) := by
    rw [List.forall₂_map_left_iff]
    unfold WellShaped at h
    exact h.imp (fun _ _ hab => by rw [length_getGls]; exact hab)
  rw [← hbf, (hmul_nest _ _ hG).1, hrs]
  unfold getTotal
  rw [if_pos hm]
  congr 1
  ring

/-! ### product-form angular caches -/

/-- the ls amplitudes of chain c: `g_ls · bf` per decay (`HelicityDecay.get_ls_amp`) -/
def lsAmps (fl : Flags) (S : Struct R) (P : Params R) (c : Nat) : List (List R) :=
  List.zipWith (fun d b => hmul (getGls fl P d) b) (S.decs.getD c []) (P.bf.getD c [])

theorem dot_smul_left (x : R) (a b : List R) : dot (smul x a) b = x * dot a b := by
  induction a generalizing b with
  | nil => simp
  | cons u a ih => cases b with
    | nil => simp
    | cons v b => simp [ih]; ring

theorem dot_nest (F Q : List (List R)) (h : List.Forall₂ (fun f p => f.length = p.length) F Q) :
    dot (nest F) (nest Q) = prodL (List.zipWith dot F Q) := by
  induction h with
  | nil => simp [nest, prodL, dot]
  | @cons f q F Q hfq hFQ ih =>
    simp only [nest, List.foldr_cons, List.zipWith_cons_cons, prodL] at ih ⊢
    have hlen : (List.foldr outer [1] F).length = (List.foldr outer [1] Q).length := (hmul_nest F Q hFQ).2
    rw [dot_outer _ _ _ _ hlen, ih]

/-- plain evaluation of one chain on a product-form angular cache is the direct multilinear expression
    `total · rs · Π_decays Σ_ls g_ls · bf_ls · part_ls` -/
theorem chainAmp_multilinear (fl : Flags) (S : Struct R) (P : Params R) (c : Nat) (parts : List (List R))
    (hang : S.ang.getD c [] = angOf (parts ++ [[1]]))
    (hl : List.Forall₂ (fun f p => f.length = p.length) (lsAmps fl S P c) parts) :
    chainAmp fl S P c = (getTotal fl P c * P.rs.getD c 0) * prodL (List.zipWith dot (lsAmps fl S P c) parts) := by
  unfold chainAmp pvBuild mDep
  rw [hang, angOf, paramsVector_snoc, paramsVector_snoc, smul_one, dot_smul_left]
  congr 1
  exact dot_nest _ _ hl

end TfPwaV.FactoriseY
