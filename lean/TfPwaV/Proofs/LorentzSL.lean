import TfPwaV.Gen.LorentzSLR
import TfPwaV.Props.C02d
import TfPwaV.Proofs.FrameRot
/-!
Helper lemmas for `Props/C01g.lean`: Lorentz transformations as SL(2,ℂ) elements acting on the four-vector model
(`templates/LorentzSL.lean.in`), the code's `rest_vector` as such an element (`restM`), the rotation of three-space that
belongs to an element of SU(2) (`rotOf`, an `IsRot`), and `cal_chain_boost` under a map that intertwines with a rotation.
-/
open TfPwaV.ScalarR
namespace TfPwaV.LorentzSLR
open TfPwaV.SU2R TfPwaV.AlignR TfPwaV.KinR TfPwaV.SL2CR TfPwaV.C12 TfPwaV.C02 TfPwaV.CascadeR TfPwaV.FrameRot TfPwaV.C01

/-! ### `herm` / `unherm` / `lor` -/

theorem unherm_herm (p : V4) : unherm (herm p) = p := by
  obtain ⟨t, x, y, z⟩ := p
  ext <;> simp [unherm, herm]

theorem herm_unherm (x : M2) (h : dagger x = x) : herm (unherm x) = x := by
  obtain ⟨⟨a0, a1⟩, ⟨b0, b1⟩, ⟨c0, c1⟩, ⟨d0, d1⟩⟩ := x
  have e1 := congrArg (fun x => x.x00.im) h
  have e2 := congrArg (fun x => x.x01.re) h
  have e3 := congrArg (fun x => x.x01.im) h
  have e4 := congrArg (fun x => x.x11.im) h
  simp only [dagger, Cx.conj] at e1 e2 e3 e4
  ext <;> simp only [herm, unherm] <;> linarith

theorem dagger_act (a x : M2) (h : dagger x = x) : dagger (act a x) = act a x := by
  unfold act
  rw [dagger_mul, dagger_mul, dagger_dagger, h, su2_mul_assoc]

theorem herm_lor (a : M2) (p : V4) : herm (lor a p) = act a (herm p) :=
  herm_unherm _ (dagger_act a _ (herm_dagger p))

theorem lor_mul (a b : M2) (p : V4) : lor (a.mul b) p = lor a (lor b p) := by
  apply herm_inj
  rw [herm_lor, herm_lor, herm_lor, act_mul]

theorem lor_one (p : V4) : lor M2.one p = p := by
  apply herm_inj
  rw [herm_lor, act_one]

theorem lor_inv_lor (a : M2) (ha : a.det = Cx.one) (p : V4) : lor a.inv (lor a p) = p := by
  rw [← lor_mul, (su2_inv a ha).1, lor_one]

theorem lor_lor_inv (a : M2) (ha : a.det = Cx.one) (p : V4) : lor a (lor a.inv p) = p := by
  rw [← lor_mul, (su2_inv a ha).2, lor_one]

/-- `Λ` is additive (it is linear) -/
theorem lor_add (a : M2) (p q : V4) : lor a (p.add q) = (lor a p).add (lor a q) := by
  obtain ⟨⟨a0, a1⟩, ⟨b0, b1⟩, ⟨c0, c1⟩, ⟨d0, d1⟩⟩ := a
  obtain ⟨pt, px, py, pz⟩ := p
  obtain ⟨qt, qx, qy, qz⟩ := q
  ext <;> simp [lor, unherm, act, herm, dagger, M2.mul, Cx.mul, Cx.add, Cx.conj, V4.add] <;> ring

theorem det_mul (a b : M2) : (a.mul b).det = a.det.mul b.det := by
  ext <;> simp [M2.det, M2.mul, Cx.mul, Cx.add, Cx.neg] <;> ring

theorem det_dagger (a : M2) : (dagger a).det = a.det.conj := by
  ext <;> simp [M2.det, dagger, Cx.mul, Cx.add, Cx.neg, Cx.conj] <;> ring

theorem det_act (a x : M2) (ha : a.det = Cx.one) : (act a x).det = x.det := by
  unfold act
  rw [det_mul, det_mul, det_dagger, ha]
  ext <;> simp [Cx.mul, Cx.one, Cx.conj]

/-- `Λ` preserves the Minkowski square … -/
theorem lor_m2 (a : M2) (ha : a.det = Cx.one) (p : V4) : (lor a p).m2 = p.m2 := by
  have h1 := herm_det (lor a p)
  rw [herm_lor, det_act a _ ha, herm_det] at h1
  exact (congrArg Cx.re h1).symm

/-- … hence the mass `LorentzVector.M` -/
theorem lor_mass (a : M2) (ha : a.det = Cx.one) (p : V4) : (lor a p).mass = p.mass := by
  unfold V4.mass
  rw [lor_m2 a ha]

/-! ### the code's `rest_vector` is the SL(2,ℂ) element `restM` -/

/-- a time-like momentum of positive energy (a massive particle) -/
structure Massive (P : V4) : Prop where
  pos : 0 < P.t
  timelike : P.vect.norm2 < P.t ^ 2

theorem Massive.m2_pos {P : V4} (h : Massive P) : 0 < P.m2 := by
  obtain ⟨t, x, y, z⟩ := P
  have := h.timelike
  simp only [V4.vect, V3.norm2, V4.m2, V4.dot] at *
  nlinarith

theorem Massive.sqrt_pos {P : V4} (h : Massive P) : 0 < Real.sqrt P.m2 := Real.sqrt_pos.mpr h.m2_pos

/-- the branch of `LorentzVector.boost` that `rest_vector(P, ·)` takes is either the regular one (`|β|² > 1e-14`) or the
parent is exactly at rest -/
def GuardOK (P : V4) : Prop := eps < P.boostVector.norm2 ∨ P.vect = ⟨0, 0, 0⟩

/-- every massive momentum is in polar form with the angles and the rapidity the code's primitives compute -/
theorem polar_of_massive (q : V4) (h : Massive q) :
    q = polar (Real.sqrt q.m2) (azimuthP q) (polarP q) (omegaP q) := by
  by_cases hxy : 0 < q.x * q.x + q.y * q.y
  · exact polar_of_standard_angles q h.pos h.timelike hxy
  · have hx : q.x = 0 := by nlinarith [mul_self_nonneg q.x, mul_self_nonneg q.y]
    have hy : q.y = 0 := by nlinarith [mul_self_nonneg q.x, mul_self_nonneg q.y]
    apply polar_of_momentum q h.pos h.timelike
    · have : Real.sin (polarP q) = 0 ∨ Real.sqrt q.vect.norm2 = 0 := by
        by_cases hz : q.z = 0
        · right
          simp [V4.vect, V3.norm2, hx, hy, hz]
        · left
          have hn : q.vect.norm2 = q.z * q.z := by simp [V4.vect, V3.norm2, hx, hy]
          unfold polarP kacos ksqrt
          rw [Real.sin_arccos, hn]
          have hs : Real.sqrt (q.z * q.z) ≠ 0 := by
            rw [Real.sqrt_mul_self_eq_abs]; exact abs_ne_zero.mpr hz
          have : (q.z / Real.sqrt (q.z * q.z)) ^ 2 = 1 := by
            rw [div_pow, Real.sq_sqrt (mul_self_nonneg _)]
            field_simp
          rw [this]; simp
      rcases this with h0 | h0 <;> rw [hx, h0] <;> ring
    · have : Real.sin (polarP q) = 0 ∨ Real.sqrt q.vect.norm2 = 0 := by
        by_cases hz : q.z = 0
        · right
          simp [V4.vect, V3.norm2, hx, hy, hz]
        · left
          have hn : q.vect.norm2 = q.z * q.z := by simp [V4.vect, V3.norm2, hx, hy]
          unfold polarP kacos ksqrt
          rw [Real.sin_arccos, hn]
          have hs : Real.sqrt (q.z * q.z) ≠ 0 := by
            rw [Real.sqrt_mul_self_eq_abs]; exact abs_ne_zero.mpr hz
          have : (q.z / Real.sqrt (q.z * q.z)) ^ 2 = 1 := by
            rw [div_pow, Real.sq_sqrt (mul_self_nonneg _)]
            field_simp
          rw [this]; simp
      rcases this with h0 | h0 <;> rw [hy, h0] <;> ring
    · by_cases hz : q.z = 0
      · have : Real.sqrt q.vect.norm2 = 0 := by simp [V4.vect, V3.norm2, hx, hy, hz]
        rw [this, hz]; ring
      · have hn : q.vect.norm2 = q.z * q.z := by simp [V4.vect, V3.norm2, hx, hy]
        have hs : Real.sqrt (q.z * q.z) ≠ 0 := by
          rw [Real.sqrt_mul_self_eq_abs]; exact abs_ne_zero.mpr hz
        have hle : -1 ≤ q.z / Real.sqrt (q.z * q.z) ∧ q.z / Real.sqrt (q.z * q.z) ≤ 1 := by
          rw [Real.sqrt_mul_self_eq_abs]
          have := abs_pos.mpr hz
          constructor
          · rw [le_div_iff₀ this]; linarith [neg_abs_le q.z]
          · rw [div_le_iff₀ this]; linarith [le_abs_self q.z]
        unfold polarP kacos ksqrt
        rw [hn, Real.cos_arccos hle.1 hle.2]
        field_simp

/-- `tanh² ω = |β|²` for the code's rapidity: the guard of `Boost_z` and the guard of `LorentzVector.boost` coincide -/
theorem tanh_omegaP_sq (P : V4) (h : Massive P) : Real.tanh (omegaP P) ^ 2 = P.boostVector.norm2 := by
  obtain ⟨h1, h2⟩ := omegaP_spec P h.pos h.timelike
  have hm := h.sqrt_pos
  have hc : 0 < Real.cosh (omegaP P) := Real.cosh_pos _
  rw [Real.tanh_eq_sinh_div_cosh]
  have e1 : Real.cosh (omegaP P) = P.t / Real.sqrt P.m2 := by field_simp; linarith
  have e2 : Real.sinh (omegaP P) = Real.sqrt P.vect.norm2 / Real.sqrt P.m2 := by field_simp; linarith
  have hn : 0 ≤ P.vect.norm2 := by
    simp only [V4.vect, V3.norm2]; nlinarith [mul_self_nonneg P.x, mul_self_nonneg P.y, mul_self_nonneg P.z]
  have ht : P.t ≠ 0 := ne_of_gt h.pos
  rw [e1, e2, div_pow, div_pow, div_pow, Real.sq_sqrt hn]
  simp only [V4.boostVector, V4.vect, V3.norm2]
  field_simp

theorem restM_det (P : V4) : (restM P).det = Cx.one := det_rule2R _ _ _

/-- `restM P` brings `P` to rest -/
theorem restM_to_rest (P : V4) (h : Massive P) : act (restM P) (herm P) = scalarM (Real.sqrt P.m2) := by
  have := rule2_to_rest (Real.sqrt P.m2) (azimuthP P) (polarP P) (omegaP P)
  rw [M2.one_mul, ← polar_of_massive P h] at this
  exact this

/-- **`rest_vector(P, ·)` IS the SL(2,ℂ) element `restM P`** on the regular branch of `LorentzVector.boost` … -/
theorem restVector_eq_lor_reg (P : V4) (h : Massive P) (hreg : eps < P.boostVector.norm2) (q : V4) :
    V4.restVector P q = lor (restM P) q := by
  have hreg' : eps < Real.tanh (omegaP P) ^ 2 := by rw [tanh_omegaP_sq P h]; exact hreg
  have hv := vertex_is_rest_vector (Real.sqrt P.m2) (azimuthP P) (polarP P) (omegaP P) h.sqrt_pos hreg' q
  rw [← polar_of_massive P h] at hv
  have hr : herm (vertexRot (azimuthP P) (polarP P) (V4.restVector P q)) =
      act (stepR (azimuthP P) (polarP P)) (herm (V4.restVector P q)) := (stepR_acts _ _ _).symm
  apply herm_inj
  rw [herm_lor]
  unfold restM rule2R
  rw [act_mul, act_mul]
  have : act (boostZ (omegaP P)) (act (stepR (azimuthP P) (polarP P)) (herm q)) =
      act (stepM ⟨azimuthP P, polarP P, omegaP P⟩) (herm q) := by
    unfold stepM; rw [act_mul]
  rw [this, hv, hr, act_inv_act _ _ (det_stepR _ _)]

theorem boostZ_zero : boostZ 0 = M2.one := by
  unfold boostZ kexp
  ext <;> simp [M2.one, Cx.inv, Cx.normSq, Cx.one, Cx.zero]

/-- … and when the parent is exactly at rest (both are the identity) -/
theorem restVector_eq_lor_rest (P : V4) (h : P.vect = ⟨0, 0, 0⟩) (q : V4) :
    V4.restVector P q = lor (restM P) q := by
  obtain ⟨t, x, y, z⟩ := P
  simp only [V4.vect, V3.mk.injEq] at h
  obtain ⟨rfl, rfl, rfl⟩ := h
  have h1 : V4.restVector ⟨t, 0, 0, 0⟩ q = q := by
    unfold V4.restVector
    have : (V4.boostVector ⟨t, 0, 0, 0⟩).neg = ⟨0, 0, 0⟩ := by simp [V4.boostVector, V3.neg]
    rw [this, TfPwaV.C11.boost_zero]
  have hw : omegaP ⟨t, 0, 0, 0⟩ = 0 := by
    unfold omegaP gammaP kacosh ksqrt
    simp [V4.boostVector, V3.norm2]
  have h2 : restM ⟨t, 0, 0, 0⟩ = M2.one := by
    simp only [restM, rule2R, hw, boostZ_zero, M2.mul_one]
    exact (su2_inv _ (det_stepR _ _)).1
  rw [h1, h2, lor_one]

theorem restVector_eq_lor (P : V4) (h : Massive P) (hg : GuardOK P) (q : V4) :
    V4.restVector P q = lor (restM P) q := by
  rcases hg with hg | hg
  · exact restVector_eq_lor_reg P h hg q
  · exact restVector_eq_lor_rest P hg q

/-! ### the Wigner element -/

/-- **`Λ` is orthochronous**: every element of SL(2,ℂ) maps a time-like momentum of positive energy to one of positive energy -/
theorem lor_pos (a : M2) (ha : a.det = Cx.one) (P : V4) (h : Massive P) : 0 < (lor a P).t := by
  obtain ⟨⟨p0, p1⟩, ⟨q0, q1⟩, ⟨r0, r1⟩, ⟨s0, s1⟩⟩ := a
  obtain ⟨t, x, y, z⟩ := P
  have hd := congrArg Cx.re ha
  simp only [M2.det, Cx.mul, Cx.add, Cx.neg, Cx.one] at hd
  have ht : 0 < t := h.pos
  have hm := h.m2_pos
  simp only [V4.m2, V4.dot] at hm
  have hN : 2 ≤ p0 ^ 2 + p1 ^ 2 + q0 ^ 2 + q1 ^ 2 + r0 ^ 2 + r1 ^ 2 + s0 ^ 2 + s1 ^ 2 := by
    nlinarith [sq_nonneg (p0 - s0), sq_nonneg (p1 + s1), sq_nonneg (q0 + r0), sq_nonneg (q1 - r1)]
  have e : (lor ⟨⟨p0, p1⟩, ⟨q0, q1⟩, ⟨r0, r1⟩, ⟨s0, s1⟩⟩ ⟨t, x, y, z⟩).t =
      ((p0 ^ 2 * t + p0 ^ 2 * z - 2 * p0 * q0 * x - 2 * p0 * q1 * y + p1 ^ 2 * t + p1 ^ 2 * z + 2 * p1 * q0 * y
          - 2 * p1 * q1 * x + q0 ^ 2 * t - q0 ^ 2 * z + q1 ^ 2 * t - q1 ^ 2 * z) +
        (r0 ^ 2 * t + r0 ^ 2 * z - 2 * r0 * s0 * x - 2 * r0 * s1 * y + r1 ^ 2 * t + r1 ^ 2 * z + 2 * r1 * s0 * y
          - 2 * r1 * s1 * x + s0 ^ 2 * t - s0 ^ 2 * z + s1 ^ 2 * t - s1 ^ 2 * z)) / 2 := by
    simp [lor, unherm, act, herm, dagger, M2.mul, Cx.mul, Cx.add, Cx.conj]
    ring
  rw [e]
  set X00 := p0 ^ 2 * t + p0 ^ 2 * z - 2 * p0 * q0 * x - 2 * p0 * q1 * y + p1 ^ 2 * t + p1 ^ 2 * z + 2 * p1 * q0 * y
          - 2 * p1 * q1 * x + q0 ^ 2 * t - q0 ^ 2 * z + q1 ^ 2 * t - q1 ^ 2 * z with hX00
  set X11 := r0 ^ 2 * t + r0 ^ 2 * z - 2 * r0 * s0 * x - 2 * r0 * s1 * y + r1 ^ 2 * t + r1 ^ 2 * z + 2 * r1 * s0 * y
          - 2 * r1 * s1 * x + s0 ^ 2 * t - s0 ^ 2 * z + s1 ^ 2 * t - s1 ^ 2 * z with hX11
  have i1 : (t + z) * X00 = (t * t - x * x - y * y - z * z) * (q0 ^ 2 + q1 ^ 2) + (p0 * (t + z) - q0 * x - q1 * y) ^ 2
      + (p1 * (t + z) + q0 * y - q1 * x) ^ 2 := by rw [hX00]; ring
  have i2 : (t - z) * X00 = (t * t - x * x - y * y - z * z) * (p0 ^ 2 + p1 ^ 2) + (q0 * (t - z) - x * p0 + y * p1) ^ 2
      + (q1 * (t - z) - x * p1 - y * p0) ^ 2 := by rw [hX00]; ring
  have j1 : (t + z) * X11 = (t * t - x * x - y * y - z * z) * (s0 ^ 2 + s1 ^ 2) + (r0 * (t + z) - s0 * x - s1 * y) ^ 2
      + (r1 * (t + z) + s0 * y - s1 * x) ^ 2 := by rw [hX11]; ring
  have j2 : (t - z) * X11 = (t * t - x * x - y * y - z * z) * (r0 ^ 2 + r1 ^ 2) + (s0 * (t - z) - x * r0 + y * r1) ^ 2
      + (s1 * (t - z) - x * r1 - y * r0) ^ 2 := by rw [hX11]; ring
  have key : 2 * (t * t - x * x - y * y - z * z) ≤ 2 * t * (X00 + X11) := by
    have hs : 2 * t * (X00 + X11) = (t + z) * X00 + (t - z) * X00 + ((t + z) * X11 + (t - z) * X11) := by ring
    rw [hs, i1, i2, j1, j2]
    have hmul := mul_nonneg hm.le (sub_nonneg.mpr hN)
    have g1 := sq_nonneg (p0 * (t + z) - q0 * x - q1 * y)
    have g2 := sq_nonneg (p1 * (t + z) + q0 * y - q1 * x)
    have g3 := sq_nonneg (q0 * (t - z) - x * p0 + y * p1)
    have g4 := sq_nonneg (q1 * (t - z) - x * p1 - y * p0)
    have g5 := sq_nonneg (r0 * (t + z) - s0 * x - s1 * y)
    have g6 := sq_nonneg (r1 * (t + z) + s0 * y - s1 * x)
    have g7 := sq_nonneg (s0 * (t - z) - x * r0 + y * r1)
    have g8 := sq_nonneg (s1 * (t - z) - x * r1 - y * r0)
    have hsplit : (t * t - x * x - y * y - z * z) * (q0 ^ 2 + q1 ^ 2) + (t * t - x * x - y * y - z * z) * (p0 ^ 2 + p1 ^ 2)
        + (t * t - x * x - y * y - z * z) * (s0 ^ 2 + s1 ^ 2) + (t * t - x * x - y * y - z * z) * (r0 ^ 2 + r1 ^ 2)
        = (t * t - x * x - y * y - z * z) * (p0 ^ 2 + p1 ^ 2 + q0 ^ 2 + q1 ^ 2 + r0 ^ 2 + r1 ^ 2 + s0 ^ 2 + s1 ^ 2 - 2)
          + 2 * (t * t - x * x - y * y - z * z) := by ring
    linarith only [hmul, g1, g2, g3, g4, g5, g6, g7, g8, hsplit]
  have hpos : 0 < X00 + X11 := by
    by_contra hc
    have hc := not_lt.mp hc
    have : 2 * t * (X00 + X11) ≤ 0 := mul_nonpos_of_nonneg_of_nonpos (by linarith) hc
    linarith
  linarith

theorem massive_lor (a : M2) (ha : a.det = Cx.one) (P : V4) (h : Massive P) (ht : 0 < (lor a P).t) :
    Massive (lor a P) := by
  refine ⟨ht, ?_⟩
  have := lor_m2 a ha P
  have hp := h.m2_pos
  rw [← this] at hp
  generalize lor a P = Q at hp
  obtain ⟨t, x, y, z⟩ := Q
  simp only [V4.vect, V3.norm2, V4.m2, V4.dot] at *
  nlinarith

theorem wignerM_det (a : M2) (ha : a.det = Cx.one) (P : V4) : (wignerM a P).det = Cx.one := by
  unfold wignerM
  refine det_mul_one _ _ (det_mul_one _ _ (restM_det _) ha) ?_
  rw [M2.det_inv]; exact restM_det _

/-- **the Wigner element is a rotation** -/
theorem wignerM_isSU2 (a : M2) (ha : a.det = Cx.one) (P : V4) (h : Massive P) (ht : 0 < (lor a P).t) :
    IsSU2 (wignerM a P) := by
  have h' := massive_lor a ha P h ht
  refine rest_stabiliser _ (wignerM_det a ha P) (Real.sqrt P.m2) (ne_of_gt h.sqrt_pos) ?_
  unfold wignerM
  rw [act_mul, act_mul]
  have e1 : act (restM P).inv (scalarM (Real.sqrt P.m2)) = herm P := by
    rw [← restM_to_rest P h]; exact act_inv_act _ _ (restM_det P)
  rw [e1, ← herm_lor, restM_to_rest _ h', lor_m2 a ha]

theorem wignerM_mul_restM (a : M2) (P : V4) : (wignerM a P).mul (restM P) = (restM (lor a P)).mul a := by
  unfold wignerM
  rw [su2_mul_assoc, (su2_inv _ (restM_det P)).1, M2.mul_one]

/-! ### the rotation of three-space that belongs to an element of SU(2) -/

theorem lor_su2_eq_spatial (w : M2) (hw : IsSU2 w) (q : V4) : lor w q = spatial (rotOf w) q := by
  obtain ⟨h11, h01, hn⟩ := hw
  obtain ⟨⟨a0, a1⟩, x01, ⟨c0, c1⟩, x11⟩ := w
  simp only at h11 h01 hn
  subst h11 h01
  simp only [Cx.normSq] at hn
  obtain ⟨t, x, y, z⟩ := q
  ext <;> simp [spatial, rotOf, lor, unherm, act, herm, dagger, M2.mul, Cx.mul, Cx.add, Cx.conj, Cx.neg, V4.vect]
  · linear_combination t * hn
  all_goals ring

theorem rotOf_isRot (w : M2) (hw : IsSU2 w) : IsRot (rotOf w) := by
  obtain ⟨h11, h01, hn⟩ := hw
  obtain ⟨⟨a0, a1⟩, x01, ⟨c0, c1⟩, x11⟩ := w
  simp only at h11 h01 hn
  subst h11 h01
  simp only [Cx.normSq] at hn
  refine ⟨?_, ?_, ?_, ?_⟩
  · intro a b
    ext <;> simp [rotOf, lor, unherm, act, herm, dagger, M2.mul, Cx.mul, Cx.add, Cx.conj, Cx.neg, V4.vect, V3.add] <;> ring
  · intro c a
    ext <;> simp [rotOf, lor, unherm, act, herm, dagger, M2.mul, Cx.mul, Cx.add, Cx.conj, Cx.neg, V4.vect, V3.smul] <;> ring
  · intro a b
    simp only [rotOf, lor, unherm, act, herm, dagger, M2.mul, Cx.mul, Cx.add, Cx.conj, Cx.neg, V4.vect, V3.dot]
    linear_combination ((a0 * a0 + a1 * a1 + (c0 * c0 + c1 * c1) + 1) * (a.x * b.x + a.y * b.y + a.z * b.z)) * hn
  · intro a b
    ext
    · linear_combination (norm := skip)
        (-(rotOf ⟨⟨a0, a1⟩, (Cx.conj ⟨c0, c1⟩).neg, ⟨c0, c1⟩, Cx.conj ⟨a0, a1⟩⟩ (a.cross b)).x) * hn
      simp only [rotOf, lor, unherm, act, herm, dagger, M2.mul, Cx.mul, Cx.add, Cx.conj, Cx.neg, V4.vect, V3.cross]
      ring1
    · linear_combination (norm := skip)
        (-(rotOf ⟨⟨a0, a1⟩, (Cx.conj ⟨c0, c1⟩).neg, ⟨c0, c1⟩, Cx.conj ⟨a0, a1⟩⟩ (a.cross b)).y) * hn
      simp only [rotOf, lor, unherm, act, herm, dagger, M2.mul, Cx.mul, Cx.add, Cx.conj, Cx.neg, V4.vect, V3.cross]
      ring1
    · linear_combination (norm := skip)
        (-(rotOf ⟨⟨a0, a1⟩, (Cx.conj ⟨c0, c1⟩).neg, ⟨c0, c1⟩, Cx.conj ⟨a0, a1⟩⟩ (a.cross b)).z) * hn
      simp only [rotOf, lor, unherm, act, herm, dagger, M2.mul, Cx.mul, Cx.add, Cx.conj, Cx.neg, V4.vect, V3.cross]
      ring1

/-- the inverse rotation -/
theorem rotOf_inv_rotOf (w : M2) (hw : IsSU2 w) (v : V3) : rotOf w.inv (rotOf w v) = v := by
  have hd := isSU2_det w hw
  have h1 : lor w ⟨0, v.x, v.y, v.z⟩ = ⟨0, (rotOf w v).x, (rotOf w v).y, (rotOf w v).z⟩ := by
    rw [lor_su2_eq_spatial w hw]; rfl
  unfold rotOf at *
  rw [← h1, lor_inv_lor w hd]
  rfl

theorem isSU2_inv (w : M2) (hw : IsSU2 w) : IsSU2 w.inv := by
  obtain ⟨h11, h01, hn⟩ := hw
  obtain ⟨⟨a0, a1⟩, x01, ⟨c0, c1⟩, x11⟩ := w
  simp only at h11 h01 hn
  subst h11 h01
  refine ⟨?_, ?_, ?_⟩
  · ext <;> simp [M2.inv, Cx.conj]
  · ext <;> simp [M2.inv, Cx.conj, Cx.neg]
  · simp only [M2.inv, Cx.conj, Cx.neg, Cx.normSq] at *
    linarith

/-! ### trees: `infer_momentum`, `cal_chain_boost` under a map that intertwines with a rotation -/

theorem infer_map_add (f : V4 → V4) (hf : ∀ a b, f (a.add b) = (f a).add (f b)) :
    ∀ t : MTree, inferMomentum (t.map f) = PTree.mapP f (inferMomentum t)
  | .leaf p => rfl
  | .node a b => by
    simp only [MTree.map, inferMomentum, PTree.mapP]
    rw [infer_map_add f hf a, infer_map_add f hf b, TfPwaV.C11.total_map f hf a, TfPwaV.C11.total_map f hf b, hf]

variable {R : V3 → V3}

/-- `cal_chain_boost` on momenta transformed by a mass-preserving map `L`, when the boost composition `g'` used after and
the one `g` used before intertwine `L` with ONE rotation `R`: every stored rest-frame momentum is rotated by `R` -/
theorem chainBoost_intertwine (h : IsRot R) (L : V4 → V4) (hm : ∀ p, (L p).mass = p.mass) :
    ∀ (T : PTree) (g g' : V4 → V4), (∀ q, g' (L q) = spatial R (g q)) →
      chainBoost (PTree.mapP L T) g' = RTree.mapR (spatial R) (chainBoost T g)
  | .leaf p, g, g', _ => by simp only [PTree.mapP, CascadeR.chainBoost, RTree.mapR, hm]
  | .node p d1 d2, g, g', hg => by
    simp only [PTree.mapP, CascadeR.chainBoost, RTree.mapR, mapP_p, hg, hm]
    rw [chainBoost_intertwine h L hm d1 (fun q => (g d1.p).restVector (g q)) _ (fun q => by simp only [hg, h.restVector]),
      chainBoost_intertwine h L hm d2 (fun q => (g d2.p).restVector (g q)) _ (fun q => by simp only [hg, h.restVector])]

theorem mapR_mapR (f g : V4 → V4) : ∀ t : RTree, RTree.mapR g (RTree.mapR f t) = RTree.mapR (fun q => g (f q)) t
  | .leaf _ => rfl
  | .node m r1 r2 a b => by simp only [RTree.mapR, mapR_mapR f g a, mapR_mapR f g b]

theorem mapR_id (f : V4 → V4) (hf : ∀ q, f q = q) : ∀ t : RTree, RTree.mapR f t = t
  | .leaf _ => rfl
  | .node m r1 r2 a b => by simp only [RTree.mapR, hf, mapR_id f hf a, mapR_id f hf b]

/-- the rapidities `LorentzVector.omega(rest_p)` that `cal_helicity_angle` feeds to `Boost_z_from_p`, in preorder -/
noncomputable def rapidities : RTree → List ℝ
  | .leaf _ => []
  | .node _ r1 r2 d1 d2 => omegaP r1 :: omegaP r2 :: (rapidities d1 ++ rapidities d2)

theorem omegaP_spatial (h : IsRot R) (p : V4) : omegaP (spatial R p) = omegaP p := by
  unfold omegaP gammaP
  rw [h.boostVector, h.norm2]

theorem rapidities_mapR (h : IsRot R) : ∀ t : RTree, rapidities (RTree.mapR (spatial R) t) = rapidities t
  | .leaf _ => rfl
  | .node m r1 r2 a b => by
    simp only [RTree.mapR, rapidities, omegaP_spatial h, rapidities_mapR h a, rapidities_mapR h b]

end TfPwaV.LorentzSLR
