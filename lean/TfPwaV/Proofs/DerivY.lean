import TfPwaV.Gen.DerivYR
import TfPwaV.Proofs.Deriv
import Mathlib.Analysis.Calculus.FDeriv.Prod
import Mathlib.Analysis.Calculus.FDeriv.Pi
/-!
# Helper lemmas for C07d: closed forms of the `DerivY` assembly functions on `List.ofFn` arguments
-/
open TfPwaV.ScalarR
namespace TfPwaV.DerivYR
open TfPwaV.DerivR

theorem wsum_ofFn {n m : Nat} (c : Fin m → ℝ) (G : Fin m → Fin n → ℝ) :
    wsum n (List.ofFn c) (ofFn2 G) = List.ofFn (fun k => ∑ j, c j * G j k) := by
  unfold wsum ofFn2
  rw [zipWith_ofFn]
  have h : (fun i => (List.ofFn (G i)).map (fun x => c i * x)) = fun i => List.ofFn (fun k => c i * G i k) := by
    funext i
    rw [List.map_ofFn]
    rfl
  rw [h, combineVec_ofFn]

theorem partGrad_ofFn {n m : Nat} (gθ : Fin n → ℝ) (gN : Fin m → ℝ) (G : Fin m → Fin n → ℝ) :
    partGrad n (List.ofFn gθ) (List.ofFn gN) (ofFn2 G) = List.ofFn (fun k => gθ k + ∑ j, gN j * G j k) := by
  unfold partGrad
  rw [wsum_ofFn, vadd_ofFn]

/-- the data-batch loop of `nll_grad_batch` in closed form -/
theorem customAcc_ofFn {n m : Nat} (G : Fin m → Fin n → ℝ) : ∀ {Bd : Nat} (r : ℝ) (g : Fin n → ℝ) (a : Fin Bd → ℝ)
    (gθ : Fin Bd → Fin n → ℝ) (gN : Fin Bd → Fin m → ℝ),
    customAcc n (ofFn2 G) (r, List.ofFn g) (List.ofFn fun b => (a b, List.ofFn (gθ b), List.ofFn (gN b)))
      = (r + ∑ b, a b, List.ofFn fun k => g k + ∑ b, (gθ b k + ∑ j, gN b j * G j k))
  | 0, r, g, a, gθ, gN => by simp [customAcc]
  | Bd + 1, r, g, a, gθ, gN => by
    rw [List.ofFn_succ, customAcc]
    simp only
    rw [partGrad_ofFn, vadd_ofFn, customAcc_ofFn G]
    congr 1
    · rw [Fin.sum_univ_succ]; ring
    · congr 1
      funext k
      rw [Fin.sum_univ_succ]; ring

theorem svAdd_ofFn {n m : Nat} (x y : Fin m → ℝ) (G H : Fin m → Fin n → ℝ) :
    svAdd (List.ofFn x, ofFn2 G) (List.ofFn y, ofFn2 H) = (List.ofFn (fun j => x j + y j), ofFn2 (fun j k => G j k + H j k)) := by
  unfold svAdd
  simp only
  rw [vadd_ofFn, madd_ofFn]

/-- the MC-batch loop (`SumVar.__add__`) in closed form -/
theorem svFold_ofFn {n m : Nat} : ∀ {Bm : Nat} (x0 : Fin m → ℝ) (G0 : Fin m → Fin n → ℝ) (x : Fin Bm → Fin m → ℝ)
    (G : Fin Bm → Fin m → Fin n → ℝ),
    svFold (List.ofFn x0, ofFn2 G0) (List.ofFn fun c => (List.ofFn (x c), ofFn2 (G c)))
      = (List.ofFn (fun j => x0 j + ∑ c, x c j), ofFn2 (fun j k => G0 j k + ∑ c, G c j k))
  | 0, x0, G0, x, G => by simp [svFold]
  | Bm + 1, x0, G0, x, G => by
    rw [List.ofFn_succ, svFold, svAdd_ofFn, svFold_ofFn]
    congr 1
    · congr 1; funext j; rw [Fin.sum_univ_succ]; ring
    · unfold ofFn2; congr 1; funext j; congr 1; funext k
      show G0 j k + G 0 j k + ∑ c : Fin Bm, G c.succ j k = G0 j k + ∑ c : Fin (Bm + 1), G c j k
      rw [Fin.sum_univ_succ (fun c => G c j k)]; ring

theorem svSum_ofFn {n m Bm : Nat} (x : Fin (Bm + 1) → Fin m → ℝ) (G : Fin (Bm + 1) → Fin m → Fin n → ℝ) :
    svSum n (List.ofFn fun c => (List.ofFn (x c), ofFn2 (G c)))
      = (List.ofFn (fun j => ∑ c, x c j), ofFn2 (fun j k => ∑ c, G c j k)) := by
  rw [List.ofFn_succ, svSum, svFold_ofFn]
  congr 1
  · congr 1; funext j; rw [Fin.sum_univ_succ]
  · unfold ofFn2; congr 1; funext j; congr 1; funext k
    show G 0 j k + ∑ c : Fin Bm, G c.succ j k = ∑ c : Fin (Bm + 1), G c j k
    rw [Fin.sum_univ_succ (fun c => G c j k)]

/-- `BaseCustomModel.nll_grad_batch` in closed form -/
theorem customNllGrad_ofFn {n m Bm Bd : Nat} (x : Fin (Bm + 1) → Fin m → ℝ) (G : Fin (Bm + 1) → Fin m → Fin n → ℝ)
    (a : Fin Bd → ℝ) (gθ : Fin Bd → Fin n → ℝ) (gN : Fin Bd → Fin m → ℝ) :
    customNllGrad n (List.ofFn fun c => (List.ofFn (x c), ofFn2 (G c)))
        (List.ofFn fun b => (a b, List.ofFn (gθ b), List.ofFn (gN b)))
      = (∑ b, a b, List.ofFn fun k => ∑ b, (gθ b k + ∑ j, gN b j * ∑ c, G c j k)) := by
  unfold customNllGrad
  rw [svSum_ofFn]
  simp only
  rw [← List.ofFn_const n (0 : ℝ), customAcc_ofFn]
  congr 1
  · ring
  · congr 1; funext k; ring

/-- a continuous linear functional on `ℝ × (Fin m → ℝ)` is determined by its values on the coordinate directions -/
theorem clm_prod_pi_apply {m : Nat} (l : ℝ × (Fin m → ℝ) →L[ℝ] ℝ) (v : Fin m → ℝ) :
    l (1, v) = l (1, 0) + ∑ j, v j * l (0, Pi.single j 1) := by
  have h : ((1 : ℝ), v) = (1, 0) + ∑ j, v j • ((0 : ℝ), (Pi.single j 1 : Fin m → ℝ)) := by
    ext
    · simp [Prod.fst_sum]
    · rename_i i
      simp [Prod.snd_sum, Finset.sum_apply, Pi.single_apply]
  rw [h, map_add, map_sum]
  simp only [map_smul, smul_eq_mul]

/-- a function of (position on the line, normalisation factors) along the curve `(s, N(s))` -/
theorem compN_hasDerivAt {m : Nat} (A : ℝ × (Fin m → ℝ) → ℝ) (A' : ℝ × (Fin m → ℝ) →L[ℝ] ℝ) (N : Fin m → ℝ → ℝ)
    (N' : Fin m → ℝ) (t : ℝ) (hA : HasFDerivAt A A' (t, fun j => N j t)) (hN : ∀ j, HasDerivAt (N j) (N' j) t) :
    HasDerivAt (fun s => A (s, fun j => N j s)) (A' (1, 0) + ∑ j, N' j * A' (0, Pi.single j 1)) t := by
  have hc : HasDerivAt (fun s => (s, fun j => N j s)) ((1 : ℝ), N') t :=
    (hasDerivAt_id' t).prodMk (hasDerivAt_pi.2 hN)
  have h := hA.comp_hasDerivAt t hc
  rw [clm_prod_pi_apply] at h
  exact h

/-! ### `constr_frac` once-only terms and the cfit tape on `List.ofFn` arguments -/

theorem fracTerm_ofFn (n0 : ℝ) : ∀ {c : Nat} (x : Fin c → ℝ) (cs : Fin c → ℝ × ℝ),
    fracTerm n0 (List.ofFn x) (List.ofFn cs)
      = ∑ i, 0.5 * (((x i / n0 - (cs i).1) / (cs i).2) * ((x i / n0 - (cs i).1) / (cs i).2))
  | 0, x, cs => by simp [fracTerm]
  | c + 1, x, cs => by
    rw [List.ofFn_succ, List.ofFn_succ, fracTerm, fracTerm_ofFn, Fin.sum_univ_succ]

theorem fracGN0_ofFn (n0 : ℝ) : ∀ {c : Nat} (x : Fin c → ℝ) (cs : Fin c → ℝ × ℝ),
    fracGN0 n0 (List.ofFn x) (List.ofFn cs)
      = ∑ i, (x i / n0 - (cs i).1) / (cs i).2 / (cs i).2 * (-(x i / (n0 * n0)))
  | 0, x, cs => by simp [fracGN0]
  | c + 1, x, cs => by
    rw [List.ofFn_succ, List.ofFn_succ, fracGN0, fracGN0_ofFn, Fin.sum_univ_succ]

theorem fracGNrest_ofFn (n0 : ℝ) : ∀ {c : Nat} (x : Fin c → ℝ) (cs : Fin c → ℝ × ℝ),
    fracGNrest n0 (List.ofFn x) (List.ofFn cs)
      = List.ofFn fun i => (x i / n0 - (cs i).1) / (cs i).2 / (cs i).2 / n0
  | 0, x, cs => by simp [fracGNrest]
  | c + 1, x, cs => by
    rw [List.ofFn_succ, List.ofFn_succ, fracGNrest, fracGNrest_ofFn,
      List.ofFn_succ (f := fun i => (x i / n0 - (cs i).1) / (cs i).2 / (cs i).2 / n0)]

theorem cfitTapeVal_ofFn {m : Nat} (wb vs vb : ℝ) (w S Bg : Fin m → ℝ) :
    cfitTapeVal wb vs vb (List.ofFn w) (List.ofFn S) (List.ofFn Bg) = ∑ i, w i * clipLog (cfitProb wb vs vb (S i) (Bg i)) := by
  unfold cfitTapeVal
  rw [zipWith_ofFn, dot_ofFn]

theorem cfitTapeGSig_ofFn {m : Nat} (wb vs vb : ℝ) (w S Bg : Fin m → ℝ) :
    cfitTapeGSig wb vs vb (List.ofFn w) (List.ofFn S) (List.ofFn Bg)
      = ∑ i, w i * clipLogD (cfitProb wb vs vb (S i) (Bg i)) * (-((1 - wb) * S i / (vs * vs))) := by
  unfold cfitTapeGSig
  rw [zipWith_ofFn, List.map_ofFn, dot3_ofFn]
  rfl

theorem cfitTapeGBg_ofFn {m : Nat} (wb vs vb : ℝ) (w S Bg : Fin m → ℝ) :
    cfitTapeGBg wb vs vb (List.ofFn w) (List.ofFn S) (List.ofFn Bg)
      = ∑ i, w i * clipLogD (cfitProb wb vs vb (S i) (Bg i)) * (-(wb * Bg i / (vb * vb))) := by
  unfold cfitTapeGBg
  rw [zipWith_ofFn, List.map_ofFn, dot3_ofFn]
  rfl

theorem cfitTapeGθ_ofFn {m n : Nat} (wb vs vb : ℝ) (w S Bg : Fin m → ℝ) (dS dB : Fin n → Fin m → ℝ) :
    cfitTapeGθ wb vs vb (List.ofFn w) (List.ofFn S) (List.ofFn Bg) (ofFn2 dS) (ofFn2 dB)
      = List.ofFn fun k => ∑ i, w i * clipLogD (cfitProb wb vs vb (S i) (Bg i)) * ((1 - wb) * dS k i / vs + wb * dB k i / vb) := by
  unfold cfitTapeGθ ofFn2
  rw [zipWith_ofFn]
  congr 1
  funext k
  rw [zipWith_ofFn, zipWith_ofFn, dot3_ofFn]

/-! ### `nll_grad_hessian` of the custom family on `List.ofFn` arguments -/

def ofFn3 {a b c : Nat} (Z : Fin a → Fin b → Fin c → ℝ) : List (List (List ℝ)) := List.ofFn fun i => ofFn2 (Z i)

theorem partHessEntry_ofFn {m : Nat} (akl : ℝ) (Bk Rtl Yk Yl gN Zkl Zlk : Fin m → ℝ) (C : Fin m → Fin m → ℝ) :
    partHessEntry akl (List.ofFn Bk) (List.ofFn Rtl) (List.ofFn Yk) (List.ofFn Yl) (List.ofFn gN) (List.ofFn Zkl) (List.ofFn Zlk) (ofFn2 C)
      = akl + ∑ j, Bk j * Yl j + ∑ j, Yk j * Rtl j + ∑ j, Yk j * (∑ j', C j j' * Yl j') + ∑ j, gN j * (0.5 * (Zkl j + Zlk j)) := by
  unfold partHessEntry
  rw [matVec_ofFn, zipWith_ofFn, dot_ofFn, dot_ofFn, dot_ofFn, dot_ofFn]

/-- entry `(k, l)` of the Hessian of one data batch -/
def partHessFn {n m : Nat} (A : Fin n → Fin n → ℝ) (B Rt Yt : Fin n → Fin m → ℝ) (C : Fin m → Fin m → ℝ) (gN : Fin m → ℝ)
    (Z Zt : Fin n → Fin n → Fin m → ℝ) (k l : Fin n) : ℝ :=
  A k l + ∑ j, B k j * Yt l j + ∑ j, Yt k j * Rt l j + ∑ j, Yt k j * (∑ j', C j j' * Yt l j') + ∑ j, gN j * (0.5 * (Z k l j + Zt k l j))

theorem partHess_ofFn {n m : Nat} (A : Fin n → Fin n → ℝ) (B Rt Yt : Fin n → Fin m → ℝ) (C : Fin m → Fin m → ℝ) (gN : Fin m → ℝ)
    (Z Zt : Fin n → Fin n → Fin m → ℝ) :
    partHess (ofFn2 A) (ofFn2 B) (ofFn2 Rt) (ofFn2 Yt) (ofFn2 C) (List.ofFn gN) (ofFn3 Z) (ofFn3 Zt)
      = ofFn2 (partHessFn A B Rt Yt C gN Z Zt) := by
  unfold partHess ofFn3
  have hA : ofFn2 A = List.ofFn fun k => List.ofFn (A k) := rfl
  have hB : ofFn2 B = List.ofFn fun k => List.ofFn (B k) := rfl
  have hY : ofFn2 Yt = List.ofFn fun k => List.ofFn (Yt k) := rfl
  rw [hA, hB, hY, zip_ofFn, zip_ofFn, zip3_ofFn]
  unfold ofFn2
  congr 1
  funext k
  simp only
  rw [zip_ofFn, zip_ofFn, zip3_ofFn]
  congr 1
  funext l
  exact partHessEntry_ofFn (A k l) (B k) (Rt l) (Yt k) (Yt l) gN (Z k l) (Zt k l) C

/-- the data-batch loop of `nll_grad_hessian` in closed form -/
theorem customAccH_ofFn {n m : Nat} (Y : Fin m → Fin n → ℝ) (Yt : Fin n → Fin m → ℝ) (Z Zt : Fin n → Fin n → Fin m → ℝ) :
    ∀ {Bd : Nat} (r : ℝ) (g : Fin n → ℝ) (H : Fin n → Fin n → ℝ) (a : Fin Bd → ℝ) (gθ : Fin Bd → Fin n → ℝ) (gN : Fin Bd → Fin m → ℝ)
      (A : Fin Bd → Fin n → Fin n → ℝ) (B Rt : Fin Bd → Fin n → Fin m → ℝ) (C : Fin Bd → Fin m → Fin m → ℝ),
    customAccH n (ofFn2 Y) (ofFn2 Yt) (ofFn3 Z) (ofFn3 Zt) (r, List.ofFn g, ofFn2 H)
        (List.ofFn fun b => { a := a b, gθ := List.ofFn (gθ b), gN := List.ofFn (gN b), A := ofFn2 (A b), B := ofFn2 (B b),
                              Rt := ofFn2 (Rt b), C := ofFn2 (C b) })
      = (r + ∑ b, a b, List.ofFn (fun k => g k + ∑ b, (gθ b k + ∑ j, gN b j * Y j k)),
          ofFn2 fun k l => H k l + ∑ b, partHessFn (A b) (B b) (Rt b) Yt (C b) (gN b) Z Zt k l)
  | 0, r, g, H, a, gθ, gN, A, B, Rt, C => by simp [customAccH]
  | Bd + 1, r, g, H, a, gθ, gN, A, B, Rt, C => by
    rw [List.ofFn_succ, customAccH]
    simp only
    rw [partGrad_ofFn, vadd_ofFn, partHess_ofFn, madd_ofFn, customAccH_ofFn Y Yt Z Zt]
    refine Prod.ext ?_ (Prod.ext ?_ ?_)
    · simp only; rw [Fin.sum_univ_succ]; ring
    · simp only; congr 1; funext k; rw [Fin.sum_univ_succ]; ring
    · simp only; unfold ofFn2; congr 1; funext k; congr 1; funext l
      show H k l + partHessFn (A 0) (B 0) (Rt 0) Yt (C 0) (gN 0) Z Zt k l
            + ∑ b : Fin Bd, partHessFn (A b.succ) (B b.succ) (Rt b.succ) Yt (C b.succ) (gN b.succ) Z Zt k l
          = H k l + ∑ b : Fin (Bd + 1), partHessFn (A b) (B b) (Rt b) Yt (C b) (gN b) Z Zt k l
      rw [Fin.sum_univ_succ (fun b => partHessFn (A b) (B b) (Rt b) Yt (C b) (gN b) Z Zt k l)]; ring

/-- exchange of a parameter sum with a factor sum -/
theorem sum_mul_comm {n m : Nat} (c : Fin m → ℝ) (f : Fin n → Fin m → ℝ) (p : Fin n → ℝ) :
    ∑ l, (∑ j, c j * f l j) * p l = ∑ j, c j * ∑ l, f l j * p l := by
  have h1 : ∀ l, (∑ j, c j * f l j) * p l = ∑ j, c j * (f l j * p l) := fun l => by
    rw [Finset.sum_mul]; apply Finset.sum_congr rfl; intro j _; ring
  rw [Finset.sum_congr rfl (fun l _ => h1 l), Finset.sum_comm]
  apply Finset.sum_congr rfl; intro j _
  rw [Finset.mul_sum]

/-- `H·p` of one data batch, written with the directional derivatives of the factor table -/
theorem partHessFn_mulVec {n m : Nat} (A : Fin n → Fin n → ℝ) (B Rt Yt : Fin n → Fin m → ℝ) (C : Fin m → Fin m → ℝ) (gN : Fin m → ℝ)
    (Z Zt : Fin n → Fin n → Fin m → ℝ) (p : Fin n → ℝ) (k : Fin n) :
    ∑ l, partHessFn A B Rt Yt C gN Z Zt k l * p l
      = ∑ l, A k l * p l + ∑ j, B k j * (∑ l, Yt l j * p l) + ∑ j, Yt k j * (∑ l, Rt l j * p l)
        + ∑ j, Yt k j * (∑ j', C j j' * ∑ l, Yt l j' * p l)
        + ∑ j, gN j * (0.5 * (∑ l, Z k l j * p l + ∑ l, Zt k l j * p l)) := by
  unfold partHessFn
  simp only [add_mul, Finset.sum_add_distrib]
  rw [sum_mul_comm (B k) Yt p, sum_mul_comm (Yt k) Rt p]
  congr 1
  · congr 1
    rw [sum_mul_comm (Yt k) (fun l j => ∑ j', C j j' * Yt l j') p]
    apply Finset.sum_congr rfl; intro j _
    rw [sum_mul_comm (C j) Yt p]
  · rw [sum_mul_comm gN (fun l j => 0.5 * (Z k l j + Zt k l j)) p]
    apply Finset.sum_congr rfl; intro j _
    rw [← Finset.sum_add_distrib, Finset.mul_sum, Finset.mul_sum, Finset.mul_sum]
    apply Finset.sum_congr rfl; intro l _
    ring

theorem replicate2_eq_ofFn2 (n : Nat) : List.replicate n (List.replicate n (0 : ℝ)) = ofFn2 (fun (_ _ : Fin n) => (0 : ℝ)) := by
  unfold ofFn2
  rw [List.ofFn_const, List.ofFn_const]

theorem inmcVal_ofFn {m : Nat} (I wmc : ℝ) (w f : Fin m → ℝ) :
    inmcVal I wmc (List.ofFn w) (List.ofFn f) = -∑ i, w i * clipLog (inmcArg I wmc (f i)) := by
  unfold inmcVal
  rw [List.map_ofFn, dot_ofFn]
  rfl

theorem inmcGrad_ofFn {m n : Nat} (I wmc : ℝ) (w f : Fin m → ℝ) (df : Fin n → Fin m → ℝ) (gI : Fin n → ℝ) :
    inmcGrad I wmc (List.ofFn w) (List.ofFn f) (ofFn2 df) (List.ofFn gI)
      = List.ofFn fun k => -∑ i, w i * clipLogD (inmcArg I wmc (f i)) * ((df k i / I - f i * gI k / (I * I)) / (1 + wmc)) := by
  unfold inmcGrad ofFn2
  rw [zipWith_ofFn]
  congr 1
  funext k
  rw [List.map_ofFn, zipWith_ofFn, dot3_ofFn]
  rfl

/-! ### `constr_frac`: `eval_nll_part` and its partials on a factor vector `N : Fin (c + 1) → ℝ` -/

/-- the partials `constrFracGN` as a function on `Fin (c + 1)` -/
noncomputable def cfGNfn {c : Nat} (idx : Nat) (sw : ℝ) (N : Fin (c + 1) → ℝ) (cs : Fin c → ℝ × ℝ) : Fin (c + 1) → ℝ :=
  Fin.cons
    (sw / N 0 + if idx = 0 then ∑ i, (N i.succ / N 0 - (cs i).1) / (cs i).2 / (cs i).2 * (-(N i.succ / (N 0 * N 0))) else 0)
    (fun i => if idx = 0 then (N i.succ / N 0 - (cs i).1) / (cs i).2 / (cs i).2 / N 0 else 0)

theorem constrFracGN_ofFn {c : Nat} (idx : Nat) (sw : ℝ) (N : Fin (c + 1) → ℝ) (cs : Fin c → ℝ × ℝ) :
    constrFracGN idx sw (List.ofFn N) (List.ofFn cs) = List.ofFn (cfGNfn idx sw N cs) := by
  unfold constrFracGN cfGNfn
  rw [List.ofFn_succ (f := N)]
  simp only [List.headD_cons, List.tail_cons]
  rw [fracGN0_ofFn, fracGNrest_ofFn, List.ofFn_succ]
  simp only [Fin.cons_zero, Fin.cons_succ]
  by_cases h : idx = 0
  · simp only [h, if_true]
  · simp only [h, if_false, add_zero, List.map_ofFn]
    rfl

theorem constrFracVal_ofFn {c : Nat} (idx : Nat) (ln sw : ℝ) (N : Fin (c + 1) → ℝ) (cs : Fin c → ℝ × ℝ) :
    constrFracVal idx ln sw (List.ofFn N) (List.ofFn cs)
      = -ln + sw * Real.log (N 0) + if idx = 0 then fracTerm (N 0) (List.ofFn fun i => N i.succ) (List.ofFn cs) else 0 := by
  unfold constrFracVal
  rw [List.ofFn_succ (f := N)]
  simp only [List.headD_cons, List.tail_cons, klog]
  by_cases h : idx = 0
  · simp only [h, if_true]
  · simp only [h, if_false, add_zero]

/-! ### `MixLogLikehoodFCN` -/

theorem mixVal_ofFn {k : Nat} (ln : ℝ) (ext : Fin k → Bool) (I nd : Fin k → ℝ) (g : Fin k → List ℝ) :
    mixVal ln (List.ofFn fun i => (ext i, I i, nd i, g i)) = -ln + ∑ i, intF (ext i) (I i) * nd i := by
  unfold mixVal
  rw [List.map_ofFn, sumK]
  congr 1
  exact sumK_ofFn _

theorem mixGrad_ofFn {n k : Nat} (gLn : Fin n → ℝ) (ext : Fin k → Bool) (I nd : Fin k → ℝ) (g : Fin k → Fin n → ℝ) :
    mixGrad n (List.ofFn gLn) (List.ofFn fun i => (ext i, I i, nd i, List.ofFn (g i)))
      = List.ofFn fun j => -gLn j + ∑ i, nd i * intG (ext i) (I i) * g i j := by
  unfold mixGrad
  rw [List.map_ofFn, List.map_ofFn, combineVec]
  have h : ((fun q : Bool × ℝ × ℝ × List ℝ => q.2.2.2.map fun x => q.2.2.1 * intG q.1 q.2.1 * x) ∘
        fun i => (ext i, I i, nd i, List.ofFn (g i)))
      = fun i => List.ofFn fun j => nd i * intG (ext i) (I i) * g i j := by
    funext i
    simp only [Function.comp]
    rw [List.map_ofFn]
    rfl
  rw [h, combineVec_ofFn, vadd_ofFn]
  rfl


/-! ### `SumVar` with Hessians: the MC-batch loop of `nll_grad_hessian` -/

theorem svhAdd_ofFn {n m : Nat} (x y : Fin m → ℝ) (G H : Fin m → Fin n → ℝ) (Z W : Fin m → Fin n → Fin n → ℝ) :
    svhAdd (List.ofFn x, ofFn2 G, ofFn3 Z) (List.ofFn y, ofFn2 H, ofFn3 W)
      = (List.ofFn (fun j => x j + y j), ofFn2 (fun j k => G j k + H j k), ofFn3 (fun j k l => Z j k l + W j k l)) := by
  unfold svhAdd
  simp only
  rw [vadd_ofFn, madd_ofFn]
  congr 2
  unfold ofFn3
  rw [zipWith_ofFn]
  congr 1
  funext j
  rw [madd_ofFn]

theorem svhFold_ofFn {n m : Nat} : ∀ {Bm : Nat} (x0 : Fin m → ℝ) (G0 : Fin m → Fin n → ℝ) (Z0 : Fin m → Fin n → Fin n → ℝ)
    (x : Fin Bm → Fin m → ℝ) (G : Fin Bm → Fin m → Fin n → ℝ) (Z : Fin Bm → Fin m → Fin n → Fin n → ℝ),
    svhFold (List.ofFn x0, ofFn2 G0, ofFn3 Z0) (List.ofFn fun c => (List.ofFn (x c), ofFn2 (G c), ofFn3 (Z c)))
      = (List.ofFn (fun j => x0 j + ∑ c, x c j), ofFn2 (fun j k => G0 j k + ∑ c, G c j k),
          ofFn3 (fun j k l => Z0 j k l + ∑ c, Z c j k l))
  | 0, x0, G0, Z0, x, G, Z => by simp [svhFold]
  | Bm + 1, x0, G0, Z0, x, G, Z => by
    rw [List.ofFn_succ, svhFold, svhAdd_ofFn, svhFold_ofFn]
    refine Prod.ext ?_ (Prod.ext ?_ ?_)
    · simp only; congr 1; funext j; rw [Fin.sum_univ_succ]; ring
    · simp only; unfold ofFn2; congr 1; funext j; congr 1; funext k
      show G0 j k + G 0 j k + ∑ c : Fin Bm, G c.succ j k = G0 j k + ∑ c : Fin (Bm + 1), G c j k
      rw [Fin.sum_univ_succ (fun c => G c j k)]; ring
    · simp only; unfold ofFn3 ofFn2; congr 1; funext j; congr 1; funext k; congr 1; funext l
      show Z0 j k l + Z 0 j k l + ∑ c : Fin Bm, Z c.succ j k l = Z0 j k l + ∑ c : Fin (Bm + 1), Z c j k l
      rw [Fin.sum_univ_succ (fun c => Z c j k l)]; ring

theorem svhSum_ofFn {n m Bm : Nat} (x : Fin (Bm + 1) → Fin m → ℝ) (G : Fin (Bm + 1) → Fin m → Fin n → ℝ)
    (Z : Fin (Bm + 1) → Fin m → Fin n → Fin n → ℝ) :
    svhSum (List.ofFn (x 0), ofFn2 (G 0), ofFn3 (Z 0)) (List.ofFn fun c : Fin Bm => (List.ofFn (x c.succ), ofFn2 (G c.succ), ofFn3 (Z c.succ)))
      = (List.ofFn (fun j => ∑ c, x c j), ofFn2 (fun j k => ∑ c, G c j k), ofFn3 (fun j k l => ∑ c, Z c j k l)) := by
  unfold svhSum
  rw [svhFold_ofFn (x 0) (G 0) (Z 0) (fun c => x c.succ) (fun c => G c.succ) (fun c => Z c.succ)]
  refine Prod.ext ?_ (Prod.ext ?_ ?_)
  · simp only; congr 1; funext j; rw [Fin.sum_univ_succ]
  · simp only; unfold ofFn2; congr 1; funext j; congr 1; funext k
    exact (Fin.sum_univ_succ (fun c => G c j k)).symm
  · simp only; unfold ofFn3 ofFn2; congr 1; funext j; congr 1; funext k; congr 1; funext l
    exact (Fin.sum_univ_succ (fun c => Z c j k l)).symm

end TfPwaV.DerivYR
