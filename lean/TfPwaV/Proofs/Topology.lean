import TfPwaV.Model.Topology
/-! Helper lemmas for C14: insertion sort over a strict linear order, counting, tree invariants. -/
namespace TfPwaV.Topology

/-- strict linear order carried by `<` (what Python's `sorted` needs to be deterministic) -/
structure LinLt (α : Type) [LT α] : Prop where
  irrefl : ∀ a : α, ¬ a < a
  trans : ∀ a b c : α, a < b → b < c → a < c
  tri : ∀ a b : α, a < b ∨ a = b ∨ b < a

section sort
variable {α : Type} [LT α] [DecidableLT α]

theorem leOf_iff (a b : α) : leOf a b = true ↔ ¬ b < a := by simp [leOf]

theorem LinLt.le_total (h : LinLt α) (a b : α) : leOf a b = true ∨ leOf b a = true := by
  rw [leOf_iff, leOf_iff]
  by_cases hab : a < b
  · left; intro hba; exact h.irrefl a (h.trans _ _ _ hab hba)
  · right; exact hab

theorem LinLt.le_trans (h : LinLt α) (a b c : α) : leOf a b = true → leOf b c = true → leOf a c = true := by
  rw [leOf_iff, leOf_iff, leOf_iff]
  intro hab hbc hca
  rcases h.tri b a with h1 | h1 | h1
  · exact hab h1
  · subst h1; exact hbc hca
  · exact hbc (h.trans _ _ _ hca h1)

theorem LinLt.le_antisymm (h : LinLt α) (a b : α) : leOf a b = true → leOf b a = true → a = b := by
  rw [leOf_iff, leOf_iff]
  intro hab hba
  rcases h.tri a b with h1 | h1 | h1
  · exact absurd h1 hba
  · exact h1
  · exact absurd h1 hab

theorem oinsert_perm (a : α) (l : List α) : (oinsert a l).Perm (a :: l) := by
  induction l with
  | nil => exact List.Perm.refl _
  | cons b l ih =>
    unfold oinsert
    split
    · exact List.Perm.refl _
    · exact ((List.Perm.cons b ih).trans (List.Perm.swap a b l))

theorem isort_perm (l : List α) : (isort l).Perm l := by
  induction l with
  | nil => exact List.Perm.refl _
  | cons a l ih => exact (oinsert_perm a (isort l)).trans (List.Perm.cons a ih)

theorem oinsert_sorted (h : LinLt α) (a : α) (l : List α)
    (hl : l.Pairwise fun x y => leOf x y = true) :
    (oinsert a l).Pairwise fun x y => leOf x y = true := by
  induction l with
  | nil => simp [oinsert]
  | cons b l ih =>
    unfold oinsert
    rw [List.pairwise_cons] at hl
    split
    · rename_i hab
      refine List.pairwise_cons.2 ⟨?_, List.pairwise_cons.2 hl⟩
      intro x hx
      rcases List.mem_cons.1 hx with rfl | hx
      · exact hab
      · exact h.le_trans _ _ _ hab (hl.1 x hx)
    · rename_i hab
      refine List.pairwise_cons.2 ⟨?_, ih hl.2⟩
      intro x hx
      have hx' := (oinsert_perm a l).mem_iff.1 hx
      rcases List.mem_cons.1 hx' with rfl | hx'
      · rcases h.le_total x b with h1 | h1
        · exact absurd h1 hab
        · exact h1
      · exact hl.1 x hx'

theorem isort_sorted (h : LinLt α) (l : List α) : (isort l).Pairwise fun x y => leOf x y = true := by
  induction l with
  | nil => simp [isort]
  | cons a l ih => exact oinsert_sorted h a _ ih

/-- two sorted lists are equal iff they are permutations of each other -/
theorem isort_eq_iff_perm (h : LinLt α) (l₁ l₂ : List α) : isort l₁ = isort l₂ ↔ l₁.Perm l₂ := by
  constructor
  · intro e
    exact (isort_perm l₁).symm.trans (e ▸ isort_perm l₂)
  · intro p
    have pp : (isort l₁).Perm (isort l₂) := (isort_perm l₁).trans (p.trans (isort_perm l₂).symm)
    exact List.Perm.eq_of_pairwise (fun a b _ _ hab hba => h.le_antisymm a b hab hba)
      (isort_sorted h l₁) (isort_sorted h l₂) pp

end sort

/-- lexicographic order on lists inherits linearity (Python list comparison) -/
theorem LinLt.list {κ : Type} [LT κ] (h : LinLt κ) : LinLt (List κ) := by
  haveI : Std.Irrefl (α := κ) (· < ·) := ⟨h.irrefl⟩
  haveI : Trans (α := κ) (· < ·) (· < ·) (· < ·) := ⟨fun hab hbc => h.trans _ _ _ hab hbc⟩
  haveI : Std.Asymm (α := κ) (· < ·) := ⟨fun a b hab hba => h.irrefl a (h.trans _ _ _ hab hba)⟩
  haveI : Std.Trichotomous (α := κ) (· < ·) := ⟨fun a b hab hba => by
    rcases h.tri a b with h1 | h1 | h1
    · exact absurd h1 hab
    · exact h1
    · exact absurd h1 hba⟩
  refine ⟨fun a => List.lt_irrefl a, fun a b c => List.lt_trans, fun a b => ?_⟩
  by_cases h1 : a < b
  · exact Or.inl h1
  · by_cases h2 : b < a
    · exact Or.inr (Or.inr h2)
    · exact Or.inr (Or.inl (List.le_antisymm (List.not_lt.1 h2) (List.not_lt.1 h1)))

theorem LinLt.nat : LinLt Nat := ⟨Nat.lt_irrefl, fun _ _ _ => Nat.lt_trans, fun a b => by omega⟩
theorem LinLt.int : LinLt Int := ⟨Int.lt_irrefl, fun _ _ _ => Int.lt_trans, fun a b => by omega⟩

theorem LinLt.string : LinLt String := by
  refine ⟨String.lt_irrefl, fun a b c => String.lt_trans, fun a b => ?_⟩
  by_cases h1 : a < b
  · exact Or.inl h1
  · by_cases h2 : b < a
    · exact Or.inr (Or.inr h2)
    · exact Or.inr (Or.inl (String.le_antisymm (String.not_lt.1 h2) (String.not_lt.1 h1)))

theorem LinLt.pt : LinLt Pt := by
  have hs := LinLt.string
  have hi := LinLt.int
  refine ⟨?_, ?_, ?_⟩
  · intro a h
    rcases h with h | ⟨_, h⟩
    · exact hs.irrefl _ h
    · exact hi.irrefl _ h
  · intro a b c hab hbc
    rcases hab with h1 | ⟨e1, h1⟩ <;> rcases hbc with h2 | ⟨e2, h2⟩
    · exact Or.inl (hs.trans _ _ _ h1 h2)
    · exact Or.inl (e2 ▸ h1)
    · exact Or.inl (e1 ▸ h2)
    · exact Or.inr ⟨e1.trans e2, hi.trans _ _ _ h1 h2⟩
  · intro a b
    rcases hs.tri a.name b.name with h | h | h
    · exact Or.inl (Or.inl h)
    · rcases hi.tri a.id b.id with h' | h' | h'
      · exact Or.inl (Or.inr ⟨h, h'⟩)
      · right; left
        cases a; cases b; simp_all
      · exact Or.inr (Or.inr (Or.inr ⟨h.symm, h'⟩))
    · exact Or.inr (Or.inr (Or.inl h))


/-! ## counting -/

/-- m (m+2) (m+4) … (k factors) -/
def oddProd : Nat → Nat → Nat
  | _, 0 => 1
  | m, k + 1 => m * oddProd (m + 2) k

/-- double factorial n!! -/
def dfact : Nat → Nat
  | 0 => 1
  | 1 => 1
  | n + 2 => (n + 2) * dfact n

theorem oddProd_dfact (k j : Nat) : oddProd (2 * j + 1) k * dfact (2 * j - 1) = dfact (2 * (j + k) - 1) := by
  induction k generalizing j with
  | zero => simp [oddProd]
  | succ k ih =>
    have h1 : dfact (2 * (j + 1) - 1) = (2 * j + 1) * dfact (2 * j - 1) := by
      cases j with
      | zero => simp [dfact]
      | succ j =>
        have : 2 * (j + 1 + 1) - 1 = (2 * (j + 1) - 1) + 2 := by omega
        rw [this, dfact]
        congr 1
    have h2 := ih (j + 1)
    have e1 : 2 * (j + 1) + 1 = 2 * j + 1 + 2 := by omega
    have e2 : j + 1 + k = j + (k + 1) := by omega
    rw [e1, e2, h1] at h2
    rw [← h2]
    simp only [oddProd]
    rw [Nat.mul_assoc]
    exact Nat.mul_left_comm _ _ _

theorem sum_map_const {β : Type} (l : List β) (f : β → Nat) (c : Nat) (h : ∀ x ∈ l, f x = c) :
    (l.map f).sum = l.length * c := by
  induction l with
  | nil => simp
  | cons a l ih =>
    simp only [List.map_cons, List.sum_cons, List.length_cons]
    rw [h a (List.mem_cons_self), ih (fun x hx => h x (List.mem_cons_of_mem _ hx))]
    rw [Nat.add_mul]; omega

section graphs
variable {α : Type} [DecidableEq α]

theorem addNode_edges_length (g : Graph α) (e : Edge α) (d : α) (he : e ∈ g.edges) :
    (g.addNode e d).edges.length = g.edges.length + 2 := by
  have hpos : 0 < g.edges.length := List.length_pos_of_mem he
  simp only [Graph.addNode, List.length_append, List.length_erase_of_mem he, List.length_cons, List.length_nil]
  omega

theorem getGraphs_length (g : Graph α) (ps : List α) :
    (getGraphs g ps).length = oddProd g.edges.length ps.length := by
  induction ps generalizing g with
  | nil => simp [getGraphs, oddProd]
  | cons p ps ih =>
    simp only [getGraphs, List.length_flatMap, List.length_cons, oddProd]
    apply sum_map_const
    intro e he
    rw [ih, addNode_edges_length g e p he]

theorem allSome_length {β : Type} (l : List (Option β)) (r : List β) (h : allSome l = some r) :
    r.length = l.length := by
  induction l generalizing r with
  | nil => simp [allSome] at h; subst h; rfl
  | cons a l ih =>
    cases a with
    | none => simp [allSome] at h
    | some x =>
      simp only [allSome, Option.map_eq_some_iff] at h
      obtain ⟨r', hr', rfl⟩ := h
      simp [ih r' hr']

theorem chainsFrom_length (mk : Nat → Nat → α) (top : α) (i : Nat) (gs : List (Graph α)) :
    (chainsFrom mk top i gs).length = gs.length := by
  induction gs generalizing i with
  | nil => rfl
  | cons g gs ih => simp [chainsFrom, ih]

/-! ## every enumerated graph is a full binary tree hanging under `top` -/

/-- full binary tree with labelled inner vertices (`node_k`) and particles at the leaves -/
inductive Tr (α : Type) where
  | leaf (a : α)
  | node (k : Nat) (l r : Tr α)

def Tr.root : Tr α → Node α
  | .leaf a => .p a
  | .node k _ _ => .n k

/-- mother→daughter edges of the tree -/
def Tr.edges : Tr α → List (Edge α)
  | .leaf _ => []
  | .node k l r => (Node.n k, l.root) :: (Node.n k, r.root) :: (l.edges ++ r.edges)

def Tr.leaves : Tr α → List α
  | .leaf a => [a]
  | .node _ l r => l.leaves ++ r.leaves

def Tr.labels : Tr α → List Nat
  | .leaf _ => []
  | .node k l r => k :: (l.labels ++ r.labels)

/-- the tree hanging under the edge from the mother `par` -/
def Tr.hang (par : Node α) (t : Tr α) : List (Edge α) := (par, t.root) :: t.edges

theorem count_erase' (x e : Edge α) (l : List (Edge α)) :
    List.count x (l.erase e) = List.count x l - (if e = x then 1 else 0) := by
  rw [List.count_erase]; simp

/-- inserting a new vertex `c` with new leaf `d` on any edge of a hanging tree gives a hanging tree -/
theorem Tr.insert_edge (t : Tr α) (par : Node α) (e : Edge α) (c : Nat) (d : α)
    (he : e ∈ t.hang par) :
    ∃ t' : Tr α, (t'.hang par).Perm ((t.hang par).erase e ++ [(e.1, Node.n c), (Node.n c, e.2), (Node.n c, Node.p d)])
      ∧ t'.leaves.Perm (d :: t.leaves) ∧ t'.labels.Perm (c :: t.labels) := by
  induction t generalizing par with
  | leaf a =>
    simp only [Tr.hang, Tr.edges, Tr.root, List.mem_singleton] at he
    subst he
    refine ⟨.node c (.leaf a) (.leaf d), ?_, ?_, ?_⟩
    · simp [Tr.hang, Tr.edges, Tr.root]
    · simp [Tr.leaves]; exact List.Perm.swap _ _ _
    · simp [Tr.labels]
  | node k l r ihl ihr =>
    by_cases h0 : e = (par, Node.n k)
    · subst h0
      refine ⟨.node c (.node k l r) (.leaf d), ?_, ?_, ?_⟩
      · simp only [Tr.hang, Tr.edges, Tr.root, List.erase_cons_head, List.append_nil]
        rw [List.perm_iff_count]
        intro x
        simp only [List.count_cons, List.count_append, List.count_nil]
        omega
      · simp only [Tr.leaves]
        exact (List.perm_append_comm).trans (by simp)
      · simp [Tr.labels]
    · have he' : e ∈ l.hang (Node.n k) ∨ e ∈ r.hang (Node.n k) := by
        simp only [Tr.hang, Tr.edges, Tr.root, List.mem_cons, List.mem_append] at he ⊢
        rcases he with h | h | h | h | h
        · exact absurd h h0
        · exact Or.inl (Or.inl h)
        · exact Or.inr (Or.inl h)
        · exact Or.inl (Or.inr h)
        · exact Or.inr (Or.inr h)
      rcases he' with hl | hr
      · obtain ⟨l', hp, hlv, hlb⟩ := ihl (Node.n k) hl
        refine ⟨.node k l' r, ?_, ?_, ?_⟩
        · rw [List.perm_iff_count] at hp ⊢
          intro x
          have hx := hp x
          have hc : 1 ≤ List.count e (l.hang (Node.n k)) := List.count_pos_iff.2 hl
          simp only [Tr.hang, Tr.edges, Tr.root, List.count_cons, List.count_append, List.count_nil,
            count_erase'] at hx hc ⊢
          by_cases hex : e = x
          · subst hex; simp only [if_true] at hx ⊢; simp only [beq_iff_eq] at hx hc ⊢; omega
          · simp only [if_neg hex] at hx ⊢; omega
        · simp only [Tr.leaves]
          exact (List.Perm.append_right _ hlv).trans (by simp)
        · simp only [Tr.labels]
          refine (List.Perm.cons k (List.Perm.append_right _ hlb)).trans ?_
          simp only [List.cons_append]
          exact List.Perm.swap _ _ _
      · obtain ⟨r', hp, hlv, hlb⟩ := ihr (Node.n k) hr
        refine ⟨.node k l r', ?_, ?_, ?_⟩
        · rw [List.perm_iff_count] at hp ⊢
          intro x
          have hx := hp x
          have hc : 1 ≤ List.count e (r.hang (Node.n k)) := List.count_pos_iff.2 hr
          simp only [Tr.hang, Tr.edges, Tr.root, List.count_cons, List.count_append, List.count_nil,
            count_erase'] at hx hc ⊢
          by_cases hex : e = x
          · subst hex; simp only [if_true] at hx ⊢; simp only [beq_iff_eq] at hx hc ⊢; omega
          · simp only [if_neg hex] at hx ⊢; omega
        · simp only [Tr.leaves]
          refine (List.Perm.append_left _ hlv).trans ?_
          exact List.perm_middle
        · simp only [Tr.labels]
          refine (List.Perm.cons k (List.Perm.append_left _ hlb)).trans ?_
          exact (List.Perm.cons k List.perm_middle).trans (List.Perm.swap _ _ _)

/-- invariant of `get_graphs`: all descendants of a hanging tree are hanging trees with the new leaves added -/
theorem getGraphs_trees (top : α) (ps : List α) (g : Graph α) (t : Tr α)
    (hg : g.edges.Perm (t.hang (Node.p top))) (g' : Graph α) (hg' : g' ∈ getGraphs g ps) :
    ∃ t' : Tr α, g'.edges.Perm (t'.hang (Node.p top)) ∧ t'.leaves.Perm (t.leaves ++ ps)
      ∧ t'.labels.Perm (t.labels ++ List.range' g.count ps.length) ∧ g'.count = g.count + ps.length := by
  induction ps generalizing g t with
  | nil =>
    simp only [getGraphs, List.mem_singleton] at hg'
    subst hg'
    exact ⟨t, hg, by simp, by simp, by simp⟩
  | cons p ps ih =>
    simp only [getGraphs, List.mem_flatMap] at hg'
    obtain ⟨e, he, hg'⟩ := hg'
    have he' : e ∈ t.hang (Node.p top) := hg.mem_iff.1 he
    obtain ⟨t1, hp1, hl1, hb1⟩ := t.insert_edge (Node.p top) e g.count p he'
    have hg1 : (g.addNode e p).edges.Perm (t1.hang (Node.p top)) := by
      simp only [Graph.addNode]
      exact (List.Perm.append_right _ (hg.erase e)).trans hp1.symm
    obtain ⟨t', h1, h2, h3, h4⟩ := ih (g.addNode e p) t1 hg1 hg'
    refine ⟨t', h1, ?_, ?_, ?_⟩
    · refine h2.trans ((List.Perm.append_right _ hl1).trans ?_)
      simp only [List.cons_append]
      exact List.perm_middle.symm
    · refine h3.trans ((List.Perm.append_right _ hb1).trans ?_)
      simp only [Graph.addNode, List.cons_append, List.length_cons, List.range'_succ]
      exact List.perm_middle.symm
    · simp only [Graph.addNode] at h4; simp only [List.length_cons]; omega

end graphs

end TfPwaV.Topology
