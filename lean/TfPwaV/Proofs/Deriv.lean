import TfPwaV.Gen.DerivR
import Mathlib.Analysis.SpecialFunctions.Log.Deriv
import Mathlib.Analysis.Calculus.Deriv.Prod
import Mathlib.Analysis.Calculus.Deriv.Comp
import Mathlib.Analysis.Calculus.Deriv.Mul
import Mathlib.Analysis.Calculus.Deriv.Add
import Mathlib.Analysis.Calculus.Deriv.Inv
import Mathlib.Algebra.BigOperators.Fin
import Mathlib.Algebra.BigOperators.Field
import Mathlib.Tactic.LinearCombination
import Mathlib.Tactic.FieldSimp
import Mathlib.Tactic.Positivity
/-! Helper lemmas for C07: list-shaped vectors / matrices of `templates/Deriv.lean.in` (`List.ofFn`) versus finite
sums, and the closed forms of the assembly functions on `List.ofFn` arguments. -/
open TfPwaV.ScalarR
namespace TfPwaV.DerivR

/-- matrix from an entry function -/
def ofFn2 {n m : Nat} (A : Fin n → Fin m → ℝ) : List (List ℝ) := List.ofFn fun i => List.ofFn (A i)

/-! ### lists built by `List.ofFn` versus `∑ i : Fin n` -/

theorem dot_ofFn : ∀ {n : Nat} (a b : Fin n → ℝ), dot (List.ofFn a) (List.ofFn b) = ∑ i, a i * b i
  | 0, a, b => by simp [dot]
  | n + 1, a, b => by
    rw [List.ofFn_succ, List.ofFn_succ, dot, dot_ofFn, Fin.sum_univ_succ]

theorem dot3_ofFn : ∀ {n : Nat} (a b c : Fin n → ℝ),
    dot3 (List.ofFn a) (List.ofFn b) (List.ofFn c) = ∑ i, a i * b i * c i
  | 0, a, b, c => by simp [dot3]
  | n + 1, a, b, c => by
    rw [List.ofFn_succ, List.ofFn_succ, List.ofFn_succ, dot3, dot3_ofFn, Fin.sum_univ_succ]

theorem sumK_ofFn : ∀ {m : Nat} (x : Fin m → ℝ), sumK (List.ofFn x) = ∑ k, x k
  | 0, x => by simp [sumK]
  | m + 1, x => by rw [List.ofFn_succ, sumK, sumK_ofFn, Fin.sum_univ_succ]

theorem zipWith_ofFn {α β γ : Type} (f : α → β → γ) : ∀ {n : Nat} (a : Fin n → α) (b : Fin n → β),
    List.zipWith f (List.ofFn a) (List.ofFn b) = List.ofFn (fun i => f (a i) (b i))
  | 0, a, b => by simp
  | n + 1, a, b => by
    rw [List.ofFn_succ, List.ofFn_succ, List.zipWith_cons_cons, zipWith_ofFn f,
      List.ofFn_succ (f := fun i => f (a i) (b i))]

theorem zip3_ofFn {α β γ δ : Type} (f : α → β → γ → δ) : ∀ {n : Nat} (a : Fin n → α) (b : Fin n → β) (c : Fin n → γ),
    zip3 f (List.ofFn a) (List.ofFn b) (List.ofFn c) = List.ofFn (fun i => f (a i) (b i) (c i))
  | 0, a, b, c => by simp [zip3]
  | n + 1, a, b, c => by
    rw [List.ofFn_succ, List.ofFn_succ, List.ofFn_succ, zip3, zip3_ofFn f,
      List.ofFn_succ (f := fun i => f (a i) (b i) (c i))]

theorem zip_ofFn {α β : Type} {n : Nat} (a : Fin n → α) (b : Fin n → β) :
    List.zip (List.ofFn a) (List.ofFn b) = List.ofFn (fun i => (a i, b i)) := by
  unfold List.zip
  exact zipWith_ofFn Prod.mk a b

theorem vadd_ofFn {n : Nat} (a b : Fin n → ℝ) :
    vadd (List.ofFn a) (List.ofFn b) = List.ofFn (fun i => a i + b i) := zipWith_ofFn _ a b

theorem matVec_ofFn {n m : Nat} (V : Fin m → Fin n → ℝ) (g : Fin n → ℝ) :
    matVec (ofFn2 V) (List.ofFn g) = List.ofFn (fun i => ∑ j, V i j * g j) := by
  unfold matVec ofFn2
  rw [List.map_ofFn]
  congr 1
  funext i
  exact dot_ofFn (V i) g

theorem mat2_ofFn (f : ℝ → ℝ → ℝ) {n m : Nat} (A B : Fin n → Fin m → ℝ) :
    mat2 f (ofFn2 A) (ofFn2 B) = ofFn2 (fun i j => f (A i j) (B i j)) := by
  unfold mat2 ofFn2
  rw [zipWith_ofFn]
  congr 1
  funext i
  exact zipWith_ofFn f (A i) (B i)

theorem madd_ofFn {n m : Nat} (A B : Fin n → Fin m → ℝ) :
    madd (ofFn2 A) (ofFn2 B) = ofFn2 (fun i j => A i j + B i j) := mat2_ofFn _ A B

theorem outerWith_ofFn (f : ℝ → ℝ → ℝ) {n m : Nat} (a : Fin n → ℝ) (b : Fin m → ℝ) :
    outerWith f (List.ofFn a) (List.ofFn b) = ofFn2 (fun i j => f (a i) (b j)) := by
  unfold outerWith ofFn2
  rw [List.map_ofFn]
  congr 1
  funext i
  simp only [Function.comp]
  rw [List.map_ofFn]
  rfl

theorem diagMat_ofFn : ∀ {n : Nat} (v : Fin n → ℝ),
    diagMat (List.ofFn v) = ofFn2 (fun i j => if i = j then v i else 0)
  | 0, v => by simp [diagMat, ofFn2]
  | n + 1, v => by
    unfold ofFn2
    rw [List.ofFn_succ, diagMat, diagMat_ofFn, List.ofFn_succ (f := fun i => List.ofFn fun j => if i = j then v i else 0)]
    congr 1
    · rw [List.ofFn_succ (f := fun j => if (0 : Fin (n + 1)) = j then v 0 else 0), List.map_ofFn]
      have h : ((fun _ => (0 : ℝ)) ∘ fun i : Fin n => v i.succ)
          = fun i : Fin n => if (0 : Fin (n + 1)) = i.succ then v 0 else 0 := by
        funext j; simp [(Fin.succ_ne_zero j).symm]
      rw [h]; simp
    · unfold ofFn2
      rw [List.map_ofFn]
      congr 1
      funext i
      simp only [Function.comp]
      rw [List.ofFn_succ (f := fun j => if i.succ = j then v i.succ else 0)]
      have h : (fun j : Fin n => if i.succ = j.succ then v i.succ else 0) = fun j : Fin n => if i = j then v i.succ else 0 := by
        funext j; simp [Fin.succ_inj]
      rw [h]; simp [Fin.succ_ne_zero i]

theorem map_neg_ofFn2 {n m : Nat} (A : Fin n → Fin m → ℝ) :
    (ofFn2 A).map (fun row => row.map (fun x => -x)) = ofFn2 (fun i j => -A i j) := by
  unfold ofFn2
  rw [List.map_ofFn]
  congr 1
  funext i
  simp only [Function.comp]
  rw [List.map_ofFn]
  rfl

/-- `qᵀ M p` for a matrix given by its entries -/
theorem dot_matVec_ofFn {n : Nat} (M : Fin n → Fin n → ℝ) (p q : Fin n → ℝ) :
    dot (matVec (ofFn2 M) (List.ofFn p)) (List.ofFn q) = ∑ i, ∑ j, q i * M i j * p j := by
  rw [matVec_ofFn, dot_ofFn]
  apply Finset.sum_congr rfl
  intro i _
  rw [Finset.sum_mul]
  apply Finset.sum_congr rfl
  intro j _
  ring

/-! ### linear combinations under a finite sum -/

theorem sum_lin2 {n : Nat} (a b : Fin n → ℝ) (x y : ℝ) :
    ∑ j, (x * a j + y * b j) = x * ∑ j, a j + y * ∑ j, b j := by
  simp only [Finset.sum_add_distrib, Finset.mul_sum]

theorem sum_lin3 {n : Nat} (a b c : Fin n → ℝ) (x y z : ℝ) :
    ∑ j, (x * a j + y * b j + z * c j) = x * ∑ j, a j + y * ∑ j, b j + z * ∑ j, c j := by
  simp only [Finset.sum_add_distrib, Finset.mul_sum]

/-! ### closed forms of the assembly functions on `List.ofFn` arguments -/

theorem nllGrad_ofFn (ext : Bool) {n : Nat} (a b : Fin n → ℝ) (sw I : ℝ) :
    nllGrad ext (List.ofFn a) (List.ofFn b) sw I = List.ofFn (fun k => -a k + sw * b k * intG ext I) :=
  zipWith_ofFn _ a b

theorem nllHess_ofFn (ext : Bool) {n : Nat} (hLn hInt : Fin n → Fin n → ℝ) (g : Fin n → ℝ) (sw I : ℝ) :
    nllHess ext (ofFn2 hLn) (List.ofFn g) (ofFn2 hInt) sw I
      = ofFn2 (fun i j => (-hLn i j + sw * (g i * g j * intH ext I)) + sw * hInt i j * intG ext I) := by
  unfold nllHess
  simp only [outerWith_ofFn, mat2_ofFn]

theorem nllHessp_ofFn (ext : Bool) {n : Nat} (hpLn g hpInt p : Fin n → ℝ) (sw I : ℝ) :
    nllHessp ext (List.ofFn hpLn) (List.ofFn g) (List.ofFn hpInt) (List.ofFn p) sw I
      = List.ofFn (fun i => sw * (hpInt i * intG ext I + g i * (∑ j, p j * g j) * intH ext I) - hpLn i) := by
  unfold nllHessp
  simp only [dot_ofFn, zipWith_ofFn]

theorem cachedGrad_ofFn {n : Nat} (a b : Fin n → ℝ) (sw I : ℝ) :
    cachedGrad (List.ofFn a) (List.ofFn b) sw I = List.ofFn (fun k => -a k + sw * b k / I) :=
  zipWith_ofFn _ a b

theorem cachedIntHess_ofFn {n : Nat} (hLn hInt : Fin n → Fin n → ℝ) (g : Fin n → ℝ) (sw I : ℝ) :
    cachedIntHess (ofFn2 hLn) (List.ofFn g) (ofFn2 hInt) sw I
      = ofFn2 (fun i j => (-hLn i j - sw * (g i / I * (g j / I))) + sw / I * hInt i j) := by
  unfold cachedIntHess
  simp only [List.map_ofFn, Function.comp_def, outerWith_ofFn, mat2_ofFn]

theorem cachedAmpHessp_ofFn {n : Nat} (hpLn g hpInt p : Fin n → ℝ) (sw I : ℝ) :
    cachedAmpHessp (List.ofFn hpLn) (List.ofFn g) (List.ofFn hpInt) (List.ofFn p) sw I
      = List.ofFn (fun i => sw * (hpInt i / I - g i * (∑ j, p j * g j) / (I * I)) - hpLn i) := by
  unfold cachedAmpHessp
  simp only [dot_ofFn, zipWith_ofFn]

theorem transGrad_ofFn {n : Nat} (g d : Fin n → ℝ) :
    transGrad (List.ofFn g) (List.ofFn d) = List.ofFn (fun k => g k * d k) := zipWith_ofFn _ g d

theorem transP_ofFn {n : Nat} (p d : Fin n → ℝ) :
    transP (List.ofFn p) (List.ofFn d) = List.ofFn (fun k => p k * d k) := zipWith_ofFn _ p d

theorem transHessp_ofFn {n : Nat} (gy hpy d d2 p : Fin n → ℝ) :
    transHessp (List.ofFn gy) (List.ofFn hpy) (List.ofFn d) (List.ofFn d2) (List.ofFn p)
      = List.ofFn (fun k => hpy k * d k + gy k * d2 k * p k) := by
  unfold transHessp
  rw [zipWith_ofFn, zip3_ofFn, vadd_ofFn]

theorem transHess_ofFn {n : Nat} (gy d d2 : Fin n → ℝ) (Hy : Fin n → Fin n → ℝ) :
    transHess (List.ofFn gy) (ofFn2 Hy) (List.ofFn d) (List.ofFn d2)
      = ofFn2 (fun i j => d i * Hy i j * d j + if i = j then gy i * d2 i else 0) := by
  unfold transHess
  rw [zipWith_ofFn (fun g e => g * e), diagMat_ofFn]
  have h : List.zipWith (fun di row => List.zipWith (fun h dj => di * h * dj) row (List.ofFn d)) (List.ofFn d) (ofFn2 Hy)
      = ofFn2 (fun i j => d i * Hy i j * d j) := by
    unfold ofFn2
    rw [zipWith_ofFn]
    congr 1
    funext i
    exact zipWith_ofFn _ (Hy i) d
  rw [h, madd_ofFn]

theorem gaussGrad_ofFn {n : Nat} (x : Fin n → ℝ) (cs : Fin n → Option (ℝ × ℝ)) :
    gaussGrad (List.ofFn x) (List.ofFn cs) = List.ofFn (fun k => cGrad (x k) (cs k)) :=
  zipWith_ofFn _ x cs

theorem gaussTerm_ofFn {n : Nat} (x : Fin n → ℝ) (cs : Fin n → Option (ℝ × ℝ)) :
    gaussTerm (List.ofFn x) (List.ofFn cs) = ∑ k, cTerm (x k) (cs k) := by
  unfold gaussTerm
  rw [zipWith_ofFn, sumK_ofFn]

theorem gaussHess_ofFn {n : Nat} (cs : Fin n → Option (ℝ × ℝ)) :
    gaussHess (List.ofFn cs) = ofFn2 (fun i j => if i = j then cHess (cs i) else 0) := by
  unfold gaussHess gaussHessDiag
  rw [List.map_ofFn, diagMat_ofFn]
  rfl

theorem cfitGrad_ofFn (ext : Bool) {n : Nat} (a s b : Fin n → ℝ) (gS gB sw I w : ℝ) :
    cfitGrad ext (List.ofFn a) (List.ofFn s) (List.ofFn b) gS gB sw I w
      = List.ofFn (fun k => if ext then -a k - s k * gS - b k * gB - sw / I * s k + s k / (1 - w)
                            else -a k - s k * gS - b k * gB) :=
  zip3_ofFn _ a s b

theorem jtHj_ofFn {n : Nat} (A : Fin n → Fin n → ℝ) (bS bB rS rB s b : Fin n → ℝ) (cSS cSB cBS cBB : ℝ) :
    jtHj (ofFn2 A) (List.ofFn bS) (List.ofFn bB) (List.ofFn rS) (List.ofFn rB) (List.ofFn s) (List.ofFn b) cSS cSB cBS cBB
      = ofFn2 (fun i j => jtHjEntry (A i j) (bS i) (bB i) (rS j) (rB j) (s i) (b i) (s j) (b j) cSS cSB cBS cBB) := by
  unfold jtHj ofFn2
  simp only [zip_ofFn, zip3_ofFn]

theorem cfitHess_ofFn (ext : Bool) {n : Nat} (A hS hB : Fin n → Fin n → ℝ) (bS bB rS rB s b : Fin n → ℝ)
    (cSS cSB cBS cBB gS gB sw I w : ℝ) :
    cfitHess ext (ofFn2 A) (List.ofFn bS) (List.ofFn bB) (List.ofFn rS) (List.ofFn rB) (List.ofFn s) (List.ofFn b)
        cSS cSB cBS cBB (ofFn2 hS) (ofFn2 hB) gS gB sw I w
      = ofFn2 (fun i j =>
          -(if ext then
              (jtHjEntry (A i j) (bS i) (bB i) (rS j) (rB j) (s i) (b i) (s j) (b j) cSS cSB cBS cBB
                  + gS * hS i j + gB * hB i j)
                + sw * (hS i j / I - s i * s j / I / I) - hS i j / (1 - w)
            else
              jtHjEntry (A i j) (bS i) (bB i) (rS j) (rB j) (s i) (b i) (s j) (b j) cSS cSB cBS cBB
                  + gS * hS i j + gB * hB i j)) := by
  unfold cfitHess
  cases ext with
  | true =>
    simp only [if_true, jtHj_ofFn, outerWith_ofFn, mat2_ofFn, map_neg_ofFn2]
  | false =>
    simp only [Bool.false_eq_true, if_false, jtHj_ofFn, mat2_ofFn, map_neg_ofFn2]

theorem tapeVal_ofFn (φ : ℝ → ℝ) {m : Nat} (w f : Fin m → ℝ) :
    tapeVal φ (List.ofFn w) (List.ofFn f) = ∑ i, w i * φ (f i) := by
  unfold tapeVal
  rw [List.map_ofFn, dot_ofFn]
  rfl

theorem tapeGrad_ofFn (φ' : ℝ → ℝ) {m n : Nat} (w f : Fin m → ℝ) (df : Fin n → Fin m → ℝ) :
    tapeGrad φ' (List.ofFn w) (List.ofFn f) (ofFn2 df) = List.ofFn (fun k => ∑ i, w i * φ' (f i) * df k i) := by
  unfold tapeGrad ofFn2
  rw [List.map_ofFn]
  congr 1
  funext k
  simp only [Function.comp]
  rw [List.map_ofFn, dot3_ofFn]
  rfl

theorem tapeHess_ofFn (φ' φ'' : ℝ → ℝ) {m n : Nat} (w f : Fin m → ℝ) (df : Fin n → Fin m → ℝ)
    (d2f : Fin n → Fin n → Fin m → ℝ) :
    tapeHess φ' φ'' (List.ofFn w) (List.ofFn f) (ofFn2 df) (List.ofFn fun k => List.ofFn fun l => List.ofFn (d2f k l))
      = ofFn2 (fun k l => (∑ i, w i * φ'' (f i) * df k i * df l i) + ∑ i, w i * φ' (f i) * d2f k l i) := by
  unfold tapeHess ofFn2
  rw [zipWith_ofFn]
  congr 1
  funext k
  rw [zipWith_ofFn]
  congr 1
  funext l
  rw [List.map_ofFn, List.map_ofFn, zipWith_ofFn, dot3_ofFn, dot3_ofFn]
  rfl

theorem combineVec_ofFn {n : Nat} : ∀ {m : Nat} (G : Fin m → Fin n → ℝ),
    combineVec n (List.ofFn fun k => List.ofFn (G k)) = List.ofFn fun j => ∑ k, G k j
  | 0, G => by
    simp only [List.ofFn_zero, combineVec, Finset.univ_eq_empty, Finset.sum_empty]
    exact (List.ofFn_const n (0 : ℝ)).symm
  | m + 1, G => by
    rw [List.ofFn_succ, combineVec, combineVec_ofFn, vadd_ofFn]
    congr 1
    funext j
    rw [Fin.sum_univ_succ]

theorem tieGrad_ofFn {N n : Nat} (grp : Fin N → Option Nat) (full : Fin N → ℝ) :
    tieGrad n (List.ofFn grp) (List.ofFn full)
      = List.ofFn (fun k : Fin n => ∑ i, if grp i = some k.val then full i else 0) := by
  unfold tieGrad
  congr 1
  funext k
  rw [zipWith_ofFn, sumK_ofFn]

end TfPwaV.DerivR
