import TfPwaV.Proofs.EinsumWrap

/-! C05 (einsum): the complete routine `einsum(expr, *args)` = reference contraction. -/
namespace TfPwaV.Einsum

/-! ### `size_map` of `remove_size1` -/

/-- one update of `size_map` (the body of the double loop of `remove_size1`) -/
def smStep (m : List (Idx × Nat)) (p : Idx × Nat) : List (Idx × Nat) :=
  match m.lookup p.1 with
  | none => m ++ [(p.1, if p.2 ≥ 1 then p.2 else 1)]
  | some l => if p.2 ≥ l then m.map (fun q => if q.1 = p.1 then (q.1, p.2) else q) else m

theorem sizeMap_eq (ins : List (List Idx)) (shapes : List (List Nat)) :
    sizeMap ins shapes = ((ins.zip shapes).flatMap fun p => p.1.zip p.2).foldl smStep [] := rfl

/-- keys pairwise different, all recorded sizes ≥ 1 -/
def SmOK (m : List (Idx × Nat)) : Prop := (m.map (·.1)).Nodup ∧ ∀ q ∈ m, 1 ≤ q.2

theorem lookup_none_keys (a : Idx) : ∀ (m : List (Idx × Nat)), m.lookup a = none → a ∉ m.map (·.1)
  | [], _ => by simp
  | (k, v) :: m, h => by
    simp only [List.lookup_cons] at h
    by_cases hk : (a == k) = true
    · simp [hk] at h
    · simp only [Bool.not_eq_true] at hk
      simp only [hk] at h
      have := lookup_none_keys a m h
      simp only [List.map_cons, List.mem_cons, not_or]
      exact ⟨by simpa using hk, this⟩

theorem mem_of_lookup (a : Idx) (b : Nat) : ∀ (m : List (Idx × Nat)), m.lookup a = some b → (a, b) ∈ m
  | [], h => by simp at h
  | (k, v) :: m, h => by
    simp only [List.lookup_cons] at h
    by_cases hk : (a == k) = true
    · simp only [hk, Option.some.injEq] at h
      have : a = k := by simpa using hk
      subst this; subst h
      exact List.mem_cons_self
    · simp only [Bool.not_eq_true] at hk
      simp only [hk] at h
      exact List.mem_cons_of_mem _ (mem_of_lookup a b m h)

theorem lookup_of_mem_nodup (a : Idx) (b : Nat) : ∀ (m : List (Idx × Nat)), (m.map (·.1)).Nodup → (a, b) ∈ m →
    m.lookup a = some b
  | [], _, h => by simp at h
  | (k, v) :: m, hnd, h => by
    simp only [List.map_cons, List.nodup_cons] at hnd
    simp only [List.lookup_cons]
    rcases List.mem_cons.mp h with h' | h'
    · injection h' with h1 h2
      subst h1; subst h2
      simp
    · have hne : a ≠ k := by
        intro hh; subst hh
        exact hnd.1 (List.mem_map.mpr ⟨(a, b), h', rfl⟩)
      have : (a == k) = false := by simpa using hne
      simp only [this]
      exact lookup_of_mem_nodup a b m hnd.2 h'

theorem smStep_ok (m : List (Idx × Nat)) (p : Idx × Nat) (h : SmOK m) : SmOK (smStep m p) := by
  unfold smStep
  cases hl : m.lookup p.1 with
  | none =>
    simp only
    refine ⟨?_, ?_⟩
    · rw [List.map_append, List.nodup_append]
      refine ⟨h.1, by simp, ?_⟩
      intro a ha b hb hab
      simp only [List.map_cons, List.map_nil, List.mem_singleton] at hb
      subst hab; subst hb
      exact lookup_none_keys _ m hl ha
    · intro q hq
      rcases List.mem_append.mp hq with hq | hq
      · exact h.2 q hq
      · rw [List.mem_singleton] at hq
        subst hq
        simp only
        split_ifs with h1
        · exact h1
        · exact Nat.le_refl 1
  | some l =>
    simp only
    split_ifs with hge
    · refine ⟨?_, ?_⟩
      · have : (m.map fun q => if q.1 = p.1 then (q.1, p.2) else q).map (·.1) = m.map (·.1) := by
          rw [List.map_map]
          apply List.map_congr_left
          intro q _
          simp only [Function.comp]
          split_ifs <;> rfl
        rw [this]
        exact h.1
      · intro q hq
        obtain ⟨q0, hq0, rfl⟩ := List.mem_map.mp hq
        split_ifs
        · have := h.2 _ (mem_of_lookup _ _ m hl)
          simp only at this ⊢
          omega
        · exact h.2 q0 hq0
    · exact h

theorem foldl_smStep_ok : ∀ (ps : List (Idx × Nat)) (m : List (Idx × Nat)), SmOK m → SmOK (ps.foldl smStep m)
  | [], _, h => h
  | p :: ps, m, h => foldl_smStep_ok ps _ (smStep_ok m p h)

theorem sizeMap_ok (ins : List (List Idx)) (shapes : List (List Nat)) : SmOK (sizeMap ins shapes) := by
  rw [sizeMap_eq]
  exact foldl_smStep_ok _ [] ⟨by simp, by simp⟩

/-- every label size of `size_map` (default 1) is positive -/
theorem sizes_pos (ins : List (List Idx)) (shapes : List (List Nat)) (l : Idx) :
    0 < lookupD (sizeMap ins shapes) 1 l := by
  unfold lookupD
  cases hl : (sizeMap ins shapes).lookup l with
  | none => simp
  | some v =>
    have := (sizeMap_ok ins shapes).2 _ (mem_of_lookup _ _ _ hl)
    simp only [Option.getD_some] at this ⊢
    omega

/-- a label removed by `remove_size1` has size 1 -/
theorem removeIdx_size1 (ins : List (List Idx)) (shapes : List (List Nat)) (extra : List Idx) (l : Idx)
    (h : l ∈ removeIdx (sizeMap ins shapes) extra) : lookupD (sizeMap ins shapes) 1 l = 1 := by
  unfold removeIdx at h
  obtain ⟨q, hq, rfl⟩ := List.mem_map.mp h
  obtain ⟨hq1, hq2⟩ := List.mem_filter.mp hq
  have hq3 : q.2 = 1 := by
    simp only [Bool.decide_and, Bool.and_eq_true, decide_eq_true_eq] at hq2
    exact hq2.1
  unfold lookupD
  rw [lookup_of_mem_nodup q.1 q.2 _ (sizeMap_ok ins shapes).1 hq1]
  simpa using hq3

theorem prodN_filter (sizes : Idx → Nat) (keep : Idx → Bool) : ∀ (L : List Idx),
    (∀ l ∈ L, keep l = false → sizes l = 1) → prodN (L.map sizes) = prodN ((L.filter keep).map sizes)
  | [], _ => rfl
  | l :: L, h => by
    have ih := prodN_filter sizes keep L (fun x hx => h x (List.mem_cons_of_mem _ hx))
    by_cases hk : keep l = true
    · simp [List.filter_cons, hk, prodN, ih]
    · simp only [Bool.not_eq_true] at hk
      simp [List.filter_cons, hk, prodN, ih, h l List.mem_cons_self hk]

section
variable {R : Type} [CommSemiring R]

/-- the label sizes used by `einsum`: `size_map` of `remove_size1` (largest dimension seen per label, default 1) -/
def sizesOf (ins1 : List (List Idx)) (ts : List (Tensor R)) : Idx → Nat :=
  lookupD (sizeMap ins1 (ts.map (·.shape))) 1

/-- labels that survive `remove_size1` -/
def keepOf (ins1 : List (List Idx)) (ts : List (Tensor R)) (extra : List Idx) : Idx → Bool :=
  fun l => !(removeIdx (sizeMap ins1 (ts.map (·.shape))) extra).contains l

omit [CommSemiring R] in
theorem keepOf_false (ins1 : List (List Idx)) (ts : List (Tensor R)) (extra : List Idx) (l : Idx)
    (h : keepOf ins1 ts extra l = false) : sizesOf ins1 ts l = 1 := by
  unfold keepOf at h
  simp only [Bool.not_eq_false', List.contains_iff_mem] at h
  exact removeIdx_size1 _ _ extra l h

omit [CommSemiring R] in
/-- the operands handed to the loop: the original ones with the removed labels' axes dropped -/
theorem args2_ok (keep : Idx → Bool) : ∀ (ins1 : List (List Idx)) (ts a2 : List (Tensor R)),
    List.Forall₂ (fun (p : List Idx × Tensor R) E =>
      reshapeT p.2 (((p.1.zip p.2.shape).filter fun q => keep q.1).map (·.2)) = .ok E) (ins1.zip ts) a2 →
    (ins1.map fun t => t.filter keep).zip a2 = (ins1.zip ts).map (shrinkOp keep)
  | [], _, _, _ => by simp
  | _ :: _, [], a2, h => by
    simp only [List.zip_nil_right] at h
    cases h
    simp
  | i :: ins1, t :: ts, a2, h => by
    simp only [List.zip_cons_cons] at h
    cases h with
    | cons hE hrest =>
      rename_i E a2'
      have hE' := reshapeT_ok _ _ _ hE
      simp only [List.map_cons, List.zip_cons_cons, args2_ok keep ins1 ts a2' hrest, hE']
      rfl

theorem einsumCustom_inv (fixed : Bool) (ins : List (List Idx)) (out : List Idx) (path : List (List Nat))
    (proc : List Idx) (ts : List (Tensor R)) (T : Tensor R) (ins1 : List (List Idx)) (out1 extra : List Idx)
    (hrep : replaceEllipsis ins out (((ts.map (·.shape)).headD []).length) = some (ins1, out1, extra))
    (h : einsumCustom fixed ins out path proc ts = .ok T) :
    validate ins1 out1 (ts.map (·.shape)) = true ∧
    ∃ ord st O t,
      orderedIndices (ins1.map fun t => t.filter (keepOf ins1 ts extra)) (out1.filter (keepOf ins1 ts extra)) proc
        = some ord ∧
      loop (sizesOf ins1 ts) (if fixed then rankFixed ord else rankOf ord) (out1.filter (keepOf ins1 ts extra)) path
        ((ins1.zip ts).map (shrinkOp (keepOf ins1 ts extra))) = .ok ((O, t) :: st) ∧
      T = ⟨out1.map (sizesOf ins1 ts), t.data⟩ ∧ prodN (out1.map (sizesOf ins1 ts)) = t.data.size := by
  unfold einsumCustom at h
  simp only [hrep] at h
  cases hv : validate ins1 out1 (ts.map (·.shape)) with
  | false => simp [hv] at h
  | true =>
    refine ⟨rfl, ?_⟩
    simp only [hv, Bool.not_true, Bool.false_eq_true, if_false] at h
    cases ha : ((ins1.zip ts).mapM fun (p : List Idx × Tensor R) =>
        reshapeT p.2 (((p.1.zip p.2.shape).filter fun q =>
          !(removeIdx (sizeMap ins1 (ts.map (·.shape))) extra).contains q.1).map (·.2))) with
    | error e => rw [ha] at h; simp at h
    | ok a2 =>
      rw [ha] at h
      simp only at h
      have hzip := args2_ok (keepOf ins1 ts extra) ins1 ts a2 (mapM_ok _ _ _ ha)
      cases ho : orderedIndices (ins1.map fun t => t.filter fun l =>
          !(removeIdx (sizeMap ins1 (ts.map (·.shape))) extra).contains l)
          (out1.filter fun l => !(removeIdx (sizeMap ins1 (ts.map (·.shape))) extra).contains l) proc with
      | none => rw [ho] at h; simp at h
      | some ord =>
        rw [ho] at h
        simp only at h
        cases hl : loop (lookupD (sizeMap ins1 (ts.map (·.shape))) 1) (if fixed then rankFixed ord else rankOf ord)
            (out1.filter fun l => !(removeIdx (sizeMap ins1 (ts.map (·.shape))) extra).contains l) path
            ((ins1.map fun t => t.filter fun l =>
              !(removeIdx (sizeMap ins1 (ts.map (·.shape))) extra).contains l).zip a2) with
        | error e => rw [hl] at h; simp at h
        | ok st0 =>
          rw [hl] at h
          cases st0 with
          | nil => simp at h
          | cons x st =>
            obtain ⟨O, t⟩ := x
            simp only at h
            refine ⟨ord, st, O, t, ho, ?_, ?_⟩
            · have : (ins1.map fun t => t.filter fun l =>
                  !(removeIdx (sizeMap ins1 (ts.map (·.shape))) extra).contains l).zip a2
                  = (ins1.zip ts).map (shrinkOp (keepOf ins1 ts extra)) := hzip
              rw [this] at hl
              exact hl
            · have hT := reshapeT_ok _ _ _ h
              unfold reshapeT at h
              split_ifs at h with hsz
              exact ⟨hT, hsz⟩

/-- **The complete routine equals the reference contraction** (see `Props/C05b.lean: einsum_correct`). -/
theorem einsumCustom_ok (fixed : Bool) (ins : List (List Idx)) (out : List Idx) (path : List (List Nat))
    (proc : List Idx) (ts : List (Tensor R)) (T : Tensor R) (ins1 : List (List Idx)) (out1 extra : List Idx)
    (hrep : replaceEllipsis ins out (((ts.map (·.shape)).headD []).length) = some (ins1, out1, extra))
    (hinv : Inv (sizesOf ins1 ts) (ins1.zip ts))
    (hend : ∀ ord st,
      orderedIndices (ins1.map fun t => t.filter (keepOf ins1 ts extra)) (out1.filter (keepOf ins1 ts extra)) proc
        = some ord →
      loop (sizesOf ins1 ts) (if fixed then rankFixed ord else rankOf ord) (out1.filter (keepOf ins1 ts extra)) path
        ((ins1.zip ts).map (shrinkOp (keepOf ins1 ts extra))) = .ok st →
      ∃ t, st = [(out1.filter (keepOf ins1 ts extra), t)])
    (h : einsumCustom fixed ins out path proc ts = .ok T) :
    T = einsumRef (sizesOf ins1 ts) (ins1.zip ts) out1 := by
  obtain ⟨hvalid, ord, st, O, t, hord, hloop, hT, hsz⟩ := einsumCustom_inv fixed ins out path proc ts T ins1 out1 extra hrep h
  obtain ⟨t', hst⟩ := hend ord _ hord hloop
  simp only [List.cons.injEq, Prod.mk.injEq] at hst
  obtain ⟨⟨hO, ht⟩, hstnil⟩ := hst
  subst hO; subst ht; subst hstnil
  have hout1 : out1.Nodup := by
    apply nodup_of_hasDup_false
    unfold validate at hvalid
    simp only [Bool.and_eq_true, Bool.not_eq_true'] at hvalid
    exact hvalid.1.1.2
  have hpos : ∀ l, 0 < sizesOf ins1 ts l := fun l => sizes_pos _ _ l
  have hdrop : ∀ l, keepOf ins1 ts extra l = false → sizesOf ins1 ts l = 1 := keepOf_false ins1 ts extra
  obtain ⟨hshape, hget⟩ := loop_single_b (sizesOf ins1 ts) _ _ (hout1.filter _) hpos path _ t
    (inv_shrink (sizesOf ins1 ts) (keepOf ins1 ts extra) _ hinv) hloop
  have hprod := prodN_filter (sizesOf ins1 ts) (keepOf ins1 ts extra) out1 (fun l _ hk => hdrop l hk)
  have hteq : t = einsumRef (sizesOf ins1 ts) ((ins1.zip ts).map (shrinkOp (keepOf ins1 ts extra)))
      (out1.filter (keepOf ins1 ts extra)) := by
    apply tensor_ext
    · rw [hshape]; rfl
    · rw [hshape, ← hprod, hsz]
    · exact size_ofFn _ _
    · intro idx hidx
      rw [hshape] at hidx
      exact hget idx hidx
  rw [hT, einsumRef_shrink (sizesOf ins1 ts) (keepOf ins1 ts extra) (ins1.zip ts) out1 hinv hdrop, ← hteq]

end

end TfPwaV.Einsum
