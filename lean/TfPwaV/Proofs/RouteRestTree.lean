import TfPwaV.Proofs.RouteRest
/-!
Helper lemmas for `Props/C02e.lean`, part 2 (the whole chain): the code's guards as a recursive predicate on the output
of `cal_chain_boost`, the structural induction over the decay tree (invariant: the Lorentz transformation composed from
the steps recorded so far maps the top-frame coordinates of ANY four-vector to its coordinates, after the nested
`rest_vector` boosts, along the current helicity axes), the axes of the top particle, and Lorentz invariance of `m²`
under a route.
-/
open TfPwaV.ScalarR
namespace TfPwaV.C02
open TfPwaV.KinR TfPwaV.AngleR TfPwaV.CascadeR TfPwaV.SL2CR TfPwaV.RouteRestR TfPwaV.C11

/-! ### the guards of the code along a chain -/

def MDecays : MTree → Prop
  | .leaf _ => False
  | .node _ _ => True

def RDecays : RTree → Prop
  | .leaf _ => False
  | .node _ _ _ _ _ => True

/-- one daughter with helicity-frame momentum `r = rest_p[j]`, the mother's `set_z = z`: positive energy, time-like
(massive: `LorentzVector.gamma` does not reset `beta² ≥ 1`), and `cross_unit(set_z, vect r)` is not in its degenerate
branch (`norm(cro) < 1e-14`) -/
def StepOK (z : V3) (r : V4) : Prop := 0 < r.t ∧ r.vect.norm2 < r.t ^ 2 ∧ eps ≤ (z.cross r.vect).norm

/-- **the guards along a whole chain**, read off the output of `cal_chain_boost` and the axes `cal_helicity_angle`
propagates: at every decay `cross_unit(set_z, set_x)` is regular, both daughters are `StepOK`, and every DECAYING
daughter moves fast enough for the regular branch of `LorentzVector.boost` (`beta² > 1e-14`) -/
def Guards : RTree → V3 → V3 → Prop
  | .leaf _, _, _ => True
  | .node _ r1 r2 d1 d2, z, x =>
    eps ≤ (z.cross x).norm ∧ StepOK z r1 ∧ StepOK z r2 ∧
    (RDecays d1 → eps < r1.boostVector.norm2) ∧ (RDecays d2 → eps < r2.boostVector.norm2) ∧
    Guards d1 r1.vect (angleZxZGetx z x r1.vect).x2 ∧ Guards d2 r2.vect (angleZxZGetx z x r2.vect).x2

/-! ### the induction -/

theorem routeL_snoc (pre : List Step) (st : Step) (v : V4) : routeL (pre ++ [st]) v = stepL st (routeL pre v) := by
  unfold routeL; rw [List.foldl_append]; rfl

/-- the statement carried down the tree: `g` = the nested `rest_vector` boosts applied so far, `g0` = passage from the
input frame to the top frame, `(X, Y, Z)` = current helicity axes with `set_z = s·Z`, `pre` = steps recorded so far -/
def RouteStmt (t : MTree) : Prop :=
  ∀ (g g0 : V4 → V4) (X Y Z : V3) (s : ℝ) (x : V3) (pre : List Step),
    IsFrame X Y Z → eps ≤ s → crossUnit (V3.smul s Z) x = Y →
    (∀ q, routeL pre (g0 q) = coords X Y Z (g q)) →
    Guards (chainBoost (inferMomentum t) g) (V3.smul s Z) x →
    ∀ (path : List Bool) (p : V4) (ss : List Step), MTree.leafAt t path = some p →
      (stepTree (chainBoost (inferMomentum t) g) (V3.smul s Z) x).stepsAt path = some ss →
      ∃ m, 0 < m ∧ routeL (pre ++ ss) (g0 p) = ⟨m, 0, 0, 0⟩

theorem child_step (a : MTree) (IH : MDecays a → RouteStmt a) (g g0 : V4 → V4) (X Y Z : V3) (s : ℝ) (x : V3)
    (pre : List Step) (hF : IsFrame X Y Z) (hs : eps ≤ s) (hx : crossUnit (V3.smul s Z) x = Y)
    (htrack : ∀ q, routeL pre (g0 q) = coords X Y Z (g q)) (bias : ℝ)
    (hok : StepOK (V3.smul s Z) (g a.total))
    (hreg : RDecays (chainBoost (inferMomentum a) (fun q => (g a.total).restVector (g q))) →
      eps < (g a.total).boostVector.norm2)
    (hG : Guards (chainBoost (inferMomentum a) (fun q => (g a.total).restVector (g q))) (g a.total).vect
      (angleZxZGetx (V3.smul s Z) x (g a.total).vect).x2)
    (path : List Bool) (p : V4) (ss : List Step) (hp : MTree.leafAt a path = some p)
    (hss : (stepTree (chainBoost (inferMomentum a) (fun q => (g a.total).restVector (g q))) (g a.total).vect
      (angleZxZGetx (V3.smul s Z) x (g a.total).vect).x2).stepsAt path = some ss) :
    ∃ m, 0 < m ∧ routeL (pre ++ (⟨shiftAlpha (angleZxZGetx (V3.smul s Z) x (g a.total).vect).alpha bias,
      (angleZxZGetx (V3.smul s Z) x (g a.total).vect).beta, omegaP (g a.total)⟩ : Step) :: ss) (g0 p) = ⟨m, 0, 0, 0⟩ := by
  obtain ⟨ht, hq, hg⟩ := hok
  have VF := vertex_facts X Y Z hF s hs x hx (g a.total) ht hq hg bias
  generalize angleZxZGetx (V3.smul s Z) x (g a.total).vect = out at *
  cases a with
  | leaf p0 =>
    cases path with
    | nil =>
      simp only [MTree.leafAt, Option.some.injEq] at hp
      simp only [inferMomentum, chainBoost, stepTree, STree.stepsAt, Option.some.injEq] at hss
      subst hp; subst hss
      refine ⟨_, VF.mpos, ?_⟩
      rw [routeL_snoc, htrack]
      have ht0 : (MTree.leaf p0).total = p0 := rfl
      rw [ht0] at VF ⊢
      rw [VF.tracks]
      exact stepL_polar _ _
    | cons _ _ => simp [MTree.leafAt] at hp
  | node a1 a2 =>
    obtain ⟨Y', Z', P, F', hP, hvect, hstep⟩ := VF.ex
    have hreg' := hreg (by simp only [inferMomentum, chainBoost, RDecays])
    have hstep' := hstep hreg'
    have h1 : eps ≤ ((g (MTree.node a1 a2).total).vect.cross out.x2).norm := by
      simp only [inferMomentum, chainBoost, Guards] at hG
      exact hG.1
    rw [hvect, norm_cross_smul F' P hP, F'.xx, dot_comm Y' out.x2, F'.xy] at h1
    have hPeps : eps ≤ P := by
      have : Real.sqrt (1 * 1 + 0 * 0) = 1 := by norm_num
      rw [this, mul_one] at h1; exact h1
    have hx' : crossUnit (V3.smul P Z') out.x2 = Y' :=
      crossUnit_eq _ _ Y' P (by rw [cross_smul_left, F'.czx]) (by rw [norm2_eq_dot]; exact F'.yy) hPeps
    have track' : ∀ q, routeL (pre ++ [(⟨shiftAlpha out.alpha bias, out.beta,
        omegaP (g (MTree.node a1 a2).total)⟩ : Step)]) (g0 q) =
        coords out.x2 Y' Z' ((g (MTree.node a1 a2).total).restVector (g q)) := by
      intro q
      rw [routeL_snoc, htrack, hstep']
    rw [hvect] at hG hss
    obtain ⟨m, hm, hr⟩ := IH trivial _ g0 out.x2 Y' Z' P out.x2 _ F' hPeps hx' track' hG path p ss hp hss
    refine ⟨m, hm, ?_⟩
    rw [List.append_assoc] at hr
    exact hr

theorem steps_general : ∀ t : MTree, MDecays t → RouteStmt t
  | .leaf _, h => h.elim
  | .node a b, _ => by
    intro g g0 X Y Z s x pre hF hs hx htrack hG path p ss hp hss
    simp only [inferMomentum, chainBoost, Guards, infer_p] at hG
    obtain ⟨-, ok1, ok2, reg1, reg2, G1, G2⟩ := hG
    cases path with
    | nil => simp [MTree.leafAt] at hp
    | cons c rest =>
      cases c with
      | false =>
        simp only [MTree.leafAt] at hp
        simp only [inferMomentum, chainBoost, stepTree, STree.stepsAt, infer_p, Option.map_eq_some_iff] at hss
        obtain ⟨ss', hss', rfl⟩ := hss
        exact child_step a (fun h => steps_general a h) g g0 X Y Z s x pre hF hs hx htrack (-kpi) ok1 reg1 G1 rest p ss'
          hp hss'
      | true =>
        simp only [MTree.leafAt] at hp
        simp only [inferMomentum, chainBoost, stepTree, STree.stepsAt, infer_p, Option.map_eq_some_iff] at hss
        obtain ⟨ss', hss', rfl⟩ := hss
        exact child_step b (fun h => steps_general b h) g g0 X Y Z s x pre hF hs hx htrack (-kpi - kpi) ok2 reg2 G2 rest
          p ss' hp hss'

/-! ### the axes of the top particle -/

/-- `angle_zx_z_getx(base_z, base_x, ·)` works in the orthonormal frame `(u_x, u_y, u_z)` it derives from
`(base_z, base_x)` — whenever `cross_unit(base_z, base_x)` and `cross_unit(u_y, base_z)` are regular -/
theorem top_frame (bz bx : V3) (h1 : eps ≤ (bz.cross bx).norm) (h2 : eps ≤ bz.norm) :
    IsFrame (topX bz bx) (topY bz bx) (topZ bz) ∧ bz = V3.smul bz.norm (topZ bz) ∧
      crossUnit (V3.smul bz.norm (topZ bz)) bx = topY bz bx := by
  have hbz2 : 0 < bz.norm2 := by
    have : 0 < bz.norm := lt_of_lt_of_le eps_pos h2
    exact Real.sqrt_pos.mp this
  have hc2 : 0 < (bz.cross bx).norm2 := by
    have : 0 < (bz.cross bx).norm := lt_of_lt_of_le eps_pos h1
    exact Real.sqrt_pos.mp this
  obtain ⟨hbz, hZ1, hs0⟩ := unit_spec bz hbz2
  obtain ⟨hc, hY1, hn0⟩ := unit_spec (bz.cross bx) hc2
  have hY : crossUnit bz bx = (bz.cross bx).unit := crossUnit_eq bz bx _ _ hc hY1 h1
  have hYZ : ((bz.cross bx).unit).dot bz.unit = 0 := by
    have hne1 := hs0.ne'
    have hne2 := hn0.ne'
    simp only [V3.unit, V3.dot]
    field_simp
    simp only [V3.cross]
    ring
  have F := frame_of_orthonormal (bz.cross bx).unit bz.unit (by rw [← norm2_eq_dot]; exact hY1)
    (by rw [← norm2_eq_dot]; exact hZ1) hYZ
  have hXc : (bz.cross bx).unit.cross bz = V3.smul bz.norm ((bz.cross bx).unit.cross bz.unit) := by
    rw [← cross_smul_right, ← hbz]
  have hX : crossUnit (bz.cross bx).unit bz = (bz.cross bx).unit.cross bz.unit :=
    crossUnit_eq _ _ _ _ hXc (by rw [norm2_eq_dot]; exact F.xx) h2
  unfold topX topY topZ
  rw [hY, hX]
  refine ⟨F, hbz, ?_⟩
  rw [← hbz]; exact hY

/-! ### `m²` along a route -/

theorem stepL_m2 (s : Step) (p : V4) : (stepL s p).m2 = p.m2 := by
  have h1 := Real.sin_sq_add_cos_sq s.alpha
  have h2 := Real.sin_sq_add_cos_sq s.beta
  have h3 := Real.cosh_sq s.omega
  have e1 : ∀ q : V4, (rotZv s.alpha q).m2 = q.m2 := by
    intro q
    simp only [rotZv, V4.m2, V4.dot, kcos, ksin]
    linear_combination (-(q.x * q.x + q.y * q.y)) * h1
  have e2 : ∀ q : V4, (rotYv s.beta q).m2 = q.m2 := by
    intro q
    simp only [rotYv, V4.m2, V4.dot, kcos, ksin]
    linear_combination (-(q.x * q.x + q.z * q.z)) * h2
  have e3 : ∀ q : V4, (boostZv s.omega q).m2 = q.m2 := by
    intro q
    simp only [boostZv, V4.m2, V4.dot, kcosh_eq, ksinh_eq]
    linear_combination (q.t * q.t - q.z * q.z) * h3
  unfold stepL
  rw [e3, e2, e1]

theorem routeL_m2 (ss : List Step) (p : V4) : (routeL ss p).m2 = p.m2 := by
  unfold routeL
  induction ss generalizing p with
  | nil => rfl
  | cons s ss ih => rw [List.foldl_cons, ih, stepL_m2]

/-- a route that brings `q` to rest with a positive mass does so with `m = √(q·q)` -/
theorem rest_mass_eq (ss : List Step) (q : V4) (m : ℝ) (hm : 0 < m) (h : routeL ss q = ⟨m, 0, 0, 0⟩) :
    Real.sqrt q.m2 = m := by
  have := routeL_m2 ss q
  rw [h] at this
  rw [← this]
  simp only [V4.m2, V4.dot, mul_zero, sub_zero]
  exact Real.sqrt_mul_self hm.le

end TfPwaV.C02
