import Mathlib.Algebra.BigOperators.Group.List.Basic
import Mathlib.Algebra.BigOperators.Ring.List
import Mathlib.Algebra.Ring.Hom.Defs
import Mathlib.Tactic.Ring
import TfPwaV.Model.Factorise

/-! C05 part B: algebra of the factorised / cached strategies (helper lemmas for Props/C05c.lean). -/
namespace TfPwaV.Factorise

variable {R : Type} [CommRing R]

/-! ### smul / vadd / outer -/

@[simp] theorem smul_nil (c : R) : smul c [] = [] := rfl
@[simp] theorem smul_cons (c x : R) (v : List R) : smul c (x :: v) = c * x :: smul c v := rfl
@[simp] theorem length_smul (c : R) (v : List R) : (smul c v).length = v.length := by simp [smul]
theorem smul_append (c : R) (a b : List R) : smul c (a ++ b) = smul c a ++ smul c b := by simp [smul]
theorem smul_smul (c d : R) (v : List R) : smul c (smul d v) = smul (c * d) v := by
  simp [smul, mul_assoc]
theorem smul_one (v : List R) : smul 1 v = v := by simp [smul]
theorem smul_zero_eq (v : List R) : smul 0 v = List.replicate v.length 0 := by
  induction v with
  | nil => rfl
  | cons x v ih => simp [List.replicate_succ, ih]

@[simp] theorem vadd_nil : vadd ([] : List R) [] = [] := rfl
@[simp] theorem vadd_cons (x y : R) (a b : List R) : vadd (x :: a) (y :: b) = (x + y) :: vadd a b := rfl
theorem length_vadd (a b : List R) (h : a.length = b.length) : (vadd a b).length = a.length := by
  simp [vadd, h]
theorem vadd_smul_smul (x y : R) (v : List R) : vadd (smul x v) (smul y v) = smul (x + y) v := by
  induction v with
  | nil => rfl
  | cons z v ih => simp [ih, add_mul]

@[simp] theorem outer_nil (b : List R) : outer [] b = [] := rfl
@[simp] theorem outer_cons (x : R) (a b : List R) : outer (x :: a) b = smul x b ++ outer a b := by
  simp [outer]
theorem outer_append (a a' b : List R) : outer (a ++ a') b = outer a b ++ outer a' b := by
  simp [outer]
theorem length_outer (a b : List R) : (outer a b).length = a.length * b.length := by
  induction a with
  | nil => simp
  | cons x a ih => simp [ih, Nat.succ_mul, Nat.add_comm]
theorem smul_outer (c : R) (a b : List R) : smul c (outer a b) = outer (smul c a) b := by
  induction a with
  | nil => rfl
  | cons x a ih => simp [smul_append, smul_smul, ih]
theorem outer_smul_right (c : R) (a b : List R) : outer a (smul c b) = smul c (outer a b) := by
  induction a with
  | nil => rfl
  | cons x a ih => simp [smul_append, smul_smul, ih, mul_comm]
/-- flattening the iterated outer product is associative: (a ⊗ b) ⊗ c and a ⊗ (b ⊗ c) are the same flat list -/
theorem outer_assoc (a b c : List R) : outer (outer a b) c = outer a (outer b c) := by
  induction a with
  | nil => rfl
  | cons x a ih => rw [outer_cons, outer_append, ih, outer_cons, smul_outer]
theorem outer_one_right (a : List R) : outer a [1] = a := by
  induction a with
  | nil => rfl
  | cons x a ih => simp [ih]
theorem outer_one_left (b : List R) : outer [1] b = b := by simp [smul_one]

/-- the left fold of `build_params_vector` is the row-major (right-nested) product tensor -/
theorem foldl_outer_eq (fs : List (List R)) (f : List R) : fs.foldl outer f = outer f (fs.foldr outer [1]) := by
  induction fs generalizing f with
  | nil => simp [outer_one_right]
  | cons a fs ih => simp only [List.foldl_cons, List.foldr_cons]; rw [ih, outer_assoc]
theorem outer_foldr_one (ps : List (List R)) (hel : List R) : outer (ps.foldr outer [1]) hel = ps.foldr outer hel := by
  induction ps with
  | nil => simp [smul_one]
  | cons p ps ih => simp only [List.foldr_cons]; rw [outer_assoc, ih]
theorem smul_foldr_outer (c : R) (ps : List (List R)) (hel : List R) :
    smul c (ps.foldr outer hel) = ps.foldr outer (smul c hel) := by
  induction ps with
  | nil => rfl
  | cons p ps ih => simp only [List.foldr_cons]; rw [← outer_smul_right, ih]

/-! ### dot -/

@[simp] theorem dot_nil_left (a : List R) : dot [] a = 0 := by simp [dot]
@[simp] theorem dot_nil_right (p : List R) : dot p [] = 0 := by simp [dot]
@[simp] theorem dot_cons (x y : R) (p a : List R) : dot (x :: p) (y :: a) = x * y + dot p a := by simp [dot]
theorem dot_append (p p' a a' : List R) (h : p.length = a.length) :
    dot (p ++ p') (a ++ a') = dot p a + dot p' a' := by
  simp [dot, List.zipWith_append h]
theorem dot_smul_smul (x y : R) (b d : List R) : dot (smul x b) (smul y d) = x * y * dot b d := by
  induction b generalizing d with
  | nil => simp
  | cons u b ih =>
    cases d with
    | nil => simp
    | cons v d => simp [ih]; ring
/-- `Σ_{ij} (a_i b_j)(c_i d_j) = (Σ_i a_i c_i)(Σ_j b_j d_j)`: the flat positions of the two outer products line up
    as soon as the INNER factors have the same length -/
theorem dot_outer (a b c d : List R) (h : b.length = d.length) : dot (outer a b) (outer c d) = dot a c * dot b d := by
  induction a generalizing c with
  | nil => simp
  | cons x a ih =>
    cases c with
    | nil => simp
    | cons y c => rw [outer_cons, outer_cons, dot_append _ _ _ _ (by simp [h]), dot_smul_smul, ih, dot_cons]; ring
theorem dot_vadd_right (p a b : List R) (h : a.length = b.length) : dot p (vadd a b) = dot p a + dot p b := by
  induction p generalizing a b with
  | nil => simp
  | cons x p ih =>
    cases a with
    | nil => cases b with
      | nil => simp
      | cons _ _ => simp at h
    | cons u a => cases b with
      | nil => simp at h
      | cons v b => simp [ih a b (by simpa using h)]; ring
theorem dot_smul_right (c : R) (p a : List R) : dot p (smul c a) = c * dot p a := by
  induction p generalizing a with
  | nil => simp
  | cons x p ih => cases a with
    | nil => simp
    | cons u a => simp [ih]; ring

theorem dot_foldl_outer (c : List (List R × List R)) (f p : List R) (h : ∀ d ∈ c, d.1.length = d.2.length) :
    dot ((c.map Prod.fst).foldl outer f) ((c.map Prod.snd).foldl outer p)
      = dot f p * prodL (c.map fun d => dot d.1 d.2) := by
  induction c generalizing f p with
  | nil => simp [prodL]
  | cons d c ih =>
    simp only [List.map_cons, List.foldl_cons]
    rw [ih _ _ (fun e he => h e (List.mem_cons_of_mem _ he)), dot_outer _ _ _ _ (h d List.mem_cons_self), prodL]
    ring

/-- one chain: the params vector dotted with the angular cache is the product over the decays -/
theorem cached_chain (c : List (List R × List R)) (hne : c ≠ []) (h : ∀ d ∈ c, d.1.length = d.2.length) :
    dot (paramsVector (c.map Prod.fst)) (angOf (c.map Prod.snd)) = prodL (c.map fun d => dot d.1 d.2) := by
  cases c with
  | nil => exact absurd rfl hne
  | cons d c =>
    simp only [List.map_cons, paramsVector, angOf]
    rw [dot_foldl_outer c _ _ (fun e he => h e (List.mem_cons_of_mem _ he)), prodL]

theorem angOf_eq_angTensor (ps : List (List R)) (hne : ps ≠ []) : angOf ps = angTensor ps [1] := by
  cases ps with
  | nil => exact absurd rfl hne
  | cons p ps => simp only [angOf, paramsVector, angTensor, List.foldr_cons]; exact foldl_outer_eq ps p

theorem outer_angOf (ps : List (List R)) (hel : List R) (hne : ps ≠ []) : outer (angOf ps) hel = angTensor ps hel := by
  rw [angOf_eq_angTensor ps hne]; exact outer_foldr_one ps hel

/-! ### successive contraction of the leading axis -/

theorem contractLead_outer (g p rest : List R) (h : g.length = p.length) :
    contractLead g (outer p rest) rest.length = smul (dot g p) rest := by
  induction g generalizing p with
  | nil =>
    cases p with
    | nil => simp [contractLead, smul_zero_eq]
    | cons _ _ => simp at h
  | cons x g ih =>
    cases p with
    | nil => simp at h
    | cons y p =>
      simp only [contractLead, outer_cons]
      rw [List.take_left' (by simp), List.drop_left' (by simp), ih p (by simpa using h), smul_smul, vadd_smul_smul, dot_cons]

theorem factorAmp_angTensor (c : List (List R × List R)) (hel : List R)
    (h : ∀ d ∈ c, d.1.length = d.2.length ∧ 0 < d.1.length) :
    factorAmp (c.map Prod.fst) (angTensor (c.map Prod.snd) hel)
      = some (smul (prodL (c.map fun d => dot d.1 d.2)) hel) := by
  induction c generalizing hel with
  | nil => simp [factorAmp, angTensor, prodL, smul_one]
  | cons d c ih =>
    obtain ⟨hl, hp⟩ := h d List.mem_cons_self
    have ih' := fun hel => ih hel (fun e he => h e (List.mem_cons_of_mem _ he))
    simp only [angTensor] at ih' ⊢
    simp only [List.map_cons, List.foldr_cons, factorAmp, length_outer]
    have h1 : d.2.length * ((c.map Prod.snd).foldr outer hel).length % d.1.length = 0 := by
      rw [← hl]; exact Nat.mul_mod_right _ _
    have h2 : d.2.length * ((c.map Prod.snd).foldr outer hel).length / d.1.length
        = ((c.map Prod.snd).foldr outer hel).length := by
      rw [← hl]; exact Nat.mul_div_cancel_left _ hp
    rw [if_neg (by omega), h2, contractLead_outer _ _ _ hl, smul_foldr_outer, ih', smul_smul, prodL]
    congr 2
    ring


/-! ### sums over chains, sums over helicity configurations, batches -/

theorem cachedAmp_chains (chains : List (List (List R × List R)))
    (h : ∀ c ∈ chains, c ≠ [] ∧ ∀ d ∈ c, d.1.length = d.2.length) :
    cachedAmp (chains.map fun c => paramsVector (c.map Prod.fst)) (chains.map fun c => angOf (c.map Prod.snd))
      = directAmp chains := by
  induction chains with
  | nil => simp [cachedAmp, directAmp]
  | cons c cs ih =>
    have hc := h c List.mem_cons_self
    have ih' := ih (fun e he => h e (List.mem_cons_of_mem _ he))
    simp only [cachedAmp, directAmp, List.map_cons, List.zipWith_cons_cons, List.sum_cons] at ih' ⊢
    rw [ih', cached_chain c hc.1 hc.2]

theorem length_foldl_outer (c : List (List R × List R)) (f p : List R) (hfp : f.length = p.length)
    (h : ∀ d ∈ c, d.1.length = d.2.length) :
    ((c.map Prod.fst).foldl outer f).length = ((c.map Prod.snd).foldl outer p).length := by
  induction c generalizing f p with
  | nil => simpa using hfp
  | cons d c ih =>
    simp only [List.map_cons, List.foldl_cons]
    exact ih _ _ (by simp [length_outer, hfp, h d List.mem_cons_self]) (fun e he => h e (List.mem_cons_of_mem _ he))

theorem length_angOf (c : List (List R × List R)) (h : ∀ d ∈ c, d.1.length = d.2.length) :
    (angOf (c.map Prod.snd)).length = (paramsVector (c.map Prod.fst)).length := by
  cases c with
  | nil => rfl
  | cons d c =>
    simp only [List.map_cons, paramsVector, angOf]
    exact (length_foldl_outer c _ _ (h d List.mem_cons_self) (fun e he => h e (List.mem_cons_of_mem _ he))).symm

theorem length_vsum (H : Nat) (vs : List (List R)) (h : ∀ v ∈ vs, v.length = H) : (vsum H vs).length = H := by
  induction vs with
  | nil => simp [vsum]
  | cons v vs ih =>
    have := ih (fun u hu => h u (List.mem_cons_of_mem _ hu))
    simp only [vsum, List.foldr_cons] at this ⊢
    rw [length_vadd _ _ (by rw [this, h v List.mem_cons_self])]; exact h v List.mem_cons_self

theorem dot_zero_right (p : List R) (n : Nat) : dot p (List.replicate n 0) = 0 := by
  induction p generalizing n with
  | nil => simp
  | cons x p ih => cases n with
    | zero => simp
    | succ n => simp [List.replicate_succ, ih]

/-- the angular cache of a chain is a SUM over inner-helicity configurations of product-form terms; the cached form is
    linear in it -/
theorem cached_chain_sum (gs : List (List R)) (terms : List (List (List R × List R)))
    (h : ∀ t ∈ terms, t ≠ [] ∧ t.map Prod.fst = gs ∧ ∀ d ∈ t, d.1.length = d.2.length) :
    dot (paramsVector gs) (vsum (paramsVector gs).length (terms.map fun t => angOf (t.map Prod.snd)))
      = (terms.map fun t => prodL (t.map fun d => dot d.1 d.2)).sum := by
  induction terms with
  | nil => simp [vsum, dot_zero_right]
  | cons t ts ih =>
    obtain ⟨hne, hg, hl⟩ := h t List.mem_cons_self
    have hts := fun e he => h e (List.mem_cons_of_mem _ he)
    have ih' := ih hts
    have hlen : ∀ v ∈ ts.map (fun t => angOf (t.map Prod.snd)), v.length = (paramsVector gs).length := by
      intro v hv
      obtain ⟨u, hu, rfl⟩ := List.mem_map.mp hv
      obtain ⟨_, hg', hl'⟩ := hts u hu
      rw [length_angOf u hl', hg']
    simp only [vsum, List.map_cons, List.foldr_cons, List.sum_cons] at ih' ⊢
    rw [dot_vadd_right _ _ _ (by
      have := length_vsum _ _ hlen
      simp only [vsum] at this
      rw [this, length_angOf t hl, hg]), ih', ← hg, cached_chain t hne hl]

theorem mapM_some {α β : Type} (f : α → Option β) (g : α → β) (l : List α) (h : ∀ a ∈ l, f a = some (g a)) :
    l.mapM f = some (l.map g) := by
  induction l with
  | nil => rfl
  | cons a l ih =>
    rw [List.mapM_cons, h a List.mem_cons_self, ih (fun b hb => h b (List.mem_cons_of_mem _ hb))]
    rfl

theorem vsum_singletons (vs : List R) : vsum 1 (vs.map fun v => [v]) = [vs.sum] := by
  induction vs with
  | nil => simp [vsum]
  | cons v vs ih =>
    simp only [vsum, List.map_cons, List.foldr_cons, List.sum_cons] at ih ⊢
    rw [ih]; rfl

/-! ### cached integral -/

variable (conj : R →+* R)

theorem wsum_nil_w (x y : List R) : wsum conj [] x y = 0 := by simp [wsum]
theorem wsum_nil_x (w y : List R) : wsum conj w [] y = 0 := by cases w <;> simp [wsum]
theorem wsum_nil_y (w x : List R) : wsum conj w x [] = 0 := by cases w <;> cases x <;> simp [wsum]
@[simp] theorem wsum_cons (w x y : R) (ws xs ys : List R) :
    wsum conj (w :: ws) (x :: xs) (y :: ys) = w * (x * conj y) + wsum conj ws xs ys := rfl

theorem wsum_zero_left (w y : List R) (n : Nat) : wsum conj w (List.replicate n 0) y = 0 := by
  induction w generalizing y n with
  | nil => exact wsum_nil_w conj _ _
  | cons a w ih =>
    cases n with
    | zero => exact wsum_nil_x conj _ _
    | succ n => cases y with
      | nil => exact wsum_nil_y conj _ _
      | cons b y => simp [List.replicate_succ, ih]
theorem wsum_zero_right (w x : List R) (n : Nat) : wsum conj w x (List.replicate n 0) = 0 := by
  induction w generalizing x n with
  | nil => exact wsum_nil_w conj _ _
  | cons a w ih =>
    cases n with
    | zero => exact wsum_nil_y conj _ _
    | succ n => cases x with
      | nil => exact wsum_nil_x conj _ _
      | cons b x => simp [List.replicate_succ, ih]

theorem wsum_smul_left (c : R) (w x y : List R) : wsum conj w (smul c x) y = c * wsum conj w x y := by
  induction w generalizing x y with
  | nil => simp [wsum_nil_w]
  | cons a w ih =>
    cases x with
    | nil => simp [wsum_nil_x]
    | cons b x => cases y with
      | nil => simp [wsum_nil_y]
      | cons d y => simp [ih]; ring
theorem wsum_smul_right (c : R) (w x y : List R) : wsum conj w x (smul c y) = conj c * wsum conj w x y := by
  induction w generalizing x y with
  | nil => simp [wsum_nil_w]
  | cons a w ih =>
    cases x with
    | nil => simp [wsum_nil_x]
    | cons b x => cases y with
      | nil => simp [wsum_nil_y]
      | cons d y => simp [ih]; ring
theorem wsum_vadd_left (w x x' y : List R) (h : x.length = x'.length) :
    wsum conj w (vadd x x') y = wsum conj w x y + wsum conj w x' y := by
  induction w generalizing x x' y with
  | nil => simp [wsum_nil_w]
  | cons a w ih =>
    cases x with
    | nil => cases x' with
      | nil => simp [wsum_nil_x]
      | cons _ _ => simp at h
    | cons b x => cases x' with
      | nil => simp at h
      | cons b' x' => cases y with
        | nil => simp [wsum_nil_y]
        | cons d y => simp [ih x x' y (by simpa using h)]; ring
theorem wsum_vadd_right (w x y y' : List R) (h : y.length = y'.length) :
    wsum conj w x (vadd y y') = wsum conj w x y + wsum conj w x y' := by
  induction w generalizing x y y' with
  | nil => simp [wsum_nil_w]
  | cons a w ih =>
    cases x with
    | nil => simp [wsum_nil_x]
    | cons b x => cases y with
      | nil => cases y' with
        | nil => simp [wsum_nil_y]
        | cons _ _ => simp at h
      | cons d y => cases y' with
        | nil => simp at h
        | cons d' y' => simp [ih x y y' (by simpa using h)]; ring

theorem wsum_append (w1 w2 x1 x2 y1 y2 : List R) (hx : x1.length = w1.length) (hy : y1.length = w1.length) :
    wsum conj (w1 ++ w2) (x1 ++ x2) (y1 ++ y2) = wsum conj w1 x1 y1 + wsum conj w2 x2 y2 := by
  induction w1 generalizing x1 y1 with
  | nil =>
    have h1 : x1 = [] := List.length_eq_zero_iff.mp hx
    have h2 : y1 = [] := List.length_eq_zero_iff.mp hy
    subst h1; subst h2; simp [wsum_nil_w]
  | cons a w ih =>
    cases x1 with
    | nil => simp at hx
    | cons b x => cases y1 with
      | nil => simp at hy
      | cons d y =>
        simp only [List.cons_append, wsum_cons]
        rw [ih x y (by simpa using hx) (by simpa using hy)]; ring

theorem length_lin (n : Nat) (p : List R) (xs : List (List R)) (h : ∀ x ∈ xs, x.length = n) :
    (lin n p xs).length = n := by
  induction p generalizing xs with
  | nil => simp [lin]
  | cons a p ih =>
    cases xs with
    | nil => simp [lin]
    | cons x xs =>
      have hx := h x List.mem_cons_self
      have hr := ih xs (fun v hv => h v (List.mem_cons_of_mem _ hv))
      simp only [lin]
      rw [length_vadd _ _ (by simp [hx, hr])]; simp [hx]

/-- inner sum over the column index b -/
theorem row_sum (n : Nat) (w xa : List R) (a : R) (p : List R) (xs : List (List R)) (h : ∀ x ∈ xs, x.length = n) :
    dot (p.map fun b => a * conj b) (xs.map fun xb => wsum conj w xa xb) = a * wsum conj w xa (lin n p xs) := by
  induction p generalizing xs with
  | nil => simp [lin, wsum_zero_right]
  | cons b p ih =>
    cases xs with
    | nil => simp [lin, wsum_zero_right]
    | cons x xs =>
      have hx := h x List.mem_cons_self
      have hxs : ∀ v ∈ xs, v.length = n := fun v hv => h v (List.mem_cons_of_mem _ hv)
      simp only [List.map_cons, dot_cons, lin]
      rw [ih xs hxs, wsum_vadd_right _ _ _ _ _ (by simp [hx, length_lin n p xs hxs]), wsum_smul_right]
      ring

/-- outer sum over the row index a -/
theorem quad_sum (n : Nat) (w : List R) (p : List R) (xs : List (List R)) (h : ∀ x ∈ xs, x.length = n)
    (p' : List R) (xs' : List (List R)) (h' : ∀ x ∈ xs', x.length = n) :
    (List.zipWith dot (p'.map fun a => p.map fun b => a * conj b)
        (xs'.map fun xa => xs.map fun xb => wsum conj w xa xb)).sum
      = wsum conj w (lin n p' xs') (lin n p xs) := by
  induction p' generalizing xs' with
  | nil => simp [lin, wsum_zero_left]
  | cons a p' ih =>
    cases xs' with
    | nil => simp [lin, wsum_zero_left]
    | cons x xs' =>
      have hx := h' x List.mem_cons_self
      have hxs : ∀ v ∈ xs', v.length = n := fun v hv => h' v (List.mem_cons_of_mem _ hv)
      simp only [List.map_cons, List.zipWith_cons_cons, List.sum_cons, lin]
      rw [ih xs' hxs, row_sum conj n w x a p xs h,
        wsum_vadd_left _ _ _ _ _ (by simp [hx, length_lin n p' xs' hxs]), wsum_smul_left]

theorem cachedInt_intMatrix (w p : List R) (xs : List (List R)) (h : ∀ x ∈ xs, x.length = w.length) :
    cachedInt conj p (intMatrix conj w xs) = directInt conj w (lin w.length p xs) := by
  unfold cachedInt intMatrix paramsMatrix directInt
  exact quad_sum conj w.length w p xs h p xs h

theorem directInt_selfconj (hinv : ∀ r, conj (conj r) = r) (w A : List R) (hw : ∀ v ∈ w, conj v = v) :
    conj (directInt conj w A) = directInt conj w A := by
  unfold directInt
  induction w generalizing A with
  | nil => simp [wsum_nil_w]
  | cons a w ih =>
    cases A with
    | nil => simp [wsum_nil_x]
    | cons b A =>
      simp only [wsum_cons, map_add, map_mul]
      rw [ih A (fun v hv => hw v (List.mem_cons_of_mem _ hv)), hw a List.mem_cons_self, hinv]
      ring


/-! ### the amplitude vector `lin` slot by slot is the cached amplitude of that slot -/

theorem smul_getD (c : R) (v : List R) (s : Nat) : (smul c v).getD s 0 = c * v.getD s 0 := by
  induction v generalizing s with
  | nil => simp
  | cons x v ih => cases s with
    | zero => simp
    | succ s => simpa using ih s
theorem vadd_getD (a b : List R) (s : Nat) (h : a.length = b.length) :
    (vadd a b).getD s 0 = a.getD s 0 + b.getD s 0 := by
  induction a generalizing b s with
  | nil => cases b with
    | nil => simp
    | cons _ _ => simp at h
  | cons x a ih => cases b with
    | nil => simp at h
    | cons y b => cases s with
      | zero => simp
      | succ s => simpa using ih b s (by simpa using h)
theorem getD_replicate_zero (n s : Nat) : (List.replicate n (0 : R)).getD s 0 = 0 := by
  by_cases h : s < n
  · simp [List.getD_eq_getElem?_getD, h]
  · simp [List.getD_eq_getElem?_getD, h]
theorem lin_getD (n s : Nat) (p : List R) (xs : List (List R)) (h : ∀ x ∈ xs, x.length = n) :
    (lin n p xs).getD s 0 = dot p (xs.map fun x => x.getD s 0) := by
  induction p generalizing xs with
  | nil => simp only [lin, dot_nil_left]; exact getD_replicate_zero n s
  | cons a p ih =>
    cases xs with
    | nil => simp only [lin, dot_nil_right, List.map_nil]; exact getD_replicate_zero n s
    | cons x xs =>
      have hx := h x List.mem_cons_self
      have hxs : ∀ v ∈ xs, v.length = n := fun v hv => h v (List.mem_cons_of_mem _ hv)
      simp only [lin, List.map_cons, dot_cons]
      rw [vadd_getD _ _ _ (by simp [hx, length_lin n p xs hxs]), smul_getD, ih xs hxs]

/-! ### the Gaussian integers of the model are a commutative ring with conjugation (for non-vacuity examples) -/

instance : Neg GI := ⟨fun a => ⟨-a.re, -a.im⟩⟩
theorem GI.eq_iff (a b : GI) : a = b ↔ a.re = b.re ∧ a.im = b.im := by
  cases a; cases b; simp
@[simp] theorem GI.add_re (a b : GI) : (a + b).re = a.re + b.re := rfl
@[simp] theorem GI.add_im (a b : GI) : (a + b).im = a.im + b.im := rfl
@[simp] theorem GI.mul_re (a b : GI) : (a * b).re = a.re * b.re - a.im * b.im := rfl
@[simp] theorem GI.mul_im (a b : GI) : (a * b).im = a.re * b.im + a.im * b.re := rfl
@[simp] theorem GI.zero_re : (0 : GI).re = 0 := rfl
@[simp] theorem GI.zero_im : (0 : GI).im = 0 := rfl
@[simp] theorem GI.one_re : (1 : GI).re = 1 := rfl
@[simp] theorem GI.one_im : (1 : GI).im = 0 := rfl
@[simp] theorem GI.neg_re (a : GI) : (-a).re = -a.re := rfl
@[simp] theorem GI.neg_im (a : GI) : (-a).im = -a.im := rfl
@[simp] theorem GI.conj_re (a : GI) : a.conj.re = a.re := rfl
@[simp] theorem GI.conj_im (a : GI) : a.conj.im = -a.im := rfl

/-- the Gaussian integers of the model are a commutative ring … -/
instance : CommRing GI where
  add_assoc a b c := by rw [GI.eq_iff]; constructor <;> simp <;> ring
  zero_add a := by rw [GI.eq_iff]; constructor <;> simp
  add_zero a := by rw [GI.eq_iff]; constructor <;> simp
  add_comm a b := by rw [GI.eq_iff]; constructor <;> simp <;> ring
  mul_assoc a b c := by rw [GI.eq_iff]; constructor <;> simp <;> ring
  one_mul a := by rw [GI.eq_iff]; constructor <;> simp
  mul_one a := by rw [GI.eq_iff]; constructor <;> simp
  left_distrib a b c := by rw [GI.eq_iff]; constructor <;> simp <;> ring
  right_distrib a b c := by rw [GI.eq_iff]; constructor <;> simp <;> ring
  zero_mul a := by rw [GI.eq_iff]; constructor <;> simp
  mul_zero a := by rw [GI.eq_iff]; constructor <;> simp
  mul_comm a b := by rw [GI.eq_iff]; constructor <;> simp <;> ring
  neg_add_cancel a := by rw [GI.eq_iff]; constructor <;> simp
  nsmul := nsmulRec
  zsmul := zsmulRec

/-- … and complex conjugation is a ring endomorphism of them -/
def GI.conjHom : GI →+* GI where
  toFun := GI.conj
  map_one' := by decide
  map_mul' a b := by rw [GI.eq_iff]; constructor <;> simp; ring
  map_zero' := by decide
  map_add' a b := by rw [GI.eq_iff]; constructor <;> simp; ring

theorem GI.conj_conj (a : GI) : GI.conjHom (GI.conjHom a) = a := by
  rw [GI.eq_iff]; constructor <;> simp [GI.conjHom]


end TfPwaV.Factorise
