import TfPwaV.Proofs.ConfigGN
import TfPwaV.Proofs.ConfigRT
/-! Helper lemmas for C19g: `coef_head` ties (core Lean only). -/
namespace TfPwaV.ConfigD
open TfPwaV.Config

theorem foldlM_inv {σ α : Type} (f : σ → α → Except String σ) (P : σ → Prop) (l : List α)
    (hstep : ∀ s a s', a ∈ l → P s → f s a = .ok s' → P s') : ∀ s s', P s → l.foldlM f s = .ok s' → P s' := by
  induction l with
  | nil =>
    intro s s' hp h
    simp only [List.foldlM_nil, pure, Except.pure, Except.ok.injEq] at h
    subst h; exact hp
  | cons a as ih =>
    intro s s' hp h
    simp only [List.foldlM_cons, bind, Except.bind] at h
    cases hfa : f s a with
    | error e => rw [hfa] at h; simp at h
    | ok s1 =>
      rw [hfa] at h
      exact ih (fun s a' s'' ha => hstep s a' s'' (List.mem_cons_of_mem _ ha)) s1 s'
        (hstep s a s1 (List.mem_cons_self ..) hp hfa) h

/-- a tie of two `g_ls` components at one chain position -/
def GlsTie (x : CtxD) (c dh : Chain) (i : Name) (p : String × String) : Prop :=
  ∃ jh ∈ c.zip dh, (i = jh.1.o1 ∨ i = jh.1.o2 ∨ i = jh.1.core) ∧ (x.ls jh.2).length = (x.ls jh.1).length ∧
    ∃ k, k < (x.ls jh.1).length ∧
      p = (x.headOf jh.2 ++ "_g_ls_" ++ toString k, x.headOf jh.1 ++ "_g_ls_" ++ toString k)

/-- what the card declares: particle `i` (inner particle of chain `c`) names the head `h` (inner particle of chain `dh`);
tied are the totals of the two chains and, position by position, the couplings of the decays `i` takes part in -/
def TieDeclared (x : CtxD) (chains : List Chain) (p : String × String) : Prop :=
  ∃ c ∈ chains, ∃ i ∈ chainInner c, ∃ h, coefHeadOf ((getKV x.props i).getD []) = some h ∧
    ∃ dh ∈ chains, h ∈ chainInner dh ∧
      (p = (x.chainHead dh ++ "_total_0r", x.chainHead c ++ "_total_0r") ∨ GlsTie x c dh i p)

theorem glsTies_inv (x : CtxD) (c dh : Chain) (i : Name) (old ties : List (String × String))
    (h : (c.zip dh).foldlM (glsTies x i) old = .ok ties) : ∀ p ∈ ties, p ∈ old ∨ GlsTie x c dh i p := by
  refine foldlM_inv (glsTies x i) (fun acc => ∀ p ∈ acc, p ∈ old ∨ GlsTie x c dh i p) (c.zip dh) ?_ old ties
    (fun p hp => Or.inl hp) h
  intro acc jh acc' hjh hacc hstep p hp
  unfold glsTies at hstep
  simp only at hstep
  split at hstep
  · rename_i hcond
    split at hstep
    · simp at hstep
    · rename_i hlen
      simp only [Except.ok.injEq] at hstep
      subst hstep
      rw [List.mem_append] at hp
      rcases hp with hp | hp
      · exact hacc p hp
      · right
        simp only [List.mem_map, List.mem_range] at hp
        obtain ⟨k, hk, rfl⟩ := hp
        refine ⟨jh, hjh, ?_, by simpa using hlen, k, hk, rfl⟩
        simp only [Bool.or_eq_true, beq_iff_eq] at hcond
        rcases hcond with (h1 | h2) | h3
        · exact Or.inl h1
        · exact Or.inr (Or.inl h2)
        · exact Or.inr (Or.inr h3)
  · simp only [Except.ok.injEq] at hstep
    subst hstep
    exact hacc p hp

def CoefInv (x : CtxD) (chains : List Chain) (st : CoefSt) : Prop :=
  (∀ p ∈ st.ties, TieDeclared x chains p) ∧
  (∀ n dh, getKV st.resDec n = some dh → dh ∈ chains ∧ n ∈ chainInner dh)

theorem coefStep_inv (x : CtxD) (chains : List Chain) (c : Chain) (i : Name) (hc : c ∈ chains) (hi : i ∈ chainInner c)
    (st st' : CoefSt) (hinv : CoefInv x chains st) (h : coefStep x c st i = .ok st') : CoefInv x chains st' := by
  have hres : ∀ n dh, getKV (setKV st.resDec i c) n = some dh → dh ∈ chains ∧ n ∈ chainInner dh := by
    intro n dh hg
    rw [getKV_setKV'] at hg
    split at hg
    · rename_i e
      simp only [Option.some.injEq] at hg
      subst hg; subst e
      exact ⟨hc, hi⟩
    · exact hinv.2 n dh hg
  unfold coefStep at h
  simp only at h
  cases hp : getKV x.props i with
  | none => rw [hp] at h; simp at h
  | some pc =>
    rw [hp] at h
    simp only at h
    cases hh : coefHeadOf pc with
    | none =>
      rw [hh] at h
      simp only [Except.ok.injEq] at h
      subst h
      exact ⟨hinv.1, hres⟩
    | some hd =>
      rw [hh] at h
      simp only at h
      cases hdh : getKV (setKV st.resDec i c) hd with
      | none =>
        rw [hdh] at h
        simp only [Except.ok.injEq] at h
        subst h
        exact ⟨hinv.1, hres⟩
      | some dh =>
        rw [hdh] at h
        simp only [bind, Except.bind] at h
        cases hf : (c.zip dh).foldlM (glsTies x i) st.ties with
        | error e => rw [hf] at h; simp at h
        | ok ties =>
          rw [hf] at h
          simp only [Except.ok.injEq] at h
          subst h
          obtain ⟨hdh1, hdh2⟩ := hres hd dh hdh
          have hcoef : coefHeadOf ((getKV x.props i).getD []) = some hd := by rw [hp]; exact hh
          refine ⟨?_, hres⟩
          intro p hp'
          simp only [List.mem_append, List.mem_singleton] at hp'
          rcases hp' with hp' | hp'
          · rcases glsTies_inv x c dh i st.ties ties hf p hp' with h1 | h1
            · exact hinv.1 p h1
            · exact ⟨c, hc, i, hi, hd, hcoef, dh, hdh1, hdh2, Or.inr h1⟩
          · exact ⟨c, hc, i, hi, hd, hcoef, dh, hdh1, hdh2, Or.inl hp'⟩

theorem mem_coefPlan {chains : List Chain} {ci : Chain × Name} (h : ci ∈ coefPlan chains) :
    ci.1 ∈ chains ∧ ci.2 ∈ chainInner ci.1 := by
  unfold coefPlan at h
  simp only [List.mem_flatMap, List.mem_map] at h
  obtain ⟨c, hc, i, hi, rfl⟩ := h
  exact ⟨hc, (C19.sortNames_perm _).mem_iff.1 hi⟩

end TfPwaV.ConfigD
