import TfPwaV.Gen.ErrCtxR
import TfPwaV.Proofs.ErrProp
import Mathlib.Tactic.Ring
import Mathlib.Tactic.Linarith
import Mathlib.Data.List.OfFn
import Mathlib.Data.List.Perm.Basic
import Mathlib.Logic.Equiv.Fin.Basic
/-! Helper lemmas for C09b..: second differences of polynomials, quadratic forms along lines, list-shaped
matrices (`List.ofFn`) versus finite sums. -/
open TfPwaV.ScalarR
namespace TfPwaV.ErrCtxR
open TfPwaV.ErrPropR

/-! ### second differences of `cal_hesse_correct` on polynomials (offsets from the base point) -/

/-- diagonal branch on a quartic in the offset `t` from the base point: `2 p₂ + 10 p₄ ε²`, and `x[i]` is put back. -/
theorem diag5_quartic (g : ℝ → ℝ) (x eps p0 p1 p2 p3 p4 : ℝ) (heps : eps ≠ 0)
    (hg : ∀ t, g (x + t) = p0 + p1 * t + p2 * t ^ 2 + p3 * t ^ 3 + p4 * t ^ 4) :
    (diag5 g x eps).1 = 2 * p2 + 10 * p4 * eps ^ 2 ∧ (diag5 g x eps).2 = x := by
  have e1 : x + 2 * eps - eps = x + eps := by ring
  have e2 : x + 2 * eps - eps - 2 * eps = x + -eps := by ring
  have e3 : x + 2 * eps - eps - 2 * eps - eps = x + -(2 * eps) := by ring
  refine ⟨?_, ?_⟩
  · simp only [diag5]
    rw [e3, e2, e1, hg, hg, hg, hg]
    field_simp
    ring
  · simp only [diag5]; ring

/-- the text before fix f92d030 on the same input: the result carries the spurious term `2 g/(3ε)` with
`g = p₁` the first derivative. -/
theorem diag5Legacy_quadratic (g : ℝ → ℝ) (x eps p0 p1 p2 : ℝ) (heps : eps ≠ 0)
    (hg : ∀ t, g (x + t) = p0 + p1 * t + p2 * t ^ 2) :
    (diag5Legacy g x eps).1 = 2 * p2 + 2 * p1 / (3 * eps) := by
  have e2 : x + 2 * eps - eps - 2 * eps = x + -eps := by ring
  have e3 : x + 2 * eps - eps - 2 * eps - eps = x + -(2 * eps) := by ring
  simp only [diag5Legacy]
  rw [e3, e2, hg, hg, hg]
  field_simp
  ring

/-- off-diagonal branch on a bivariate quartic in the offsets `(s, t)`: `q₁₁ + (q₃₁ + q₁₃) ε²`, and
`x[i]`, `x[j]` are put back. -/
theorem offdiag4_quartic (g : ℝ → ℝ → ℝ) (x y eps : ℝ) (q : Nat → Nat → ℝ) (heps : eps ≠ 0)
    (hg : ∀ s t, g (x + s) (y + t) =
      q 0 0 + q 1 0 * s + q 0 1 * t + q 2 0 * s ^ 2 + q 1 1 * (s * t) + q 0 2 * t ^ 2
      + q 3 0 * s ^ 3 + q 2 1 * (s ^ 2 * t) + q 1 2 * (s * t ^ 2) + q 0 3 * t ^ 3
      + q 4 0 * s ^ 4 + q 3 1 * (s ^ 3 * t) + q 2 2 * (s ^ 2 * t ^ 2) + q 1 3 * (s * t ^ 3) + q 0 4 * t ^ 4) :
    (offdiag4 g x y eps).1 = q 1 1 + (q 3 1 + q 1 3) * eps ^ 2
    ∧ (offdiag4 g x y eps).2.1 = x ∧ (offdiag4 g x y eps).2.2 = y := by
  have a1 : y + eps - 2 * eps = y + -eps := by ring
  have a2 : x + eps - 2 * eps = x + -eps := by ring
  have a3 : y + eps - 2 * eps + eps + eps = y + eps := by ring
  have a4 : y + eps - 2 * eps + eps + eps - 2 * eps = y + -eps := by ring
  refine ⟨?_, ?_, ?_⟩
  · simp only [offdiag4]
    rw [a4, a3, a2, a1, hg, hg, hg, hg]
    field_simp
    ring
  · simp only [offdiag4]; ring
  · simp only [offdiag4]; ring

/-! ### a quadratic NLL along lines and planes -/

/-- `Σ_k Σ_l u_k A_kl v_l` -/
def bil {n : Nat} (A : Fin n → Fin n → ℝ) (u v : Fin n → ℝ) : ℝ := ∑ k, ∑ l, u k * A k l * v l

/-- `NLL(x) = c + b·x + x·A·x / 2` -/
noncomputable def quadNLL {n : Nat} (c : ℝ) (b : Fin n → ℝ) (A : Fin n → Fin n → ℝ) (x : Fin n → ℝ) : ℝ :=
  c + ∑ k, b k * x k + bil A x x / 2

theorem bil_plane {n : Nat} (A : Fin n → Fin n → ℝ) (x u v : Fin n → ℝ) (s t : ℝ) :
    bil A (fun k => x k + s * u k + t * v k) (fun k => x k + s * u k + t * v k)
      = bil A x x + s * (bil A u x + bil A x u) + t * (bil A v x + bil A x v)
        + s ^ 2 * bil A u u + s * t * (bil A u v + bil A v u) + t ^ 2 * bil A v v := by
  simp only [bil, Finset.mul_sum, ← Finset.sum_add_distrib]
  refine Finset.sum_congr rfl fun k _ => Finset.sum_congr rfl fun l _ => ?_
  ring

theorem lin_plane {n : Nat} (b x u v : Fin n → ℝ) (s t : ℝ) :
    ∑ k, b k * (x k + s * u k + t * v k) = ∑ k, b k * x k + s * ∑ k, b k * u k + t * ∑ k, b k * v k := by
  simp only [Finset.mul_sum, ← Finset.sum_add_distrib]
  refine Finset.sum_congr rfl fun k _ => ?_
  ring

/-- first-order coefficient of the quadratic NLL in direction `u` at `x` (the directional derivative) -/
noncomputable def quadGrad {n : Nat} (b : Fin n → ℝ) (A : Fin n → Fin n → ℝ) (x u : Fin n → ℝ) : ℝ :=
  ∑ k, b k * u k + (bil A u x + bil A x u) / 2

theorem quadNLL_plane {n : Nat} (c : ℝ) (b : Fin n → ℝ) (A : Fin n → Fin n → ℝ) (x u v : Fin n → ℝ) (s t : ℝ) :
    quadNLL c b A (fun k => x k + s * u k + t * v k)
      = quadNLL c b A x + quadGrad b A x u * s + quadGrad b A x v * t
        + bil A u u / 2 * s ^ 2 + (bil A u v + bil A v u) / 2 * (s * t) + bil A v v / 2 * t ^ 2 := by
  unfold quadNLL quadGrad
  rw [bil_plane, lin_plane]
  ring

/-- the coordinate direction `e_i` -/
def unitVec {n : Nat} (i : Fin n) : Fin n → ℝ := fun k => if k = i then 1 else 0

theorem update_eq_shift {n : Nat} (x : Fin n → ℝ) (i : Fin n) (s : ℝ) :
    Function.update x i (x i + s) = fun k => x k + s * unitVec i k + 0 * unitVec i k := by
  funext k
  by_cases h : k = i
  · subst h; simp [unitVec]
  · simp [unitVec, h]

theorem update2_eq_shift {n : Nat} (x : Fin n → ℝ) (i j : Fin n) (hij : i ≠ j) (s t : ℝ) :
    Function.update (Function.update x i (x i + s)) j (x j + t)
      = fun k => x k + s * unitVec i k + t * unitVec j k := by
  funext k
  by_cases h : k = j
  · subst h
    have : k ≠ i := fun h' => hij h'.symm
    simp [unitVec, this]
  · by_cases h' : k = i
    · subst h'; simp [unitVec, h]
    · simp [unitVec, h, h']

theorem bil_unit {n : Nat} (A : Fin n → Fin n → ℝ) (i j : Fin n) : bil A (unitVec i) (unitVec j) = A i j := by
  simp [bil, unitVec, ite_mul, mul_ite, Finset.sum_ite_eq']

/-! ### lists: `set`, minima -/

theorem set_ofFn {n : Nat} (X : Fin n → ℝ) (i : Fin n) (s : ℝ) :
    (List.ofFn X).set i s = List.ofFn (Function.update X i s) := by
  apply List.ext_getElem
  · simp
  · intro k h1 h2
    have hk : k < n := by simpa using h2
    simp only [List.getElem_set, List.getElem_ofFn, Function.update_apply]
    by_cases h : (i : Nat) = k
    · simp [h, Fin.ext_iff]
    · have : ¬ ((⟨k, hk⟩ : Fin n) = i) := fun h' => h (by rw [← h'])
      simp [h, this]


theorem foldl_min_mem (xs : List ℝ) : ∀ x : ℝ, xs.foldl (fun a b => if b < a then b else a) x ∈ x :: xs := by
  induction xs with
  | nil => intro x; simp
  | cons y ys ih =>
    intro x
    simp only [List.foldl_cons]
    by_cases h : y < x
    · simp only [h, if_true]
      have := ih y
      simp only [List.mem_cons] at this ⊢
      rcases this with h1 | h1
      · right; left; exact h1
      · right; right; exact h1
    · simp only [h, if_false]
      have := ih x
      simp only [List.mem_cons] at this ⊢
      rcases this with h1 | h1
      · left; exact h1
      · right; right; exact h1

theorem lmin_mem (x : ℝ) (xs : List ℝ) : lmin (x :: xs) ∈ x :: xs := foldl_min_mem xs x

theorem lmin_pos (e : List ℝ) (hne : e ≠ []) (h : ∀ y ∈ e, 0 < y) : 0 < lmin e := by
  cases e with
  | nil => exact absurd rfl hne
  | cons x xs => exact h _ (lmin_mem x xs)

/-- an eigenvalue of a positive-definite matrix is positive -/
theorem eig_pos_of_pd {n : Nat} (H : Fin n → Fin n → ℝ)
    (hpd : ∀ x : Fin n → ℝ, x ≠ 0 → 0 < bil H x x) (y : ℝ) (v : Fin n → ℝ) (hv : v ≠ 0)
    (hev : ∀ i, ∑ j, H i j * v j = y * v i) : 0 < y := by
  have h1 := hpd v hv
  have h2 : bil H v v = y * ∑ i, v i * v i := by
    unfold bil
    rw [Finset.mul_sum]
    refine Finset.sum_congr rfl fun i _ => ?_
    have : ∑ l, v i * H i l * v l = v i * ∑ l, H i l * v l := by
      rw [Finset.mul_sum]; refine Finset.sum_congr rfl fun l _ => ?_; ring
    rw [this, hev i]; ring
  have h3 : 0 < ∑ i, v i * v i := by
    obtain ⟨k, hk⟩ : ∃ k, v k ≠ 0 := Function.ne_iff.mp hv
    have hk2 : 0 < v k * v k := mul_self_pos.mpr hk
    calc 0 < v k * v k := hk2
      _ ≤ ∑ i, v i * v i := Finset.single_le_sum (f := fun i => v i * v i) (fun i _ => mul_self_nonneg (v i)) (Finset.mem_univ k)
  rw [h2] at h1
  by_contra hy
  have : y * ∑ i, v i * v i ≤ 0 := mul_nonpos_of_nonpos_of_nonneg (not_lt.mp hy) h3.le
  linarith

theorem pd_inverse_unique {n : Nat} (H X Y : Fin n → Fin n → ℝ)
    (hpd : ∀ x : Fin n → ℝ, x ≠ 0 → 0 < bil H x x)
    (hX : ∀ i k, ∑ j, H i j * X j k = if i = k then 1 else 0)
    (hY : ∀ i k, ∑ j, H i j * Y j k = if i = k then 1 else 0) : X = Y := by
  funext a k
  by_contra hne
  let w : Fin n → ℝ := fun j => X j k - Y j k
  have hw : w ≠ 0 := by
    intro h
    have := congrFun h a
    simp only [w, Pi.zero_apply] at this
    exact hne (by linarith)
  have hz : ∀ i, ∑ j, H i j * w j = 0 := by
    intro i
    simp only [w, mul_sub, Finset.sum_sub_distrib, hX, hY, sub_self]
  have h0 : bil H w w = 0 := by
    unfold bil
    refine Finset.sum_eq_zero fun i _ => ?_
    have : ∑ l, w i * H i l * w l = w i * ∑ l, H i l * w l := by
      rw [Finset.mul_sum]; refine Finset.sum_congr rfl fun l _ => ?_; ring
    rw [this, hz i, mul_zero]
  have := hpd w hw
  linarith

/-! ### list-shaped matrices of `ParamsTrans` -/

theorem transpose_ofFn {n m : Nat} (B : Fin n → Fin m → ℝ) :
    transpose m (List.ofFn fun p => List.ofFn (B p)) = List.ofFn fun a => List.ofFn fun p => B p a := by
  apply List.ext_getElem
  · simp [transpose]
  · intro a h1 h2
    have ha : a < m := by simpa using h2
    simp only [transpose, List.getElem_map, List.getElem_range, List.getElem_ofFn, List.map_ofFn]
    congr 1
    funext p
    simp [List.getD_eq_getElem?_getD, ha]

theorem matMulT_ofFn {m n k : Nat} (A : Fin m → Fin k → ℝ) (Bt : Fin n → Fin k → ℝ) :
    matMulT (List.ofFn fun a => List.ofFn (A a)) (List.ofFn fun c => List.ofFn (Bt c))
      = List.ofFn fun a => List.ofFn fun c => ∑ i, A a i * Bt c i := by
  unfold matMulT
  rw [List.map_ofFn]
  congr 1; funext a
  simp only [Function.comp]
  rw [List.map_ofFn]
  congr 1; funext c
  exact dot_ofFn (A a) (Bt c)

theorem jvjT_ofFn {m n : Nat} (J : Fin m → Fin n → ℝ) (V : Fin n → Fin n → ℝ) :
    jvjT n (List.ofFn fun a => List.ofFn (J a)) (List.ofFn fun i => List.ofFn (V i))
      = List.ofFn fun a => List.ofFn fun b => ∑ i, ∑ j, J a i * V i j * J b j := by
  unfold jvjT
  rw [transpose_ofFn, matMulT_ofFn, matMulT_ofFn]
  congr 1; funext a; congr 1; funext b
  rw [Finset.sum_comm]
  refine Finset.sum_congr rfl fun i _ => ?_
  rw [Finset.sum_mul]

theorem diagOf_ofFn {n : Nat} (V : Fin n → Fin n → ℝ) :
    diagOf (List.ofFn fun i => List.ofFn (V i)) = List.ofFn fun k => V k k := by
  apply List.ext_getElem
  · simp [diagOf]
  · intro i h1 h2
    have hi : i < n := by simpa using h2
    simp [diagOf, List.getD_eq_getElem?_getD, hi]

theorem getErrorVec_ofFn {m n : Nat} (J : Fin m → Fin n → ℝ) (V : Fin n → Fin n → ℝ) :
    getErrorVec n (List.ofFn fun a => List.ofFn (J a)) (List.ofFn fun i => List.ofFn (V i))
      = List.ofFn fun a => Real.sqrt (∑ i, ∑ j, J a i * V i j * J a j) := by
  unfold getErrorVec
  rw [jvjT_ofFn, diagOf_ofFn, List.map_ofFn]
  rfl

theorem sumK_zipWith_mul : ∀ (a b : List ℝ), sumK (List.zipWith (fun x y => x * y) a b) = dot a b
  | [], _ => by simp [sumK, dot]
  | _ :: _, [] => by simp [sumK, dot]
  | x :: xs, y :: ys => by simp [sumK, dot, sumK_zipWith_mul xs ys]

theorem getErrorScalar_eq (V : List (List ℝ)) (g : List ℝ) : getErrorScalar V g = errFromGrad V g := by
  unfold getErrorScalar errFromGrad quadForm
  rw [sumK_zipWith_mul]

theorem scaleCols_ofFn {m n : Nat} (J : Fin m → Fin n → ℝ) (d : Fin n → ℝ) :
    scaleCols (List.ofFn fun a => List.ofFn (J a)) (List.ofFn d) = List.ofFn fun a => List.ofFn fun p => J a p * d p := by
  unfold scaleCols
  rw [List.map_ofFn]
  congr 1; funext a
  exact zipWith_ofFn _ (J a) d

/-- row-major flattening of an `r × c` tensor: entry `(i, j)` sits at position `i * c + j` -/
theorem flatten_ofFn {r c : Nat} (T : Fin r → Fin c → ℝ) :
    (List.ofFn fun i => List.ofFn (T i)).flatten
      = List.ofFn fun a : Fin (r * c) => T (finProdFinEquiv.symm a).1 (finProdFinEquiv.symm a).2 := by
  rw [List.ofFn_mul]
  congr 1
  congr 1; funext i; congr 1; funext j
  have : (⟨(i : Nat) * c + j, by
      calc (i : Nat) * c + j < i * c + c := by omega
        _ = (i + 1) * c := by ring
        _ ≤ r * c := Nat.mul_le_mul_right c i.isLt⟩ : Fin (r * c)) = finProdFinEquiv (i, j) := by
    apply Fin.ext; simp [finProdFinEquiv]; ring
  rw [this, Equiv.symm_apply_apply]

/-! ### batch accumulation -/

theorem vadd_comm' (a b : List ℝ) : vadd a b = vadd b a := by
  unfold vadd
  rw [List.zipWith_comm]
  congr 1; funext x y; ring

theorem vadd_assoc' : ∀ (a b c : List ℝ), vadd (vadd a b) c = vadd a (vadd b c)
  | [], _, _ => by simp [vadd]
  | _ :: _, [], _ => by simp [vadd]
  | _ :: _, _ :: _, [] => by simp [vadd]
  | x :: xs, y :: ys, z :: zs => by
    have := vadd_assoc' xs ys zs
    simp only [vadd, List.zipWith_cons_cons] at this ⊢
    rw [this, add_assoc]

theorem vadd_length (a b : List ℝ) : (vadd a b).length = min a.length b.length := by
  simp [vadd]

theorem vadd_zero_left : ∀ (n : Nat) (a : List ℝ), a.length = n → vadd (List.replicate n 0) a = a
  | 0, a, h => by
    have : a = [] := List.length_eq_zero_iff.mp h
    simp [vadd, this]
  | n + 1, [], h => by simp at h
  | n + 1, x :: xs, h => by
    have h' : xs.length = n := by simpa using h
    have := vadd_zero_left n xs h'
    simp only [vadd, List.replicate_succ, List.zipWith_cons_cons, zero_add] at this ⊢
    rw [this]

theorem sumV_length (n : Nat) : ∀ (gs : List (List ℝ)), (∀ g ∈ gs, g.length = n) → (sumV n gs).length = n
  | [], _ => by simp [sumV]
  | g :: gs, h => by
    rw [sumV, vadd_length, h g (List.mem_cons_self), sumV_length n gs (fun g' hg' => h g' (List.mem_cons_of_mem _ hg'))]
    simp

theorem sumV_append (n : Nat) : ∀ (l1 l2 : List (List ℝ)), (∀ g ∈ l2, g.length = n) →
    sumV n (l1 ++ l2) = vadd (sumV n l1) (sumV n l2)
  | [], l2, h => by
    rw [List.nil_append, sumV, vadd_zero_left n _ (sumV_length n l2 h)]
  | g :: l1, l2, h => by
    rw [List.cons_append, sumV, sumV, sumV_append n l1 l2 h, vadd_assoc']

theorem sumV_perm (n : Nat) {l1 l2 : List (List ℝ)} (h : l1.Perm l2) : sumV n l1 = sumV n l2 := by
  induction h with
  | nil => rfl
  | cons x _ ih => simp only [sumV, ih]
  | swap x y l =>
    simp only [sumV]
    rw [← vadd_assoc', ← vadd_assoc', vadd_comm' y x]
  | trans _ _ ih1 ih2 => exact ih1.trans ih2

theorem sumK_append : ∀ (l1 l2 : List ℝ), sumK (l1 ++ l2) = sumK l1 + sumK l2
  | [], l2 => by simp [sumK]
  | x :: l1, l2 => by simp [sumK, sumK_append l1 l2, add_assoc]

theorem sumK_perm {l1 l2 : List ℝ} (h : l1.Perm l2) : sumK l1 = sumK l2 := by
  induction h with
  | nil => rfl
  | cons x _ ih => simp only [sumK, ih]
  | swap x y l => simp only [sumK]; ring
  | trans _ _ ih1 ih2 => exact ih1.trans ih2

/-- the left fold of `+=` equals the right-nested sums -/
theorem accum_foldl (n : Nat) : ∀ (bs : List (ℝ × List ℝ)) (z : ℝ × List ℝ), z.2.length = n →
    (∀ b ∈ bs, b.2.length = n) →
    bs.foldl (fun acc b => (acc.1 + b.1, vadd acc.2 b.2)) z
      = (z.1 + sumK (bs.map fun b => b.1), vadd z.2 (sumV n (bs.map fun b => b.2)))
  | [], z, hz, _ => by
    simp only [List.foldl_nil, List.map_nil, sumK, sumV, add_zero]
    rw [vadd_comm', vadd_zero_left n _ hz]
  | b :: bs, z, hz, hb => by
    have hbl : b.2.length = n := hb b List.mem_cons_self
    have hz' : (vadd z.2 b.2).length = n := by rw [vadd_length, hz, hbl]; simp
    rw [List.foldl_cons, accum_foldl n bs _ hz' (fun b' hb' => hb b' (List.mem_cons_of_mem _ hb'))]
    simp only [List.map_cons, sumK, sumV]
    rw [vadd_assoc', add_assoc]

theorem accum_eq (n : Nat) (bs : List (ℝ × List ℝ)) (hb : ∀ b ∈ bs, b.2.length = n) :
    accum n bs = (sumK (bs.map fun b => b.1), sumV n (bs.map fun b => b.2)) := by
  unfold accum
  rw [accum_foldl n bs _ (by simp) hb]
  simp only [zero_add]
  rw [vadd_zero_left n _ (sumV_length n _ (by
    intro g hg
    obtain ⟨b, hb1, hb2⟩ := List.mem_map.mp hg
    rw [← hb2]; exact hb b hb1))]

theorem evalBatch_length (n : Nat) (evs : List (ℝ × List ℝ)) (h : ∀ e ∈ evs, e.2.length = n) :
    (evalBatch n evs).2.length = n := by
  unfold evalBatch
  apply sumV_length
  intro g hg
  obtain ⟨b, hb1, hb2⟩ := List.mem_map.mp hg
  rw [← hb2]; exact h b hb1

/-- batching is invisible: accumulating per-batch sums equals one pass over all events -/
theorem integralBatched_flatten (n : Nat) : ∀ (bs : List (List (ℝ × List ℝ))),
    (∀ b ∈ bs, ∀ e ∈ b, e.2.length = n) → integralBatched n bs = evalBatch n bs.flatten := by
  intro bs h
  unfold integralBatched
  rw [accum_eq n _ (by
    intro b hb
    obtain ⟨evs, h1, h2⟩ := List.mem_map.mp hb
    rw [← h2]; exact evalBatch_length n evs (h evs h1))]
  induction bs with
  | nil => simp [evalBatch, sumK, sumV]
  | cons b bs ih =>
    have hbs : ∀ b' ∈ bs, ∀ e ∈ b', e.2.length = n := fun b' hb' => h b' (List.mem_cons_of_mem _ hb')
    have ih' := ih hbs
    simp only [List.map_cons, sumK, sumV, List.flatten_cons, evalBatch, List.map_append, List.map_map] at ih' ⊢
    rw [sumK_append, sumV_append n _ _ (by
      intro g hg
      obtain ⟨e, he1, he2⟩ := List.mem_map.mp hg
      obtain ⟨b', hb1, hb2⟩ := List.mem_flatten.mp he1
      rw [← he2]; exact hbs b' hb1 e hb2)]
    have e1 := congrArg Prod.fst ih'
    have e2 := congrArg Prod.snd ih'
    simp only at e1 e2
    rw [e1, e2]

/-! ### the synthetic FCN on lists -/

theorem synthNLL_ofFn {n : Nat} (c : ℝ) (b : Fin n → ℝ) (A : Fin n → Fin n → ℝ) (x : Fin n → ℝ) :
    synthNLL c (List.ofFn b) (List.ofFn fun i => List.ofFn (A i)) [] (List.ofFn x) = quadNLL c b A x := by
  unfold synthNLL quadNLL bil
  rw [dot_ofFn, quadForm_ofFn]
  simp [quartic]

theorem getD_ofFn {n : Nat} (X : Fin n → ℝ) (i : Fin n) : (List.ofFn X).getD i 0 = X i := by
  simp [List.getD_eq_getElem?_getD]


end TfPwaV.ErrCtxR
