import TfPwaV.Gen.InterpR
import Mathlib.Tactic.Linarith
import Mathlib.Tactic.NormNum
import Mathlib.Tactic.Positivity
import Mathlib.Tactic.FieldSimp
import Mathlib.Tactic.Ring
import Mathlib.Tactic.LinearCombination
/-! Helper lemmas for C20 (inverse-transform samplers), about the ℝ-instance of `templates/Interp.lean.in`. -/
open TfPwaV.ScalarR
namespace TfPwaV.InterpR

/-- a bin of a non-negative piecewise-linear density: `xa < xb`, density `k t + b ≥ 0` at both ends,
`m` its integral over the bin -/
structure Seg.WF (s : Seg) : Prop where
  lt : s.xa < s.xb
  ya : 0 ≤ s.k * s.xa + s.b
  yb : 0 ≤ s.k * s.xb + s.b
  mass : s.m = 0.5 * s.k * (s.xb * s.xb - s.xa * s.xa) + s.b * (s.xb - s.xa)

theorem Seg.WF.mass_eq {s : Seg} (h : s.WF) :
    s.m = ((s.k * s.xa + s.b) + (s.k * s.xb + s.b)) / 2 * (s.xb - s.xa) := by
  rw [h.mass]; ring

theorem Seg.WF.mass_nonneg {s : Seg} (h : s.WF) : 0 ≤ s.m := by
  rw [h.mass_eq]
  have := h.lt; have := h.ya; have := h.yb
  apply mul_nonneg
  · linarith
  · linarith

theorem kisZero_iff (x : ℝ) : kisZero x = true ↔ x = 0 := by simp [kisZero]

theorem kmaxz_of_nonneg (x : ℝ) (h : 0 ≤ x) : kmaxz x = x := by
  unfold kmaxz; rw [if_neg (not_lt.mpr h)]

/-- the radicand of `solve` is `(k x₁ + b)² + 2 k d` -/
theorem radicand_eq (s : Seg) (d : ℝ) :
    s.b * s.b + s.k * (s.k * (s.xb * s.xb) + 2 * s.b * s.xb + 2 * d) = (s.k * s.xb + s.b) ^ 2 + 2 * s.k * d := by
  ring

/-- ★ the in-bin inverse: for an offset `d ∈ [-m, 0]` (and `m > 0`), the value chosen by `solve` lies in the bin and has
primitive `d`; the root of the quadratic that the code picks is the one with `k t + b = +√(…) ≥ 0`. -/
theorem seg_inv {s : Seg} (h : s.WF) (hm : 0 < s.m) (d : ℝ) (hd1 : -s.m ≤ d) (hd2 : d ≤ 0) :
    s.xa ≤ s.inv d ∧ s.inv d ≤ s.xb ∧ s.prim (s.inv d) = d ∧ (d < 0 → s.inv d < s.xb) ∧
      0 ≤ s.k * s.inv d + s.b := by
  have hlt := h.lt
  have hya := h.ya
  have hyb := h.yb
  have hmass := h.mass_eq
  by_cases hk : s.k = 0
  · -- flat bin
    have hb : 0 < s.b := by
      rw [hmass, hk] at hm
      by_contra hc
      have : s.b ≤ 0 := not_lt.mp hc
      have h0 : (0 * s.xa + s.b + (0 * s.xb + s.b)) / 2 * (s.xb - s.xa) ≤ 0 := by
        apply mul_nonpos_of_nonpos_of_nonneg <;> linarith
      linarith
    have hmb : s.m = s.b * (s.xb - s.xa) := by rw [hmass, hk]; ring
    have hinv : s.inv d = s.xb + d / s.b := by
      unfold Seg.inv
      rw [if_pos ((kisZero_iff _).mpr hk)]
      field_simp
      ring
    rw [hinv]
    have hdb : d / s.b ≤ 0 := div_nonpos_of_nonpos_of_nonneg hd2 hb.le
    have hdb2 : -(s.xb - s.xa) ≤ d / s.b := by
      rw [le_div_iff₀ hb]; rw [hmb] at hd1; nlinarith
    refine ⟨by linarith, by linarith, ?_, ?_, ?_⟩
    · unfold Seg.prim; rw [hk]; field_simp; ring
    · intro hneg
      have : d / s.b < 0 := div_neg_of_neg_of_pos hneg hb
      linarith
    · rw [hk]; linarith
  · -- sloped bin
    set Ya := s.k * s.xa + s.b with hYa
    set Yb := s.k * s.xb + s.b with hYb
    have h2km : 2 * s.k * s.m = Yb ^ 2 - Ya ^ 2 := by rw [hmass]; ring
    set R := Yb ^ 2 + 2 * s.k * d with hR
    -- R lies between Ya² and Yb²
    have hRlo : min (Ya ^ 2) (Yb ^ 2) ≤ R := by
      rcases lt_or_gt_of_ne hk with hneg | hpos
      · have : Yb ^ 2 ≤ R := by rw [hR]; nlinarith
        exact le_trans (min_le_right _ _) this
      · have : Ya ^ 2 ≤ R := by rw [hR]; nlinarith
        exact le_trans (min_le_left _ _) this
    have hR0 : 0 ≤ R := le_trans (le_min (sq_nonneg _) (sq_nonneg _)) hRlo
    set r := Real.sqrt R with hr
    have hr0 : 0 ≤ r := Real.sqrt_nonneg R
    have hrr : r ^ 2 = R := Real.sq_sqrt hR0
    have hinv : s.inv d = (r - s.b) / s.k := by
      unfold Seg.inv
      rw [if_neg (fun hh => hk ((kisZero_iff _).mp hh))]
      unfold ksqrt
      rw [radicand_eq, kmaxz_of_nonneg _ hR0]
    have hkt : s.k * s.inv d + s.b = r := by rw [hinv]; field_simp; ring
    have hta : s.inv d - s.xa = (r - Ya) / s.k := by rw [hinv, hYa]; field_simp; ring
    have htb : s.inv d - s.xb = (r - Yb) / s.k := by rw [hinv, hYb]; field_simp; ring
    have hprim : s.prim (s.inv d) = d := by
      have e : s.prim (s.inv d) = ((s.k * s.inv d + s.b) ^ 2 - Yb ^ 2) / (2 * s.k) := by
        unfold Seg.prim; rw [hYb]; field_simp; ring
      rw [e, hkt, hrr, hR]; field_simp; ring
    rcases lt_or_gt_of_ne hk with hneg | hpos
    · -- k < 0: Yb ≤ r ≤ Ya
      have h1 : Yb ^ 2 ≤ R := by rw [hR]; nlinarith
      have h2 : R ≤ Ya ^ 2 := by rw [hR]; nlinarith
      have hrb : Yb ≤ r := by
        have := Real.sqrt_le_sqrt h1
        rwa [Real.sqrt_sq hyb] at this
      have hra : r ≤ Ya := by
        have := Real.sqrt_le_sqrt h2
        rwa [Real.sqrt_sq hya] at this
      refine ⟨?_, ?_, hprim, ?_, by rw [hkt]; exact hr0⟩
      · have : 0 ≤ (r - Ya) / s.k := div_nonneg_of_nonpos (by linarith) hneg.le
        linarith
      · have : (r - Yb) / s.k ≤ 0 := div_nonpos_of_nonneg_of_nonpos (by linarith) hneg.le
        linarith
      · intro hdneg
        have hne : R ≠ Yb ^ 2 := by rw [hR]; intro hh; nlinarith
        have hlt' : Yb < r := by
          rcases eq_or_lt_of_le hrb with heq | hlt'
          · exfalso; apply hne; rw [← hrr, ← heq]
          · exact hlt'
        have : (r - Yb) / s.k < 0 := div_neg_of_pos_of_neg (by linarith) hneg
        linarith
    · -- k > 0: Ya ≤ r ≤ Yb
      have h1 : Ya ^ 2 ≤ R := by rw [hR]; nlinarith
      have h2 : R ≤ Yb ^ 2 := by rw [hR]; nlinarith
      have hra : Ya ≤ r := by
        have := Real.sqrt_le_sqrt h1
        rwa [Real.sqrt_sq hya] at this
      have hrb : r ≤ Yb := by
        have := Real.sqrt_le_sqrt h2
        rwa [Real.sqrt_sq hyb] at this
      refine ⟨?_, ?_, hprim, ?_, by rw [hkt]; exact hr0⟩
      · have : 0 ≤ (r - Ya) / s.k := div_nonneg (by linarith) hpos.le
        linarith
      · have : (r - Yb) / s.k ≤ 0 := div_nonpos_of_nonpos_of_nonneg (by linarith) hpos.le
        linarith
      · intro hdneg
        have hne : R ≠ Yb ^ 2 := by rw [hR]; intro hh; nlinarith
        have hlt' : r < Yb := by
          rcases eq_or_lt_of_le hrb with heq | hlt'
          · exfalso; apply hne; rw [← hrr, heq]
          · exact hlt'
        have : (r - Yb) / s.k < 0 := div_neg_of_neg_of_pos (by linarith) hpos
        linarith

/-- consecutive well-formed bins sharing their edges -/
def Chain : List Seg → Prop
  | [] => True
  | [s] => s.WF
  | s :: s' :: rest => s.WF ∧ s.xb = s'.xa ∧ Chain (s' :: rest)

def lastXb : List Seg → ℝ
  | [] => 0
  | [s] => s.xb
  | _ :: s' :: rest => lastXb (s' :: rest)

theorem Chain.head {s : Seg} {rest : List Seg} (h : Chain (s :: rest)) : s.WF := by
  cases rest with
  | nil => exact h
  | cons s' r => exact h.1

theorem chain_xb_le_last : ∀ (segs : List Seg) (s : Seg), Chain (s :: segs) → s.xb ≤ lastXb (s :: segs) := by
  intro segs
  induction segs with
  | nil => intro s _; simp [lastXb]
  | cons s' rest ih =>
    intro s h
    obtain ⟨_, h2, h3⟩ := h
    have := ih s' h3
    have hw := (Chain.head h3).lt
    simp only [lastXb]
    linarith

theorem total_ge : ∀ (segs : List Seg) (c : ℝ), Chain segs → c ≤ total segs c := by
  intro segs
  induction segs with
  | nil => intro c _; simp [total]
  | cons s rest ih =>
    intro c h
    have hw := (Chain.head h).mass_nonneg
    have hr : Chain rest := by
      cases rest with
      | nil => trivial
      | cons s' r => exact h.2.2
    have := ih (c + s.m) hr
    simp only [total]
    linarith

/-- mass of the last bin -/
def lastM : List Seg → ℝ
  | [] => 0
  | [s] => s.m
  | _ :: s' :: rest => lastM (s' :: rest)

/-- ★ list level: `integral ∘ solve` is the identity on `[c, total)` — and at `total` itself when the last bin has
positive mass — and `solve` stays in the grid, at a point of non-negative density -/
theorem solve_spec : ∀ (segs : List Seg) (s : Seg) (c x : ℝ), Chain (s :: segs) → c ≤ x → x ≤ total (s :: segs) c →
    (x < total (s :: segs) c ∨ 0 < lastM (s :: segs)) →
    s.xa ≤ solveAux (s :: segs) c x ∧ solveAux (s :: segs) c x ≤ lastXb (s :: segs) ∧
      integralAux (s :: segs) c (solveAux (s :: segs) c x) = x ∧
      0 ≤ callAux (s :: segs) (solveAux (s :: segs) c x) := by
  intro segs
  induction segs with
  | nil =>
    intro s c x h hc hx hp
    have hw : s.WF := h
    simp only [total] at hx hp
    simp only [lastM] at hp
    have hm : 0 < s.m := by rcases hp with hp | hp <;> linarith
    obtain ⟨h1, h2, h3, _, h5⟩ := seg_inv hw hm (x - (c + s.m)) (by linarith) (by linarith)
    simp only [solveAux, integralAux, callAux, lastXb]
    exact ⟨h1, h2, by rw [h3]; ring, h5⟩
  | cons s' rest ih =>
    intro s c x h hc hx hp
    obtain ⟨hw, hedge, hrest⟩ := h
    simp only [solveAux]
    by_cases hsel : x < c + s.m
    · rw [if_pos hsel]
      have hm : 0 < s.m := by linarith
      obtain ⟨h1, h2, h3, h4, h5⟩ := seg_inv hw hm (x - (c + s.m)) (by linarith) (by linarith)
      have hlt := h4 (by linarith)
      have hl := chain_xb_le_last (s' :: rest) s ⟨hw, hedge, hrest⟩
      refine ⟨h1, by linarith, ?_, ?_⟩
      · simp only [integralAux]; rw [if_pos hlt, h3]; ring
      · simp only [callAux]; rw [if_pos hlt]; exact h5
    · rw [if_neg hsel]
      simp only [total] at hx hp
      simp only [lastM] at hp
      obtain ⟨h1, h2, h3, h4⟩ := ih s' (c + s.m) x hrest (not_lt.mp hsel) hx hp
      have hge : ¬ solveAux (s' :: rest) (c + s.m) x < s.xb := by rw [hedge]; exact not_lt.mpr h1
      refine ⟨by have := hw.lt; linarith, h2, ?_, ?_⟩
      · simp only [integralAux]; rw [if_neg hge]; exact h3
      · simp only [callAux]; rw [if_neg hge]; exact h4

/-- `integral(x₀) = 0` -/
theorem integral_first (segs : List Seg) (s : Seg) (c : ℝ) (h : Chain (s :: segs)) :
    integralAux (s :: segs) c s.xa = c := by
  have hw := Chain.head h
  have hp : s.prim s.xa + (c + s.m) = c := by
    unfold Seg.prim; rw [hw.mass]; ring
  cases segs with
  | nil => simpa [integralAux] using hp
  | cons s' rest => simp only [integralAux]; rw [if_pos hw.lt]; exact hp

/-- strictly increasing node abscissae -/
def Incr : List ℝ → Prop
  | a :: b :: rest => a < b ∧ Incr (b :: rest)
  | _ => True

theorem mkSeg_wf (eps xa xb ya yb : ℝ) (hx : xa < xb) (h1 : 0 ≤ ya) (h2 : 0 ≤ yb) : (mkSeg eps xa xb ya yb).WF := by
  have hne : xb - xa ≠ 0 := by intro h; linarith
  refine ⟨hx, ?_, ?_, ?_⟩
  · simp only [mkSeg]; linarith
  · simp only [mkSeg]
    split
    · have : (yb - ya) / (xb - xa) * xb + (ya - (yb - ya) / (xb - xa) * xa) = yb := by field_simp; ring
      rw [this]; exact h2
    · linarith
  · simp only [mkSeg]

theorem segsOf_chain (eps : ℝ) : ∀ (xs ys : List ℝ), Incr xs → (∀ y ∈ ys, 0 ≤ y) → Chain (segsOf eps xs ys) := by
  intro xs
  induction xs with
  | nil => intro ys _ _; simp [segsOf, Chain]
  | cons xa xs ih =>
    intro ys hx hy
    cases xs with
    | nil => simp [segsOf, Chain]
    | cons xb xs2 =>
      cases ys with
      | nil => simp [segsOf, Chain]
      | cons ya ys1 =>
        cases ys1 with
        | nil => simp [segsOf, Chain]
        | cons yb ys2 =>
          have hrec := ih (yb :: ys2) hx.2 (fun y hy' => hy y (List.mem_cons_of_mem _ hy'))
          have hw := mkSeg_wf eps xa xb ya yb hx.1 (hy ya (by simp)) (hy yb (by simp))
          simp only [segsOf]
          cases hs : segsOf eps (xb :: xs2) (yb :: ys2) with
          | nil => exact hw
          | cons s' r =>
            rw [hs] at hrec
            refine ⟨hw, ?_, hrec⟩
            -- the next bin starts at xb
            cases xs2 with
            | nil => simp [segsOf] at hs
            | cons xc xs3 =>
              cases ys2 with
              | nil => simp [segsOf] at hs
              | cons yc ys3 =>
                simp only [segsOf, List.cons.injEq] at hs
                rw [← hs.1]; simp [mkSeg]

theorem segsOf_first (eps xa xb ya yb : ℝ) (xs ys : List ℝ) :
    ∃ r, segsOf eps (xa :: xb :: xs) (ya :: yb :: ys) = mkSeg eps xa xb ya yb :: r := ⟨_, rfl⟩

theorem lastXb_segsOf (eps : ℝ) : ∀ (xs ys : List ℝ) (xa xb ya yb : ℝ), ys.length = xs.length →
    lastXb (segsOf eps (xa :: xb :: xs) (ya :: yb :: ys)) = (xa :: xb :: xs).getLast (by simp) := by
  intro xs
  induction xs with
  | nil =>
    intro ys xa xb ya yb hl
    cases ys with
    | nil => simp [segsOf, lastXb, mkSeg]
    | cons _ _ => simp at hl
  | cons xc xs ih =>
    intro ys xa xb ya yb hl
    cases ys with
    | nil => simp at hl
    | cons yc ys =>
      have := ih ys xb xc yb yc (by simpa using hl)
      simp only [segsOf] at this ⊢
      simp only [lastXb]
      rw [this]
      simp

-- BWGenerator ---------------------------------------------------------------------------------------------

theorem bw_theta_range (A B u : ℝ) (hAB : A ≤ B) (hu0 : 0 ≤ u) (hu1 : u ≤ 1) :
    A ≤ u * (B - A) + A ∧ u * (B - A) + A ≤ B := by
  constructor <;> nlinarith

theorem bw_integral_eq (g : BW) (x : ℝ) : g.integral x = 1 / g.kk * Real.arctan ((x - g.m0) / g.kk) := by
  unfold BW.integral katan
  congr 2
  ring

end TfPwaV.InterpR
