import TfPwaV.Proofs.AxesIndCPhase
/-!
Helper lemmas for `Props/C01j.lean`: from the phases of a chain (numbers, `Proofs/AxesIndCPhase.lean`) to the einsum of the
executable amplitude model.

* `densityG_gauge_ext2`: `AmpR.densityG_gauge_ext` with the cancellation asked only for the helicity configurations the einsum
  really visits: allowed helicities AND `h p = ext p` for every particle that is not a contracted index of the chain (the final
  particles for which the chain is the reference).
* `colPhaseX`: the column phase of the top vertex, continued by `ph δ θ` outside the table of `Dfun_delta_v2` (where the gathered entry
  is the padding zero, so any factor is a column factor: `mkD_col_factorX`).
* `ChainOfTree`: the index structure of an `AmpR.Chain` is that of a decay tree `top → tb tc` (`CTree`, ids and doubled spins):
  decaying particles ↔ `rest`, aligned final particles ↔ `aligns`, contracted indices ↔ `inner`.
* `chain_hcancel`: for such a chain the cancellation hypothesis of `densityG_gauge_ext2` holds with
  `Ξ ext = Π_{finals f} ph (ext f) (φ f)`.
-/
open BigOperators Matrix
open TfPwaV.ScalarR
namespace TfPwaV.AmpR
open TfPwaV.LineShapeR TfPwaV.SpinlessR TfPwaV.Wigner TfPwaV.FrameAlg TfPwaV.UnitaryMix

/-- **all chains, the density**: the cancellation is needed only on configurations with `h = ext` off the contracted indices -/
theorem densityG_gauge_ext2 (allowed : Nat → Int → Prop) (cs : List Chain) (tops : List Int) (finals : List (Nat × List Int))
    (hfinals : ∀ x ∈ finals, ∀ m ∈ x.2, allowed x.1 m)
    (hinner : ∀ C ∈ cs, ∀ x ∈ C.inner, ∀ m ∈ x.2, allowed x.1 m)
    (Dtop' Dtop : Chain → Int → Int → Cx) (Dv' : Chain → Vertex → Int → Int → Cx)
    (Dal' Dal : Chain → Align → Int → Int → Cx)
    (χt : Chain → Int → ℂ) (χv : Chain → Vertex → Int → ℂ) (χa ψ : Chain → Align → Int → ℂ) (Ξ : Hel → ℂ)
    (hΞ : ∀ ext, (∀ p, p ∈ finals.map Prod.fst → allowed p (ext p)) → Complex.normSq (Ξ ext) = 1)
    (ht : ∀ C ∈ cs, ∀ la ∈ tops, ∀ δ, toC (Dtop' C la δ) = toC (Dtop C la δ) * χt C δ)
    (hv : ∀ C ∈ cs, ∀ v ∈ C.rest, ∀ l δ, toC (Dv' C v l δ) = χv C v l * toC (v.D l δ))
    (ha : ∀ C ∈ cs, ∀ A ∈ C.aligns, ∀ l m, toC (Dal' C A l m) = χa C A l * toC (Dal C A l m) * ψ C A m)
    (hcancel : ∀ C ∈ cs, ∀ ext, (∀ p, p ∈ finals.map Prod.fst → allowed p (ext p)) →
      ∀ h, (∀ p, (p ∈ finals.map Prod.fst ∨ p ∈ C.inner.map Prod.fst) → allowed p (h p)) →
      (∀ p, p ∉ C.inner.map Prod.fst → h p = ext p) →
      C.gaugeProd (χt C) (χv C) (χa C) h * (C.aligns.map fun A => ψ C A (ext A.p)).prod = Ξ ext) :
    densityG cs Dtop' Dv' Dal' tops finals = densityWith cs Dtop Dal tops finals := by
  unfold densityG densityWith
  congr 1
  apply List.map_congr_left
  intro la hla
  apply sumOverR_congr_reach allowed finals hfinals (fun _ => False)
  · intro ext hext
    have hext' : ∀ p, p ∈ finals.map Prod.fst → allowed p (ext p) := fun p hp => hext p (Or.inr hp)
    have hg : toC (groupAmpG cs Dtop' Dv' Dal' la ext) = Ξ ext * toC (groupAmpWith cs Dtop Dal la ext) := by
      unfold groupAmpG groupAmpWith
      have := csum_lin (Finset.univ : Finset Unit) (fun _ => Ξ ext) cs (fun C => C.ampG (Dtop' C) (Dv' C) (Dal' C) la ext)
        (fun _ C => C.ampWith (Dtop C) (Dal C) la ext)
        (fun C hC => by
          simp only [Finset.univ_unique, Finset.sum_singleton]
          refine ampG_gauge_ext
            (fun p m => ((p ∈ C.inner.map Prod.fst ∨ p ∈ finals.map Prod.fst) → allowed p m) ∧
              (p ∉ C.inner.map Prod.fst → m = ext p))
            (fun p => p ∉ C.inner.map Prod.fst) C ?_ (Dtop' C) (Dtop C) (Dv' C) (Dal' C)
            (Dal C) (χt C) (χv C) (χa C) (ψ C) la (ht C hC la hla) (hv C hC) (ha C hC) ext ?_ (Ξ ext) ?_
          · intro x hx m hm
            exact ⟨fun _ => hinner C hC x hx m hm, fun hn => absurd (List.mem_map.mpr ⟨x, hx, rfl⟩) hn⟩
          · intro p hp
            refine ⟨fun h => ?_, fun _ => rfl⟩
            rcases h with h | h
            · exact absurd h hp
            · exact hext' p h
          · intro h hh
            apply hcancel C hC ext hext' h
            · intro p hp
              by_cases hpi : p ∈ C.inner.map Prod.fst
              · exact (hh p (Or.inr hpi)).1 (Or.inl hpi)
              · rcases hp with hp | hp
                · exact (hh p (Or.inl hpi)).1 (Or.inr hp)
                · exact absurd hp hpi
            · intro p hp
              exact (hh p (Or.inl hp)).2 hp)
      simpa using this
    rw [← normSq_toC, ← normSq_toC, hg, Complex.normSq_mul, hΞ ext hext', one_mul]
  · intro p hp
    exact absurd hp id

end TfPwaV.AmpR

namespace TfPwaV.AxesInd
open TfPwaV.SU2R TfPwaV.AlignR TfPwaV.C12 TfPwaV.C02 TfPwaV.C01 TfPwaV.FrameAlg TfPwaV.AmpR TfPwaV.LineShapeR

/-- the column phase of the top vertex; outside the table of `Dfun_delta_v2` (padding zero) continued by `ph` -/
noncomputable def colPhaseX (N : ℕ) (θ : ℝ) (δ : Int) : ℂ := if δ.natAbs ≤ N then colPhase N θ δ else ph δ θ

theorem mkD_col_factorX (N : ℕ) (hN : N ≤ 8) (a b g a' b' g' θ : ℝ)
    (h : rot3 a' b' g' = (rot3 a b g).mul (rotZ θ)) (i : Fin (N + 1)) (δ : Int) :
    toC (mkD N a' b' g' (hel2 N i) δ) = toC (mkD N a b g (hel2 N i) δ) * colPhaseX N θ δ := by
  unfold colPhaseX
  split_ifs with hd
  · exact mkD_col_factor N hN a b g a' b' g' θ h i δ
  · rw [toC_mkD, toC_mkD, dif_neg hd, dif_neg hd, zero_mul]

theorem colPhaseX_eq_ph (N : ℕ) (θ : ℝ) (δ : Int) (hp : (δ + (N : Int)) % 2 = 0) : colPhaseX N θ δ = ph δ θ := by
  unfold colPhaseX
  split_ifs with hd
  · exact colPhase_eq_ph N θ δ hd hp
  · rfl

theorem CTree.root_mem (t : CTree) : (t.id, t.N) ∈ t.decs ++ t.finals := by
  cases t <;> simp [CTree.id, CTree.N, CTree.decs, CTree.finals]

/-- **the index structure of a chain is that of a decay tree** `top → tb tc`; `al f` = the final particle `f` carries an alignment
D-function in this chain (`false`: the chain is the reference of `f`) -/
structure ChainOfTree (N : Nat → Nat) (NT : Nat) (C : Chain) (tb tc : CTree) (al : Nat → Bool) : Prop where
  topb : C.top.b = tb.id
  topc : C.top.c = tc.id
  rest : C.rest.map (fun v => v.a) = (tb.decs ++ tc.decs).map Prod.fst
  aligns : C.aligns.map (fun A => A.p) = ((tb.finals ++ tc.finals).filter fun f => al f.1).map Prod.fst
  spinsb : ∀ x ∈ tb.decs ++ tb.finals, N x.1 = x.2
  spinsc : ∀ x ∈ tc.decs ++ tc.finals, N x.1 = x.2
  okb : tb.spinOK = true
  okc : tc.spinOK = true
  oktop : (NT + tb.N + tc.N) % 2 = 0
  innerDec : ∀ x ∈ tb.decs ++ tc.decs, x.1 ∈ C.inner.map Prod.fst
  innerAl : ∀ f ∈ tb.finals ++ tc.finals, al f.1 = true → f.1 ∈ C.inner.map Prod.fst
  notInner : ∀ f ∈ tb.finals ++ tc.finals, al f.1 = false → f.1 ∉ C.inner.map Prod.fst


/-- `SideOK` with hypotheses on SU(2) ELEMENTS: the own element of the daughter is `Rotation_z(ω)`, its sheet is `e` -/
def SideOKE (ω : ℝ) (e : Bool) (Θ θa : Nat → ℝ) : CTree → Prop
  | .fin f _ => rotZ (θa f) = rotZ (-ω)
  | .dec a _ d1 d2 => rotZ (Θ a) = (signM e).mul (rotZ (-ω)) ∧
      (∀ d ∈ d1.decs ++ d2.decs, rotZ (Θ d.1) = M2.one) ∧
      (∀ f ∈ d1.finals ++ d2.finals, rotZ (θa f.1) = signM e)

theorem SideOKE.sideOK {ω : ℝ} {e : Bool} {Θ θa : Nat → ℝ} {t : CTree} (h : SideOKE ω e Θ θa t) :
    SideOK ω (signC e) Θ θa t := by
  cases t with
  | fin f N => exact fun m => ph_of_rotZ _ _ h m
  | dec a N d1 d2 =>
    obtain ⟨h1, h2, h3⟩ := h
    exact ⟨fun m => ph_of_signM e _ _ h1 m, fun d hd m => ph_of_rotZ_one _ (h2 d hd) m,
      fun f hf m => ph_of_rotZ_sign e _ (h3 f hf) m⟩

/-- the reference chain's own element is the reference element: `Rotation_z(θa)·Rotation_z(φ) = 1` -/
theorem href_of_elements (θ φ : ℝ) (h : (rotZ θ).mul (rotZ φ) = M2.one) (m : Int) : ph m θ * ph m φ = 1 := by
  rw [← ph_add_angle, ph_of_rotZ_one _ (by rw [rotZ_add]; exact h)]

theorem hel2_parity (N : ℕ) (k : Fin (N + 1)) : hel2 N k % 2 = (N : Int) % 2 := by unfold hel2; omega

/-- **the cancellation hypothesis, discharged** for a chain with the index structure of a decay tree of ANY depth -/
theorem chain_hcancel (N : Nat → Nat) (NT : Nat) (C : Chain) (tb tc : CTree) (al : Nat → Bool)
    (hC : ChainOfTree N NT C tb tc al) (ids : List Nat) (hfin : ∀ f ∈ tb.finals ++ tc.finals, f.1 ∈ ids)
    (sb sc : Bool) (γ1 γ2 : ℝ) (hγ : rotZ γ2 = rotZ (-γ1)) (Θ θa φ : Nat → ℝ)
    (hSb : SideOK γ1 (signC sb) Θ θa tb) (hSc : SideOK γ2 (signC sc) Θ θa tc)
    (href : ∀ f ∈ tb.finals ++ tc.finals, al f.1 = false → ∀ m, ph m (θa f.1) * ph m (φ f.1) = 1)
    (ext h : Hel) (hext : ∀ p, p ∈ ids → ∃ k : Fin (N p + 1), ext p = hel2 (N p) k)
    (hall : ∀ p, (p ∈ ids ∨ p ∈ C.inner.map Prod.fst) → ∃ k : Fin (N p + 1), h p = hel2 (N p) k)
    (hoff : ∀ p, p ∉ C.inner.map Prod.fst → h p = ext p) :
    C.gaugeProd (colPhaseX NT γ1) (fun v => rowPhase (N v.a) (Θ v.a)) (fun A => rowPhase (N A.p) (θa A.p)) h *
        (C.aligns.map fun A => colPhase (N A.p) (φ A.p) (ext A.p)).prod =
      ((tb.finals ++ tc.finals).map fun f => ph (ext f.1) (φ f.1)).prod := by
  -- every particle of the tree has an allowed helicity in `h`
  have hdec : ∀ x ∈ tb.decs ++ tc.decs, ∃ k : Fin (N x.1 + 1), h x.1 = hel2 (N x.1) k :=
    fun x hx => hall x.1 (Or.inr (hC.innerDec x hx))
  have hfinal : ∀ f ∈ tb.finals ++ tc.finals, ∃ k : Fin (N f.1 + 1), h f.1 = hel2 (N f.1) k :=
    fun f hf => hall f.1 (Or.inl (hfin f hf))
  have hparb : ∀ x ∈ tb.decs ++ tb.finals, h x.1 % 2 = (x.2 : Int) % 2 := by
    intro x hx
    rw [← hC.spinsb x hx]
    rcases List.mem_append.mp hx with hx | hx
    · obtain ⟨k, hk⟩ := hdec x (List.mem_append_left _ hx)
      rw [hk]; exact hel2_parity _ k
    · obtain ⟨k, hk⟩ := hfinal x (List.mem_append_left _ hx)
      rw [hk]; exact hel2_parity _ k
  have hparc : ∀ x ∈ tc.decs ++ tc.finals, h x.1 % 2 = (x.2 : Int) % 2 := by
    intro x hx
    rw [← hC.spinsc x hx]
    rcases List.mem_append.mp hx with hx | hx
    · obtain ⟨k, hk⟩ := hdec x (List.mem_append_right _ hx)
      rw [hk]; exact hel2_parity _ k
    · obtain ⟨k, hk⟩ := hfinal x (List.mem_append_right _ hx)
      rw [hk]; exact hel2_parity _ k
  -- the three list products over ids
  have e1 : (C.rest.map fun v => rowPhase (N v.a) (Θ v.a) (h v.a)).prod =
      ((tb.decs ++ tc.decs).map fun d => ph (h d.1) (Θ d.1)).prod := by
    have : (C.rest.map fun v => rowPhase (N v.a) (Θ v.a) (h v.a)) =
        (C.rest.map fun v => v.a).map fun a => rowPhase (N a) (Θ a) (h a) := by rw [List.map_map]; rfl
    rw [this, hC.rest, List.map_map]
    congr 1
    apply List.map_congr_left
    intro d hd
    obtain ⟨k, hk⟩ := hdec d hd
    simp only [Function.comp, hk]
    exact rowPhase_eq_ph _ _ k
  have e2 : (C.aligns.map fun A => rowPhase (N A.p) (θa A.p) (h A.p)).prod =
      (((tb.finals ++ tc.finals).filter fun f => al f.1).map fun f => ph (h f.1) (θa f.1)).prod := by
    have : (C.aligns.map fun A => rowPhase (N A.p) (θa A.p) (h A.p)) =
        (C.aligns.map fun A => A.p).map fun p => rowPhase (N p) (θa p) (h p) := by rw [List.map_map]; rfl
    rw [this, hC.aligns, List.map_map]
    congr 1
    apply List.map_congr_left
    intro f hf
    obtain ⟨k, hk⟩ := hfinal f (List.mem_filter.mp hf).1
    simp only [Function.comp, hk]
    exact rowPhase_eq_ph _ _ k
  have e3 : (C.aligns.map fun A => colPhase (N A.p) (φ A.p) (ext A.p)).prod =
      (((tb.finals ++ tc.finals).filter fun f => al f.1).map fun f => ph (ext f.1) (φ f.1)).prod := by
    have : (C.aligns.map fun A => colPhase (N A.p) (φ A.p) (ext A.p)) =
        (C.aligns.map fun A => A.p).map fun p => colPhase (N p) (φ p) (ext p) := by rw [List.map_map]; rfl
    rw [this, hC.aligns, List.map_map]
    congr 1
    apply List.map_congr_left
    intro f hf
    obtain ⟨k, hk⟩ := hext f.1 (hfin f (List.mem_filter.mp hf).1)
    simp only [Function.comp, hk]
    apply colPhase_eq_ph
    · unfold hel2; have := k.2; omega
    · unfold hel2; omega
  -- the top column
  have e0 : colPhaseX NT γ1 (h C.top.b - h C.top.c) = ph (h tb.id - h tc.id) γ1 := by
    rw [hC.topb, hC.topc]
    apply colPhaseX_eq_ph
    have hb := hparb _ (CTree.root_mem tb)
    have hc := hparc _ (CTree.root_mem tc)
    have := hC.oktop
    simp only at hb hc
    omega
  unfold Chain.gaugeProd
  rw [e0, e1, e2, e3]
  exact tree_phases_cancel (signC sb) (signC sc) (signC_sq sb) (signC_sq sc) γ1 γ2
    (fun m => ph_of_rotZ (-γ2) γ1 (by rw [← rotZ_inv, hγ, rotZ_inv, neg_neg]) m) Θ θa φ al tb tc hC.okb hC.okc hSb hSc h ext hparb hparc
    (fun f hf ha => ⟨hoff f.1 (hC.notInner f hf ha), href f hf ha _⟩)

/-! ### the sheet of a lower vertex is the sign of the routes through it -/

theorem signM_comm (e : Bool) (x : M2) : (signM e).mul x = x.mul (signM e) := by
  cases e
  · simp only [signM, Bool.false_eq_true, if_false]; rw [M2.one_mul, M2.mul_one]
  · simp only [signM, if_true]; exact negOne_comm x

/-- the angle of the row factor of a vertex on sheet `e` -/
noncomputable def sheetAngle (e : Bool) (γ : ℝ) : ℝ := if e then 2 * Real.pi - γ else -γ

theorem rotZ_sheetAngle (e : Bool) (γ : ℝ) : rotZ (sheetAngle e γ) = (signM e).mul (rotZ (-γ)) := by
  cases e
  · simp only [sheetAngle, signM, Bool.false_eq_true, if_false]; rw [M2.one_mul]
  · simp only [sheetAngle, signM, if_true]
    rw [← rotZ_two_pi, ← rotZ_add, sub_eq_add_neg]

/-- the Euler element of a vertex whose azimuth element is lowered by `γ` on sheet `e` is multiplied from the left by
`Rotation_z(sheetAngle e γ) = ±Rotation_z(−γ)` -/
theorem vertex_row_sheet (a a' b g γ : ℝ) (e : Bool) (h : rotZ a' = (signM e).mul (rotZ (a - γ))) :
    C01.rot3 a' b g = (rotZ (sheetAngle e γ)).mul (C01.rot3 a b g) := by
  have e1 : a - γ = -γ + a := by ring
  unfold C01.rot3
  rw [h, rotZ_sheetAngle, e1, rotZ_add]
  simp only [su2_mul_assoc]

/-- the second step of a route absorbs `Rotation_z(γ)` up to the SAME sheet sign -/
theorem stepM_absorb_sheet (t t' : SL2CR.Step) (γ : ℝ) (e : Bool) (hβ : t'.beta = t.beta) (hω : t'.omega = t.omega)
    (h : rotZ t'.alpha = (signM e).mul (rotZ (t.alpha - γ))) :
    (SL2CR.stepM t').mul (rotZ γ) = (signM e).mul (SL2CR.stepM t) := by
  have hz : (rotZ t'.alpha).mul (rotZ γ) = (signM e).mul (rotZ t.alpha) := by
    rw [h, su2_mul_assoc, ← rotZ_add]; congr 2; ring
  unfold SL2CR.stepM stepR
  rw [hβ, hω]
  calc ((boostZ t.omega).mul ((rotY t.beta).mul (rotZ t'.alpha))).mul (rotZ γ)
      = ((boostZ t.omega).mul (rotY t.beta)).mul ((rotZ t'.alpha).mul (rotZ γ)) := by simp only [su2_mul_assoc]
    _ = ((boostZ t.omega).mul (rotY t.beta)).mul ((signM e).mul (rotZ t.alpha)) := by rw [hz]
    _ = (signM e).mul (((boostZ t.omega).mul (rotY t.beta)).mul (rotZ t.alpha)) := by
        rw [← su2_mul_assoc, ← signM_comm, su2_mul_assoc]
    _ = _ := by simp only [su2_mul_assoc]

/-- **every deeper particle, with the sheet**: `M'·U = (sheet sign of the level-2 azimuth)·M` -/
theorem route_deeper_change_sheet (s s' t t' : SL2CR.Step) (rest : List SL2CR.Step) (U : M2) (γ : ℝ) (e : Bool)
    (hω : s'.omega = s.omega)
    (h : (stepR s'.alpha s'.beta).mul U = (rotZ γ).mul (stepR s.alpha s.beta))
    (hβ : t'.beta = t.beta) (hω2 : t'.omega = t.omega)
    (hsheet : rotZ t'.alpha = (signM e).mul (rotZ (t.alpha - γ))) :
    (SL2CR.routeM (s' :: t' :: rest)).mul U = (signM e).mul (SL2CR.routeM (s :: t :: rest)) := by
  have e1 : (SL2CR.routeM (s' :: t' :: rest)).mul U =
      ((SL2CR.routeM rest).mul ((SL2CR.stepM t').mul (rotZ γ))).mul (SL2CR.stepM s) := by
    rw [routeM_cons, routeM_cons, su2_mul_assoc, stepM_compose s s' U γ hω h]
    simp only [su2_mul_assoc]
  have e0 : SL2CR.routeM (s :: t :: rest) = ((SL2CR.routeM rest).mul (SL2CR.stepM t)).mul (SL2CR.stepM s) := by
    rw [routeM_cons, routeM_cons]
  rw [e1, stepM_absorb_sheet t t' γ e hβ hω2 hsheet, e0, ← su2_mul_assoc (SL2CR.routeM rest), ← signM_comm,
    su2_mul_assoc, su2_mul_assoc, su2_mul_assoc]

end TfPwaV.AxesInd
