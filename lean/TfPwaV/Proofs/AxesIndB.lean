import TfPwaV.Proofs.AxesIndVertex
/-!
Helper lemmas for `Props/C01i.lean`, part 1: SU(2) → SO(3) is onto for frames.

* `unit_to_z`: every unit vector is turned onto `+z` by a passive vertex rotation `Rotation_y(β)·Rotation_z(α)`
  (degenerate directions `±z` included).
* `frame_z_lift`: a right-handed orthonormal frame whose third axis is `+z` is a rotation about `z`.
* `frame_lift`: for EVERY right-handed orthonormal frame `(X, Y, Z)` the map "coordinates along the frame" is the Lorentz map
  `lor V` of an element `V = Rotation_z(γ)·Rotation_y(β)·Rotation_z(α)` of SU(2).
* `frame_change_exists`: for any two frames there is `U ∈ SU(2)` with `FrameChange U F F'`.
-/
open TfPwaV.ScalarR
namespace TfPwaV.AxesInd
open TfPwaV.SU2R TfPwaV.AlignR TfPwaV.KinR TfPwaV.AngleR TfPwaV.SL2CR TfPwaV.LorentzSLR TfPwaV.CascadeR TfPwaV.RouteRestR
open TfPwaV.C12 TfPwaV.C02 TfPwaV.C01 TfPwaV.C11 TfPwaV.FrameRot

/-- every point of the unit circle is `(cos α, sin α)` -/
theorem exists_angle (c s : ℝ) (h : c * c + s * s = 1) : ∃ α : ℝ, Real.cos α = c ∧ Real.sin α = s := by
  obtain ⟨γ, h1, h2⟩ := exists_half_angle c s h
  exact ⟨γ / 2, h1, h2⟩

/-- polar form of a point of the plane, the origin included -/
theorem exists_polar2 (x y : ℝ) :
    ∃ α : ℝ, Real.sqrt (x * x + y * y) * Real.cos α = x ∧ Real.sqrt (x * x + y * y) * Real.sin α = y := by
  have h0 : 0 ≤ x * x + y * y := add_nonneg (mul_self_nonneg _) (mul_self_nonneg _)
  have hρρ := Real.mul_self_sqrt h0
  by_cases hρ : Real.sqrt (x * x + y * y) = 0
  · rw [hρ] at hρρ ⊢
    have hx : x = 0 := by nlinarith [mul_self_nonneg x, mul_self_nonneg y]
    have hy : y = 0 := by nlinarith [mul_self_nonneg x, mul_self_nonneg y]
    exact ⟨0, by rw [hx]; ring, by rw [hy]; ring⟩
  · have hne : x * x + y * y ≠ 0 := by
      intro h
      exact hρ (mul_self_eq_zero.mp (hρρ.trans h))
    obtain ⟨α, hc, hs⟩ := exists_angle (x / Real.sqrt (x * x + y * y)) (y / Real.sqrt (x * x + y * y))
      (by rw [div_mul_div_comm, div_mul_div_comm, ← add_div, hρρ, div_self hne])
    refine ⟨α, ?_, ?_⟩
    · rw [hc, mul_div_assoc']; exact mul_div_cancel_left₀ x hρ
    · rw [hs, mul_div_assoc']; exact mul_div_cancel_left₀ y hρ

/-- **every unit vector is turned onto `+z`** by `Rotation_y(β)·Rotation_z(α)` for suitable angles -/
theorem unit_to_z (n : V3) (hn : n.dot n = 1) :
    ∃ α β : ℝ, ∀ t : ℝ, rotYv β (rotZv α ⟨t, n.x, n.y, n.z⟩) = ⟨t, 0, 0, 1⟩ := by
  obtain ⟨α, hx, hy⟩ := exists_polar2 n.x n.y
  have hρρ : Real.sqrt (n.x * n.x + n.y * n.y) * Real.sqrt (n.x * n.x + n.y * n.y) = n.x * n.x + n.y * n.y :=
    Real.mul_self_sqrt (add_nonneg (mul_self_nonneg _) (mul_self_nonneg _))
  generalize Real.sqrt (n.x * n.x + n.y * n.y) = ρ at hx hy hρρ
  simp only [V3.dot] at hn
  obtain ⟨β, hc, hs⟩ := exists_angle n.z ρ (by nlinarith)
  have sc := Real.sin_sq_add_cos_sq α
  have e1 : Real.cos α * n.x + Real.sin α * n.y = ρ := by
    rw [← hx, ← hy]; linear_combination ρ * sc
  have e2 : Real.cos α * n.y - Real.sin α * n.x = 0 := by
    rw [← hx, ← hy]; ring
  refine ⟨α, β, fun t => ?_⟩
  ext <;> simp only [rotYv, rotZv, kcos, ksin]
  · rw [hc, hs, e1]; ring
  · exact e2
  · rw [hc, hs, e1]; linarith

/-- **a frame whose third axis is `+z`** is a rotation about `z` -/
theorem frame_z_lift (X Y : V3) (hF : IsFrame X Y ⟨0, 0, 1⟩) : ∃ γ : ℝ, ∀ q : V4, coords X Y ⟨0, 0, 1⟩ q = rotZv γ q := by
  have hXz : X.z = 0 := by have := hF.zx; simp only [V3.dot] at this; linarith
  have hxx := hF.xx
  have hY := hF.czx
  simp only [V3.dot] at hxx
  rw [hXz] at hxx
  obtain ⟨γ, hc, hs⟩ := exists_angle X.x X.y (by linarith)
  refine ⟨γ, fun q => ?_⟩
  rw [← hY]
  ext <;> simp only [coords, rotZv, V3.dot, V3.cross, V4.vect, kcos, ksin, hc, hs, hXz] <;> ring

/-- a proper rotation maps frames to frames -/
theorem IsRot.frame {R : V3 → V3} (h : IsRot R) {X Y Z : V3} (hF : IsFrame X Y Z) : IsFrame (R X) (R Y) (R Z) :=
  ⟨by rw [h.dot]; exact hF.xx, by rw [h.dot]; exact hF.yy, by rw [h.dot]; exact hF.zz, by rw [h.dot]; exact hF.xy,
    by rw [h.dot]; exact hF.yz, by rw [h.dot]; exact hF.zx, by rw [← h.cross, hF.cxy], by rw [← h.cross, hF.cyz],
    by rw [← h.cross, hF.czx]⟩

theorem coords_spatial {R : V3 → V3} (h : IsRot R) (X Y Z : V3) (q : V4) :
    coords (R X) (R Y) (R Z) (spatial R q) = coords X Y Z q := by
  ext <;> simp only [coords, spatial_vect, h.dot] <;> rfl

/-- **SU(2) → SO(3) is onto, frame form**: the coordinates along ANY right-handed orthonormal frame are the Lorentz map of
an element of SU(2) (a product `Rotation_z(γ)·Rotation_y(β)·Rotation_z(α)` of the code's `SU2M` matrices). -/
theorem frame_lift (X Y Z : V3) (hF : IsFrame X Y Z) : ∃ V : M2, IsSU2 V ∧ ∀ q : V4, coords X Y Z q = lor V q := by
  obtain ⟨α, β, hαβ⟩ := unit_to_z Z hF.zz
  have hV1 := isSU2_stepR α β
  have hR := rotOf_isRot _ hV1
  have hl : ∀ q, lor (stepR α β) q = rotYv β (rotZv α q) := by
    intro q
    apply herm_inj
    rw [herm_lor, stepR_acts]
  have hZ : rotOf (stepR α β) Z = ⟨0, 0, 1⟩ := by
    unfold rotOf
    rw [hl, hαβ 0]
    rfl
  have hF2 := IsRot.frame hR hF
  rw [hZ] at hF2
  obtain ⟨γ, hγ⟩ := frame_z_lift _ _ hF2
  refine ⟨(rotZ γ).mul (stepR α β), isSU2_mul _ _ (isSU2_rotZ γ) hV1, fun q => ?_⟩
  rw [lor_mul, ← rotZv_eq_lor, ← hγ, lor_su2_eq_spatial _ hV1, ← hZ, coords_spatial hR]

/-- **`frame_change_exists`** — for any two right-handed orthonormal frames there is an element of SU(2) that turns
coordinates along the first into coordinates along the second. -/
theorem frame_change_exists (X Y Z X' Y' Z' : V3) (hF : IsFrame X Y Z) (hF' : IsFrame X' Y' Z') :
    ∃ U : M2, IsSU2 U ∧ FrameChange U X Y Z X' Y' Z' := by
  obtain ⟨V, hV, hVq⟩ := frame_lift X Y Z hF
  obtain ⟨V', hV', hVq'⟩ := frame_lift X' Y' Z' hF'
  refine ⟨V'.mul V.inv, isSU2_mul _ _ hV' (isSU2_inv _ hV), fun q => ?_⟩
  rw [hVq, hVq', lor_mul, lor_inv_lor V (isSU2_det V hV)]

end TfPwaV.AxesInd
