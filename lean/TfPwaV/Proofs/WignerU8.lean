import TfPwaV.Model.Wigner
/-! kernel evaluation of the unitarity polynomial identities, 2j = 8 -/
namespace TfPwaV.Wigner
theorem unitary_check_8 : unitaryCheck 8 = true := by decide +kernel
end TfPwaV.Wigner
