import TfPwaV.Model.Hist
import Mathlib.Order.Defs.LinearOrder
import Mathlib.Order.Basic
import Mathlib.Algebra.BigOperators.Group.List.Basic
import Mathlib.Algebra.Ring.Defs
import Mathlib.Tactic.Ring
import Mathlib.Tactic.Abel
/-! Helper lemmas for C20: adaptive bins (any linear order) and weighted histograms (any commutative monoid of weights). -/
namespace TfPwaV.Bins
variable {α : Type} [LinearOrder α]

theorem inIv_iff (v : α) (iv : α × α) : inIv v iv = true ↔ iv.1 ≤ v ∧ v < iv.2 := by
  simp [inIv]

/-- number of intervals of a list that contain `v` -/
def cnt (v : α) (l : List (α × α)) : Nat := (l.filter (inIv v)).length

theorem cnt_nil (v : α) : cnt v ([] : List (α × α)) = 0 := rfl

theorem cnt_cons (v : α) (iv : α × α) (l : List (α × α)) :
    cnt v (iv :: l) = (if inIv v iv then 1 else 0) + cnt v l := by
  unfold cnt
  rw [List.filter_cons]
  split
  · simp; omega
  · simp

theorem sortedChain_le (lb : α) (cs : List α) (rb : α) : sortedChain lb cs rb = true → lb ≤ rb := by
  induction cs generalizing lb with
  | nil => intro h; simpa [sortedChain] using h
  | cons c cs ih =>
    intro h
    simp only [sortedChain, Bool.and_eq_true, decide_eq_true_eq] at h
    exact le_trans h.1 (ih c h.2)

theorem cnt_chain_left (v : α) (cs : List α) (rb : α) :
    ∀ lb, sortedChain lb cs rb = true → v < lb → cnt v (chain lb cs rb) = 0 := by
  induction cs with
  | nil =>
    intro lb _ hv
    rw [chain, cnt_cons, cnt_nil, if_neg]
    rw [inIv_iff]; intro h; exact absurd (lt_of_lt_of_le hv h.1) (lt_irrefl v)
  | cons c cs ih =>
    intro lb h hv
    simp only [sortedChain, Bool.and_eq_true, decide_eq_true_eq] at h
    simp only [chain, cnt_cons]
    rw [ih c h.2 (lt_of_lt_of_le hv h.1), if_neg]
    rw [inIv_iff]; intro h'; exact absurd (lt_of_lt_of_le hv h'.1) (lt_irrefl v)

theorem cnt_chain_right (v : α) (cs : List α) (rb : α) :
    ∀ lb, sortedChain lb cs rb = true → rb ≤ v → cnt v (chain lb cs rb) = 0 := by
  induction cs with
  | nil =>
    intro lb _ hv
    rw [chain, cnt_cons, cnt_nil, if_neg]
    rw [inIv_iff]; intro h; exact absurd (lt_of_lt_of_le h.2 hv) (lt_irrefl v)
  | cons c cs ih =>
    intro lb h hv
    simp only [sortedChain, Bool.and_eq_true, decide_eq_true_eq] at h
    simp only [chain, cnt_cons]
    rw [ih c h.2 hv, if_neg]
    rw [inIv_iff]; intro h'
    exact absurd (lt_of_lt_of_le h'.2 (le_trans (sortedChain_le c cs rb h.2) hv)) (lt_irrefl v)

/-- for a monotone cut chain, `v` lies in exactly one interval if `lb ≤ v < rb` and in none otherwise -/
theorem cnt_chain (v : α) (cs : List α) (rb : α) :
    ∀ lb, sortedChain lb cs rb = true → cnt v (chain lb cs rb) = if inIv v (lb, rb) then 1 else 0 := by
  induction cs with
  | nil => intro lb _; rw [chain, cnt_cons, cnt_nil, Nat.add_zero]
  | cons c cs ih =>
    intro lb h
    simp only [sortedChain, Bool.and_eq_true, decide_eq_true_eq] at h
    simp only [chain, cnt_cons]
    by_cases hvc : v < c
    · rw [cnt_chain_left v cs rb c h.2 hvc]
      have hcr := sortedChain_le c cs rb h.2
      by_cases hl : lb ≤ v
      · rw [if_pos ((inIv_iff _ _).mpr ⟨hl, hvc⟩), if_pos ((inIv_iff _ _).mpr ⟨hl, lt_of_lt_of_le hvc hcr⟩)]
      · rw [if_neg (fun hh => hl ((inIv_iff _ _).mp hh).1), if_neg (fun hh => hl ((inIv_iff _ _).mp hh).1)]
    · have hcv : c ≤ v := not_lt.mp hvc
      rw [ih c h.2, if_neg (fun hh => hvc ((inIv_iff _ _).mp hh).2)]
      by_cases hr : v < rb
      · rw [if_pos ((inIv_iff _ _).mpr ⟨hcv, hr⟩), if_pos ((inIv_iff _ _).mpr ⟨le_trans h.1 hcv, hr⟩)]
      · rw [if_neg (fun hh => hr ((inIv_iff _ _).mp hh).2), if_neg (fun hh => hr ((inIv_iff _ _).mp hh).2)]

/-- membership in the box ignoring dimension `idx` -/
def restOf : List α → Box α → Nat → Bool
  | _ :: vs, _ :: ivs, 0 => inBox vs ivs
  | v :: vs, iv :: ivs, i + 1 => inIv v iv && restOf vs ivs i
  | _, _, _ => true

theorem inBox_setIv (b : Box α) : ∀ (p : List α) (idx : Nat) (old : α × α) (v : α),
    getIv b idx = some old → p[idx]? = some v →
    (∀ iv, inBox p (setIv b idx iv) = (inIv v iv && restOf p b idx)) ∧
    inBox p b = (inIv v old && restOf p b idx) := by
  induction b with
  | nil => intro p idx old v h; simp [getIv] at h
  | cons iv0 ivs ih =>
    intro p idx old v hg hp
    cases p with
    | nil => simp at hp
    | cons x xs =>
      cases idx with
      | zero =>
        simp only [getIv, Option.some.injEq] at hg
        simp only [List.getElem?_cons_zero, Option.some.injEq] at hp
        subst hg; subst hp
        exact ⟨fun iv => by simp [setIv, inBox, restOf], by simp [inBox, restOf]⟩
      | succ i =>
        simp only [getIv] at hg
        simp only [List.getElem?_cons_succ] at hp
        obtain ⟨h1, h2⟩ := ih xs i old v hg hp
        refine ⟨fun iv => ?_, ?_⟩
        · simp only [setIv, inBox, restOf, h1 iv]
          cases inIv x iv0 <;> cases inIv v iv <;> simp
        · simp only [inBox, restOf, h2]
          cases inIv x iv0 <;> cases inIv v old <;> simp

theorem memberCount_nil (p : List α) : memberCount p ([] : List (Box α)) = 0 := rfl

theorem memberCount_append (p : List α) (l1 l2 : List (Box α)) :
    memberCount p (l1 ++ l2) = memberCount p l1 + memberCount p l2 := by
  simp [memberCount, List.filter_append]

theorem memberCount_single (p : List α) (b : Box α) :
    memberCount p [b] = if inBox p b then 1 else 0 := by
  unfold memberCount; rw [List.filter_cons]; split <;> simp

theorem memberCount_cons (p : List α) (b : Box α) (l : List (Box α)) :
    memberCount p (b :: l) = (if inBox p b then 1 else 0) + memberCount p l := by
  have := memberCount_append p [b] l
  simpa [memberCount_single] using this

/-- splitting one box along `idx` with a monotone cut chain keeps "in exactly one / in none" -/
theorem memberCount_splitBox (p : List α) (b : Box α) (idx : Nat) (cuts : List α) (lb rb : α)
    (hg : getIv b idx = some (lb, rb)) (hp : idx < p.length) (hs : sortedChain lb cuts rb = true) :
    memberCount p (splitBox b idx cuts) = if inBox p b then 1 else 0 := by
  have hv : p[idx]? = some p[idx] := List.getElem?_eq_getElem hp
  obtain ⟨h1, h2⟩ := inBox_setIv b p idx (lb, rb) p[idx] hg hv
  unfold splitBox
  rw [hg]
  simp only
  unfold memberCount
  rw [List.filter_map, List.length_map]
  have : (inBox p ∘ setIv b idx) = fun iv => (inIv p[idx] iv && restOf p b idx) := by
    funext iv; exact h1 iv
  rw [this, h2]
  cases hr : restOf p b idx
  · simp
  · simp only [Bool.and_true]
    exact cnt_chain p[idx] cuts rb lb hs

/-- one `for bnd, data in zip(bound_chain, data_chain)` sweep of `multi_split_bound` along dimension `idx` -/
theorem memberCount_splitRound (p : List α) (D idx : Nat) (hD : D ≤ p.length) :
    ∀ (boxes : List (Box α)) (cutss : List (List α)), validRound D idx boxes cutss = true →
      memberCount p (splitRound idx boxes cutss) = memberCount p boxes := by
  intro boxes
  induction boxes with
  | nil => intro cutss _; simp [splitRound, memberCount]
  | cons b bs ih =>
    intro cutss hv
    cases cutss with
    | nil => simp [validRound] at hv
    | cons cs css =>
      simp only [validRound, List.length_cons, Bool.and_eq_true, decide_eq_true_eq, List.zip_cons_cons,
        List.all_cons, Nat.add_right_cancel_iff] at hv
      obtain ⟨⟨hidx, hlen⟩, hhead, htail⟩ := hv
      have hrest : validRound D idx bs css = true := by
        simp only [validRound, Bool.and_eq_true, decide_eq_true_eq]
        exact ⟨⟨hidx, hlen⟩, htail⟩
      have := ih css hrest
      unfold splitRound at this ⊢
      simp only [List.zip_cons_cons, List.flatMap_cons, memberCount_append, memberCount_cons, this]
      congr 1
      cases hg : getIv b idx with
      | none => simp [hg] at hhead
      | some iv =>
        obtain ⟨lb, rb⟩ := iv
        simp only [hg] at hhead
        exact memberCount_splitBox p b idx cs lb rb hg (by omega) hhead

theorem memberCount_multiGo (p : List α) (D : Nat) (hD : D ≤ p.length) :
    ∀ (spec : List (List (List α))) (idx : Nat) (boxes : List (Box α)), validGo D idx boxes spec = true →
      memberCount p (multiGo idx boxes spec) = memberCount p boxes := by
  intro spec
  induction spec with
  | nil => intro idx boxes _; rfl
  | cons cutss rest ih =>
    intro idx boxes hv
    simp only [validGo, Bool.and_eq_true] at hv
    simp only [multiGo]
    rw [ih (idx + 1) _ hv.2, memberCount_splitRound p D idx hD boxes cutss hv.1]

theorem memberCount_loopRound (p : List α) (D : Nat) (hD : D ≤ p.length) :
    ∀ (boxes : List (Box α)) (specs : List (List (List (List α)))), validLoopRound D boxes specs = true →
      memberCount p (loopRound boxes specs) = memberCount p boxes := by
  intro boxes
  induction boxes with
  | nil => intro specs _; simp [loopRound, memberCount]
  | cons b bs ih =>
    intro specs hv
    cases specs with
    | nil => simp [validLoopRound] at hv
    | cons sp sps =>
      simp only [validLoopRound, List.length_cons, Bool.and_eq_true, decide_eq_true_eq, List.zip_cons_cons,
        List.all_cons, Nat.add_right_cancel_iff] at hv
      obtain ⟨hlen, hhead, htail⟩ := hv
      have hrest : validLoopRound D bs sps = true := by
        simp only [validLoopRound, Bool.and_eq_true, decide_eq_true_eq]
        exact ⟨hlen, htail⟩
      have := ih sps hrest
      unfold loopRound at this ⊢
      simp only [List.zip_cons_cons, List.flatMap_cons, memberCount_append, memberCount_cons, this]
      congr 1
      unfold multiSplit
      rw [memberCount_multiGo p D hD sp 0 [b] hhead, memberCount_single]

theorem memberCount_loop (p : List α) (D : Nat) (hD : D ≤ p.length) :
    ∀ (rounds : List (List (List (List (List α))))) (boxes : List (Box α)), validLoop D boxes rounds = true →
      memberCount p (rounds.foldl loopRound boxes) = memberCount p boxes := by
  intro rounds
  induction rounds with
  | nil => intro boxes _; rfl
  | cons specs rest ih =>
    intro boxes hv
    simp only [validLoop, Bool.and_eq_true] at hv
    simp only [List.foldl_cons]
    rw [ih _ hv.2, memberCount_loopRound p D hD boxes specs hv.1]

end TfPwaV.Bins

namespace TfPwaV.Hist
variable {α : Type} [LinearOrder α]

theorem binOf_bounds (v : α) : ∀ (edges : List α) (i j : Nat), binOf v edges i = some j →
    i ≤ j ∧ j < i + (edges.length - 1) := by
  intro edges
  induction edges with
  | nil => intro i j h; simp [binOf] at h
  | cons lo rest ih =>
    intro i j h
    cases rest with
    | nil => simp [binOf] at h
    | cons hi rest2 =>
      cases rest2 with
      | nil =>
        simp only [binOf] at h
        split at h
        · simp only [Option.some.injEq] at h; subst h; simp
        · simp at h
      | cons e3 rest3 =>
        simp only [binOf] at h
        split at h
        · simp only [Option.some.injEq] at h; subst h; simp
        · split at h
          · simp at h
          · have := ih (i + 1) j h
            simp only [List.length_cons] at this ⊢
            omega

variable {β : Type} [AddCommMonoid β]

theorem sum_ite_range (j : Nat) (w : β) : ∀ n : Nat,
    ((List.range n).map fun i => if some j = some i then w else 0).sum = if j < n then w else 0 := by
  intro n
  induction n with
  | zero => simp
  | succ n ih =>
    rw [List.range_succ, List.map_append, List.sum_append, ih]
    simp only [List.map_cons, List.map_nil, List.sum_cons, List.sum_nil, add_zero, Option.some.injEq]
    by_cases h1 : j < n
    · rw [if_pos h1, if_neg (by omega), if_pos (by omega), add_zero]
    · by_cases h2 : j = n
      · rw [if_neg h1, if_pos h2, if_pos (by omega), zero_add]
      · rw [if_neg h1, if_neg h2, if_neg (by omega), add_zero]

theorem sum_map_add' (n : Nat) (f g : Nat → β) :
    ((List.range n).map fun i => f i + g i).sum = ((List.range n).map f).sum + ((List.range n).map g).sum := by
  induction n with
  | zero => simp
  | succ n ih =>
    simp only [List.range_succ, List.map_append, List.sum_append, ih, List.map_cons, List.map_nil,
      List.sum_cons, List.sum_nil, add_zero]
    abel

theorem sum_zero_range (n : Nat) : ((List.range n).map fun _ => (0 : β)).sum = 0 := by
  induction n with
  | zero => simp
  | succ n ih => simp [List.range_succ, ih]

theorem binSum_cons [Mul β] (edges : List α) (f : β → β) (e : α × β) (es : List (α × β)) (i : Nat) :
    binSum edges f (e :: es) i = (if binOf e.1 edges 0 = some i then f e.2 else 0) + binSum edges f es i := by
  unfold binSum
  rw [List.filter_cons]
  by_cases h : binOf e.1 edges 0 = some i
  · simp [h]
  · have : (binOf e.1 edges 0 == some i) = false := by simpa using h
    simp [this, h]

end TfPwaV.Hist
