import TfPwaV.Proofs.VarsFixed
import TfPwaV.Model.VarsSep
/-! C16: on the patched tree (`cfg.fixSame = true`, the `set_same` of commit 647ec00) the members of every `same_list`
group stay bound to one object through every later tie call — provided a complex parameter is tied either as a whole
(`set_same(cplx=True)`, `Variable.sameas`) or through its parts (`set_same` of real names, `set_share_r`), not both
(`WellSeparated`).  Outside that sub-domain the statement is false for the model and for the code
(`Props/C16c.lean: separated_needed`).  Core Lean only. -/
namespace TfPwaV.Vars

variable {V : Type}

/-! ### disjoint groups and the first loop of `set_same` -/

/-- two groups share no name -/
def GDisj (g h : List Name) : Prop := ∀ n ∈ g, n ∉ h

theorem GDisj.symm {g h : List Name} (H : GDisj g h) : GDisj h g := fun n hn hg => H n hg hn

theorem pairwise_erase_disj (l : List (List Name)) (hp : l.Pairwise GDisj) (g : List Name) (hg : g ∈ l) :
    ∀ h ∈ l.erase g, GDisj g h := by
  induction l with
  | nil => simp at hg
  | cons x xs ih =>
    rw [List.pairwise_cons] at hp
    intro h hh
    rw [List.erase_cons] at hh
    by_cases hx : x = g
    · subst hx
      simp only [beq_self_eq_true, if_true] at hh
      exact hp.1 h hh
    · have hx' : (x == g) = false := by simpa using hx
      simp only [hx', Bool.false_eq_true, if_false, List.mem_cons] at hh
      have hg' : g ∈ xs := by
        rcases List.mem_cons.1 hg with e | e
        · exact absurd e.symm hx
        · exact e
      rcases hh with e | e
      · subst e; exact (hp.1 g hg').symm
      · exact ih hp.2 hg' h e

theorem mergeLoop_disj (inVars : Name → Bool) (headOf : List Name → Name → Name)
    (hh : ∀ g n, n ∈ g → headOf g n ∈ g) (names : List Name) :
    ∀ (same0 : List (List Name)) (tmp0 heads0 : List Name), same0.Pairwise GDisj →
      (∀ g ∈ same0, ∀ f ∈ tmp0, f ∉ g) → (∀ h ∈ heads0, h ∈ tmp0) →
      ∀ r, r = mergeLoop inVars headOf names (same0, tmp0, heads0) →
      r.1.Pairwise GDisj ∧ (∀ g ∈ r.1, ∀ f ∈ r.2.1, f ∉ g) ∧ (∀ h ∈ r.2.2, h ∈ r.2.1) ∧
      (∀ g ∈ r.1, ∀ n ∈ names, inVars n = true → n ∉ g) ∧
      (∀ g ∈ same0, g ∈ r.1 ∨ ∀ f ∈ g, f ∈ r.2.1) ∧ (∀ f ∈ tmp0, f ∈ r.2.1) := by
  induction names with
  | nil =>
    intro same0 tmp0 heads0 hp ht hhd r hr
    subst hr
    simp only [mergeLoop]
    exact ⟨hp, ht, hhd, fun _ _ n hn => by simp at hn, fun g hg => Or.inl hg, fun f hf => hf⟩
  | cons name rest ih =>
    intro same0 tmp0 heads0 hp ht hhd r hr
    have hsub := (mergeLoop_spec inVars headOf rest)
    simp only [mergeLoop] at hr
    by_cases hin : inVars name = true
    · simp only [hin, Bool.not_true, Bool.false_eq_true, if_false] at hr
      cases hf : same0.find? (fun g => decide (name ∈ g)) with
      | none =>
        rw [hf] at hr
        simp only at hr
        obtain ⟨i1, i2, i3, i4, i5, i6⟩ := ih same0 tmp0 heads0 hp ht hhd r hr
        refine ⟨i1, i2, i3, ?_, i5, i6⟩
        intro g hg n hn hnin
        rcases List.mem_cons.1 hn with e | e
        · subst e
          have hg0 : g ∈ same0 := by rw [hr] at hg; exact (hsub same0 tmp0 heads0).1 g hg
          have := List.find?_eq_none.1 hf g hg0
          simpa using this
        · exact i4 g hg n e hnin
      | some g0 =>
        rw [hf] at hr
        simp only at hr
        have hg0 : g0 ∈ same0 := List.mem_of_find?_eq_some hf
        have hng0 : name ∈ g0 := by simpa using List.find?_some hf
        have hdis := pairwise_erase_disj same0 hp g0 hg0
        have hp' : (same0.erase g0).Pairwise GDisj := hp.sublist (List.erase_sublist)
        have ht' : ∀ g ∈ same0.erase g0, ∀ f ∈ tmp0 ++ g0, f ∉ g := by
          intro g hg f hf'
          rcases List.mem_append.1 hf' with e | e
          · exact ht g (List.mem_of_mem_erase hg) f e
          · exact hdis g hg f e
        have hhd' : ∀ h ∈ heads0 ++ [headOf g0 name], h ∈ tmp0 ++ g0 := by
          intro h hh'
          rcases List.mem_append.1 hh' with e | e
          · exact List.mem_append.2 (Or.inl (hhd h e))
          · simp only [List.mem_singleton] at e
            subst e
            exact List.mem_append.2 (Or.inr (hh g0 name hng0))
        obtain ⟨i1, i2, i3, i4, i5, i6⟩ := ih (same0.erase g0) (tmp0 ++ g0) (heads0 ++ [headOf g0 name]) hp' ht' hhd' r hr
        refine ⟨i1, i2, i3, ?_, ?_, fun f hf' => i6 f (List.mem_append.2 (Or.inl hf'))⟩
        · intro g hg n hn hnin
          rcases List.mem_cons.1 hn with e | e
          · subst e
            have hg1 : g ∈ same0.erase g0 := by
              rw [hr] at hg; exact (hsub (same0.erase g0) (tmp0 ++ g0) (heads0 ++ [headOf g0 n])).1 g hg
            exact hdis g hg1 n hng0
          · exact i4 g hg n e hnin
        · intro g hg
          by_cases e : g = g0
          · subst e
            exact Or.inr (fun f hf' => i6 f (List.mem_append.2 (Or.inr hf')))
          · exact i5 g ((List.mem_erase_of_ne e).2 hg)
    · have hin' : inVars name = false := by simpa using hin
      simp only [hin', Bool.not_false, if_true] at hr
      obtain ⟨i1, i2, i3, i4, i5, i6⟩ := ih same0 tmp0 heads0 hp ht hhd r hr
      refine ⟨i1, i2, i3, ?_, i5, i6⟩
      intro g hg n hn hnin
      rcases List.mem_cons.1 hn with e | e
      · subst e; rw [hin'] at hnin; exact absurd hnin (by simp)
      · exact i4 g hg n e hnin

/-! ### the groups stay tied -/

/-- the members of a group of real names are bound to one object -/
def TiedReal (s : State V) (g : List Name) : Prop := ∀ a ∈ g, ∀ b ∈ g, cellOf s a = cellOf s b

/-- the `r` parts of the members of a group of complex parameters are bound to one object, and so are the `i` parts -/
def TiedCplx (s : State V) (g : List Name) : Prop :=
  ∀ a ∈ g, ∀ b ∈ g, cellOf s (a ++ "r") = cellOf s (b ++ "r") ∧ cellOf s (a ++ "i") = cellOf s (b ++ "i")

/-- a `same_list` group is of one kind, has at most one free member, and its members are bound to one object -/
def GT (s : State V) (g : List Name) : Prop := (GReal s g ∧ TiedReal s g) ∨ (GCplx s g ∧ TiedCplx s g)

/-- no member of a group is the `r` / `i` part of a complex parameter that is a member of a group:
a complex parameter is tied as a whole or through its parts, not both -/
def Sep (s : State V) : Prop :=
  ∀ g1 ∈ s.same, ∀ g2 ∈ s.same, ∀ m ∈ g1, ∀ c ∈ g2, isCplxBase s c = true → m ≠ c ++ "r" ∧ m ≠ c ++ "i"

/-- the full constraint invariant of the patched tree -/
structure InvT (s : State V) : Prop where
  invF : InvF s
  /-- every group is tied -/
  tied : ∀ g ∈ s.same, GT s g
  /-- the groups are pairwise disjoint -/
  disj : s.same.Pairwise GDisj
  sep : Sep s

theorem sepReal_spec (s : State V) (names : List Name) (h : sepReal s names = true) :
    ∀ n ∈ names, ∀ g ∈ s.same, ∀ c ∈ g, isCplxBase s c = true → n ≠ c ++ "r" ∧ n ≠ c ++ "i" := by
  intro n hn g hg c hc hb
  unfold sepReal at h
  simp only [List.all_eq_true] at h
  have := h n hn g hg c hc
  simpa [hb] using this

theorem sepCplx_spec (s : State V) (names : List Name) (h : sepCplx s names = true) :
    ∀ n ∈ names, ∀ g ∈ s.same, ∀ m ∈ g, m ≠ n ++ "r" ∧ m ≠ n ++ "i" := by
  intro n hn g hg m hm
  unfold sepCplx at h
  simp only [List.all_eq_true] at h
  have := h n hn g hg m hm
  simpa using this

theorem GReal.mono {s t : State V} {g : List Name} (hd : ∀ n, dhas t.vars n = dhas s.vars n)
    (ht : ∀ n, n ∈ t.trainable → n ∈ s.trainable) (h : GReal s g) : GReal t g :=
  ⟨fun m hm => by rw [hd]; exact h.1 m hm, fun a ha b hb hta htb => h.2 a ha b hb (ht a hta) (ht b htb)⟩

theorem isCplxBase_congr {s t : State V} (hd : ∀ n, dhas t.vars n = dhas s.vars n) (n : Name) :
    isCplxBase t n = isCplxBase s n := by
  unfold isCplxBase; rw [hd, hd]

theorem GCplx.mono {s t : State V} {g : List Name} (hd : ∀ n, dhas t.vars n = dhas s.vars n)
    (ht : ∀ n, n ∈ t.trainable → n ∈ s.trainable) (h : GCplx s g) : GCplx t g := by
  refine ⟨fun m hm => by rw [isCplxBase_congr hd]; exact h.1 m hm, fun a ha b hb hta htb => h.2 a ha b hb ?_ ?_⟩
  · rcases hta with h' | h'
    · exact Or.inl (ht _ h')
    · exact Or.inr (ht _ h')
  · rcases htb with h' | h'
    · exact Or.inl (ht _ h')
    · exact Or.inr (ht _ h')

/-! ### what one `set_same` call does to the rest of the state (patched tree) -/

/-- the three lists the first loop of `set_same` produces -/
abbrev ssMerge (cfg : Cfg) (s : State V) (names : List Name) (cplx : Bool) : List (List Name) × List Name × List Name :=
  mergeLoop (ssInVars cfg s cplx) (ssHeadOf cfg s cplx) names (s.same, [], [])

theorem ssCore_same (s1 : State V) (cplx : Bool) (nn fol : List Name) : (ssCore s1 cplx nn fol).same = s1.same := by
  unfold ssCore; split <;> simp only [sameReal_same]

theorem ssCore_dhas (s1 : State V) (cplx : Bool) (nn fol : List Name) (n : Name) :
    dhas (ssCore s1 cplx nn fol).vars n = dhas s1.vars n := by
  unfold ssCore; split <;> simp only [sameReal_dhas]

theorem ssCore_tr_sub (s1 : State V) (cplx : Bool) (nn fol : List Name) (n : Name)
    (h : n ∈ (ssCore s1 cplx nn fol).trainable) : n ∈ s1.trainable := by
  unfold ssCore at h
  split at h
  · exact sameReal_tr_sub _ _ _ n (sameReal_tr_sub _ _ _ n h)
  · exact sameReal_tr_sub _ _ _ n h

theorem setSame_same (cfg : Cfg) (s : State V) (names : List Name) (cplx : Bool) :
    (setSame cfg s names cplx).1.same = (ssMerge cfg s names cplx).1 ++ [(setSame cfg s names cplx).2] := by
  unfold setSame ssMerge
  simp only [ssCore_same]

theorem setSame_dhas (cfg : Cfg) (s : State V) (names : List Name) (cplx : Bool) (n : Name) :
    dhas (setSame cfg s names cplx).1.vars n = dhas s.vars n := by
  unfold setSame
  simp only [ssCore_dhas]

theorem setSame_tr_sub (cfg : Cfg) (s : State V) (names : List Name) (cplx : Bool) (n : Name)
    (h : n ∈ (setSame cfg s names cplx).1.trainable) : n ∈ s.trainable := by
  unfold setSame at h
  simp only at h
  have h2 := ssCore_tr_sub _ _ _ _ n h
  exact h2

/-- every member of the resulting group is a listed name or a member of a merged group -/
theorem setSame_group_mem (cfg : Cfg) (hc : cfg.fixSame = true) (s : State V) (names : List Name) (cplx : Bool)
    (m : Name) (hm : m ∈ (setSame cfg s names cplx).2) :
    m ∈ names ∨ m ∈ (ssMerge cfg s names cplx).2.1 ∨ m ∈ (ssMerge cfg s names cplx).2.2 := by
  unfold setSame at hm
  simp only [hc, if_true] at hm
  rcases mem_final_group _ _ m hm with h | h
  · rw [mem_ssNewNames] at h
    rcases h with h | h
    · exact Or.inr (Or.inr h)
    · exact Or.inl h.1
  · rw [mem_ssNameList] at h
    rcases h with h | h
    · exact Or.inl h
    · exact Or.inr (Or.inl h)

/-- … and conversely the names `same_real` re-binds all belong to the resulting group -/
theorem mem_final_of (nn nl : List Name) (m : Name) (h : m ∈ nn ∨ m ∈ nl) :
    m ∈ nn ++ nl.filter (fun i => !(nn.contains i)) := by
  by_cases hn : m ∈ nn
  · exact List.mem_append.2 (Or.inl hn)
  · rcases h with h | h
    · exact absurd h hn
    · exact List.mem_append.2 (Or.inr (List.mem_filter.2 ⟨h, by simpa using hn⟩))

/-- a real tie re-binds only members of the resulting group -/
theorem setSame_cell_other_real (cfg : Cfg) (hc : cfg.fixSame = true) (s : State V) (names : List Name) (x : Name)
    (hx : x ∉ (setSame cfg s names false).2) : cellOf (setSame cfg s names false).1 x = cellOf s x := by
  unfold setSame at hx ⊢
  simp only [hc, if_true] at hx ⊢
  unfold ssCore
  simp only [Bool.false_eq_true, if_false]
  show cellOf (sameReal _ _ _) x = cellOf s x
  rw [sameReal_cell_other _ _ _ x (fun h => hx (mem_final_of _ _ x (Or.inl h))) (fun h => hx (mem_final_of _ _ x (Or.inr h)))]
  rfl

/-- a complex tie re-binds only the parts of members of the resulting group -/
theorem setSame_cell_other_cplx (cfg : Cfg) (hc : cfg.fixSame = true) (s : State V) (names : List Name) (x : Name)
    (hx : ∀ m ∈ (setSame cfg s names true).2, x ≠ m ++ "r" ∧ x ≠ m ++ "i") :
    cellOf (setSame cfg s names true).1 x = cellOf s x := by
  unfold setSame at hx ⊢
  simp only [hc, if_true] at hx ⊢
  unfold ssCore
  simp only [if_true]
  show cellOf (sameReal (sameReal _ _ _) _ _) x = cellOf s x
  have hnot : ∀ (suf : String) (l : List Name), (suf = "r" ∨ suf = "i") →
      (∀ m ∈ l, m ∈ ssNewNames names (ssMerge cfg s names true).2.1 (ssMerge cfg s names true).2.2 ∨
                m ∈ ssNameList names (ssMerge cfg s names true).2.1) → x ∉ l.map (· ++ suf) := by
    intro suf l hs hl hm
    obtain ⟨f, hf, e⟩ := List.mem_map.1 hm
    have := hx f (mem_final_of _ _ f (hl f hf))
    rcases hs with rfl | rfl
    · exact this.1 e.symm
    · exact this.2 e.symm
  rw [sameReal_cell_other _ _ _ x (hnot "i" _ (Or.inr rfl) (fun m h => Or.inl h)) (hnot "i" _ (Or.inr rfl) (fun m h => Or.inr h)),
      sameReal_cell_other _ _ _ x (hnot "r" _ (Or.inl rfl) (fun m h => Or.inl h)) (hnot "r" _ (Or.inl rfl) (fun m h => Or.inr h))]
  rfl

theorem append_right_cancel_name (a b : Name) (suf : String) (h : a ++ suf = b ++ suf) : a = b :=
  (String.append_left_inj suf).1 h

/-- facts about the first loop in a state that satisfies the invariant -/
theorem ssMerge_facts (cfg : Cfg) (s : State V) (hd : s.same.Pairwise GDisj) (names : List Name) (cplx : Bool) :
    (ssMerge cfg s names cplx).1.Pairwise GDisj ∧
    (∀ g ∈ (ssMerge cfg s names cplx).1, g ∈ s.same) ∧
    (∀ g ∈ (ssMerge cfg s names cplx).1, ∀ f ∈ (ssMerge cfg s names cplx).2.1, f ∉ g) ∧
    (∀ h ∈ (ssMerge cfg s names cplx).2.2, h ∈ (ssMerge cfg s names cplx).2.1) ∧
    (∀ g ∈ (ssMerge cfg s names cplx).1, ∀ n ∈ names, ssInVars cfg s cplx n = true → n ∉ g) ∧
    (∀ f ∈ (ssMerge cfg s names cplx).2.1, ∃ g ∈ s.same, f ∈ g) ∧
    (∀ g ∈ s.same, g ∈ (ssMerge cfg s names cplx).1 ∨ ∀ f ∈ g, f ∈ (ssMerge cfg s names cplx).2.1) := by
  obtain ⟨d1, d2, d3, d4, d5, _⟩ := mergeLoop_disj (ssInVars cfg s cplx) (ssHeadOf cfg s cplx)
    (fun g n hn => ssHeadOf_mem cfg s cplx g n hn) names s.same [] [] hd (fun _ _ f hf => by simp at hf)
    (fun h hh => by simp at hh) (ssMerge cfg s names cplx) rfl
  obtain ⟨f1, f2, _⟩ := ss_facts cfg s names cplx
  refine ⟨d1, f1, d2, d3, d4, ?_, d5⟩
  intro f hf
  obtain ⟨g, hg, _, hfg, _⟩ := f2 f hf
  exact ⟨g, hg, hfg⟩

/-! ### one tie call keeps `InvT` -/

theorem setSame_invT_real (cfg : Cfg) (hc : cfg.fixSame = true) (s : State V) (hi : InvT s) (names : List Name)
    (hok : tieOK s (.setSame names false) = true) (hsep : sepReal s names = true) :
    InvT (setSame cfg s names false).1 := by
  have hF := setSame_invF_real cfg hc s hi.invF names hok
  have hok' : ncOK s = true ∧ ∀ n ∈ names, dhas s.vars n = true := by
    simpa [tieOK, List.all_eq_true] using hok
  obtain ⟨hnc, hnames⟩ := hok'
  obtain ⟨m1, m2, m3, m4, m5, m6, _⟩ := ssMerge_facts cfg s hi.disj names false
  have hsp := sepReal_spec s names hsep
  have hdh := setSame_dhas cfg s names false
  have htr := setSame_tr_sub cfg s names false
  have hsame := setSame_same cfg s names false
  -- members of the new group
  have hmem : ∀ m ∈ (setSame cfg s names false).2, m ∈ names ∨ m ∈ (ssMerge cfg s names false).2.1 := by
    intro m hm
    rcases setSame_group_mem cfg hc s names false m hm with h | h | h
    · exact Or.inl h
    · exact Or.inr h
    · exact Or.inr (m4 m h)
  -- a kept group shares no name with the new group
  have hkeep : ∀ g ∈ (ssMerge cfg s names false).1, ∀ x ∈ g, x ∉ (setSame cfg s names false).2 := by
    intro g hg x hx hxf
    rcases hmem x hxf with h | h
    · exact m5 g hg x h (by simpa [ssInVars] using hnames x h) hx
    · exact m3 g hg x h hx
  -- the parts of a complex parameter of a group are not in the new group
  have hpart : ∀ g ∈ s.same, ∀ c ∈ g, isCplxBase s c = true →
      c ++ "r" ∉ (setSame cfg s names false).2 ∧ c ++ "i" ∉ (setSame cfg s names false).2 := by
    intro g hg c hcg hb
    constructor
    · intro hxf
      rcases hmem _ hxf with h | h
      · exact (hsp _ h g hg c hcg hb).1 rfl
      · obtain ⟨g', hg', hfg'⟩ := m6 _ h
        exact (hi.sep g' hg' g hg _ hfg' c hcg hb).1 rfl
    · intro hxf
      rcases hmem _ hxf with h | h
      · exact (hsp _ h g hg c hcg hb).2 rfl
      · obtain ⟨g', hg', hfg'⟩ := m6 _ h
        exact (hi.sep g' hg' g hg _ hfg' c hcg hb).2 rfl
  -- the new group is a group of bound real names
  have hnew_real : ∀ m ∈ (setSame cfg s names false).2, dhas s.vars m = true := by
    intro m hm
    rcases hmem m hm with h | h
    · exact hnames m h
    · obtain ⟨g, hg, n, hfg, hng, hin, _⟩ := (ss_facts cfg s names false).2.1 m h
      have : dhas s.vars n = true := by simpa [ssInVars] using hin
      exact (real_group_of_member s hnc g (hi.invF.groups g hg) n hng this).1 m hfg
  have hlast : (setSame cfg s names false).2 ∈ (setSame cfg s names false).1.same := by
    rw [hsame]; simp
  refine ⟨hF, ?_, ?_, ?_⟩
  · intro g hg
    rw [hsame] at hg
    rcases List.mem_append.1 hg with hg | hg
    · have hgs := m2 g hg
      rcases hi.tied g hgs with ⟨h1, h2⟩ | ⟨h1, h2⟩
      · left
        refine ⟨h1.mono hdh htr, ?_⟩
        intro a ha b hb
        rw [setSame_cell_other_real cfg hc s names a (hkeep g hg a ha),
            setSame_cell_other_real cfg hc s names b (hkeep g hg b hb)]
        exact h2 a ha b hb
      · right
        refine ⟨h1.mono hdh htr, ?_⟩
        intro a ha b hb
        have pa := hpart g hgs a ha (h1.1 a ha)
        have pb := hpart g hgs b hb (h1.1 b hb)
        rw [setSame_cell_other_real cfg hc s names _ pa.1, setSame_cell_other_real cfg hc s names _ pb.1,
            setSame_cell_other_real cfg hc s names _ pa.2, setSame_cell_other_real cfg hc s names _ pb.2]
        exact h2 a ha b hb
    · simp only [List.mem_singleton] at hg
      subst hg
      left
      constructor
      · rcases hF.groups _ hlast with h | h
        · exact h
        · refine ⟨fun m hm => by rw [hdh]; exact hnew_real m hm, ?_⟩
          intro a ha b hb _ _
          -- a group of bound real names cannot be a group of complex parameters unless it is empty
          have := h.1 a ha
          rw [isCplxBase_congr hdh] at this
          unfold isCplxBase at this
          rw [ncOK_spec s hnc a (hnew_real a ha)] at this
          simp at this
      · intro a ha b hb
        exact (setSame_ties_real cfg hc s hi.invF names hok a ha b hb).1
  · rw [hsame, List.pairwise_append]
    refine ⟨m1, by simp, ?_⟩
    intro g hg h hh
    simp only [List.mem_singleton] at hh
    subst hh
    exact fun x hx => hkeep g hg x hx
  · intro g1 hg1 g2 hg2 m hm c hcm hb
    rw [isCplxBase_congr hdh] at hb
    rw [hsame] at hg1 hg2
    rcases List.mem_append.1 hg2 with hg2 | hg2
    · rcases List.mem_append.1 hg1 with hg1 | hg1
      · exact hi.sep g1 (m2 g1 hg1) g2 (m2 g2 hg2) m hm c hcm hb
      · simp only [List.mem_singleton] at hg1
        subst hg1
        have := hpart g2 (m2 g2 hg2) c hcm hb
        exact ⟨fun e => this.1 (e ▸ hm), fun e => this.2 (e ▸ hm)⟩
    · simp only [List.mem_singleton] at hg2
      subst hg2
      -- a member of the new (real) group is a bound real name, not a complex parameter
      have := hnew_real c hcm
      unfold isCplxBase at hb
      rw [ncOK_spec s hnc c this] at hb
      simp at hb

theorem setSame_invT_cplx (cfg : Cfg) (hc : cfg.fixSame = true) (s : State V) (hi : InvT s) (names : List Name)
    (hok : tieOK s (.setSame names true) = true) (hsep : sepCplx s names = true) :
    InvT (setSame cfg s names true).1 := by
  have hF := setSame_invF_cplx cfg hc s hi.invF names hok
  have hok' : ncOK s = true ∧ ∀ n ∈ names, isCplxBase s n = true := by
    simpa [tieOK, List.all_eq_true] using hok
  obtain ⟨hnc, hnames⟩ := hok'
  obtain ⟨m1, m2, m3, m4, m5, m6, _⟩ := ssMerge_facts cfg s hi.disj names true
  have hsp := sepCplx_spec s names hsep
  have hdh := setSame_dhas cfg s names true
  have htr := setSame_tr_sub cfg s names true
  have hsame := setSame_same cfg s names true
  have hmem : ∀ m ∈ (setSame cfg s names true).2, m ∈ names ∨ m ∈ (ssMerge cfg s names true).2.1 := by
    intro m hm
    rcases setSame_group_mem cfg hc s names true m hm with h | h | h
    · exact Or.inl h
    · exact Or.inr h
    · exact Or.inr (m4 m h)
  have hkeep : ∀ g ∈ (ssMerge cfg s names true).1, ∀ x ∈ g, x ∉ (setSame cfg s names true).2 := by
    intro g hg x hx hxf
    rcases hmem x hxf with h | h
    · have : ssInVars cfg s true x = true := by
        have := (isCplxBase_iff s x).1 (hnames x h)
        simp [ssInVars, hc, this.1]
      exact m5 g hg x h this hx
    · exact m3 g hg x h hx
  -- the new group is a group of complex parameters
  have hnew_c : ∀ m ∈ (setSame cfg s names true).2, isCplxBase s m = true := by
    intro m hm
    rcases hmem m hm with h | h
    · exact hnames m h
    · obtain ⟨g, hg, n, hfg, hng, hin, _⟩ := (ss_facts cfg s names true).2.1 m h
      have : dhas s.vars (n ++ "r") = true := by simpa [ssInVars, hc] using hin
      exact (cplx_group_of_member s hnc g (hi.invF.groups g hg) n hng this).1 m hfg
  -- no member of any group is a part of a member of the new group
  have hpart : ∀ g ∈ s.same, ∀ x ∈ g, ∀ m ∈ (setSame cfg s names true).2, x ≠ m ++ "r" ∧ x ≠ m ++ "i" := by
    intro g hg x hx m hm
    rcases hmem m hm with h | h
    · exact hsp m h g hg x hx
    · obtain ⟨g', hg', hfg'⟩ := m6 m h
      exact hi.sep g hg g' hg' x hx m hfg' (hnew_c m hm)
  have hlast : (setSame cfg s names true).2 ∈ (setSame cfg s names true).1.same := by
    rw [hsame]; simp
  refine ⟨hF, ?_, ?_, ?_⟩
  · intro g hg
    rw [hsame] at hg
    rcases List.mem_append.1 hg with hg | hg
    · have hgs := m2 g hg
      rcases hi.tied g hgs with ⟨h1, h2⟩ | ⟨h1, h2⟩
      · left
        refine ⟨h1.mono hdh htr, ?_⟩
        intro a ha b hb
        rw [setSame_cell_other_cplx cfg hc s names a (hpart g hgs a ha),
            setSame_cell_other_cplx cfg hc s names b (hpart g hgs b hb)]
        exact h2 a ha b hb
      · right
        refine ⟨h1.mono hdh htr, ?_⟩
        intro a ha b hb
        have key : ∀ x ∈ g, ∀ (suf : String), (suf = "r" ∨ suf = "i") →
            ∀ m ∈ (setSame cfg s names true).2, x ++ suf ≠ m ++ "r" ∧ x ++ suf ≠ m ++ "i" := by
          intro x hx suf hs m hm
          have hne : x ≠ m := fun e => hkeep g hg x hx (e ▸ hm)
          rcases hs with rfl | rfl
          · exact ⟨fun e => hne (append_right_cancel_name _ _ _ e), append_r_ne_i x m⟩
          · exact ⟨fun e => append_r_ne_i m x e.symm, fun e => hne (append_right_cancel_name _ _ _ e)⟩
        rw [setSame_cell_other_cplx cfg hc s names _ (key a ha "r" (Or.inl rfl)),
            setSame_cell_other_cplx cfg hc s names _ (key b hb "r" (Or.inl rfl)),
            setSame_cell_other_cplx cfg hc s names _ (key a ha "i" (Or.inr rfl)),
            setSame_cell_other_cplx cfg hc s names _ (key b hb "i" (Or.inr rfl))]
        exact h2 a ha b hb
    · simp only [List.mem_singleton] at hg
      subst hg
      right
      constructor
      · rcases hF.groups _ hlast with h | h
        · refine ⟨fun m hm => by rw [isCplxBase_congr hdh]; exact hnew_c m hm, ?_⟩
          intro a ha b hb _ _
          have h1 := h.1 a ha
          rw [hdh] at h1
          have h2 := (isCplxBase_iff s a).1 (hnew_c a ha)
          rw [ncOK_spec s hnc a h1] at h2
          simp at h2
        · exact h
      · intro a ha b hb
        have := setSame_ties_cplx cfg hc s hi.invF names hok a ha b hb
        exact ⟨this.1, this.2.1⟩
  · rw [hsame, List.pairwise_append]
    refine ⟨m1, by simp, ?_⟩
    intro g hg h hh
    simp only [List.mem_singleton] at hh
    subst hh
    exact fun x hx => hkeep g hg x hx
  · intro g1 hg1 g2 hg2 m hm c hcm hb
    rw [isCplxBase_congr hdh] at hb
    rw [hsame] at hg1 hg2
    rcases List.mem_append.1 hg2 with hg2 | hg2
    · rcases List.mem_append.1 hg1 with hg1 | hg1
      · exact hi.sep g1 (m2 g1 hg1) g2 (m2 g2 hg2) m hm c hcm hb
      · simp only [List.mem_singleton] at hg1
        subst hg1
        -- `m` is a complex parameter; were it a part of `c` it would be a bound real name as well
        have hmc := (isCplxBase_iff s m).1 (hnew_c m hm)
        have hcc := (isCplxBase_iff s c).1 hb
        constructor
        · intro e
          have := ncOK_spec s hnc m (e ▸ hcc.1)
          rw [hmc.1] at this; simp at this
        · intro e
          have := ncOK_spec s hnc m (e ▸ hcc.2)
          rw [hmc.1] at this; simp at this
    · simp only [List.mem_singleton] at hg2
      subst hg2
      rcases List.mem_append.1 hg1 with hg1 | hg1
      · exact hpart g1 (m2 g1 hg1) m hm c hcm
      · simp only [List.mem_singleton] at hg1
        subst hg1
        have hmc := (isCplxBase_iff s m).1 (hnew_c m hm)
        have hcc := (isCplxBase_iff s c).1 hb
        constructor
        · intro e
          have := ncOK_spec s hnc m (e ▸ hcc.1)
          rw [hmc.1] at this; simp at this
        · intro e
          have := ncOK_spec s hnc m (e ▸ hcc.2)
          rw [hmc.1] at this; simp at this

theorem InvT.of_skel {s t : State V} (h : t.skel = s.skel) (hi : InvT s) : InvT t := by
  obtain ⟨h1, h2, h3, _⟩ := (skel_eq_iff t s).1 h
  have hd : ∀ n, dhas t.vars n = dhas s.vars n := fun n => by rw [h1]
  have ht : ∀ n, n ∈ t.trainable → n ∈ s.trainable := fun n hn => by rw [← h2]; exact hn
  have hcell : ∀ n, cellOf t n = cellOf s n := fun n => by unfold cellOf; rw [h1]
  refine ⟨InvF.of_skel h hi.invF, ?_, by rw [h3]; exact hi.disj, ?_⟩
  · intro g hg
    rw [h3] at hg
    rcases hi.tied g hg with ⟨a, b⟩ | ⟨a, b⟩
    · exact Or.inl ⟨a.mono hd ht, fun x hx y hy => by rw [hcell, hcell]; exact b x hx y hy⟩
    · exact Or.inr ⟨a.mono hd ht, fun x hx y hy => by
        rw [hcell, hcell, hcell, hcell]; exact b x hx y hy⟩
  · intro g1 hg1 g2 hg2 m hm c hc hb
    rw [h3] at hg1 hg2
    rw [isCplxBase_congr hd] at hb
    exact hi.sep g1 hg1 g2 hg2 m hm c hc hb

theorem InvT.of_same_nil {s : State V} (hF : InvF s) (h : s.same = []) : InvT s :=
  ⟨hF, fun g hg => by rw [h] at hg; simp at hg, by rw [h]; exact List.Pairwise.nil,
   fun g1 hg1 => by rw [h] at hg1; simp at hg1⟩

theorem sepReal_congr {s t : State V} (h : t.skel = s.skel) (names : List Name) : sepReal t names = sepReal s names := by
  obtain ⟨h1, _, h3, _⟩ := (skel_eq_iff t s).1 h
  unfold sepReal isCplxBase
  rw [h1, h3]

theorem setShareR_invT (A : Arith V) (cfg : Cfg) (hc : cfg.fixSame = true) (s : State V) (hi : InvT s)
    (names : List Name) (hok : tieOK s (.setShareR names) = true) (hsep : sepOK s (.setShareR names) = true) :
    InvT (step A cfg s (.setShareR names)).1 := by
  have hok' : ncOK s = true ∧ ∀ n ∈ names, isCplxBase s n = true := by
    simpa [tieOK, List.all_eq_true] using hok
  obtain ⟨hnc, hnames⟩ := hok'
  simp only [sepOK] at hsep
  simp only [step]
  have hx := forNames_skel (xy2rp A) (xy2rp_skel A) s (if names.isEmpty then dkeys s.cplx else names)
  revert hx
  cases forNames (xy2rp A) s (if names.isEmpty then dkeys s.cplx else names) with
  | mk s1 ok =>
    intro hx
    have h1 : InvT s1 := InvT.of_skel hx hi
    have hv1 : s1.vars = s.vars := ((skel_eq_iff s1 s).1 hx).1
    cases ok
    · exact h1
    · simp only
      have hx2 : ({ s1 with polar := true } : State V).skel = s.skel := hx
      have h2 : InvT ({ s1 with polar := true } : State V) := InvT.of_skel (s := s1) rfl h1
      have hok2 : tieOK ({ s1 with polar := true } : State V) (.setSame (names.map (· ++ "r")) false) = true := by
        have e : ncOK ({ s1 with polar := true } : State V) = true := by
          rw [ncOK_of_vars (s := s) (t := ({ s1 with polar := true } : State V)) hv1]; exact hnc
        simp only [tieOK, e, Bool.true_and, List.all_eq_true, Bool.false_eq_true, if_false]
        intro x hx'
        obtain ⟨f, hf, rfl⟩ := List.mem_map.1 hx'
        show dhas s1.vars (f ++ "r") = true
        rw [hv1]
        exact ((isCplxBase_iff s f).1 (hnames f hf)).1
      have hsep2 : sepReal ({ s1 with polar := true } : State V) (names.map (· ++ "r")) = true := by
        rw [sepReal_congr hx2]; exact hsep
      exact InvT.of_skel (s := (setSame cfg { s1 with polar := true } (names.map (· ++ "r")) false).1) rfl
        (setSame_invT_real cfg hc _ h2 _ hok2 hsep2)

/-- one call in phase order keeps the full invariant of the patched tree -/
theorem step_invT (A : Arith V) (cfg : Cfg) (hc : cfg.fixSame = true) (s : State V) (op : Op V) (p p' : Nat)
    (hp : nextPhase p op = some p') (hn : tieOK s op = true) (hs : sepOK s op = true) (hi : InvT s)
    (hj : p ≤ 1 → Inj s ∧ s.same = []) :
    InvT (step A cfg s op).1 ∧ (p' ≤ 1 → Inj (step A cfg s op).1 ∧ (step A cfg s op).1.same = []) := by
  obtain ⟨hF', hj'⟩ := step_invF A cfg hc s op p p' hp hn hi.invF hj
  refine ⟨?_, hj'⟩
  by_cases hst : structural op = false
  · exact InvT.of_skel (step_skel A cfg s op hst) hi
  · cases op <;> simp only [structural, Bool.true_eq_false, not_true_eq_false, not_false_eq_true] at hst
    case addReal name val hasInit tr =>
      simp only [nextPhase] at hp
      split at hp
      · injection hp with hp
        exact InvT.of_same_nil hF' (hj' (by omega)).2
      · exact absurd hp (by simp)
    case addComplex name pol tr v1 v2 =>
      simp only [nextPhase] at hp
      split at hp
      · injection hp with hp
        exact InvT.of_same_nil hF' (hj' (by omega)).2
      · exact absurd hp (by simp)
    case setFix name val unfix =>
      simp only [nextPhase] at hp
      split at hp
      · injection hp with hp
        exact InvT.of_same_nil hF' (hj' (by omega)).2
      · exact absurd hp (by simp)
    case setSame names cplx =>
      cases cplx
      · exact setSame_invT_real cfg hc s hi names hn (by simpa [sepOK] using hs)
      · exact setSame_invT_cplx cfg hc s hi names hn (by simpa [sepOK] using hs)
    case setShareR names =>
      exact setShareR_invT A cfg hc s hi names hn hs

theorem run_invT (A : Arith V) (cfg : Cfg) (hc : cfg.fixSame = true) (ops : List (Op V)) :
    ∀ (p : Nat) (s : State V), wellPhasedFrom p ops = true → wellNamedFrom A cfg s ops = true →
      wellSepFrom A cfg s ops = true → InvT s → (p ≤ 1 → Inj s ∧ s.same = []) → InvT (run A cfg s ops) := by
  induction ops with
  | nil => intro p s _ _ _ hi _; exact hi
  | cons op ops ih =>
    intro p s hw hn hs hi hj
    simp only [wellPhasedFrom] at hw
    simp only [wellNamedFrom, Bool.and_eq_true] at hn
    simp only [wellSepFrom, Bool.and_eq_true] at hs
    simp only [run]
    cases hp : nextPhase p op with
    | none => rw [hp] at hw; exact absurd hw (by simp)
    | some p' =>
      rw [hp] at hw
      obtain ⟨h1, h2⟩ := step_invT A cfg hc s op p p' hp hn.1 hs.1 hi hj
      exact ih p' _ hw hn.2 hs.2 h1 h2

theorem empty_invT (d : V) (pol : Bool) : InvT (State.empty d pol) :=
  InvT.of_same_nil (empty_invF d pol) rfl

/-- a group of the state before a `set_same` call is kept or swallowed by the new group: ties only grow -/
theorem setSame_groups_grow (cfg : Cfg) (hc : cfg.fixSame = true) (s : State V) (hd : s.same.Pairwise GDisj)
    (names : List Name) (cplx : Bool) :
    ∀ g ∈ s.same, ∃ g' ∈ (setSame cfg s names cplx).1.same, ∀ f ∈ g, f ∈ g' := by
  intro g hg
  obtain ⟨_, _, _, _, _, _, m7⟩ := ssMerge_facts cfg s hd names cplx
  rw [setSame_same]
  rcases m7 g hg with h | h
  · exact ⟨g, List.mem_append.2 (Or.inl h), fun f hf => hf⟩
  · refine ⟨_, List.mem_append.2 (Or.inr (List.mem_singleton.2 rfl)), ?_⟩
    intro f hf
    have hft := h f hf
    unfold setSame
    simp only [hc, if_true]
    exact mem_final_of _ _ f (Or.inr ((mem_ssNameList _ _ _).2 (Or.inr hft)))

end TfPwaV.Vars
