import Mathlib.LinearAlgebra.UnitaryGroup
import Mathlib.LinearAlgebra.Matrix.Kronecker
import Mathlib.Analysis.Complex.Basic
/-!
Shared lemma (DESIGN §1.7): mixing the helicity indices of EVERY chain amplitude with the SAME unitary matrix
leaves the helicity-summed density `Σ_λ |Σ_k A_k[λ]|²` unchanged.  Arbitrary finite index types; used by C01
(frame independence: a common rotation acts by one `D^J(R)` on each external helicity index) and C02 (alignment
conventions: a change of reference chain acts by one common `D^{j}(G)` on each final-state helicity index).
-/
open Matrix BigOperators
open scoped Kronecker
namespace TfPwaV.UnitaryMix

theorem normSq_sum_eq {ι : Type} [Fintype ι] (w : ι → ℂ) :
    (∑ l, Complex.normSq (w l) : ℝ) = (star w ⬝ᵥ w).re := by
  simp only [dotProduct, Pi.star_apply, Complex.re_sum]
  refine Finset.sum_congr rfl fun l _ => ?_
  rw [Complex.star_def, ← Complex.normSq_eq_conj_mul_self]
  simp

/-- density of a coherent sum of chain amplitudes `A k : ι → ℂ` (ι = all helicity configurations) -/
def density {ι κ : Type} [Fintype ι] [Fintype κ] (A : κ → ι → ℂ) : ℝ :=
  ∑ l, Complex.normSq (∑ k, A k l)

theorem density_nonneg {ι κ : Type} [Fintype ι] [Fintype κ] (A : κ → ι → ℂ) : 0 ≤ density A :=
  Finset.sum_nonneg fun _ _ => Complex.normSq_nonneg _

/-- **unitary mixing**: the same unitary applied to every chain leaves the density unchanged -/
theorem unitary_mix {ι κ : Type} [Fintype ι] [DecidableEq ι] [Fintype κ]
    (U : Matrix ι ι ℂ) (hU : star U * U = 1) (A : κ → ι → ℂ) :
    density (fun k => U *ᵥ A k) = density A := by
  unfold density
  have h1 : (fun l => ∑ k, (U *ᵥ A k) l) = U *ᵥ (fun l => ∑ k, A k l) := by
    funext l
    simp only [mulVec, dotProduct, Finset.mul_sum]
    rw [Finset.sum_comm]
  rw [normSq_sum_eq, normSq_sum_eq, h1, star_mulVec, dotProduct_mulVec, vecMul_vecMul]
  rw [show Uᴴ * U = 1 from hU, vecMul_one]

/-- the Kronecker product of unitaries is unitary: independent mixing of two helicity indices
(e.g. parent helicity and one final-state helicity, or two final-state helicities) is again a unitary mixing -/
theorem kron_unitary {ι ι' : Type} [Fintype ι] [DecidableEq ι] [Fintype ι'] [DecidableEq ι']
    (U : Matrix ι ι ℂ) (V : Matrix ι' ι' ℂ) (hU : star U * U = 1) (hV : star V * V = 1) :
    star (kroneckerMap (· * ·) U V) * kroneckerMap (· * ·) U V = 1 := by
  have hs : star (kroneckerMap (· * ·) U V) = kroneckerMap (· * ·) (star U) (star V) := by
    ext ⟨i, i'⟩ ⟨j, j'⟩
    simp [star_apply, kroneckerMap_apply]
  rw [hs]
  change (star U ⊗ₖ star V) * (U ⊗ₖ V) = 1
  rw [← mul_kronecker_mul, hU, hV, one_kronecker_one]

/-- corollary: two independent unitary mixings on a product index -/
theorem unitary_mix_two {ι ι' κ : Type} [Fintype ι] [DecidableEq ι] [Fintype ι'] [DecidableEq ι'] [Fintype κ]
    (U : Matrix ι ι ℂ) (V : Matrix ι' ι' ℂ) (hU : star U * U = 1) (hV : star V * V = 1)
    (A : κ → ι × ι' → ℂ) :
    density (fun k => kroneckerMap (· * ·) U V *ᵥ A k) = density A :=
  unitary_mix _ (kron_unitary U V hU hV) A

/-- a permutation of the chain list does not change the density (the coherent sum is commutative) -/
theorem density_perm {ι κ : Type} [Fintype ι] [Fintype κ] (σ : Equiv.Perm κ) (A : κ → ι → ℂ) :
    density (fun k => A (σ k)) = density A := by
  unfold density
  refine Finset.sum_congr rfl fun l _ => ?_
  rw [Equiv.sum_comp σ (fun k => A k l)]

end TfPwaV.UnitaryMix
