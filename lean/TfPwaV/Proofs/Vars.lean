import TfPwaV.Model.Vars
/-! Helper lemmas for C16 about the `VarsManager` state machine (core Lean only). -/
namespace TfPwaV.Vars

variable {V : Type}

/-! ### insertion-ordered dicts -/

theorem dget_dset_self {β : Type} (d : Dict β) (k : Name) (v : β) : dget (dset d k v) k = some v := by
  induction d with
  | nil => simp [dset, dget]
  | cons h t ih =>
    obtain ⟨k', v'⟩ := h
    by_cases hk : k' = k
    · simp [dset, dget, hk]
    · simp [dset, dget, hk, ih]

theorem dget_dset_ne {β : Type} (d : Dict β) (k k' : Name) (v : β) (h : k' ≠ k) :
    dget (dset d k v) k' = dget d k' := by
  induction d with
  | nil => simp [dset, dget, Ne.symm h]
  | cons hd t ih =>
    obtain ⟨k0, v0⟩ := hd
    by_cases hk : k0 = k
    · subst hk
      simp [dset, dget, Ne.symm h]
    · by_cases hk' : k0 = k'
      · subst hk'
        simp [dset, dget, hk]
      · simp [dset, dget, hk, hk', ih]

theorem dhas_dset {β : Type} (d : Dict β) (k k' : Name) (v : β) :
    dhas (dset d k v) k' = (decide (k' = k) || dhas d k') := by
  unfold dhas
  by_cases h : k' = k
  · subst h; simp [dget_dset_self]
  · simp [dget_dset_ne _ _ _ _ h, h]

/-! ### heap writes do not touch the bindings -/

@[simp] theorem assign_vars (s : State V) (c : Nat) (v : V) : (assign s c v).vars = s.vars := rfl
@[simp] theorem assign_trainable (s : State V) (c : Nat) (v : V) : (assign s c v).trainable = s.trainable := rfl
@[simp] theorem assign_same (s : State V) (c : Nat) (v : V) : (assign s c v).same = s.same := rfl
@[simp] theorem assign_next (s : State V) (c : Nat) (v : V) : (assign s c v).next = s.next := rfl

@[simp] theorem assignN_vars (s : State V) (n : Name) (v : V) : (assignN s n v).vars = s.vars := by
  unfold assignN; split <;> simp
@[simp] theorem assignN_trainable (s : State V) (n : Name) (v : V) : (assignN s n v).trainable = s.trainable := by
  unfold assignN; split <;> simp
@[simp] theorem assignN_same (s : State V) (n : Name) (v : V) : (assignN s n v).same = s.same := by
  unfold assignN; split <;> simp
@[simp] theorem assignN_next (s : State V) (n : Name) (v : V) : (assignN s n v).next = s.next := by
  unfold assignN; split <;> simp

@[simp] theorem setV_vars (A : Arith V) (s : State V) (n : Name) (v : V) (b : Bool) : (setV A s n v b).vars = s.vars := by
  unfold setV; simp
@[simp] theorem setV_trainable (A : Arith V) (s : State V) (n : Name) (v : V) (b : Bool) :
    (setV A s n v b).trainable = s.trainable := by
  unfold setV; simp
@[simp] theorem setV_same (A : Arith V) (s : State V) (n : Name) (v : V) (b : Bool) : (setV A s n v b).same = s.same := by
  unfold setV; simp
@[simp] theorem setV_next (A : Arith V) (s : State V) (n : Name) (v : V) (b : Bool) : (setV A s n v b).next = s.next := by
  unfold setV; simp

/-- the part of the state that the constraint invariants talk about -/
structure Skel where
  vars : Dict Nat
  trainable : List Name
  same : List (List Name)
  next : Nat

def State.skel (s : State V) : Skel := ⟨s.vars, s.trainable, s.same, s.next⟩

theorem skel_eq_iff (s t : State V) :
    s.skel = t.skel ↔ s.vars = t.vars ∧ s.trainable = t.trainable ∧ s.same = t.same ∧ s.next = t.next := by
  unfold State.skel
  constructor
  · intro h; injection h with h1 h2 h3 h4; exact ⟨h1, h2, h3, h4⟩
  · rintro ⟨h1, h2, h3, h4⟩; rw [h1, h2, h3, h4]

@[simp] theorem assign_skel (s : State V) (c : Nat) (v : V) : (assign s c v).skel = s.skel := rfl
@[simp] theorem assignN_skel (s : State V) (n : Name) (v : V) : (assignN s n v).skel = s.skel := by
  unfold assignN; split <;> simp
@[simp] theorem setV_skel (A : Arith V) (s : State V) (n : Name) (v : V) (b : Bool) : (setV A s n v b).skel = s.skel := by
  unfold setV; simp

theorem foldl_skel {α : Type} (f : State V → α → State V) (hf : ∀ s a, (f s a).skel = s.skel) (l : List α) (s : State V) :
    (l.foldl f s).skel = s.skel := by
  induction l generalizing s with
  | nil => rfl
  | cons a t ih => rw [List.foldl_cons, ih, hf]

theorem setAllDict_skel (A : Arith V) (s : State V) (d : Dict V) (b : Bool) : (setAllDict A s d b).skel = s.skel := by
  unfold setAllDict
  exact foldl_skel _ (fun s a => by simp) d s

theorem setAllListAux_skel (A : Arith V) (b : Bool) (s : State V) (ns : List Name) (vs : List V) :
    (setAllListAux A b s ns vs).1.skel = s.skel := by
  induction ns generalizing s vs with
  | nil => simp [setAllListAux]
  | cons n ns ih =>
    cases vs with
    | nil => simp [setAllListAux]
    | cons v vs => simp [setAllListAux, ih]

theorem setAllList_skel (A : Arith V) (s : State V) (l : List V) (b : Bool) : (setAllList A s l b).1.skel = s.skel :=
  setAllListAux_skel A b s s.trainable l

theorem spreadFlag_skel (s : State V) (n : Name) (f : Bool) : (spreadFlag s n f).skel = s.skel := by
  unfold spreadFlag; split <;> rfl

theorem rp2xy_skel (A : Arith V) (s : State V) (n : Name) : (rp2xy A s n).1.skel = s.skel := by
  unfold rp2xy
  split
  · rfl
  · split
    · rfl
    · split
      · simp only [spreadFlag_skel]; rfl
      · rfl

theorem xy2rp_skel (A : Arith V) (s : State V) (n : Name) : (xy2rp A s n).1.skel = s.skel := by
  unfold xy2rp
  split
  · rfl
  · split
    · rfl
    · split
      · simp only [spreadFlag_skel]; rfl
      · rfl

theorem forNames_skel (f : State V → Name → State V × Bool) (hf : ∀ s n, (f s n).1.skel = s.skel)
    (s : State V) (l : List Name) : (forNames f s l).1.skel = s.skel := by
  induction l generalizing s with
  | nil => rfl
  | cons n t ih =>
    unfold forNames
    have h := hf s n
    revert h
    cases hfs : f s n with
    | mk s1 ok =>
      intro h
      cases ok
      · exact h
      · simp only; rw [ih]; exact h

theorem stdPolar_skel (A : Arith V) (cfg : Cfg) (s : State V) (n : Name) : (stdPolar A cfg s n).1.skel = s.skel := by
  unfold stdPolar
  have h := xy2rp_skel A s n
  revert h
  cases hx : xy2rp A s n with
  | mk s1 ok =>
    intro h
    cases ok
    · exact h
    · simp only
      split
      · simp only
        rw [← h]
        split <;> split <;> rfl
      · exact h

theorem standardComplex_skel (A : Arith V) (cfg : Cfg) (s : State V) (bd : List Name) :
    (standardComplex A cfg s bd).1.skel = s.skel := by
  unfold standardComplex
  apply forNames_skel
  intro s k
  split
  · simp only
    split
    · rfl
    · exact stdPolar_skel A cfg s k
  · rfl

@[simp] theorem assignIfFree_skel (s : State V) (n : Name) (v : V) : (assignIfFree s n v).skel = s.skel := by
  unfold assignIfFree; split <;> simp

theorem refreshCplx_skel (s : State V) (a b c : V) : (refreshCplx s a b c).skel = s.skel := by
  unfold refreshCplx
  apply foldl_skel
  intro s kv
  split <;> simp

theorem refresh_skel (A : Arith V) (s : State V) (vxy vr vp u chi z : V) (i : Option (Dict (InitSpec V)))
    (b : Option (Dict (Option V × Option V))) : (refresh A s vxy vr vp u chi z i b).skel = s.skel := by
  unfold refresh refreshBound refreshInit
  simp only
  rw [foldl_skel, foldl_skel, refreshCplx_skel]
  · intro s kv
    split <;> simp
  · intro s kv
    split
    · rfl
    · split <;> simp

/-! ### frame: which heap cells a call can write -/

/-- `t` has the bindings of `s` and the same content in cell `c` -/
def HF (c : Nat) (s t : State V) : Prop := t.skel = s.skel ∧ t.heap c = s.heap c

theorem HF.refl (c : Nat) (s : State V) : HF c s s := ⟨rfl, rfl⟩
theorem HF.trans {c : Nat} {s t u : State V} (h1 : HF c s t) (h2 : HF c t u) : HF c s u :=
  ⟨h2.1.trans h1.1, h2.2.trans h1.2⟩

theorem HF.cell_eq {c : Nat} {s t : State V} (h : HF c s t) (n : Name) : cellOf t n = cellOf s n := by
  have := ((skel_eq_iff t s).1 h.1).1
  unfold cellOf; rw [this]
theorem HF.tr_eq {c : Nat} {s t : State V} (h : HF c s t) : t.trainable = s.trainable :=
  ((skel_eq_iff t s).1 h.1).2.1

theorem HF.read_eq {c : Nat} {s t : State V} (h : HF c s t) (n : Name) (hn : cellOf s n = some c) :
    readN t n = readN s n := by
  unfold readN
  rw [h.cell_eq n, hn]
  simp [h.2]

theorem HF_assign (c c' : Nat) (s : State V) (v : V) (h : c' ≠ c) : HF c s (assign s c' v) := by
  refine ⟨rfl, ?_⟩
  simp [assign, upd, Ne.symm h]

theorem HF_assignN (c : Nat) (s : State V) (n : Name) (v : V) (h : cellOf s n ≠ some c) : HF c s (assignN s n v) := by
  unfold assignN
  split
  · next c' hc' =>
    apply HF_assign
    intro e; apply h; rw [hc', e]
  · exact HF.refl c s

theorem HF_setV (A : Arith V) (c : Nat) (s : State V) (n : Name) (v : V) (b : Bool) (h : cellOf s n ≠ some c) :
    HF c s (setV A s n v b) := by
  unfold setV
  exact HF_assignN c s n _ h

theorem HF_foldl {α : Type} (c : Nat) (f : State V → α → State V) (P : State V → α → Prop)
    (hP : ∀ s t a, HF c s t → P s a → P t a)
    (hf : ∀ s a, P s a → HF c s (f s a)) (l : List α) (s : State V) (hl : ∀ a ∈ l, P s a) :
    HF c s (l.foldl f s) := by
  induction l generalizing s with
  | nil => exact HF.refl c s
  | cons a t ih =>
    rw [List.foldl_cons]
    have h1 := hf s a (hl a (by simp))
    refine HF.trans h1 (ih (f s a) ?_)
    intro b hb
    exact hP s (f s a) b h1 (hl b (by simp [hb]))

theorem HF_setAllDict (A : Arith V) (c : Nat) (s : State V) (d : Dict V) (b : Bool)
    (h : ∀ kv ∈ d, cellOf s kv.1 ≠ some c) : HF c s (setAllDict A s d b) := by
  unfold setAllDict
  apply HF_foldl c _ (fun s kv => cellOf s kv.1 ≠ some c)
  · intro s t a hst hp; rw [hst.cell_eq]; exact hp
  · intro s a hp; exact HF_setV A c s a.1 a.2 b hp
  · exact h

theorem HF_setAllListAux (A : Arith V) (c : Nat) (b : Bool) (s : State V) (ns : List Name) (vs : List V)
    (h : ∀ n ∈ ns, cellOf s n ≠ some c) : HF c s (setAllListAux A b s ns vs).1 := by
  induction ns generalizing s vs with
  | nil => simp [setAllListAux]; exact HF.refl c s
  | cons n ns ih =>
    cases vs with
    | nil => simp [setAllListAux]; exact HF.refl c s
    | cons v vs =>
      simp only [setAllListAux]
      have h1 := HF_setV A c s n v b (h n (by simp))
      refine HF.trans h1 (ih _ _ ?_)
      intro m hm
      rw [h1.cell_eq]
      exact h m (by simp [hm])

/-- no free name is bound to cell `c` -/
def FixedCell (s : State V) (c : Nat) : Prop := ∀ t ∈ s.trainable, cellOf s t ≠ some c

theorem FixedCell.of_HF {c : Nat} {s t : State V} (h : HF c s t) (hf : FixedCell s c) : FixedCell t c := by
  intro n hn
  rw [h.cell_eq]
  exact hf n (by rw [← h.tr_eq]; exact hn)

theorem HF_setAllList (A : Arith V) (c : Nat) (s : State V) (l : List V) (b : Bool) (h : FixedCell s c) :
    HF c s (setAllList A s l b).1 :=
  HF_setAllListAux A c b s s.trainable l h

theorem HF_assignIfFree (c : Nat) (s : State V) (n : Name) (v : V) (h : FixedCell s c) :
    HF c s (assignIfFree s n v) := by
  unfold assignIfFree
  split
  · next hm => exact HF_assignN c s n v (h n hm)
  · exact HF.refl c s

theorem HF_assignIfFree2 (c : Nat) (s : State V) (n m : Name) (v w : V) (h : FixedCell s c) :
    HF c s (assignIfFree (assignIfFree s n v) m w) := by
  have h1 := HF_assignIfFree c s n v h
  exact HF.trans h1 (HF_assignIfFree c _ m w (h.of_HF h1))

theorem HF_refreshCplx (c : Nat) (s : State V) (x y z : V) (h : FixedCell s c) : HF c s (refreshCplx s x y z) := by
  unfold refreshCplx
  apply HF_foldl c _ (fun s _ => FixedCell s c)
  · intro s t a hst hp; exact hp.of_HF hst
  · intro s kv hp
    split
    · exact HF_assignIfFree2 c s _ _ _ _ hp
    · exact HF_assignIfFree2 c s _ _ _ _ hp
  · intro a _; exact h

theorem HF_refresh (A : Arith V) (c : Nat) (s : State V) (vxy vr vp u chi z : V) (i : Option (Dict (InitSpec V)))
    (b : Option (Dict (Option V × Option V))) (h : FixedCell s c) :
    HF c s (refresh A s vxy vr vp u chi z i b) := by
  unfold refresh
  simp only
  have h1 := HF_refreshCplx c s vxy vr vp h
  have h2 : ∀ iv, HF c (refreshCplx s vxy vr vp) (refreshInit A z (refreshCplx s vxy vr vp) iv) := by
    intro iv
    unfold refreshInit
    apply HF_foldl c _ (fun s _ => FixedCell s c)
    · intro s t a hst hp; exact hp.of_HF hst
    · intro s kv hp
      split
      · exact HF.refl c s
      · exact HF_assignIfFree c s _ _ hp
      · exact HF_assignIfFree c s _ _ hp
    · intro a _; exact h.of_HF h1
  generalize hiv : (i.getD (s.initVal.map fun kv => ((kv.1, ⟨some (kv.2, none)⟩) : Name × InitSpec V))) = iv
  refine HF.trans h1 (HF.trans (h2 iv) ?_)
  unfold refreshBound
  apply HF_foldl c _ (fun s _ => FixedCell s c)
  · intro s t a hst hp; exact hp.of_HF hst
  · intro s kv hp
    split
    · exact HF.refl c s
    · split
      · exact HF_assignIfFree c s _ _ hp
      · exact HF_assignIfFree c s _ _ hp
      · exact HF_assignIfFree c s _ _ hp
      · exact HF.refl c s
  · intro a _; exact (h.of_HF h1).of_HF (h2 iv)

/-! ### the constraint invariant -/

/-- what must hold of the bookkeeping after every call -/
structure Inv (s : State V) : Prop where
  /-- the free-parameter list has no duplicates -/
  nodup : s.trainable.Nodup
  /-- every free name is bound -/
  sub : ∀ n ∈ s.trainable, dhas s.vars n = true
  /-- cell ids are allocated below `next` -/
  fresh : ∀ n c, dget s.vars n = some c → c < s.next
  /-- two different free names are never bound to the same variable object:
  a tie group contributes at most one free parameter -/
  once : ∀ a ∈ s.trainable, ∀ b ∈ s.trainable, a ≠ b → cellOf s a ≠ cellOf s b

/-- before any tie: different names are bound to different objects -/
def Inj (s : State V) : Prop :=
  ∀ a b ca cb, a ≠ b → dget s.vars a = some ca → dget s.vars b = some cb → ca ≠ cb

theorem Inv.of_skel {s t : State V} (h : t.skel = s.skel) (hi : Inv s) : Inv t := by
  obtain ⟨h1, h2, _, h4⟩ := (skel_eq_iff t s).1 h
  constructor
  · rw [h2]; exact hi.nodup
  · intro n hn; rw [h1]; exact hi.sub n (by rw [← h2]; exact hn)
  · intro n c hc; rw [h4]; exact hi.fresh n c (by rw [← h1]; exact hc)
  · intro a ha b hb hab
    unfold cellOf; rw [h1]
    exact hi.once a (by rw [← h2]; exact ha) b (by rw [← h2]; exact hb) hab

theorem Inj.of_skel {s t : State V} (h : t.skel = s.skel) (hi : Inj s) : Inj t := by
  obtain ⟨h1, _, _, _⟩ := (skel_eq_iff t s).1 h
  unfold Inj; rw [h1]; exact hi

theorem dhas_iff {β : Type} (d : Dict β) (k : Name) : dhas d k = true ↔ ∃ v, dget d k = some v := by
  unfold dhas
  cases dget d k <;> simp

theorem addRealVar_tr (s : State V) (hi : Inv s) (name : Name) :
    (if dhas s.vars name then (if name ∈ s.trainable then s.trainable.erase name else s.trainable)
      else s.trainable) = s.trainable.erase name := by
  by_cases hm : name ∈ s.trainable
  · simp [hm, hi.sub name hm]
  · simp [hm, List.erase_of_not_mem hm]

theorem addRealVar_inv (s : State V) (hi : Inv s) (hj : Inj s) (name : Name) (val : V) (hasInit tr : Bool) :
    Inv (addRealVar s name val hasInit tr) ∧ Inj (addRealVar s name val hasInit tr) := by
  have hv : (addRealVar s name val hasInit tr).vars = dset s.vars name s.next := rfl
  have ht : (addRealVar s name val hasInit tr).trainable =
      if tr then s.trainable.erase name ++ [name] else s.trainable.erase name := by
    unfold addRealVar
    simp only [addRealVar_tr s hi name]
  have hn : (addRealVar s name val hasInit tr).next = s.next + 1 := rfl
  have hnot : name ∉ s.trainable.erase name := hi.nodup.not_mem_erase
  have hsub : ∀ n, n ∈ s.trainable.erase name → n ∈ s.trainable := fun n h => List.mem_of_mem_erase h
  have hmem : ∀ n, n ∈ (addRealVar s name val hasInit tr).trainable → n = name ∨ (n ≠ name ∧ n ∈ s.trainable) := by
    intro n h
    rw [ht] at h
    by_cases hnn : n = name
    · exact Or.inl hnn
    · right
      refine ⟨hnn, ?_⟩
      cases tr
      · exact hsub n (by simpa using h)
      · simp only [if_true, List.mem_append, List.mem_singleton] at h
        rcases h with h | h
        · exact hsub n h
        · exact absurd h hnn
  have hcell : ∀ n, n ≠ name → cellOf (addRealVar s name val hasInit tr) n = cellOf s n := by
    intro n h; unfold cellOf; rw [hv]; exact dget_dset_ne _ _ _ _ h
  have hcell0 : cellOf (addRealVar s name val hasInit tr) name = some s.next := by
    unfold cellOf; rw [hv]; exact dget_dset_self _ _ _
  have hlt : ∀ n, n ∈ s.trainable → cellOf s n ≠ some s.next := by
    intro n h e
    have := hi.fresh n s.next e
    omega
  refine ⟨⟨?_, ?_, ?_, ?_⟩, ?_⟩
  · rw [ht]
    cases tr
    · exact hi.nodup.erase name
    · simp only [if_true]
      rw [List.nodup_append]
      refine ⟨hi.nodup.erase name, by simp, ?_⟩
      intro a ha b hb
      simp only [List.mem_singleton] at hb
      subst hb
      intro e; subst e; exact hnot ha
  · intro n h
    rw [hv, dhas_dset]
    rcases hmem n h with h | ⟨_, h⟩
    · simp [h]
    · simp [hi.sub n h]
  · intro n c hc
    rw [hv] at hc
    rw [hn]
    by_cases hnn : n = name
    · subst hnn; rw [dget_dset_self] at hc; injection hc with hc; omega
    · rw [dget_dset_ne _ _ _ _ hnn] at hc
      have := hi.fresh n c hc; omega
  · intro a ha b hb hab
    rcases hmem a ha with ha' | ⟨han, ha'⟩ <;> rcases hmem b hb with hb' | ⟨hbn, hb'⟩
    · exact absurd (ha'.trans hb'.symm) hab
    · rw [ha', hcell0, hcell b hbn]; exact fun e => hlt b hb' e.symm
    · rw [hb', hcell0, hcell a han]; exact hlt a ha'
    · rw [hcell a han, hcell b hbn]; exact hi.once a ha' b hb' hab
  · intro a b ca cb hab ha hb
    rw [hv] at ha hb
    by_cases han : a = name <;> by_cases hbn : b = name
    · exact absurd (han.trans hbn.symm) hab
    · subst han; rw [dget_dset_self] at ha; rw [dget_dset_ne _ _ _ _ hbn] at hb
      injection ha with ha; have := hi.fresh b cb hb; omega
    · subst hbn; rw [dget_dset_self] at hb; rw [dget_dset_ne _ _ _ _ han] at ha
      injection hb with hb; have := hi.fresh a ca ha; omega
    · rw [dget_dset_ne _ _ _ _ han] at ha; rw [dget_dset_ne _ _ _ _ hbn] at hb
      exact hj a b ca cb hab ha hb

theorem addComplexVar_inv (s : State V) (hi : Inv s) (hj : Inj s) (name : Name) (pol : Option Bool) (tr : Bool)
    (v1 v2 : V) : Inv (addComplexVar s name pol tr v1 v2) ∧ Inj (addComplexVar s name pol tr v1 v2) := by
  obtain ⟨h1, j1⟩ := addRealVar_inv s hi hj (name ++ "r") v1 (!tr) tr
  obtain ⟨h2, j2⟩ := addRealVar_inv _ h1 j1 (name ++ "i") v2 (!tr) tr
  have e : (addComplexVar s name pol tr v1 v2).skel =
      (addRealVar (addRealVar s (name ++ "r") v1 (!tr) tr) (name ++ "i") v2 (!tr) tr).skel := rfl
  exact ⟨Inv.of_skel e h2, Inj.of_skel e j2⟩

theorem setFix_inv (A : Arith V) (s : State V) (hi : Inv s) (hj : Inj s) (name : Name) (val : Option V) (unfix : Bool) :
    Inv (setFix A s name val unfix).1 ∧ Inj (setFix A s name val unfix).1 := by
  unfold setFix
  split
  · exact ⟨hi, hj⟩
  · next c hc =>
    simp only
    refine ⟨⟨?_, ?_, hi.fresh, ?_⟩, hj⟩
    · cases unfix
      · simp only [Bool.false_eq_true, if_false]
        split
        · exact hi.nodup.erase name
        · exact hi.nodup
      · simp only [if_true]
        split
        · exact hi.nodup
        · next hm =>
          rw [List.nodup_append]
          refine ⟨hi.nodup, by simp, ?_⟩
          intro a ha b hb
          simp only [List.mem_singleton] at hb
          subst hb
          intro e; subst e; exact hm ha
    · intro n hn
      have : n ∈ s.trainable ∨ n = name := by
        cases unfix
        · simp only [Bool.false_eq_true, if_false] at hn
          split at hn
          · exact Or.inl (List.mem_of_mem_erase hn)
          · exact Or.inl hn
        · simp only [if_true] at hn
          split at hn
          · exact Or.inl hn
          · simp only [List.mem_append, List.mem_singleton] at hn
            exact hn
      rcases this with h | h
      · exact hi.sub n h
      · subst h; exact (dhas_iff _ _).2 ⟨c, hc⟩
    · have key : ∀ a b, a ≠ b → dhas s.vars a = true → dhas s.vars b = true → cellOf s a ≠ cellOf s b := by
        intro a b hab ha hb
        obtain ⟨ca, hca⟩ := (dhas_iff _ _).1 ha
        obtain ⟨cb, hcb⟩ := (dhas_iff _ _).1 hb
        unfold cellOf; rw [hca, hcb]
        intro e; injection e with e
        exact hj a b ca cb hab hca hcb e
      have hall : ∀ n, n ∈ (if unfix = true then if name ∈ s.trainable then s.trainable else s.trainable ++ [name]
          else if name ∈ s.trainable then s.trainable.erase name else s.trainable) → dhas s.vars n = true := by
        intro n hn
        have : n ∈ s.trainable ∨ n = name := by
          cases unfix
          · simp only [Bool.false_eq_true, if_false] at hn
            split at hn
            · exact Or.inl (List.mem_of_mem_erase hn)
            · exact Or.inl hn
          · simp only [if_true] at hn
            split at hn
            · exact Or.inl hn
            · simp only [List.mem_append, List.mem_singleton] at hn
              exact hn
        rcases this with h | h
        · exact hi.sub n h
        · subst h; exact (dhas_iff _ _).2 ⟨c, hc⟩
      intro a ha b hb hab
      exact key a b hab (hall a ha) (hall b hb)

/-! ### `set_same` -/

/-- the three bookkeeping facts that do not depend on which object a follower is bound to -/
structure Inv0 (s : State V) : Prop where
  nodup : s.trainable.Nodup
  sub : ∀ n ∈ s.trainable, dhas s.vars n = true
  fresh : ∀ n c, dget s.vars n = some c → c < s.next

theorem Inv.toInv0 {s : State V} (h : Inv s) : Inv0 s := ⟨h.nodup, h.sub, h.fresh⟩

theorem Inv0.of_skel {s t : State V} (h : t.skel = s.skel) (hi : Inv0 s) : Inv0 t := by
  obtain ⟨h1, h2, _, h4⟩ := (skel_eq_iff t s).1 h
  constructor
  · rw [h2]; exact hi.nodup
  · intro n hn; rw [h1]; exact hi.sub n (by rw [← h2]; exact hn)
  · intro n c hc; rw [h4]; exact hi.fresh n c (by rw [← h1]; exact hc)

theorem sameRealTr_step_sublist (first x : Name) (tr : List Name) :
    (if x ∈ tr then tr.erase x else (if first ∈ tr then tr.erase first else tr)).Sublist tr := by
  split
  · exact List.erase_sublist
  · split
    · exact List.erase_sublist
    · exact List.Sublist.refl tr

theorem sameRealTr_sublist (first : Name) (rest tr : List Name) : (sameRealTr first rest tr).Sublist tr := by
  unfold sameRealTr
  induction rest generalizing tr with
  | nil => exact List.Sublist.refl tr
  | cons x xs ih =>
    rw [List.foldl_cons]
    exact (ih _).trans (sameRealTr_step_sublist first x tr)

theorem sameRealTr_not_mem (first : Name) (rest tr : List Name) (hn : tr.Nodup) (n : Name) (h : n ∈ rest) :
    n ∉ sameRealTr first rest tr := by
  unfold sameRealTr
  induction rest generalizing tr with
  | nil => simp at h
  | cons x xs ih =>
    rw [List.foldl_cons]
    have hsub := sameRealTr_step_sublist first x tr
    have hnd := hsub.nodup hn
    by_cases hx : n ∈ xs
    · exact ih _ hnd hx
    · have hnx : n = x := by
        simp only [List.mem_cons] at h
        rcases h with h | h
        · exact h
        · exact absurd h hx
      subst hnx
      intro hm
      have hm1 := (sameRealTr_sublist first xs _).subset hm
      by_cases hxt : n ∈ tr
      · rw [if_pos hxt] at hm1
        exact hn.not_mem_erase hm1
      · exact hxt (hsub.subset hm1)

theorem dget_rebind (vars : Dict Nat) (L : List Name) (c : Nat) (n : Name) :
    dget (rebind vars L c) n = if n ∈ L then some c else dget vars n := by
  unfold rebind
  induction L generalizing vars with
  | nil => simp
  | cons x xs ih =>
    rw [List.foldl_cons, ih]
    by_cases hx : n ∈ xs
    · simp [hx]
    · by_cases hnx : n = x
      · subst hnx; simp [hx, dget_dset_self]
      · simp [hx, hnx, dget_dset_ne _ _ _ _ hnx]

theorem sameReal_cases (s : State V) (names fol : List Name) :
    sameReal s names fol = s ∨
    ∃ first rest c, names.filter (dhas s.vars) = first :: rest ∧ cellOf s first = some c ∧
      sameReal s names fol = { s with trainable := sameRealTr first rest s.trainable,
                                      vars := rebind (rebind s.vars (first :: rest) c) (fol.filter (dhas s.vars)) c } := by
  unfold sameReal
  split
  · exact Or.inl rfl
  · next first rest hf =>
    split
    · exact Or.inl rfl
    · next c hc => exact Or.inr ⟨first, rest, c, hf, hc, rfl⟩

theorem sameReal_inv0 (s : State V) (hi : Inv0 s) (names fol : List Name) : Inv0 (sameReal s names fol) := by
  rcases sameReal_cases s names fol with h | ⟨first, rest, c, hf, hc, h⟩
  · rw [h]; exact hi
  · rw [h]
    have hcn : c < s.next := hi.fresh first c hc
    constructor
    · exact (sameRealTr_sublist first rest s.trainable).nodup hi.nodup
    · intro n hn
      have hn' := (sameRealTr_sublist first rest s.trainable).subset hn
      obtain ⟨v, hv⟩ := (dhas_iff _ _).1 (hi.sub n hn')
      apply (dhas_iff _ _).2
      simp only [dget_rebind]
      split
      · exact ⟨c, rfl⟩
      · split
        · exact ⟨c, rfl⟩
        · exact ⟨v, hv⟩
    · intro n c' hc'
      simp only [dget_rebind] at hc'
      split at hc'
      · injection hc' with e; subst e; exact hcn
      · split at hc'
        · injection hc' with e; subst e; exact hcn
        · exact hi.fresh n c' hc'

theorem sameReal_inv (s : State V) (hi : Inv s) (names : List Name) : Inv (sameReal s names []) := by
  have h0 := sameReal_inv0 s hi.toInv0 names []
  refine ⟨h0.nodup, h0.sub, h0.fresh, ?_⟩
  rcases sameReal_cases s names [] with h | ⟨first, rest, c, hf, hc, h⟩
  · rw [h]; exact hi.once
  · rw [h]
    intro a ha b hb hab
    have ha' := (sameRealTr_sublist first rest s.trainable).subset ha
    have hb' := (sameRealTr_sublist first rest s.trainable).subset hb
    have key : ∀ x, x ∈ sameRealTr first rest s.trainable →
        dget (rebind (rebind s.vars (first :: rest) c) (List.filter (dhas s.vars) []) c) x = cellOf s x := by
      intro x hx
      have hxr : x ∉ rest := fun hm => sameRealTr_not_mem first rest s.trainable hi.nodup x hm hx
      simp only [List.filter_nil, dget_rebind, List.not_mem_nil, if_false, List.mem_cons]
      by_cases hxf : x = first
      · subst hxf; simp [hc]
      · simp [hxf, hxr, cellOf]
    show cellOf _ a ≠ cellOf _ b
    unfold cellOf
    simp only
    rw [key a ha, key b hb]
    exact hi.once a ha' b hb' hab

theorem Inv0.of_eq {s t : State V} (h1 : t.vars = s.vars) (h2 : t.trainable = s.trainable) (h3 : t.next = s.next)
    (hi : Inv0 s) : Inv0 t := by
  constructor
  · rw [h2]; exact hi.nodup
  · intro n hn; rw [h1]; exact hi.sub n (by rw [← h2]; exact hn)
  · intro n c hc; rw [h3]; exact hi.fresh n c (by rw [← h1]; exact hc)

theorem Inv.of_eq {s t : State V} (h1 : t.vars = s.vars) (h2 : t.trainable = s.trainable) (h3 : t.next = s.next)
    (hi : Inv s) : Inv t := by
  have h0 := Inv0.of_eq h1 h2 h3 hi.toInv0
  refine ⟨h0.nodup, h0.sub, h0.fresh, ?_⟩
  intro a ha b hb hab
  unfold cellOf; rw [h1]
  exact hi.once a (by rw [← h2]; exact ha) b (by rw [← h2]; exact hb) hab

theorem Inv0.with_same (s : State V) (x : List (List Name)) (hi : Inv0 s) : Inv0 ({ s with same := x } : State V) :=
  Inv0.of_eq (s := s) rfl rfl rfl hi

theorem Inv.with_same (s : State V) (x : List (List Name)) (hi : Inv s) : Inv ({ s with same := x } : State V) :=
  Inv.of_eq (s := s) rfl rfl rfl hi

theorem setSame_inv0 (cfg : Cfg) (s : State V) (hi : Inv0 s) (names : List Name) (cplx : Bool) :
    Inv0 (setSame cfg s names cplx).1 := by
  unfold setSame
  simp only
  generalize mergeLoop _ _ names (s.same, [], []) = r
  have h1 := Inv0.with_same s r.1 hi
  refine Inv0.with_same _ _ ?_
  unfold ssCore
  split
  · exact sameReal_inv0 _ (sameReal_inv0 _ h1 _ _) _ _
  · exact sameReal_inv0 _ h1 _ _

/-- on the unchanged tree (`fixSame = false`) `set_same` keeps the full invariant -/
theorem setSame_inv (cfg : Cfg) (hc : cfg.fixSame = false) (s : State V) (hi : Inv s) (names : List Name) (cplx : Bool) :
    Inv (setSame cfg s names cplx).1 := by
  unfold setSame
  simp only [hc]
  generalize mergeLoop _ _ names (s.same, [], []) = r
  simp only [Bool.false_eq_true, if_false]
  have h1 := Inv.with_same s r.1 hi
  refine Inv.with_same _ _ ?_
  unfold ssCore
  split
  · simp only [List.map_nil]
    exact sameReal_inv _ (sameReal_inv _ h1 _) _
  · exact sameReal_inv _ h1 _

/-! ### whole calls -/

/-- calls that can change the bindings / the free list (create, fix/free, tie) -/
def structural : Op V → Bool
  | .addReal .. => true
  | .addComplex .. => true
  | .setFix .. => true
  | .setSame .. => true
  | .setShareR .. => true
  | _ => false

theorem okOut_fst (p : State V × Bool) : (okOut p).1 = p.1 := rfl

/-- every other call leaves names, bindings, free list and tie groups alone -/
theorem step_skel (A : Arith V) (cfg : Cfg) (s : State V) (op : Op V) (h : structural op = false) :
    (step A cfg s op).1.skel = s.skel := by
  cases op <;> simp only [structural, Bool.true_eq_false] at h <;> simp only [step, okOut_fst] <;> try rfl
  case set => exact setV_skel ..
  case setAllDict => exact setAllDict_skel ..
  case setAllList => exact setAllList_skel ..
  case refresh => exact refresh_skel ..
  case rp2xy => exact rp2xy_skel ..
  case xy2rp => exact xy2rp_skel ..
  case rp2xyAll => exact forNames_skel _ (rp2xy_skel A) _ _
  case xy2rpAll => exact forNames_skel _ (xy2rp_skel A) _ _
  case stdPolar => exact stdPolar_skel ..
  case stdPolarAll => exact forNames_skel _ (stdPolar_skel A cfg) _ _
  case standardComplex => exact standardComplex_skel ..
  case transParams pol =>
    cases pol
    · exact forNames_skel _ (rp2xy_skel A) _ _
    · exact forNames_skel _ (stdPolar_skel A cfg) _ _
  case setTransVar xs =>
    split
    · rfl
    · exact setAllList_skel ..
  case maskExit =>
    split <;> rfl

theorem setShareR_inv0 (A : Arith V) (cfg : Cfg) (s : State V) (hi : Inv0 s) (names : List Name) :
    Inv0 (step A cfg s (.setShareR names)).1 := by
  simp only [step]
  have hx := forNames_skel (xy2rp A) (xy2rp_skel A) s (if names.isEmpty then dkeys s.cplx else names)
  revert hx
  cases forNames (xy2rp A) s (if names.isEmpty then dkeys s.cplx else names) with
  | mk s1 ok =>
    intro hx
    have h1 : Inv0 s1 := Inv0.of_skel hx hi
    cases ok
    · exact h1
    · simp only
      have h2 : Inv0 ({ s1 with polar := true } : State V) := Inv0.of_eq (s := s1) rfl rfl rfl h1
      exact Inv0.of_eq (s := (setSame cfg { s1 with polar := true } (names.map (· ++ "r")) false).1) rfl rfl rfl
        (setSame_inv0 cfg _ h2 _ _)

theorem setShareR_inv (A : Arith V) (cfg : Cfg) (hc : cfg.fixSame = false) (s : State V) (hi : Inv s) (names : List Name) :
    Inv (step A cfg s (.setShareR names)).1 := by
  simp only [step]
  have hx := forNames_skel (xy2rp A) (xy2rp_skel A) s (if names.isEmpty then dkeys s.cplx else names)
  revert hx
  cases forNames (xy2rp A) s (if names.isEmpty then dkeys s.cplx else names) with
  | mk s1 ok =>
    intro hx
    have h1 : Inv s1 := Inv.of_skel hx hi
    cases ok
    · exact h1
    · simp only
      have h2 : Inv ({ s1 with polar := true } : State V) := Inv.of_eq (s := s1) rfl rfl rfl h1
      exact Inv.of_eq (s := (setSame cfg { s1 with polar := true } (names.map (· ++ "r")) false).1) rfl rfl rfl
        (setSame_inv cfg hc _ h2 _ _)

/-- one call in phase order keeps the invariant (unchanged tree) -/
theorem step_inv (A : Arith V) (cfg : Cfg) (hc : cfg.fixSame = false) (s : State V) (op : Op V) (p p' : Nat)
    (hp : nextPhase p op = some p') (hi : Inv s) (hj : p ≤ 1 → Inj s) :
    Inv (step A cfg s op).1 ∧ (p' ≤ 1 → Inj (step A cfg s op).1) := by
  by_cases hs : structural op = false
  · have hk := step_skel A cfg s op hs
    refine ⟨Inv.of_skel hk hi, ?_⟩
    intro hp'
    have : 3 ≤ p' := by
      cases op <;> simp only [structural, Bool.true_eq_false] at hs <;> simp only [nextPhase] at hp <;>
        (injection hp with hp; omega)
    omega
  · cases op <;> simp only [structural, Bool.true_eq_false, not_true_eq_false, not_false_eq_true] at hs
    case addReal name val hasInit tr =>
      simp only [nextPhase] at hp
      split at hp
      · next h0 =>
        have := addRealVar_inv s hi (hj (by omega)) name val hasInit tr
        exact ⟨this.1, fun _ => this.2⟩
      · exact absurd hp (by simp)
    case addComplex name pol tr v1 v2 =>
      simp only [nextPhase] at hp
      split at hp
      · next h0 =>
        have := addComplexVar_inv s hi (hj (by omega)) name pol tr v1 v2
        exact ⟨this.1, fun _ => this.2⟩
      · exact absurd hp (by simp)
    case setFix name val unfix =>
      simp only [nextPhase] at hp
      split at hp
      · next h0 =>
        have := setFix_inv A s hi (hj h0) name val unfix
        exact ⟨this.1, fun _ => this.2⟩
      · exact absurd hp (by simp)
    case setSame names cplx =>
      simp only [nextPhase] at hp
      split at hp
      · injection hp with hp
        exact ⟨setSame_inv cfg hc s hi names cplx, fun h => by omega⟩
      · exact absurd hp (by simp)
    case setShareR names =>
      simp only [nextPhase] at hp
      split at hp
      · injection hp with hp
        exact ⟨setShareR_inv A cfg hc s hi names, fun h => by omega⟩
      · exact absurd hp (by simp)

theorem step_inv0 (A : Arith V) (cfg : Cfg) (s : State V) (op : Op V) (p p' : Nat)
    (hp : nextPhase p op = some p') (hi : Inv0 s) (hj : p ≤ 1 → Inv s ∧ Inj s) :
    Inv0 (step A cfg s op).1 ∧ (p' ≤ 1 → Inv (step A cfg s op).1 ∧ Inj (step A cfg s op).1) := by
  by_cases hs : structural op = false
  · have hk := step_skel A cfg s op hs
    refine ⟨Inv0.of_skel hk hi, ?_⟩
    intro hp'
    have : 3 ≤ p' := by
      cases op <;> simp only [structural, Bool.true_eq_false] at hs <;> simp only [nextPhase] at hp <;>
        (injection hp with hp; omega)
    omega
  · cases op <;> simp only [structural, Bool.true_eq_false, not_true_eq_false, not_false_eq_true] at hs
    case addReal name val hasInit tr =>
      simp only [nextPhase] at hp
      split at hp
      · next h0 =>
        have hh := hj (by omega)
        have := addRealVar_inv s hh.1 hh.2 name val hasInit tr
        exact ⟨this.1.toInv0, fun _ => this⟩
      · exact absurd hp (by simp)
    case addComplex name pol tr v1 v2 =>
      simp only [nextPhase] at hp
      split at hp
      · next h0 =>
        have hh := hj (by omega)
        have := addComplexVar_inv s hh.1 hh.2 name pol tr v1 v2
        exact ⟨this.1.toInv0, fun _ => this⟩
      · exact absurd hp (by simp)
    case setFix name val unfix =>
      simp only [nextPhase] at hp
      split at hp
      · next h0 =>
        have hh := hj h0
        have := setFix_inv A s hh.1 hh.2 name val unfix
        exact ⟨this.1.toInv0, fun _ => this⟩
      · exact absurd hp (by simp)
    case setSame names cplx =>
      simp only [nextPhase] at hp
      split at hp
      · injection hp with hp
        exact ⟨setSame_inv0 cfg s hi names cplx, fun h => by omega⟩
      · exact absurd hp (by simp)
    case setShareR names =>
      simp only [nextPhase] at hp
      split at hp
      · injection hp with hp
        exact ⟨setShareR_inv0 A cfg s hi names, fun h => by omega⟩
      · exact absurd hp (by simp)

theorem run_inv (A : Arith V) (cfg : Cfg) (hc : cfg.fixSame = false) (ops : List (Op V)) :
    ∀ (p : Nat) (s : State V), wellPhasedFrom p ops = true → Inv s → (p ≤ 1 → Inj s) → Inv (run A cfg s ops) := by
  induction ops with
  | nil => intro p s _ hi _; exact hi
  | cons op ops ih =>
    intro p s hw hi hj
    simp only [wellPhasedFrom] at hw
    simp only [run]
    cases hp : nextPhase p op with
    | none => rw [hp] at hw; exact absurd hw (by simp)
    | some p' =>
      rw [hp] at hw
      obtain ⟨h1, h2⟩ := step_inv A cfg hc s op p p' hp hi hj
      exact ih p' _ hw h1 h2

theorem run_inv0 (A : Arith V) (cfg : Cfg) (ops : List (Op V)) :
    ∀ (p : Nat) (s : State V), wellPhasedFrom p ops = true → Inv0 s → (p ≤ 1 → Inv s ∧ Inj s) →
      Inv0 (run A cfg s ops) := by
  induction ops with
  | nil => intro p s _ hi _; exact hi
  | cons op ops ih =>
    intro p s hw hi hj
    simp only [wellPhasedFrom] at hw
    simp only [run]
    cases hp : nextPhase p op with
    | none => rw [hp] at hw; exact absurd hw (by simp)
    | some p' =>
      rw [hp] at hw
      obtain ⟨h1, h2⟩ := step_inv0 A cfg s op p p' hp hi hj
      exact ih p' _ hw h1 h2

theorem empty_inv (d : V) (pol : Bool) : Inv (State.empty d pol) ∧ Inj (State.empty d pol) := by
  refine ⟨⟨?_, ?_, ?_, ?_⟩, ?_⟩
  · simp [State.empty]
  · intro n hn; simp [State.empty] at hn
  · intro n c hc; simp [State.empty, dget] at hc
  · intro a ha; simp [State.empty] at ha
  · intro a b ca cb _ ha; simp [State.empty, dget] at ha

/-! ### reading everything and writing it back -/

theorem assign_self (s : State V) (c : Nat) (v : V) (h : (s.heap c).val = v) : assign s c v = s := by
  cases s with
  | mk vars heap next trainable cplx same bnd initVal mask maskStack polar =>
    simp only [assign]
    congr
    funext i
    simp only [upd]
    split
    · next hi => subst hi; simp only at h; rw [← h]
    · rfl

theorem setV_self (A : Arith V) (s : State V) (n : Name) (v : V) (h : readN s n = some v) : setV A s n v false = s := by
  unfold setV assignN
  simp only [Bool.false_eq_true, if_false]
  unfold readN at h
  cases hc : cellOf s n with
  | none => rfl
  | some c =>
    rw [hc] at h
    simp only [Option.map_some, Option.some.injEq] at h
    exact assign_self s c v h

theorem setAllDict_self (A : Arith V) (s : State V) (d : Dict V) (h : ∀ kv ∈ d, readN s kv.1 = some kv.2) :
    setAllDict A s d false = s := by
  unfold setAllDict
  induction d with
  | nil => rfl
  | cons kv t ih =>
    rw [List.foldl_cons, setV_self A s kv.1 kv.2 (h kv (by simp))]
    exact ih (fun kv' hkv => h kv' (by simp [hkv]))

theorem getAllDic_reads (A : Arith V) (s : State V) (hm : s.mask = []) (b : Bool) :
    ∀ kv ∈ getAllDic A s b, readN s kv.1 = some kv.2 := by
  intro kv hkv
  unfold getAllDic at hkv
  simp only [List.mem_filterMap] at hkv
  obtain ⟨n, _, hn⟩ := hkv
  unfold readMasked at hn
  unfold readN
  cases hc : cellOf s n with
  | none => rw [hc] at hn; simp at hn
  | some c =>
    rw [hc] at hn
    simp only [hm, dget] at hn
    simp only [Option.map_some, Option.some.injEq] at hn
    subst hn
    simp [hc]

/-! ### frame for whole calls -/

theorem HF_with_cplx (c : Nat) (s : State V) (x : Dict Bool) : HF c s ({ s with cplx := x } : State V) := ⟨rfl, rfl⟩

theorem HF_spreadFlag (c : Nat) (s : State V) (n : Name) (f : Bool) : HF c s (spreadFlag s n f) := by
  unfold spreadFlag; split
  · exact HF.refl c s
  · exact ⟨rfl, rfl⟩

theorem HF_rp2xy (A : Arith V) (c : Nat) (s : State V) (name : Name)
    (hr : cellOf s (name ++ "r") ≠ some c) (hi : cellOf s (name ++ "i") ≠ some c) : HF c s (rp2xy A s name).1 := by
  unfold rp2xy
  split
  · exact HF.refl c s
  · split
    · exact HF.refl c s
    · split
      · next cr ci hcr hci =>
        have h1 : cr ≠ c := fun e => hr (by rw [hcr, e])
        have h2 : ci ≠ c := fun e => hi (by rw [hci, e])
        simp only
        refine HF.trans ?_ (HF_spreadFlag c _ _ _)
        refine HF.trans ?_ (HF_with_cplx c _ _)
        exact HF.trans (HF_assign c cr s _ h1) (HF_assign c ci _ _ h2)
      · exact HF.refl c s

theorem HF_xy2rp (A : Arith V) (c : Nat) (s : State V) (name : Name)
    (hr : cellOf s (name ++ "r") ≠ some c) (hi : cellOf s (name ++ "i") ≠ some c) : HF c s (xy2rp A s name).1 := by
  unfold xy2rp
  split
  · exact HF.refl c s
  · split
    · exact HF.refl c s
    · split
      · next cr ci hcr hci =>
        have h1 : cr ≠ c := fun e => hr (by rw [hcr, e])
        have h2 : ci ≠ c := fun e => hi (by rw [hci, e])
        simp only
        refine HF.trans ?_ (HF_spreadFlag c _ _ _)
        refine HF.trans ?_ (HF_with_cplx c _ _)
        exact HF.trans (HF_assign c cr s _ h1) (HF_assign c ci _ _ h2)
      · exact HF.refl c s

/-- names bound to one object read the same value, whatever the state -/
theorem read_eq_of_cell_eq (s : State V) (a b : Name) (h : cellOf s a = cellOf s b) : readN s a = readN s b := by
  unfold readN; rw [h]

theorem run_skel (A : Arith V) (cfg : Cfg) (ops : List (Op V)) (h : ∀ op ∈ ops, structural op = false) (s : State V) :
    (run A cfg s ops).skel = s.skel := by
  induction ops generalizing s with
  | nil => rfl
  | cons op ops ih =>
    simp only [run]
    rw [ih (fun o ho => h o (by simp [ho])), step_skel A cfg s op (h op (by simp))]

theorem sameReal_ties (s : State V) (names fol : List Name) (a b : Name)
    (ha : a ∈ names ∨ a ∈ fol) (hb : b ∈ names ∨ b ∈ fol) (hae : dhas s.vars a = true) (hbe : dhas s.vars b = true)
    (hne : ∃ n ∈ names, dhas s.vars n = true) :
    cellOf (sameReal s names fol) a = cellOf (sameReal s names fol) b := by
  have hcases : ∃ first rest c, names.filter (dhas s.vars) = first :: rest ∧ cellOf s first = some c ∧
      sameReal s names fol = { s with trainable := sameRealTr first rest s.trainable,
                                      vars := rebind (rebind s.vars (first :: rest) c) (fol.filter (dhas s.vars)) c } := by
    obtain ⟨n, hn, hnv⟩ := hne
    have hmem : n ∈ names.filter (dhas s.vars) := List.mem_filter.2 ⟨hn, hnv⟩
    cases hf : names.filter (dhas s.vars) with
    | nil => rw [hf] at hmem; simp at hmem
    | cons first rest =>
      have hfm : first ∈ names.filter (dhas s.vars) := by rw [hf]; simp
      obtain ⟨c, hc⟩ := (dhas_iff _ _).1 (List.mem_filter.1 hfm).2
      refine ⟨first, rest, c, rfl, hc, ?_⟩
      unfold sameReal
      simp only [hf]
      have : cellOf s first = some c := hc
      rw [this]
  obtain ⟨first, rest, c, hf, _, h⟩ := hcases
  have key : ∀ x, (x ∈ names ∨ x ∈ fol) → dhas s.vars x = true → cellOf (sameReal s names fol) x = some c := by
    intro x hx hxe
    rw [h]
    unfold cellOf
    simp only [dget_rebind]
    rcases hx with hx | hx
    · have : x ∈ first :: rest := by rw [← hf]; exact List.mem_filter.2 ⟨hx, hxe⟩
      split
      · rfl
      · simp
    · have : x ∈ fol.filter (dhas s.vars) := List.mem_filter.2 ⟨hx, hxe⟩
      simp [this]
  rw [key a ha hae, key b hb hbe]

end TfPwaV.Vars
