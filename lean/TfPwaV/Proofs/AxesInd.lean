import TfPwaV.Proofs.RouteRestTree
import TfPwaV.Proofs.LorentzSL
import TfPwaV.Props.C01b
/-!
Helper lemmas for `Props/C01h.lean` (independence of the base axes), part 1: SU(2) algebra.

* `su2_fix_z`: the stabiliser of a momentum along `z` in SU(2) is the diagonal torus `{Rotation_z(γ)}`.
* `mirror`: the automorphism `g ↦ σ_z · conj(g) · σ_z` of SU(2) (it maps `Rotation_z(α)`, `Rotation_y(β)` to
  `Rotation_z(−α)`, `Rotation_y(−β)`), which translates between the PASSIVE products `Rotation_y(β)·Rotation_z(α)` the
  code accumulates in `r_matrix` and the ACTIVE products `Rotation_z(α)·Rotation_y(β)·Rotation_z(γ)` whose
  representation matrices are the D-functions (`C12.D_hom_su2`).
-/
open TfPwaV.ScalarR
namespace TfPwaV.AxesInd
open TfPwaV.SU2R TfPwaV.AlignR TfPwaV.KinR TfPwaV.AngleR TfPwaV.SL2CR TfPwaV.LorentzSLR TfPwaV.CascadeR
open TfPwaV.C12 TfPwaV.C02 TfPwaV.C01 TfPwaV.C11

/-! ### the stabiliser of the z-axis -/

/-- every unit complex number is `exp(iγ/2)` -/
theorem exists_half_angle (c s : ℝ) (h : c * c + s * s = 1) : ∃ γ : ℝ, Real.cos (γ / 2) = c ∧ Real.sin (γ / 2) = s := by
  have hz0 : (⟨c, s⟩ : ℂ) ≠ 0 := by
    intro h0
    have h1 := congrArg Complex.re h0
    have h2 := congrArg Complex.im h0
    simp only [Complex.zero_re, Complex.zero_im] at h1 h2
    rw [h1, h2] at h
    norm_num at h
  have habs : ‖(⟨c, s⟩ : ℂ)‖ = 1 := by
    rw [Complex.norm_def, Complex.normSq_mk, h, Real.sqrt_one]
  refine ⟨2 * Complex.arg ⟨c, s⟩, ?_, ?_⟩
  · rw [mul_div_cancel_left₀ _ (two_ne_zero), Complex.cos_arg hz0, habs, div_one]
  · rw [mul_div_cancel_left₀ _ (two_ne_zero), Complex.sin_arg, habs, div_one]

/-- **the stabiliser of a momentum along `z`**: an element of SU(2) that maps `(t, 0, 0, p)`, `p ≠ 0`, to itself is
`Rotation_z(γ)` for some `γ` (exactly, on the same sheet of the double cover: `γ` ranges over a `4π` interval). -/
theorem su2_fix_z (W : M2) (hW : IsSU2 W) (t p : ℝ) (hp : p ≠ 0)
    (h : act W (herm ⟨t, 0, 0, p⟩) = herm ⟨t, 0, 0, p⟩) : ∃ γ : ℝ, W = rotZ γ := by
  obtain ⟨⟨ar, ai⟩, x01, ⟨cr, ci⟩, x11⟩ := W
  obtain ⟨h11, h01, hn⟩ := hW
  simp only at h11 h01 hn
  subst h11 h01
  simp only [Cx.normSq] at hn
  have h00 := congrArg (fun m : M2 => m.x00.re) h
  simp only [act, herm, dagger, M2.mul, Cx.mul, Cx.add, Cx.conj, Cx.neg] at h00
  have hc : cr * cr + ci * ci = 0 := by
    have : p * (cr * cr + ci * ci) = 0 := by
      have e : (t + p) * (ar * ar + ai * ai) + (t - p) * (cr * cr + ci * ci) = t + p := by
        linear_combination h00
      have e2 : ar * ar + ai * ai = 1 - (cr * cr + ci * ci) := by linarith
      rw [e2] at e
      linarith
    rcases mul_eq_zero.mp this with h1 | h1
    · exact absurd h1 hp
    · exact h1
  have hcr : cr = 0 := by nlinarith [mul_self_nonneg cr, mul_self_nonneg ci]
  have hci : ci = 0 := by nlinarith [mul_self_nonneg cr, mul_self_nonneg ci]
  subst hcr hci
  obtain ⟨γ, hc, hs⟩ := exists_half_angle ar (-ai) (by nlinarith)
  refine ⟨γ, ?_⟩
  rw [rotZ_eq, hc, hs]
  ext <;> simp [Cx.conj, Cx.neg, Cx.zero]

/-! ### the mirror automorphism -/

/-- `g ↦ σ_z · conj(g) · σ_z` -/
def mirror (g : M2) : M2 := ⟨g.x00.conj, g.x01.conj.neg, g.x10.conj.neg, g.x11.conj⟩

theorem mirror_mul (a b : M2) : mirror (a.mul b) = (mirror a).mul (mirror b) := by
  ext <;> simp [mirror, M2.mul, Cx.mul, Cx.add, Cx.conj, Cx.neg] <;> ring

theorem mirror_mirror (a : M2) : mirror (mirror a) = a := by
  ext <;> simp [mirror, Cx.conj, Cx.neg]

theorem mirror_one : mirror M2.one = M2.one := by
  ext <;> simp [mirror, M2.one, Cx.one, Cx.zero, Cx.conj, Cx.neg]

theorem mirror_inv (a : M2) : mirror a.inv = (mirror a).inv := by
  ext <;> simp [mirror, M2.inv, Cx.conj, Cx.neg]

theorem mirror_isSU2 (a : M2) (h : IsSU2 a) : IsSU2 (mirror a) := by
  obtain ⟨⟨ar, ai⟩, x01, ⟨cr, ci⟩, x11⟩ := a
  obtain ⟨h11, h01, hn⟩ := h
  simp only at h11 h01 hn
  subst h11 h01
  refine ⟨?_, ?_, ?_⟩
  · simp [mirror, Cx.conj]
  · ext <;> simp [mirror, Cx.conj, Cx.neg]
  · simp only [mirror, Cx.conj, Cx.normSq, Cx.neg] at hn ⊢
    linarith

theorem rotZ_neg (α : ℝ) : rotZ (-α) = mirror (rotZ α) := by
  rw [rotZ_eq, rotZ_eq, neg_div, Real.cos_neg, Real.sin_neg]
  ext <;> simp [mirror, Cx.conj, Cx.neg, Cx.zero]

theorem rotY_neg (β : ℝ) : rotY (-β) = mirror (rotY β) := by
  unfold rotY ksin kcos
  rw [neg_div, Real.cos_neg, Real.sin_neg]
  ext <;> simp [mirror, Cx.conj, Cx.neg]

theorem rotZ_inv (α : ℝ) : (rotZ α).inv = rotZ (-α) := by
  rw [rotZ_eq, rotZ_eq, neg_div, Real.cos_neg, Real.sin_neg]
  ext <;> simp [M2.inv, Cx.neg, Cx.zero]

theorem rotY_inv (β : ℝ) : (rotY β).inv = rotY (-β) := by
  unfold rotY ksin kcos
  rw [neg_div, Real.cos_neg, Real.sin_neg]
  ext <;> simp [M2.inv, Cx.neg]

theorem rotZ_zero : rotZ 0 = M2.one := by
  rw [rotZ_eq]
  ext <;> simp [M2.one, Cx.one, Cx.zero]

/-- the inverse of the passive vertex rotation is the mirror image of the active one:
`(Rotation_y(β)·Rotation_z(α))⁻¹ = mirror (Rotation_z(α)·Rotation_y(β))` -/
theorem stepR_inv (α β : ℝ) : (stepR α β).inv = mirror ((rotZ α).mul (rotY β)) := by
  unfold stepR
  rw [M2.inv_mul, rotZ_inv, rotY_inv, rotZ_neg, rotY_neg, mirror_mul]

theorem isSU2_rotZ (α : ℝ) : IsSU2 (rotZ α) := by
  rw [rotZ_eq]
  refine ⟨by simp [Cx.conj], by ext <;> simp [Cx.conj, Cx.neg, Cx.zero], ?_⟩
  have := Real.sin_sq_add_cos_sq (α / 2)
  simp only [Cx.normSq, Cx.zero]
  nlinarith

theorem isSU2_rotY (β : ℝ) : IsSU2 (rotY β) := by
  unfold rotY ksin kcos
  refine ⟨by simp [Cx.conj], by ext <;> simp [Cx.conj, Cx.neg], ?_⟩
  have := Real.sin_sq_add_cos_sq (β / 2)
  simp only [Cx.normSq]
  nlinarith

theorem isSU2_stepR (α β : ℝ) : IsSU2 (stepR α β) := isSU2_mul _ _ (isSU2_rotY β) (isSU2_rotZ α)

/-- **passive → active**: if the passive vertex rotations satisfy `r' · U = Rotation_z(γ) · r` then the active Euler
products satisfy `Rz(α')·Ry(β')·Rz(0) = mirror(U) · Rz(α)·Ry(β)·Rz(γ)` -/
theorem active_of_passive (U : M2) (hU : IsSU2 U) (α β α' β' γ : ℝ)
    (h : (stepR α' β').mul U = (rotZ γ).mul (stepR α β)) :
    rot3 α' β' 0 = (mirror U).mul (rot3 α β γ) := by
  have hdU := isSU2_det U hU
  have hd' := isSU2_det _ (isSU2_stepR α' β')
  -- invert both sides
  have h1 := congrArg M2.inv h
  rw [M2.inv_mul, M2.inv_mul, stepR_inv, stepR_inv, rotZ_inv, rotZ_neg] at h1
  -- apply the mirror
  have h2 := congrArg mirror h1
  simp only [mirror_mul, mirror_mirror, mirror_inv] at h2
  -- h2 : (mirror U).inv * (Rz α' Ry β') = (Rz α Ry β) * Rz γ
  have hdm : (mirror U).det = Cx.one := isSU2_det _ (mirror_isSU2 U hU)
  unfold rot3
  rw [rotZ_zero, M2.mul_one, ← h2, mul_inv_cancel_left _ _ hdm]

end TfPwaV.AxesInd
