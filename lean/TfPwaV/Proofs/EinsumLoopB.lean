import TfPwaV.Proofs.EinsumBcast

/-! C05 (einsum): induction over the contraction path for operands with size-1 broadcasting. -/
namespace TfPwaV.Einsum

/-- invariant of the operand list of the loop of `einsum`: no repeated label inside an operand, axes of the label
    size or of size 1, and every label present has its full size in at least one operand -/
structure Inv {R : Type} (sizes : Idx → Nat) (data : List (List Idx × Tensor R)) : Prop where
  nd : ∀ p ∈ data, p.1.Nodup
  bs : ∀ p ∈ data, BShape sizes p
  cov : ∀ l, (∃ p ∈ data, l ∈ p.1) → ∃ p ∈ data, l ∈ p.1 ∧ dimOf p l = sizes l

section
variable {R : Type} [CommSemiring R]

/-- the reference depends on an operand only through its broadcast entries at the assignments within the sizes -/
theorem einsumRef_congr_last (sizes : Idx → Nat) (rest : List (List Idx × Tensor R)) (O F : List Idx) (t T' : Tensor R)
    (hF : F.Nodup)
    (h : ∀ env : Env, (∀ l ∈ O, env l < sizes l) → bget t O env = bget T' O env) :
    einsumRef sizes (rest ++ [(O, t)]) F = einsumRef sizes (rest ++ [(O, T')]) F := by
  unfold einsumRef
  have hlab : (rest ++ [(O, t)]).map (·.1) = (rest ++ [(O, T')]).map (·.1) := by simp
  rw [hlab]
  apply ofFn_congr
  intro oi hoi
  apply sumLabels_congr
  intro e hagree hrange
  rw [termProd_eq_tp _ (by simp), termProd_eq_tp _ (by simp)]
  unfold tp
  rw [List.map_append, List.map_append, List.prod_append, List.prod_append]
  congr 1
  simp only [List.map_cons, List.map_nil, List.prod_cons, List.prod_nil, mul_one]
  apply h
  intro x hx
  by_cases hxF : x ∈ F
  · have hx1 : x ∉ summedLabels ((rest ++ [(O, T')]).map (·.1)) F := fun hh => ((mem_summedLabels _ _ _).mp hh).2 hxF
    rw [hagree x hx1]
    exact envOfList_lt sizes F oi _ hF hoi x hxF
  · apply hrange x
    rw [mem_summedLabels]
    exact ⟨⟨O, by simp, hx⟩, hxF⟩

/-- **Induction over the path, with broadcasting**: every pass of the loop `for idx in path:` preserves the reference
    contraction of the current operand list and the invariant. -/
theorem loop_b (sizes key : Idx → Nat) (F : List Idx) (hF : F.Nodup) (hpos : ∀ l, 0 < sizes l) :
    ∀ (path : List (List Nat)) (data data' : List (List Idx × Tensor R)),
    Inv sizes data →
    loop sizes key F path data = .ok data' →
    einsumRef sizes data' F = einsumRef sizes data F ∧ Inv sizes data'
  | [], data, data', hinv, h => by
    simp only [loop, Except.ok.injEq] at h
    rw [← h]
    exact ⟨rfl, hinv⟩
  | pos :: path, data, data', hinv, h => by
    unfold loop at h
    by_cases hbad : (pos.any (· ≥ data.length) || pos.isEmpty || hasDup pos) = true
    · rw [if_pos hbad] at h; simp at h
    · rw [if_neg hbad] at h
      simp only [Bool.or_eq_true, not_or, Bool.not_eq_true] at hbad
      obtain ⟨⟨hlt', hne'⟩, hnd'⟩ := hbad
      have hposnd : pos.Nodup := nodup_of_hasDup_false pos hnd'
      have hlt : ∀ i ∈ pos, i < data.length := by
        intro i hi
        by_contra hc
        have : pos.any (· ≥ data.length) = true := List.any_eq_true.mpr ⟨i, hi, by simpa using hc⟩
        rw [this] at hlt'
        exact absurd hlt' (by simp)
      have hposne : pos ≠ [] := by
        intro h0; subst h0; simp at hne'
      simp only at h
      generalize hpart : (pos.filterMap fun i => data[i]?) = part at h
      generalize hrest : removePositions data pos = rest at h
      generalize hlab : labelSet (part.map (·.1)).flatten = labels at h
      generalize hkeep : F ++ (rest.map (·.1)).flatten = keep at h
      generalize houtSet : labels.filter (keep.contains ·) = outSet at h
      by_cases hkd : keysDistinct key outSet = true
      · simp only [hkd, Bool.not_true, Bool.false_eq_true, if_false] at h
        generalize hout : sortBy key outSet = outIdx at h
        cases hstep : stepReduceSum sizes key part outIdx with
        | error e => rw [hstep] at h; simp at h
        | ok r =>
          obtain ⟨O', t⟩ := r
          rw [hstep] at h
          simp only at h
          have hperm := perm_split data pos hposnd hlt
          rw [hpart, hrest] at hperm
          have hsubpart : ∀ p ∈ part, p ∈ data := fun p hp => hperm.mem_iff.mpr (List.mem_append_left _ hp)
          have hsubrest : ∀ p ∈ rest, p ∈ data := fun p hp => hperm.mem_iff.mpr (List.mem_append_right _ hp)
          have hpartne : part ≠ [] := by
            obtain ⟨i, pos', rfl⟩ := List.exists_cons_of_ne_nil hposne
            have hi := hlt i List.mem_cons_self
            rw [← hpart, List.filterMap_cons, List.getElem?_eq_getElem hi]
            simp
          have hlabnd : labels.Nodup := by rw [← hlab]; exact nodup_labelSet _
          have hmemlab : ∀ a, a ∈ labels ↔ ∃ p ∈ part, a ∈ p.1 := by
            intro a
            rw [← hlab, mem_labelSet, List.mem_flatten]
            constructor
            · rintro ⟨l, hl, ha⟩
              obtain ⟨p, hp, rfl⟩ := List.mem_map.mp hl
              exact ⟨p, hp, ha⟩
            · rintro ⟨p, hp, ha⟩
              exact ⟨p.1, List.mem_map.mpr ⟨p, hp, rfl⟩, ha⟩
          have houtSetnd : outSet.Nodup := by rw [← houtSet]; exact hlabnd.filter _
          have hpermout : outIdx.Perm outSet := by rw [← hout]; exact perm_sortBy key outSet
          have houtnd : outIdx.Nodup := hpermout.nodup_iff.mpr houtSetnd
          have hmemout : ∀ a, a ∈ outIdx ↔ (∃ p ∈ part, a ∈ p.1) ∧ (a ∈ F ∨ ∃ q ∈ rest, a ∈ q.1) := by
            intro a
            rw [hpermout.mem_iff, ← houtSet, List.mem_filter, hmemlab, List.contains_iff_mem, ← hkeep,
              List.mem_append, List.mem_flatten]
            constructor
            · rintro ⟨h1, h2⟩
              refine ⟨h1, ?_⟩
              rcases h2 with h2 | ⟨l, hl, ha⟩
              · exact Or.inl h2
              · obtain ⟨q, hq, rfl⟩ := List.mem_map.mp hl
                exact Or.inr ⟨q, hq, ha⟩
            · rintro ⟨h1, h2⟩
              refine ⟨h1, ?_⟩
              rcases h2 with h2 | ⟨q, hq, ha⟩
              · exact Or.inl h2
              · exact Or.inr ⟨q.1, List.mem_map.mpr ⟨q, hq, rfl⟩, ha⟩
          -- every label summed by the step has its full size inside the group
          have hcovstep : ∀ l, (∃ p ∈ part, l ∈ p.1) → l ∉ outIdx → ∃ p ∈ part, l ∈ p.1 ∧ dimOf p l = sizes l := by
            intro l hl hno
            obtain ⟨p0, hp0, hl0⟩ := hl
            obtain ⟨p, hp, hlp, hdim⟩ := hinv.cov l ⟨p0, hsubpart p0 hp0, hl0⟩
            rcases List.mem_append.mp (hperm.mem_iff.mp hp) with hp' | hp'
            · exact ⟨p, hp', hlp, hdim⟩
            · exact absurd ((hmemout l).mpr ⟨⟨p0, hp0, hl0⟩, Or.inr ⟨p, hp', hlp⟩⟩) hno
          obtain ⟨hO'nd, hbnew, hfullnew, hval⟩ := step_b sizes key part outIdx O' t
            (fun p hp => hinv.nd p (hsubpart p hp)) (fun p hp => hinv.bs p (hsubpart p hp)) hpos hcovstep hstep
          have hO' : O' = outIdx := by
            rcases stepReduceSum_labels sizes key part outIdx O' t hstep with h1 | ⟨hk, h2⟩
            · exact h1
            · rw [hlab] at hk h2
              have hinj := injOn_of_keysDistinct key labels hk
              have hsub : ∀ a ∈ outSet, a ∈ labels := by
                intro a ha
                rw [← houtSet] at ha
                exact (List.mem_filter.mp ha).1
              have h3 := sortBy_eq_filter key labels outSet hinj hlabnd houtSetnd hsub
              rw [h2]
              have hfc : List.filter (fun x => outIdx.contains x) (sortBy key labels)
                  = List.filter (fun a => outSet.contains a) (sortBy key labels) := by
                apply List.filter_congr
                intro x _
                have hiff : x ∈ outIdx ↔ x ∈ outSet := hpermout.mem_iff
                by_cases hx : x ∈ outSet
                · simp [hx, hiff.mpr hx]
                · have hx' : x ∉ outIdx := fun h => hx (hiff.mp h)
                  simp [hx, hx']
              rw [hfc, ← h3, hout]
          subst hO'
          have hinvnew : Inv sizes (rest ++ [(O', t)]) := by
            refine ⟨?_, ?_, ?_⟩
            · intro p hp
              rcases List.mem_append.mp hp with hp | hp
              · exact hinv.nd p (hsubrest p hp)
              · rw [List.mem_singleton] at hp; subst hp; exact hO'nd
            · intro p hp
              rcases List.mem_append.mp hp with hp | hp
              · exact hinv.bs p (hsubrest p hp)
              · rw [List.mem_singleton] at hp; subst hp; exact hbnew
            · intro l hl
              -- l occurs in the old data
              have hlold : ∃ p ∈ data, l ∈ p.1 := by
                obtain ⟨p, hp, hlp⟩ := hl
                rcases List.mem_append.mp hp with hp | hp
                · exact ⟨p, hsubrest p hp, hlp⟩
                · rw [List.mem_singleton] at hp; subst hp
                  obtain ⟨⟨q, hq, hlq⟩, _⟩ := (hmemout l).mp hlp
                  exact ⟨q, hsubpart q hq, hlq⟩
              obtain ⟨p, hp, hlp, hdim⟩ := hinv.cov l hlold
              rcases List.mem_append.mp (hperm.mem_iff.mp hp) with hp' | hp'
              · -- the full-size operand was consumed: the result carries the full size
                have hlO : l ∈ O' := by
                  obtain ⟨q, hq, hlq⟩ := hl
                  rcases List.mem_append.mp hq with hq | hq
                  · exact (hmemout l).mpr ⟨⟨p, hp', hlp⟩, Or.inr ⟨q, hq, hlq⟩⟩
                  · rw [List.mem_singleton] at hq; subst hq; exact hlq
                exact ⟨(O', t), by simp, hlO, hfullnew l hlO ⟨p, hp', hlp, hdim⟩⟩
              · exact ⟨p, List.mem_append_left _ hp', hlp, hdim⟩
          have ih := loop_b sizes key F hF hpos path _ data' hinvnew h
          refine ⟨?_, ih.2⟩
          rw [ih.1]
          have hcongr := einsumRef_congr_last sizes rest O' F t (einsumRef sizes part O') hF (by
            intro env henv
            rw [hval env henv]
            have hshape : (einsumRef sizes part O').shape = O'.map sizes := rfl
            rw [bget_eq sizes _ O' env hshape henv])
          rw [hcongr, einsumRef_contract sizes part rest F O' hpartne hF houtnd hmemout]
          exact (einsumRef_perm sizes data (part ++ rest) F hperm
            (by intro h0; subst h0; simp at hperm; exact hpartne hperm.1)).symm
      · simp [hkd] at h

/-- when the loop ends with the single operand laid out along the output labels, that operand has the full shape
    and the entries of the reference contraction of the original (broadcast) operands -/
theorem loop_single_b (sizes key : Idx → Nat) (F : List Idx) (hF : F.Nodup) (hpos : ∀ l, 0 < sizes l)
    (path : List (List Nat)) (data : List (List Idx × Tensor R)) (t : Tensor R)
    (hinv : Inv sizes data)
    (h : loop sizes key F path data = .ok [(F, t)]) :
    t.shape = F.map sizes ∧
    ∀ oi, InRange (F.map sizes) oi → t.get oi = (einsumRef sizes data F).get oi := by
  obtain ⟨h1, h2⟩ := loop_b sizes key F hF hpos path data _ hinv h
  have hts : t.shape = F.map sizes := by
    rw [(h2.bs (F, t) (by simp)).1]
    apply List.map_congr_left
    intro l hl
    obtain ⟨p, hp, _, hdim⟩ := h2.cov l ⟨(F, t), by simp, hl⟩
    rw [List.mem_singleton] at hp
    subst hp
    exact hdim
  refine ⟨hts, ?_⟩
  intro oi hoi
  rw [← h1]
  unfold einsumRef
  rw [get_ofFn _ _ _ hoi]
  have hS : summedLabels ([(F, t)].map (·.1)) F = [] := by
    apply List.eq_nil_iff_forall_not_mem.mpr
    intro a ha
    rw [mem_summedLabels] at ha
    obtain ⟨⟨l, hl, hal⟩, hno⟩ := ha
    simp only [List.map_cons, List.map_nil, List.mem_singleton] at hl
    subst hl
    exact hno hal
  rw [hS]
  simp only [sumLabels, termProd, List.map_cons, List.map_nil, prodL]
  have hlt : ∀ l ∈ F, envOfList F oi (fun _ => 0) l < sizes l := envOfList_lt sizes F oi _ hF hoi
  rw [bget_eq sizes t F _ hts hlt, map_envOfList F oi _ hF]
  rw [length_of_inRange _ _ hoi, List.length_map]

end

end TfPwaV.Einsum
