import TfPwaV.Gen.NLLR
import Mathlib.Tactic.LinearCombination
import Mathlib.Tactic.FieldSimp
import Mathlib.Tactic.Positivity
import Mathlib.Analysis.SpecialFunctions.Log.Deriv
/-! Helper lemmas for C06 (lists, sums, batches, `clip_log`). -/
open TfPwaV.ScalarR
namespace TfPwaV.NLLR

theorem eps_pos : (0 : ℝ) < eps := by unfold eps; norm_num

/-! ### sums over lists -/

@[simp] theorem lsum_nil : lsum ([] : List ℝ) = 0 := rfl
@[simp] theorem lsum_cons (x : ℝ) (xs : List ℝ) : lsum (x :: xs) = x + lsum xs := rfl

theorem lsum_append (a b : List ℝ) : lsum (a ++ b) = lsum a + lsum b := by
  induction a with
  | nil => simp
  | cons x xs ih => simp [ih, add_assoc]

theorem lsum_map_mul_left {α : Type} (c : ℝ) (g : α → ℝ) (l : List α) :
    lsum (l.map fun x => c * g x) = c * lsum (l.map g) := by
  induction l with
  | nil => simp
  | cons x xs ih => simp [ih, mul_add]

theorem lsum_map_add {α : Type} (g h : α → ℝ) (l : List α) :
    lsum (l.map fun x => g x + h x) = lsum (l.map g) + lsum (l.map h) := by
  induction l with
  | nil => simp
  | cons x xs ih => simp [ih]; ring

theorem lsum_map_congr {α : Type} (g h : α → ℝ) (l : List α) (H : ∀ x ∈ l, g x = h x) :
    lsum (l.map g) = lsum (l.map h) := by
  induction l with
  | nil => simp
  | cons x xs ih =>
    simp only [List.map_cons, lsum_cons]
    rw [H x (by simp), ih (fun y hy => H y (by simp [hy]))]

theorem lsum_map_const_mul {α : Type} (c : ℝ) (g : α → ℝ) (l : List α) :
    lsum (l.map fun x => g x * c) = lsum (l.map g) * c := by
  induction l with
  | nil => simp
  | cons x xs ih => simp [ih, add_mul]

/-- sum of the per-batch sums = sum over the concatenation -/
theorem lsum_flatten {α : Type} (g : α → ℝ) (bs : List (List α)) :
    lsum (bs.map fun b => lsum (b.map g)) = lsum (bs.flatten.map g) := by
  induction bs with
  | nil => simp
  | cons b bs ih => simp [ih, lsum_append]

theorem lsum_replicate (n : ℕ) (c : ℝ) : lsum (List.replicate n c) = n * c := by
  induction n with
  | zero => simp
  | succ n ih => simp [List.replicate_succ, ih]; ring

theorem lsum_sq_nonneg (w : List ℝ) : 0 ≤ lsum (w.map sq) := by
  induction w with
  | nil => simp
  | cons x xs ih => simp only [List.map_cons, lsum_cons, sq]; nlinarith [mul_self_nonneg x]

/-- Σw ≠ 0 forces Σw² > 0 -/
theorem lsum_sq_pos (w : List ℝ) (h : lsum w ≠ 0) : 0 < lsum (w.map sq) := by
  induction w with
  | nil => exact absurd rfl h
  | cons x xs ih =>
    simp only [List.map_cons, lsum_cons, sq] at *
    by_cases hx : x = 0
    · subst hx
      have := ih (by simpa using h)
      nlinarith
    · have : 0 < x * x := mul_self_pos.mpr hx
      have := lsum_sq_nonneg xs
      nlinarith

/-! ### batches -/

theorem chunkAux_flatten {α : Type} (n : ℕ) (hn : 0 < n) :
    ∀ (fuel : ℕ) (l : List α), l.length ≤ fuel → (chunkAux n fuel l).flatten = l := by
  intro fuel
  induction fuel with
  | zero =>
    intro l hl
    have : l = [] := List.length_eq_zero_iff.mp (Nat.le_zero.mp hl)
    subst this; simp [chunkAux]
  | succ fuel ih =>
    intro l hl
    unfold chunkAux
    by_cases he : l.isEmpty
    · simp [List.isEmpty_iff.mp he]
    · simp only [he, Bool.false_eq_true, ↓reduceIte, List.flatten_cons]
      have hne : l ≠ [] := by simpa [List.isEmpty_iff] using he
      have hpos : 0 < l.length := List.length_pos_iff.mpr hne
      rw [ih (l.drop n) (by simp only [List.length_drop]; omega)]
      exact List.take_append_drop n l

/-- the batches produced by `_data_split` concatenate to the sample (any batch size > 0, dividing or not) -/
theorem chunk_flatten {α : Type} (n : ℕ) (hn : 0 < n) (l : List α) : (chunk n l).flatten = l :=
  chunkAux_flatten n hn l.length l le_rfl

theorem weights_append (a b : List (ℝ × ℝ)) : weights (a ++ b) = weights a ++ weights b := by
  simp [weights]

theorem sumBatches_flatten (t : ℝ → ℝ) (bs : List (List (ℝ × ℝ))) :
    sumBatches t bs = batchSum t bs.flatten := by
  unfold sumBatches batchSum
  exact lsum_flatten (fun p => p.1 * t (p.1 * p.2 / dom p.1)) bs

theorem sumPlain_flatten (t : ℝ → ℝ) (bs : List (List (ℝ × ℝ))) :
    sumPlain t bs = plainSum t bs.flatten := by
  unfold sumPlain plainSum
  exact lsum_flatten (fun p => p.1 * t p.2) bs

theorem sumW_flatten (bs : List (List (ℝ × ℝ))) : sumW bs = lsum (weights bs.flatten) := by
  unfold sumW weights
  exact lsum_flatten (fun p => p.1) bs

/-- the division by the event weight in `_batch_sum` is harmless: `w·t(w f / dom w) = w·t(f)` for every w -/
theorem dom_term (t : ℝ → ℝ) (w f : ℝ) : w * t (w * f / dom w) = w * t f := by
  unfold dom
  by_cases h : w < 0 ∨ 0 < w
  · rw [if_pos h]
    have hw : w ≠ 0 := by rcases h with h | h <;> [exact ne_of_lt h; exact ne_of_gt h]
    have e : w * f / w = f := by field_simp
    rw [e]
  · have hw : w = 0 := by
      rcases lt_trichotomy w 0 with h' | h' | h'
      · exact absurd (Or.inl h') h
      · exact h'
      · exact absurd (Or.inr h') h
    subst hw; simp

theorem batchSum_eq_plain (t : ℝ → ℝ) (b : List (ℝ × ℝ)) : batchSum t b = plainSum t b := by
  unfold batchSum plainSum
  exact lsum_map_congr _ _ b (fun p _ => dom_term t p.1 p.2)

theorem plainSum_kid (b : List (ℝ × ℝ)) : plainSum kid b = dotp b := rfl

/-! ### alpha -/

theorem alphaOf_scaleW (w : List ℝ) (h : lsum w ≠ 0) : alphaOf (scaleW w) = 1 := by
  have h2 := lsum_sq_pos w h
  unfold scaleW
  have e1 : lsum (w.map fun x => alphaOf w * x) = alphaOf w * lsum w := by
    simpa using lsum_map_mul_left (alphaOf w) (fun x => x) w
  have e2 : lsum ((w.map fun x => alphaOf w * x).map sq) = alphaOf w * alphaOf w * lsum (w.map sq) := by
    rw [List.map_map]
    have : (sq ∘ fun x => alphaOf w * x) = fun x => (alphaOf w * alphaOf w) * sq x := by
      funext x; simp [sq]; ring
    rw [this, lsum_map_mul_left]
  unfold alphaOf at e1 e2 ⊢
  rw [e1, e2]
  field_simp

/-! ### clip_log -/

/-- the polynomial the code uses below ε: second-order Taylor polynomial of `log` at ε -/
noncomputable def clipPoly (x : ℝ) : ℝ := Real.log eps + (x - eps) / eps - sq ((x - eps) / eps) / 2

/-- derivative of `clipLog` -/
noncomputable def clipDeriv (x : ℝ) : ℝ := if x > eps then 1 / x else 1 / eps - (x - eps) / (eps * eps)

theorem clipLog_above (x : ℝ) (h : eps < x) : clipLog x = Real.log x := by
  unfold clipLog klog; rw [if_pos h]

theorem clipLog_below (x : ℝ) (h : x ≤ eps) : clipLog x = clipPoly x := by
  unfold clipLog klog clipPoly; rw [if_neg (not_lt.mpr h)]

theorem clipPoly_eps : clipPoly eps = Real.log eps := by
  unfold clipPoly sq; simp

theorem clipPoly_hasDerivAt (x : ℝ) : HasDerivAt clipPoly (1 / eps - (x - eps) / (eps * eps)) x := by
  have he : eps ≠ 0 := ne_of_gt eps_pos
  have h1 : HasDerivAt (fun y : ℝ => (y - eps) / eps) (1 / eps) x := by
    have := ((hasDerivAt_id x).sub_const eps).div_const eps
    simpa using this
  have h2 : HasDerivAt (fun y : ℝ => sq ((y - eps) / eps) / 2) ((x - eps) / (eps * eps)) x := by
    show HasDerivAt (fun y : ℝ => ((y - eps) / eps) * ((y - eps) / eps) / 2) _ x
    have := (h1.mul h1).div_const 2
    exact this.congr_deriv (by ring)
  have := (h1.const_add (Real.log eps)).sub h2
  exact this


/-- piecewise gluing at ε: a function equal to `g` on `(-∞, ε]` and to `h` on `[ε, ∞)` has the common derivative -/
theorem hasDerivAt_glue (F g h : ℝ → ℝ) (d : ℝ) (hl : ∀ y ≤ eps, F y = g y) (hr : ∀ y, eps ≤ y → F y = h y)
    (dg : HasDerivAt g d eps) (dh : HasDerivAt h d eps) : HasDerivAt F d eps := by
  have L : HasDerivWithinAt F d (Set.Iic eps) eps :=
    (dg.hasDerivWithinAt (s := Set.Iic eps)).congr (fun y hy => hl y hy) (hl eps le_rfl)
  have R : HasDerivWithinAt F d (Set.Ici eps) eps :=
    (dh.hasDerivWithinAt (s := Set.Ici eps)).congr (fun y hy => hr y hy) (hr eps le_rfl)
  have U := L.union R
  rw [Set.Iic_union_Ici] at U
  exact hasDerivWithinAt_univ.mp U

theorem clipLog_hasDerivAt (x : ℝ) : HasDerivAt clipLog (clipDeriv x) x := by
  have he := eps_pos
  rcases lt_trichotomy x eps with h | h | h
  · -- below ε: the polynomial
    have hd : clipDeriv x = 1 / eps - (x - eps) / (eps * eps) := by
      unfold clipDeriv; rw [if_neg (not_lt.mpr h.le)]
    rw [hd]
    refine (clipPoly_hasDerivAt x).congr_of_eventuallyEq ?_
    filter_upwards [Iio_mem_nhds h] with y hy
    exact clipLog_below y (le_of_lt hy)
  · subst h
    have hd : clipDeriv eps = 1 / eps := by
      unfold clipDeriv; rw [if_neg (lt_irrefl _)]; simp
    rw [hd]
    refine hasDerivAt_glue clipLog clipPoly Real.log (1 / eps) (fun y hy => clipLog_below y hy) ?_ ?_ ?_
    · intro y hy
      rcases eq_or_lt_of_le hy with h' | h'
      · rw [← h', clipLog_below eps le_rfl, clipPoly_eps]
      · exact clipLog_above y h'
    · have := clipPoly_hasDerivAt eps
      simpa using this
    · have := Real.hasDerivAt_log (ne_of_gt he)
      simpa [one_div] using this
  · have hd : clipDeriv x = 1 / x := by unfold clipDeriv; rw [if_pos h]
    rw [hd]
    have hx : x ≠ 0 := ne_of_gt (he.trans h)
    have := Real.hasDerivAt_log hx
    rw [← one_div] at this
    refine this.congr_of_eventuallyEq ?_
    filter_upwards [Ioi_mem_nhds h] with y hy
    exact clipLog_above y hy

theorem clipLog_continuous : Continuous clipLog :=
  continuous_iff_continuousAt.mpr fun x => (clipLog_hasDerivAt x).continuousAt

/-- second derivative of `clipLog` -/
noncomputable def clipDeriv2 (x : ℝ) : ℝ := if x > eps then -(1 / (x * x)) else -(1 / (eps * eps))

theorem clipDeriv_hasDerivAt (x : ℝ) : HasDerivAt clipDeriv (clipDeriv2 x) x := by
  have he := eps_pos
  have lin : ∀ z : ℝ, HasDerivAt (fun y : ℝ => 1 / eps - (y - eps) / (eps * eps)) (-(1 / (eps * eps))) z := by
    intro z
    have := (((hasDerivAt_id z).sub_const eps).div_const (eps * eps)).const_sub (1 / eps)
    simpa using this
  have inv : ∀ z : ℝ, z ≠ 0 → HasDerivAt (fun y : ℝ => 1 / y) (-(1 / (z * z))) z := by
    intro z hz
    have := hasDerivAt_inv hz
    simp only [one_div]
    exact this.congr_deriv (by rw [pow_two])
  rcases lt_trichotomy x eps with h | h | h
  · have hd : clipDeriv2 x = -(1 / (eps * eps)) := by unfold clipDeriv2; rw [if_neg (not_lt.mpr h.le)]
    rw [hd]
    refine (lin x).congr_of_eventuallyEq ?_
    filter_upwards [Iio_mem_nhds h] with y hy
    unfold clipDeriv; rw [if_neg (not_lt.mpr (le_of_lt hy))]
  · subst h
    have hd : clipDeriv2 eps = -(1 / (eps * eps)) := by unfold clipDeriv2; rw [if_neg (lt_irrefl _)]
    rw [hd]
    refine hasDerivAt_glue clipDeriv (fun y => 1 / eps - (y - eps) / (eps * eps)) (fun y => 1 / y) _ ?_ ?_ (lin eps) (inv eps (ne_of_gt he))
    · intro y hy; unfold clipDeriv; rw [if_neg (not_lt.mpr hy)]
    · intro y hy
      rcases eq_or_lt_of_le hy with h' | h'
      · rw [← h']; unfold clipDeriv; rw [if_neg (lt_irrefl _)]; simp
      · unfold clipDeriv; rw [if_pos h']
  · have hd : clipDeriv2 x = -(1 / (x * x)) := by unfold clipDeriv2; rw [if_pos h]
    rw [hd]
    refine (inv x (ne_of_gt (he.trans h))).congr_of_eventuallyEq ?_
    filter_upwards [Ioi_mem_nhds h] with y hy
    have hy' : y > eps := hy
    unfold clipDeriv; rw [if_pos hy']


/-! ### events with rescaled weights -/

/-- events with all weights multiplied by `a` -/
def scaleEv (a : ℝ) (d : List (ℝ × ℝ)) : List (ℝ × ℝ) := d.map fun p => (a * p.1, p.2)

theorem weights_scaleEv (a : ℝ) (d : List (ℝ × ℝ)) : weights (scaleEv a d) = (weights d).map fun x => a * x := by
  simp [weights, scaleEv, List.map_map, Function.comp_def]

theorem weights_scaleEv_alpha (d : List (ℝ × ℝ)) :
    weights (scaleEv (alphaOf (weights d)) d) = scaleW (weights d) := by
  rw [weights_scaleEv]; rfl

theorem reweight_of_alpha_one (d : List (ℝ × ℝ)) (h : alphaOf (weights d) = 1) : reweight d = d := by
  unfold reweight
  rw [h]
  simp

/-- `get_weight_data` applied again to already α-scaled events changes nothing -/
theorem reweight_scaleEv (d : List (ℝ × ℝ)) (h : lsum (weights d) ≠ 0) :
    reweight (scaleEv (alphaOf (weights d)) d) = scaleEv (alphaOf (weights d)) d := by
  apply reweight_of_alpha_one
  rw [weights_scaleEv_alpha]
  exact alphaOf_scaleW _ h

theorem lsum_weights_scaleEv (a : ℝ) (d : List (ℝ × ℝ)) : lsum (weights (scaleEv a d)) = a * lsum (weights d) := by
  rw [weights_scaleEv]
  simpa using lsum_map_mul_left a (fun x => x) (weights d)

theorem plainSum_scaleEv (t : ℝ → ℝ) (a : ℝ) (d : List (ℝ × ℝ)) :
    plainSum t (scaleEv a d) = a * plainSum t d := by
  unfold plainSum scaleEv
  rw [List.map_map]
  have : ((fun p : ℝ × ℝ => p.1 * t p.2) ∘ fun p : ℝ × ℝ => (a * p.1, p.2)) = fun p => a * (p.1 * t p.2) := by
    funext p; simp [mul_assoc]
  rw [this, lsum_map_mul_left]

theorem lsum_weights_normMcEv (m : List (ℝ × ℝ)) (h : lsum (weights m) ≠ 0) :
    lsum (weights (normMcEv m)) = 1 := by
  unfold normMcEv weights
  rw [List.map_map]
  have : (Prod.fst ∘ fun p : ℝ × ℝ => (p.1 / lsum (List.map Prod.fst m), p.2)) = fun p => p.1 * (1 / lsum (List.map Prod.fst m)) := by
    funext p; simp [div_eq_mul_inv]
  rw [this, lsum_map_const_mul]
  unfold weights at h
  field_simp

theorem dotp_normMcEv (m : List (ℝ × ℝ)) : dotp (normMcEv m) = dotp m / lsum (weights m) := by
  unfold normMcEv dotp
  rw [List.map_map]
  have : ((fun p : ℝ × ℝ => p.1 * p.2) ∘ fun p : ℝ × ℝ => (p.1 / lsum (weights m), p.2)) = fun p => (p.1 * p.2) * (1 / lsum (weights m)) := by
    funext p; simp [div_eq_mul_inv]; ring
  rw [this, lsum_map_const_mul]
  ring

theorem normMcEv_of_sum_one (m : List (ℝ × ℝ)) (h : lsum (weights m) = 1) : normMcEv m = m := by
  unfold normMcEv; rw [h]; simp

theorem zip_scaleW (W f : List ℝ) : (scaleW W).zip f = scaleEv (alphaOf W) (W.zip f) := by
  unfold scaleW scaleEv
  rw [List.zip_map_left]
  simp [Prod.map]

theorem weights_zip (W f : List ℝ) (h : f.length = W.length) : weights (W.zip f) = W := by
  unfold weights
  rw [List.map_fst_zip (by omega)]

theorem zip_normMc (v g : List ℝ) (h : g.length = v.length) : (normMc v).zip g = normMcEv (v.zip g) := by
  unfold normMc normMcEv
  rw [List.zip_map_left, weights_zip v g h]
  simp [Prod.map]

end TfPwaV.NLLR
