import TfPwaV.Proofs.AxesInd
/-!
Helper lemmas for `Props/C01h.lean`, part 2: one vertex of `cal_helicity_angle` seen from two base frames.

`FrameChange U F F'`: the SU(2) element `U` turns coordinates along the orthonormal frame `F` into coordinates along `F'`
(`coords F' q = lor U (coords F q)` for every four-vector).  For a daughter with helicity-frame momentum `r`:

* `vertex_compose`: the passive vertex rotations `r = Rotation_y(β)·Rotation_z(α)` the code builds from the angles
  `angle_zx_z_getx` extracts in the two frames (with the code's `alpha` range shift, any bias) satisfy
  `r' · U = Rotation_z(γ) · r` for ONE real `γ` — exactly, in SU(2).
* `vertex_compose_level2`: … and the helicity frames handed to the daughter differ by `Rotation_z(γ)` with the SAME `γ`:
  for every momentum `w` in the daughter's rest frame the next-level polar angle and the next-level `x2` are literally
  equal and the next-level azimuth is lowered by `γ` (mod `2π`).
-/
open TfPwaV.ScalarR
namespace TfPwaV.AxesInd
open TfPwaV.SU2R TfPwaV.AlignR TfPwaV.KinR TfPwaV.AngleR TfPwaV.SL2CR TfPwaV.LorentzSLR TfPwaV.CascadeR TfPwaV.RouteRestR
open TfPwaV.C12 TfPwaV.C02 TfPwaV.C01 TfPwaV.C11

/-- `U` turns coordinates along `(X, Y, Z)` into coordinates along `(X', Y', Z')` -/
def FrameChange (U : M2) (X Y Z X' Y' Z' : V3) : Prop :=
  ∀ q : V4, coords X' Y' Z' q = lor U (coords X Y Z q)

theorem polar_to_z (m α β ω : ℝ) :
    rotYv β (rotZv α (polar m α β ω)) = ⟨m * Real.cosh ω, 0, 0, m * Real.sinh ω⟩ := by
  have h1 := Real.sin_sq_add_cos_sq α
  have h2 := Real.sin_sq_add_cos_sq β
  ext <;> simp only [rotYv, rotZv, polar, kcos, ksin]
  · linear_combination (m * Real.sinh ω * Real.sin β * Real.cos β) * h1
  · ring
  · linear_combination (m * Real.sinh ω * Real.sin β ^ 2) * h1 + m * Real.sinh ω * h2

theorem stepL_eq_lor (s : Step) (p : V4) : stepL s p = lor (stepM s) p := by
  apply herm_inj
  rw [herm_lor, stepM_acts]

theorem rotZv_eq_lor (γ : ℝ) (p : V4) : rotZv γ p = lor (rotZ γ) p := by
  apply herm_inj
  rw [herm_lor, TfPwaV.SL2CR.rotZ_acts]

/-- diagonal matrices commute -/
theorem boostZ_rotZ_comm (ω γ : ℝ) : (boostZ ω).mul (rotZ γ) = (rotZ γ).mul (boostZ ω) := by
  rw [rotZ_eq]
  unfold boostZ
  ext <;> simp [M2.mul, Cx.mul, Cx.add, Cx.zero, Cx.inv, Cx.normSq] <;> ring

theorem rotZv_polar (γ m α β ω : ℝ) : rotZv γ (polar m α β ω) = polar m (α - γ) β ω := by
  ext <;> simp only [rotZv, polar, kcos, ksin, Real.cos_sub, Real.sin_sub] <;> ring

section vertex
variable (X Y Z X' Y' Z' : V3) (hF : IsFrame X Y Z) (hF' : IsFrame X' Y' Z') (s s' : ℝ) (hs : eps ≤ s) (hs' : eps ≤ s')
  (x x' : V3) (hx : crossUnit (V3.smul s Z) x = Y) (hx' : crossUnit (V3.smul s' Z') x' = Y')
  (U : M2) (hU : IsSU2 U) (hch : FrameChange U X Y Z X' Y' Z')
  (r : V4) (hok : StepOK (V3.smul s Z) r) (hok' : StepOK (V3.smul s' Z') r) (bias bias' : ℝ)

include hF hF' hs hs' hx hx' hU hch hok hok' in
/-- **one vertex, two base frames**: `r' · U = Rotation_z(γ) · r` -/
theorem vertex_compose :
    ∃ γ : ℝ, (stepR (shiftAlpha (angleZxZGetx (V3.smul s' Z') x' r.vect).alpha bias')
        (angleZxZGetx (V3.smul s' Z') x' r.vect).beta).mul U =
      (rotZ γ).mul (stepR (shiftAlpha (angleZxZGetx (V3.smul s Z) x r.vect).alpha bias)
        (angleZxZGetx (V3.smul s Z) x r.vect).beta) := by
  obtain ⟨ht, hq, hg⟩ := hok
  obtain ⟨_, _, hg'⟩ := hok'
  have VF := vertex_facts X Y Z hF s hs x hx r ht hq hg bias
  have VF' := vertex_facts X' Y' Z' hF' s' hs' x' hx' r ht hq hg' bias'
  generalize shiftAlpha (angleZxZGetx (V3.smul s Z) x r.vect).alpha bias = α at VF ⊢
  generalize shiftAlpha (angleZxZGetx (V3.smul s' Z') x' r.vect).alpha bias' = α' at VF' ⊢
  generalize (angleZxZGetx (V3.smul s Z) x r.vect).beta = β at VF ⊢
  generalize (angleZxZGetx (V3.smul s' Z') x' r.vect).beta = β' at VF' ⊢
  have t1 := VF.tracks
  have t2 := VF'.tracks
  simp only at t1 t2
  -- the momentum along z
  set m := Real.sqrt r.m2 with hm
  set ω := omegaP r with hω
  obtain ⟨_, hS⟩ := omegaP_spec r ht hq
  have hp : m * Real.sinh ω ≠ 0 := by
    obtain ⟨Y2, Z2, P, F2, hP, hv, _⟩ := VF.ex
    have hn : r.vect.norm2 = P * P := by
      rw [hv, norm2_eq_dot, dot_smul_left, dot_smul_right, F2.zz]; ring
    rw [hS, hn, Real.sqrt_mul_self hP.le]
    exact hP.ne'
  -- W = r' U r⁻¹ fixes (m cosh ω, 0, 0, m sinh ω)
  have hW : IsSU2 (((stepR α' β').mul U).mul (stepR α β).inv) :=
    isSU2_mul _ _ (isSU2_mul _ _ (isSU2_stepR _ _) hU) (isSU2_inv _ (isSU2_stepR _ _))
  have hd : (stepR α β).det = Cx.one := isSU2_det _ (isSU2_stepR _ _)
  have e1 : act (stepR α β) (herm (coords X Y Z r)) = herm ⟨m * Real.cosh ω, 0, 0, m * Real.sinh ω⟩ := by
    rw [stepR_acts, t1, polar_to_z]
  have e2 : act (stepR α' β') (herm (coords X' Y' Z' r)) = herm ⟨m * Real.cosh ω, 0, 0, m * Real.sinh ω⟩ := by
    rw [stepR_acts, t2, polar_to_z]
  have hfix : act (((stepR α' β').mul U).mul (stepR α β).inv) (herm ⟨m * Real.cosh ω, 0, 0, m * Real.sinh ω⟩) =
      herm ⟨m * Real.cosh ω, 0, 0, m * Real.sinh ω⟩ := by
    rw [act_mul, act_mul]
    conv_lhs => rw [← e1, act_inv_act _ _ hd, ← herm_lor, ← hch r, e2]
  obtain ⟨γ, hγ⟩ := su2_fix_z _ hW _ _ hp hfix
  refine ⟨γ, ?_⟩
  rw [← hγ, su2_mul_assoc, (su2_inv _ hd).1, M2.mul_one]

include hF hF' hs hs' hx hx' hU hch hok hok' in
/-- **… and the next level**: the same `γ` lowers the azimuth of every momentum `w = rest_vector(r, u)` of the daughter's
rest frame; the polar angle and the `x2` handed further down do not see the base axes at all. -/
theorem vertex_compose_level2 (hreg : eps < r.boostVector.norm2)
    (hP : eps ≤ (r.vect.cross (angleZxZGetx (V3.smul s Z) x r.vect).x2).norm)
    (hP' : eps ≤ (r.vect.cross (angleZxZGetx (V3.smul s' Z') x' r.vect).x2).norm) :
    ∃ γ : ℝ, (stepR (shiftAlpha (angleZxZGetx (V3.smul s' Z') x' r.vect).alpha bias')
        (angleZxZGetx (V3.smul s' Z') x' r.vect).beta).mul U =
      (rotZ γ).mul (stepR (shiftAlpha (angleZxZGetx (V3.smul s Z) x r.vect).alpha bias)
        (angleZxZGetx (V3.smul s Z) x r.vect).beta) ∧
      ∀ u : V4, StepOK r.vect (r.restVector u) →
        (angleZxZGetx r.vect (angleZxZGetx (V3.smul s' Z') x' r.vect).x2 (r.restVector u).vect).beta =
          (angleZxZGetx r.vect (angleZxZGetx (V3.smul s Z) x r.vect).x2 (r.restVector u).vect).beta ∧
        (angleZxZGetx r.vect (angleZxZGetx (V3.smul s' Z') x' r.vect).x2 (r.restVector u).vect).x2 =
          (angleZxZGetx r.vect (angleZxZGetx (V3.smul s Z) x r.vect).x2 (r.restVector u).vect).x2 ∧
        Real.cos (angleZxZGetx r.vect (angleZxZGetx (V3.smul s' Z') x' r.vect).x2 (r.restVector u).vect).alpha =
          Real.cos ((angleZxZGetx r.vect (angleZxZGetx (V3.smul s Z) x r.vect).x2 (r.restVector u).vect).alpha - γ) ∧
        Real.sin (angleZxZGetx r.vect (angleZxZGetx (V3.smul s' Z') x' r.vect).x2 (r.restVector u).vect).alpha =
          Real.sin ((angleZxZGetx r.vect (angleZxZGetx (V3.smul s Z) x r.vect).x2 (r.restVector u).vect).alpha - γ) := by
  obtain ⟨γ, hγ⟩ := vertex_compose X Y Z X' Y' Z' hF hF' s s' hs hs' x x' hx hx' U hU hch r hok hok' bias bias'
  refine ⟨γ, hγ, fun u hu => ⟨rfl, rfl, ?_⟩⟩
  obtain ⟨ht, hq, hg⟩ := hok
  obtain ⟨_, _, hg'⟩ := hok'
  have VF := vertex_facts X Y Z hF s hs x hx r ht hq hg bias
  have VF' := vertex_facts X' Y' Z' hF' s' hs' x' hx' r ht hq hg' bias'
  obtain ⟨Y2, Z2, P, F2, hPpos, hv, hst⟩ := VF.ex
  obtain ⟨Y2', Z2', P', F2', hPpos', hv', hst'⟩ := VF'.ex
  have hst := hst hreg
  have hst' := hst' hreg
  set o := angleZxZGetx (V3.smul s Z) x r.vect with ho
  set o' := angleZxZGetx (V3.smul s' Z') x' r.vect with ho'
  -- the daughter's frames differ by Rotation_z(γ)
  have hframes : ∀ q, coords o'.x2 Y2' Z2' (r.restVector q) = rotZv γ (coords o.x2 Y2 Z2 (r.restVector q)) := by
    intro q
    rw [hst', hst, hch q, stepL_eq_lor, stepL_eq_lor, rotZv_eq_lor, ← lor_mul, ← lor_mul]
    congr 1
    unfold stepM
    simp only
    rw [su2_mul_assoc, hγ, ← su2_mul_assoc, boostZ_rotZ_comm, su2_mul_assoc]
  -- level-2 vertex facts in both daughter frames
  have hPe : eps ≤ P := by
    rw [hv, norm_cross_smul F2 P hPpos, F2.xx, dot_comm Y2 o.x2, F2.xy] at hP
    have : Real.sqrt (1 * 1 + 0 * 0) = 1 := by norm_num
    rw [this, mul_one] at hP; exact hP
  have hPe' : eps ≤ P' := by
    rw [hv', norm_cross_smul F2' P' hPpos', F2'.xx, dot_comm Y2' o'.x2, F2'.xy] at hP'
    have : Real.sqrt (1 * 1 + 0 * 0) = 1 := by norm_num
    rw [this, mul_one] at hP'; exact hP'
  have hx2 : crossUnit (V3.smul P Z2) o.x2 = Y2 :=
    crossUnit_eq _ _ Y2 P (by rw [cross_smul_left, F2.czx]) (by rw [norm2_eq_dot]; exact F2.yy) hPe
  have hx2' : crossUnit (V3.smul P' Z2') o'.x2 = Y2' :=
    crossUnit_eq _ _ Y2' P' (by rw [cross_smul_left, F2'.czx]) (by rw [norm2_eq_dot]; exact F2'.yy) hPe'
  obtain ⟨wt, wq, wg⟩ := hu
  have wg' := wg
  rw [hv] at wg
  rw [hv'] at wg'
  have V2 := vertex_facts o.x2 Y2 Z2 F2 P hPe o.x2 hx2 (r.restVector u) wt wq wg 0
  have V2' := vertex_facts o'.x2 Y2' Z2' F2' P' hPe' o'.x2 hx2' (r.restVector u) wt wq wg' 0
  rw [← hv] at V2
  rw [← hv'] at V2'
  have t1 := V2.tracks
  have t2 := V2'.tracks
  simp only at t1 t2
  obtain ⟨c1, s1⟩ := shiftAlpha_cos_sin (angleZxZGetx r.vect o.x2 (r.restVector u).vect).alpha 0
  obtain ⟨c2, s2⟩ := shiftAlpha_cos_sin (angleZxZGetx r.vect o'.x2 (r.restVector u).vect).alpha 0
  rw [polar_congr _ _ _ _ _ c1 s1] at t1
  rw [polar_congr _ _ _ _ _ c2 s2] at t2
  rw [hframes u, t1, rotZv_polar] at t2
  -- β is the same expression on both sides
  have hβ : (angleZxZGetx r.vect o'.x2 (r.restVector u).vect).beta =
      (angleZxZGetx r.vect o.x2 (r.restVector u).vect).beta := rfl
  rw [hβ] at t2
  set m2 := Real.sqrt (r.restVector u).m2
  set ω2 := omegaP (r.restVector u)
  set β2 := (angleZxZGetx r.vect o.x2 (r.restVector u).vect).beta
  set a2 := (angleZxZGetx r.vect o.x2 (r.restVector u).vect).alpha
  set a2' := (angleZxZGetx r.vect o'.x2 (r.restVector u).vect).alpha
  -- the transverse momentum does not vanish
  have hne : m2 * Real.sinh ω2 * Real.sin β2 ≠ 0 := by
    intro h0
    have hxz : o.x2.dot (r.restVector u).vect = 0 := by
      have := congrArg V4.x t1
      simp only [coords, polar] at this
      rw [this]
      linear_combination (Real.cos a2) * h0
    have hyz : Y2.dot (r.restVector u).vect = 0 := by
      have := congrArg V4.y t1
      simp only [coords, polar] at this
      rw [this]
      linear_combination (Real.sin a2) * h0
    rw [norm_cross_smul F2 P hPpos, hxz, hyz] at wg
    have : Real.sqrt (0 * 0 + 0 * 0) = 0 := by norm_num
    rw [this, mul_zero] at wg
    linarith [eps_pos]
  have ex := congrArg V4.x t2
  have ey := congrArg V4.y t2
  simp only [polar] at ex ey
  constructor
  · have : m2 * Real.sinh ω2 * Real.sin β2 * (Real.cos a2' - Real.cos (a2 - γ)) = 0 := by
      linear_combination -ex
    rcases mul_eq_zero.mp this with h | h
    · exact absurd h hne
    · linarith
  · have : m2 * Real.sinh ω2 * Real.sin β2 * (Real.sin a2' - Real.sin (a2 - γ)) = 0 := by
      linear_combination -ey
    rcases mul_eq_zero.mp this with h | h
    · exact absurd h hne
    · linarith

end vertex

end TfPwaV.AxesInd
