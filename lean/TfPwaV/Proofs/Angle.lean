import TfPwaV.Gen.AngleR
import TfPwaV.Proofs.Kin
import Mathlib.Analysis.SpecialFunctions.Complex.Arg
/-! Vector algebra for the single-vertex helicity-angle theorem of C11 (`Props/C11c.lean`). -/
open TfPwaV.ScalarR
namespace TfPwaV.KinR

@[ext] theorem V3.ext' {a b : V3} (h1 : a.x = b.x) (h2 : a.y = b.y) (h3 : a.z = b.z) : a = b := by
  cases a; cases b; simp_all

def V3.zero : V3 := ⟨0, 0, 0⟩

theorem cross_add_right (a b c : V3) : a.cross (b.add c) = (a.cross b).add (a.cross c) := by
  ext <;> simp [V3.cross, V3.add] <;> ring
theorem cross_add_left (a b c : V3) : (a.add b).cross c = (a.cross c).add (b.cross c) := by
  ext <;> simp [V3.cross, V3.add] <;> ring
theorem cross_smul_right (s : ℝ) (a b : V3) : a.cross (V3.smul s b) = V3.smul s (a.cross b) := by
  ext <;> simp [V3.cross, V3.smul] <;> ring
theorem cross_smul_left (s : ℝ) (a b : V3) : (V3.smul s a).cross b = V3.smul s (a.cross b) := by
  ext <;> simp [V3.cross, V3.smul] <;> ring
theorem cross_self (a : V3) : a.cross a = V3.zero := by
  ext <;> simp [V3.cross, V3.zero] <;> ring
theorem cross_anti (a b : V3) : a.cross b = V3.smul (-1) (b.cross a) := by
  ext <;> simp [V3.cross, V3.smul] <;> ring
theorem dot_add_right (a b c : V3) : a.dot (b.add c) = a.dot b + a.dot c := by
  simp [V3.dot, V3.add]; ring
theorem dot_add_left (a b c : V3) : (a.add b).dot c = a.dot c + b.dot c := by
  simp [V3.dot, V3.add]; ring
theorem dot_smul_right (s : ℝ) (a b : V3) : a.dot (V3.smul s b) = s * a.dot b := by
  simp [V3.dot, V3.smul]; ring
theorem dot_smul_left (s : ℝ) (a b : V3) : (V3.smul s a).dot b = s * a.dot b := by
  simp [V3.dot, V3.smul]; ring
theorem dot_comm (a b : V3) : a.dot b = b.dot a := by
  simp [V3.dot]; ring
theorem norm2_eq_dot (a : V3) : a.norm2 = a.dot a := rfl
theorem add_zero' (a : V3) : a.add V3.zero = a := by ext <;> simp [V3.add, V3.zero]
theorem smul_zero' (s : ℝ) : V3.smul s V3.zero = V3.zero := by ext <;> simp [V3.smul, V3.zero]
theorem smul_smul' (s t : ℝ) (a : V3) : V3.smul s (V3.smul t a) = V3.smul (s * t) a := by
  ext <;> simp [V3.smul] <;> ring
theorem one_smul' (a : V3) : V3.smul 1 a = a := by ext <;> simp [V3.smul]
/-- Lagrange identity -/
theorem norm2_cross (a b : V3) : (a.cross b).norm2 = a.norm2 * b.norm2 - (a.dot b) ^ 2 := by
  simp [V3.cross, V3.norm2, V3.dot]; ring

/-- normalising a positive multiple of a unit vector gives the unit vector -/
theorem unit_smul (s : ℝ) (u : V3) (hs : 0 < s) (hu : u.norm2 = 1) : (V3.smul s u).unit = u := by
  have hn : (V3.smul s u).norm = s := by
    unfold V3.norm ksqrt
    have : (V3.smul s u).norm2 = s * s := by
      have := hu; simp only [V3.norm2, V3.smul] at *; nlinarith
    rw [this, Real.sqrt_mul_self hs.le]
  unfold V3.unit
  simp only [hn]
  ext <;> simp [V3.smul] <;> field_simp

end TfPwaV.KinR

namespace TfPwaV.AngleR
open TfPwaV.KinR

/-- `cross_unit` away from the degenerate branch: if `a × b = s·u` with `u` a unit vector and `s ≥ ε` -/
theorem crossUnit_eq (a b u : V3) (s : ℝ) (h : a.cross b = V3.smul s u) (hu : u.norm2 = 1) (hs : eps ≤ s) :
    crossUnit a b = u := by
  have hs0 : 0 < s := lt_of_lt_of_le eps_pos hs
  have hn : (a.cross b).norm = s := by
    unfold V3.norm ksqrt
    have : (V3.smul s u).norm2 = s * s := by
      have := hu; simp only [V3.norm2, V3.smul] at *; nlinarith
    rw [h, this, Real.sqrt_mul_self hs0.le]
  unfold crossUnit
  simp only [hn, if_neg (not_lt.mpr hs)]
  rw [h]
  exact unit_smul s u hs0 hu

theorem eps_le_one : eps ≤ (1 : ℝ) := by unfold eps; norm_num

/-- `atan2(sin t, cos t) = t` on `(-π, π]` -/
theorem atan2_sin_cos (t : ℝ) (h1 : -Real.pi < t) (h2 : t ≤ Real.pi) : katan2 (Real.sin t) (Real.cos t) = t := by
  unfold katan2
  have : (⟨Real.cos t, Real.sin t⟩ : ℂ) = Complex.cos t + Complex.sin t * Complex.I := by
    apply Complex.ext <;> simp [Complex.cos_ofReal_re, Complex.sin_ofReal_re, Complex.cos_ofReal_im, Complex.sin_ofReal_im]
  rw [this]
  exact Complex.arg_cos_add_sin_mul_I ⟨h1, h2⟩

end TfPwaV.AngleR
