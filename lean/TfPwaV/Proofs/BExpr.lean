import TfPwaV.Gen.BExprR
import TfPwaV.Gen.BoundR
import Mathlib.Analysis.Calculus.Deriv.Add
import Mathlib.Analysis.Calculus.Deriv.Mul
import Mathlib.Analysis.Calculus.Deriv.Inv
import Mathlib.Analysis.Calculus.Deriv.Pow
import Mathlib.Analysis.Calculus.Deriv.Comp
import Mathlib.Analysis.SpecialFunctions.ExpDeriv
import Mathlib.Analysis.SpecialFunctions.Log.Deriv
import Mathlib.Analysis.SpecialFunctions.Sqrt
import Mathlib.Analysis.SpecialFunctions.Trigonometric.Deriv
import Mathlib.Analysis.SpecialFunctions.Trigonometric.DerivHyp
import Mathlib.Tactic.FieldSimp
import Mathlib.Tactic.Ring
import Mathlib.Tactic.Positivity
import Mathlib.Tactic.Linarith
import Mathlib.Tactic.LinearCombination
import Mathlib.Tactic.NormNum
/-! Real-number lemmas for C16b: the symbolic derivative `diff` of a custom `Bound` expression IS the derivative of
its value (`HasDerivAt`), wherever the side conditions `Dom` hold; `Dom` is closed under `diff`; expressions without
`div`/`log`/`sqrt` have no side conditions. -/
open TfPwaV.ScalarR

namespace TfPwaV.BExprR

/-- side conditions of the differentiation rules, as a proposition over ℝ (same clauses as `domB`) -/
def Dom : Expr → ℝ → Prop
  | .x, _ => True
  | .const _, _ => True
  | .add e f, x => Dom e x ∧ Dom f x
  | .sub e f, x => Dom e x ∧ Dom f x
  | .mul e f, x => Dom e x ∧ Dom f x
  | .div e f, x => Dom e x ∧ Dom f x ∧ eval f x ≠ 0
  | .neg e, x => Dom e x
  | .exp e, x => Dom e x
  | .log e, x => Dom e x ∧ 0 < eval e x
  | .sin e, x => Dom e x
  | .cos e, x => Dom e x
  | .tanh e, x => Dom e x
  | .sqrt e, x => Dom e x ∧ 0 < eval e x
  | .pow e _, x => Dom e x

/-- the executable check `domB` (instantiated at ℝ) decides `Dom` -/
theorem domB_iff (e : Expr) (x : ℝ) : domB e x = true ↔ Dom e x := by
  induction e with
  | x => simp [domB, Dom]
  | const c => simp [domB, Dom]
  | add e f ihe ihf => simp [domB, Dom, ihe, ihf]
  | sub e f ihe ihf => simp [domB, Dom, ihe, ihf]
  | mul e f ihe ihf => simp [domB, Dom, ihe, ihf]
  | div e f ihe ihf => simp [domB, Dom, ihe, ihf, and_assoc]
  | neg e ih => simp [domB, Dom, ih]
  | exp e ih => simp [domB, Dom, ih]
  | log e ih => simp [domB, Dom, ih]
  | sin e ih => simp [domB, Dom, ih]
  | cos e ih => simp [domB, Dom, ih]
  | tanh e ih => simp [domB, Dom, ih]
  | sqrt e ih => simp [domB, Dom, ih]
  | pow e n ih => simp [domB, Dom, ih]

theorem kpowN_eq (x : ℝ) (n : ℕ) : kpowN x n = x ^ n := by
  induction n with
  | zero => simp [kpowN]
  | succ n ih => rw [kpowN, ih, pow_succ']

theorem hasDerivAt_tanh (x : ℝ) : HasDerivAt Real.tanh (1 - Real.tanh x * Real.tanh x) x := by
  have hc : Real.cosh x ≠ 0 := (Real.cosh_pos x).ne'
  have h := (Real.hasDerivAt_sinh x).fun_div (Real.hasDerivAt_cosh x) hc
  have hf : Real.tanh = fun y => Real.sinh y / Real.cosh y := funext Real.tanh_eq_sinh_div_cosh
  have key : 1 - Real.tanh x * Real.tanh x =
      (Real.cosh x * Real.cosh x - Real.sinh x * Real.sinh x) / Real.cosh x ^ 2 := by
    rw [Real.tanh_eq_sinh_div_cosh]; field_simp
  rw [key, hf]
  exact h

-- `eval` as a function of `x`, one unfolding per constructor
theorem eval_x_fn : eval .x = fun y => y := rfl
theorem eval_const_fn (c : ℝ) : eval (.const c) = fun _ => c := rfl
theorem eval_add_fn (e f : Expr) : eval (.add e f) = fun y => eval e y + eval f y := rfl
theorem eval_sub_fn (e f : Expr) : eval (.sub e f) = fun y => eval e y - eval f y := rfl
theorem eval_mul_fn (e f : Expr) : eval (.mul e f) = fun y => eval e y * eval f y := rfl
theorem eval_div_fn (e f : Expr) : eval (.div e f) = fun y => eval e y / eval f y := rfl
theorem eval_neg_fn (e : Expr) : eval (.neg e) = fun y => -eval e y := rfl
theorem eval_exp_fn (e : Expr) : eval (.exp e) = fun y => Real.exp (eval e y) := rfl
theorem eval_log_fn (e : Expr) : eval (.log e) = fun y => Real.log (eval e y) := rfl
theorem eval_sin_fn (e : Expr) : eval (.sin e) = fun y => Real.sin (eval e y) := rfl
theorem eval_cos_fn (e : Expr) : eval (.cos e) = fun y => Real.cos (eval e y) := rfl
theorem eval_tanh_fn (e : Expr) : eval (.tanh e) = Real.tanh ∘ eval e := rfl
theorem eval_sqrt_fn (e : Expr) : eval (.sqrt e) = fun y => Real.sqrt (eval e y) := rfl
theorem eval_pow_fn (e : Expr) (n : ℕ) : eval (.pow e n) = fun y => eval e y ^ n := by
  funext y; simp only [eval, kpowN_eq]

/-- **the symbolic derivative is the derivative** -/
theorem diff_is_deriv (e : Expr) (x : ℝ) (h : Dom e x) : HasDerivAt (eval e) (eval (diff e) x) x := by
  induction e with
  | x => rw [eval_x_fn]; simp only [diff, eval]; exact hasDerivAt_id x
  | const c => rw [eval_const_fn]; simp only [diff, eval]; exact hasDerivAt_const x c
  | add e f ihe ihf =>
    rw [eval_add_fn]; simp only [diff, eval]
    exact (ihe h.1).fun_add (ihf h.2)
  | sub e f ihe ihf =>
    rw [eval_sub_fn]; simp only [diff, eval]
    exact (ihe h.1).fun_sub (ihf h.2)
  | mul e f ihe ihf =>
    rw [eval_mul_fn]; simp only [diff, eval]
    exact (ihe h.1).fun_mul (ihf h.2)
  | div e f ihe ihf =>
    rw [eval_div_fn]; simp only [diff, eval]
    have := (ihe h.1).fun_div (ihf h.2.1) h.2.2
    rwa [sq] at this
  | neg e ih =>
    rw [eval_neg_fn]; simp only [diff, eval]
    exact (ih h).fun_neg
  | exp e ih =>
    rw [eval_exp_fn]; simp only [diff, eval, kexp]
    exact (ih h).exp
  | log e ih =>
    rw [eval_log_fn]; simp only [diff, eval]
    exact (ih h.1).log h.2.ne'
  | sin e ih =>
    rw [eval_sin_fn]; simp only [diff, eval, kcos]
    exact (ih h).sin
  | cos e ih =>
    rw [eval_cos_fn]; simp only [diff, eval, ksin]
    have := (ih h).cos
    rwa [neg_mul] at this
  | tanh e ih =>
    rw [eval_tanh_fn]; simp only [diff, eval, ktanh]
    exact (hasDerivAt_tanh (eval e x)).comp x (ih h)
  | sqrt e ih =>
    rw [eval_sqrt_fn]; simp only [diff, eval, ksqrt]
    exact (ih h.1).sqrt h.2.ne'
  | pow e n ih =>
    rw [eval_pow_fn]
    cases n with
    | zero => simp only [diff, eval, pow_zero]; exact hasDerivAt_const x 1
    | succ n =>
      simp only [diff, eval, kofNat, kpowN_eq]
      have := (ih h).fun_pow (n + 1)
      simpa using this

/-- the side conditions of `f` imply those of `diff f` -/
theorem dom_diff (e : Expr) (x : ℝ) (h : Dom e x) : Dom (diff e) x := by
  induction e with
  | x => trivial
  | const c => trivial
  | add e f ihe ihf => exact ⟨ihe h.1, ihf h.2⟩
  | sub e f ihe ihf => exact ⟨ihe h.1, ihf h.2⟩
  | mul e f ihe ihf => exact ⟨⟨ihe h.1, h.2⟩, ⟨h.1, ihf h.2⟩⟩
  | div e f ihe ihf =>
    exact ⟨⟨⟨ihe h.1, h.2.1⟩, ⟨h.1, ihf h.2.1⟩⟩, ⟨h.2.1, h.2.1⟩, mul_ne_zero h.2.2 h.2.2⟩
  | neg e ih => exact ih h
  | exp e ih => exact ⟨h, ih h⟩
  | log e ih => exact ⟨ih h.1, h.1, h.2.ne'⟩
  | sin e ih => exact ⟨h, ih h⟩
  | cos e ih => exact ⟨h, ih h⟩
  | tanh e ih => exact ⟨⟨trivial, h, h⟩, ih h⟩
  | sqrt e ih =>
    refine ⟨ih h.1, ⟨trivial, h.1, h.2⟩, ?_⟩
    show (2 : ℝ) * Real.sqrt (eval e x) ≠ 0
    exact mul_ne_zero two_ne_zero (Real.sqrt_pos.2 h.2).ne'
  | pow e n ih =>
    cases n with
    | zero => trivial
    | succ n => exact ⟨⟨trivial, h⟩, ih h⟩

theorem diff2_is_deriv (e : Expr) (x : ℝ) (h : Dom e x) :
    HasDerivAt (eval (diff e)) (eval (diff (diff e)) x) x :=
  diff_is_deriv _ _ (dom_diff e x h)

/-- every iterate `diffN k e` keeps the side conditions, and `diffN (k+1) e` is the derivative of `diffN k e` -/
theorem dom_diffN (k : ℕ) (e : Expr) (x : ℝ) (h : Dom e x) : Dom (diffN k e) x := by
  induction k generalizing e with
  | zero => exact h
  | succ k ih => exact ih (diff e) (dom_diff e x h)

theorem diffN_succ (k : ℕ) (e : Expr) : diffN (k + 1) e = diff (diffN k e) := by
  induction k generalizing e with
  | zero => rfl
  | succ k ih => exact ih (diff e)

theorem diffN_is_deriv (k : ℕ) (e : Expr) (x : ℝ) (h : Dom e x) :
    HasDerivAt (eval (diffN k e)) (eval (diffN (k + 1) e) x) x := by
  rw [diffN_succ]
  exact diff_is_deriv _ _ (dom_diffN k e x h)

/-- built without `div`, `log`, `sqrt` -/
def Smooth : Expr → Prop
  | .x => True
  | .const _ => True
  | .add e f => Smooth e ∧ Smooth f
  | .sub e f => Smooth e ∧ Smooth f
  | .mul e f => Smooth e ∧ Smooth f
  | .div _ _ => False
  | .neg e => Smooth e
  | .exp e => Smooth e
  | .log _ => False
  | .sin e => Smooth e
  | .cos e => Smooth e
  | .tanh e => Smooth e
  | .sqrt _ => False
  | .pow e _ => Smooth e

theorem dom_total (e : Expr) (hs : Smooth e) (x : ℝ) : Dom e x := by
  induction e with
  | x => trivial
  | const c => trivial
  | add e f ihe ihf => exact ⟨ihe hs.1, ihf hs.2⟩
  | sub e f ihe ihf => exact ⟨ihe hs.1, ihf hs.2⟩
  | mul e f ihe ihf => exact ⟨ihe hs.1, ihf hs.2⟩
  | div e f _ _ => exact hs.elim
  | neg e ih => exact ih hs
  | exp e ih => exact ih hs
  | log e _ => exact hs.elim
  | sin e ih => exact ih hs
  | cos e ih => exact ih hs
  | tanh e ih => exact ih hs
  | sqrt e _ => exact hs.elim
  | pow e n ih => exact ih hs

theorem smooth_diff (e : Expr) (hs : Smooth e) : Smooth (diff e) := by
  induction e with
  | x => trivial
  | const c => trivial
  | add e f ihe ihf => exact ⟨ihe hs.1, ihf hs.2⟩
  | sub e f ihe ihf => exact ⟨ihe hs.1, ihf hs.2⟩
  | mul e f ihe ihf => exact ⟨⟨ihe hs.1, hs.2⟩, ⟨hs.1, ihf hs.2⟩⟩
  | div e f _ _ => exact hs.elim
  | neg e ih => exact ih hs
  | exp e ih => exact ⟨hs, ih hs⟩
  | log e _ => exact hs.elim
  | sin e ih => exact ⟨hs, ih hs⟩
  | cos e ih => exact ⟨hs, ih hs⟩
  | tanh e ih => exact ⟨⟨trivial, hs, hs⟩, ih hs⟩
  | sqrt e _ => exact hs.elim
  | pow e n ih =>
    cases n with
    | zero => trivial
    | succ n => exact ⟨⟨trivial, hs⟩, ih hs⟩

/-! ## The four custom forms quoted in the documentation of `Bound`, as expressions with real parameters -/

/-- `"a+(b-a)/(1+exp(-x))"` -/
def logistic (a b : ℝ) : Expr :=
  .add (.const a) (.div (.sub (.const b) (.const a)) (.add (.const 1) (.exp (.neg .x))))
/-- `"a+exp(x)"` -/
def expLower (a : ℝ) : Expr := .add (.const a) (.exp .x)
/-- `"b-exp(-x)"` -/
def expUpper (b : ℝ) : Expr := .sub (.const b) (.exp (.neg .x))
/-- `"(a+b)/2+(b-a)/2*tanh(x)"` -/
def tanhAB (a b : ℝ) : Expr :=
  .add (.div (.add (.const a) (.const b)) (.const 2))
    (.mul (.div (.sub (.const b) (.const a)) (.const 2)) (.tanh .x))

theorem logistic_eval (a b x : ℝ) : eval (logistic a b) x = a + (b - a) / (1 + Real.exp (-x)) := rfl
theorem expLower_eval (a x : ℝ) : eval (expLower a) x = a + Real.exp x := rfl
theorem expUpper_eval (b x : ℝ) : eval (expUpper b) x = b - Real.exp (-x) := rfl
theorem tanhAB_eval (a b x : ℝ) : eval (tanhAB a b) x = (a + b) / 2 + (b - a) / 2 * Real.tanh x := rfl

theorem logistic_dom (a b x : ℝ) : Dom (logistic a b) x := by
  refine ⟨trivial, ⟨trivial, trivial⟩, ⟨trivial, trivial⟩, ?_⟩
  show (1 : ℝ) + Real.exp (-x) ≠ 0
  positivity
theorem expLower_dom (a x : ℝ) : Dom (expLower a) x :=
  dom_total (expLower a) (show True ∧ True from ⟨trivial, trivial⟩) x
theorem expUpper_dom (b x : ℝ) : Dom (expUpper b) x :=
  dom_total (expUpper b) (show True ∧ True from ⟨trivial, trivial⟩) x
theorem tanhAB_dom (a b x : ℝ) : Dom (tanhAB a b) x := by
  refine ⟨⟨⟨trivial, trivial⟩, trivial, ?_⟩, ⟨⟨trivial, trivial⟩, trivial, ?_⟩, trivial⟩ <;>
  · show (2 : ℝ) ≠ 0
    norm_num

theorem logistic_slope (a b x : ℝ) :
    eval (diff (logistic a b)) x = (b - a) * Real.exp (-x) / (1 + Real.exp (-x)) ^ 2 := by
  have h : (1 : ℝ) + Real.exp (-x) ≠ 0 := by positivity
  simp only [logistic, diff, eval, kexp]
  field_simp
  ring
theorem logistic_slope2 (a b x : ℝ) :
    eval (diff (diff (logistic a b))) x =
      (b - a) * Real.exp (-x) * (Real.exp (-x) - 1) / (1 + Real.exp (-x)) ^ 3 := by
  have h : (1 : ℝ) + Real.exp (-x) ≠ 0 := by positivity
  simp only [logistic, diff, eval, kexp]
  field_simp
  ring
theorem expLower_slope (a x : ℝ) : eval (diff (expLower a)) x = Real.exp x := by
  simp only [expLower, diff, eval, kexp]; ring
theorem expLower_slope2 (a x : ℝ) : eval (diff (diff (expLower a))) x = Real.exp x := by
  simp only [expLower, diff, eval, kexp]; ring
theorem expUpper_slope (b x : ℝ) : eval (diff (expUpper b)) x = Real.exp (-x) := by
  simp only [expUpper, diff, eval, kexp]; ring
theorem expUpper_slope2 (b x : ℝ) : eval (diff (diff (expUpper b))) x = -Real.exp (-x) := by
  simp only [expUpper, diff, eval, kexp]; ring
theorem tanhAB_slope (a b x : ℝ) :
    eval (diff (tanhAB a b)) x = (b - a) / 2 * (1 - Real.tanh x ^ 2) := by
  simp only [tanhAB, diff, eval, ktanh]; ring
theorem tanhAB_slope2 (a b x : ℝ) :
    eval (diff (diff (tanhAB a b))) x = -(b - a) * Real.tanh x * (1 - Real.tanh x ^ 2) := by
  simp only [tanhAB, diff, eval, ktanh]; ring

theorem logistic_range (a b x : ℝ) (hab : a < b) :
    a < eval (logistic a b) x ∧ eval (logistic a b) x < b := by
  rw [logistic_eval]
  have hE : 0 < Real.exp (-x) := Real.exp_pos _
  have hp : 0 < b - a := by linarith
  have h1 : 0 < (b - a) / (1 + Real.exp (-x)) := div_pos hp (by linarith)
  have h2 : (b - a) / (1 + Real.exp (-x)) < b - a := div_lt_self hp (by linarith)
  constructor <;> linarith

theorem tanhAB_range (a b x : ℝ) (hab : a < b) :
    a < eval (tanhAB a b) x ∧ eval (tanhAB a b) x < b := by
  rw [tanhAB_eval]
  have hp : 0 < (b - a) / 2 := by linarith
  have h1 := mul_lt_mul_of_pos_left (Real.tanh_lt_one x) hp
  have h2 := mul_lt_mul_of_pos_left (Real.neg_one_lt_tanh x) hp
  constructor <;> linarith

theorem strictMono_of_slope_pos (e : Expr) (hd : ∀ x, Dom e x) (hp : ∀ x, 0 < eval (diff e) x) :
    StrictMono (eval e) :=
  strictMono_of_deriv_pos fun x => by rw [(diff_is_deriv e x (hd x)).deriv]; exact hp x

theorem logistic_strictMono (a b : ℝ) (hab : a < b) : StrictMono (eval (logistic a b)) :=
  strictMono_of_slope_pos _ (logistic_dom a b) fun x => by
    rw [logistic_slope]
    have hp : 0 < b - a := by linarith
    positivity
theorem expLower_strictMono (a : ℝ) : StrictMono (eval (expLower a)) :=
  strictMono_of_slope_pos _ (expLower_dom a) fun x => by rw [expLower_slope]; exact Real.exp_pos x
theorem expUpper_strictMono (b : ℝ) : StrictMono (eval (expUpper b)) :=
  strictMono_of_slope_pos _ (expUpper_dom b) fun x => by rw [expUpper_slope]; exact Real.exp_pos _
theorem tanhAB_strictMono (a b : ℝ) (hab : a < b) : StrictMono (eval (tanhAB a b)) :=
  strictMono_of_slope_pos _ (tanhAB_dom a b) fun x => by
    rw [tanhAB_slope]
    have hp : 0 < (b - a) / 2 := by linarith
    have ht : Real.tanh x ^ 2 < 1 := (sq_lt_one_iff_abs_lt_one _).2 (Real.abs_tanh_lt_one x)
    exact mul_pos hp (by linarith)

/-! ## The three built-in forms of `Bound.__init__` as expressions: the generic rules reproduce the hand-written
slopes of `templates/Bound.lean.in` (C16) -/

/-- `"(b-a)*(sin(x)+1)/2+a"` -/
def sinAB (a b : ℝ) : Expr :=
  .add (.div (.mul (.sub (.const b) (.const a)) (.add (.sin .x) (.const 1))) (.const 2)) (.const a)
/-- `"a-1+sqrt(x**2+1)"` -/
def sqrtA (a : ℝ) : Expr := .add (.sub (.const a) (.const 1)) (.sqrt (.add (.pow .x 2) (.const 1)))
/-- `"b+1-sqrt(x**2+1)"` -/
def sqrtB (b : ℝ) : Expr := .sub (.add (.const b) (.const 1)) (.sqrt (.add (.pow .x 2) (.const 1)))

theorem sinAB_dom (a b x : ℝ) : Dom (sinAB a b) x := by
  refine ⟨⟨⟨⟨trivial, trivial⟩, trivial, trivial⟩, trivial, ?_⟩, trivial⟩
  show (2 : ℝ) ≠ 0
  norm_num
theorem sqrtA_dom (a x : ℝ) : Dom (sqrtA a) x := by
  refine ⟨⟨trivial, trivial⟩, ⟨trivial, trivial⟩, ?_⟩
  show (0 : ℝ) < x * (x * 1) + 1
  nlinarith [mul_self_nonneg x]
theorem sqrtB_dom (b x : ℝ) : Dom (sqrtB b) x := by
  refine ⟨⟨trivial, trivial⟩, ⟨trivial, trivial⟩, ?_⟩
  show (0 : ℝ) < x * (x * 1) + 1
  nlinarith [mul_self_nonneg x]

open TfPwaV.BoundR in
theorem sinAB_agrees (a b x : ℝ) :
    eval (sinAB a b) x = x2yAB a b x ∧ eval (diff (sinAB a b)) x = dydxAB a b x ∧
      eval (diff (diff (sinAB a b))) x = d2AB a b x := by
  refine ⟨rfl, ?_, ?_⟩
  · simp only [sinAB, diff, eval, dydxAB, kcos, ksin]; ring
  · simp only [sinAB, diff, eval, d2AB, kcos, ksin]; ring

open TfPwaV.BoundR in
theorem sqrtA_agrees (a x : ℝ) :
    eval (sqrtA a) x = x2yA a x ∧ eval (diff (sqrtA a)) x = dydxA x ∧
      eval (diff (diff (sqrtA a))) x = d2A x := by
  have hp : (0 : ℝ) < x * x + 1 := by nlinarith [mul_self_nonneg x]
  have hs : Real.sqrt (x * x + 1) ≠ 0 := (Real.sqrt_pos.2 hp).ne'
  have hq : Real.sqrt (x ^ 2 + 1) ^ 2 = x ^ 2 + 1 := Real.sq_sqrt (by positivity)
  refine ⟨?_, ?_, ?_⟩
  · simp only [sqrtA, eval, kpowN, x2yA, ksqrt, mul_one]
  · simp only [sqrtA, diff, eval, kpowN, dydxA, ksqrt, kofNat, mul_one]
    field_simp
    push_cast
    ring
  · simp only [sqrtA, diff, eval, kpowN, d2A, ksqrt, kofNat, mul_one]
    field_simp
    push_cast
    linear_combination (4 * x ^ 2) * hq

open TfPwaV.BoundR in
theorem sqrtB_agrees (b x : ℝ) :
    eval (sqrtB b) x = x2yB b x ∧ eval (diff (sqrtB b)) x = dydxB x ∧
      eval (diff (diff (sqrtB b))) x = d2B x := by
  have hp : (0 : ℝ) < x * x + 1 := by nlinarith [mul_self_nonneg x]
  have hs : Real.sqrt (x * x + 1) ≠ 0 := (Real.sqrt_pos.2 hp).ne'
  have hq : Real.sqrt (x ^ 2 + 1) ^ 2 = x ^ 2 + 1 := Real.sq_sqrt (by positivity)
  refine ⟨?_, ?_, ?_⟩
  · simp only [sqrtB, eval, kpowN, x2yB, ksqrt, mul_one]
  · simp only [sqrtB, diff, eval, kpowN, dydxB, ksqrt, kofNat, mul_one]
    field_simp
    push_cast
    ring
  · simp only [sqrtB, diff, eval, kpowN, d2B, ksqrt, kofNat, mul_one]
    field_simp
    push_cast
    linear_combination (-4 * x ^ 2) * hq

end TfPwaV.BExprR
