import TfPwaV.Proofs.CascadeAngle
import TfPwaV.Props.C11
/-!
Helper lemmas for the cascade theorems of C11 (`Props/C11d.lean`), part 2: the decay vertex in closed form, two-body
energies, boosts of sums and of a particle at rest, and the structural inductions over the decay tree.
-/
open TfPwaV.ScalarR
namespace TfPwaV.C11
open TfPwaV.KinR TfPwaV.AngleR TfPwaV.CascadeR

@[ext] theorem V4.ext' {a b : V4} (h0 : a.t = b.t) (h1 : a.x = b.x) (h2 : a.y = b.y) (h3 : a.z = b.z) : a = b := by
  cases a; cases b; simp_all

/-! ### break-up momentum and energies -/

theorem relP_facts (m0 m1 m2 : ℝ) (h : m1 + m2 < m0) (h1 : 0 ≤ m1) (h2 : 0 ≤ m2) :
    0 < relP m0 m1 m2 ∧
    Real.sqrt (m1 * m1 + relP m0 m1 m2 * relP m0 m1 m2) = (m0 * m0 + m1 * m1 - m2 * m2) / (2 * m0) ∧
    Real.sqrt (m2 * m2 + relP m0 m1 m2 * relP m0 m1 m2) = (m0 * m0 + m2 * m2 - m1 * m1) / (2 * m0) := by
  have hm0 : 0 < m0 := by linarith
  set L := (m0 - (m1 + m2)) * (m0 + (m1 + m2)) * (m0 - (m1 - m2)) * (m0 + (m1 - m2)) with hLdef
  have hL : 0 < L := by
    rw [hLdef]
    apply mul_pos (mul_pos (mul_pos _ _) _) _ <;> linarith
  have hP : relP m0 m1 m2 = Real.sqrt L / (2 * m0) := by
    simp only [relP, ksqrt, gt_iff_lt, if_pos h, hLdef]
  have hPP : relP m0 m1 m2 * relP m0 m1 m2 = L / (4 * m0 * m0) := by
    rw [hP, div_mul_div_comm, Real.mul_self_sqrt hL.le]; ring
  refine ⟨?_, ?_, ?_⟩
  · rw [hP]; exact div_pos (Real.sqrt_pos.mpr hL) (by linarith)
  · have hE : 0 ≤ (m0 * m0 + m1 * m1 - m2 * m2) / (2 * m0) :=
      div_nonneg (by nlinarith [mul_self_le_mul_self h2 (by linarith : m2 ≤ m0)]) (by linarith)
    rw [hPP, show m1 * m1 + L / (4 * m0 * m0) = ((m0 * m0 + m1 * m1 - m2 * m2) / (2 * m0)) ^ 2 by
      rw [hLdef]; field_simp; ring]
    exact Real.sqrt_sq hE
  · have hE : 0 ≤ (m0 * m0 + m2 * m2 - m1 * m1) / (2 * m0) :=
      div_nonneg (by nlinarith [mul_self_le_mul_self h1 (by linarith : m1 ≤ m0)]) (by linarith)
    rw [hPP, show m2 * m2 + L / (4 * m0 * m0) = ((m0 * m0 + m2 * m2 - m1 * m1) / (2 * m0)) ^ 2 by
      rw [hLdef]; field_simp; ring]
    exact Real.sqrt_sq hE

/-- `P² = λ(m0², m1², m2²) / (4 m0²)` above threshold -/
theorem relP_sq (m0 m1 m2 : ℝ) (h : m1 + m2 < m0) (h1 : 0 ≤ m1) (h2 : 0 ≤ m2) :
    relP m0 m1 m2 * relP m0 m1 m2 =
      (m0 - (m1 + m2)) * (m0 + (m1 + m2)) * (m0 - (m1 - m2)) * (m0 + (m1 - m2)) / (4 * m0 * m0) := by
  have hL : 0 < (m0 - (m1 + m2)) * (m0 + (m1 + m2)) * (m0 - (m1 - m2)) * (m0 + (m1 - m2)) := by
    apply mul_pos (mul_pos (mul_pos _ _) _) _ <;> linarith
  have hP : relP m0 m1 m2 = Real.sqrt ((m0 - (m1 + m2)) * (m0 + (m1 + m2)) * (m0 - (m1 - m2)) * (m0 + (m1 - m2))) / (2 * m0) := by
    simp only [relP, ksqrt, gt_iff_lt, if_pos h]
  rw [hP, div_mul_div_comm, Real.mul_self_sqrt hL.le]; ring

/-- energy conservation at a vertex: `E1 + E2 = m0` -/
theorem energy_sum (m0 m1 m2 : ℝ) (h : m1 + m2 < m0) (h1 : 0 ≤ m1) (h2 : 0 ≤ m2) :
    Real.sqrt (m1 * m1 + relP m0 m1 m2 * relP m0 m1 m2) + Real.sqrt (m2 * m2 + relP m0 m1 m2 * relP m0 m1 m2) = m0 := by
  obtain ⟨_, e1, e2⟩ := relP_facts m0 m1 m2 h h1 h2
  have hm0 : m0 ≠ 0 := by intro h0; rw [h0] at h; linarith
  rw [e1, e2]; field_simp; ring

/-! ### the decay vertex in closed form -/

/-- rest-frame momentum of `outs[0]` / `outs[1]` -/
noncomputable def mom1 (m1 P : ℝ) (k : V3) : V4 := ⟨Real.sqrt (m1 * m1 + P * P), k.x, k.y, k.z⟩
noncomputable def mom2 (m2 P : ℝ) (k : V3) : V4 := ⟨Real.sqrt (m2 * m2 + P * P), -k.x, -k.y, -k.z⟩

/-- In an orthonormal right-handed frame the first loop of `create_rotate_p_decay` produces
`p_new = P·dir(θ, φ)` with `θ = arccos c`, and hands down `z' = dir`, `y' = yNew`, `x' = y' × z'`
(for every `c`, `φ`; only `P > 0` is needed for the normalisations). -/
theorem vertex_eq {X Y Z : V3} (hF : IsFrame X Y Z) (m0 m1 m2 c φ P : ℝ) (hrel : relP m0 m1 m2 = P) (hP : 0 < P) :
    vertex m0 m1 m2 c φ X Y Z =
      ⟨mom1 m1 P (V3.smul P (dir X Y Z (Real.arccos c) φ)), mom2 m2 P (V3.smul P (dir X Y Z (Real.arccos c) φ)),
       (yNew X Y φ).cross (dir X Y Z (Real.arccos c) φ), yNew X Y φ, dir X Y Z (Real.arccos c) φ⟩ := by
  set θ := Real.arccos c with hθ
  have hc : kcos (kacos c) = Real.cos θ := rfl
  have hsin : 0 ≤ Real.sin θ := Real.sin_nonneg_of_nonneg_of_le_pi (Real.arccos_nonneg c) (Real.arccos_le_pi c)
  have hs : Real.sqrt (1 - Real.cos θ * Real.cos θ) = Real.sin θ := by
    rw [show 1 - Real.cos θ * Real.cos θ = Real.sin θ ^ 2 by rw [← Real.sin_sq_add_cos_sq θ]; ring]
    exact Real.sqrt_sq hsin
  have hpn : ((V3.smul (P * Real.sin θ * kcos φ) X).add (V3.smul (P * Real.sin θ * ksin φ) Y)).add
      (V3.smul (P * Real.cos θ) Z) = V3.smul P (dir X Y Z θ φ) := by
    unfold dir kcos ksin
    ext <;> simp [V3.smul, V3.add] <;> ring
  have hz : (V3.smul P (dir X Y Z θ φ)).unit = dir X Y Z θ φ :=
    unit_smul P _ hP (by rw [norm2_eq_dot]; exact dir_norm hF θ φ)
  have hy0 : (V3.smul (ksin φ) X.neg).add (V3.smul (kcos φ) Y) = yNew X Y φ := by
    unfold yNew kcos ksin
    ext <;> simp [V3.smul, V3.add, V3.neg]
  have hy : (yNew X Y φ).unit = yNew X Y φ := by
    have := unit_smul 1 (yNew X Y φ) one_pos (by rw [norm2_eq_dot]; exact yNew_norm hF φ)
    rwa [one_smul'] at this
  unfold vertex
  simp only [hrel, hc, ksqrt, hs, hpn, hz, hy0, hy, mom1, mom2]

/-! ### boosts -/

theorem boost_add (p q : V4) (v : V3) : (p.add q).boost v = (p.boost v).add (q.boost v) := by
  ext <;> simp [V4.boost, V4.add, V3.dot, V4.vect] <;> ring

/-- `p` is an on-shell momentum of mass `m` and modulus `P` with the energy the constructor assigns -/
structure IsMom (p : V4) (m P : ℝ) : Prop where
  t : p.t = Real.sqrt (m * m + P * P)
  n : p.x * p.x + p.y * p.y + p.z * p.z = P * P

theorem isMom1 {X Y Z : V3} (hF : IsFrame X Y Z) (m P θ φ : ℝ) : IsMom (mom1 m P (V3.smul P (dir X Y Z θ φ))) m P := by
  refine ⟨rfl, ?_⟩
  have := dir_norm hF θ φ
  simp only [V3.dot] at this
  simp only [mom1, V3.smul]
  linear_combination (P * P) * this

theorem isMom2 {X Y Z : V3} (hF : IsFrame X Y Z) (m P θ φ : ℝ) : IsMom (mom2 m P (V3.smul P (dir X Y Z θ φ))) m P := by
  refine ⟨rfl, ?_⟩
  have := dir_norm hF θ φ
  simp only [V3.dot] at this
  simp only [mom2, V3.smul]
  linear_combination (P * P) * this

theorem IsMom.tt {p : V4} {m P : ℝ} (hp : IsMom p m P) (hm : 0 < m) : p.t * p.t = m * m + P * P ∧ 0 < p.t := by
  have hpos : 0 < m * m + P * P := by nlinarith [mul_pos hm hm, mul_self_nonneg P]
  rw [hp.t]
  exact ⟨Real.mul_self_sqrt hpos.le, Real.sqrt_pos.mpr hpos⟩

/-- `|boost_vector(p)|² = P² / (m² + P²)` -/
theorem vel_norm2 {p : V4} {m P : ℝ} (hp : IsMom p m P) (hm : 0 < m) :
    p.boostVector.norm2 = P * P / (m * m + P * P) := by
  obtain ⟨ht, ht0⟩ := hp.tt hm
  simp only [V4.boostVector, V3.norm2, div_mul_div_comm, ← add_div, hp.n, ht]

theorem vel_lt_one {p : V4} {m P : ℝ} (hp : IsMom p m P) (hm : 0 < m) : p.boostVector.norm2 < 1 := by
  rw [vel_norm2 hp hm, div_lt_one (by nlinarith [mul_pos hm hm, mul_self_nonneg P])]
  nlinarith [mul_pos hm hm]

/-- boosting the particle at rest by its own velocity gives its momentum -/
theorem boost_from_rest {p : V4} {m P : ℝ} (hp : IsMom p m P) (hm : 0 < m) :
    (⟨m, 0, 0, 0⟩ : V4).boost p.boostVector = p := by
  obtain ⟨ht, ht0⟩ := hp.tt hm
  have hg : gammaOf p.boostVector.norm2 = p.t / m := by
    rw [vel_norm2 hp hm]
    unfold gammaOf ksqrt
    rw [show 1 - P * P / (m * m + P * P) = (m / p.t) ^ 2 by rw [div_pow, sq, sq, ht]; field_simp; ring,
      Real.sqrt_sq (by positivity), one_div, inv_div]
  have hm' : m ≠ 0 := hm.ne'
  have ht' : p.t ≠ 0 := ht0.ne'
  ext <;> simp [V4.boost, V3.dot, V4.vect, hg] <;> (try simp [V4.boostVector]) <;> field_simp

/-- what is known about the composition `B` of the constructor's boosts applied so far and the composition `g` of the
extractor's `rest_vector` boosts: `B` is additive and mass-preserving, `g` undoes `B` -/
structure Good (B g : V4 → V4) : Prop where
  add : ∀ a b, B (a.add b) = (B a).add (B b)
  mass : ∀ q, (B q).mass = q.mass
  inv : ∀ q, g (B q) = q

/-- one more level: the constructor boosts by the velocity of `p`, the extractor applies `rest_vector(g(B p), ·)` -/
theorem Good.step {B g : V4 → V4} (h : Good B g) {p : V4} {m P : ℝ} (hp : IsMom p m P) (hm : 0 < m)
    (hv : eps < P * P / (m * m + P * P)) :
    Good (fun q => B (q.boost p.boostVector)) (fun q => (g (B p)).restVector (g q)) := by
  have h1 : eps < p.boostVector.norm2 := by rw [vel_norm2 hp hm]; exact hv
  have h2 := vel_lt_one hp hm
  refine ⟨?_, ?_, ?_⟩
  · intro a b; rw [boost_add, h.add]
  · intro q; rw [h.mass, boost_mass q _ h1 h2]
  · intro q
    simp only [h.inv]
    unfold V4.restVector
    exact boost_inverse q _ h1 h2

end TfPwaV.C11
