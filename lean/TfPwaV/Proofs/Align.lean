import TfPwaV.Gen.AlignR
import TfPwaV.Props.C12b
import TfPwaV.Proofs.UnitaryMix
/-! Helper lemmas for C02: 2×2 algebra of the real-pair model of `SU2M`, and its matrix representation over ℂ. -/
open TfPwaV.ScalarR
namespace TfPwaV.SU2R
open TfPwaV.C12

theorem M2.one_mul (x : M2) : M2.one.mul x = x := by
  ext <;> simp [M2.mul, M2.one, Cx.mul, Cx.add, Cx.one, Cx.zero]

theorem M2.mul_one (x : M2) : x.mul M2.one = x := by
  ext <;> simp [M2.mul, M2.one, Cx.mul, Cx.add, Cx.one, Cx.zero]

theorem Cx.one_mul_one : Cx.one.mul Cx.one = Cx.one := by
  ext <;> simp [Cx.mul, Cx.one]

/-- `SU2M.inv` (the adjugate) preserves the determinant -/
theorem M2.det_inv (x : M2) : x.inv.det = x.det := by
  ext <;> simp [M2.inv, M2.det, Cx.mul, Cx.add, Cx.neg] <;> ring

/-- `SU2M.inv` is anti-multiplicative -/
theorem M2.inv_mul (x y : M2) : (x.mul y).inv = y.inv.mul x.inv := by
  ext <;> simp [M2.inv, M2.mul, Cx.mul, Cx.add, Cx.neg] <;> ring

theorem M2.det_one : M2.one.det = Cx.one := by
  ext <;> simp [M2.det, M2.one, Cx.mul, Cx.add, Cx.neg, Cx.one, Cx.zero]

theorem det_mul_one (a b : M2) (ha : a.det = Cx.one) (hb : b.det = Cx.one) : (a.mul b).det = Cx.one := by
  rw [su2_det_mul, ha, hb, Cx.one_mul_one]

/-- cancellation on the left for determinant one -/
theorem inv_mul_cancel_left (x y : M2) (hx : x.det = Cx.one) : x.inv.mul (x.mul y) = y := by
  rw [← su2_mul_assoc, (su2_inv x hx).1, M2.one_mul]

theorem mul_inv_cancel_left (x y : M2) (hx : x.det = Cx.one) : x.mul (x.inv.mul y) = y := by
  rw [← su2_mul_assoc, (su2_inv x hx).2, M2.one_mul]

/-! ### matrix representation -/

/-- the complex number a pair stands for -/
def Cx.toC (a : Cx) : ℂ := ⟨a.re, a.im⟩

theorem Cx.toC_mul (a b : Cx) : (a.mul b).toC = a.toC * b.toC := by
  apply Complex.ext <;> simp [Cx.toC, Cx.mul]

theorem Cx.toC_add (a b : Cx) : (a.add b).toC = a.toC + b.toC := by
  apply Complex.ext <;> simp [Cx.toC, Cx.add]

/-- the 2×2 complex matrix a pair-matrix stands for: the spin-½ representation -/
def M2.toMatrix (x : M2) : Matrix (Fin 2) (Fin 2) ℂ := !![x.x00.toC, x.x01.toC; x.x10.toC, x.x11.toC]

theorem M2.toMatrix_mul (x y : M2) : (x.mul y).toMatrix = x.toMatrix * y.toMatrix := by
  ext i j
  fin_cases i <;> fin_cases j <;>
    simp [M2.toMatrix, M2.mul, Matrix.mul_apply, Fin.sum_univ_two, Cx.toC_mul, Cx.toC_add]

/-- an element of SU(2) (in the sense of `C12.IsSU2`) is a unitary matrix -/
theorem M2.toMatrix_unitary (x : M2) (h : IsSU2 x) : star x.toMatrix * x.toMatrix = 1 := by
  obtain ⟨h11, h01, hn⟩ := h
  obtain ⟨⟨ar, ai⟩, x01, ⟨br, bi⟩, x11⟩ := x
  simp only at h11 h01 hn
  subst h11 h01
  simp only [Cx.normSq] at hn
  ext i j
  fin_cases i <;> fin_cases j <;>
    (apply Complex.ext <;>
      simp [M2.toMatrix, Matrix.mul_apply, Fin.sum_univ_two, Matrix.star_apply, Cx.toC, Cx.conj, Cx.neg,
        ] <;> nlinarith [hn])

end TfPwaV.SU2R
