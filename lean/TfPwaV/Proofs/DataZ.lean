import TfPwaV.Model.DataZ
import TfPwaV.Proofs.DataY
/-!
Helper lemmas for C18d (core Lean only).
-/
namespace TfPwaV.DataZ
open TfPwaV.Data TfPwaV.DataX TfPwaV.DataY

variable {α β γ : Type}

-- data_merge of dicts, key by key ---------------------------------------------------------------------------

/-- `k` is a key of every one of the other dicts -/
def common (cs : List (List (String × D α))) (k : String) : Bool := cs.all fun c => (lookup k c).isSome

/-- the value `data_merge` computes under a key of the first dict -/
def mergeAt (cs : List (List (String × D α))) (k : String) (v : D α) : Option (D α) :=
  merge1 v (cs.filterMap (lookup k))

theorem mergeKV_cons (k : String) (v : D α) (kvs : List (String × D α)) (cs : List (List (String × D α))) :
    mergeKV ((k, v) :: kvs) cs =
      if common cs k then
        match mergeAt cs k v, mergeKV kvs cs with
        | some m, some r => some ((k, m) :: r)
        | _, _ => none
      else mergeKV kvs cs := by
  rw [mergeKV]; rfl

/-- the result of a successful merge, read key by key -/
theorem lookup_mergeKV (cs : List (List (String × D α))) : (ch r : List (String × D α)) → mergeKV ch cs = some r →
    ∀ k, lookup k r = if common cs k then (lookup k ch).bind (mergeAt cs k) else none
  | [], r, h, k => by
    rw [mergeKV] at h
    cases h
    simp [lookup]
  | (k', v) :: rest, r, h, k => by
    rw [mergeKV_cons] at h
    by_cases hc : common cs k' = true
    · simp only [hc, if_true] at h
      cases hm : mergeAt cs k' v with
      | none => simp [hm] at h
      | some m =>
        cases hr : mergeKV rest cs with
        | none => simp [hm, hr] at h
        | some r' =>
          simp only [hm, hr, Option.some.injEq] at h
          subst h
          have ih := lookup_mergeKV cs rest r' hr k
          by_cases hk : k' = k
          · subst hk; simp [lookup, hc, hm]
          · simp only [lookup, hk, if_false]; exact ih
    · simp only [hc] at h
      have ih := lookup_mergeKV cs rest r h k
      by_cases hk : k' = k
      · subst hk
        rw [ih]
        simp [hc]
      · simp only [lookup, hk, if_false]; exact ih

/-- a merge of dicts succeeds exactly when the merge under every common key of the first dict succeeds -/
theorem mergeKV_isSome_iff (cs : List (List (String × D α))) : (ch : List (String × D α)) →
    ((mergeKV ch cs).isSome = true ↔ ∀ p ∈ ch, common cs p.1 = true → (mergeAt cs p.1 p.2).isSome = true)
  | [] => by rw [mergeKV]; simp
  | (k', v) :: rest => by
    have ih := mergeKV_isSome_iff cs rest
    rw [mergeKV_cons]
    cases hc : common cs k' with
    | false =>
      simp only [Bool.false_eq_true, if_false]
      rw [ih]
      constructor
      · intro h p hp
        rcases List.mem_cons.mp hp with e | e
        · subst e; intro hcp; simp [hc] at hcp
        · exact h p e
      · intro h p hp; exact h p (List.mem_cons_of_mem _ hp)
    | true =>
      simp only [if_true]
      constructor
      · intro h p hp
        rcases List.mem_cons.mp hp with e | e
        · subst e; intro _; cases hm : mergeAt cs k' v <;> simp [hm] at h ⊢
        · have : (mergeKV rest cs).isSome = true := by
            cases hm : mergeAt cs k' v <;> cases hr : mergeKV rest cs <;> simp [hm, hr] at h ⊢
          exact ih.mp this p e
      · intro h
        have h1 := h (k', v) List.mem_cons_self hc
        have h2 := ih.mpr (fun p hp => h p (List.mem_cons_of_mem _ hp))
        cases hm : mergeAt cs k' v with
        | none => simp [hm] at h1
        | some m =>
          cases hr : mergeKV rest cs with
          | none => simp [hr] at h2
          | some r => simp

theorem lookup_of_mem_nodup : (ch : List (String × D α)) → (ch.map (·.1)).Nodup → ∀ p ∈ ch, lookup p.1 ch = some p.2
  | [], _, p, hp => by simp at hp
  | (k, v) :: rest, hnd, p, hp => by
    simp only [List.map_cons, List.nodup_cons] at hnd
    rcases List.mem_cons.mp hp with h | h
    · subst h; simp [lookup]
    · have hne : ¬ k = p.1 := fun e => hnd.1 (e ▸ List.mem_map.mpr ⟨p, h, rfl⟩)
      simp only [lookup, hne, if_false]
      exact lookup_of_mem_nodup rest hnd.2 p h

theorem mem_of_lookup : (ch : List (String × D α)) → (k : String) → (v : D α) → lookup k ch = some v → (k, v) ∈ ch
  | [], _, _, h => by simp [lookup] at h
  | (k', v') :: rest, k, v, h => by
    by_cases hk : k' = k
    · subst hk; simp [lookup] at h; subst h; simp
    · simp only [lookup, hk, if_false] at h
      exact List.mem_cons_of_mem _ (mem_of_lookup rest k v h)

theorem lookup_isSome_iff_mem_keys (k : String) : (ch : List (String × D α)) →
    ((lookup k ch).isSome = true ↔ k ∈ ch.map (·.1))
  | [] => by simp [lookup]
  | (k', v) :: rest => by
    by_cases hk : k' = k
    · subst hk; simp [lookup]
    · have ih := lookup_isSome_iff_mem_keys k rest
      have hk' : ¬ k = k' := fun e => hk e.symm
      simp only [lookup, hk, if_false, List.map_cons, List.mem_cons, hk', false_or]
      exact ih

/-- `{**a, **j}` read key by key, for a dict `j` -/
theorem lookup_dictUpdate_nodup (k : String) (j a : List (String × D α)) (hj : (j.map (·.1)).Nodup) :
    lookup k (dictUpdate a j) = (lookup k j).or (lookup k a) := by
  rw [lookup_dictUpdate, lookupLast_eq_lookup k j hj]
  cases lookup k j <;> rfl

theorem dictSet_nodup (kv : List (String × D α)) (k : String) (v : D α) (h : (kv.map (·.1)).Nodup) :
    ((dictSet kv k v).map (·.1)).Nodup := by
  rw [dictSet_keys]
  by_cases hk : (lookup k kv).isSome = true
  · simp [hk, h]
  · simp only [hk, Bool.false_eq_true, if_false]
    have : k ∉ kv.map (·.1) := fun hm => hk ((lookup_isSome_iff_mem_keys k kv).mpr hm)
    rw [List.nodup_append]
    refine ⟨h, by simp, ?_⟩
    intro a ha b hb
    simp only [List.mem_singleton] at hb
    subst hb
    exact fun e => this (e ▸ ha)

theorem dictUpdate_nodup : (j a : List (String × D α)) → (a.map (·.1)).Nodup → ((dictUpdate a j).map (·.1)).Nodup
  | [], a, h => by simpa [dictUpdate] using h
  | (k, v) :: rest, a, h => by
    have := dictUpdate_nodup rest (dictSet a k v) (dictSet_nodup a k v h)
    simpa [dictUpdate] using this

/-- the keys of a merged dict are keys of the first dict -/
theorem mergeKV_keys_sublist (cs : List (List (String × D α))) : (ch r : List (String × D α)) → mergeKV ch cs = some r →
    (r.map (·.1)).Sublist (ch.map (·.1))
  | [], r, h => by rw [mergeKV] at h; cases h; simp
  | (k', v) :: rest, r, h => by
    rw [mergeKV_cons] at h
    cases hc : common cs k' with
    | false =>
      simp only [hc, Bool.false_eq_true, if_false] at h
      exact (mergeKV_keys_sublist cs rest r h).trans (by simp)
    | true =>
      simp only [hc, if_true] at h
      cases hm : mergeAt cs k' v with
      | none => simp [hm] at h
      | some m =>
        cases hr : mergeKV rest cs with
        | none => simp [hm, hr] at h
        | some r' =>
          simp only [hm, hr, Option.some.injEq] at h
          subst h
          simpa using (mergeKV_keys_sublist cs rest r' hr)

theorem mapM_of_forall_mem {δ ε : Type} (g : δ → Option ε) (t : δ → ε) : (l : List δ) → (∀ x ∈ l, g x = some (t x)) →
    l.mapM g = some (l.map t)
  | [], _ => rfl
  | x :: rest, h => by
    rw [List.mapM_cons, h x List.mem_cons_self, mapM_of_forall_mem g t rest (fun y hy => h y (List.mem_cons_of_mem _ hy))]
    rfl

/-- `data_merge` of dicts -/
theorem merge1_dicts (a : List (String × D α)) (cs : List (List (String × D α))) :
    merge1 (D.node .dict a) (cs.map fun c => D.node .dict c) = (mergeKV a cs).map (D.node .dict) := by
  rw [merge1, mapM_map_some cs (fun c => D.node .dict c) (asNode .dict) (fun c => c) (by intro c; simp [asNode])]
  simp

theorem filterMap_congr_mem' {δ ε : Type} (f g : δ → Option ε) (l : List δ) (h : ∀ x ∈ l, f x = g x) :
    l.filterMap f = l.filterMap g := filterMap_congr_mem f g l h

theorem all_congr_mem {δ : Type} (f g : δ → Bool) : (l : List δ) → (∀ x ∈ l, f x = g x) → l.all f = l.all g
  | [], _ => rfl
  | x :: rest, h => by
    simp only [List.all_cons, h x List.mem_cons_self,
      all_congr_mem f g rest (fun y hy => h y (List.mem_cons_of_mem _ hy))]

-- data_merge of LazyCalls vs data_merge of their eager values ---------------------------------------------------

/-- `k` is attached (`L[k] = …`) to every operand -/
def AttachedAll (L : Lazy α β) (others : List (Lazy α β)) (k : String) : Prop :=
  (lookup k L.extra).isSome = true ∧ ∀ o ∈ others, (lookup k o.extra).isSome = true

/-- `k` is attached to no operand -/
def AttachedNone (L : Lazy α β) (others : List (Lazy α β)) (k : String) : Prop :=
  lookup k L.extra = none ∧ ∀ o ∈ others, lookup k o.extra = none

/-- `k` is a key of the dict `f` returns for some operand -/
def OutputKey (fx0 : List (String × D β)) (fx : Lazy α β → List (String × D β)) (others : List (Lazy α β)) (k : String) : Prop :=
  (lookup k fx0).isSome = true ∨ ∃ o ∈ others, (lookup k (fx o)).isSome = true

theorem mode_transfer {δ : Type} (others : List δ) (g h : δ → List (String × D β)) (k : String)
    (H : ∀ o ∈ others, lookup k (g o) = lookup k (h o)) :
    common (others.map g) k = common (others.map h) k ∧ mergeAt (others.map g) k = mergeAt (others.map h) k := by
  constructor
  · simp only [common, List.all_map]
    exact all_congr_mem _ _ others (fun o ho => by simp [Function.comp, H o ho])
  · funext v
    simp only [mergeAt, List.filterMap_map]
    rw [filterMap_congr_mem _ _ others (fun o ho => by simp only [Function.comp]; exact H o ho)]
    rfl

theorem merge_eager_core (L : Lazy α β) (others : List (Lazy α β))
    (e fx0 fX : List (String × D β)) (fx : Lazy α β → List (String × D β))
    (he : mergeKV L.extra (others.map (·.extra)) = some e)
    (hfm : mergeKV fx0 (others.map fx) = some fX)
    (hnd0 : (fx0.map (·.1)).Nodup)
    (hndL : (L.extra.map (·.1)).Nodup) (hndo : ∀ o ∈ others, (o.extra.map (·.1)).Nodup)
    (hyp : ∀ k, OutputKey fx0 fx others k → AttachedAll L others k ∨ AttachedNone L others k) :
    ∃ ev, mergeKV (dictUpdate fx0 L.extra) (others.map fun o => dictUpdate (fx o) o.extra) = some ev ∧
      (ev.map (·.1)).Nodup ∧ ((dictUpdate fX e).map (·.1)).Nodup ∧
      ∀ k, lookup k ev = lookup k (dictUpdate fX e) := by
  -- every key is in one of three classes
  have hcls : ∀ k, AttachedAll L others k ∨ AttachedNone L others k ∨
      (lookup k fx0 = none ∧ ∀ o ∈ others, lookup k (fx o) = none) := by
    intro k
    by_cases h0 : OutputKey fx0 fx others k
    · rcases hyp k h0 with h | h
      · exact Or.inl h
      · exact Or.inr (Or.inl h)
    · refine Or.inr (Or.inr ⟨?_, ?_⟩)
      · cases hl : lookup k fx0 with
        | none => rfl
        | some v => exact absurd (Or.inl (by simp [hl])) h0
      · intro o ho
        cases hl : lookup k (fx o) with
        | none => rfl
        | some v => exact absurd (Or.inr ⟨o, ho, by simp [hl]⟩) h0
  -- reading the eager dicts: through the attached items ...
  have hE : ∀ k, (AttachedAll L others k ∨ (lookup k fx0 = none ∧ ∀ o ∈ others, lookup k (fx o) = none)) →
      lookup k (dictUpdate fx0 L.extra) = lookup k L.extra ∧
      common (others.map fun o => dictUpdate (fx o) o.extra) k = common (others.map (·.extra)) k ∧
      mergeAt (others.map fun o => dictUpdate (fx o) o.extra) k = mergeAt (others.map (·.extra)) k := by
    intro k hk
    have h1 : lookup k (dictUpdate fx0 L.extra) = lookup k L.extra := by
      rw [lookup_dictUpdate_nodup k L.extra fx0 hndL]
      rcases hk with h | h
      · cases hl : lookup k L.extra with
        | none => exact absurd h.1 (by simp [hl])
        | some v => rfl
      · rw [h.1]; cases lookup k L.extra <;> rfl
    have h2 : ∀ o ∈ others, lookup k (dictUpdate (fx o) o.extra) = lookup k o.extra := by
      intro o ho
      rw [lookup_dictUpdate_nodup k o.extra (fx o) (hndo o ho)]
      rcases hk with h | h
      · cases hl : lookup k o.extra with
        | none => exact absurd (h.2 o ho) (by simp [hl])
        | some v => rfl
      · rw [h.2 o ho]; cases lookup k o.extra <;> rfl
    exact ⟨h1, mode_transfer others _ _ k h2⟩
  -- ... or through the outputs of f
  have hF : ∀ k, AttachedNone L others k →
      lookup k (dictUpdate fx0 L.extra) = lookup k fx0 ∧
      common (others.map fun o => dictUpdate (fx o) o.extra) k = common (others.map fx) k ∧
      mergeAt (others.map fun o => dictUpdate (fx o) o.extra) k = mergeAt (others.map fx) k := by
    intro k hk
    have h1 : lookup k (dictUpdate fx0 L.extra) = lookup k fx0 := by
      rw [lookup_dictUpdate_nodup k L.extra fx0 hndL, hk.1]; rfl
    have h2 : ∀ o ∈ others, lookup k (dictUpdate (fx o) o.extra) = lookup k (fx o) := by
      intro o ho
      rw [lookup_dictUpdate_nodup k o.extra (fx o) (hndo o ho), hk.2 o ho]; rfl
    exact ⟨h1, mode_transfer others _ _ k h2⟩
  have heS := (mergeKV_isSome_iff (others.map (·.extra)) L.extra).mp (by simp [he])
  have hfS := (mergeKV_isSome_iff (others.map fx) fx0).mp (by simp [hfm])
  have hnda : ((dictUpdate fx0 L.extra).map (·.1)).Nodup := dictUpdate_nodup L.extra fx0 hnd0
  -- the eager merge succeeds
  have hsome : (mergeKV (dictUpdate fx0 L.extra) (others.map fun o => dictUpdate (fx o) o.extra)).isSome = true := by
    rw [mergeKV_isSome_iff]
    intro p hp hc
    have hlk := lookup_of_mem_nodup _ hnda p hp
    rcases hcls p.1 with h | h | h
    · obtain ⟨h1, h2, h3⟩ := hE p.1 (Or.inl h)
      rw [h3]
      rw [h1] at hlk
      exact heS (p.1, p.2) (mem_of_lookup _ _ _ hlk) (by rw [← h2]; exact hc)
    · obtain ⟨h1, h2, h3⟩ := hF p.1 h
      rw [h3]
      rw [h1] at hlk
      exact hfS (p.1, p.2) (mem_of_lookup _ _ _ hlk) (by rw [← h2]; exact hc)
    · obtain ⟨h1, h2, h3⟩ := hE p.1 (Or.inr h)
      rw [h3]
      rw [h1] at hlk
      exact heS (p.1, p.2) (mem_of_lookup _ _ _ hlk) (by rw [← h2]; exact hc)
  obtain ⟨ev, hev⟩ := Option.isSome_iff_exists.mp hsome
  have hnde : (e.map (·.1)).Nodup := (mergeKV_keys_sublist _ _ _ he).nodup hndL
  refine ⟨ev, hev, (mergeKV_keys_sublist _ _ _ hev).nodup hnda,
    dictUpdate_nodup e fX ((mergeKV_keys_sublist _ _ _ hfm).nodup hnd0), ?_⟩
  intro k
  rw [lookup_mergeKV _ _ _ hev k, lookup_dictUpdate_nodup k e fX hnde, lookup_mergeKV _ _ _ he k, lookup_mergeKV _ _ _ hfm k]
  rcases hcls k with h | h | h
  · obtain ⟨h1, h2, h3⟩ := hE k (Or.inl h)
    rw [h1, h2, h3]
    have hc : common (others.map (·.extra)) k = true := by
      simp only [common, List.all_map, List.all_eq_true]
      intro o ho; exact h.2 o ho
    obtain ⟨v, hv⟩ := Option.isSome_iff_exists.mp h.1
    have := heS (k, v) (mem_of_lookup _ _ _ hv) hc
    obtain ⟨m, hm⟩ := Option.isSome_iff_exists.mp this
    simp [hc, hv, hm]
  · obtain ⟨h1, h2, h3⟩ := hF k h
    rw [h1, h2, h3, h.1]
    simp
  · obtain ⟨h1, h2, h3⟩ := hE k (Or.inr h)
    rw [h1, h2, h3, h.1]
    cases hc : common (others.map (·.extra)) k <;> cases hl : (lookup k L.extra).bind (mergeAt (others.map (·.extra)) k) <;> simp

-- dicts that are equal key by key ------------------------------------------------------------------------------------

theorem mem_iff_of_lookup_eq (a b : List (String × D α)) (hna : (a.map (·.1)).Nodup) (hnb : (b.map (·.1)).Nodup)
    (h : ∀ k, lookup k a = lookup k b) (p : String × D α) : p ∈ a ↔ p ∈ b := by
  constructor
  · intro hp
    have := lookup_of_mem_nodup a hna p hp
    rw [h] at this
    exact mem_of_lookup b p.1 p.2 this
  · intro hp
    have := lookup_of_mem_nodup b hnb p hp
    rw [← h] at this
    exact mem_of_lookup a p.1 p.2 this

theorem uniformCh_eq_all (n : Nat) : (ch : List (String × D α)) → uniformCh n ch = ch.all fun p => uniform n p.2
  | [] => by simp [uniformCh]
  | (k, v) :: rest => by simp [uniformCh, uniformCh_eq_all n rest]

theorem noArrayCh_eq_all : (ch : List (String × D α)) → noArrayCh ch = ch.all fun p => noArray p.2
  | [] => by simp [noArrayCh]
  | (k, v) :: rest => by simp [noArrayCh, noArrayCh_eq_all rest]

theorem all_eq_of_mem_iff {δ : Type} (f : δ → Bool) (a b : List δ) (h : ∀ p, p ∈ a ↔ p ∈ b) : a.all f = b.all f := by
  cases ha : a.all f <;> cases hb : b.all f <;> try rfl
  · rw [List.all_eq_true] at hb
    have : a.all f = true := List.all_eq_true.mpr fun x hx => hb x ((h x).mp hx)
    rw [ha] at this; exact this
  · rw [List.all_eq_true] at ha
    have : b.all f = true := List.all_eq_true.mpr fun x hx => ha x ((h x).mpr hx)
    rw [hb] at this; exact this.symm

theorem lookup_mapLeavesCh_map (g : List α → List β) (k : String) : (ch : List (String × D α)) →
    lookup k (mapLeavesCh g ch) = (lookup k ch).map (mapLeaves g)
  | [] => by simp [mapLeavesCh, lookup]
  | (k', v) :: rest => by
    by_cases hk : k' = k
    · subst hk; simp [mapLeavesCh, lookup]
    · simp only [mapLeavesCh, lookup, hk, if_false]; exact lookup_mapLeavesCh_map g k rest

-- flat keys ----------------------------------------------------------------------------------------------------------

theorem lookupP_of_mem_nodup {δ : Type} : (l : List (String × δ)) → (l.map (·.1)).Nodup → ∀ p ∈ l, lookupP p.1 l = some p.2
  | [], _, p, hp => by simp at hp
  | (k, v) :: rest, hnd, p, hp => by
    simp only [List.map_cons, List.nodup_cons] at hnd
    rcases List.mem_cons.mp hp with h | h
    · subst h; simp [lookupP]
    · have hne : ¬ k = p.1 := fun e => hnd.1 (e ▸ List.mem_map.mpr ⟨p, h, rfl⟩)
      simp only [lookupP, hne, if_false]
      exact lookupP_of_mem_nodup rest hnd.2 p h

theorem lookupP_map_arr (key : String) : (l : List (String × List α)) →
    lookupP key (l.map fun p => (p.1, NpVal.arr p.2)) = (lookupP key l).map NpVal.arr
  | [] => rfl
  | (k, v) :: rest => by
    by_cases hk : k = key
    · simp [lookupP, hk]
    · simp only [List.map_cons, lookupP, hk, if_false]; exact lookupP_map_arr key rest

/-- the entries a dict child contributes are entries of the loop over the dict -/
theorem flatV_sub_dict (s : String) (v : D α) : (ch : List (String × D α)) → lookup s ch = some v → ∀ i,
    ∀ q ∈ flatV s v, q ∈ flatIns true i ch
  | [], h, _, _, _ => by simp [lookup] at h
  | (k, w) :: rest, h, i, q, hq => by
    simp only [flatIns, if_true, List.mem_append]
    by_cases hk : k = s
    · subst hk
      simp only [lookup, if_true, Option.some.injEq] at h
      subst h
      exact Or.inl hq
    · simp only [lookup, hk, if_false] at h
      exact Or.inr (flatV_sub_dict s v rest h (i + 1) q hq)

/-- the entries of the `j`-th item of a list / tuple are entries of the loop (which counts from `i`) -/
theorem flatV_sub_list (p : String × D α) : (ch : List (String × D α)) → (j : Nat) → ch[j]? = some p → ∀ i,
    ∀ q ∈ flatV ("#" ++ toString (i + j)) p.2, q ∈ flatIns false i ch
  | [], j, h, _, _, _ => by simp at h
  | (k, w) :: rest, 0, h, i, q, hq => by
    simp only [List.getElem?_cons_zero, Option.some.injEq] at h
    subst h
    simp only [flatIns, Bool.false_eq_true, if_false, List.mem_append]
    exact Or.inl (by simpa using hq)
  | (k, w) :: rest, j + 1, h, i, q, hq => by
    simp only [List.getElem?_cons_succ] at h
    simp only [flatIns, Bool.false_eq_true, if_false, List.mem_append]
    have e : i + (j + 1) = i + 1 + j := by omega
    rw [e] at hq
    exact Or.inr (flatV_sub_list p rest j h (i + 1) q hq)

-- the cache ------------------------------------------------------------------------------------------------------------

theorem natToString_inj (a b : Nat) (h : toString a = toString b) : a = b := by
  have h' : Nat.repr a = Nat.repr b := h
  unfold Nat.repr at h'
  have h2 := congrArg String.toList h'
  simp at h2
  have ha := Nat.ofDigitChars_toDigits (b := 10) (n := a) (by omega) (by omega)
  have hb := Nat.ofDigitChars_toDigits (b := 10) (n := b) (by omega) (by omega)
  rw [← ha, h2, hb]

theorem lookupK_mem {κ : Type} [DecidableEq κ] (k : κ) : (st : Store κ β) → (bs : List β) → lookupK k st = some bs →
    (k, bs) ∈ st
  | [], _, h => by simp [lookupK] at h
  | (k', v) :: rest, bs, h => by
    by_cases hk : k' = k
    · subst hk; simp [lookupK] at h; subst h; simp
    · simp only [lookupK, hk, if_false] at h
      exact List.mem_cons_of_mem _ (lookupK_mem k rest bs h)

/-- every entry of the store was written by a pass with the batch size its key names -/
def Consistent {κ : Type} (key : Nat → κ) (compute : Nat → List β) (st : Store κ β) : Prop :=
  ∀ p ∈ st, ∃ b, p.1 = key b ∧ p.2 = compute b

theorem readAll_fresh {κ : Type} [DecidableEq κ] (key : Nat → κ) (hinj : ∀ b b', key b = key b' → b = b')
    (compute : Nat → List β) : (hist : List Nat) → (st : Store κ β) → Consistent key compute st →
    (readAll key compute st hist).1 = hist.map compute ∧ Consistent key compute (readAll key compute st hist).2
  | [], st, h => ⟨rfl, h⟩
  | b :: rest, st, h => by
    have step : (readThrough key compute st b).1 = compute b ∧ Consistent key compute (readThrough key compute st b).2 := by
      unfold readThrough
      cases hl : lookupK (key b) st with
      | none =>
        refine ⟨rfl, ?_⟩
        intro p hp
        rcases List.mem_cons.mp hp with e | e
        · exact ⟨b, by rw [e], by rw [e]⟩
        · exact h p e
      | some bs =>
        obtain ⟨b', hk, hv⟩ := h _ (lookupK_mem _ st bs hl)
        have : b = b' := hinj b b' hk
        subst this
        exact ⟨hv, h⟩
    have ih := readAll_fresh key hinj compute rest _ step.2
    simp only [readAll, List.map_cons]
    exact ⟨by rw [step.1, ih.1], ih.2⟩

end TfPwaV.DataZ
