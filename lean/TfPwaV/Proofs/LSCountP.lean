import TfPwaV.Proofs.LSCount
/-!
# Counting lemmas for C13, parity conserved (all spins)

For one value of `s` the parity filter keeps the `l` of one parity class out of `N = min(ja,s)+1` consecutive values
starting at `|ja−s|/2` (`lsInner_len_parity`, closed form `cnt_parity`).  The invariant carried along
(jb, jc) ↦ (jb+1, jc+1) is `2·#couplings + [z ∧ η=−1] = helCount + [z ∧ η=+1]`, where `z` says that both daughter spins
are integral (the pair (0,0) exists) and η = p·(−1)^{(ja+jb+jc)/2} for such spins.
-/
namespace TfPwaV.LSCount
open TfPwaV.LS

/-- closed form of the number of `i < n` with `(a + i) % 2 = d`, without case distinction -/
theorem cnt_parity' (a d n : Nat) (hd : d < 2) :
    cnt (fun i => (a + i) % 2 == d) n = (n + 1 - (a + d) % 2) / 2 := by
  rw [cnt_parity a d n hd]
  split <;> omega

theorem diag_induction (P : Nat → Nat → Prop) (h0 : ∀ jc, P 0 jc) (h1 : ∀ jb, P (jb + 1) 0)
    (hs : ∀ jb jc, P jb jc → P (jb + 1) (jc + 1)) : ∀ jb jc, P jb jc
  | 0, jc => h0 jc
  | jb + 1, 0 => h1 jb
  | jb + 1, jc + 1 => hs jb jc (diag_induction P h0 h1 hs jb jc)

/-- number of `l` of parity class `dl` among the `min ja s2 + 1` values starting at `|ja − s2|/2` -/
def parCnt (ja s2 dl : Nat) : Nat := (min ja s2 + 1 + 1 - ((max ja s2 - min ja s2) / 2 + dl) % 2) / 2

/-- twice that number differs from `min ja s2 + 1` by one exactly when the number of values is odd -/
theorem parCnt_eq (ja s2 dl k : Nat) (hk : ja + s2 = 2 * k) :
    2 * parCnt ja s2 dl + (if (min ja s2) % 2 = 0 ∧ (k + dl) % 2 = 1 then 1 else 0)
      = min ja s2 + 1 + (if (min ja s2) % 2 = 0 ∧ (k + dl) % 2 = 0 then 1 else 0) := by
  unfold parCnt
  rcases Nat.le_total ja s2 with hle | hle
  · have e1 : min ja s2 = ja := by omega
    have e2 : (max ja s2 - min ja s2) / 2 = k - ja := by omega
    rw [e2, e1]
    split <;> split <;> omega
  · have e1 : min ja s2 = s2 := by omega
    have e2 : (max ja s2 - min ja s2) / 2 = k - s2 := by omega
    rw [e2, e1]
    split <;> split <;> omega

/-- parity conserved, no C-parity: the `l` with `l % 2 = dl` -/
theorem lsInner_len_parity (ja : Nat) (pa pb pc : Option Int) (pBreak : Bool) (s2 : Nat)
    (h : (ja + s2) % 2 = 0) (hb : effBreak pa pb pc pBreak = false) :
    (lsInner ja pa pb pc pBreak none s2).length = parCnt ja s2 (dlOf pa pb pc) := by
  rw [lsInner_len _ _ _ _ _ _ _ h]
  have hd : dlOf pa pb pc < 2 := by unfold dlOf; split <;> omega
  unfold parCnt
  rw [← cnt_parity' ((max ja s2 - min ja s2) / 2) (dlOf pa pb pc) (min ja s2 + 1) hd]
  apply cnt_congr
  intro i _
  have ha : absDiff ja s2 = max ja s2 - min ja s2 := absDiff_eq ja s2
  have : (absDiff ja s2 + 2 * i) / 2 = (max ja s2 - min ja s2) / 2 + i := by omega
  simp [caOk, pOk, hb, this]

/-- does the pair (λb, λc) = (0, 0) exist and survive (`sgn = 0`) / get removed (`sgn = 1`) by the parity relation -/
def zTerm (ja jb jc dl sgn : Nat) : Nat :=
  if jb % 2 = 0 ∧ jc % 2 = 0 ∧ ((ja + jb + jc) / 2 + dl) % 2 = sgn then 1 else 0

/-- the invariant of the parity-conserving count -/
def ParInv (ja : Nat) (pa pb pc : Option Int) (pBreak : Bool) (jb jc : Nat) : Prop :=
  (ja + jb + jc) % 2 = 0 →
    2 * (lsList ja jb jc pa pb pc pBreak none).length + zTerm ja jb jc (dlOf pa pb pc) 1
      = helCount ja jb jc + zTerm ja jb jc (dlOf pa pb pc) 0

theorem parInv_zero_left (ja : Nat) (pa pb pc : Option Int) (pBreak : Bool)
    (hb : effBreak pa pb pc pBreak = false) (jc : Nat) : ParInv ja pa pb pc pBreak 0 jc := by
  intro h
  rw [lsList_zero_left, lsInner_len_parity _ _ _ _ _ _ (by omega) hb, helCount_zero_left _ _ (by omega)]
  have hk : ja + jc = 2 * ((ja + 0 + jc) / 2) := by omega
  have hpc := parCnt_eq ja jc (dlOf pa pb pc) _ hk
  unfold zTerm
  generalize dlOf pa pb pc = dl at *
  generalize parCnt ja jc dl = c at *
  generalize (ja + 0 + jc) / 2 = k at *
  have hm : min ja jc % 2 = jc % 2 := by omega
  generalize min ja jc = m at *
  split at hpc <;> split at hpc <;> split <;> split <;> omega

theorem parInv_zero_right (ja : Nat) (pa pb pc : Option Int) (pBreak : Bool)
    (hb : effBreak pa pb pc pBreak = false) (jb : Nat) : ParInv ja pa pb pc pBreak (jb + 1) 0 := by
  intro h
  rw [lsList_zero_right, lsInner_len_parity _ _ _ _ _ _ (by omega) hb, helCount_zero_right _ _ (by omega)]
  have hk : ja + (jb + 1) = 2 * ((ja + (jb + 1) + 0) / 2) := by omega
  have hpc := parCnt_eq ja (jb + 1) (dlOf pa pb pc) _ hk
  unfold zTerm
  generalize dlOf pa pb pc = dl at *
  generalize parCnt ja (jb + 1) dl = c at *
  generalize (ja + (jb + 1) + 0) / 2 = k at *
  have hm : min ja (jb + 1) % 2 = (jb + 1) % 2 := by omega
  generalize min ja (jb + 1) = m at *
  split at hpc <;> split at hpc <;> split <;> split <;> omega

theorem parInv_step (ja : Nat) (pa pb pc : Option Int) (pBreak : Bool)
    (hb : effBreak pa pb pc pBreak = false) (jb jc : Nat) (ih : ParInv ja pa pb pc pBreak jb jc) :
    ParInv ja pa pb pc pBreak (jb + 1) (jc + 1) := by
  intro h
  have ih := ih (by omega)
  have hbd := helCount_border ja jb jc (by omega)
  rw [lsList_len_step, helCount_step, lsInner_len_parity _ _ _ _ _ _ (by omega) hb]
  have e2 : (ja + (jb + 1) + (jc + 1)) / 2 = (ja + jb + jc) / 2 + 1 := by omega
  have hk : ja + (jb + jc + 2) = 2 * ((ja + jb + jc) / 2 + 1) := by omega
  have hpc := parCnt_eq ja (jb + jc + 2) (dlOf pa pb pc) _ hk
  unfold zTerm at ih ⊢
  rw [e2]
  generalize dlOf pa pb pc = dl at *
  generalize parCnt ja (jb + jc + 2) dl = c at *
  generalize (lsList ja jb jc pa pb pc pBreak none).length = L at *
  generalize helCount ja jb jc = n at *
  generalize cnt (fun ib => hp ja jb jc ib (jc + 1)) (jb + 1) = c1 at *
  generalize cnt (hp ja jb jc (jb + 1)) (jc + 2) = c2 at *
  generalize (ja + jb + jc) / 2 = k at *
  have hm : min ja (jb + jc + 2) % 2 = (jb + jc) % 2 := by omega
  generalize min ja (jb + jc + 2) = m at *
  split at hpc <;> split at hpc <;> split at ih <;> split at ih <;> split <;> split <;> omega

/-- invariant of the parity-conserving count, all spins -/
theorem count_parity_aux (ja : Nat) (pa pb pc : Option Int) (pBreak : Bool)
    (hb : effBreak pa pb pc pBreak = false) (jb jc : Nat) (h : (ja + jb + jc) % 2 = 0) :
    2 * (lsList ja jb jc pa pb pc pBreak none).length + zTerm ja jb jc (dlOf pa pb pc) 1
      = helCount ja jb jc + zTerm ja jb jc (dlOf pa pb pc) 0 :=
  diag_induction (ParInv ja pa pb pc pBreak) (parInv_zero_left ja pa pb pc pBreak hb)
    (parInv_zero_right ja pa pb pc pBreak hb) (parInv_step ja pa pb pc pBreak hb) jb jc h

theorem etaOf_eq_one_iff (ja jb jc : Nat) (p : Int) (hp : p = 1 ∨ p = -1) (hz : jb % 2 = 0 ∧ jc % 2 = 0) :
    etaOf ja jb jc p = 1 ↔ ((ja + jb + jc) / 2 + (if p = 1 then 0 else 1)) % 2 = 0 := by
  unfold etaOf negOnePow
  rcases hp with rfl | rfl
  · split <;> simp <;> omega
  · split <;> simp <;> omega

/-- **count clause, parity conserved, no C-parity, all spins** (parities ±1) -/
theorem count_parity (ja jb jc : Nat) (pa pb pc : Int) (hpa : pa = 1 ∨ pa = -1) (hpb : pb = 1 ∨ pb = -1)
    (hpc : pc = 1 ∨ pc = -1) (h : (ja + jb + jc) % 2 = 0) :
    (lsList ja jb jc (some pa) (some pb) (some pc) false none).length
      = helCountParity ja jb jc (etaOf ja jb jc (pa * pb * pc)) := by
  have hp : pa * pb * pc = 1 ∨ pa * pb * pc = -1 := by
    rcases hpa with rfl | rfl <;> rcases hpb with rfl | rfl <;> rcases hpc with rfl | rfl <;> simp
  have aux := count_parity_aux ja (some pa) (some pb) (some pc) false rfl jb jc h
  have hdl : dlOf (some pa) (some pb) (some pc) = if pa * pb * pc = 1 then 0 else 1 := rfl
  rw [hdl] at aux
  have hdl2 : (if pa * pb * pc = 1 then 0 else 1) < 2 := by split <;> omega
  unfold helCountParity
  simp only
  unfold zTerm at aux
  by_cases hz : jb % 2 = 0 ∧ jc % 2 = 0
  · have he := etaOf_eq_one_iff ja jb jc _ hp hz
    generalize (if pa * pb * pc = 1 then 0 else 1) = dl at *
    rw [if_pos hz]
    by_cases h1 : etaOf ja jb jc (pa * pb * pc) = 1
    · rw [if_pos h1]
      have := he.1 h1
      split at aux <;> split at aux <;> omega
    · rw [if_neg h1]
      have : ¬ ((ja + jb + jc) / 2 + dl) % 2 = 0 := fun x => h1 (he.2 x)
      split at aux <;> split at aux <;> omega
  · rw [if_neg hz]
    generalize (if pa * pb * pc = 1 then 0 else 1) = dl at *
    split at aux <;> split at aux <;> split <;> omega

end TfPwaV.LSCount
