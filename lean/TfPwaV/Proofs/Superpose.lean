import TfPwaV.Model.Superpose
import Mathlib.Algebra.BigOperators.Ring.List
import Mathlib.Algebra.Field.Basic
import Mathlib.Data.List.Induction
import Mathlib.Data.List.Nodup
import Mathlib.Tactic.Ring
import Mathlib.Tactic.LinearCombination
import Mathlib.Tactic.FieldSimp
/-!
Helper lemmas for C03: selection logic (membership / no duplicates), sums over lists in a commutative ring,
the pair expansion of a quadratic form, batching.
-/
namespace TfPwaV.Superpose

-- ---------------------------------------------------------------------------------------------
-- selection logic
-- ---------------------------------------------------------------------------------------------

theorem getD_of_lt {α : Type} (l : List α) (d : α) {i : Nat} (h : i < l.length) : l.getD i d = l[i] := by
  simp [List.getD_eq_getElem?_getD, h]

theorem range_map_getD {α : Type} (l : List α) (d : α) : (List.range l.length).map (fun i => l.getD i d) = l := by
  apply List.ext_getElem
  · simp
  · intro i h1 h2
    simp [List.getD_eq_getElem?_getD, h2]

theorem flatten_map_singleton' {α β : Type} (l : List α) (f : α → β) :
    (l.map fun x => [f x]).flatten = l.map f := by
  induction l with
  | nil => rfl
  | cons x xs ih => simp [ih]

theorem addList_snoc (acc l : List Nat) (i : Nat) :
    addList acc (l ++ [i]) = if (addList acc l).contains i then addList acc l else addList acc l ++ [i] := by
  unfold addList
  rw [List.foldl_append]
  rfl

theorem mem_addList (acc l : List Nat) (j : Nat) : j ∈ addList acc l ↔ j ∈ acc ∨ j ∈ l := by
  induction l using List.reverseRecOn with
  | nil => simp [addList]
  | append_singleton l i ih =>
    rw [addList_snoc]
    split
    · rename_i h
      have hi : i ∈ addList acc l := by simpa using h
      constructor
      · intro hj; rcases ih.1 hj with h | h
        · exact Or.inl h
        · exact Or.inr (by simp [h])
      · intro hj
        rcases hj with h | h
        · exact ih.2 (Or.inl h)
        · rcases List.mem_append.1 h with h | h
          · exact ih.2 (Or.inr h)
          · have : j = i := by simpa using h
            subst this; exact hi
    · simp only [List.mem_append, List.mem_singleton, ih]
      tauto

theorem nodup_addList (acc l : List Nat) (h : acc.Nodup) : (addList acc l).Nodup := by
  induction l using List.reverseRecOn with
  | nil => simpa [addList] using h
  | append_singleton l i ih =>
    rw [addList_snoc]
    split
    · exact ih
    · rename_i hc
      have hi : i ∉ addList acc l := by simpa using hc
      rw [List.nodup_append]
      refine ⟨ih, by simp, ?_⟩
      intro a ha b hb
      have : b = i := by simpa using hb
      subst this
      intro hab; subst hab; exact hi ha

/-- `add_used_chains` only appends: the previous list is a prefix of the new one -/
theorem addList_prefix (acc l : List Nat) : ∃ t, addList acc l = acc ++ t := by
  induction l using List.reverseRecOn with
  | nil => exact ⟨[], by simp [addList]⟩
  | append_singleton l i ih =>
    obtain ⟨t, ht⟩ := ih
    rw [addList_snoc]
    split
    · exact ⟨t, ht⟩
    · exact ⟨t ++ [i], by rw [ht, List.append_assoc]⟩

theorem mem_filterMap_res (es : List Entry) (r : Nat) : r ∈ es.filterMap Entry.res? ↔ Entry.res r ∈ es := by
  simp only [List.mem_filterMap]
  constructor
  · rintro ⟨e, he, h⟩
    cases e with
    | res r' => simp [Entry.res?] at h; subst h; exact he
    | idx i => simp [Entry.res?] at h
  · intro h; exact ⟨_, h, rfl⟩

theorem mem_filterMap_idx (es : List Entry) (i : Nat) : i ∈ es.filterMap Entry.idx? ↔ Entry.idx i ∈ es := by
  simp only [List.mem_filterMap]
  constructor
  · rintro ⟨e, he, h⟩
    cases e with
    | res r' => simp [Entry.idx?] at h
    | idx i' => simp [Entry.idx?] at h; subst h; exact he
  · intro h; exact ⟨_, h, rfl⟩

theorem hasAny_iff (g : Group) (rs : List Nat) (j : Nat) :
    hasAny g rs j = true ↔ ∃ r, r ∈ rs ∧ r ∈ g.innerOf j := by
  simp [hasAny, List.any_eq_true]

/-- membership after `set_used_res(es)` (`only=False`) -/
theorem mem_setUsedRes_false (g : Group) (es : List Entry) (j : Nat) :
    j ∈ (setUsedRes g es false).chainsIdx ↔
      (j < g.n ∧ ∃ r, Entry.res r ∈ es ∧ r ∈ g.innerOf j) ∨ Entry.idx j ∈ es := by
  simp only [setUsedRes, addUsedChains, setUsedChains, Bool.not_false, if_true, mem_addList,
    List.mem_filter, List.mem_range, hasAny_iff, mem_filterMap_res, mem_filterMap_idx]

/-- membership after `set_used_res(es, only=True)` -/
theorem mem_setUsedRes_true (g : Group) (es : List Entry) (j : Nat) :
    j ∈ (setUsedRes g es true).chainsIdx ↔
      (j < g.n ∧ ∀ r, r ∈ g.resonances → r ∈ g.innerOf j → Entry.res r ∈ es) ∨ Entry.idx j ∈ es := by
  simp only [setUsedRes, addUsedChains, setUsedChains, Bool.not_true, mem_addList, mem_filterMap_idx]
  have : (!hasAny g (g.resonances.filter fun r => !(es.filterMap Entry.res?).contains r) j) = true ↔
      ∀ r, r ∈ g.resonances → r ∈ g.innerOf j → Entry.res r ∈ es := by
    rw [Bool.not_eq_true', ← Bool.not_eq_true, hasAny_iff]
    simp only [List.mem_filter, Bool.not_eq_true', List.contains_eq_mem, decide_eq_false_iff_not,
      mem_filterMap_res, not_exists, not_and]
    constructor
    · intro h r hr hin
      by_contra hne
      exact h r ⟨hr, hne⟩ hin
    · rintro h r ⟨hr, hne⟩ hin
      exact hne (h r hr hin)
  simp only [Bool.false_eq_true, if_false, List.mem_filter, List.mem_range, this]

theorem nodup_setUsedRes (g : Group) (es : List Entry) (only : Bool) :
    (setUsedRes g es only).chainsIdx.Nodup := by
  unfold setUsedRes addUsedChains setUsedChains
  cases only <;> simp only [Bool.not_false, Bool.not_true, if_true, Bool.false_eq_true, if_false] <;>
    exact nodup_addList _ _ (List.Nodup.filter _ List.nodup_range)

theorem mem_sel (g : Group) (es : List Entry) (j : Nat) :
    j ∈ sel g es ↔ (j < g.n ∧ ∃ r, Entry.res r ∈ es ∧ r ∈ g.innerOf j) ∨ Entry.idx j ∈ es :=
  mem_setUsedRes_false g es j

theorem nodup_sel (g : Group) (es : List Entry) : (sel g es).Nodup := nodup_setUsedRes g es false

/-- selecting a list of entries = union of the single selections -/
theorem mem_sel_iff_exists (g : Group) (es : List Entry) (j : Nat) :
    j ∈ sel g es ↔ ∃ e, e ∈ es ∧ j ∈ sel g [e] := by
  simp only [mem_sel, List.mem_singleton]
  constructor
  · rintro (⟨hj, r, hr, hin⟩ | h)
    · exact ⟨.res r, hr, Or.inl ⟨hj, r, rfl, hin⟩⟩
    · exact ⟨.idx j, h, Or.inr rfl⟩
  · rintro ⟨e, he, (⟨hj, r, hr, hin⟩ | h)⟩
    · exact Or.inl ⟨hj, r, hr ▸ he, hin⟩
    · exact Or.inr (h ▸ he)

theorem sel_pair_perm (g : Group) (e₁ e₂ : Entry) (hd : List.Disjoint (sel g [e₂]) (sel g [e₁])) :
    (sel g [e₁, e₂]).Perm (sel g [e₂] ++ sel g [e₁]) := by
  rw [List.perm_ext_iff_of_nodup (nodup_sel g _)
    (List.nodup_append.2 ⟨nodup_sel g _, nodup_sel g _, fun a ha b hb hab => hd ha (hab ▸ hb)⟩)]
  intro j
  rw [mem_sel_iff_exists, List.mem_append]
  simp only [List.mem_cons, List.not_mem_nil, or_false]
  constructor
  · rintro ⟨e, (rfl | rfl), h⟩
    · exact Or.inr h
    · exact Or.inl h
  · rintro (h | h)
    · exact ⟨e₂, Or.inr rfl, h⟩
    · exact ⟨e₁, Or.inl rfl, h⟩

theorem sel_perm_flatten (g : Group) (res : List Entry)
    (hd : (res.map fun e => sel g [e]).Pairwise List.Disjoint) :
    (sel g res).Perm (res.map fun e => sel g [e]).flatten := by
  rw [List.perm_ext_iff_of_nodup (nodup_sel g _)]
  · intro j
    rw [mem_sel_iff_exists]
    simp only [List.mem_flatten, List.mem_map]
    constructor
    · rintro ⟨e, he, h⟩; exact ⟨_, ⟨e, he, rfl⟩, h⟩
    · rintro ⟨l, ⟨e, he, rfl⟩, h⟩; exact ⟨e, he, h⟩
  · rw [List.nodup_flatten]
    refine ⟨?_, hd⟩
    intro l hl
    obtain ⟨e, _, rfl⟩ := List.mem_map.1 hl
    exact nodup_sel g _

theorem mem_dedup (l : List Nat) (j : Nat) : j ∈ dedup l ↔ j ∈ l := by
  induction l with
  | nil => simp [dedup]
  | cons x xs ih =>
    simp only [dedup, List.mem_cons, List.mem_filter, ih, bne_iff_ne, ne_eq]
    by_cases h : j = x <;> simp [h]

theorem nodup_dedup (l : List Nat) : (dedup l).Nodup := by
  induction l with
  | nil => simp [dedup]
  | cons x xs ih =>
    simp only [dedup, List.nodup_cons, List.mem_filter, bne_iff_ne, ne_eq, not_true_eq_false,
      and_false, not_false_eq_true, true_and]
    exact List.Nodup.filter _ ih

theorem dedup_of_nodup (l : List Nat) (h : l.Nodup) : dedup l = l := by
  induction l with
  | nil => rfl
  | cons x xs ih =>
    rw [List.nodup_cons] at h
    simp only [dedup, ih h.2]
    congr 1
    rw [List.filter_eq_self]
    intro a ha
    simp only [bne_iff_ne, ne_eq]
    rintro rfl
    exact h.1 ha


-- ---------------------------------------------------------------------------------------------
-- sums in a commutative ring
-- ---------------------------------------------------------------------------------------------
section Ring
variable {K : Type} [CommRing K]

theorem sum_map_add3 {ι : Type} (l : List ι) (f g h k : ι → K) (H : ∀ x, f x = g x + h x + k x) :
    (l.map f).sum = (l.map g).sum + (l.map h).sum + (l.map k).sum := by
  induction l with
  | nil => simp
  | cons x xs ih => simp only [List.map_cons, List.sum_cons, ih, H x]; ring

theorem sum_map_add2 {ι : Type} (l : List ι) (f g h : ι → K) (H : ∀ x, f x = g x + h x) :
    (l.map f).sum = (l.map g).sum + (l.map h).sum := by
  induction l with
  | nil => simp
  | cons x xs ih => simp only [List.map_cons, List.sum_cons, ih, H x]; ring

theorem sum_map_zero {ι : Type} (l : List ι) (f : ι → K) (H : ∀ x, f x = 0) : (l.map f).sum = 0 := by
  induction l with
  | nil => simp
  | cons x xs ih => simp [ih, H x]

theorem sum_map_congr_mem {ι : Type} (l : List ι) (f g : ι → K) (H : ∀ x ∈ l, f x = g x) :
    (l.map f).sum = (l.map g).sum := by
  rw [List.map_congr_left H]

theorem sum_flatMap_map {ι κ : Type} (l : List ι) (f : ι → List κ) (v : κ → K) :
    ((l.flatMap f).map v).sum = (l.map fun i => ((f i).map v).sum).sum := by
  induction l with
  | nil => simp
  | cons x xs ih => simp [List.flatMap_cons, ih]

/-- the complex pair sum, componentwise -/
theorem csum_append (l₁ l₂ : List (K × K)) : csum (l₁ ++ l₂) = cadd (csum l₁) (csum l₂) := by
  simp [csum, cadd]

theorem csum_perm {l₁ l₂ : List (K × K)} (h : l₁.Perm l₂) : csum l₁ = csum l₂ := by
  unfold csum
  rw [(h.map Prod.fst).sum_eq, (h.map Prod.snd).sum_eq]

theorem csum_nil : csum ([] : List (K × K)) = (0, 0) := by simp [csum]

theorem csum_singleton (x : K × K) : csum [x] = x := by simp [csum]

/-- amplitude without the duplicate removal -/
def rawAmp (coup : Nat → K × K) (amps : Nat → Nat → Nat → K × K) (S : List Nat) (e h : Nat) : K × K :=
  csum (S.map fun k => cmul (coup k) (amps k e h))

theorem ampAt_eq_raw (coup : Nat → K × K) (amps : Nat → Nat → Nat → K × K) (S : List Nat) (e h : Nat) :
    ampAt coup amps S e h = rawAmp coup amps (dedup S) e h := rfl

theorem rawAmp_append (coup : Nat → K × K) (amps : Nat → Nat → Nat → K × K) (S T : List Nat) (e h : Nat) :
    rawAmp coup amps (S ++ T) e h = cadd (rawAmp coup amps S e h) (rawAmp coup amps T e h) := by
  simp [rawAmp, csum_append]

theorem rawAmp_perm (coup : Nat → K × K) (amps : Nat → Nat → Nat → K × K) {S T : List Nat} (hp : S.Perm T)
    (e h : Nat) : rawAmp coup amps S e h = rawAmp coup amps T e h :=
  csum_perm (hp.map _)

def cross (x y : K × K) : K := 2 * (x.1 * y.1 + x.2 * y.2)

theorem normSq_cadd (x y : K × K) : normSq (cadd x y) = normSq x + normSq y + cross x y := by
  simp only [normSq, cadd, cross]; ring

theorem cross_cadd_left (x y z : K × K) : cross (cadd x y) z = cross x z + cross y z := by
  simp only [cadd, cross]; ring

theorem cross_zero_left (z : K × K) : cross ((0, 0) : K × K) z = 0 := by
  simp only [cross]; ring

/-- integral without the duplicate removal -/
def Iraw (nh : Nat) (coup : Nat → K × K) (amps : Nat → Nat → Nat → K × K) (w : Nat → K)
    (events : List Nat) (S : List Nat) : K :=
  (events.map fun e => w e * ((List.range nh).map fun h => normSq (rawAmp coup amps S e h)).sum).sum

/-- interference integral `Σ_e w_e Σ_h 2 Re(A_S conj A_T)` -/
def Jraw (nh : Nat) (coup : Nat → K × K) (amps : Nat → Nat → Nat → K × K) (w : Nat → K)
    (events : List Nat) (S T : List Nat) : K :=
  (events.map fun e => w e * ((List.range nh).map fun h =>
    cross (rawAmp coup amps S e h) (rawAmp coup amps T e h)).sum).sum

theorem integral_eq_Iraw (nh : Nat) (coup : Nat → K × K) (amps : Nat → Nat → Nat → K × K) (w : Nat → K)
    (events : List Nat) (S : List Nat) :
    integral nh coup amps w events S = Iraw nh coup amps w events (dedup S) := rfl

theorem integral_of_nodup (nh : Nat) (coup : Nat → K × K) (amps : Nat → Nat → Nat → K × K) (w : Nat → K)
    (events : List Nat) {S : List Nat} (h : S.Nodup) :
    integral nh coup amps w events S = Iraw nh coup amps w events S := by
  rw [integral_eq_Iraw, dedup_of_nodup S h]

theorem Iraw_perm (nh : Nat) (coup : Nat → K × K) (amps : Nat → Nat → Nat → K × K) (w : Nat → K)
    (events : List Nat) {S T : List Nat} (hp : S.Perm T) :
    Iraw nh coup amps w events S = Iraw nh coup amps w events T := by
  unfold Iraw
  simp only [rawAmp_perm coup amps hp]

theorem Iraw_nil (nh : Nat) (coup : Nat → K × K) (amps : Nat → Nat → Nat → K × K) (w : Nat → K)
    (events : List Nat) : Iraw nh coup amps w events [] = 0 := by
  unfold Iraw
  apply sum_map_zero
  intro e
  rw [sum_map_zero _ _ (fun h => by simp [rawAmp, csum, normSq]), mul_zero]

theorem Iraw_append (nh : Nat) (coup : Nat → K × K) (amps : Nat → Nat → Nat → K × K) (w : Nat → K)
    (events : List Nat) (S T : List Nat) :
    Iraw nh coup amps w events (S ++ T) =
      Iraw nh coup amps w events S + Iraw nh coup amps w events T + Jraw nh coup amps w events S T := by
  unfold Iraw Jraw
  apply sum_map_add3
  intro e
  rw [sum_map_add3 (List.range nh) _ _ _ _ (fun h => by rw [rawAmp_append, normSq_cadd])]
  ring

theorem Jraw_append_left (nh : Nat) (coup : Nat → K × K) (amps : Nat → Nat → Nat → K × K) (w : Nat → K)
    (events : List Nat) (S T U : List Nat) :
    Jraw nh coup amps w events (S ++ T) U =
      Jraw nh coup amps w events S U + Jraw nh coup amps w events T U := by
  unfold Jraw
  apply sum_map_add2
  intro e
  rw [sum_map_add2 (List.range nh) _ _ _ (fun h => by rw [rawAmp_append, cross_cadd_left])]
  ring

theorem Jraw_nil_left (nh : Nat) (coup : Nat → K × K) (amps : Nat → Nat → Nat → K × K) (w : Nat → K)
    (events : List Nat) (U : List Nat) : Jraw nh coup amps w events [] U = 0 := by
  unfold Jraw
  apply sum_map_zero
  intro e
  rw [sum_map_zero _ _ (fun h => by simp [rawAmp, csum_nil, cross_zero_left]), mul_zero]

/-- Pair expansion of a quadratic form: if `I (X ++ Y) = I X + I Y + J X Y` with `J` additive in its first
argument, then `I` of a concatenation is the sum of the diagonal terms and of all pair terms
`I (S_j ++ S_i) - I S_j - I S_i`, `j < i`. -/
theorem pair_expansion {α : Type} (I : List α → K) (J : List α → List α → K)
    (hI : ∀ X Y, I (X ++ Y) = I X + I Y + J X Y)
    (hJ : ∀ X Y Z, J (X ++ Y) Z = J X Z + J Y Z) (hJ0 : ∀ Z, J [] Z = 0) (hI0 : I [] = 0)
    (S : Nat → List α) (m : Nat) :
    I (((List.range m).map S).flatten) =
      ((List.range m).map fun i =>
        I (S i) + ((List.range i).map fun j => I (S j ++ S i) - I (S j) - I (S i)).sum).sum := by
  have hJsum : ∀ (X : List α) (n : Nat),
      J (((List.range n).map S).flatten) X = ((List.range n).map fun j => J (S j) X).sum := by
    intro X n
    induction n with
    | zero => simp [hJ0]
    | succ n ih =>
      rw [List.range_succ, List.map_append, List.flatten_append, hJ, ih]
      simp
  induction m with
  | zero => simp [hI0]
  | succ m ih =>
    rw [List.range_succ, List.map_append, List.flatten_append, List.map_append, List.sum_append]
    simp only [List.map_cons, List.map_nil, List.flatten_cons, List.flatten_nil, List.append_nil,
      List.sum_cons, List.sum_nil, add_zero]
    rw [hI, ih, hJsum]
    have : ((List.range m).map fun j => I (S j ++ S m) - I (S j) - I (S m)).sum =
        ((List.range m).map fun j => J (S j) (S m)).sum := by
      apply sum_map_congr_mem
      intro j _
      rw [hI]; ring
    rw [this]; ring

end Ring

-- ---------------------------------------------------------------------------------------------
-- batching
-- ---------------------------------------------------------------------------------------------

theorem chunksAux_flatten {α : Type} (b : Nat) (hb : 0 < b) :
    ∀ (fuel : Nat) (l : List α), l.length ≤ fuel → (chunksAux b fuel l).flatten = l := by
  intro fuel
  induction fuel with
  | zero =>
    intro l hl
    have : l = [] := List.length_eq_zero_iff.1 (Nat.le_zero.1 hl)
    subst this; rfl
  | succ fuel ih =>
    intro l hl
    unfold chunksAux
    split
    · rename_i he
      have : l = [] := by simpa using he
      subst this; rfl
    · rename_i he
      have hne : l ≠ [] := by simpa using he
      have hpos : 0 < l.length := List.length_pos_iff.2 hne
      rw [List.flatten_cons, ih (l.drop b) (by rw [List.length_drop]; omega), List.take_append_drop]

theorem chunks_flatten {α : Type} (b : Nat) (hb : 0 < b) (l : List α) : (chunks b l).flatten = l :=
  chunksAux_flatten b hb l.length l (Nat.le_refl _)

theorem chunksAux_length_le {α : Type} (b : Nat) :
    ∀ (fuel : Nat) (l : List α), ∀ c ∈ chunksAux b fuel l, c.length ≤ b := by
  intro fuel
  induction fuel with
  | zero => intro l c hc; simp [chunksAux] at hc
  | succ fuel ih =>
    intro l c hc
    unfold chunksAux at hc
    split at hc
    · simp at hc
    · rcases List.mem_cons.1 hc with h | h
      · subst h; rw [List.length_take]; exact Nat.min_le_left _ _
      · exact ih _ c h

section Ring2
variable {K : Type} [CommRing K]

theorem integral_append (nh : Nat) (coup : Nat → K × K) (amps : Nat → Nat → Nat → K × K) (w : Nat → K)
    (e₁ e₂ : List Nat) (S : List Nat) :
    integral nh coup amps w (e₁ ++ e₂) S = integral nh coup amps w e₁ S + integral nh coup amps w e₂ S := by
  simp [integral]

theorem integral_flatten (nh : Nat) (coup : Nat → K × K) (amps : Nat → Nat → Nat → K × K) (w : Nat → K)
    (L : List (List Nat)) (S : List Nat) :
    integral nh coup amps w L.flatten S = (L.map fun c => integral nh coup amps w c S).sum := by
  induction L with
  | nil => simp [integral]
  | cons c L ih => rw [List.flatten_cons, integral_append, ih]; simp

end Ring2

-- ---------------------------------------------------------------------------------------------
-- the fraction table
-- ---------------------------------------------------------------------------------------------
section Field
variable {K : Type} [Field K]

theorem sum_map_div {ι : Type} (l : List ι) (f : ι → K) (T : K) :
    (l.map fun i => f i / T).sum = (l.map f).sum / T := by
  induction l with
  | nil => simp
  | cons x xs ih => simp only [List.map_cons, List.sum_cons, ih, add_div]

theorem sum_map_reverse {ι : Type} (l : List ι) (f : ι → K) : (l.reverse.map f).sum = (l.map f).sum :=
  ((List.reverse_perm l).map f).sum_eq

/-- the sum of all entries of the table the code builds, as one quotient -/
theorem fracSum_fracTable (I : List Nat → K) (pick : List Entry → List Nat) (total : K) (res : List Entry) :
    fracSum (fracTable I pick total res) =
      ((List.range res.length).map fun i =>
        I (pick [res.getD i (.idx 0)]) +
          ((List.range i).map fun j =>
            I (pick [res.getD i (.idx 0), res.getD j (.idx 0)]) - I (pick [res.getD i (.idx 0)])
              - I (pick [res.getD j (.idx 0)])).sum).sum / total := by
  unfold fracSum fracTable
  rw [sum_flatMap_map, ← sum_map_div]
  apply sum_map_congr_mem
  intro i _
  rw [List.range_succ, List.reverse_append, List.reverse_singleton, List.singleton_append, List.map_cons,
    List.map_cons, List.sum_cons, if_pos rfl, List.map_map]
  have : (((List.range i).reverse.map (Prod.snd ∘ fun j =>
        if i = j then ((i, j), I (pick [res.getD i (.idx 0)]) / total)
        else ((i, j), I (pick [res.getD i (.idx 0), res.getD j (.idx 0)]) / total
            - I (pick [res.getD i (.idx 0)]) / total - I (pick [res.getD j (.idx 0)]) / total))).sum : K) =
      ((List.range i).map fun j =>
        (I (pick [res.getD i (.idx 0), res.getD j (.idx 0)]) - I (pick [res.getD i (.idx 0)])
              - I (pick [res.getD j (.idx 0)])) / total).sum := by
    rw [sum_map_reverse]
    apply sum_map_congr_mem
    intro j hj
    have hne : i ≠ j := by have := List.mem_range.1 hj; omega
    simp only [Function.comp, if_neg hne, sub_div]
  rw [this, sum_map_div, add_div]

end Field

end TfPwaV.Superpose
