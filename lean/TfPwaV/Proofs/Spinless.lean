import TfPwaV.Gen.SpinlessR
import TfPwaV.Proofs.LineShape
import Mathlib.Tactic.LinearCombination
import Mathlib.Tactic.FieldSimp
import Mathlib.Tactic.IntervalCases
import Mathlib.Tactic.NormNum
import Mathlib.Tactic.Ring
import Mathlib.Analysis.SpecialFunctions.Trigonometric.Basic
/-! Helper lemmas for C04: exact (kernel-evaluated) Clebsch–Gordan / small-d data for spin-0 externals and
their lifting to ℝ. -/
open TfPwaV.ScalarR
namespace TfPwaV.SpinlessR
open TfPwaV.LineShapeR TfPwaV.Wigner

/-! ### exact tables (kernel evaluation of `Model/Wigner.lean`) -/

/-- `⟨J 0; 0 0 | J 0⟩ = 1`, `⟨0 0; J 0 | J 0⟩ = 1`, `⟨J 0; J 0 | 0 0⟩ = (-1)^J / sqrt(2J+1)` for J = 0..4
    (squares and signs, doubled arguments) -/
theorem cg_exact : ∀ J ∈ List.range 5,
    cgSq (2 * J) 0 0 0 (2 * J) 0 = 1 ∧ ratSign (cgRat (2 * J) 0 0 0 (2 * J) 0) = 1 ∧
    cgSq 0 0 (2 * J) 0 (2 * J) 0 = 1 ∧ ratSign (cgRat 0 0 (2 * J) 0 (2 * J) 0) = 1 ∧
    cgSq (2 * J) 0 (2 * J) 0 0 0 = 1 / ((2 * J + 1 : Nat) : Rat) ∧
    ratSign (cgRat (2 * J) 0 (2 * J) 0 0 0) = negOnePow J ∧
    cgSq 0 0 0 0 0 0 = 1 ∧ ratSign (cgRat 0 0 0 0 0 0) = 1 := by
  decide +kernel

theorem dPoly_00 : dPoly 0 0 0 = [1] ∧ A 0 0 = 1 := by decide +kernel
theorem dPoly_11 : dPoly 2 1 1 = [1, 0, -1] ∧ A 2 1 = 1 := by decide +kernel
theorem dPoly_22 : dPoly 4 2 2 = [1 / 4, 0, -1, 0, 1 / 4] ∧ A 4 2 = 4 := by decide +kernel
theorem dPoly_33 : dPoly 6 3 3 = [1 / 36, 0, -1 / 4, 0, 1 / 4, 0, -1 / 36] ∧ A 6 3 = 36 := by decide +kernel
theorem dPoly_44 : dPoly 8 4 4 = [1 / 576, 0, -1 / 36, 0, 1 / 16, 0, -1 / 36, 0, 1 / 576] ∧ A 8 4 = 576 := by
  decide +kernel

theorem mRange_0 : mRange 0 = [0] := by decide +kernel
theorem mRange_2 : mRange 2 = [-2, 0, 2] := by decide +kernel
theorem mRange_4 : mRange 4 = [-4, -2, 0, 2, 4] := by decide +kernel
theorem mRange_6 : mRange 6 = [-6, -4, -2, 0, 2, 4, 6] := by decide +kernel
theorem mRange_8 : mRange 8 = [-8, -6, -4, -2, 0, 2, 4, 6, 8] := by decide +kernel

/-! ### lifting -/

theorem sqrt_mul_sqrt_inv (x : ℝ) (hx : 0 < x) : Real.sqrt x * Real.sqrt (1 / x) = 1 := by
  rw [← Real.sqrt_mul hx.le, mul_one_div_cancel hx.ne', Real.sqrt_one]

theorem kofInt_one : kofInt 1 = 1 := by simp [kofInt, kofNat]
theorem kofInt_neg_one : kofInt (-1) = -1 := by simp [kofInt, kofNat]
theorem kofInt_zero : kofInt 0 = 0 := by simp [kofInt, kofNat]

theorem kofInt_negOnePow (J : ℕ) : kofInt (negOnePow J) = negOnePowK J := by
  unfold negOnePow negOnePowK
  split_ifs <;> simp [kofInt_one, kofInt_neg_one]


theorem cgK_of (j1 : ℕ) (m1 : ℤ) (j2 : ℕ) (m2 : ℤ) (J : ℕ) (M : ℤ) (sg : ℤ) (q : Rat)
    (h1 : ratSign (cgRat j1 m1 j2 m2 J M) = sg) (h2 : cgSq j1 m1 j2 m2 J M = q) :
    cgK j1 m1 j2 m2 J M = kofInt sg * Real.sqrt (q : ℝ) := by
  unfold cgK kofRat ksqrt
  rw [h1, h2]

/-- parent vertex `A(0) → R(J) c(0)`, `(l,s) = (J,J)`, helicities `(0,0)`:
    `sqrt(2J+1)/sqrt(1) · ⟨J 0; 0 0|J 0⟩ · ⟨J 0; J 0|0 0⟩ = (-1)^J` -/
theorem cgMatrixEntry_parent (J : ℕ) (hJ : J ≤ 4) :
    cgMatrixEntry 0 (2 * J) 0 (2 * J) (2 * J) 0 0 = negOnePowK J := by
  obtain ⟨h1, h2, -, -, h5, h6, -, -⟩ := cg_exact J (List.mem_range.mpr (by omega))
  unfold cgMatrixEntry
  simp only [Int.neg_zero, Int.sub_zero]
  rw [cgK_of _ _ _ _ _ _ _ _ h2 h1, cgK_of _ _ _ _ _ _ _ _ h6 h5, kofInt_one, kofInt_negOnePow]
  have hpos : (0 : ℝ) < ((2 * J + 1 : ℕ) : ℝ) := by positivity
  have hs := sqrt_mul_sqrt_inv _ hpos
  simp only [kofNat, ksqrt, Nat.cast_one, Nat.zero_add, Real.sqrt_one, div_one, Rat.cast_one, one_mul]
  push_cast at hs ⊢
  linear_combination (negOnePowK J) * hs

/-- the same vertex with the daughters listed as `[c, R]` -/
theorem cgMatrixEntry_parent_swap (J : ℕ) (hJ : J ≤ 4) :
    cgMatrixEntry 0 0 (2 * J) (2 * J) (2 * J) 0 0 = negOnePowK J := by
  obtain ⟨-, -, h3, h4, h5, h6, -, -⟩ := cg_exact J (List.mem_range.mpr (by omega))
  unfold cgMatrixEntry
  simp only [Int.neg_zero, Int.sub_zero]
  rw [cgK_of _ _ _ _ _ _ _ _ h4 h3, cgK_of _ _ _ _ _ _ _ _ h6 h5, kofInt_one, kofInt_negOnePow]
  have hpos : (0 : ℝ) < ((2 * J + 1 : ℕ) : ℝ) := by positivity
  have hs := sqrt_mul_sqrt_inv _ hpos
  simp only [kofNat, ksqrt, Nat.cast_one, Nat.zero_add, Real.sqrt_one, div_one, Rat.cast_one, one_mul]
  push_cast at hs ⊢
  linear_combination (negOnePowK J) * hs

/-- resonance vertex `R(J) → a(0) b(0)`, `(l,s) = (J,0)`:
    `sqrt(2J+1)/sqrt(2J+1) · ⟨0 0; 0 0|0 0⟩ · ⟨J 0; 0 0|J 0⟩ = 1` -/
theorem cgMatrixEntry_resonance (J : ℕ) (hJ : J ≤ 4) :
    cgMatrixEntry (2 * J) 0 0 (2 * J) 0 0 0 = 1 := by
  obtain ⟨h1, h2, -, -, -, -, h7, h8⟩ := cg_exact J (List.mem_range.mpr (by omega))
  unfold cgMatrixEntry
  simp only [Int.neg_zero, Int.sub_zero]
  rw [cgK_of _ _ _ _ _ _ _ _ h8 h7, cgK_of _ _ _ _ _ _ _ _ h2 h1, kofInt_one]
  have hpos : (0 : ℝ) < Real.sqrt ((2 * J + 1 : ℕ) : ℝ) := Real.sqrt_pos.mpr (by positivity)
  simp only [kofNat, ksqrt, Rat.cast_one, Real.sqrt_one, mul_one]
  exact div_self hpos.ne'


/-! ### small-d -/

theorem sqrt_natsq (n : ℕ) : ksqrt (kofNat (n * n)) = (n : ℝ) := by
  unfold ksqrt kofNat
  push_cast
  exact Real.sqrt_mul_self (Nat.cast_nonneg n)

theorem smallD_000 (β : ℝ) : smallD 0 0 0 β = 1 := by
  unfold smallD
  rw [dPoly_00.1, dPoly_00.2]
  simp [evalSC, kofNat, ksqrt, kofRat, kpowN]

/-- `d^J_{00}(β) = P_J(cos β)` for J ≤ 4 and every real β (polynomial identity in `sin(β/2)`, `cos(β/2)`,
    certificates: `harness/certs/c04_d00_certs.py`) -/
theorem smallD_legendre (J : ℕ) (hJ : J ≤ 4) (β : ℝ) : smallD (2 * J) J J β = legendre J (Real.cos β) := by
  have hsc : Real.sin (β / 2) ^ 2 + Real.cos (β / 2) ^ 2 - 1 = 0 := by
    have := Real.sin_sq_add_cos_sq (β / 2); linarith
  have hcos : Real.cos β = Real.cos (β / 2) ^ 2 - Real.sin (β / 2) ^ 2 := by
    have h := Real.cos_sq' (β / 2)
    have h2 := Real.cos_two_mul (β / 2)
    rw [show 2 * (β / 2) = β by ring] at h2
    rw [h2]; have := Real.sin_sq_add_cos_sq (β / 2); linarith
  rw [hcos]
  set s := Real.sin (β / 2)
  set c := Real.cos (β / 2)
  unfold smallD
  interval_cases J
  · rw [dPoly_00.1, dPoly_00.2]
    simp [evalSC, kofNat, ksqrt, kofRat, kpowN, legendre, legendreAux]
  · rw [dPoly_11.1, dPoly_11.2]
    simp only [evalSC, kofNat, ksqrt, kofRat, kpowN, legendre, legendreAux, ksin, kcos, List.length_cons, List.length_nil]
    norm_num
    ring
  · rw [dPoly_22.1, dPoly_22.2, sqrt_natsq]
    simp only [evalSC, kofNat, kofRat, kpowN, legendre, legendreAux, ksin, kcos, List.length_cons, List.length_nil]
    norm_num
    linear_combination (-c ^ 2 / 2 - s ^ 2 / 2 - 1 / 2) * hsc
  · rw [dPoly_33.1, dPoly_33.2, sqrt_natsq]
    simp only [evalSC, kofNat, kofRat, kpowN, legendre, legendreAux, ksin, kcos, List.length_cons, List.length_nil]
    norm_num
    linear_combination (-3 * c ^ 4 / 2 - 3 * c ^ 2 / 2 + 3 * s ^ 4 / 2 + 3 * s ^ 2 / 2) * hsc
  · rw [dPoly_44.1, dPoly_44.2, sqrt_natsq]
    simp only [evalSC, kofNat, kofRat, kpowN, legendre, legendreAux, ksin, kcos, List.length_cons, List.length_nil]
    norm_num
    linear_combination (-27 * c ^ 6 / 8 + 39 * c ^ 4 * s ^ 2 / 8 - 27 * c ^ 4 / 8 + 39 * c ^ 2 * s ^ 4 / 8
      + 33 * c ^ 2 * s ^ 2 / 4 + 3 * c ^ 2 / 8 - 27 * s ^ 6 / 8 - 27 * s ^ 4 / 8 + 3 * s ^ 2 / 8 + 3 / 8) * hsc


/-! ### the helicity sum -/

theorem Cx.eq_iff (a b : Cx) : a = b ↔ a.re = b.re ∧ a.im = b.im := by
  cases a; cases b; simp

theorem expI_zero : expI 0 = ⟨1, 0⟩ := by simp [expI, kcos, ksin]

/-- every helicity `λ ≠ 0` of the resonance is removed by the zero padding of `Dfun_delta_v2` in the
    parent's `D^{0*}_{0, λ}` (whatever the value of the LS→helicity matrix there) -/
theorem helTerm_ne_zero (P : ChainPar) (md : MassDep) (αA βA αR βR : ℝ) (lam : ℤ) (h : lam ≠ 0) :
    helTerm P md αA βA αR βR lam = ⟨0, 0⟩ := by
  have h1 : ¬ (lam - 0).natAbs ≤ 0 := by simpa using h
  have h2 : ¬ (0 - lam).natAbs ≤ 0 := by simpa using h
  unfold helTerm dConjDelta
  cases P.swapA <;> simp [h, Cx.smul, Cx.mul]

theorem helTerm_zero (P : ChainPar) (hJ : P.J ≤ 4) (md : MassDep) (αA βA αR βR : ℝ) :
    helTerm P md αA βA αR βR 0 = ⟨negOnePowK P.J * md.bA * md.bR * legendre P.J (Real.cos βR), 0⟩ := by
  unfold helTerm dConjDelta
  have e1 : ((0 : ℤ) + ((2 * P.J : ℕ) : ℤ)) / 2 = (P.J : ℤ) := by push_cast; omega
  simp only [Int.sub_zero, Int.natAbs_zero, Nat.zero_le, if_true, Nat.cast_zero, Int.add_zero, Int.zero_ediv,
    Int.toNat_zero, kofInt_zero, zero_div, zero_mul, expI_zero, smallD_000, e1, Int.toNat_natCast,
    smallD_legendre P.J hJ, cgMatrixEntry_parent P.J hJ, cgMatrixEntry_parent_swap P.J hJ,
    cgMatrixEntry_resonance P.J hJ, ite_self]
  simp [Cx.smul, Cx.mul]
  ring

theorem sum_mRange (J : ℕ) (hJ : J ≤ 4) (f : ℤ → Cx) (hf : ∀ l, l ≠ 0 → f l = ⟨0, 0⟩) :
    Cx.sumFrom ⟨0, 0⟩ ((mRange (2 * J)).map f) = f 0 := by
  have z : ∀ a : Cx, (⟨0, 0⟩ : Cx).add a = a := by intro a; cases a; simp [Cx.add]
  have z' : ∀ a : Cx, a.add ⟨0, 0⟩ = a := by intro a; cases a; simp [Cx.add]
  interval_cases J
  · simp only [Nat.mul_zero, mRange_0, List.map, Cx.sumFrom, z]
  · simp only [Nat.mul_one, mRange_2, List.map, Cx.sumFrom, hf (-2) (by decide), hf 2 (by decide), z, z']
  · simp only [Nat.reduceMul, mRange_4, List.map, Cx.sumFrom, hf (-4) (by decide), hf (-2) (by decide),
      hf 2 (by decide), hf 4 (by decide), z, z']
  · simp only [Nat.reduceMul, mRange_6, List.map, Cx.sumFrom, hf (-6) (by decide), hf (-4) (by decide), hf (-2) (by decide),
      hf 2 (by decide), hf 4 (by decide), hf 6 (by decide), z, z']
  · simp only [Nat.reduceMul, mRange_8, List.map, Cx.sumFrom, hf (-8) (by decide), hf (-6) (by decide), hf (-4) (by decide),
      hf (-2) (by decide), hf 2 (by decide), hf 4 (by decide), hf 6 (by decide), hf 8 (by decide), z, z']

/-! ### Legendre polynomials (all n) -/

theorem legendreAux_one (n : ℕ) : legendreAux n 1 = (1, 1) := by
  induction n with
  | zero => rfl
  | succ n ih =>
    simp only [legendreAux, ih, kofNat]
    have : ((n : ℝ) + 2) ≠ 0 := by positivity
    refine Prod.ext rfl ?_
    simp only
    field_simp
    ring

theorem legendreAux_neg (n : ℕ) (x : ℝ) :
    legendreAux n (-x) = ((-1) ^ n * (legendreAux n x).1, (-1) ^ (n + 1) * (legendreAux n x).2) := by
  induction n with
  | zero => simp [legendreAux]
  | succ n ih =>
    simp only [legendreAux, ih, kofNat]
    refine Prod.ext rfl ?_
    simp only [pow_succ]
    ring

end TfPwaV.SpinlessR
