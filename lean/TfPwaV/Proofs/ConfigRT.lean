import TfPwaV.Props.C19c
/-!
Helper lemmas for the export → import clause of C19 (`Props/C19d.lean`), core Lean only:
`BaseDecay.__eq__` is an equivalence; the registry keeps pairwise different decays and the last options;
the exported decay section read back by `decay_item`; the exported property table; `sorted` / `resonances`;
paths in the registry and the recursion budget (pigeonhole); transfer of decay trees between the original
and the rebuilt registry; `rt_core`.
-/
namespace TfPwaV.C19
open TfPwaV.Config

/-! ## `BaseDecay.__eq__` is an equivalence -/

theorem same_iff (a b : BDecay) : a.same b = true ↔
    a.core = b.core ∧ ((a.o1 = b.o1 ∧ a.o2 = b.o2) ∨ (a.o1 = b.o2 ∧ a.o2 = b.o1)) := by
  simp [BDecay.same]

theorem same_refl (d : BDecay) : d.same d = true := by simp [same_iff]

theorem same_symm {a b : BDecay} (h : a.same b = true) : b.same a = true := by
  rw [same_iff] at *
  obtain ⟨h1, h2 | h2⟩ := h
  · exact ⟨h1.symm, Or.inl ⟨h2.1.symm, h2.2.symm⟩⟩
  · exact ⟨h1.symm, Or.inr ⟨h2.2.symm, h2.1.symm⟩⟩

theorem same_trans {a b c : BDecay} (h : a.same b = true) (h' : b.same c = true) : a.same c = true := by
  rw [same_iff] at *
  obtain ⟨h1, h2⟩ := h
  obtain ⟨h3, h4⟩ := h'
  refine ⟨h1.trans h3, ?_⟩
  rcases h2 with ⟨e1, e2⟩ | ⟨e1, e2⟩ <;> rcases h4 with ⟨e3, e4⟩ | ⟨e3, e4⟩
  · exact Or.inl ⟨e1.trans e3, e2.trans e4⟩
  · exact Or.inr ⟨e1.trans e3, e2.trans e4⟩
  · exact Or.inr ⟨e1.trans e4, e2.trans e3⟩
  · exact Or.inl ⟨e1.trans e4, e2.trans e3⟩

theorem same_congr {a b : BDecay} (h : a.same b = true) (r : BDecay) : r.same a = r.same b := by
  cases h1 : r.same a with
  | true => exact (same_trans h1 h).symm
  | false =>
    cases h2 : r.same b with
    | false => rfl
    | true => rw [same_trans h2 (same_symm h)] at h1; exact absurd h1 (by decide)

theorem optOf_same (x : Ctx) {a b : BDecay} (h : a.same b = true) : x.optOf a = x.optOf b := by
  unfold Ctx.optOf
  have : (fun r : BDecay × DOpt => r.1.same a) = fun r => r.1.same b := by
    funext r; exact same_congr h r.1
  rw [this]

/-! ## the registry -/

def NoSame (regs : List (BDecay × DOpt)) : Prop := regs.Pairwise fun a b => a.1.same b.1 = false

theorem register_fst_mono (regs : List (BDecay × DOpt)) (d : BDecay) (o : DOpt) (e : BDecay)
    (h : e ∈ regs.map (·.1)) : e ∈ (register regs d o).map (·.1) := by
  induction regs with
  | nil => simp at h
  | cons x xs ih =>
    unfold register
    split
    · simpa using h
    · simp only [List.map_cons, List.mem_cons] at h ⊢
      rcases h with h | h
      · exact Or.inl h
      · exact Or.inr (ih h)

theorem register_has_same (regs : List (BDecay × DOpt)) (d : BDecay) (o : DOpt) :
    ∃ d' ∈ (register regs d o).map (·.1), d'.same d = true := by
  induction regs with
  | nil => exact ⟨d, by simp [register], same_refl d⟩
  | cons x xs ih =>
    unfold register
    split
    · rename_i hs
      exact ⟨x.1, by simp, hs⟩
    · obtain ⟨d', h1, h2⟩ := ih
      exact ⟨d', by simp only [List.map_cons, List.mem_cons]; exact Or.inr h1, h2⟩

theorem register_noSame (regs : List (BDecay × DOpt)) (d : BDecay) (o : DOpt) (h : NoSame regs) :
    NoSame (register regs d o) := by
  unfold NoSame at *
  induction regs with
  | nil => simp [register]
  | cons x xs ih =>
    rw [List.pairwise_cons] at h
    unfold register
    split
    · rw [List.pairwise_cons]; exact ⟨h.1, h.2⟩
    · rename_i hs
      rw [List.pairwise_cons]
      refine ⟨?_, ih h.2⟩
      intro b hb
      rcases register_mem xs d o b.1 (List.mem_map.2 ⟨b, hb, rfl⟩) with hm | hm
      · obtain ⟨b', hb', e⟩ := List.mem_map.1 hm
        have := h.1 b' hb'
        rw [e] at this; exact this
      · rw [hm]; simpa using hs

theorem noSame_eq {regs : List (BDecay × DOpt)} (h : NoSame regs) {a b : BDecay}
    (ha : a ∈ regs.map (·.1)) (hb : b ∈ regs.map (·.1)) (hs : a.same b = true) : a = b := by
  unfold NoSame at h
  induction regs with
  | nil => simp at ha
  | cons x xs ih =>
    rw [List.pairwise_cons] at h
    simp only [List.map_cons, List.mem_cons] at ha hb
    rcases ha with ha | ha <;> rcases hb with hb | hb
    · rw [ha, hb]
    · obtain ⟨b', hb', e⟩ := List.mem_map.1 hb
      have := h.1 b' hb'
      rw [e, ← ha, hs] at this; exact absurd this (by decide)
    · obtain ⟨a', ha', e⟩ := List.mem_map.1 ha
      have := h.1 a' ha'
      rw [e, ← hb, same_symm hs] at this; exact absurd this (by decide)
    · exact ih h.2 ha hb

theorem foldl_register_noSame (l : List (BDecay × DOpt)) (acc : List (BDecay × DOpt)) (h : NoSame acc) :
    NoSame (l.foldl (fun regs x => register regs x.1 x.2) acc) := by
  induction l generalizing acc with
  | nil => exact h
  | cons x xs ih => exact ih _ (register_noSame _ _ _ h)

theorem context_noSame {c : Card} {ctx : Ctx} (h : c.context = some ctx) : NoSame ctx.regs := by
  unfold Card.context at h
  cases h1 : decayItem c.decay with
  | none => simp [h1] at h
  | some decs =>
    cases h2 : mergeIncludes c.particle c.includes with
    | none => simp [h1, h2] at h
    | some merged =>
      simp only [h1, h2, Option.bind_eq_bind, Option.bind_some, Option.some.injEq] at h
      subst h
      exact foldl_register_noSame _ _ List.Pairwise.nil

/-- registry rebuilt from a list of decays with options `E` -/
def regFold (E : BDecay → DOpt) (D : List BDecay) (acc : List (BDecay × DOpt)) : List (BDecay × DOpt) :=
  D.foldl (fun regs d => register regs d (E d)) acc

theorem regFold_noSame (E : BDecay → DOpt) (D : List BDecay) (acc) (h : NoSame acc) : NoSame (regFold E D acc) := by
  unfold regFold
  induction D generalizing acc with
  | nil => exact h
  | cons x xs ih => exact ih _ (register_noSame _ _ _ h)

theorem regFold_mem (E : BDecay → DOpt) (D : List BDecay) (acc : List (BDecay × DOpt)) (e : BDecay)
    (h : e ∈ (regFold E D acc).map (·.1)) : e ∈ acc.map (·.1) ∨ e ∈ D := by
  unfold regFold at h
  induction D generalizing acc with
  | nil => exact Or.inl h
  | cons x xs ih =>
    rcases ih _ h with h | h
    · rcases register_mem _ _ _ _ h with h | h
      · exact Or.inl h
      · right; simp [h]
    · right; exact List.mem_cons_of_mem _ h

theorem regFold_mono (E : BDecay → DOpt) (D : List BDecay) (acc : List (BDecay × DOpt)) (e : BDecay)
    (h : e ∈ acc.map (·.1)) : e ∈ (regFold E D acc).map (·.1) := by
  unfold regFold
  induction D generalizing acc with
  | nil => exact h
  | cons x xs ih => exact ih _ (register_fst_mono _ _ _ _ h)

theorem regFold_has_same (E : BDecay → DOpt) (D : List BDecay) (acc : List (BDecay × DOpt)) (d : BDecay)
    (h : d ∈ D) : ∃ d' ∈ (regFold E D acc).map (·.1), d'.same d = true := by
  induction D generalizing acc with
  | nil => simp at h
  | cons x xs ih =>
    rcases List.mem_cons.1 h with rfl | h
    · obtain ⟨d', h1, h2⟩ := register_has_same acc d (E d)
      exact ⟨d', regFold_mono E xs _ d' h1, h2⟩
    · exact ih _ h

theorem register_opts (E : BDecay → DOpt) (hE : ∀ a b, a.same b = true → E a = E b)
    (regs : List (BDecay × DOpt)) (d : BDecay) (h : ∀ r ∈ regs, r.2 = E r.1) :
    ∀ r ∈ register regs d (E d), r.2 = E r.1 := by
  induction regs with
  | nil => simp [register]
  | cons x xs ih =>
    unfold register
    split
    · rename_i hs
      intro r hr
      rcases List.mem_cons.1 hr with rfl | hr
      · exact (hE _ _ hs).symm
      · exact h r (List.mem_cons_of_mem _ hr)
    · intro r hr
      rcases List.mem_cons.1 hr with rfl | hr
      · exact h _ (by simp)
      · exact ih (fun r hr => h r (List.mem_cons_of_mem _ hr)) r hr

theorem regFold_opts (E : BDecay → DOpt) (hE : ∀ a b, a.same b = true → E a = E b) (D : List BDecay)
    (acc : List (BDecay × DOpt)) (h : ∀ r ∈ acc, r.2 = E r.1) : ∀ r ∈ regFold E D acc, r.2 = E r.1 := by
  unfold regFold
  induction D generalizing acc with
  | nil => exact h
  | cons x xs ih => exact ih _ (register_opts E hE _ _ h)

theorem optOf_of_opts (E : BDecay → DOpt) (hE : ∀ a b, a.same b = true → E a = E b) (x : Ctx)
    (h : ∀ r ∈ x.regs, r.2 = E r.1) (d : BDecay) (hd : ∃ d' ∈ x.regs.map (·.1), d'.same d = true) :
    x.optOf d = E d := by
  unfold Ctx.optOf
  cases hf : x.regs.find? fun r => r.1.same d with
  | none =>
    exfalso
    obtain ⟨d', h1, h2⟩ := hd
    obtain ⟨r, hr, e⟩ := List.mem_map.1 h1
    have := List.find?_eq_none.1 hf r hr
    rw [e, h2] at this; exact this rfl
  | some r =>
    have h1 := List.find?_some hf
    have h2 := List.mem_of_find?_eq_some hf
    simp only
    rw [h r h2]; exact hE _ _ h1

/-! ## the exported decay section, read back -/

def expOpt (o : DOpt) : DOpt := { pBreak := some (o.pBreak.getD false), cBreak := some (o.cBreak.getD true) }
def expE (x : Ctx) (d : BDecay) : DOpt := expOpt (x.optOf d)
def encD (x : Ctx) (d : BDecay) : List DItem := [.name d.o1, .name d.o2, .opt (expE x d)]
def entOf (x : Ctx) (d : BDecay) : DecEntry := ⟨d.core, d.o1, d.o2, expE x d⟩

theorem expE_same (x : Ctx) (a b : BDecay) (h : a.same b = true) : expE x a = expE x b := by
  unfold expE; rw [optOf_same x h]

def appendG {β : Type} (acc : List (Name × List β)) (k : Name) (v : β) : List (Name × List β) :=
  match acc with
  | [] => [(k, [v])]
  | (k', vs) :: r => if k' = k then (k', vs ++ [v]) :: r else (k', vs) :: appendG r k v

theorem appendDecay_eq (acc : List (Name × List (List DItem))) (k : Name) (v : List DItem) :
    appendDecay acc k v = appendG acc k v := by
  induction acc with
  | nil => rfl
  | cons a as ih => simp only [appendDecay, appendG, ih]

def mapG {α β : Type} (f : α → β) (acc : List (Name × List α)) : List (Name × List β) :=
  acc.map fun kv => (kv.1, kv.2.map f)

theorem appendG_mapG {α β : Type} (f : α → β) (acc : List (Name × List α)) (k : Name) (v : α) :
    appendG (mapG f acc) k (f v) = mapG f (appendG acc k v) := by
  induction acc with
  | nil => rfl
  | cons a as ih =>
    simp only [mapG, List.map_cons, appendG]
    split
    · simp
    · simp only [List.map_cons, List.cons.injEq, true_and]; exact ih

def groups (ds : List BDecay) (acc : List (Name × List BDecay)) : List (Name × List BDecay) :=
  ds.foldl (fun G d => appendG G d.core d) acc

theorem exportDecays_aux (x : Ctx) (ds : List BDecay) (G : List (Name × List BDecay)) :
    ds.foldl (fun acc d =>
      let o := x.optOf d
      appendDecay acc d.core [.name d.o1, .name d.o2,
        .opt { pBreak := some (o.pBreak.getD false), cBreak := some (o.cBreak.getD true) }]) (mapG (encD x) G)
      = mapG (encD x) (groups ds G) := by
  induction ds generalizing G with
  | nil => rfl
  | cons d ds ih =>
    simp only [List.foldl_cons, groups]
    rw [appendDecay_eq]
    have := appendG_mapG (encD x) G d.core d
    simp only [encD, expE, expOpt] at this ih ⊢
    rw [this]
    exact ih _

theorem exportDecays_eq (x : Ctx) (chains : List Chain) :
    x.exportDecays chains = mapG (encD x) (groups (chains.flatMap id) []) :=
  exportDecays_aux x _ []

def flatG (G : List (Name × List BDecay)) : List BDecay := G.flatMap (·.2)

theorem mem_flatG_appendG (G : List (Name × List BDecay)) (k : Name) (v d : BDecay) :
    d ∈ flatG (appendG G k v) ↔ d ∈ flatG G ∨ d = v := by
  induction G with
  | nil => simp [flatG, appendG]
  | cons a as ih =>
    simp only [appendG]
    split
    · simp only [flatG, List.flatMap_cons, List.mem_append, List.mem_singleton]
      constructor
      · rintro ((h | h) | h)
        · exact Or.inl (Or.inl h)
        · exact Or.inr h
        · exact Or.inl (Or.inr h)
      · rintro ((h | h) | h)
        · exact Or.inl (Or.inl h)
        · exact Or.inr h
        · exact Or.inl (Or.inr h)
    · simp only [flatG, List.flatMap_cons, List.mem_append] at ih ⊢
      rw [ih]
      constructor
      · rintro (h | h | h)
        · exact Or.inl (Or.inl h)
        · exact Or.inl (Or.inr h)
        · exact Or.inr h
      · rintro ((h | h) | h)
        · exact Or.inl h
        · exact Or.inr (Or.inl h)
        · exact Or.inr (Or.inr h)

theorem mem_flatG_groups (ds : List BDecay) (G : List (Name × List BDecay)) (d : BDecay) :
    d ∈ flatG (groups ds G) ↔ d ∈ flatG G ∨ d ∈ ds := by
  unfold groups
  induction ds generalizing G with
  | nil => simp
  | cons e es ih =>
    simp only [List.foldl_cons]
    rw [ih, mem_flatG_appendG, List.mem_cons]
    constructor
    · rintro ((h | h) | h)
      · exact Or.inl h
      · exact Or.inr (Or.inl h)
      · exact Or.inr (Or.inr h)
    · rintro (h | h | h)
      · exact Or.inl (Or.inl h)
      · exact Or.inl (Or.inr h)
      · exact Or.inr h

def GoodG (G : List (Name × List BDecay)) : Prop := ∀ kv ∈ G, ∀ d ∈ kv.2, d.core = kv.1

theorem goodG_appendG (G : List (Name × List BDecay)) (d : BDecay) (h : GoodG G) : GoodG (appendG G d.core d) := by
  induction G with
  | nil =>
    intro kv hkv e he
    simp only [appendG, List.mem_singleton] at hkv
    subst hkv
    simp only [List.mem_singleton] at he
    rw [he]
  | cons a as ih =>
    simp only [appendG]
    split
    · rename_i hk
      intro kv hkv e he
      rcases List.mem_cons.1 hkv with rfl | hkv
      · simp only [List.mem_append, List.mem_singleton] at he
        rcases he with he | he
        · exact h a (by simp) e he
        · rw [he]; exact hk.symm
      · exact h kv (List.mem_cons_of_mem _ hkv) e he
    · intro kv hkv e he
      rcases List.mem_cons.1 hkv with rfl | hkv
      · exact h _ (by simp) e he
      · exact ih (fun kv hkv => h kv (List.mem_cons_of_mem _ hkv)) kv hkv e he

theorem goodG_groups (ds : List BDecay) (G : List (Name × List BDecay)) (h : GoodG G) : GoodG (groups ds G) := by
  unfold groups
  induction ds generalizing G with
  | nil => exact h
  | cons e es ih => exact ih _ (goodG_appendG G e h)

theorem list2decay_enc (x : Ctx) (d : BDecay) : list2decay d.core (encD x d) = some (entOf x d) := by
  simp [list2decay, encD, itemNames, itemOpts, itemOptsAux, entOf, DOpt.update, expE, expOpt]

theorem mapM_enc (x : Ctx) (k : Name) (ds : List BDecay) (h : ∀ d ∈ ds, d.core = k) :
    (ds.map (encD x)).mapM (list2decay k) = some (ds.map (entOf x)) := by
  induction ds with
  | nil => rfl
  | cons d ds ih =>
    have hk : d.core = k := h d (by simp)
    have := ih (fun e he => h e (List.mem_cons_of_mem _ he))
    subst hk
    rw [List.map_cons, List.mapM_cons, list2decay_enc, this]
    rfl

theorem decayItem_enc_aux (x : Ctx) (G : List (Name × List BDecay)) (hG : GoodG G) (init : List DecEntry) :
    ((mapG (encD x) G).map fun kv => (kv.1, DVal.nested kv.2)).foldlM (init := init) (fun acc (p : Name × DVal) =>
      match p with
      | (core, v) =>
      match v with
      | .flat [] => some acc
      | .flat items => (list2decay core items).map fun d => acc ++ [d]
      | .nested ls => (ls.mapM (list2decay core)).map fun ds => acc ++ ds)
      = some (init ++ (flatG G).map (entOf x)) := by
  induction G generalizing init with
  | nil => simp [mapG, flatG]
  | cons a as ih =>
    have h1 := mapM_enc x a.1 a.2 (hG a (by simp))
    simp only [mapG, List.map_cons, List.foldlM_cons, List.map_map] at ih ⊢
    simp only [h1, Option.map_some, Option.bind_eq_bind, Option.bind_some]
    rw [ih (fun kv hkv => hG kv (List.mem_cons_of_mem _ hkv))]
    simp [flatG]

theorem decayItem_enc (x : Ctx) (G : List (Name × List BDecay)) (hG : GoodG G) :
    decayItem ((mapG (encD x) G).map fun kv => (kv.1, DVal.nested kv.2)) = some ((flatG G).map (entOf x)) := by
  have := decayItem_enc_aux x G hG []
  unfold decayItem
  rw [List.nil_append] at this
  exact this

theorem registerAll_ent (x : Ctx) (D : List BDecay) :
    registerAll [] (D.map (entOf x)) = regFold (expE x) D [] := by
  unfold registerAll regFold
  have : (D.map (entOf x)).flatMap (instances []) = D.map fun d => (d, expE x d) := by
    induction D with
    | nil => rfl
    | cons d ds ih =>
      simp only [List.map_cons, List.flatMap_cons, ih]
      simp [instances, wrap, getKV, entOf]
  rw [this, List.foldl_map]

/-! ## the exported property table -/

theorem getKV_map_self {β : Type} (l : List Name) (f : Name → β) (k : Name) :
    getKV (l.map fun n => (n, f n)) k = if k ∈ l then some (f k) else none := by
  induction l with
  | nil => rfl
  | cons a as ih =>
    simp only [List.map_cons, getKV, List.mem_cons]
    by_cases h : a = k
    · simp [h]
    · have : ¬ k = a := fun e => h e.symm
      simp [h, this, ih]

theorem getKV_updKV_map {β : Type} (p : List (Name × β)) (l : List Name) (f : Name → β) (k : Name) :
    getKV (updKV p (l.map fun n => (n, f n))) k = if k ∈ l then some (f k) else getKV p k := by
  unfold updKV
  induction l generalizing p with
  | nil => simp
  | cons a as ih =>
    simp only [List.map_cons, List.foldl_cons, List.mem_cons]
    rw [ih, getKV_setKV_gen]
    by_cases h1 : k ∈ as
    · simp [h1]
    · by_cases h2 : a = k
      · simp [h2]
      · have : ¬ k = a := fun e => h2 e.symm
        simp [h1, h2, this]

theorem particleProp_map (l : List Name) (f : Name → PDict) :
    particleProp (l.map fun n => PEntry.props n (f n)) = l.map fun n => (n, f n) := by
  unfold particleProp
  induction l with
  | nil => rfl
  | cons a as ih => simp only [List.map_cons, List.filterMap_cons, ih]

theorem particleMap_map (l : List Name) (f : Name → PDict) :
    particleMap (l.map fun n => PEntry.props n (f n)) = [] := by
  unfold particleMap
  induction l with
  | nil => rfl
  | cons a as ih => simp only [List.map_cons, List.filterMap_cons, ih]

/-- the property table of the exported card -/
theorem getKV_export_props (x : Ctx) (top : Name) (chains : List Chain) (n : Name)
    (hn : n = top ∨ n ∈ (x.asConfig top chains).finals ∨ n ∈ resonances chains) :
    getKV ((x.asConfig top chains).props (x.asConfig top chains).particle) n = some (exportDict x.props n) := by
  unfold Card.props
  have e1 : (x.asConfig top chains).topDict = some (exportDict x.props top) := rfl
  have e2 : (x.asConfig top chains).finalsDict =
      some ((x.asConfig top chains).finals.map fun n => (n, exportDict x.props n)) := rfl
  have e3 : (x.asConfig top chains).particle = (resonances chains).map fun n => .props n (exportDict x.props n) := rfl
  have e4 : (x.asConfig top chains).top = top := rfl
  rw [e1, e2, e3, e4]
  simp only
  rw [getKV_updKV_map, getKV_setKV_gen, particleProp_map, getKV_map_self]
  by_cases h1 : n ∈ (x.asConfig top chains).finals
  · simp [h1]
  · by_cases h2 : top = n
    · simp [h2]
    · have h3 : n ∈ resonances chains := by
        rcases hn with h | h | h
        · exact absurd h.symm h2
        · exact absurd h h1
        · exact h
      simp [h1, h2, h3]

/-! ## `sorted` and `resonances` -/

theorem insertSorted_perm (x : String) (l : List String) : (insertSorted x l).Perm (x :: l) := by
  induction l with
  | nil => exact List.Perm.refl _
  | cons y ys ih =>
    simp only [insertSorted]
    split
    · exact List.Perm.refl _
    · exact (List.Perm.cons y ih).trans (List.Perm.swap x y ys)

theorem sortNames_perm (l : List String) : (sortNames l).Perm l := by
  induction l with
  | nil => exact List.Perm.refl _
  | cons y ys ih =>
    simp only [sortNames, List.foldr_cons] at ih ⊢
    exact (insertSorted_perm y _).trans (List.Perm.cons y ih)

theorem mem_addNew (l acc : List Name) (n : Name) :
    n ∈ l.foldl (fun acc n => if acc.contains n then acc else acc ++ [n]) acc ↔ n ∈ acc ∨ n ∈ l := by
  induction l generalizing acc with
  | nil => simp
  | cons a as ih =>
    simp only [List.foldl_cons, List.mem_cons]
    rw [ih]
    by_cases h : acc.contains a = true
    · simp only [h, if_true]
      have : a ∈ acc := by simpa using h
      constructor
      · rintro (h | h)
        · exact Or.inl h
        · exact Or.inr (Or.inr h)
      · rintro (h | rfl | h)
        · exact Or.inl h
        · exact Or.inl this
        · exact Or.inr h
    · rw [Bool.not_eq_true] at h
      simp only [h, Bool.false_eq_true, if_false, List.mem_append, List.mem_singleton]
      constructor
      · rintro ((h | h) | h)
        · exact Or.inl h
        · exact Or.inr (Or.inl h)
        · exact Or.inr (Or.inr h)
      · rintro (h | h | h)
        · exact Or.inl (Or.inl h)
        · exact Or.inl (Or.inr h)
        · exact Or.inr h

theorem mem_resonances_aux (chains : List Chain) (acc : List Name) (n : Name) :
    n ∈ chains.foldl (fun acc c => (sortNames (chainInner c)).foldl
      (fun acc n => if acc.contains n then acc else acc ++ [n]) acc) acc ↔
      n ∈ acc ∨ ∃ ch ∈ chains, n ∈ chainInner ch := by
  induction chains generalizing acc with
  | nil => simp
  | cons c cs ih =>
    simp only [List.foldl_cons]
    rw [ih, mem_addNew, (sortNames_perm _).mem_iff]
    simp only [List.mem_cons, exists_eq_or_imp]
    constructor
    · rintro ((h | h) | h)
      · exact Or.inl h
      · exact Or.inr (Or.inl h)
      · exact Or.inr (Or.inr h)
    · rintro (h | h | h)
      · exact Or.inl (Or.inl h)
      · exact Or.inl (Or.inr h)
      · exact Or.inr h

theorem mem_resonances (chains : List Chain) (n : Name) :
    n ∈ resonances chains ↔ ∃ ch ∈ chains, n ∈ chainInner ch := by
  unfold resonances
  rw [mem_resonances_aux]
  simp

/-! ## paths in the registry and the recursion budget -/

inductive Path (regs : List BDecay) : Name → List BDecay → Prop
  | nil (x : Name) : Path regs x []
  | cons {x y : Name} {d : BDecay} {p : List BDecay} :
      d ∈ regs → d.core = x → (y = d.o1 ∨ y = d.o2) → Path regs y p → Path regs x (d :: p)

theorem overDecays_none (f : Name → Option (List Chain)) (ds : List BDecay) :
    overDecays f ds = none ↔ ∃ d ∈ ds, f d.o1 = none ∨ f d.o2 = none := by
  induction ds with
  | nil => simp [overDecays]
  | cons d ds ih =>
    unfold overDecays
    cases h1 : f d.o1 with
    | none => simp [h1]
    | some a =>
      cases h2 : f d.o2 with
      | none => simp [h2]
      | some b =>
        cases h3 : overDecays f ds with
        | none =>
          simp only [true_iff]
          obtain ⟨e, he, h⟩ := ih.1 h3
          exact ⟨e, List.mem_cons_of_mem _ he, h⟩
        | some r =>
          simp only [reduceCtorEq, false_iff]
          rintro ⟨e, he, h⟩
          rcases List.mem_cons.1 he with rfl | he
          · simp [h1, h2] at h
          · have := ih.2 ⟨e, he, h⟩
            rw [h3] at this; exact absurd this (by simp)

theorem chainDecay_none_path (regs : List BDecay) : ∀ (n : Nat) (x : Name), chainDecay regs n x = none →
    ∃ p, Path regs x p ∧ p.length = n + 1 := by
  intro n
  induction n with
  | zero =>
    intro x h
    unfold chainDecay at h
    split at h
    · simp at h
    · rename_i he
      cases hd : decaysOf regs x with
      | nil => simp [hd] at he
      | cons d ds =>
        have : d ∈ decaysOf regs x := by rw [hd]; simp
        rw [mem_decaysOf] at this
        exact ⟨[d], .cons this.1 this.2 (Or.inl rfl) (.nil _), rfl⟩
  | succ n ih =>
    intro x h
    unfold chainDecay at h
    obtain ⟨d, hd, h⟩ := (overDecays_none _ _).1 h
    rw [mem_decaysOf] at hd
    rcases h with h | h
    · obtain ⟨p, hp, hl⟩ := ih _ h
      exact ⟨d :: p, .cons hd.1 hd.2 (Or.inl rfl) hp, by simp [hl]⟩
    · obtain ⟨p, hp, hl⟩ := ih _ h
      exact ⟨d :: p, .cons hd.1 hd.2 (Or.inr rfl) hp, by simp [hl]⟩

theorem path_chainDecay_none (regs : List BDecay) : ∀ (n : Nat) (x : Name) (p : List BDecay), Path regs x p →
    n < p.length → chainDecay regs n x = none := by
  intro n
  induction n with
  | zero =>
    intro x p hp hl
    cases hp with
    | nil => simp at hl
    | @cons _ y d p' h1 h2 h3 h4 =>
      unfold chainDecay
      have : d ∈ decaysOf regs x := (mem_decaysOf _ _ _).2 ⟨h1, h2⟩
      have : (decaysOf regs x).isEmpty = false := by
        cases hd : decaysOf regs x with
        | nil => rw [hd] at this; simp at this
        | cons _ _ => rfl
      simp [this]
  | succ n ih =>
    intro x p hp hl
    cases hp with
    | nil => simp at hl
    | @cons _ y d p' h1 h2 h3 h4 =>
      unfold chainDecay
      rw [overDecays_none]
      refine ⟨d, (mem_decaysOf _ _ _).2 ⟨h1, h2⟩, ?_⟩
      have := ih y p' h4 (by simpa using hl)
      rcases h3 with rfl | rfl
      · exact Or.inl this
      · exact Or.inr this

theorem path_splice (regs : List BDecay) (a : List BDecay) : ∀ (x : Name) (e : BDecay) (c q : List BDecay),
    Path regs x (a ++ e :: c) → Path regs e.core q → Path regs x (a ++ q) := by
  induction a with
  | nil =>
    intro x e c q h hq
    cases h with
    | cons _ h2 _ _ => rw [← h2]; exact hq
  | cons a0 a' ih =>
    intro x e c q h hq
    cases h with
    | cons h1 h2 h3 h4 => exact .cons h1 h2 h3 (ih _ e c q h4 hq)

theorem path_pump (regs : List BDecay) (x : Name) (d e' : BDecay) (b c : List BDecay)
    (h : Path regs x (d :: b ++ e' :: c)) (he : e'.core = x) : ∀ k : Nat, ∃ q, Path regs x q ∧ k ≤ q.length := by
  intro k
  induction k with
  | zero => exact ⟨[], .nil _, Nat.le_refl _⟩
  | succ k ih =>
    obtain ⟨q, hq, hl⟩ := ih
    refine ⟨(d :: b) ++ q, path_splice regs (d :: b) x e' c q h (by rw [he]; exact hq), ?_⟩
    simp only [List.length_append, List.length_cons]
    omega

/-- the recursion terminates below `x` -/
def Terminates (regs : List BDecay) (x : Name) : Prop := ∃ n cs, chainDecay regs n x = some cs

theorem terminates_step {regs : List BDecay} {x : Name} (h : Terminates regs x) {d : BDecay} (hd : d ∈ regs) (hc : d.core = x) :
    Terminates regs d.o1 ∧ Terminates regs d.o2 := by
  obtain ⟨n, cs, h⟩ := h
  have hp : Path regs x [d] := .cons hd hc (Or.inl rfl) (.nil _)
  cases n with
  | zero =>
    have := path_chainDecay_none regs 0 x [d] hp (by simp)
    rw [h] at this; exact absurd this (by simp)
  | succ n =>
    unfold chainDecay at h
    have hne : overDecays (chainDecay regs n) (decaysOf regs x) ≠ none := by rw [h]; simp
    rw [Ne, overDecays_none] at hne
    have hm : d ∈ decaysOf regs x := (mem_decaysOf _ _ _).2 ⟨hd, hc⟩
    constructor
    · cases h1 : chainDecay regs n d.o1 with
      | none => exact absurd ⟨d, hm, Or.inl h1⟩ hne
      | some a => exact ⟨n, a, h1⟩
    · cases h2 : chainDecay regs n d.o2 with
      | none => exact absurd ⟨d, hm, Or.inr h2⟩ hne
      | some a => exact ⟨n, a, h2⟩

theorem path_cores_nodup (regs : List BDecay) (p : List BDecay) : ∀ x, Terminates regs x → Path regs x p →
    (p.map (·.core)).Nodup := by
  induction p with
  | nil => intro _ _ _; simp
  | cons d p' ih =>
    intro x hf hp
    have hp0 := hp
    cases hp with
    | @cons _ y _ _ h1 h2 h3 h4 =>
      have hfy : Terminates regs y := by
        rcases h3 with rfl | rfl
        · exact (terminates_step hf h1 h2).1
        · exact (terminates_step hf h1 h2).2
      rw [List.map_cons, List.nodup_cons]
      refine ⟨?_, ih y hfy h4⟩
      intro hmem
      obtain ⟨e', he', hce⟩ := List.mem_map.1 hmem
      obtain ⟨b, c, rfl⟩ := List.append_of_mem he'
      obtain ⟨n, cs, hn⟩ := hf
      obtain ⟨q, hq, hl⟩ := path_pump regs x d e' b c (by simpa using hp0) (by rw [hce, h2]) (n + 1)
      have := path_chainDecay_none regs n x q hq (by omega)
      rw [hn] at this; exact absurd this (by simp)

theorem path_mem (regs : List BDecay) (p : List BDecay) : ∀ x, Path regs x p → ∀ d ∈ p, d ∈ regs := by
  induction p with
  | nil => intro _ _ d hd; simp at hd
  | cons e p' ih =>
    intro x hp d hd
    cases hp with
    | cons h1 h2 h3 h4 =>
      rcases List.mem_cons.1 hd with rfl | hd
      · exact h1
      · exact ih _ h4 d hd

theorem path_mono {regs regs' : List BDecay} (hsub : ∀ d ∈ regs', d ∈ regs) (p : List BDecay) :
    ∀ x, Path regs' x p → Path regs x p := by
  induction p with
  | nil => intro x _; exact .nil _
  | cons e p' ih =>
    intro x hp
    cases hp with
    | cons h1 h2 h3 h4 => exact .cons (hsub _ h1) h2 h3 (ih _ h4)

theorem nodup_subset_length {α : Type} [DecidableEq α] (l : List α) : ∀ (m : List α), l.Nodup → (∀ a ∈ l, a ∈ m) →
    l.length ≤ m.length := by
  induction l with
  | nil => intro m _ _; simp
  | cons a as ih =>
    intro m hn hs
    rw [List.nodup_cons] at hn
    have ha : a ∈ m := hs a (by simp)
    have := ih (m.erase a) hn.2 (fun b hb => by
      have hbm := hs b (List.mem_cons_of_mem _ hb)
      have : b ≠ a := fun e => hn.1 (e ▸ hb)
      exact (List.mem_erase_of_ne this).2 hbm)
    rw [List.length_erase_of_mem ha] at this
    have : 0 < m.length := List.length_pos_of_mem ha
    simp only [List.length_cons]
    omega

theorem nodup_of_map {α β : Type} (f : α → β) (l : List α) (h : (l.map f).Nodup) : l.Nodup := by
  induction l with
  | nil => simp
  | cons a as ih =>
    rw [List.map_cons, List.nodup_cons] at h
    rw [List.nodup_cons]
    exact ⟨fun hm => h.1 (List.mem_map.2 ⟨a, hm, rfl⟩), ih h.2⟩

/-- the budget of the smaller registry suffices -/
theorem budget_sub (regs regs' : List BDecay) (hsub : ∀ d ∈ regs', d ∈ regs) (x : Name) (hf : Terminates regs x) :
    ∃ cs, chainDecay regs' (recursionBudget regs') x = some cs := by
  cases h : chainDecay regs' (recursionBudget regs') x with
  | some cs => exact ⟨cs, rfl⟩
  | none =>
    exfalso
    obtain ⟨p, hp, hl⟩ := chainDecay_none_path regs' _ x h
    have hnd := path_cores_nodup regs p x hf (path_mono hsub p x hp)
    have hnd' : p.Nodup := nodup_of_map _ _ hnd
    have := nodup_subset_length p regs' hnd' (path_mem regs' p x hp)
    unfold recursionBudget at hl
    omega

theorem wf_path (regs : List BDecay) : ∀ t : DTree, t.WF regs → ∃ p, Path regs t.root p ∧ p.length = t.depth
  | .leaf n, _ => ⟨[], .nil _, rfl⟩
  | .node d l r, ⟨hd, hl, hr, wl, wr⟩ => by
    obtain ⟨pl, hpl, el⟩ := wf_path regs l wl
    obtain ⟨pr, hpr, er⟩ := wf_path regs r wr
    by_cases hle : l.depth ≤ r.depth
    · refine ⟨d :: pr, .cons hd rfl (Or.inr hr) hpr, ?_⟩
      simp only [List.length_cons, DTree.depth, er]; omega
    · refine ⟨d :: pl, .cons hd rfl (Or.inl hl) hpl, ?_⟩
      simp only [List.length_cons, DTree.depth, el]; omega

theorem wf_depth_le {regs : List BDecay} {n : Nat} {x : Name} {cs : List Chain} (h : chainDecay regs n x = some cs)
    (t : DTree) (wf : t.WF regs) (hr : t.root = x) : t.depth ≤ n := by
  obtain ⟨p, hp, hl⟩ := wf_path regs t wf
  rw [hr] at hp
  by_cases hle : t.depth ≤ n
  · exact hle
  · have := path_chainDecay_none regs n x p hp (by omega)
    rw [h] at this; exact absurd this (by simp)

/-! ## trees of produced chains -/

theorem mem_chainDecay_tree {regs : List BDecay} {n : Nat} {x : Name} {cs : List Chain}
    (h : chainDecay regs n x = some cs) {ch : Chain} (hch : ch ∈ cs) :
    ∃ d l r, (DTree.node d l r).WF regs ∧ d.core = x ∧ (DTree.node d l r).chain = ch := by
  obtain ⟨hnil, hspec⟩ := chainDecay_spec _ _ _ _ h
  obtain ⟨t, wf, hr, hc, _⟩ := (hspec ch).1 (Or.inl hch)
  cases t with
  | leaf m =>
    exfalso
    simp only [DTree.root] at hr
    subst hr
    have : cs = [] := hnil.2 wf
    rw [this] at hch; simp at hch
  | node d l r => exact ⟨d, l, r, wf, hr, hc⟩

theorem tree_mem_chainDecay {regs : List BDecay} {n : Nat} {x : Name} {cs : List Chain}
    (h : chainDecay regs n x = some cs) (d : BDecay) (l r : DTree) (wf : (DTree.node d l r).WF regs)
    (hr : d.core = x) : (DTree.node d l r).chain ∈ cs := by
  obtain ⟨_, hspec⟩ := chainDecay_spec _ _ _ _ h
  have hd := wf_depth_le h _ wf hr
  rcases (hspec (DTree.node d l r).chain).2 ⟨_, wf, hr, rfl, hd⟩ with hp | ⟨_, hp⟩
  · exact hp
  · simp [DTree.chain] at hp

theorem wf_transfer {R R' : List BDecay} : ∀ t : DTree, t.WF R → (∀ d ∈ t.chain, d ∈ R') →
    (∀ x ∈ t.leaves, decaysOf R' x = []) → t.WF R'
  | .leaf n, _, _, h2 => h2 n (by simp [DTree.leaves])
  | .node d l r, ⟨_, hl, hr, wl, wr⟩, h1, h2 => by
    refine ⟨h1 d (by simp [DTree.chain]), hl, hr, ?_, ?_⟩
    · exact wf_transfer l wl (fun e he => h1 e (by simp [DTree.chain, he]))
        (fun x hx => h2 x (by simp [DTree.leaves, hx]))
    · exact wf_transfer r wr (fun e he => h1 e (by simp [DTree.chain, he]))
        (fun x hx => h2 x (by simp [DTree.leaves, hx]))

theorem decaysOf_sub {R R' : List BDecay} (hsub : ∀ d ∈ R', d ∈ R) (x : Name) (h : decaysOf R x = []) :
    decaysOf R' x = [] := by
  cases hd : decaysOf R' x with
  | nil => rfl
  | cons e es =>
    exfalso
    have : e ∈ decaysOf R' x := by rw [hd]; simp
    rw [mem_decaysOf] at this
    have : e ∈ decaysOf R x := (mem_decaysOf _ _ _).2 ⟨hsub _ this.1, this.2⟩
    rw [h] at this; simp at this

/-- every name of a chain is the root, an inner particle or a leaf -/
theorem name_class (regs : List BDecay) (t : DTree) (wf : t.WF regs) (n : Name)
    (h : n ∈ chainCores t.chain ∨ n ∈ chainOuts t.chain) :
    n = t.root ∨ n ∈ chainInner t.chain ∨ n ∈ chainLeaves t.chain := by
  by_cases hi : n ∈ chainInner t.chain
  · exact Or.inr (Or.inl hi)
  · have key : n ∈ chainOuts t.chain → n ∈ chainLeaves t.chain := by
      intro ho
      unfold chainLeaves
      rw [List.mem_filter]
      exact ⟨ho, by simpa using hi⟩
    rcases h with h | h
    · rcases cores_sub regs t wf n h with h' | h'
      · exact Or.inl h'
      · exfalso
        apply hi
        unfold chainInner
        rw [List.mem_filter]
        exact ⟨h, by simpa using h'⟩
    · exact Or.inr (Or.inr (key h))

theorem mem_chain_names {ch : Chain} {d : BDecay} (hd : d ∈ ch) :
    d.core ∈ chainCores ch ∧ d.o1 ∈ chainOuts ch ∧ d.o2 ∈ chainOuts ch := by
  refine ⟨List.mem_map.2 ⟨d, hd, rfl⟩, ?_, ?_⟩
  · unfold chainOuts; rw [List.mem_flatMap]; exact ⟨d, hd, by simp⟩
  · unfold chainOuts; rw [List.mem_flatMap]; exact ⟨d, hd, by simp⟩

theorem matchesFinals_perm {f f' : List Name} (h : f'.Perm f) (ch : Chain) :
    matchesFinals f' ch = matchesFinals f ch := by
  unfold matchesFinals
  cases h1 : (chainLeaves ch).isPerm f with
  | true => exact List.isPerm_iff.2 ((List.isPerm_iff.1 h1).trans h.symm)
  | false =>
    cases h2 : (chainLeaves ch).isPerm f' with
    | false => rfl
    | true =>
      have := List.isPerm_iff.2 ((List.isPerm_iff.1 h2).trans h)
      rw [h1] at this; exact absurd this (by decide)

theorem survives_iff (x : Ctx) (ch : Chain) : x.survives ch = true ↔ ∀ d ∈ ch, x.ls d ≠ [] := by
  unfold Ctx.survives
  simp only [List.all_eq_true, Bool.not_eq_true', List.isEmpty_eq_false_iff]

theorem lsOf_expOpt_ne (a b c : QN) (o : DOpt) (h1 : o.lsList = none) (h : lsOf a b c o ≠ []) :
    lsOf a b c (expOpt o) ≠ [] := by
  unfold lsOf at *
  rw [h1] at h
  simp only [expOpt, Option.getD_some] at h ⊢
  cases h2 : o.lList with
  | none => rw [h2] at h; exact h
  | some ll =>
    rw [h2] at h
    simp only [LS.filterL] at h
    intro e
    apply h
    have : ∀ l : List (Nat × Nat), l = [] → List.filter (fun p => ll.contains p.fst) l = [] := by
      intro l hl; rw [hl]; rfl
    exact this _ e

theorem expand_of {c : Card} {ctx : Ctx} {cand : List Chain} (h1 : c.context = some ctx)
    (h2 : candidates (ctx.regs.map (·.1)) c.top c.finals = some cand) (h3 : cand.all simpleChain = true)
    (h4 : cand.filter ctx.survives ≠ []) : c.expand = .ok ctx (cand.filter ctx.survives) := by
  unfold Card.expand
  rw [h1]
  simp only [h2, h3]
  have : (cand.filter ctx.survives).isEmpty = false := by
    cases h : cand.filter ctx.survives with
    | nil => exact absurd h h4
    | cons _ _ => rfl
  simp [this]

theorem rt_context (x : Ctx) (top : Name) (chains : List Chain) :
    (x.asConfig top chains).context = some ⟨(x.asConfig top chains).props (x.asConfig top chains).particle,
      regFold (expE x) (flatG (groups (chains.flatMap id) [])) []⟩ := by
  unfold Card.context
  have e1 : (x.asConfig top chains).decay =
      (mapG (encD x) (groups (chains.flatMap id) [])).map fun kv => (kv.1, DVal.nested kv.2) := by
    show (x.exportDecays chains).map _ = _
    rw [exportDecays_eq]
  have e2 : (x.asConfig top chains).includes = [] := rfl
  rw [e1, e2, decayItem_enc _ _ (goodG_groups _ [] (by intro kv h; simp at h))]
  simp only [mergeIncludes, List.foldlM_nil, Option.pure_def, Option.bind_eq_bind, Option.bind_some]
  have e3 : particleMap (x.asConfig top chains).particle = [] := particleMap_map _ _
  rw [e3, registerAll_ent]

/-! ## the round trip -/

/-- everything the export → import clause needs, for every card that loads -/
theorem rt_core (c : Card) (ctx : Ctx) (chains : List Chain) (h : c.expand = .ok ctx chains)
    (hls : ∀ ch ∈ chains, ∀ d ∈ ch, (ctx.optOf d).lsList = none) :
    ∃ ctx' chains', (ctx.asConfig c.top chains).expand = .ok ctx' chains' ∧
      (∀ ch, ch ∈ chains' ↔ ch ∈ chains) ∧
      (∀ ch ∈ chains, ∀ d ∈ ch, ∀ n, (n = c.top ∨ n = d.core ∨ n = d.o1 ∨ n = d.o2) →
        getKV ctx'.props n = some (exportDict ctx.props n)) ∧
      (∀ ch ∈ chains, ∀ d ∈ ch, ctx'.optOf d = expE ctx d) := by
  obtain ⟨hctx, cand, hcand, hsimple, hchains, hne⟩ := expand_ok h
  have hNS : NoSame ctx.regs := context_noSame hctx
  unfold candidates at hcand
  cases hcd : chainDecay (regsOf ctx) (recursionBudget (regsOf ctx)) c.top with
  | none => rw [hcd] at hcand; simp at hcand
  | some cs =>
  rw [hcd] at hcand
  simp only [Option.map_some, Option.some.injEq] at hcand
  -- membership in the original chain list
  have hmem : ∀ ch, ch ∈ chains ↔ (ch ∈ cs ∧ matchesFinals c.finals ch = true) ∧ ∀ d ∈ ch, ctx.ls d ≠ [] := by
    intro ch
    rw [hchains, ← hcand, List.mem_filter, List.mem_filter, survives_iff]
  -- trees of the original chains
  have htree : ∀ ch ∈ chains, ∃ d l r, (DTree.node d l r).WF (regsOf ctx) ∧ d.core = c.top ∧
      (DTree.node d l r).chain = ch := fun ch hch => mem_chainDecay_tree hcd ((hmem ch).1 hch).1.1
  have hreg : ∀ ch ∈ chains, ∀ d ∈ ch, d ∈ regsOf ctx := by
    intro ch hch d hd
    obtain ⟨e, l, r, wf, _, hc⟩ := htree ch hch
    exact wf_chain_mem _ _ wf d (by rw [hc]; exact hd)
  have hleaves : ∀ ch ∈ chains, (chainLeaves ch).Perm c.finals := by
    intro ch hch
    have := ((hmem ch).1 hch).1.2
    unfold matchesFinals at this
    exact List.isPerm_iff.1 this
  -- the rebuilt registry
  have hD : ∀ d, d ∈ flatG (groups (chains.flatMap id) []) ↔ ∃ ch ∈ chains, d ∈ ch := by
    intro d
    rw [mem_flatG_groups]
    simp [flatG]
  have hctx' := rt_context ctx c.top chains
  generalize hD0 : flatG (groups (chains.flatMap id) []) = D at hD hctx'
  generalize hc' : ctx.asConfig c.top chains = c' at hctx'
  have htop' : c'.top = c.top := by rw [← hc']; rfl
  generalize hx' : (Ctx.mk (c'.props c'.particle) (regFold (expE ctx) D [])) = ctx' at hctx'
  have hregs' : ctx'.regs = regFold (expE ctx) D [] := by rw [← hx']
  have hsub : ∀ d ∈ regsOf ctx', d ∈ D := by
    intro d hd
    unfold regsOf at hd
    rw [hregs'] at hd
    rcases regFold_mem _ _ _ _ hd with h | h
    · simp at h
    · exact h
  have hsubR : ∀ d ∈ regsOf ctx', d ∈ regsOf ctx := by
    intro d hd
    obtain ⟨ch, hch, hdc⟩ := (hD d).1 (hsub d hd)
    exact hreg ch hch d hdc
  have hsup : ∀ d ∈ D, d ∈ regsOf ctx' := by
    intro d hd
    obtain ⟨d', h1, h2⟩ := regFold_has_same (expE ctx) D [] d hd
    rw [← hregs'] at h1
    obtain ⟨ch, hch, hdc⟩ := (hD d).1 hd
    have : d' = d := noSame_eq hNS (hsubR d' h1) (hreg ch hch d hdc) h2
    rw [← this]; exact h1
  have hopt : ∀ d ∈ D, ctx'.optOf d = expE ctx d := by
    intro d hd
    apply optOf_of_opts (expE ctx) (expE_same ctx) ctx'
    · rw [hregs']
      exact regFold_opts (expE ctx) (expE_same ctx) D [] (by intro r hr; simp at hr)
    · exact ⟨d, hsup d hd, same_refl d⟩
  -- finals of the exported card
  obtain ⟨ch0, hch0⟩ : ∃ ch0, ch0 ∈ chains := by
    cases chains with
    | nil => exact absurd rfl hne
    | cons a _ => exact ⟨a, by simp⟩
  have hfin : c'.finals.Perm c.finals := by
    rw [← hc']
    cases hcs : chains with
    | nil => exact absurd hcs hne
    | cons a as =>
      show (sortNames (chainLeaves a)).Perm c.finals
      exact (sortNames_perm _).trans (hleaves a (by rw [hcs]; simp))
  -- names
  have hnames : ∀ ch ∈ chains, ∀ d ∈ ch, ∀ n, (n = c.top ∨ n = d.core ∨ n = d.o1 ∨ n = d.o2) →
      n = c.top ∨ n ∈ c'.finals ∨ n ∈ resonances chains := by
    intro ch hch d hd n hn
    obtain ⟨e, l, r, wf, hr, hc⟩ := htree ch hch
    obtain ⟨m1, m2, m3⟩ := mem_chain_names hd
    have hcl : n = c.top ∨ n ∈ chainCores ch ∨ n ∈ chainOuts ch := by
      rcases hn with h | rfl | rfl | rfl
      · exact Or.inl h
      · exact Or.inr (Or.inl m1)
      · exact Or.inr (Or.inr m2)
      · exact Or.inr (Or.inr m3)
    rcases hcl with h | h
    · exact Or.inl h
    · rw [← hc] at h
      rcases name_class _ _ wf n h with h | h | h
      · exact Or.inl (h.trans hr)
      · rw [hc] at h
        exact Or.inr (Or.inr ((mem_resonances _ _).2 ⟨ch, hch, h⟩))
      · rw [hc] at h
        exact Or.inr (Or.inl (hfin.mem_iff.2 ((hleaves ch hch).mem_iff.1 h)))
  have hprops : ∀ ch ∈ chains, ∀ d ∈ ch, ∀ n, (n = c.top ∨ n = d.core ∨ n = d.o1 ∨ n = d.o2) →
      getKV ctx'.props n = some (exportDict ctx.props n) := by
    intro ch hch d hd n hn
    have := hnames ch hch d hd n hn
    rw [← hx', ← hc']
    rw [← hc'] at this
    exact getKV_export_props ctx c.top chains n this
  have hqn : ∀ ch ∈ chains, ∀ d ∈ ch, ∀ n, (n = c.top ∨ n = d.core ∨ n = d.o1 ∨ n = d.o2) →
      qnOfName ctx'.props n = qnOfName ctx.props n := by
    intro ch hch d hd n hn
    unfold qnOfName
    rw [hprops ch hch d hd n hn]
    exact (export_import_partial_qn ctx.props n).1
  have hls' : ∀ ch ∈ chains, ∀ d ∈ ch, ctx'.ls d =
      lsOf (qnOfName ctx.props d.core) (qnOfName ctx.props d.o1) (qnOfName ctx.props d.o2) (expE ctx d) := by
    intro ch hch d hd
    unfold Ctx.ls
    rw [hqn ch hch d hd _ (Or.inr (Or.inl rfl)), hqn ch hch d hd _ (Or.inr (Or.inr (Or.inl rfl))),
      hqn ch hch d hd _ (Or.inr (Or.inr (Or.inr rfl))), hopt d ((hD d).2 ⟨ch, hch, hd⟩)]
  -- the budget
  obtain ⟨cs', hcd'⟩ := budget_sub (regsOf ctx) (regsOf ctx') hsubR c.top ⟨_, cs, hcd⟩
  have hcand' : candidates (ctx'.regs.map (·.1)) c'.top c'.finals = some (cs'.filter (matchesFinals c'.finals)) := by
    unfold candidates
    rw [htop']
    show Option.map _ (chainDecay (regsOf ctx') (recursionBudget (regsOf ctx')) c.top) = _
    rw [hcd']; rfl
  -- original chains are candidates of the exported card
  have hB : ∀ ch ∈ chains, ch ∈ cs'.filter (matchesFinals c'.finals) := by
    intro ch hch
    obtain ⟨e, l, r, wf, hr, hc⟩ := htree ch hch
    rw [List.mem_filter, matchesFinals_perm hfin]
    refine ⟨?_, ((hmem ch).1 hch).1.2⟩
    rw [← hc]
    refine tree_mem_chainDecay hcd' e l r ?_ hr
    refine wf_transfer _ wf ?_ ?_
    · intro d hd
      rw [hc] at hd
      exact hsup d ((hD d).2 ⟨ch, hch, hd⟩)
    · intro x hx
      exact decaysOf_sub hsubR x (wf_leaves _ _ wf x hx)
  -- candidates of the exported card are original candidates
  have hA : ∀ ch ∈ cs'.filter (matchesFinals c'.finals), (ch ∈ cs ∧ matchesFinals c.finals ch = true) ∧
      ∀ d ∈ ch, d ∈ D := by
    intro ch hch
    rw [List.mem_filter, matchesFinals_perm hfin] at hch
    obtain ⟨e, l, r, wf, hr, hc⟩ := mem_chainDecay_tree hcd' hch.1
    have hmemD : ∀ d ∈ ch, d ∈ D := by
      intro d hd
      exact hsub d (wf_chain_mem _ _ wf d (by rw [hc]; exact hd))
    refine ⟨⟨?_, hch.2⟩, hmemD⟩
    rw [← hc]
    refine tree_mem_chainDecay hcd e l r ?_ hr
    refine wf_transfer _ wf ?_ ?_
    · intro d hd
      exact hsubR d (wf_chain_mem _ _ wf d hd)
    · intro x hx
      -- a leaf of the new tree is a final particle, hence a leaf of any original tree
      have hp := chainLeaves_perm _ e l r wf
      rw [hc] at hp
      have hfm := hch.2
      unfold matchesFinals at hfm
      have hxf : x ∈ c.finals := (List.isPerm_iff.1 hfm).mem_iff.1 (hp.mem_iff.2 hx)
      obtain ⟨e0, l0, r0, wf0, _, hc0⟩ := htree ch0 hch0
      have hp0 := chainLeaves_perm _ e0 l0 r0 wf0
      rw [hc0] at hp0
      have : x ∈ (DTree.node e0 l0 r0).leaves := hp0.mem_iff.1 ((hleaves ch0 hch0).mem_iff.2 hxf)
      exact wf_leaves _ _ wf0 x this
  have hset : ∀ ch, ch ∈ (cs'.filter (matchesFinals c'.finals)).filter ctx'.survives ↔ ch ∈ chains := by
    intro ch
    rw [List.mem_filter, survives_iff]
    constructor
    · rintro ⟨h1, _⟩
      obtain ⟨h2, h3⟩ := hA ch h1
      rw [hmem]
      refine ⟨h2, ?_⟩
      intro d hd
      obtain ⟨ch1, hch1, hd1⟩ := (hD d).1 (h3 d hd)
      exact ((hmem ch1).1 hch1).2 d hd1
    · intro hch
      refine ⟨hB ch hch, ?_⟩
      intro d hd
      rw [hls' ch hch d hd]
      exact lsOf_expOpt_ne _ _ _ _ (hls ch hch d hd) (((hmem ch).1 hch).2 d hd)
  have hsimple' : (cs'.filter (matchesFinals c'.finals)).all simpleChain = true := by
    rw [List.all_eq_true]
    intro ch hch
    have := (hA ch hch).1
    have hc : ch ∈ cand := by rw [← hcand, List.mem_filter]; exact this
    exact List.all_eq_true.1 hsimple ch hc
  have hne' : (cs'.filter (matchesFinals c'.finals)).filter ctx'.survives ≠ [] := by
    intro e
    have := (hset ch0).2 hch0
    rw [e] at this; simp at this
  refine ⟨ctx', _, expand_of hctx' hcand' hsimple' hne', hset, hprops, ?_⟩
  intro ch hch d hd
  exact hopt d ((hD d).2 ⟨ch, hch, hd⟩)

end TfPwaV.C19
