import TfPwaV.Model.DataX
import TfPwaV.Proofs.Data
/-!
Helper lemmas for C18b (core Lean only): lookups in `dictSet` / `dictUpdate`, `setKV` / `insAll` on fresh keys,
row operations commute with `zip`, `strip`, `leafList`.
-/
namespace TfPwaV.DataX
open TfPwaV.Data

variable {α β γ : Type}

-- lookup / dictSet / dictUpdate -------------------------------------------------------------------

theorem lookup_append (k : String) (a b : List (String × D α)) :
    lookup k (a ++ b) = match lookup k a with | some v => some v | none => lookup k b := by
  induction a with
  | nil => simp [lookup]
  | cons p rest ih =>
    obtain ⟨k', v'⟩ := p
    simp only [List.cons_append, lookup]
    by_cases h : k' = k <;> simp [h, ih]

theorem lookup_map_set (k k' : String) (v : D α) (kv : List (String × D α)) :
    lookup k' (kv.map fun p => if p.1 = k then (p.1, v) else p) =
      if k' = k then (lookup k kv).map (fun _ => v) else lookup k' kv := by
  induction kv with
  | nil => simp [lookup]
  | cons p rest ih =>
    obtain ⟨a, w⟩ := p
    simp only [List.map_cons, lookup]
    by_cases hak : a = k
    · subst hak
      by_cases hk : k' = a
      · subst hk; simp
      · have : ¬ a = k' := fun h => hk h.symm
        simp [this, hk, ih]
    · by_cases hk : k' = k
      · subst hk
        simp [hak, ih]
      · simp only [hak, if_false, ih, hk]

/-- `d[k] = v; d[k']` -/
theorem lookup_dictSet (kv : List (String × D α)) (k k' : String) (v : D α) :
    lookup k' (dictSet kv k v) = if k' = k then some v else lookup k' kv := by
  unfold dictSet
  by_cases h : (lookup k kv).isSome = true
  · simp only [h, if_true, lookup_map_set]
    by_cases hk : k' = k
    · simp only [hk, if_true]
      cases hl : lookup k kv with
      | none => simp [hl] at h
      | some w => rfl
    · simp [hk]
  · simp only [h, Bool.false_eq_true, if_false, lookup_append]
    have hn : lookup k kv = none := by
      cases hl : lookup k kv with
      | none => rfl
      | some w => simp [hl] at h
    by_cases hk : k' = k
    · subst hk; simp [hn, lookup]
    · have : ¬ k = k' := fun h => hk h.symm
      cases hl : lookup k' kv <;> simp [lookup, this, hk]

/-- the value a later `{**a, **j}` leaves under `k`: the LAST item of `j` with that key -/
def lookupLast (k : String) : List (String × D α) → Option (D α)
  | [] => none
  | (k', v) :: rest => match lookupLast k rest with
    | some w => some w
    | none => if k' = k then some v else none

theorem lookup_dictUpdate (k : String) : (j a : List (String × D α)) →
    lookup k (dictUpdate a j) = match lookupLast k j with | some v => some v | none => lookup k a
  | [], a => by simp [dictUpdate, lookupLast]
  | (k', v) :: rest, a => by
    have ih := lookup_dictUpdate k rest (dictSet a k' v)
    simp only [dictUpdate, List.foldl_cons] at ih ⊢
    rw [ih, lookup_dictSet]
    simp only [lookupLast]
    cases lookupLast k rest with
    | some w => rfl
    | none =>
      by_cases h : k = k'
      · subst h; simp
      · have : ¬ k' = k := fun e => h e.symm
        simp [h, this]

theorem lookupLast_none (k : String) : (j : List (String × D α)) → k ∉ j.map (·.1) → lookupLast k j = none
  | [], _ => rfl
  | (k', v) :: rest, h => by
    simp only [List.map_cons, List.mem_cons, not_or] at h
    have : ¬ k' = k := fun e => h.1 e.symm
    simp [lookupLast, lookupLast_none k rest h.2, this]

/-- in a dict (no repeated key) the last item with a key is the first one -/
theorem lookupLast_eq_lookup (k : String) : (j : List (String × D α)) → (j.map (·.1)).Nodup →
    lookupLast k j = lookup k j
  | [], _ => rfl
  | (k', v) :: rest, h => by
    simp only [List.map_cons, List.nodup_cons] at h
    simp only [lookupLast, lookup]
    by_cases hk : k' = k
    · subst hk
      simp [lookupLast_none k' rest h.1]
    · rw [lookupLast_eq_lookup k rest h.2]
      simp only [hk, if_false]
      cases lookup k rest <;> rfl

theorem lookupLast_append_single (k k' : String) (v : D α) : (l : List (String × D α)) →
    lookupLast k' (l ++ [(k, v)]) = if k = k' then some v else lookupLast k' l
  | [] => by by_cases h : k = k' <;> simp [lookupLast, h]
  | (a, w) :: rest => by
    simp only [List.cons_append, lookupLast, lookupLast_append_single k k' v rest]
    by_cases h : k = k' <;> simp [h]

theorem lookupLast_map_set (k k' : String) (v : D α) : (l : List (String × D α)) →
    lookupLast k' (l.map fun p => if p.1 = k then (p.1, v) else p) =
      if k' = k then (lookupLast k l).map (fun _ => v) else lookupLast k' l
  | [] => by simp [lookupLast]
  | (a, w) :: rest => by
    simp only [List.map_cons, lookupLast]
    by_cases hak : a = k
    · subst hak
      simp only [if_true, lookupLast_map_set a k' v rest]
      by_cases hk : k' = a
      · subst hk
        cases lookupLast k' rest <;> simp
      · have : ¬ a = k' := fun e => hk e.symm
        simp [hk, this]
    · simp only [hak, if_false, lookupLast_map_set k k' v rest]
      by_cases hk : k' = k
      · subst hk
        cases lookupLast k' rest <;> simp [hak]
      · simp [hk]

theorem lookupLast_isSome_of_lookup (k : String) : (l : List (String × D α)) → (lookup k l).isSome = true →
    (lookupLast k l).isSome = true
  | [], h => by simp [lookup] at h
  | (a, w) :: rest, h => by
    simp only [lookup] at h
    simp only [lookupLast]
    by_cases ha : a = k
    · cases lookupLast k rest <;> simp [ha]
    · simp only [ha, if_false] at h
      have := lookupLast_isSome_of_lookup k rest h
      cases hl : lookupLast k rest with
      | none => simp [hl] at this
      | some u => simp

/-- `d[k] = v`, then the last item under `k'` -/
theorem lookupLast_dictSet (kv : List (String × D α)) (k k' : String) (v : D α) :
    lookupLast k' (dictSet kv k v) = if k' = k then some v else lookupLast k' kv := by
  unfold dictSet
  by_cases hs : (lookup k kv).isSome = true
  · simp only [hs, if_true, lookupLast_map_set]
    by_cases hk : k' = k
    · simp only [hk, if_true]
      have := lookupLast_isSome_of_lookup k kv hs
      cases hl : lookupLast k kv with
      | none => simp [hl] at this
      | some u => rfl
    · simp [hk]
  · simp only [hs, Bool.false_eq_true, if_false, lookupLast_append_single]
    by_cases hk : k' = k
    · simp [hk]
    · have : ¬ k = k' := fun e => hk e.symm
      simp [hk, this]

theorem dictSet_keys (kv : List (String × D α)) (k : String) (v : D α) :
    (dictSet kv k v).map (·.1) = if (lookup k kv).isSome then kv.map (·.1) else kv.map (·.1) ++ [k] := by
  unfold dictSet
  by_cases h : (lookup k kv).isSome = true
  · simp only [h, if_true, List.map_map]
    apply List.map_congr_left
    intro p _
    by_cases hp : p.1 = k <;> simp [hp]
  · simp [h]

-- setKV / insAll on fresh keys -----------------------------------------------------------------------

theorem setKV_fresh (kv : List (String × β)) (k : String) (v : β) (h : k ∉ kv.map (·.1)) :
    setKV kv k v = kv ++ [(k, v)] := by
  unfold setKV
  have : kv.any (fun p => p.1 == k) = false := by
    rw [List.any_eq_false]
    intro p hp e
    exact h (List.mem_map.mpr ⟨p, hp, by simpa using e⟩)
  simp [this]

/-- assignments to pairwise different keys that are not in the dict yet are appended in order -/
theorem insAll_fresh : (ins acc : List (String × β)) → ((acc ++ ins).map (·.1)).Nodup → insAll acc ins = acc ++ ins
  | [], acc, _ => by simp [insAll]
  | (k, v) :: rest, acc, h => by
    have hk : k ∉ acc.map (·.1) := by
      intro hm
      rw [List.map_append, List.nodup_append] at h
      exact h.2.2 k hm k (by simp) rfl
    have h' : ((acc ++ [(k, v)] ++ rest).map (·.1)).Nodup := by simpa using h
    have ih := insAll_fresh rest (acc ++ [(k, v)]) h'
    simp only [insAll, List.foldl_cons] at ih ⊢
    rw [setKV_fresh acc k v hk, ih]
    simp

-- row operations and zip -----------------------------------------------------------------------------

theorem maskRows_nil_sel (rows : List α) : maskRows [] rows = [] := by
  simp [maskRows]

theorem maskRows_cons (s : Bool) (sel : List Bool) (x : α) (rows : List α) :
    maskRows (s :: sel) (x :: rows) = (if s then [x] else []) ++ maskRows sel rows := by
  cases s <;> simp [maskRows]

theorem zip_maskRows : (sel : List Bool) → (a : List α) → (w : List β) →
    (maskRows sel a).zip (maskRows sel w) = maskRows sel (a.zip w)
  | [], a, w => by simp [maskRows_nil_sel]
  | _ :: _, [], w => by simp [maskRows]
  | _ :: _, _ :: _, [] => by simp [maskRows]
  | s :: sel, x :: a, y :: w => by
    rw [List.zip_cons_cons, maskRows_cons, maskRows_cons, maskRows_cons]
    cases s <;> simp [zip_maskRows sel a w]

theorem zip_win (b j : Nat) (a : List α) (w : List β) (h : a.length = w.length) :
    (win b j a).zip (win b j w) = win b j (a.zip w) := by
  have hl : (a.zip w).length = w.length := by simp [List.length_zip, h]
  simp only [win, hl, h]
  simp only [List.zip, List.drop_zipWith, List.take_zipWith]

/-- interleave: row `i` is taken from `a` where `sel[i]`, else from `c` -/
def unmask : List Bool → List α → List α → List α
  | [], _, _ => []
  | true :: sel, x :: a, c => x :: unmask sel a c
  | true :: sel, [], c => unmask sel [] c
  | false :: sel, a, y :: c => y :: unmask sel a c
  | false :: sel, a, [] => unmask sel a []

theorem unmask_maskRows : (sel : List Bool) → (rows : List α) → rows.length = sel.length →
    unmask sel (maskRows sel rows) (maskRows (sel.map (!·)) rows) = rows
  | [], [], _ => rfl
  | [], _ :: _, h => by simp at h
  | _ :: _, [], h => by simp at h
  | s :: sel, x :: rows, h => by
    have h' : rows.length = sel.length := by simpa using h
    simp only [List.map_cons]
    rw [maskRows_cons, maskRows_cons]
    cases s <;> simp [unmask, unmask_maskRows sel rows h']

theorem maskRows_perm : (sel : List Bool) → (rows : List α) → rows.length = sel.length →
    (maskRows sel rows ++ maskRows (sel.map (!·)) rows).Perm rows
  | [], [], _ => by simp [maskRows]
  | [], _ :: _, h => by simp at h
  | _ :: _, [], h => by simp at h
  | s :: sel, x :: rows, h => by
    have h' : rows.length = sel.length := by simpa using h
    have ih := maskRows_perm sel rows h'
    simp only [List.map_cons]
    rw [maskRows_cons, maskRows_cons]
    cases s
    · simp only [Bool.false_eq_true, if_false, List.nil_append, Bool.not_false, if_true]
      exact (List.perm_middle).trans (List.Perm.cons x ih)
    · simp only [if_true, Bool.not_true, Bool.false_eq_true, if_false, List.nil_append, List.cons_append]
      exact List.Perm.cons x ih

theorem maskRows_count (sel : List Bool) (rows : List α) (h : rows.length = sel.length) :
    (maskRows sel rows).length + (maskRows (sel.map (!·)) rows).length = rows.length := by
  have := (maskRows_perm sel rows h).length_eq
  simpa using this

-- leafList / firstLen / mapLeaves ------------------------------------------------------------------

mutual
theorem firstLen_eq_head : (d : D α) → firstLen d = ((leafList d).map List.length).head?
  | .leaf r => by simp [firstLen, leafList]
  | .node _ ch => by simp only [firstLen, leafList]; exact firstLenCh_eq_head ch
theorem firstLenCh_eq_head : (ch : List (String × D α)) → firstLenCh ch = ((leafListCh ch).map List.length).head?
  | [] => by simp [firstLenCh, leafListCh]
  | (_, v) :: rest => by
    simp only [firstLenCh, leafListCh, List.map_append]
    rw [firstLen_eq_head v, firstLenCh_eq_head rest]
    cases h : (leafList v).map List.length with
    | nil => simp
    | cons a t => simp
end

mutual
theorem leafList_uniform (n : Nat) : (d : D α) → uniform n d = true → ∀ r ∈ leafList d, r.length = n
  | .leaf r, h => by simpa [leafList, uniform] using h
  | .node _ ch, h => by simp only [leafList]; exact leafListCh_uniform n ch (by simpa [uniform] using h)
theorem leafListCh_uniform (n : Nat) : (ch : List (String × D α)) → uniformCh n ch = true →
    ∀ r ∈ leafListCh ch, r.length = n
  | [], _ => by simp [leafListCh]
  | (_, v) :: rest, h => by
    have h' : uniform n v = true ∧ uniformCh n rest = true := by simpa [uniformCh] using h
    intro r hr
    simp only [leafListCh, List.mem_append] at hr
    rcases hr with hr | hr
    · exact leafList_uniform n v h'.1 r hr
    · exact leafListCh_uniform n rest h'.2 r hr
end

mutual
theorem leafList_mapLeaves (f : List α → List β) : (d : D α) → leafList (mapLeaves f d) = (leafList d).map f
  | .leaf r => by simp [mapLeaves, leafList]
  | .node _ ch => by simp only [mapLeaves, leafList]; exact leafListCh_mapLeaves f ch
theorem leafListCh_mapLeaves (f : List α → List β) : (ch : List (String × D α)) →
    leafListCh (mapLeavesCh f ch) = (leafListCh ch).map f
  | [] => by simp [mapLeavesCh, leafListCh]
  | (_, v) :: rest => by
    simp [mapLeavesCh, leafListCh, leafList_mapLeaves f v, leafListCh_mapLeaves f rest]
end

mutual
theorem mapLeaves_id' : (d : D α) → mapLeaves (fun r => r) d = d
  | .leaf r => by simp [mapLeaves]
  | .node k ch => by simp [mapLeaves, mapLeavesCh_id' ch]
theorem mapLeavesCh_id' : (ch : List (String × D α)) → mapLeavesCh (fun r => r) ch = ch
  | [] => by simp [mapLeavesCh]
  | (k, v) :: rest => by simp [mapLeavesCh, mapLeaves_id' v, mapLeavesCh_id' rest]
end

mutual
theorem mapLeaves_comp' (f : List α → List β) (g : List β → List γ) :
    (d : D α) → mapLeaves g (mapLeaves f d) = mapLeaves (fun r => g (f r)) d
  | .leaf r => by simp [mapLeaves]
  | .node k ch => by simp [mapLeaves, mapLeavesCh_comp' f g ch]
theorem mapLeavesCh_comp' (f : List α → List β) (g : List β → List γ) :
    (ch : List (String × D α)) → mapLeavesCh g (mapLeavesCh f ch) = mapLeavesCh (fun r => g (f r)) ch
  | [] => by simp [mapLeavesCh]
  | (k, v) :: rest => by simp [mapLeavesCh, mapLeaves_comp' f g v, mapLeavesCh_comp' f g rest]
end

-- strip -----------------------------------------------------------------------------------------

mutual
/-- some dict of the tree has a key in `ks` -/
def hasKey (ks : List String) : D α → Bool
  | .leaf _ => false
  | .node k ch => hasKeyCh (k == .dict) ks ch
def hasKeyCh (isDict : Bool) (ks : List String) : List (String × D α) → Bool
  | [] => false
  | (k, v) :: rest => (isDict && ks.contains k) || hasKey ks v || hasKeyCh isDict ks rest
end

mutual
theorem strip_hasKey (ks : List String) : (d : D α) → hasKey ks (strip ks d) = false
  | .leaf _ => by simp [strip, hasKey]
  | .node k ch => by simp only [strip, hasKey]; exact stripCh_hasKey ks (k == .dict) ch
theorem stripCh_hasKey (ks : List String) (isDict : Bool) : (ch : List (String × D α)) →
    hasKeyCh isDict ks (stripCh isDict ks ch) = false
  | [] => by simp [stripCh, hasKeyCh]
  | (k, v) :: rest => by
    simp only [stripCh]
    by_cases h : (isDict && ks.contains k) = true
    · simp only [h, if_true]; exact stripCh_hasKey ks isDict rest
    · simp only [h, Bool.false_eq_true, if_false, hasKeyCh, strip_hasKey ks v, stripCh_hasKey ks isDict rest]
      simp at h ⊢
end

mutual
theorem strip_of_not_hasKey (ks : List String) : (d : D α) → hasKey ks d = false → strip ks d = d
  | .leaf _, _ => by simp [strip]
  | .node k ch, h => by
    simp only [strip]
    rw [stripCh_of_not_hasKey ks (k == .dict) ch (by simpa [hasKey] using h)]
theorem stripCh_of_not_hasKey (ks : List String) (isDict : Bool) : (ch : List (String × D α)) →
    hasKeyCh isDict ks ch = false → stripCh isDict ks ch = ch
  | [], _ => by simp [stripCh]
  | (k, v) :: rest, h => by
    simp only [hasKeyCh, Bool.or_eq_false_iff] at h
    simp only [stripCh, h.1.1, Bool.false_eq_true, if_false]
    rw [strip_of_not_hasKey ks v h.1.2, stripCh_of_not_hasKey ks isDict rest h.2]
end

mutual
/-- the arrays that survive `strip` are arrays of the input, in the same order -/
theorem strip_leaves_sublist (ks : List String) : (d : D α) → (leafList (strip ks d)).Sublist (leafList d)
  | .leaf _ => by simp [strip, leafList]
  | .node k ch => by simp only [strip, leafList]; exact stripCh_leaves_sublist ks (k == .dict) ch
theorem stripCh_leaves_sublist (ks : List String) (isDict : Bool) : (ch : List (String × D α)) →
    (leafListCh (stripCh isDict ks ch)).Sublist (leafListCh ch)
  | [] => by simp [stripCh, leafListCh]
  | (k, v) :: rest => by
    simp only [stripCh]
    by_cases h : (isDict && ks.contains k) = true
    · simp only [h, if_true, leafListCh]
      exact (stripCh_leaves_sublist ks isDict rest).trans (List.sublist_append_right _ _)
    · simp only [h, Bool.false_eq_true, if_false, leafListCh]
      exact List.Sublist.append (strip_leaves_sublist ks v) (stripCh_leaves_sublist ks isDict rest)
end

-- index -----------------------------------------------------------------------------------------

theorem index_append_one (d : D α) : (p : List Key) → p ≠ [] → (k : Key) → (q : List Key) →
    index d (p ++ k :: q) = (index d p).bind fun v => index v (k :: q)
  | [], h, _, _ => absurd rfl h
  | [a], _, k, q => by
    simp only [List.cons_append, List.nil_append, index]
    cases idx1 d a <;> rfl
  | a :: b :: p, _, k, q => by
    simp only [List.cons_append, index]
    cases h : idx1 d a with
    | none => rfl
    | some v =>
      simp only []
      have := index_append_one v (b :: p) (by simp) k q
      simpa using this

-- batch_sum ---------------------------------------------------------------------------------------

/-- telescoping: if `F (m+1) = add (F m) (g m)` for `1 ≤ m` and `F 1 = g 0`, the left fold over `g 0 .. g (m-1)` is `F m` -/
theorem foldl_tab_telescope (add : γ → γ → γ) (g : Nat → γ) (F : Nat → γ)
    (h1 : F 1 = g 0) (hs : ∀ m, 1 ≤ m → F (m + 1) = add (F m) (g m)) :
    (m : Nat) → batchSumOver (fun j : Nat => g j) add (List.range (m + 1)) = some (F (m + 1))
  | 0 => by simp [batchSumOver, h1]
  | m + 1 => by
    have ih := foldl_tab_telescope add g F h1 hs m
    rw [List.range_succ]
    simp only [batchSumOver, List.map_append, List.map_cons, List.map_nil] at ih ⊢
    cases hm : (List.range (m + 1)).map (fun j => g j) with
    | nil => simp [List.range_succ] at hm
    | cons x xs =>
      rw [hm] at ih
      simp only [List.cons_append, List.foldl_append, List.foldl_cons, List.foldl_nil] at ih ⊢
      injection ih with ih
      rw [ih, hs (m + 1) (by omega)]

-- checkNan ------------------------------------------------------------------------------------------

mutual
theorem checkNan_shape (bad : α → Bool) (t f : α) : (d : D α) →
    mapLeaves (fun _ => ([] : List α)) (checkNan bad t f d) = mapLeaves (fun _ => []) d
  | .leaf _ => by simp [checkNan, mapLeaves]
  | .node k ch => by simp [checkNan, mapLeaves, checkNanCh_shape bad t f ch]
theorem checkNanCh_shape (bad : α → Bool) (t f : α) : (ch : List (String × D α)) →
    mapLeavesCh (fun _ => ([] : List α)) (checkNanCh bad t f ch) = mapLeavesCh (fun _ => []) ch
  | [] => by simp [checkNanCh, mapLeavesCh]
  | (k, v) :: rest => by simp [checkNanCh, mapLeavesCh, checkNan_shape bad t f v, checkNanCh_shape bad t f rest]
end

mutual
theorem checkNan_leaves (bad : α → Bool) (t f : α) : (d : D α) →
    leafList (checkNan bad t f d) = (leafList d).map fun r => [if r.any bad then f else t]
  | .leaf _ => by simp [checkNan, leafList]
  | .node _ ch => by simp only [checkNan, leafList]; exact checkNanCh_leaves bad t f ch
theorem checkNanCh_leaves (bad : α → Bool) (t f : α) : (ch : List (String × D α)) →
    leafListCh (checkNanCh bad t f ch) = (leafListCh ch).map fun r => [if r.any bad then f else t]
  | [] => by simp [checkNanCh, leafListCh]
  | (_, v) :: rest => by
    simp [checkNanCh, leafListCh, checkNan_leaves bad t f v, checkNanCh_leaves bad t f rest]
end

end TfPwaV.DataX
