import TfPwaV.Model.Einsum
import Mathlib.Algebra.BigOperators.Group.List.Basic
import Mathlib.Algebra.BigOperators.Ring.List
import Mathlib.Tactic.Ring

/-! Helper lemmas for C05 (einsum): row-major layout, finite sums over label assignments, sorting. -/
namespace TfPwaV.Einsum

/-! ### row-major layout -/

/-- multi-index within a shape -/
def InRange : List Nat → List Nat → Prop
  | [], [] => True
  | n :: s, i :: is => i < n ∧ InRange s is
  | _, _ => False

theorem flatIdx_lt : ∀ (s idx : List Nat), InRange s idx → flatIdx s idx < prodN s
  | [], [], _ => by simp [flatIdx, prodN]
  | n :: s, i :: is, h => by
    obtain ⟨h1, h2⟩ := h
    have ih := flatIdx_lt s is h2
    simp only [flatIdx, prodN]
    calc i * prodN s + flatIdx s is < i * prodN s + prodN s := by omega
      _ = (i + 1) * prodN s := by ring
      _ ≤ n * prodN s := Nat.mul_le_mul_right _ h1
  | [], _ :: _, h => by simp [InRange] at h
  | _ :: _, [], h => by simp [InRange] at h

theorem length_flatMap_uniform {α : Type} (g : Nat → List α) (L : Nat) :
    ∀ n, (∀ k, k < n → (g k).length = L) → ((List.range n).flatMap g).length = n * L
  | 0, _ => by simp
  | n + 1, h => by
    rw [List.range_succ, List.flatMap_append, List.length_append,
      length_flatMap_uniform g L n (fun k hk => h k (by omega))]
    simp [h n (by omega)]; ring

theorem getElem?_flatMap_uniform {α : Type} (g : Nat → List α) (L : Nat) :
    ∀ n, (∀ k, k < n → (g k).length = L) → ∀ i j, i < n → j < L →
      ((List.range n).flatMap g)[i * L + j]? = (g i)[j]?
  | 0, _, i, j, hi, _ => by omega
  | n + 1, h, i, j, hi, hj => by
    have hlen := length_flatMap_uniform g L n (fun k hk => h k (by omega))
    rw [List.range_succ, List.flatMap_append]
    by_cases hin : i < n
    · have : i * L + j < ((List.range n).flatMap g).length := by
        rw [hlen]
        calc i * L + j < i * L + L := by omega
          _ = (i + 1) * L := by ring
          _ ≤ n * L := Nat.mul_le_mul_right _ hin
      rw [List.getElem?_append_left this]
      exact getElem?_flatMap_uniform g L n (fun k hk => h k (by omega)) i j hin hj
    · have hi' : i = n := by omega
      subst hi'
      rw [List.getElem?_append_right (by rw [hlen]; omega), hlen]
      simp

theorem length_allIdx : ∀ s, (allIdx s).length = prodN s
  | [] => by simp [allIdx, prodN]
  | n :: s => by
    simp only [allIdx, prodN]
    rw [length_flatMap_uniform _ (prodN s) n (fun k _ => by simp [length_allIdx s])]

theorem getElem?_allIdx : ∀ (s idx : List Nat), InRange s idx → (allIdx s)[flatIdx s idx]? = some idx
  | [], [], _ => by simp [allIdx, flatIdx]
  | n :: s, i :: is, h => by
    obtain ⟨h1, h2⟩ := h
    simp only [allIdx, flatIdx]
    rw [getElem?_flatMap_uniform _ (prodN s) n (fun k _ => by simp [length_allIdx s]) i _ h1
      (flatIdx_lt s is h2)]
    simp [getElem?_allIdx s is h2]
  | [], _ :: _, h => by simp [InRange] at h
  | _ :: _, [], h => by simp [InRange] at h

theorem mem_allIdx : ∀ (s idx : List Nat), idx ∈ allIdx s → InRange s idx
  | [], idx, h => by
    simp [allIdx] at h; subst h; simp [InRange]
  | n :: s, idx, h => by
    simp only [allIdx, List.mem_flatMap, List.mem_range, List.mem_map] at h
    obtain ⟨i, hi, is, his, rfl⟩ := h
    exact ⟨hi, mem_allIdx s is his⟩

section
variable {R : Type} [Zero R]

theorem get_ofFn (s : List Nat) (f : List Nat → R) (idx : List Nat) (h : InRange s idx) :
    (ofFn s f).get idx = f idx := by
  unfold ofFn Tensor.get
  simp only [Array.getD_eq_getD_getElem?, List.getElem?_toArray, List.getElem?_map,
    getElem?_allIdx s idx h]
  rfl

omit [Zero R] in
theorem ofFn_congr (s : List Nat) (f g : List Nat → R) (h : ∀ idx, InRange s idx → f idx = g idx) :
    ofFn s f = ofFn s g := by
  unfold ofFn
  congr 2
  exact List.map_congr_left fun idx hidx => h idx (mem_allIdx s idx hidx)

end

/-! ### finite sums over label assignments (Fubini, distributivity) -/

theorem upd_comm (env : Env) (a b : Idx) (v w : Nat) (h : a ≠ b) :
    upd (upd env a v) b w = upd (upd env b w) a v := by
  funext x
  simp only [upd]
  split_ifs <;> simp_all

section sums
variable {R : Type} [CommSemiring R]

theorem sum_swap {α β : Type} (xs : List α) (ys : List β) (g : α → β → R) :
    (xs.map fun x => (ys.map fun y => g x y).sum).sum = (ys.map fun y => (xs.map fun x => g x y).sum).sum := by
  induction xs with
  | nil => simp
  | cons x xs ih => simp only [List.map_cons, List.sum_cons, ih, List.sum_map_add]

theorem sum_map_flatMap {α β : Type} (l : List α) (g : α → List β) (h : β → R) :
    ((l.flatMap g).map h).sum = (l.map fun x => ((g x).map h).sum).sum := by
  induction l with
  | nil => simp
  | cons x xs ih => simp only [List.flatMap_cons, List.map_append, List.sum_append, List.map_cons, List.sum_cons, ih]

theorem sumLabels_congr (sizes : Idx → Nat) : ∀ (ls : List Idx) (env : Env) (f g : Env → R),
    (∀ e, (∀ x, x ∉ ls → e x = env x) → (∀ x, x ∈ ls → e x < sizes x) → f e = g e) →
    sumLabels sizes ls env f = sumLabels sizes ls env g
  | [], env, f, g, h => by
    simp only [sumLabels]
    exact h env (fun _ _ => rfl) (fun x hx => by simp at hx)
  | l :: ls, env, f, g, h => by
    simp only [sumLabels]
    congr 1
    apply List.map_congr_left
    intro v hv
    rw [List.mem_range] at hv
    apply sumLabels_congr sizes ls
    intro e h1 h2
    apply h e
    · intro x hx
      simp only [List.mem_cons, not_or] at hx
      rw [h1 x hx.2]; simp [upd, hx.1]
    · intro x hx
      by_cases hxl : x ∈ ls
      · exact h2 x hxl
      · simp only [List.mem_cons] at hx
        rcases hx with rfl | hx
        · rw [h1 x hxl]; simpa [upd] using hv
        · exact absurd hx hxl

theorem sumLabels_swap (sizes : Idx → Nat) (a b : Idx) (ls : List Idx) (env : Env) (f : Env → R) (h : a ≠ b) :
    sumLabels sizes (a :: b :: ls) env f = sumLabels sizes (b :: a :: ls) env f := by
  simp only [sumLabels]
  rw [sum_swap]
  congr 1
  apply List.map_congr_left
  intro w _
  congr 1
  apply List.map_congr_left
  intro v _
  rw [upd_comm env a b v w h]

theorem sumLabels_perm (sizes : Idx → Nat) (f : Env → R) {l1 l2 : List Idx} (hp : l1.Perm l2) :
    l1.Nodup → ∀ env, sumLabels sizes l1 env f = sumLabels sizes l2 env f := by
  induction hp with
  | nil => intro _ _; rfl
  | cons x _ ih =>
    intro hnd env
    simp only [sumLabels]
    congr 1
    apply List.map_congr_left
    intro v _
    exact ih (List.nodup_cons.mp hnd).2 _
  | swap x y l =>
    intro hnd env
    have hxy : y ≠ x := by
      intro h; subst h
      simp at hnd
    exact sumLabels_swap sizes y x l env f hxy
  | trans h1 _ ih1 ih2 =>
    intro hnd env
    rw [ih1 hnd env, ih2 ((h1.nodup_iff).mp hnd) env]

theorem sumLabels_mul_left (sizes : Idx → Nat) (g f : Env → R) : ∀ (ls : List Idx) (env : Env),
    (∀ e l v, l ∈ ls → g (upd e l v) = g e) →
    sumLabels sizes ls env (fun e => g e * f e) = g env * sumLabels sizes ls env f
  | [], env, _ => by simp [sumLabels]
  | l :: ls, env, h => by
    simp only [sumLabels]
    rw [← List.sum_map_mul_left]
    congr 1
    apply List.map_congr_left
    intro v _
    rw [sumLabels_mul_left sizes g f ls _ (fun e l' v' hl' => h e l' v' (List.mem_cons_of_mem _ hl'))]
    rw [h env l v (List.mem_cons_self)]

theorem sumLabels_append (sizes : Idx → Nat) (f : Env → R) : ∀ (l1 l2 : List Idx) (env : Env),
    sumLabels sizes (l1 ++ l2) env f = sumLabels sizes l1 env (fun e => sumLabels sizes l2 e f)
  | [], l2, env => by simp [sumLabels]
  | l :: l1, l2, env => by
    simp only [List.cons_append, sumLabels]
    congr 1
    apply List.map_congr_left
    intro v _
    exact sumLabels_append sizes f l1 l2 _

/-- the flat sum of `reduce_sum` over the axes `S` is the nested sum over the labels `S` -/
theorem sum_allIdx_eq_sumLabels (sizes : Idx → Nat) (F : Env → R) : ∀ (S : List Idx) (env : Env),
    ((allIdx (S.map sizes)).map fun si => F (envOfList S si env)).sum = sumLabels sizes S env F
  | [], env => by simp [allIdx, sumLabels, envOfList]
  | l :: S, env => by
    simp only [List.map_cons, allIdx, sumLabels]
    rw [sum_map_flatMap]
    congr 1
    apply List.map_congr_left
    intro v _
    rw [List.map_map]
    have := sum_allIdx_eq_sumLabels sizes F S (upd env l v)
    rw [← this]
    rfl

end sums

/-! ### sorting by key -/

theorem perm_insertBy (key : Idx → Nat) (x : Idx) : ∀ l, (insertBy key x l).Perm (x :: l)
  | [] => by simp [insertBy]
  | y :: ys => by
    simp only [insertBy]
    split_ifs
    · exact List.Perm.refl _
    · exact ((perm_insertBy key x ys).cons y).trans (List.Perm.swap x y ys)

theorem perm_sortBy (key : Idx → Nat) : ∀ l, (sortBy key l).Perm l
  | [] => by simp [sortBy]
  | x :: xs => by
    have ih := perm_sortBy key xs
    simp only [sortBy, List.foldr_cons] at ih ⊢
    exact (perm_insertBy key x _).trans (ih.cons x)

theorem sorted_insertBy (key : Idx → Nat) (x : Idx) : ∀ l, l.Pairwise (fun a b => key a ≤ key b) →
    (insertBy key x l).Pairwise (fun a b => key a ≤ key b)
  | [], _ => by simp [insertBy]
  | y :: ys, h => by
    simp only [insertBy]
    split_ifs with hxy
    · refine List.pairwise_cons.mpr ⟨?_, h⟩
      intro b hb
      rcases List.mem_cons.mp hb with rfl | hb
      · exact hxy
      · exact le_trans hxy ((List.pairwise_cons.mp h).1 b hb)
    · have h' := List.pairwise_cons.mp h
      refine List.pairwise_cons.mpr ⟨?_, sorted_insertBy key x ys h'.2⟩
      intro b hb
      have := (perm_insertBy key x ys).mem_iff.mp hb
      rcases List.mem_cons.mp this with rfl | hb
      · omega
      · exact h'.1 b hb

theorem sorted_sortBy (key : Idx → Nat) : ∀ l, (sortBy key l).Pairwise (fun a b => key a ≤ key b)
  | [] => by simp [sortBy]
  | x :: xs => by
    have ih := sorted_sortBy key xs
    simp only [sortBy, List.foldr_cons] at ih ⊢
    exact sorted_insertBy key x _ ih

/-- two strictly sorted lists with the same elements are equal -/
theorem eq_of_perm_of_strict (key : Idx → Nat) : ∀ (l1 l2 : List Idx), l1.Perm l2 →
    l1.Pairwise (fun a b => key a < key b) → l2.Pairwise (fun a b => key a < key b) → l1 = l2
  | [], l2, hp, _, _ => by simpa using hp.symm.eq_nil
  | a :: t1, [], hp, _, _ => by simpa using hp.eq_nil
  | a :: t1, b :: t2, hp, h1, h2 => by
    have h1' := List.pairwise_cons.mp h1
    have h2' := List.pairwise_cons.mp h2
    have hab : a = b := by
      by_contra hne
      have ha : a ∈ t2 := by
        have := hp.mem_iff.mp (List.mem_cons_self)
        rcases List.mem_cons.mp this with h | h
        · exact absurd h hne
        · exact h
      have hb : b ∈ t1 := by
        have := hp.mem_iff.mpr (List.mem_cons_self)
        rcases List.mem_cons.mp this with h | h
        · exact absurd h.symm hne
        · exact h
      have := h1'.1 b hb
      have := h2'.1 a ha
      omega
    subst hab
    rw [eq_of_perm_of_strict key t1 t2 hp.cons_inv h1'.2 h2'.2]

/-- key injective on the list -/
def InjOnList (key : Idx → Nat) (l : List Idx) : Prop := ∀ a ∈ l, ∀ b ∈ l, key a = key b → a = b

theorem strict_of_sorted_nodup (key : Idx → Nat) : ∀ (l : List Idx), InjOnList key l → l.Nodup →
    l.Pairwise (fun a b => key a ≤ key b) → l.Pairwise (fun a b => key a < key b)
  | [], _, _, _ => List.Pairwise.nil
  | a :: t, hinj, hnd, hs => by
    have hs' := List.pairwise_cons.mp hs
    have hnd' := List.nodup_cons.mp hnd
    refine List.pairwise_cons.mpr ⟨?_, strict_of_sorted_nodup key t
      (fun x hx y hy => hinj x (List.mem_cons_of_mem _ hx) y (List.mem_cons_of_mem _ hy)) hnd'.2 hs'.2⟩
    intro b hb
    have hle := hs'.1 b hb
    have hne : key a ≠ key b := by
      intro h
      have := hinj a (List.mem_cons_self) b (List.mem_cons_of_mem _ hb) h
      subst this
      exact hnd'.1 hb
    omega

/-- with an injective key, sorting a sub-collection gives the corresponding sub-sequence of the sorted whole -/
theorem sortBy_eq_filter (key : Idx → Nat) (U L : List Idx) (hinj : InjOnList key U) (hU : U.Nodup) (hL : L.Nodup)
    (hsub : ∀ a ∈ L, a ∈ U) : sortBy key L = (sortBy key U).filter (fun a => L.contains a) := by
  have hpU := perm_sortBy key U
  have hndU : (sortBy key U).Nodup := hpU.nodup_iff.mpr hU
  have hinjU : InjOnList key (sortBy key U) := fun a ha b hb => hinj a (hpU.mem_iff.mp ha) b (hpU.mem_iff.mp hb)
  have hsU := strict_of_sorted_nodup key _ hinjU hndU (sorted_sortBy key U)
  apply eq_of_perm_of_strict key
  · rw [List.perm_ext_iff_of_nodup ((perm_sortBy key L).nodup_iff.mpr hL) (hndU.filter _)]
    intro a
    simp only [(perm_sortBy key L).mem_iff, List.mem_filter, hpU.mem_iff, List.contains_iff_mem]
    exact ⟨fun h => ⟨hsub a h, h⟩, fun h => h.2⟩
  · apply strict_of_sorted_nodup key _ _ ((perm_sortBy key L).nodup_iff.mpr hL) (sorted_sortBy key L)
    exact fun a ha b hb => hinj a (hsub a ((perm_sortBy key L).mem_iff.mp ha)) b (hsub b ((perm_sortBy key L).mem_iff.mp hb))
  · exact List.Pairwise.sublist List.filter_sublist hsU

end TfPwaV.Einsum
