import TfPwaV.Gen.SL2CR
import TfPwaV.Props.C02
import TfPwaV.Proofs.Kin
/-! Helper lemmas for C02 (spinor map): the action `X ↦ A X A†` of the code's `SU2M` matrices on the Hermitian image of a
four-vector, in the real-pair model. -/
open TfPwaV.ScalarR
namespace TfPwaV.SL2CR
open TfPwaV.SU2R TfPwaV.AlignR TfPwaV.KinR TfPwaV.C12 TfPwaV.C02

@[ext] theorem V4.ext' {a b : V4} (h0 : a.t = b.t) (h1 : a.x = b.x) (h2 : a.y = b.y) (h3 : a.z = b.z) : a = b := by
  cases a; cases b; simp_all

/-! ### algebra of `dagger` and `act` -/

theorem dagger_mul (a b : M2) : dagger (a.mul b) = (dagger b).mul (dagger a) := by
  ext <;> simp [dagger, M2.mul, Cx.mul, Cx.add, Cx.conj] <;> ring

theorem dagger_dagger (a : M2) : dagger (dagger a) = a := by
  ext <;> simp [dagger, Cx.conj]

theorem dagger_one : dagger M2.one = M2.one := by
  ext <;> simp [dagger, M2.one, Cx.conj, Cx.one, Cx.zero]

theorem act_mul (a b x : M2) : act (a.mul b) x = act a (act b x) := by
  unfold act
  rw [dagger_mul]
  simp only [su2_mul_assoc]

theorem act_one (x : M2) : act M2.one x = x := by
  unfold act
  rw [dagger_one, M2.one_mul, M2.mul_one]

/-- undoing a determinant-one matrix -/
theorem act_inv_act (a x : M2) (ha : a.det = Cx.one) : act a.inv (act a x) = x := by
  rw [← act_mul, (su2_inv a ha).1, act_one]

theorem herm_dagger (p : V4) : dagger (herm p) = herm p := by
  ext <;> simp [dagger, herm, Cx.conj]

/-- `det (herm p) = E² − |p|²` -/
theorem herm_det (p : V4) : (herm p).det = ⟨p.m2, 0⟩ := by
  ext <;> simp [herm, M2.det, Cx.mul, Cx.add, Cx.neg, V4.m2, V4.dot] <;> ring

theorem herm_inj {p q : V4} (h : herm p = herm q) : p = q := by
  have h00 := congrArg (fun x => x.x00.re) h
  have h11 := congrArg (fun x => x.x11.re) h
  have h01r := congrArg (fun x => x.x01.re) h
  have h01i := congrArg (fun x => x.x01.im) h
  simp only [herm] at h00 h11 h01r h01i
  ext <;> linarith

theorem scalarM_eq_herm (m : ℝ) : scalarM m = herm ⟨m, 0, 0, 0⟩ := by
  ext <;> simp [scalarM, herm, Cx.zero]

/-! ### hyperbolic functions of the template -/

theorem kcosh_eq (w : ℝ) : kcosh w = Real.cosh w := by
  unfold kcosh kexp; rw [Real.cosh_eq]

theorem ksinh_eq (w : ℝ) : ksinh w = Real.sinh w := by
  unfold ksinh kexp; rw [Real.sinh_eq]

/-! ### the three generators -/

theorem rotZ_acts (α : ℝ) (p : V4) : act (rotZ α) (herm p) = herm (rotZv α p) := by
  have h1 : Real.cos (α / 2) * Real.cos (α / 2) + Real.sin (α / 2) * Real.sin (α / 2) = 1 := by
    have := Real.sin_sq_add_cos_sq (α / 2); nlinarith
  have h2 : α = 2 * (α / 2) := by ring
  have hc : Real.cos α = Real.cos (α / 2) * Real.cos (α / 2) - Real.sin (α / 2) * Real.sin (α / 2) := by
    conv_lhs => rw [h2]
    rw [Real.cos_two_mul]; nlinarith
  have hs : Real.sin α = 2 * Real.sin (α / 2) * Real.cos (α / 2) := by
    conv_lhs => rw [h2]
    rw [Real.sin_two_mul]
  rw [rotZ_eq]
  obtain ⟨t, x, y, z⟩ := p
  ext <;> simp [act, dagger, herm, rotZv, M2.mul, Cx.mul, Cx.add, Cx.conj, Cx.zero, kcos, ksin, hc, hs]
  all_goals (first | ring1 | grind)

theorem rotY_acts (β : ℝ) (p : V4) : act (rotY β) (herm p) = herm (rotYv β p) := by
  have h1 : Real.cos (β / 2) * Real.cos (β / 2) + Real.sin (β / 2) * Real.sin (β / 2) = 1 := by
    have := Real.sin_sq_add_cos_sq (β / 2); nlinarith
  have h2 : β = 2 * (β / 2) := by ring
  have hc : Real.cos β = Real.cos (β / 2) * Real.cos (β / 2) - Real.sin (β / 2) * Real.sin (β / 2) := by
    conv_lhs => rw [h2]
    rw [Real.cos_two_mul]; nlinarith
  have hs : Real.sin β = 2 * Real.sin (β / 2) * Real.cos (β / 2) := by
    conv_lhs => rw [h2]
    rw [Real.sin_two_mul]
  obtain ⟨t, x, y, z⟩ := p
  unfold rotY
  ext <;> simp [act, dagger, herm, rotYv, M2.mul, Cx.mul, Cx.add, Cx.conj, Cx.neg, kcos, ksin, hc, hs]
  all_goals (first | ring1 | grind)

theorem boostZ_acts (ω : ℝ) (p : V4) : act (boostZ ω) (herm p) = herm (boostZv ω p) := by
  have he : Real.exp (ω / 2) ≠ 0 := Real.exp_ne_zero _
  have h1 : Real.exp ω = Real.exp (ω / 2) * Real.exp (ω / 2) := by
    rw [← Real.exp_add]; congr 1; ring
  have h2 : Real.exp (-ω) = (Real.exp (ω / 2) * Real.exp (ω / 2))⁻¹ := by
    rw [Real.exp_neg, h1]
  obtain ⟨t, x, y, z⟩ := p
  unfold boostZ
  ext <;> simp [act, dagger, herm, boostZv, kcosh, ksinh, M2.mul, Cx.mul, Cx.add, Cx.conj, Cx.zero, Cx.inv,
    Cx.normSq, kexp, h1, h2] <;> field_simp <;> ring

/-! ### the stabiliser of a momentum at rest -/

theorem act_scalarM_eq (a : M2) (m : ℝ) (hm : m ≠ 0) (h : act a (scalarM m) = scalarM m) :
    a.mul (dagger a) = M2.one := by
  obtain ⟨⟨a0, a1⟩, ⟨b0, b1⟩, ⟨c0, c1⟩, ⟨d0, d1⟩⟩ := a
  have e1 := congrArg (fun x => x.x00.re) h
  have e2 := congrArg (fun x => x.x00.im) h
  have e3 := congrArg (fun x => x.x01.re) h
  have e4 := congrArg (fun x => x.x01.im) h
  have e5 := congrArg (fun x => x.x10.re) h
  have e6 := congrArg (fun x => x.x10.im) h
  have e7 := congrArg (fun x => x.x11.re) h
  have e8 := congrArg (fun x => x.x11.im) h
  simp only [act, scalarM, dagger, M2.mul, Cx.mul, Cx.add, Cx.conj, Cx.zero] at e1 e2 e3 e4 e5 e6 e7 e8
  ext <;> simp only [dagger, M2.mul, M2.one, Cx.mul, Cx.add, Cx.conj, Cx.zero, Cx.one] <;>
    apply mul_left_cancel₀ hm
  · linear_combination e1
  · linear_combination e2
  · linear_combination e3
  · linear_combination e4
  · linear_combination e5
  · linear_combination e6
  · linear_combination e7
  · linear_combination e8

/-- `A A† = 1` and `det A = 1` ⇒ `A† = A⁻¹` (the adjugate) -/
theorem dagger_eq_inv (a : M2) (hd : a.det = Cx.one) (h : a.mul (dagger a) = M2.one) : dagger a = a.inv := by
  calc dagger a = (a.inv.mul a).mul (dagger a) := by rw [(su2_inv a hd).1, M2.one_mul]
    _ = a.inv.mul (a.mul (dagger a)) := su2_mul_assoc _ _ _
    _ = a.inv := by rw [h, M2.mul_one]

theorem isSU2_of_dagger_eq_inv (a : M2) (hd : a.det = Cx.one) (h : dagger a = a.inv) : IsSU2 a := by
  obtain ⟨⟨a0, a1⟩, ⟨b0, b1⟩, ⟨c0, c1⟩, ⟨d0, d1⟩⟩ := a
  have e1 := congrArg (fun x => x.x00.re) h
  have e2 := congrArg (fun x => x.x00.im) h
  have e3 := congrArg (fun x => x.x01.re) h
  have e4 := congrArg (fun x => x.x01.im) h
  have dr := congrArg Cx.re hd
  simp only [dagger, M2.inv, Cx.conj, Cx.neg] at e1 e2 e3 e4
  simp only [M2.det, Cx.mul, Cx.add, Cx.neg, Cx.one] at dr
  refine ⟨?_, ?_, ?_⟩
  · ext <;> simp only [Cx.conj] <;> linarith
  · ext <;> simp only [Cx.conj, Cx.neg] <;> linarith
  · simp only [Cx.normSq]
    subst e1; subst e3
    have : d1 = -a1 := by linarith
    have : b1 = c1 := by linarith
    subst_vars
    linarith

/-- a rotation (`IsSU2`) is unitary: `A† = A⁻¹` -/
theorem dagger_eq_inv_of_isSU2 (a : M2) (h : IsSU2 a) : dagger a = a.inv := by
  obtain ⟨h11, h01, -⟩ := h
  obtain ⟨⟨a0, a1⟩, x01, ⟨c0, c1⟩, x11⟩ := a
  simp only at h11 h01
  subst h11 h01
  ext <;> simp [dagger, M2.inv, Cx.conj, Cx.neg]

theorem isSU2_det (a : M2) (h : IsSU2 a) : a.det = Cx.one := by
  obtain ⟨h11, h01, hn⟩ := h
  obtain ⟨⟨a0, a1⟩, x01, ⟨c0, c1⟩, x11⟩ := a
  simp only at h11 h01 hn
  subst h11 h01
  simp only [Cx.normSq] at hn
  ext <;> simp [M2.det, Cx.mul, Cx.add, Cx.neg, Cx.conj, Cx.one]
  · linarith
  · ring

/-- a rotation leaves a momentum at rest where it is -/
theorem act_scalarM_of_isSU2 (a : M2) (h : IsSU2 a) (m : ℝ) : act a (scalarM m) = scalarM m := by
  have hd := isSU2_det a h
  have h1 : a.mul (dagger a) = M2.one := by rw [dagger_eq_inv_of_isSU2 a h]; exact (su2_inv a hd).2
  have h2 : a.mul (scalarM m) = (scalarM m).mul a := by
    ext <;> simp [scalarM, M2.mul, Cx.mul, Cx.add, Cx.zero] <;> ring
  unfold act
  rw [h2, su2_mul_assoc, h1, M2.mul_one]

/-! ### routes -/

theorem stepR_acts (α β : ℝ) (p : V4) : act (stepR α β) (herm p) = herm (rotYv β (rotZv α p)) := by
  unfold stepR
  rw [act_mul, rotZ_acts, rotY_acts]

theorem stepM_acts (s : Step) (p : V4) : act (stepM s) (herm p) = herm (stepL s p) := by
  unfold stepM stepL
  rw [act_mul, stepR_acts, boostZ_acts]

theorem det_stepM (s : Step) : (stepM s).det = Cx.one :=
  det_mul_one _ _ (det_boostZ _) (det_stepR _ _)

theorem route_acts_aux (ss : List Step) (acc : M2) (p q : V4) (h : act acc (herm p) = herm q) :
    act (ss.foldl (fun acc s => (stepM s).mul acc) acc) (herm p) = herm (ss.foldl (fun q s => stepL s q) q) := by
  induction ss generalizing acc q with
  | nil => simpa using h
  | cons s ss ih =>
    rw [List.foldl_cons, List.foldl_cons]
    apply ih
    rw [act_mul, h, stepM_acts]

theorem det_route_aux (ss : List Step) (acc : M2) (h : acc.det = Cx.one) :
    (ss.foldl (fun acc s => (stepM s).mul acc) acc).det = Cx.one := by
  induction ss generalizing acc with
  | nil => simpa using h
  | cons s ss ih =>
    rw [List.foldl_cons]
    exact ih _ (det_mul_one _ _ (det_stepM s) h)

/-- the accumulation of `cal_helicity_angle` (`r * b_matrix[core] * r_matrix[core]`, then `b_matrix[j]` on the left)
is the plain product of the per-vertex matrices -/
theorem code_route_aux (ss : List Step) (w : ℝ) (acc : M2) :
    (boostZ (lastOmega w ss)).mul
        ((levelsOf w ss).foldl (fun acc l => accR (stepR l.alpha l.beta) l.bcore acc) acc) =
      ss.foldl (fun A s => (stepM s).mul A) ((boostZ w).mul acc) := by
  induction ss generalizing w acc with
  | nil => simp [lastOmega, levelsOf]
  | cons s ss ih =>
    simp only [lastOmega, levelsOf, List.foldl_cons]
    rw [ih]
    congr 1
    unfold accR stepM
    simp only [su2_mul_assoc]

/-! ### polar form of a momentum and the code's rapidity -/

/-- the four-momentum of mass `m`, rapidity `ω`, polar angle `β`, azimuth `α` -/
noncomputable def polar (m α β ω : ℝ) : V4 :=
  ⟨m * Real.cosh ω, m * Real.sinh ω * (Real.sin β * Real.cos α), m * Real.sinh ω * (Real.sin β * Real.sin α),
   m * Real.sinh ω * Real.cos β⟩

theorem stepL_polar (s : Step) (m : ℝ) : stepL s (polar m s.alpha s.beta s.omega) = ⟨m, 0, 0, 0⟩ := by
  obtain ⟨α, β, ω⟩ := s
  have h1 := Real.sin_sq_add_cos_sq α
  have h2 := Real.sin_sq_add_cos_sq β
  have h3 := Real.cosh_sq ω
  ext <;> simp only [stepL, boostZv, rotYv, rotZv, polar, kcos, ksin, kcosh_eq, ksinh_eq]
  · linear_combination (-(m * Real.sinh ω ^ 2 * Real.sin β ^ 2)) * h1 - m * Real.sinh ω ^ 2 * h2 + m * h3
  · linear_combination (m * Real.sinh ω * Real.sin β * Real.cos β) * h1
  · ring
  · linear_combination (m * Real.sinh ω * Real.cosh ω * Real.sin β ^ 2) * h1 + m * Real.sinh ω * Real.cosh ω * h2

/-- **the code's rapidity**: for a time-like momentum with positive energy, `ω = acosh(LorentzVector.gamma(p))`
satisfies `m cosh ω = E` and `m sinh ω = |p⃗|` with `m = √(E² − |p⃗|²)` -/
theorem omegaP_spec (q : V4) (ht : 0 < q.t) (hq : q.vect.norm2 < q.t ^ 2) :
    Real.sqrt q.m2 * Real.cosh (omegaP q) = q.t ∧
      Real.sqrt q.m2 * Real.sinh (omegaP q) = Real.sqrt q.vect.norm2 := by
  obtain ⟨t, x, y, z⟩ := q
  simp only [V4.vect, V3.norm2, V4.m2, V4.dot] at *
  have ht0 : t ≠ 0 := ne_of_gt ht
  have hn0 : 0 ≤ x * x + y * y + z * z := by nlinarith [mul_self_nonneg x, mul_self_nonneg y, mul_self_nonneg z]
  have hm2 : 0 < t * t - x * x - y * y - z * z := by nlinarith
  set m := Real.sqrt (t * t - x * x - y * y - z * z) with hmdef
  have hm : 0 < m := Real.sqrt_pos.mpr hm2
  have hmm : m * m = t * t - x * x - y * y - z * z := Real.mul_self_sqrt hm2.le
  have hmt : m ≤ t := by
    by_contra hlt
    have hlt' := not_le.mp hlt
    nlinarith
  have hb2 : x / t * (x / t) + y / t * (y / t) + z / t * (z / t) = (x * x + y * y + z * z) / (t * t) := by
    field_simp
  have hb2lt : (x * x + y * y + z * z) / (t * t) < 1 := by
    rw [div_lt_one (by positivity)]; nlinarith
  have hγ : gammaP ⟨t, x, y, z⟩ = t / m := by
    unfold gammaP
    simp only [V4.boostVector, V3.norm2, hb2, if_pos hb2lt, ksqrt]
    have h1 : 1 - (x * x + y * y + z * z) / (t * t) = (m / t) ^ 2 := by
      field_simp; nlinarith
    rw [h1, Real.sqrt_sq (by positivity)]
    field_simp
  have h1 : 1 ≤ t / m := by rw [le_div_iff₀ hm]; linarith
  unfold omegaP kacosh
  rw [hγ, Real.cosh_arcosh h1, Real.sinh_arcosh h1]
  constructor
  · field_simp
  · have h2 : (t / m) ^ 2 - 1 = (x * x + y * y + z * z) / (m * m) := by
      field_simp; nlinarith
    rw [h2, Real.sqrt_div hn0, Real.sqrt_mul_self hm.le]
    field_simp

/-- **the sign of the boost**: `Boost_z(ω)` acts on four-vectors as the code's `rest_vector(p_j, ·)` for a mother-frame
momentum `p_j = m(cosh ω, 0, 0, sinh ω)` along `+z` — the regular branch of `LorentzVector.boost`
(`tanh² ω > 1e-14`) -/
theorem boostZv_eq_restVector (m ω : ℝ) (hm : 0 < m) (hreg : eps < Real.tanh ω ^ 2) (q : V4) :
    V4.restVector ⟨m * Real.cosh ω, 0, 0, m * Real.sinh ω⟩ q = boostZv ω q := by
  have hc : 0 < Real.cosh ω := Real.cosh_pos ω
  have hth : Real.tanh ω = Real.sinh ω / Real.cosh ω := Real.tanh_eq_sinh_div_cosh ω
  have hcs := Real.cosh_sq ω
  have hv : (V4.boostVector ⟨m * Real.cosh ω, 0, 0, m * Real.sinh ω⟩).neg = ⟨0, 0, -Real.tanh ω⟩ := by
    simp only [V4.boostVector, V3.neg, hth, zero_div, neg_zero]
    congr 1
    field_simp
  have hb2 : (⟨0, 0, -Real.tanh ω⟩ : V3).norm2 = Real.tanh ω ^ 2 := by simp only [V3.norm2]; ring
  have hlt : Real.tanh ω ^ 2 < 1 := by
    rw [hth, div_pow, div_lt_one (by positivity)]; nlinarith
  obtain ⟨hg1, hg2, hg3⟩ := gamma_facts _ hreg hlt
  have hg : gammaOf (Real.tanh ω ^ 2) = Real.cosh ω := by
    have h1 : 1 - Real.tanh ω ^ 2 = 1 / Real.cosh ω ^ 2 := by rw [hth]; field_simp; nlinarith
    have h2 : (gammaOf (Real.tanh ω ^ 2)) ^ 2 = Real.cosh ω ^ 2 := by
      rw [h1] at hg1; field_simp at hg1; linarith
    exact (sq_eq_sq₀ hg3.le hc.le).mp h2
  have hs : Real.cosh ω * Real.tanh ω = Real.sinh ω := by rw [hth]; field_simp
  obtain ⟨t, x, y, z⟩ := q
  unfold V4.restVector
  rw [hv]
  simp only [V4.boost, hb2, V3.dot, V4.vect, boostZv, kcosh_eq, ksinh_eq, hg]
  rw [hg] at hg2
  ext <;> simp only
  · linear_combination (-z) * hs
  · ring
  · ring
  · linear_combination z * hg2 - t * hs

end TfPwaV.SL2CR
