import TfPwaV.Model.OverrideY
import TfPwaV.Proofs.Override
/-!
Helper lemmas for C17 round 4 (`Model/OverrideY.lean`): the relation "restored up to the parameters (unless `a`) and
up to the chain selection (unless `c`)", one block lemma for it, the guardedness predicates.  Core Lean only.
-/
namespace TfPwaV.OverrideY
open TfPwaV.Override

/-- `t` equals `s` on mask, `mask_factor`, configuration, ls selection and trainable list; on the stored parameter
values when `a`; on the chain selection (`chainsIdx`, `notFull`) when `c`. -/
def Rel (a c : Bool) (s t : St) : Prop :=
  t.mask = s.mask ∧ t.maskFactor = s.maskFactor ∧ t.config = s.config ∧ t.ls = s.ls ∧ t.trainable = s.trainable ∧
    (a = true → t.params = s.params) ∧ (c = true → t.chainsIdx = s.chainsIdx ∧ t.notFull = s.notFull)

theorem Rel.refl (a c : Bool) (s : St) : Rel a c s s := ⟨rfl, rfl, rfl, rfl, rfl, fun _ => rfl, fun _ => ⟨rfl, rfl⟩⟩

theorem Rel.of_eq {a c : Bool} {s t : St} (h : t = s) : Rel a c s t := h ▸ Rel.refl a c s

theorem Rel.seq {a c a' c' : Bool} {s t u : St} (h1 : Rel a c s t) (h2 : Rel a' c' t u) :
    Rel (a && a') (c && c') s u := by
  obtain ⟨p1, p2, p3, p4, p5, p6, p7⟩ := h1
  obtain ⟨q1, q2, q3, q4, q5, q6, q7⟩ := h2
  refine ⟨q1.trans p1, q2.trans p2, q3.trans p3, q4.trans p4, q5.trans p5, ?_, ?_⟩
  · intro h
    simp only [Bool.and_eq_true] at h
    exact (q6 h.2).trans (p6 h.1)
  · intro h
    simp only [Bool.and_eq_true] at h
    exact ⟨(q7 h.2).1.trans (p7 h.1).1, (q7 h.2).2.trans (p7 h.1).2⟩

theorem Rel.trans {a c : Bool} {s t u : St} (h1 : Rel a c s t) (h2 : Rel a c t u) : Rel a c s u := by
  have h := Rel.seq h1 h2
  simpa using h

theorem Rel.eq {s t : St} (h : Rel true true s t) : t = s := by
  obtain ⟨p1, p2, p3, p4, p5, p6, p7⟩ := h
  exact St.eq_of (p6 rfl) p1 (p7 rfl).1 (p7 rfl).2 p2 p3 p4 p5

theorem Rel.setParams (c : Bool) (s : St) (ps : List Val) : Rel false c s { s with params := ps } :=
  ⟨rfl, rfl, rfl, rfl, rfl, (fun h => Bool.noConfusion h), (fun _ => ⟨rfl, rfl⟩)⟩

theorem Rel.setChains (a : Bool) (s : St) (l : List Nat) (nf : Bool) :
    Rel a false s { s with chainsIdx := l, notFull := nf } :=
  ⟨rfl, rfl, rfl, rfl, rfl, (fun _ => rfl), (fun h => Bool.noConfusion h)⟩

def isAbs : Block → Bool
  | .absTemp _ => true
  | .absTempSeq _ => true
  | _ => false

def isChain : Block → Bool
  | .usedRes _ => true
  | _ => false

/-- every patched block restores what its body restores, plus the parameters when it is an `amp.temp_params` block and
the chain selection when it is a `temp_used_res` block — whether the body (or the entry) raises or not -/
theorem execBlock_rel (fx : Fix) (E : Env) (b : Block) (hb : blockCovered fx b = true) (body : St → St × Bool)
    (a c : Bool) (hbody : ∀ t, Rel a c t (body t).1) (s : St) :
    Rel (isAbs b || a) (isChain b || c) s (execBlock fx E b body s).1 := by
  cases b with
  | absTemp p =>
    simp only [blockCovered] at hb
    simp only [execBlock, hb, if_true, isAbs, isChain, Bool.true_or, Bool.false_or]
    split
    · exact Rel.refl _ _ s
    · obtain ⟨h1, h2, h3, h4, h5, _, h7⟩ := hbody { s with params := (setAll p s.params).1 }
      exact ⟨h1, h2, h3, h4, h5, fun _ => rfl, h7⟩
  | absTempSeq vals =>
    simp only [blockCovered] at hb
    simp only [execBlock, hb, if_true, isAbs, isChain, Bool.true_or, Bool.false_or]
    split
    · exact Rel.refl _ _ s
    · obtain ⟨h1, h2, h3, h4, h5, _, h7⟩ := hbody { s with params := (setSeq s.trainable vals s.params).1 }
      exact ⟨h1, h2, h3, h4, h5, fun _ => rfl, h7⟩
  | vmTempSeq vals => exact Rel.refl _ _ s
  | vmTemp p =>
    simp only [blockCovered] at hb
    simp only [execBlock, hb, if_true, isAbs, isChain, Bool.false_or]
    split
    · exact Rel.refl _ _ s
    · obtain ⟨hlen, hoff⟩ := setAll_frame p s.params
      have hmm : (p.map fun kv => (kv.1, getRaw s.params kv.1)) =
          ((p.map (·.1)).map fun k => (k, getRaw s.params k)) := by
        simp [List.map_map, Function.comp_def]
      have hback := setVals_restore s.params (p.map (·.1)) (setAll p s.params).1 hlen hoff
      split
      · exact ⟨rfl, rfl, rfl, rfl, rfl, fun _ => by simp only [hmm, hback], fun _ => ⟨rfl, rfl⟩⟩
      · obtain ⟨h1, h2, h3, h4, h5, h6, h7⟩ := hbody { s with params := (setAll p s.params).1 }
        refine ⟨h1, h2, h3, h4, h5, ?_, h7⟩
        intro ha
        simp only [h6 ha, hmm, hback]
  | maskParams m =>
    simp only [blockCovered] at hb
    simp only [execBlock, hb, Bool.true_or, if_true, isAbs, isChain, Bool.false_or]
    obtain ⟨h1, h2, h3, h4, h5, h6, h7⟩ := hbody { s with mask := m }
    exact ⟨rfl, h2, h3, h4, h5, h6, h7⟩
  | usedRes r =>
    simp only [blockCovered] at hb
    simp only [execBlock, hb, if_true, isAbs, isChain, Bool.false_or, Bool.true_or]
    obtain ⟨h1, h2, h3, h4, h5, h6, _⟩ := hbody (setUsedRes E s r)
    exact ⟨h1, h2, h3, h4, h5, h6, fun _ => ⟨rfl, rfl⟩⟩
  | glsOne =>
    simp only [blockCovered] at hb
    simp only [execBlock, hb, Bool.true_or, if_true, isAbs, isChain, Bool.false_or]
    obtain ⟨h1, h2, h3, h4, h5, h6, h7⟩ := hbody { s with maskFactor := s.maskFactor.map fun _ => true }
    exact ⟨h1, rfl, h3, h4, h5, h6, h7⟩
  | tempConfig k v =>
    simp only [blockCovered] at hb
    simp only [execBlock, hb, Bool.true_or, if_true, isAbs, isChain, Bool.false_or]
    split
    · exact Rel.refl _ _ s
    · rename_i h
      obtain ⟨h1, h2, h3, h4, h5, h6, h7⟩ := hbody { s with config := s.config.set k v }
      refine ⟨h1, h2, ?_, h4, h5, h6, h7⟩
      simp only [h3]
      exact set_set_back s.config k v h

/-- `keep_used_chains` restores the chain selection whatever its body does to it -/
theorem execKeep_rel (fx : Fix) (body : St → St × Bool) (a c : Bool) (hbody : ∀ t, Rel a c t (body t).1) (s : St) :
    Rel a true s (execKeep fx body s).1 := by
  simp only [execKeep]
  split
  · obtain ⟨h1, h2, h3, h4, h5, h6, _⟩ := hbody s
    exact ⟨h1, h2, h3, h4, h5, h6, fun _ => ⟨rfl, rfl⟩⟩
  · exact Rel.refl _ _ s

/-! ## which programs go through patched sites only; which edits are guarded -/

def coveredY (fx : Fix) : ProgY → Bool
  | .compute c _ => compCovered fx c
  | .block b body => blockCovered fx b && coveredY fx body
  | .keepChains body => fx.usedRes && coveredY fx body
  | .seq p q => coveredY fx p && coveredY fx q
  | _ => true

/-- every `set_params` of the user code sits inside (some level of) an `amp.temp_params` block -/
def gP : ProgY → Bool
  | .setParams _ => false
  | .block b body => isAbs b || gP body
  | .keepChains body => gP body
  | .seq p q => gP p && gP q
  | _ => true

/-- every selection statement of the user code (`add_used_chains`, `set_used_chains`, `set_used_res`) sits inside (some
level of) a chain-restoring block (`temp_used_res`, `keep_used_chains`) -/
def gC : ProgY → Bool
  | .addUsedChains _ => false
  | .setUsedChains _ => false
  | .setUsedRes _ => false
  | .block b body => isChain b || gC body
  | .keepChains _ => true
  | .seq p q => gC p && gC q
  | _ => true

theorem coveredY_all (p : ProgY) : coveredY Fix.all p = true := by
  induction p with
  | compute c _ => cases c <;> rfl
  | block b body ih => cases b <;> simpa [coveredY, blockCovered, Fix.all] using ih
  | keepChains body ih => simpa [coveredY, Fix.all] using ih
  | seq p q ihp ihq => simp [coveredY, ihp, ihq]
  | _ => rfl

theorem execY_embed (fx : Fix) (E : Env) (p : Prog) : ∀ s, execY fx E (embed p) s = exec fx E p s := by
  induction p with
  | skip => intro s; rfl
  | raise => intro s; rfl
  | compute c f => intro s; rfl
  | setParams q => intro s; rfl
  | block b body ih =>
    intro s
    simp only [embed, execY, exec]
    congr 1
    funext t
    exact ih t
  | seq p q ihp ihq =>
    intro s
    simp only [embed, execY, exec, ihp s]
    split
    · rfl
    · exact ihq _

theorem coveredY_embed (fx : Fix) (p : Prog) : coveredY fx (embed p) = covered fx p := by
  induction p with
  | block b body ih => simp [embed, coveredY, covered, ih]
  | seq p q ihp ihq => simp [embed, coveredY, covered, ihp, ihq]
  | _ => rfl

theorem gC_embed (p : Prog) : gC (embed p) = true := by
  induction p with
  | block b body ih => simp [embed, gC, ih]
  | seq p q ihp ihq => simp [embed, gC, ihp, ihq]
  | _ => rfl

theorem gP_embed (p : Prog) : gP (embed p) = guarded p := by
  induction p with
  | block b body ih => cases b <;> simp [embed, gP, guarded, isAbs, ih]
  | seq p q ihp ihq => simp [embed, gP, guarded, ihp, ihq]
  | _ => rfl

/-! ## straight-line selection bodies -/

theorem execY_selBody (fx : Fix) (E : Env) : ∀ (stmts : List SelStmt) (s : St),
    execY fx E (selBody stmts) s = (runSel E stmts s, false) := by
  intro stmts
  induction stmts with
  | nil => intro s; rfl
  | cons st rest ih =>
    intro s
    cases st <;> simp [selBody, SelStmt.toProg, execY, runSel, ih]

theorem coveredY_selBody (fx : Fix) : ∀ stmts : List SelStmt, coveredY fx (selBody stmts) = true := by
  intro stmts
  induction stmts with
  | nil => rfl
  | cons st rest ih => cases st <;> simp [selBody, SelStmt.toProg, coveredY, ih]

theorem gP_selBody : ∀ stmts : List SelStmt, gP (selBody stmts) = true := by
  intro stmts
  induction stmts with
  | nil => rfl
  | cons st rest ih => cases st <;> simp [selBody, SelStmt.toProg, gP, ih]

/-! ## per-object flags -/

theorem getFlag_set (m : List Bool) (i j : Nat) (b : Bool) (h : i < m.length ∨ b = false) :
    getFlag (m.set i b) j = if j = i then b else getFlag m j := by
  simp only [getFlag, List.getElem?_set]
  by_cases hji : j = i
  · subst hji
    rcases h with h | h
    · simp [h]
    · subst h
      by_cases hl : j < m.length <;> simp [hl]
  · have : ¬ i = j := fun e => hji e.symm
    simp [this, hji]

theorem setAllTrue_length : ∀ (visit : List Nat) (m : List Bool), (setAllTrue m visit).length = m.length := by
  intro visit
  induction visit with
  | nil => intro m; rfl
  | cons i rest ih => intro m; simp [setAllTrue, ih]

theorem setAllTrue_other : ∀ (visit : List Nat) (m : List Bool) (j : Nat), j ∉ visit →
    getFlag (setAllTrue m visit) j = getFlag m j := by
  intro visit
  induction visit with
  | nil => intro m j _; rfl
  | cons i rest ih =>
    intro m j hj
    simp only [List.mem_cons, not_or] at hj
    simp only [setAllTrue]
    rw [ih _ j hj.2]
    simp only [getFlag, List.getElem?_set]
    have : ¬ i = j := fun e => hj.1 e.symm
    simp [this]

theorem restoreAll_length : ∀ (visit : List Nat) (saved m : List Bool), (restoreAll m visit saved).length = m.length := by
  intro visit
  induction visit with
  | nil => intro saved m; simp [restoreAll]
  | cons i rest ih =>
    intro saved m
    cases saved with
    | nil => simp [restoreAll]
    | cons b bs => simp [restoreAll, ih]

/-- after `restoreAll` with the values saved from `m`: a visited object has ITS value of `m` (every repetition of a shared
object carries the same saved value), an unvisited one is untouched -/
theorem restoreAll_get (m : List Bool) : ∀ (visit : List Nat) (m' : List Bool), m'.length = m.length → ∀ j,
    getFlag (restoreAll m' visit (saveAll m visit)) j = if j ∈ visit then getFlag m j else getFlag m' j := by
  intro visit
  induction visit with
  | nil => intro m' _ j; simp [restoreAll, saveAll]
  | cons i rest ih =>
    intro m' hlen j
    simp only [saveAll, List.map_cons, restoreAll]
    have := ih (m'.set i (getFlag m i)) (by simp [hlen]) j
    simp only [saveAll] at this
    rw [this]
    by_cases hjr : j ∈ rest
    · simp [hjr]
    · simp only [hjr, if_false, List.mem_cons, or_false]
      have hset : getFlag (m'.set i (getFlag m i)) j = if j = i then getFlag m i else getFlag m' j := by
        apply getFlag_set
        by_cases hl : i < m'.length
        · exact Or.inl hl
        · right
          have : m.length ≤ i := by omega
          simp [getFlag, this]
      rw [hset]
      by_cases hji : j = i
      · subst hji; simp
      · simp [hji]

theorem eq_of_getFlag (a b : List Bool) (hl : a.length = b.length) (h : ∀ j, getFlag a j = getFlag b j) : a = b := by
  apply List.ext_getElem hl
  intro j h1 h2
  have := h j
  simp only [getFlag, List.getElem?_eq_getElem h1, List.getElem?_eq_getElem h2, Option.getD_some] at this
  exact this

theorem setAllTrue_mem : ∀ (visit : List Nat) (m : List Bool) (j : Nat), j ∈ visit → j < m.length →
    getFlag (setAllTrue m visit) j = true := by
  intro visit
  induction visit with
  | nil => intro m j hj; simp at hj
  | cons i rest ih =>
    intro m j hj hlt
    simp only [setAllTrue]
    by_cases hr : j ∈ rest
    · exact ih (m.set i true) j hr (by simpa using hlt)
    · have hji : j = i := by
        simp only [List.mem_cons] at hj
        rcases hj with h | h
        · exact h
        · exact absurd h hr
      subst hji
      rw [setAllTrue_other rest _ j hr]
      simp [getFlag, hlt]

/-- when the visiting sequence reaches every object, "set all" is the `map (fun _ => true)` of `Override.execBlock` -/
theorem setAllTrue_covers (visit : List Nat) (m : List Bool) (hcov : ∀ j, j < m.length → j ∈ visit) :
    setAllTrue m visit = m.map fun _ => true := by
  apply eq_of_getFlag
  · simp [setAllTrue_length]
  · intro j
    by_cases hlt : j < m.length
    · rw [setAllTrue_mem visit m j (hcov j hlt) hlt]
      simp [getFlag, hlt]
    · have h1 : (setAllTrue m visit).length ≤ j := by rw [setAllTrue_length]; omega
      have h2 : m[j]? = none := List.getElem?_eq_none_iff.mpr (by omega)
      simp [getFlag, h1, h2]

/-! ## freeing and re-fixing variables -/

theorem fixVars_append (tr : List Nat) : ∀ (vs : List Nat), vs.Nodup → (∀ v ∈ vs, v ∉ tr) →
    fixVars (tr ++ vs) vs = tr := by
  intro vs
  induction vs generalizing tr with
  | nil => intro _ _; simp [fixVars]
  | cons v rest ih =>
    intro hnd hdis
    have hv : v ∉ tr := hdis v (by simp)
    simp only [List.nodup_cons] at hnd
    simp only [fixVars]
    have he : (tr ++ v :: rest).erase v = tr ++ rest := by
      rw [List.erase_append_right _ hv]
      simp
    rw [he]
    exact ih tr hnd.2 (fun w hw => hdis w (by simp [hw]))

theorem freeVars_append (tr : List Nat) : ∀ (vs : List Nat), vs.Nodup → (∀ v ∈ vs, v ∉ tr) →
    freeVars tr vs = tr ++ vs := by
  intro vs
  induction vs generalizing tr with
  | nil => intro _ _; simp [freeVars]
  | cons v rest ih =>
    intro hnd hdis
    have hv : v ∉ tr := hdis v (by simp)
    simp only [List.nodup_cons] at hnd
    have hc : tr.contains v = false := by simpa using hv
    simp only [freeVars, hc, Bool.false_eq_true, if_false]
    rw [ih (tr ++ [v]) hnd.2]
    · simp
    · intro w hw
      simp only [List.mem_append, List.mem_singleton, not_or]
      refine ⟨hdis w (by simp [hw]), ?_⟩
      intro h; subst h; exact hnd.1 hw

end TfPwaV.OverrideY
