import TfPwaV.Model.TopologyNames
import TfPwaV.Proofs.TopologyMapP
/-! C14d, all n: `standard_topology` IS a renaming — the bookkeeping of its three `name_map` loops, generic in the
name layer (`repr` = `str`, `fmt` = `"({})".format(", ".join(..))`, `parse` = `BaseParticle(..)`), under the explicit
hypothesis `StdNaming` on these three operations. -/
set_option linter.unusedSectionVars false
namespace TfPwaV.Topology

/-! ## dictionary loops -/
section dict
variable {κ ν : Type} [DecidableEq κ]

/-- `for k, v in a.items(): d[k] = g(k, v)` on a dictionary `a` (keys pairwise different) -/
theorem foldl_set_items {μ : Type} (g : κ × μ → ν) (a : Dict κ μ) (init : Dict κ ν) (ha : a.keys.Nodup) (x : κ) :
    (a.foldl (fun d kv => d.set kv.1 (g kv)) init).get? x =
      match a.get? x with
      | some v => some (g (x, v))
      | none => init.get? x := by
  induction a generalizing init with
  | nil => rfl
  | cons kv a ih =>
    obtain ⟨k, v⟩ := kv
    have ha' : k ∉ Dict.keys a ∧ (Dict.keys a).Nodup := by simpa [Dict.keys] using ha
    simp only [List.foldl_cons]
    rw [ih _ ha'.2]
    by_cases e : k = x
    · subst e
      have : Dict.get? a k = none := (Dict.get?_none_iff a k).2 ha'.1
      simp [this, Dict.get?, Dict.get?_set_self]
    · simp only [Dict.get?, if_neg e]
      cases Dict.get? a x with
      | some v' => rfl
      | none => simp only [Dict.get?_set_ne _ _ _ _ e]

/-- `for i in l: d[i] = h(i)` -/
theorem foldl_set_list (h : κ → ν) (l : List κ) (init : Dict κ ν) (x : κ) :
    (l.foldl (fun d i => d.set i (h i)) init).get? x = if x ∈ l then some (h x) else init.get? x := by
  induction l generalizing init with
  | nil => simp
  | cons i l ih =>
    simp only [List.foldl_cons, ih, List.mem_cons]
    by_cases hx : x ∈ l
    · simp [hx]
    · by_cases e : i = x
      · subst e; simp [hx, Dict.get?_set_self]
      · have e' : ¬ x = i := fun h => e h.symm
        simp [hx, e', Dict.get?_set_ne _ _ _ _ e]

/-- `{k: p(v) for k, v in d.items()}` -/
theorem get?_map_val {μ : Type} (p : ν → μ) (d : Dict κ ν) (x : κ) :
    (Dict.get? (d.map fun kv => (kv.1, p kv.2)) x) = (d.get? x).map p := by
  induction d with
  | nil => rfl
  | cons kv d ih =>
    simp only [List.map_cons, Dict.get?]
    by_cases e : kv.1 = x
    · simp [e]
    · simp [e, ih]

end dict

section std
variable {α σ : Type} [DecidableEq α] [LT α] [DecidableLT α] [LT σ] [DecidableLT σ]

/-- What `standard_topology` needs from the names of the particles of ONE chain (top particle, final particles):
* `roundtrip`: `BaseParticle(str(p)) == p` for the top and the final particles;
* `gen_inj`: two generated names "(B, C, …)" built from the SORTED `str`s of two lists of ≥ 2 finals give the same
  particle only if the two lists hold the same finals;
* `gen_new`: a generated name never gives the top particle or a final particle. -/
structure StdNaming (repr : α → σ) (fmt : List σ → σ) (parse : σ → α) (top : α) (finals : List α) : Prop where
  roundtrip : ∀ p, p = top ∨ p ∈ finals → parse (repr p) = p
  gen_inj : ∀ L₁ L₂ : List α, (∀ x ∈ L₁, x ∈ finals) → (∀ x ∈ L₂, x ∈ finals) → 2 ≤ L₁.length → 2 ≤ L₂.length →
    parse (fmt (isort (L₁.map repr))) = parse (fmt (isort (L₂.map repr))) → L₁.Perm L₂
  gen_new : ∀ L : List α, (∀ x ∈ L, x ∈ finals) → 2 ≤ L.length → ∀ p, p = top ∨ p ∈ finals →
    parse (fmt (isort (L.map repr))) ≠ p

/-- ★ `standard_topology` of ANY chain that consists of the decays of the named binary tree `a → l r` (pairwise
different vertices) under `StdNaming`: the call returns (no KeyError, single-top assertion passes) and what it returns
is the chain with every particle renamed by ONE map `f` — the content of `particle_map` — that is injective on the
vertices of the tree, fixes every final particle and the top particle. -/
theorem standardTopologyG_is_renaming (hα : LinLt α) (repr : α → σ) (fmt : List σ → σ) (parse : σ → α)
    {c : Chain α} {a : α} {l r : NT α} (hc : Rep c (NT.node a l r)) (hv : (NT.node a l r).verts.Nodup)
    (hnm : StdNaming repr fmt parse a (NT.node a l r).leaves) :
    ∃ f : α → α, standardTopologyG repr fmt parse c = some (c.map (Decay.rename f)) ∧
      (∀ x ∈ (NT.node a l r).verts, ∀ y ∈ (NT.node a l r).verts, f x = f y → x = y) ∧
      (∀ z ∈ (NT.node a l r).leaves, f z = z) ∧ f a = a := by
  generalize hN : NT.node a l r = N at hc hv hnm
  have hNa : N.name = a := by rw [← hN]; rfl
  obtain ⟨t, ht, hk, hp⟩ : ∃ t, sortedTable c = some t ∧ t.keys.Nodup ∧
      t.Perm (N.subs.map fun s => (s.name, isort s.leaves)) := by
    subst hN; exact sortedTable_rep hα hc hv
  have hT : IsTableOf t N := ⟨hk, hp⟩
  have htop : topOf c = some a := by subst hN; exact hc.topOf hv
  have hfin : ∀ x, x ∈ finalsOf c ↔ x ∈ N.leaves := by
    intro x
    have := (by subst hN; exact hc.finals_perm hv : (splitTypes c).2.2.Perm N.leaves)
    simp only [finalsOf]
    rw [(isort_perm _).mem_iff, this.mem_iff]
  -- the dictionaries of the three loops
  let g : α × List α → σ := fun kv => fmt (isort (kv.2.map repr))
  let nm0 : Dict α σ := t.foldl (fun d kv => d.set kv.1 (g kv)) []
  let nm1 := nm0.set a (repr a)
  let nm2 := (finalsOf c).foldl (fun d i => d.set i (repr i)) nm1
  let pm : Dict α α := nm2.map fun kv => (kv.1, parse kv.2)
  have hpm : ∀ x, pm.get? x =
      if x ∈ N.leaves then some (parse (repr x))
      else if a = x then some (parse (repr a))
      else (t.get? x).map fun L => parse (fmt (isort (L.map repr))) := by
    intro x
    show Dict.get? (nm2.map fun kv => (kv.1, parse kv.2)) x = _
    rw [get?_map_val, foldl_set_list, Dict.get?_set, foldl_set_items g t [] hk]
    by_cases h1 : x ∈ N.leaves
    · simp [(hfin x).2 h1, h1]
    · have h1' : x ∉ finalsOf c := fun h => h1 ((hfin x).1 h)
      by_cases h2 : a = x
      · simp [h1, h1', h2]
      · simp only [h1, h1', h2, if_false]
        cases t.get? x <;> simp [g, Dict.get?]
  let f : α → α := fun x => (pm.get? x).getD x
  -- kinds of vertices
  have hleaf : ∀ z ∈ N.leaves, pm.get? z = some z := by
    intro z hz
    rw [hpm, if_pos hz, hnm.roundtrip z (Or.inr hz)]
  have htopv : pm.get? a = some a := by
    rw [hpm]
    by_cases h : a ∈ N.leaves
    · rw [if_pos h, hnm.roundtrip a (Or.inl rfl)]
    · rw [if_neg h, if_pos rfl, hnm.roundtrip a (Or.inl rfl)]
  have hinner : ∀ s ∈ N.subs, s.name ∉ N.leaves → s.name ≠ a →
      pm.get? s.name = some (parse (fmt (isort ((isort s.leaves).map repr)))) := by
    intro s hs h1 h2
    rw [hpm, if_neg h1, if_neg (fun e => h2 e.symm), (hT.get_iff _ _).2 ⟨s, hs, rfl, rfl⟩]
    rfl
  have hkind : ∀ x ∈ N.verts, (f x = x ∧ (x ∈ N.leaves ∨ x = a)) ∨
      (∃ s ∈ N.subs, s.name = x ∧ 2 ≤ s.leaves.length ∧
        f x = parse (fmt (isort ((isort s.leaves).map repr)))) := by
    intro x hx
    obtain ⟨s, hs, rfl⟩ := List.mem_map.1 hx
    by_cases h1 : s.name ∈ N.leaves
    · left; exact ⟨by simp only [f, hleaf _ h1, Option.getD_some], Or.inl h1⟩
    · by_cases h2 : s.name = a
      · left; exact ⟨by simp only [f, h2, htopv, Option.getD_some], Or.inr h2⟩
      · right
        refine ⟨s, hs, rfl, ?_, by simp only [f, hinner s hs h1 h2, Option.getD_some]⟩
        cases s with
        | leaf b => exact absurd ((NT.leaf_mem_subs _ _).1 hs) h1
        | node b l' r' =>
          have := l'.leaves_length_pos
          have := r'.leaves_length_pos
          simp only [NT.leaves, List.length_append]; omega
  have hsome : ∀ x ∈ N.verts, pm.get? x = some (f x) := by
    intro x hx
    obtain ⟨s, hs, rfl⟩ := List.mem_map.1 hx
    by_cases h1 : s.name ∈ N.leaves
    · simp only [f, hleaf _ h1, Option.getD_some]
    · by_cases h2 : s.name = a
      · simp only [f, h2, htopv, Option.getD_some]
      · simp only [f, hinner s hs h1 h2, Option.getD_some]
  have hsubfin : ∀ s ∈ N.subs, ∀ x ∈ isort s.leaves, x ∈ N.leaves := by
    intro s hs x hx
    exact NT.sub_leaves hs x ((mem_isort _ _).1 hx)
  have hinj : ∀ x ∈ N.verts, ∀ y ∈ N.verts, f x = f y → x = y := by
    intro x hx y hy hxy
    rcases hkind x hx with ⟨ex, kx⟩ | ⟨s1, hs1, n1, len1, e1⟩ <;>
      rcases hkind y hy with ⟨ey, ky⟩ | ⟨s2, hs2, n2, len2, e2⟩
    · rw [ex, ey] at hxy; exact hxy
    · exfalso
      rw [ex, e2] at hxy
      refine hnm.gen_new (isort s2.leaves) (hsubfin s2 hs2) (by rw [isort_length]; exact len2) x ?_ hxy.symm
      rcases kx with h | h
      · exact Or.inr h
      · exact Or.inl h
    · exfalso
      rw [ey, e1] at hxy
      refine hnm.gen_new (isort s1.leaves) (hsubfin s1 hs1) (by rw [isort_length]; exact len1) y ?_ hxy
      rcases ky with h | h
      · exact Or.inr h
      · exact Or.inl h
    · rw [e1, e2] at hxy
      have hperm := hnm.gen_inj _ _ (hsubfin s1 hs1) (hsubfin s2 hs2) (by rw [isort_length]; exact len1)
        (by rw [isort_length]; exact len2) hxy
      have := NT.eq_of_leaves_perm hv hs1 hs2 ((isort_perm _).symm.trans (hperm.trans (isort_perm _)))
      rw [← n1, ← n2, this]
  have hfix : ∀ z ∈ N.leaves, f z = z := by
    intro z hz; simp only [f, hleaf z hz, Option.getD_some]
  have hfa : f a = a := by simp only [f, htopv, Option.getD_some]
  refine ⟨f, ?_, hinj, hfix, hfa⟩
  -- the last loop
  have hdec : ∀ i ∈ c, (match pm.get? i.core, i.outs.mapM fun j => pm.get? j with
      | some co, some os => some (⟨co, os⟩ : Decay α)
      | _, _ => none) = some (Decay.rename f i) := by
    intro i hi
    obtain ⟨l1, r1, hn, hpo⟩ := hc.sound i hi
    have ch := NT.children_mem hn
    have hcore : pm.get? i.core = some (f i.core) := hsome _ (NT.mem_verts_of_sub hn)
    have houts : (i.outs.mapM fun k => pm.get? k) = some (i.outs.map f) := by
      apply mapM_of_forall
      intro k hk
      have := hpo.mem_iff.1 hk
      simp only [List.mem_cons, List.mem_nil_iff, or_false] at this
      rcases this with e | e
      · rw [e]; exact hsome _ (NT.mem_verts_of_sub ch.1)
      · rw [e]; exact hsome _ (NT.mem_verts_of_sub ch.2)
    rw [hcore, houts]
    rfl
  have hmapM : (c.mapM fun i =>
      match pm.get? i.core, i.outs.mapM fun j => pm.get? j with
      | some co, some os => some (⟨co, os⟩ : Decay α)
      | _, _ => none) = some (c.map (Decay.rename f)) := mapM_of_forall _ _ c hdec
  have hrep' : Rep (c.map (Decay.rename f)) (N.mapN f) ∧ (N.mapN f).verts.Nodup := by
    obtain ⟨h1, h2⟩ := hc.rename f hinj
    exact ⟨h1, h2 hv⟩
  have htop' : topOf (c.map (Decay.rename f)) = some (f a) := by
    subst hN
    exact Rep.topOf (a := f a) (l := l.mapN f) (r := r.mapN f) hrep'.1 hrep'.2
  show standardTopologyG repr fmt parse c = _
  unfold standardTopologyG
  simp only [ht, htop]
  show (Option.bind (c.mapM fun i =>
      match pm.get? i.core, i.outs.mapM fun j => pm.get? j with
      | some co, some os => some (⟨co, os⟩ : Decay α)
      | _, _ => none) fun c' => (topOf c').map fun _ => c') = _
  rw [hmapM]
  simp only [Option.bind_some, htop', Option.map_some]

end std

end TfPwaV.Topology
