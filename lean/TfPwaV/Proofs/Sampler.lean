import TfPwaV.Gen.SamplerR
import Mathlib.Tactic.Linarith
import Mathlib.Tactic.NormNum
import Mathlib.Tactic.Positivity
import Mathlib.Algebra.Order.Floor.Semiring
/-! Helper lemmas for C20 (acceptance–rejection control), about the ℝ-instance of `templates/Sampler.lean.in`. -/
open TfPwaV.ScalarR
namespace TfPwaV.SamplerR

theorem c101_ge : (1 : ℝ) ≤ c101 := by unfold c101; norm_num
theorem c11_ge : (1 : ℝ) ≤ c11 := by unfold c11; norm_num
theorem c105_ge : (1 : ℝ) ≤ c105 := by unfold c105; norm_num

theorem le_kmax_left (a b : ℝ) : a ≤ kmax a b := by
  unfold kmax; split <;> linarith
theorem le_kmax_right (a b : ℝ) : b ≤ kmax a b := by
  unfold kmax; split <;> linarith

theorem foldl_kmax_ge (ws : List ℝ) : ∀ a : ℝ, a ≤ ws.foldl kmax a ∧ ∀ x ∈ ws, x ≤ ws.foldl kmax a := by
  induction ws with
  | nil => intro a; simp
  | cons w ws ih =>
    intro a
    obtain ⟨h1, h2⟩ := ih (kmax a w)
    refine ⟨le_trans (le_kmax_left a w) h1, ?_⟩
    intro x hx
    rcases List.mem_cons.mp hx with rfl | hx
    · exact le_trans (le_kmax_right a x) h1
    · exact h2 x hx

/-- every weight is ≤ `tf.reduce_max(weight)` -/
theorem le_listMax (ws : List ℝ) : ∀ x ∈ ws, x ≤ listMax ws := by
  cases ws with
  | nil => intro x hx; simp at hx
  | cons w ws =>
    intro x hx
    obtain ⟨h1, h2⟩ := foldl_kmax_ge ws w
    rcases List.mem_cons.mp hx with rfl | hx
    · exact h1
    · exact h2 x hx

theorem listMax_nonneg (ws : List ℝ) (h : ∀ x ∈ ws, 0 ≤ x) : 0 ≤ listMax ws := by
  cases ws with
  | nil => simp [listMax]
  | cons w ws => exact le_trans (h w (by simp)) (le_listMax (w :: ws) w (by simp))

/-- the bound used by `single_sampling2` dominates every weight of the batch (weights ≥ 0) -/
theorem le_acceptBound (ws : List ℝ) (maxW : Option ℝ) (h : ∀ x ∈ ws, 0 ≤ x) :
    ∀ x ∈ ws, x ≤ acceptBound ws maxW := by
  intro x hx
  have h0 := listMax_nonneg ws h
  have h1 := le_listMax ws x hx
  have h2 : listMax ws ≤ listMax ws * c101 := by nlinarith [c101_ge]
  unfold acceptBound
  cases maxW with
  | none => simp only; linarith
  | some m =>
    simp only
    split
    · linarith
    · linarith

theorem acceptBound_nonneg_of_grow (ws : List ℝ) (m : ℝ) (h : ∀ x ∈ ws, 0 ≤ x)
    (hg : m < acceptBound ws (some m)) : 0 ≤ acceptBound ws (some m) := by
  have h0 := listMax_nonneg ws h
  unfold acceptBound at hg ⊢
  simp only at hg ⊢
  split
  · nlinarith [c101_ge]
  · rename_i hn; rw [if_neg hn] at hg; exact absurd hg (lt_irrefl m)

theorem acceptBound_none_nonneg (ws : List ℝ) (h : ∀ x ∈ ws, 0 ≤ x) : 0 ≤ acceptBound ws none := by
  have h0 := listMax_nonneg ws h
  unfold acceptBound; simp only; nlinarith [c101_ge]

theorem mem_acceptList (k : Nat) (M : ℝ) (e : Ev) :
    ∀ (ws rs : List ℝ) (i : Nat), e ∈ acceptList k M i ws rs → e.w ∈ ws ∧ e.bound = M ∧ e.batch = k := by
  intro ws
  induction ws with
  | nil => intro rs i h; simp [acceptList] at h
  | cons w ws ih =>
    intro rs i h
    cases rs with
    | nil => simp [acceptList] at h
    | cons r rs =>
      unfold acceptList at h
      split at h
      · rcases List.mem_cons.mp h with rfl | h
        · simp
        · obtain ⟨h1, h2⟩ := ih rs (i + 1) h
          exact ⟨List.mem_cons_of_mem _ h1, h2⟩
      · obtain ⟨h1, h2⟩ := ih rs (i + 1) h
        exact ⟨List.mem_cons_of_mem _ h1, h2⟩

theorem acceptList_length_le (k : Nat) (M : ℝ) :
    ∀ (ws rs : List ℝ) (i : Nat), (acceptList k M i ws rs).length ≤ ws.length := by
  intro ws
  induction ws with
  | nil => intro rs i; simp [acceptList]
  | cons w ws ih =>
    intro rs i
    cases rs with
    | nil => simp [acceptList]
    | cons r rs =>
      unfold acceptList
      have := ih rs (i + 1)
      split <;> simp only [List.length_cons] <;> omega

theorem mem_thinList (M m : ℝ) (e : Ev) :
    ∀ (es : List Ev) (rs : List ℝ), e ∈ thinList M m es rs → e ∈ es := by
  intro es
  induction es with
  | nil => intro rs h; simp [thinList] at h
  | cons a es ih =>
    intro rs h
    cases rs with
    | nil => simp [thinList] at h
    | cons r rs =>
      unfold thinList at h
      split at h
      · rcases List.mem_cons.mp h with rfl | h
        · simp
        · exact List.mem_cons_of_mem _ (ih rs h)
      · exact List.mem_cons_of_mem _ (ih rs h)

theorem thinList_length_le (M m : ℝ) :
    ∀ (es : List Ev) (rs : List ℝ), (thinList M m es rs).length ≤ es.length := by
  intro es
  induction es with
  | nil => intro rs; simp [thinList]
  | cons a es ih =>
    intro rs
    cases rs with
    | nil => simp [thinList]
    | cons r rs =>
      unfold thinList
      have := ih rs
      split <;> simp only [List.length_cons] <;> omega

/-- induction principle for the loop: a property preserved by every iteration holds in every reachable state -/
theorem run_induct (N maxN : Nat) (gen : Nat → Nat → Batch) (P : St → Prop)
    (hstep : ∀ k s, P s → P (step N maxN k (gen k (request N maxN s)) s)) :
    ∀ fuel k s, P s → P (run N maxN gen fuel k s) := by
  intro fuel
  induction fuel with
  | zero => intro k s h; simpa [run] using h
  | succ f ih =>
    intro k s h
    unfold run
    split
    · exact ih _ _ (hstep k s h)
    · exact h

/-- the growth test of `multi_sampling`: `new_max_weight > max_weight and len(all_data) > 0` -/
def grows (b : Batch) (s : St) : Prop :=
  bookBound s.maxW (acceptBound b.ws s.maxW) < acceptBound b.ws s.maxW ∧ s.first = false

theorem step_grow (N maxN k : Nat) (b : Batch) (s : St) (h : grows b s) :
    step N maxN k b s =
      let M := acceptBound b.ws s.maxW
      let acc := acceptList k M 0 b.ws b.rnd
      let kept := thinList M (bookBound s.maxW M) s.all b.thin
      ⟨some (M * c105), kept ++ acc, false, kept.length + acc.length, s.nTotal + request N maxN s,
        kofNat (kept.length + acc.length + 1) / kofNat (s.nTotal + request N maxN s + 1)⟩ := by
  unfold step grows at *
  simp only [if_pos h]

theorem step_keep (N maxN k : Nat) (b : Batch) (s : St) (h : ¬ grows b s) :
    step N maxN k b s =
      let M := acceptBound b.ws s.maxW
      let acc := acceptList k M 0 b.ws b.rnd
      ⟨some (bookBound s.maxW M), s.all ++ acc, false, s.nGen + acc.length, s.nTotal + request N maxN s,
        kofNat (s.nGen + acc.length + 1) / kofNat (s.nTotal + request N maxN s + 1)⟩ := by
  unfold step grows at *
  simp only [if_neg h]

/-- the retained list after one iteration: a sub-list of the old one followed by this batch's accepted events -/
theorem mem_step_all (N maxN k : Nat) (b : Batch) (s : St) (e : Ev)
    (h : e ∈ (step N maxN k b s).all) :
    e ∈ s.all ∨ e ∈ acceptList k (acceptBound b.ws s.maxW) 0 b.ws b.rnd := by
  by_cases hg : grows b s
  · rw [step_grow _ _ _ _ _ hg] at h
    simp only at h
    rcases List.mem_append.mp h with h | h
    · exact Or.inl (mem_thinList _ _ _ _ _ h)
    · exact Or.inr h
  · rw [step_keep _ _ _ _ _ hg] at h
    simp only at h
    rcases List.mem_append.mp h with h | h
    · exact Or.inl h
    · exact Or.inr h

/-- weights are squared amplitudes (divided by a positive importance density): non-negative -/
def NonnegWeights (gen : Nat → Nat → Batch) : Prop := ∀ k n, ∀ w ∈ (gen k n).ws, 0 ≤ w
/-- `phsp(n)` returns `n` events -/
def ExactBatches (gen : Nat → Nat → Batch) : Prop := ∀ k n, (gen k n).ws.length = n

/-- the bookkeeping invariant behind `bound_le_max_weight` -/
def Book (s : St) : Prop :=
  (s.maxW = none ∧ s.all = [] ∧ s.first = true) ∨
  (s.first = false ∧ ∃ m, s.maxW = some m ∧ ∀ e ∈ s.all, e.bound ≤ m)

theorem book_step (N maxN k : Nat) (b : Batch) (s : St) (hb : ∀ w ∈ b.ws, 0 ≤ w) (h : Book s) :
    Book (step N maxN k b s) := by
  right
  rcases h with ⟨h1, h2, h3⟩ | ⟨h1, m, h2, h3⟩
  · have hg : ¬ grows b s := by
      intro hg; have := hg.2; rw [h3] at this; exact absurd this (by decide)
    rw [step_keep _ _ _ _ _ hg]
    refine ⟨rfl, _, rfl, ?_⟩
    intro e he
    simp only [h2, List.nil_append] at he
    obtain ⟨_, hbd, _⟩ := mem_acceptList _ _ _ _ _ _ he
    rw [hbd, h1]
    have := acceptBound_none_nonneg b.ws hb
    unfold bookBound
    simp only
    nlinarith [c11_ge]
  · by_cases hg : grows b s
    · rw [step_grow _ _ _ _ _ hg]
      refine ⟨rfl, _, rfl, ?_⟩
      have hlt : m < acceptBound b.ws (some m) := by
        have := hg.1; rw [h2] at this; simpa [bookBound] using this
      have h0 := acceptBound_nonneg_of_grow b.ws m hb hlt
      intro e he
      simp only at he
      rcases List.mem_append.mp he with he | he
      · have := h3 e (mem_thinList _ _ _ _ _ he)
        rw [h2]; nlinarith [c105_ge]
      · obtain ⟨_, hbd, _⟩ := mem_acceptList _ _ _ _ _ _ he
        rw [hbd, h2]; nlinarith [c105_ge]
    · rw [step_keep _ _ _ _ _ hg]
      refine ⟨rfl, _, rfl, ?_⟩
      have hle : acceptBound b.ws (some m) ≤ m := by
        by_contra hc
        apply hg
        refine ⟨?_, h1⟩
        rw [h2]; simpa [bookBound] using lt_of_not_ge hc
      intro e he
      simp only at he
      rw [h2]
      simp only [bookBound]
      rcases List.mem_append.mp he with he | he
      · exact h3 e he
      · obtain ⟨_, hbd, _⟩ := mem_acceptList _ _ _ _ _ _ he
        rw [hbd, h2]; exact hle

/-- the counter invariant: `GenTest.N_gen` is the number of retained events, never above `N_total`, and the running
efficiency stays in (0, 1] -/
def Counters (s : St) : Prop :=
  s.nGen = s.all.length ∧ s.nGen ≤ s.nTotal ∧ 0 < s.eff ∧ s.eff ≤ 1

theorem eff_range (n t : Nat) (h : n ≤ t) :
    0 < kofNat (n + 1) / kofNat (t + 1) ∧ kofNat (n + 1) / kofNat (t + 1) ≤ 1 := by
  unfold kofNat
  have h1 : (0 : ℝ) < ((n + 1 : ℕ) : ℝ) := by positivity
  have h2 : (0 : ℝ) < ((t + 1 : ℕ) : ℝ) := by positivity
  have h3 : ((n + 1 : ℕ) : ℝ) ≤ ((t + 1 : ℕ) : ℝ) := by exact_mod_cast Nat.succ_le_succ h
  exact ⟨div_pos h1 h2, (div_le_one h2).mpr h3⟩

theorem counters_step (N maxN k : Nat) (b : Batch) (s : St) (hb : b.ws.length = request N maxN s)
    (h : Counters s) : Counters (step N maxN k b s) := by
  obtain ⟨h1, h2, _, _⟩ := h
  have ha := acceptList_length_le k (acceptBound b.ws s.maxW) b.ws b.rnd 0
  by_cases hg : grows b s
  · rw [step_grow _ _ _ _ _ hg]
    have ht := thinList_length_le (acceptBound b.ws s.maxW) (bookBound s.maxW (acceptBound b.ws s.maxW)) s.all b.thin
    have hle : (thinList (acceptBound b.ws s.maxW) (bookBound s.maxW (acceptBound b.ws s.maxW)) s.all b.thin).length
        + (acceptList k (acceptBound b.ws s.maxW) 0 b.ws b.rnd).length ≤ s.nTotal + request N maxN s := by omega
    refine ⟨by simp, hle, ?_⟩
    exact eff_range _ _ hle
  · rw [step_keep _ _ _ _ _ hg]
    have hle : s.nGen + (acceptList k (acceptBound b.ws s.maxW) 0 b.ws b.rnd).length
        ≤ s.nTotal + request N maxN s := by omega
    refine ⟨by simp [h1], hle, ?_⟩
    exact eff_range _ _ hle

theorem counters_run (N maxN : Nat) (gen : Nat → Nat → Batch) (m0 : Option ℝ) (hx : ExactBatches gen)
    (fuel : Nat) : Counters (run N maxN gen fuel 0 (init m0)) := by
  refine run_induct N maxN gen Counters ?_ fuel 0 (init m0) ?_
  · intro k s h; exact counters_step _ _ _ _ _ (hx k _) h
  · refine ⟨by simp [init], by simp [init], ?_, ?_⟩ <;> simp only [init, eff0] <;> norm_num

end TfPwaV.SamplerR
