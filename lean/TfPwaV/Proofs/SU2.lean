import TfPwaV.Gen.SU2R
import Mathlib.Tactic.LinearCombination
import Mathlib.Tactic.FieldSimp
import Mathlib.Tactic.Positivity
import Mathlib.Analysis.SpecialFunctions.Trigonometric.Basic
/-! Helper lemmas for the SU(2) clauses of C12 (real-pair model of `tf_pwa.angle.SU2M`). -/
open TfPwaV.ScalarR
namespace TfPwaV.SU2R

@[ext] theorem Cx.ext' {a b : Cx} (h1 : a.re = b.re) (h2 : a.im = b.im) : a = b := by
  cases a; cases b; simp_all

@[ext] theorem M2.ext' {a b : M2} (h0 : a.x00 = b.x00) (h1 : a.x01 = b.x01) (h2 : a.x10 = b.x10)
    (h3 : a.x11 = b.x11) : a = b := by
  cases a; cases b; simp_all

/-- the unit complex number `exp(iθ)` as a pair and its inverse -/
theorem unit_inv (t : ℝ) : (⟨Real.cos t, Real.sin t⟩ : Cx).inv = ⟨Real.cos t, -Real.sin t⟩ := by
  have h : Real.cos t * Real.cos t + Real.sin t * Real.sin t = 1 := by
    have := Real.sin_sq_add_cos_sq t; nlinarith
  simp only [Cx.inv, Cx.normSq, h, div_one]

theorem rotZ_eq (α : ℝ) :
    rotZ α = ⟨⟨Real.cos (α / 2), -Real.sin (α / 2)⟩, Cx.zero, Cx.zero, ⟨Real.cos (α / 2), Real.sin (α / 2)⟩⟩ := by
  unfold rotZ kcos ksin
  simp only [unit_inv]

/-- closed form of `Rz(γ)·Ry(β)·Rz(α)` -/
theorem ofEuler_eq (α β γ : ℝ) :
    ofEuler ⟨α, β, γ⟩ =
      ⟨⟨Real.cos (β / 2) * Real.cos ((α + γ) / 2), -(Real.cos (β / 2) * Real.sin ((α + γ) / 2))⟩,
       ⟨-(Real.sin (β / 2) * Real.cos ((α - γ) / 2)), -(Real.sin (β / 2) * Real.sin ((α - γ) / 2))⟩,
       ⟨Real.sin (β / 2) * Real.cos ((α - γ) / 2), -(Real.sin (β / 2) * Real.sin ((α - γ) / 2))⟩,
       ⟨Real.cos (β / 2) * Real.cos ((α + γ) / 2), Real.cos (β / 2) * Real.sin ((α + γ) / 2)⟩⟩ := by
  have e1 : (α + γ) / 2 = γ / 2 + α / 2 := by ring
  have e2 : (α - γ) / 2 = α / 2 - γ / 2 := by ring
  unfold ofEuler
  simp only [rotZ_eq]
  unfold rotY ksin kcos
  rw [e1, e2, Real.cos_add, Real.sin_add, Real.cos_sub, Real.sin_sub]
  ext <;> simp [M2.mul, Cx.mul, Cx.add, Cx.neg, Cx.zero] <;> ring

end TfPwaV.SU2R
