import TfPwaV.Proofs.EinsumStep

/-! C05 (einsum): contracting a group of operands early preserves the reference value; induction over the path. -/
namespace TfPwaV.Einsum

theorem mem_summedLabels (ins : List (List Idx)) (out : List Idx) (a : Idx) :
    a ∈ summedLabels ins out ↔ (∃ l ∈ ins, a ∈ l) ∧ a ∉ out := by
  unfold summedLabels
  simp only [List.mem_filter, mem_labelSet, List.mem_flatten, Bool.not_eq_true', List.contains_eq_mem,
    decide_eq_false_iff_not]

theorem nodup_summedLabels (ins : List (List Idx)) (out : List Idx) : (summedLabels ins out).Nodup :=
  (nodup_labelSet _).filter _

theorem envOfList_map_self (e : Env) : ∀ (L : List Idx) (base : Env), L.Nodup → ∀ x ∈ L,
    envOfList L (L.map e) base x = e x
  | [], _, _, x, hx => by simp at hx
  | l :: L, base, hnd, x, hx => by
    have hnd' := List.nodup_cons.mp hnd
    simp only [List.map_cons, envOfList]
    rcases List.mem_cons.mp hx with rfl | hx
    · rw [envOfList_of_not_mem _ _ _ _ hnd'.1, upd_self]
    · exact envOfList_map_self e L _ hnd'.2 x hx

section
variable {R : Type} [CommSemiring R]

omit [CommSemiring R] in
theorem bget_congr [Zero R] (T : Tensor R) (L : List Idx) (e1 e2 : Env) (h : ∀ x ∈ L, e1 x = e2 x) :
    bget T L e1 = bget T L e2 := by
  unfold bget
  congr 1
  have : ∀ (L' : List Idx) (sh : List Nat), (∀ x ∈ L', e1 x = e2 x) →
      List.zipWith (fun l d => if d = 1 then 0 else e1 l) L' sh = List.zipWith (fun l d => if d = 1 then 0 else e2 l) L' sh := by
    intro L'
    induction L' with
    | nil => intro sh _; simp
    | cons a L' ih =>
      intro sh hh
      cases sh with
      | nil => simp
      | cons d sh =>
        simp only [List.zipWith_cons_cons]
        rw [ih sh (fun x hx => hh x (List.mem_cons_of_mem _ hx)), hh a (List.mem_cons_self)]
  exact this L T.shape h

/-- product of the entries of all operands (1 for no operand) -/
def tp (ops : List (List Idx × Tensor R)) (e : Env) : R := (ops.map fun p => bget p.2 p.1 e).prod

theorem termProd_eq_tp (ops : List (List Idx × Tensor R)) (h : ops ≠ []) (e : Env) : termProd ops e = tp ops e := by
  unfold termProd tp
  exact prodL_eq_prod _ (by simpa using h)

theorem tp_congr (ops : List (List Idx × Tensor R)) (e1 e2 : Env)
    (h : ∀ x, (∃ p ∈ ops, x ∈ p.1) → e1 x = e2 x) : tp ops e1 = tp ops e2 := by
  unfold tp
  congr 1
  apply List.map_congr_left
  intro p hp
  exact bget_congr p.2 p.1 e1 e2 (fun x hx => h x ⟨p, hp, hx⟩)

theorem sumLabels_env_congr (sizes : Idx → Nat) (f : Env → R) (D : Idx → Prop)
    (hf : ∀ e1 e2 : Env, (∀ x, D x → e1 x = e2 x) → f e1 = f e2) :
    ∀ (ls : List Idx) (env1 env2 : Env), (∀ x, D x → x ∉ ls → env1 x = env2 x) →
      sumLabels sizes ls env1 f = sumLabels sizes ls env2 f
  | [], env1, env2, h => by
    simp only [sumLabels]
    exact hf env1 env2 (fun x hx => h x hx (by simp))
  | l :: ls, env1, env2, h => by
    simp only [sumLabels]
    congr 1
    apply List.map_congr_left
    intro v _
    apply sumLabels_env_congr sizes f D hf ls
    intro x hx hxl
    by_cases hxl' : x = l
    · subst hxl'; simp [upd]
    · rw [upd_of_ne _ _ _ _ hxl', upd_of_ne _ _ _ _ hxl']
      exact h x hx (by simp [hxl', hxl])

/-- **Contracting a group early** while keeping exactly the labels that are needed later (output labels and labels
    of the remaining operands) preserves the total (distributivity: a label occurring only inside the group can be
    summed inside). -/
theorem einsumRef_contract (sizes : Idx → Nat) (part rest : List (List Idx × Tensor R)) (F O : List Idx)
    (hpart : part ≠ []) (hF : F.Nodup) (hOnd : O.Nodup)
    (hO : ∀ a, a ∈ O ↔ (∃ p ∈ part, a ∈ p.1) ∧ (a ∈ F ∨ ∃ q ∈ rest, a ∈ q.1)) :
    einsumRef sizes (rest ++ [(O, einsumRef sizes part O)]) F = einsumRef sizes (part ++ rest) F := by
  generalize hT' : einsumRef sizes part O = T'
  unfold einsumRef
  apply ofFn_congr
  intro oi hoi
  generalize he0 : envOfList F oi (fun _ => 0) = env0
  generalize hS1 : summedLabels ((rest ++ [(O, T')]).map (·.1)) F = S1
  generalize hS2 : summedLabels ((part ++ rest).map (·.1)) F = S2
  generalize hSst : summedLabels (part.map (·.1)) O = Sst
  have hmem1 : ∀ a, a ∈ S1 ↔ ((∃ q ∈ rest, a ∈ q.1) ∨ a ∈ O) ∧ a ∉ F := by
    intro a
    rw [← hS1, mem_summedLabels]
    simp only [List.map_append, List.map_cons, List.map_nil, List.mem_append, List.mem_map, List.mem_singleton]
    constructor
    · rintro ⟨⟨l, hl, hal⟩, hF'⟩
      refine ⟨?_, hF'⟩
      rcases hl with ⟨q, hq, rfl⟩ | rfl
      · exact Or.inl ⟨q, hq, hal⟩
      · exact Or.inr hal
    · rintro ⟨h, hF'⟩
      refine ⟨?_, hF'⟩
      rcases h with ⟨q, hq, haq⟩ | h
      · exact ⟨q.1, Or.inl ⟨q, hq, rfl⟩, haq⟩
      · exact ⟨O, Or.inr rfl, h⟩
  have hmem2 : ∀ a, a ∈ S2 ↔ ((∃ p ∈ part, a ∈ p.1) ∨ (∃ q ∈ rest, a ∈ q.1)) ∧ a ∉ F := by
    intro a
    rw [← hS2, mem_summedLabels]
    simp only [List.map_append, List.mem_append, List.mem_map]
    constructor
    · rintro ⟨⟨l, hl, hal⟩, hF'⟩
      refine ⟨?_, hF'⟩
      rcases hl with ⟨q, hq, rfl⟩ | ⟨q, hq, rfl⟩
      · exact Or.inl ⟨q, hq, hal⟩
      · exact Or.inr ⟨q, hq, hal⟩
    · rintro ⟨h, hF'⟩
      refine ⟨?_, hF'⟩
      rcases h with ⟨q, hq, haq⟩ | ⟨q, hq, haq⟩
      · exact ⟨q.1, Or.inl ⟨q, hq, rfl⟩, haq⟩
      · exact ⟨q.1, Or.inr ⟨q, hq, rfl⟩, haq⟩
  have hmemst : ∀ a, a ∈ Sst ↔ (∃ p ∈ part, a ∈ p.1) ∧ a ∉ O := by
    intro a
    rw [← hSst, mem_summedLabels]
    simp only [List.mem_map]
    constructor
    · rintro ⟨⟨l, ⟨q, hq, rfl⟩, hal⟩, h⟩
      exact ⟨⟨q, hq, hal⟩, h⟩
    · rintro ⟨⟨q, hq, haq⟩, h⟩
      exact ⟨⟨q.1, ⟨q, hq, rfl⟩, haq⟩, h⟩
  have hnd1 : S1.Nodup := by rw [← hS1]; exact nodup_summedLabels _ _
  have hnd2 : S2.Nodup := by rw [← hS2]; exact nodup_summedLabels _ _
  have hndst : Sst.Nodup := by rw [← hSst]; exact nodup_summedLabels _ _
  have hperm : S2.Perm (S1 ++ Sst) := by
    rw [List.perm_ext_iff_of_nodup hnd2]
    · intro a
      rw [List.mem_append, hmem1, hmem2, hmemst, hO]
      constructor
      · rintro ⟨h, hF'⟩
        by_cases hB : ∃ q ∈ rest, a ∈ q.1
        · exact Or.inl ⟨Or.inl hB, hF'⟩
        · rcases h with h | h
          · exact Or.inr ⟨h, fun hh => hh.2.elim hF' hB⟩
          · exact absurd h hB
      · rintro (⟨h, hF'⟩ | ⟨h, hno⟩)
        · refine ⟨?_, hF'⟩
          rcases h with h | h
          · exact Or.inr h
          · exact Or.inl h.1
        · refine ⟨Or.inl h, ?_⟩
          intro hF'
          exact hno ⟨h, Or.inl hF'⟩
    · rw [List.nodup_append]
      refine ⟨hnd1, hndst, ?_⟩
      intro a ha b hb hab
      subst hab
      rw [hmem1] at ha
      rw [hmemst, hO] at hb
      rcases ha.1 with h | h
      · exact hb.2 ⟨hb.1, Or.inr h⟩
      · rw [hO] at h
        exact hb.2 h
  rw [sumLabels_perm sizes _ hperm hnd2, sumLabels_append]
  apply sumLabels_congr
  intro e hagree hrange
  -- `e` respects the sizes on O
  have hrangeO : ∀ x ∈ O, e x < sizes x := by
    intro x hx
    by_cases hxF : x ∈ F
    · have hx1 : x ∉ S1 := fun h => ((hmem1 x).mp h).2 hxF
      rw [hagree x hx1, ← he0]
      exact envOfList_lt sizes F oi _ hF hoi x hxF
    · exact hrange x ((hmem1 x).mpr ⟨Or.inr hx, hxF⟩)
  have hne1 : rest ++ [(O, T')] ≠ [] := by simp
  have hne2 : part ++ rest ≠ [] := by simp [hpart]
  rw [termProd_eq_tp _ hne1]
  have hfun : (termProd (part ++ rest)) = fun e' => tp rest e' * tp part e' := by
    funext e'
    rw [termProd_eq_tp _ hne2]
    unfold tp
    rw [List.map_append, List.prod_append, mul_comm]
  rw [hfun, sumLabels_mul_left]
  · -- the new operand
    have hT'get : bget T' O e = sumLabels sizes Sst e (tp part) := by
      have hshape : T'.shape = O.map sizes := by rw [← hT']; rfl
      rw [bget_eq sizes T' O e hshape hrangeO, ← hT']
      unfold einsumRef
      rw [get_ofFn _ _ _ (inRange_map sizes e O hrangeO), hSst]
      have hfun2 : termProd part = tp part := by
        funext e'
        exact termProd_eq_tp _ hpart e'
      rw [hfun2]
      apply sumLabels_env_congr sizes (tp part) (fun x => ∃ p ∈ part, x ∈ p.1)
      · intro e1 e2 h
        exact tp_congr part e1 e2 h
      · intro x hx hxst
        have hxO : x ∈ O := by
          by_contra hno
          exact hxst ((hmemst x).mpr ⟨hx, hno⟩)
        exact envOfList_map_self e O _ hOnd x hxO
    unfold tp at hT'get ⊢
    rw [List.map_append, List.prod_append, List.map_cons, List.map_nil, List.prod_cons, List.prod_nil, mul_one]
    simp only
    rw [hT'get]
  · intro e' l v hl
    apply tp_congr
    intro x hx
    have hxne : x ≠ l := by
      intro h
      subst h
      have := (hmemst x).mp hl
      exact this.2 ((hO x).mpr ⟨this.1, Or.inr hx⟩)
    exact upd_of_ne _ _ _ _ hxne

/-- the reference does not depend on the order of the operands -/
theorem einsumRef_perm (sizes : Idx → Nat) (ops1 ops2 : List (List Idx × Tensor R)) (F : List Idx)
    (hp : ops1.Perm ops2) (hne : ops1 ≠ []) : einsumRef sizes ops1 F = einsumRef sizes ops2 F := by
  have hne2 : ops2 ≠ [] := by
    intro h
    subst h
    exact hne hp.eq_nil
  unfold einsumRef
  apply ofFn_congr
  intro oi _
  have hperm : (summedLabels (ops1.map (·.1)) F).Perm (summedLabels (ops2.map (·.1)) F) := by
    rw [List.perm_ext_iff_of_nodup (nodup_summedLabels _ _) (nodup_summedLabels _ _)]
    intro a
    rw [mem_summedLabels, mem_summedLabels]
    have : ∀ l, l ∈ ops1.map (·.1) ↔ l ∈ ops2.map (·.1) := fun l => (hp.map _).mem_iff
    simp only [this]
  rw [sumLabels_perm sizes _ hperm (nodup_summedLabels _ _)]
  congr 1
  funext e
  rw [termProd_eq_tp _ hne, termProd_eq_tp _ hne2]
  exact (hp.map _).prod_eq

end

theorem filterMap_getElem?_range {α : Type} : ∀ (data : List α),
    (List.range data.length).filterMap (fun i => data[i]?) = data
  | [] => by simp
  | x :: xs => by
    rw [List.length_cons, List.range_succ_eq_map, List.filterMap_cons]
    simp only [List.getElem?_cons_zero, List.filterMap_map]
    congr 1
    have := filterMap_getElem?_range xs
    conv_rhs => rw [← this]
    apply List.filterMap_congr
    intro i _
    simp

/-- the operands taken by a step and the remaining ones are a rearrangement of all operands -/
theorem perm_split {α : Type} (data : List α) (pos : List Nat) (hnd : pos.Nodup) (hlt : ∀ i ∈ pos, i < data.length) :
    data.Perm (pos.filterMap (fun i => data[i]?) ++ removePositions data pos) := by
  unfold removePositions
  have h1 : pos.Perm ((List.range data.length).filter fun i => pos.contains i) := by
    rw [List.perm_ext_iff_of_nodup hnd (List.nodup_range.filter _)]
    intro i
    simp only [List.mem_filter, List.mem_range, List.contains_iff_mem]
    exact ⟨fun h => ⟨hlt i h, h⟩, fun h => h.2⟩
  have h2 := (List.filter_append_perm (fun i => pos.contains i) (List.range data.length)).symm
  have h3 := h2.filterMap (fun i => data[i]?)
  rw [filterMap_getElem?_range, List.filterMap_append] at h3
  exact h3.trans ((h1.symm.filterMap _).append_right _)

section
variable {R : Type} [CommSemiring R]

/-- **Induction over the path**: every pass of the loop `for idx in path:` preserves the reference contraction of
    the current operand list, for every sequence of position tuples. -/
theorem loop_ok (sizes key : Idx → Nat) (F : List Idx) (hF : F.Nodup) :
    ∀ (path : List (List Nat)) (data data' : List (List Idx × Tensor R)),
    (∀ p ∈ data, p.2.shape = p.1.map sizes) →
    loop sizes key F path data = .ok data' →
    einsumRef sizes data' F = einsumRef sizes data F ∧ (∀ p ∈ data', p.2.shape = p.1.map sizes)
  | [], data, data', hsh, h => by
    simp only [loop, Except.ok.injEq] at h
    rw [← h]
    exact ⟨rfl, hsh⟩
  | pos :: path, data, data', hsh, h => by
    unfold loop at h
    by_cases hbad : (pos.any (· ≥ data.length) || pos.isEmpty || hasDup pos) = true
    · rw [if_pos hbad] at h; simp at h
    · rw [if_neg hbad] at h
      simp only [Bool.or_eq_true, not_or, Bool.not_eq_true] at hbad
      obtain ⟨⟨hlt', hne'⟩, hnd'⟩ := hbad
      have hposnd : pos.Nodup := nodup_of_hasDup_false pos hnd'
      have hlt : ∀ i ∈ pos, i < data.length := by
        intro i hi
        by_contra hc
        have : pos.any (· ≥ data.length) = true := List.any_eq_true.mpr ⟨i, hi, by simpa using hc⟩
        rw [this] at hlt'
        exact absurd hlt' (by simp)
      have hposne : pos ≠ [] := by
        intro h0; subst h0; simp at hne'
      simp only at h
      generalize hpart : (pos.filterMap fun i => data[i]?) = part at h
      generalize hrest : removePositions data pos = rest at h
      generalize hlab : labelSet (part.map (·.1)).flatten = labels at h
      generalize hkeep : F ++ (rest.map (·.1)).flatten = keep at h
      generalize houtSet : labels.filter (keep.contains ·) = outSet at h
      by_cases hkd : keysDistinct key outSet = true
      · simp only [hkd, Bool.not_true, Bool.false_eq_true, if_false] at h
        generalize hout : sortBy key outSet = outIdx at h
        cases hstep : stepReduceSum sizes key part outIdx with
        | error e => rw [hstep] at h; simp at h
        | ok r =>
          obtain ⟨O', t⟩ := r
          rw [hstep] at h
          simp only at h
          have hperm := perm_split data pos hposnd hlt
          rw [hpart, hrest] at hperm
          have hsubpart : ∀ p ∈ part, p ∈ data := fun p hp => hperm.mem_iff.mpr (List.mem_append_left _ hp)
          have hsubrest : ∀ p ∈ rest, p ∈ data := fun p hp => hperm.mem_iff.mpr (List.mem_append_right _ hp)
          have hpartne : part ≠ [] := by
            obtain ⟨i, pos', rfl⟩ := List.exists_cons_of_ne_nil hposne
            have hi := hlt i List.mem_cons_self
            rw [← hpart, List.filterMap_cons, List.getElem?_eq_getElem hi]
            simp
          have hlabnd : labels.Nodup := by rw [← hlab]; exact nodup_labelSet _
          have hmemlab : ∀ a, a ∈ labels ↔ ∃ p ∈ part, a ∈ p.1 := by
            intro a
            rw [← hlab, mem_labelSet, List.mem_flatten]
            constructor
            · rintro ⟨l, hl, ha⟩
              obtain ⟨p, hp, rfl⟩ := List.mem_map.mp hl
              exact ⟨p, hp, ha⟩
            · rintro ⟨p, hp, ha⟩
              exact ⟨p.1, List.mem_map.mpr ⟨p, hp, rfl⟩, ha⟩
          have houtSetnd : outSet.Nodup := by rw [← houtSet]; exact hlabnd.filter _
          have hpermout : outIdx.Perm outSet := by rw [← hout]; exact perm_sortBy key outSet
          have houtnd : outIdx.Nodup := hpermout.nodup_iff.mpr houtSetnd
          have hmemout : ∀ a, a ∈ outIdx ↔ (∃ p ∈ part, a ∈ p.1) ∧ (a ∈ F ∨ ∃ q ∈ rest, a ∈ q.1) := by
            intro a
            rw [hpermout.mem_iff, ← houtSet, List.mem_filter, hmemlab, List.contains_iff_mem, ← hkeep,
              List.mem_append, List.mem_flatten]
            constructor
            · rintro ⟨h1, h2⟩
              refine ⟨h1, ?_⟩
              rcases h2 with h2 | ⟨l, hl, ha⟩
              · exact Or.inl h2
              · obtain ⟨q, hq, rfl⟩ := List.mem_map.mp hl
                exact Or.inr ⟨q, hq, ha⟩
            · rintro ⟨h1, h2⟩
              refine ⟨h1, ?_⟩
              rcases h2 with h2 | ⟨q, hq, ha⟩
              · exact Or.inl h2
              · exact Or.inr ⟨q.1, List.mem_map.mpr ⟨q, hq, rfl⟩, ha⟩
          -- the step returns the reference contraction of the group, laid out along outIdx
          have ht := stepReduceSum_ok sizes key part outIdx O' t (fun p hp => hsh p (hsubpart p hp)) hstep
          have hO' : O' = outIdx := by
            rcases stepReduceSum_labels sizes key part outIdx O' t hstep with h1 | ⟨hk, h2⟩
            · exact h1
            · rw [hlab] at hk h2
              have hinj := injOn_of_keysDistinct key labels hk
              have hsub : ∀ a ∈ outSet, a ∈ labels := by
                intro a ha
                rw [← houtSet] at ha
                exact (List.mem_filter.mp ha).1
              have h3 := sortBy_eq_filter key labels outSet hinj hlabnd houtSetnd hsub
              rw [h2]
              have hfc : List.filter (fun x => outIdx.contains x) (sortBy key labels)
                  = List.filter (fun a => outSet.contains a) (sortBy key labels) := by
                apply List.filter_congr
                intro x _
                have hiff : x ∈ outIdx ↔ x ∈ outSet := hpermout.mem_iff
                by_cases hx : x ∈ outSet
                · simp [hx, hiff.mpr hx]
                · have hx' : x ∉ outIdx := fun h => hx (hiff.mp h)
                  simp [hx, hx']
              rw [hfc, ← h3, hout]
          rw [hO'] at ht
          have hshnew : ∀ p ∈ rest ++ [(outIdx, t)], p.2.shape = p.1.map sizes := by
            intro p hp
            rcases List.mem_append.mp hp with hp | hp
            · exact hsh p (hsubrest p hp)
            · rw [List.mem_singleton] at hp
              subst hp
              rw [ht]
              rfl
          have ih := loop_ok sizes key F hF path _ data' hshnew h
          refine ⟨?_, ih.2⟩
          rw [ih.1, ht, einsumRef_contract sizes part rest F outIdx hpartne hF houtnd hmemout]
          exact (einsumRef_perm sizes data (part ++ rest) F hperm
            (by intro h0; subst h0; simp at hperm; exact hpartne hperm.1)).symm
      · simp [hkd] at h

/-- when the loop ends with the single operand laid out along the output labels, its entries are those of the
    reference contraction of the original operands -/
theorem loop_single (sizes key : Idx → Nat) (F : List Idx) (hF : F.Nodup) (path : List (List Nat))
    (data : List (List Idx × Tensor R)) (t : Tensor R)
    (hsh : ∀ p ∈ data, p.2.shape = p.1.map sizes)
    (h : loop sizes key F path data = .ok [(F, t)]) :
    t.shape = (einsumRef sizes data F).shape ∧
    ∀ oi, InRange (F.map sizes) oi → t.get oi = (einsumRef sizes data F).get oi := by
  obtain ⟨h1, h2⟩ := loop_ok sizes key F hF path data _ hsh h
  have hts : t.shape = F.map sizes := h2 (F, t) (by simp)
  refine ⟨by rw [hts]; rfl, ?_⟩
  intro oi hoi
  rw [← h1]
  unfold einsumRef
  rw [get_ofFn _ _ _ hoi]
  have hS : summedLabels ([(F, t)].map (·.1)) F = [] := by
    apply List.eq_nil_iff_forall_not_mem.mpr
    intro a ha
    rw [mem_summedLabels] at ha
    obtain ⟨⟨l, hl, hal⟩, hno⟩ := ha
    simp only [List.map_cons, List.map_nil, List.mem_singleton] at hl
    subst hl
    exact hno hal
  rw [hS]
  simp only [sumLabels, termProd, List.map_cons, List.map_nil, prodL]
  have hlt : ∀ l ∈ F, envOfList F oi (fun _ => 0) l < sizes l := envOfList_lt sizes F oi _ hF hoi
  rw [bget_eq sizes t F _ hts hlt, map_envOfList F oi _ hF]
  rw [length_of_inRange _ _ hoi, List.length_map]

end

end TfPwaV.Einsum
