import Mathlib.Algebra.BigOperators.Group.Finset.Basic
import Mathlib.Algebra.BigOperators.Ring.Finset
import Mathlib.Data.Nat.Choose.Sum
import Mathlib.Tactic.Ring
import Mathlib.Algebra.Polynomial.Coeff
import Mathlib.Algebra.Polynomial.Eval.Defs
open Finset BigOperators

/-!
Generic algebra behind `D(R₁)D(R₂) = D(R₁R₂)` (C12): the coefficient matrices `Zc` of the action of a 2×2 matrix on
homogeneous polynomials of degree `N` compose like the matrices.  Any commutative ring, any `N`.
-/
namespace TfPwaV.ZHom
variable {R : Type*} [CommRing R]

/-- coefficient of `P^l Q^(N-l)` in `(a P + b Q)^k (c P + d Q)^(N-k)` -/
def Zc (a b c d : R) (N k l : ℕ) : R :=
  ∑ i ∈ range (k + 1), ∑ j ∈ range (N - k + 1),
    if i + j = l then (a ^ i * b ^ (k - i) * (k.choose i : R)) * (c ^ j * d ^ (N - k - j) * ((N - k).choose j : R)) else 0

theorem expand (a b c d P Q : R) (N k : ℕ) (hk : k ≤ N) :
    (a * P + b * Q) ^ k * (c * P + d * Q) ^ (N - k) =
      ∑ l ∈ range (N + 1), Zc a b c d N k l * (P ^ l * Q ^ (N - l)) := by
  unfold Zc
  rw [add_pow, add_pow, Finset.sum_mul_sum]
  simp_rw [Finset.sum_mul]
  conv_rhs => rw [Finset.sum_comm]
  refine Finset.sum_congr rfl fun i hi => ?_
  conv_rhs => rw [Finset.sum_comm]
  refine Finset.sum_congr rfl fun j hj => ?_
  have hi' : i ≤ k := by simpa [Nat.lt_succ_iff] using hi
  have hj' : j ≤ N - k := by simpa [Nat.lt_succ_iff] using hj
  have hij : i + j < N + 1 := by omega
  rw [Finset.sum_eq_single (i + j)]
  · rw [if_pos rfl]
    have e1 : N - (i + j) = (k - i) + (N - k - j) := by omega
    rw [e1]
    ring
  · intro l _ hne
    rw [if_neg (Ne.symm hne), zero_mul]
  · intro h
    exact absurd (mem_range.mpr hij) h

open Polynomial in
theorem Zc_C (a b c d : R) (N k l : ℕ) :
    Zc (C a) (C b) (C c) (C d) N k l = C (Zc a b c d N k l) := by
  unfold Zc
  simp only [map_sum]
  refine Finset.sum_congr rfl fun i _ => Finset.sum_congr rfl fun j _ => ?_
  split_ifs <;> simp

open Polynomial in
/-- **homomorphism**: the coefficient matrices compose like the 2×2 matrices (row convention) -/
theorem Z_hom (a b c d a' b' c' d' : R) (N k m : ℕ) (hk : k ≤ N) (hm : m ≤ N) :
    ∑ l ∈ range (N + 1), Zc a b c d N k l * Zc a' b' c' d' N l m =
      Zc (a * a' + b * c') (a * b' + b * d') (c * a' + d * c') (c * b' + d * d') N k m := by
  set P : R[X] := C a' * X + C b' * 1 with hP
  set Q : R[X] := C c' * X + C d' * 1 with hQ
  have E1 := expand (C a) (C b) (C c) (C d) P Q N k hk
  have E2 := expand (C (a * a' + b * c')) (C (a * b' + b * d')) (C (c * a' + d * c')) (C (c * b' + d * d'))
    (X : R[X]) 1 N k hk
  have hL : (C a * P + C b * Q) ^ k * (C c * P + C d * Q) ^ (N - k) =
      (C (a * a' + b * c') * X + C (a * b' + b * d') * 1) ^ k *
        (C (c * a' + d * c') * X + C (c * b' + d * d') * 1) ^ (N - k) := by
    simp only [hP, hQ, map_add, map_mul]
    congr 2 <;> ring
  rw [hL, E2] at E1
  -- expand the inner products
  have E3 : ∀ l ∈ range (N + 1), Zc (C a) (C b) (C c) (C d) N k l * (P ^ l * Q ^ (N - l)) =
      ∑ m' ∈ range (N + 1), C (Zc a b c d N k l * Zc a' b' c' d' N l m') * X ^ m' := by
    intro l hl
    have hl' : l ≤ N := by simpa [Nat.lt_succ_iff] using hl
    rw [hP, hQ, expand (C a') (C b') (C c') (C d') (X : R[X]) 1 N l hl', Finset.mul_sum]
    refine Finset.sum_congr rfl fun m' _ => ?_
    rw [Zc_C, Zc_C, one_pow, mul_one, ← mul_assoc, ← C_mul]
  rw [Finset.sum_congr rfl E3] at E1
  have hc := congrArg (fun p : R[X] => p.coeff m) E1
  simp only [Zc_C, one_pow, mul_one, finsetSum_coeff, coeff_C_mul, coeff_X_pow] at hc
  have hm' : m ∈ range (N + 1) := mem_range.mpr (by omega)
  simp only [mul_ite, mul_one, mul_zero, Finset.sum_ite_eq, hm', if_true] at hc
  exact hc.symm

/-- `Zc` commutes with ring homomorphisms -/
theorem Zc_map {S : Type*} [CommRing S] (f : R →+* S) (a b c d : R) (N k l : ℕ) :
    Zc (f a) (f b) (f c) (f d) N k l = f (Zc a b c d N k l) := by
  unfold Zc
  simp only [map_sum]
  refine Finset.sum_congr rfl fun i _ => Finset.sum_congr rfl fun j _ => ?_
  split_ifs <;> simp

/-- diagonal matrices act diagonally: `Z(diag(p,t))_{kl} = δ_{kl} p^k t^(N-k)` -/
theorem Zc_diag (p t : R) (N k l : ℕ) (hk : k ≤ N) :
    Zc p 0 0 t N k l = if k = l then p ^ k * t ^ (N - k) else 0 := by
  unfold Zc
  rw [Finset.sum_eq_single k]
  · rw [Finset.sum_eq_single 0]
    · simp
    · intro j _ hj
      split_ifs
      · simp [zero_pow hj]
      · rfl
    · intro h; exact absurd (mem_range.mpr (by omega)) h
  · intro i hi hik
    have : i < k := by
      have := mem_range.mp hi; omega
    refine Finset.sum_eq_zero fun j _ => ?_
    split_ifs
    · have : k - i ≠ 0 := by omega
      simp [zero_pow this]
    · rfl
  · intro h; exact absurd (mem_range.mpr (by omega)) h
end TfPwaV.ZHom
