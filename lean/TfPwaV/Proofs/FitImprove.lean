import TfPwaV.Gen.FitImproveR
import Mathlib.Tactic.Linarith
import Mathlib.Tactic.NormNum
/-! Helper lemmas for `Props/C08b.lean`: the successor relation of the body of `fmin_bfgs_f`, invariants along the loop,
`Seq` / `max`, `Cached_FG`, `line_search_nonmonote` (all over ℝ, instance `FitImproveR`). -/
open TfPwaV.ScalarR

namespace TfPwaV.FitImproveR

/-! ## `Seq` and `max` -/

theorem foldmax_mem (x : K) (xs : List K) :
    xs.foldl (fun m v => if v > m then v else m) x ∈ x :: xs := by
  induction xs generalizing x with
  | nil => simp
  | cons y ys ih =>
    simp only [List.foldl_cons]
    by_cases hyx : y > x
    · rw [if_pos hyx]
      rcases List.mem_cons.1 (ih y) with h | h
      · rw [h]; simp
      · exact List.mem_cons_of_mem _ (List.mem_cons_of_mem _ h)
    · rw [if_neg hyx]
      rcases List.mem_cons.1 (ih x) with h | h
      · rw [h]; simp
      · exact List.mem_cons_of_mem _ (List.mem_cons_of_mem _ h)

theorem foldmax_ge_init (x : K) (xs : List K) : x ≤ xs.foldl (fun m v => if v > m then v else m) x := by
  induction xs generalizing x with
  | nil => simp
  | cons y ys ih =>
    simp only [List.foldl_cons]
    refine le_trans ?_ (ih _)
    split
    · exact le_of_lt ‹_›
    · exact le_refl _

theorem foldmax_ge (x : K) (xs : List K) (v : K) (hv : v ∈ xs) :
    v ≤ xs.foldl (fun m v => if v > m then v else m) x := by
  induction xs generalizing x with
  | nil => simp at hv
  | cons y ys ih =>
    simp only [List.foldl_cons]
    rcases List.mem_cons.1 hv with h | h
    · subst h
      refine le_trans ?_ (foldmax_ge_init _ _)
      split
      · exact le_refl _
      · exact not_lt.1 ‹_›
    · exact ih _ h

theorem lmax_mem {l : List K} (h : l ≠ []) : lmax l ∈ l := by
  cases l with
  | nil => exact absurd rfl h
  | cons x xs => exact foldmax_mem x xs

theorem le_lmax {l : List K} {v : K} (h : v ∈ l) : v ≤ lmax l := by
  cases l with
  | nil => simp at h
  | cons x xs =>
    rcases List.mem_cons.1 h with h | h
    · subst h; exact foldmax_ge_init _ _
    · exact foldmax_ge x xs v h

theorem mem_seqAdd {M : Nat} {l : List K} {x v : K} (h : v ∈ seqAdd M l x) : v ∈ l ∨ v = x := by
  unfold seqAdd at h
  split at h
  · have := List.mem_of_mem_drop h
    simpa using this
  · simpa using h

theorem seqAdd_last {M : Nat} (hM : 1 ≤ M) (l : List K) (x : K) : x ∈ seqAdd M l x := by
  unfold seqAdd
  split
  · cases l with
    | nil => simp at *; omega
    | cons y ys => simp
  · simp

theorem seqAdd_ne_nil {M : Nat} (hM : 1 ≤ M) (l : List K) (x : K) : seqAdd M l x ≠ [] :=
  List.ne_nil_of_mem (seqAdd_last hM l x)

/-- the window never holds more than `size` values -/
theorem seqAdd_length {M : Nat} (_hM : 1 ≤ M) {l : List K} (x : K) (h : l.length ≤ M) : (seqAdd M l x).length ≤ M := by
  unfold seqAdd
  split
  · simp; omega
  · rename_i h2; simp at h2 ⊢; omega

/-! ## the body of the loop: which states can follow -/

/-- `s'` follows `s` (the state after the best-point update at the top of the body) in iteration `k` -/
inductive Succ (e : Env) (k : Nat) (s s' : St) : Prop
  | fb (oo : K) (n : Nat)
      (hr : s.seq.isEmpty = true ∨ (∃ m, e.ls k (lsIn s) = .exc m) ∨ ∃ nf ofv g m, e.ls k (lsIn s) = .ans none nf ofv g m)
      (h : s' = fbSt e s (lsIn s).pk oo n)
  | acc (a nf ofv : K) (g : Vec) (n : Nat) (hne : s.seq.isEmpty = false)
      (hl : e.ls k (lsIn s) = .ans (some a) nf ofv g n) (h : s' = accSt e k s (lsIn s).pk a nf ofv g n)

theorem fallback_cont {e : Env} {s : St} {d : Vec} {oo : K} {n : Nat} {s' : St}
    (h : fallback e s d oo n = .cont s') : s' = fbSt e s d oo n := by
  unfold fallback at h; split at h <;> simp_all

theorem fallback_stop {e : Env} {s : St} {d : Vec} {oo : K} {n : Nat} {s' : St} {fl : Nat} {fu : Bool}
    (h : fallback e s d oo n = .stop s' fl fu) : s' = fbSt e s d oo n ∧ fl = 1 ∧ fu = true ∧ s'.reSearch > 2 := by
  unfold fallback at h; split at h
  · rename_i hgt
    simp only [Step.stop.injEq] at h
    obtain ⟨h1, h2, h3⟩ := h
    subst h1; exact ⟨rfl, h2.symm, h3.symm, hgt⟩
  · simp at h

theorem fallback_not_raise {e : Env} {s : St} {d : Vec} {oo : K} {n : Nat} {m : String} :
    fallback e s d oo n ≠ .raise m := by
  unfold fallback; split <;> simp

theorem accept_cont {e : Env} {k : Nat} {s : St} {p : Vec} {a nf ofv : K} {g : Vec} {n : Nat} {s' : St}
    (h : accept e k s p a nf ofv g n = .cont s') : s' = accSt e k s p a nf ofv g n := by
  unfold accept at h; split at h <;> simp_all

theorem accept_not_stop {e : Env} {k : Nat} {s : St} {p : Vec} {a nf ofv : K} {g : Vec} {n : Nat} {s' : St} {fl : Nat}
    {fu : Bool} : accept e k s p a nf ofv g n ≠ .stop s' fl fu := by
  unfold accept; split <;> simp

theorem body_cont {e : Env} {k : Nat} {s0 s' : St} (h : body e k s0 = .cont s') : Succ e k (updBest e s0) s' := by
  unfold body at h
  simp only at h
  split at h
  · simp at h
  · by_cases hem : (updBest e s0).seq.isEmpty = true
    · rw [if_pos hem] at h
      exact .fb _ _ (Or.inl hem) (fallback_cont h)
    · rw [if_neg hem] at h
      split at h
      · rename_i n heq
        exact .fb _ _ (Or.inr (Or.inl ⟨n, heq⟩)) (fallback_cont h)
      · rename_i nf ofv g n heq
        exact .fb _ _ (Or.inr (Or.inr ⟨nf, ofv, g, n, heq⟩)) (fallback_cont h)
      · rename_i a nf ofv g n heq
        exact .acc a nf ofv g n (by simpa using hem) heq (accept_cont h)

theorem body_stop {e : Env} {k : Nat} {s0 s' : St} {fl : Nat} {fu : Bool} (h : body e k s0 = .stop s' fl fu) :
    (s' = updBest e s0 ∧ fl = 0 ∧ fu = false ∧ normInfLe s'.gk e.gtol = true) ∨
    (Succ e k (updBest e s0) s' ∧ fl = 1 ∧ fu = true ∧ s'.reSearch > 2) := by
  unfold body at h
  simp only at h
  split at h
  · rename_i hg
    simp only [Step.stop.injEq] at h
    obtain ⟨h1, h2, h3⟩ := h
    subst h1
    exact Or.inl ⟨rfl, h2.symm, h3.symm, hg⟩
  · right
    by_cases hem : (updBest e s0).seq.isEmpty = true
    · rw [if_pos hem] at h
      obtain ⟨h1, h2, h3, h4⟩ := fallback_stop h
      exact ⟨.fb _ _ (Or.inl hem) h1, h2, h3, h4⟩
    · rw [if_neg hem] at h
      split at h
      · rename_i n heq
        obtain ⟨h1, h2, h3, h4⟩ := fallback_stop h
        exact ⟨.fb _ _ (Or.inr (Or.inl ⟨n, heq⟩)) h1, h2, h3, h4⟩
      · rename_i nf ofv g n heq
        obtain ⟨h1, h2, h3, h4⟩ := fallback_stop h
        exact ⟨.fb _ _ (Or.inr (Or.inr ⟨nf, ofv, g, n, heq⟩)) h1, h2, h3, h4⟩
      · exact absurd h accept_not_stop

/-- an invariant kept by the best-point update and by every successor holds in the state the loop ends in -/
theorem loop_inv {e : Env} (P : St → Prop) (hU : ∀ s, P s → P (updBest e s))
    (hS : ∀ k s s', P s → Succ e k s s' → P s') :
    ∀ (n k : Nat) (s : St) (o : Out), P s → loop e n k s = .ok o → P o.s := by
  intro n
  induction n with
  | zero =>
    intro k s o hp h
    simp only [loop, Except.ok.injEq] at h
    subst h; exact hp
  | succ n ih =>
    intro k s o hp h
    simp only [loop] at h
    split at h
    · rename_i s' hb
      exact ih _ _ _ (hS k _ _ (hU _ hp) (body_cont hb)) h
    · rename_i s' fl fu hb
      simp only [Except.ok.injEq] at h
      subst h
      rcases body_stop hb with ⟨h1, _⟩ | ⟨h1, _⟩
      · simp only [h1]; exact hU _ hp
      · exact hS k _ _ (hU _ hp) h1
    · simp at h

/-- states at the top of a loop body -/
inductive Reach (e : Env) (s0 : St) : Nat → St → Prop
  | init : Reach e s0 0 s0
  | step {k : Nat} {s s' : St} : Reach e s0 k s → body e k s = .cont s' → Reach e s0 (k + 1) s'

theorem reach_inv {e : Env} {s0 : St} (P : St → Prop) (hU : ∀ s, P s → P (updBest e s))
    (hS : ∀ k s s', P s → Succ e k s s' → P s') (h0 : P s0) {k : Nat} {s : St} (h : Reach e s0 k s) : P s := by
  induction h with
  | init => exact h0
  | step _ hb ih => exact hS _ _ _ (hU _ ih) (body_cont hb)

/-! ## bookkeeping of the exits -/

theorem loop_exits {e : Env} : ∀ (n k : Nat) (s : St) (o : Out), loop e n k s = .ok o →
    o.nit ≤ k + n - 1 ∧ o.bodies ≤ k + n ∧ k ≤ o.bodies ∧
    ((o.flag = 2 ∧ o.nit = k + n - 1 ∧ o.bodies = k + n) ∨
     (o.flag = 0 ∧ o.bodies = o.nit ∧ o.nit < k + n ∧ normInfLe o.s.gk e.gtol = true ∧ ∃ s1, o.s = updBest e s1) ∨
     (o.flag = 1 ∧ o.bodies = o.nit + 1 ∧ o.nit < k + n ∧ o.s.reSearch > 2)) := by
  intro n
  induction n with
  | zero =>
    intro k s o h
    simp only [loop, Except.ok.injEq] at h
    subst h
    exact ⟨by simp, by simp, by simp, Or.inl ⟨rfl, by simp, by simp⟩⟩
  | succ n ih =>
    intro k s o h
    simp only [loop] at h
    split at h
    · rename_i s' hb
      obtain ⟨h1, h2, h3, h4⟩ := ih _ _ _ h
      refine ⟨by omega, by omega, by omega, ?_⟩
      rcases h4 with ⟨a, b, c⟩ | ⟨a, b, c, d⟩ | ⟨a, b, c, d⟩
      · exact Or.inl ⟨a, by omega, by omega⟩
      · exact Or.inr (Or.inl ⟨a, b, by omega, d⟩)
      · exact Or.inr (Or.inr ⟨a, b, by omega, d⟩)
    · rename_i s' fl fu hb
      simp only [Except.ok.injEq] at h
      subst h
      rcases body_stop hb with ⟨h1, h2, h3, h4⟩ | ⟨h1, h2, h3, h4⟩
      · subst h2 h3
        refine ⟨by simp, by simp, by simp, Or.inr (Or.inl ⟨rfl, by simp, by simp, h4, _, h1⟩)⟩
      · subst h2 h3
        refine ⟨by simp, by simp, by simp, Or.inr (Or.inr ⟨rfl, by simp, by simp, h4⟩)⟩
    · simp at h

/-! ## consistency of value, gradient and point -/

/-- what `line_search_wolfe2` promises about an answer with a step: the value and the gradient belong to `xk + alpha pk` -/
def Contract (e : Env) : Prop :=
  ∀ k inp a nf ofv g n, e.ls k inp = .ans (some a) nf ofv g n →
    nf = (e.fg (vadd inp.xk (smul a inp.pk))).1 ∧ g = (e.fg (vadd inp.xk (smul a inp.pk))).2

/-- the stored value / gradient are those of the stored point, for the current and for the best triple -/
def Cons (e : Env) (s : St) : Prop :=
  s.fk = (e.fg s.xk).1 ∧ s.gk = (e.fg s.xk).2 ∧ s.bf = (e.fg s.bx).1 ∧ s.bg = (e.fg s.bx).2

theorem updBest_cons {e : Env} {s : St} (h : Cons e s) : Cons e (updBest e s) := by
  unfold updBest
  split
  · exact ⟨h.1, h.2.1, h.1, h.2.1⟩
  · exact h

theorem succ_cons {e : Env} (hc : Contract e) {k : Nat} {s s' : St} (h : Cons e s) (hs : Succ e k s s') : Cons e s' := by
  cases hs with
  | fb oo n _ h' => subst h'; exact ⟨rfl, rfl, h.2.2.1, h.2.2.2⟩
  | acc a nf ofv g n _ hl h' =>
    subst h'
    obtain ⟨h1, h2⟩ := hc _ _ _ _ _ _ _ hl
    exact ⟨h1, h2, h.2.2.1, h.2.2.2⟩

theorem init_cons (e : Env) (x0 : Vec) (H : Mat) : Cons e (init e x0 H) := ⟨rfl, rfl, rfl, rfl⟩

theorem fmin_ok {e : Env} {x0 : Vec} {mi : Option Nat} {r : Res} (h : fminBfgs e x0 mi = .ok r) :
    ∃ H o, e.inv 0 (eye x0.length) = some H ∧ loop e (mi.getD (200 * x0.length)) 0 (init e x0 H) = .ok o ∧ r = finish e o := by
  unfold fminBfgs at h
  split at h
  · simp at h
  · rename_i H hH
    split at h
    · rename_i o ho
      simp only [Except.ok.injEq] at h
      exact ⟨H, o, hH, ho, h.symm⟩
    · simp at h

theorem updBest_fk (e : Env) (s : St) : (updBest e s).fk = s.fk := by unfold updBest; split <;> rfl
theorem updBest_seq (e : Env) (s : St) : (updBest e s).seq = s.seq := by unfold updBest; split <;> rfl
theorem lsIn_updBest (e : Env) (s : St) : lsIn (updBest e s) = lsIn s := by unfold updBest; split <;> rfl

/-! ## `Cached_FG` -/

/-- the cache describes the point it is keyed on: value of that point, gradient of that point (raw or with the NaN
components patched by `__call__`) -/
def CacheInv (raw : Raw) (c : Cache) : Prop :=
  ∀ x, c.x = some x → c.f = (raw x).1 ∧ (c.g = (raw x).2 ∨ c.g = patch raw x (raw x).2)

theorem veq_eq : ∀ {a b : Vec}, veq a b = true → a = b
  | [], [], _ => rfl
  | x :: xs, y :: ys, h => by
    simp only [veq, Bool.and_eq_true, decide_eq_true_eq] at h
    rw [le_antisymm h.1.1 h.1.2, veq_eq h.2]
  | [], _ :: _, h => by simp [veq] at h
  | _ :: _, [], h => by simp [veq] at h

theorem patchAux_noNaN (raw : Raw) (x : Vec) : ∀ (i : Nat) (g : List (Option K)), hasNaN g = false → patchAux raw x i g = g
  | _, [], _ => rfl
  | i, none :: r, h => by simp [hasNaN] at h
  | i, some v :: r, h => by
    have h2 : hasNaN r = false := by simpa [hasNaN] using h
    simp only [patchAux, patchAux_noNaN raw x (i + 1) r h2]

theorem patchAux_hasNaN (raw : Raw) (x : Vec) : ∀ (i : Nat) (g : List (Option K)), hasNaN (patchAux raw x i g) = false
  | _, [] => rfl
  | i, none :: r => by
    have := patchAux_hasNaN raw x (i + 1) r
    simp only [hasNaN] at this ⊢
    simp [patchAux, this]
  | i, some v :: r => by
    have := patchAux_hasNaN raw x (i + 1) r
    simp only [hasNaN] at this ⊢
    simp [patchAux, this]

end TfPwaV.FitImproveR
