import TfPwaV.Gen.ErrPropR
import Mathlib.Analysis.SpecialFunctions.Pow.Deriv
import Mathlib.Analysis.SpecialFunctions.Log.Deriv
import Mathlib.Analysis.SpecialFunctions.ExpDeriv
import Mathlib.Algebra.BigOperators.Fin
import Mathlib.Algebra.BigOperators.Field
import Mathlib.Tactic.LinearCombination
import Mathlib.Tactic.FieldSimp
import Mathlib.Tactic.Positivity
/-! Helper lemmas for C09: list-shaped vectors of the model (`List.ofFn`) versus finite sums; square-root algebra. -/
open TfPwaV.ScalarR
namespace TfPwaV.ErrPropR

/-! ### lists built by `List.ofFn` versus `∑ i : Fin n` -/

theorem dot_ofFn : ∀ {n : Nat} (a b : Fin n → ℝ), dot (List.ofFn a) (List.ofFn b) = ∑ i, a i * b i
  | 0, a, b => by simp [dot]
  | n + 1, a, b => by
    rw [List.ofFn_succ, List.ofFn_succ, dot, dot_ofFn, Fin.sum_univ_succ]

theorem sumSq_ofFn : ∀ {n : Nat} (g e : Fin n → ℝ),
    sumSq (List.ofFn g) (List.ofFn e) = ∑ i, (g i) ^ 2 * (e i) ^ 2
  | 0, g, e => by simp [sumSq]
  | n + 1, g, e => by
    rw [List.ofFn_succ, List.ofFn_succ, sumSq, sumSq_ofFn, Fin.sum_univ_succ]
    unfold sq; ring

theorem zipWith_ofFn (f : ℝ → ℝ → ℝ) : ∀ {n : Nat} (a b : Fin n → ℝ),
    List.zipWith f (List.ofFn a) (List.ofFn b) = List.ofFn (fun i => f (a i) (b i))
  | 0, a, b => by simp
  | n + 1, a, b => by
    rw [List.ofFn_succ, List.ofFn_succ, List.zipWith_cons_cons, zipWith_ofFn f, List.ofFn_succ (f := fun i => f (a i) (b i))]

theorem vsub_ofFn {n : Nat} (a b : Fin n → ℝ) :
    vsub (List.ofFn a) (List.ofFn b) = List.ofFn (fun i => a i - b i) := zipWith_ofFn _ a b

theorem vadd_ofFn {n : Nat} (a b : Fin n → ℝ) :
    vadd (List.ofFn a) (List.ofFn b) = List.ofFn (fun i => a i + b i) := zipWith_ofFn _ a b

theorem fracGrad_ofFn {n : Nat} (Ii I : ℝ) (gi g : Fin n → ℝ) :
    fracGrad Ii I (List.ofFn gi) (List.ofFn g) = List.ofFn (fun k => gi k / I - (Ii / I) * g k / I) :=
  zipWith_ofFn _ gi g

theorem fracGradIJ_ofFn {n : Nat} (Iij I : ℝ) (gij g gfi gfj : Fin n → ℝ) :
    fracGradIJ Iij I (List.ofFn gij) (List.ofFn g) (List.ofFn gfi) (List.ofFn gfj)
      = List.ofFn (fun k => gij k / I - (Iij / I) * g k / I - gfi k - gfj k) := by
  unfold fracGradIJ
  rw [fracGrad_ofFn, vsub_ofFn, vsub_ofFn]

theorem matVec_ofFn {n m : Nat} (V : Fin m → Fin n → ℝ) (g : Fin n → ℝ) :
    matVec (List.ofFn fun i => List.ofFn (V i)) (List.ofFn g) = List.ofFn (fun i => ∑ j, V i j * g j) := by
  unfold matVec
  rw [List.map_ofFn]
  congr 1
  funext i
  exact dot_ofFn (V i) g

theorem quadForm_ofFn {n : Nat} (V : Fin n → Fin n → ℝ) (g : Fin n → ℝ) :
    quadForm (List.ofFn fun i => List.ofFn (V i)) (List.ofFn g) = ∑ i, ∑ j, g i * V i j * g j := by
  unfold quadForm
  rw [matVec_ofFn, dot_ofFn]
  apply Finset.sum_congr rfl
  intro i _
  rw [Finset.sum_mul, ]
  apply Finset.sum_congr rfl
  intro j _
  ring

theorem transErrorMatrix_ofFn {n : Nat} (d : Fin n → ℝ) (V : Fin n → Fin n → ℝ) :
    transErrorMatrix (List.ofFn d) (List.ofFn fun i => List.ofFn (V i))
      = List.ofFn fun i => List.ofFn fun j => d i * V i j * d j := by
  unfold transErrorMatrix
  have h : ∀ {m : Nat} (d' : Fin m → ℝ) (V' : Fin m → Fin n → ℝ),
      List.zipWith (fun di row => List.zipWith (fun vij dj => di * vij * dj) row (List.ofFn d))
        (List.ofFn d') (List.ofFn fun i => List.ofFn (V' i))
      = List.ofFn fun i => List.ofFn fun j => d' i * V' i j * d j := by
    intro m
    induction m with
    | zero => intro d' V'; simp
    | succ m ih =>
      intro d' V'
      rw [List.ofFn_succ, List.ofFn_succ, List.zipWith_cons_cons, ih, zipWith_ofFn,
        List.ofFn_succ (f := fun i => List.ofFn fun j => d' i * V' i j * d j)]
  exact h d V

theorem hesseError_ofFn {n : Nat} (v : Fin n → ℝ) :
    hesseError (List.ofFn v) = List.ofFn fun i => Real.sqrt |v i| := by
  unfold hesseError ksqrt kabs
  rw [List.map_ofFn]
  rfl

theorem sumK_ofFn : ∀ {m : Nat} (x : Fin m → ℝ), sumK (List.ofFn x) = ∑ k, x k
  | 0, x => by simp [sumK]
  | m + 1, x => by rw [List.ofFn_succ, sumK, sumK_ofFn, Fin.sum_univ_succ]

theorem sumV_ofFn {n : Nat} : ∀ {m : Nat} (G : Fin m → Fin n → ℝ),
    sumV n (List.ofFn fun k => List.ofFn (G k)) = List.ofFn fun j => ∑ k, G k j
  | 0, G => by
    simp only [List.ofFn_zero, sumV, Finset.univ_eq_empty, Finset.sum_empty]
    exact (List.ofFn_const n (0 : ℝ)).symm
  | m + 1, G => by
    rw [List.ofFn_succ, sumV, sumV_ofFn, vadd_ofFn]
    congr 1
    funext j
    rw [Fin.sum_univ_succ]

/-! ### square roots -/

theorem sqrt_sq_mul_sq (d e : ℝ) (he : 0 ≤ e) : Real.sqrt (d ^ 2 * e ^ 2) = |d| * e := by
  rw [← mul_pow, Real.sqrt_sq_eq_abs, abs_mul, abs_of_nonneg he]

theorem sqrt_div_abs (x y : ℝ) : Real.sqrt x / |y| = Real.sqrt (x / y ^ 2) := by
  rw [Real.sqrt_div' x (sq_nonneg y), Real.sqrt_sq_eq_abs]

end TfPwaV.ErrPropR
