import TfPwaV.Proofs.Fit
import TfPwaV.Proofs.VarsTied
/-! Helper lemmas for C08c (core Lean only): the frame of the repaired `standard_complex` (parts that are not free names,
parts named in `bounded`), `bound_name` routing of `set_bound`. -/
namespace TfPwaV.Fit
open TfPwaV.Vars

variable {V : Type}

/-- `forNames` keeps the object `c` when every step does, for states with the bindings / free list / groups of `s0` -/
theorem HF_forNames_skel (c : Nat) (f : State V → Name → State V × Bool) (s0 : State V) (l : List Name)
    (hf : ∀ s k, k ∈ l → s.skel = s0.skel → HF c s (f s k).1) (s : State V) (hs : s.skel = s0.skel) :
    HF c s (forNames f s l).1 := by
  induction l generalizing s with
  | nil => exact HF.refl c s
  | cons k t ih =>
    unfold forNames
    have h := hf s k (by simp) hs
    revert h
    cases f s k with
    | mk s1 ok =>
      intro h
      cases ok
      · exact h
      · exact HF.trans h (ih (fun s' k' hk' hs' => hf s' k' (by simp [hk']) hs') s1 (h.1.trans hs))

/-- **repaired `standard_complex` (`cfg.stdFree`)**: an object without a free name is never written -/
theorem HF_standardComplex_free (A : Arith V) (cfg : Cfg) (hsf : cfg.stdFree = true) (c : Nat) (s : State V)
    (bd : List Name) (h : FixedCell s c) : HF c s (standardComplex A cfg s bd).1 := by
  unfold standardComplex
  apply HF_forNames_skel c _ s (dkeys s.cplx) _ s rfl
  intro s' k _ hs'
  obtain ⟨_, etr, _, _⟩ := (skel_eq_iff _ _).1 hs'
  split
  · simp only
    split
    · exact HF.refl c s'
    · next hno =>
      simp only [hsf, Bool.true_and, Bool.or_eq_true, Bool.not_eq_true', Bool.and_eq_false_iff, decide_eq_false_iff_not,
        not_or, Bool.not_eq_true, Classical.not_not] at hno
      have hr : k ++ "r" ∈ s.trainable := by rw [← etr]; exact Classical.byContradiction fun hx => by simp_all
      have hi : k ++ "i" ∈ s.trainable := by rw [← etr]; exact Classical.byContradiction fun hx => by simp_all
      exact HF_stdPolar A cfg c s' k (by rw [cellOf_of_skel hs']; exact h _ hr) (by rw [cellOf_of_skel hs']; exact h _ hi)
  · exact HF.refl c s'

/-- every complex parameter with a part on the object `c` is skipped by `standard_complex(bounded)`: it has a part in a
tie group, or a part named in `bounded` -/
def Guarded (s : State V) (bd : List Name) (c : Nat) : Prop :=
  ∀ k ∈ dkeys s.cplx, (cellOf s (k ++ "r") = some c ∨ cellOf s (k ++ "i") = some c) →
    s.same.any (fun g => g.contains (k ++ "r") || g.contains (k ++ "i")) = true ∨ (k ++ "r") ∈ bd ∨ (k ++ "i") ∈ bd

theorem Guarded.of_notCplxPart {s : State V} {c : Nat} (h : NotCplxPart s c) (bd : List Name) : Guarded s bd c := by
  intro k hk hc
  have := h k hk
  rcases hc with hc | hc
  · exact absurd hc this.1
  · exact absurd hc this.2

/-- **`standard_complex(bounded)`**: the object of a part named in `bounded` (or of a tied part) is never written -/
theorem HF_standardComplex_guarded (A : Arith V) (cfg : Cfg) (c : Nat) (s : State V) (bd : List Name) (h : Guarded s bd c) :
    HF c s (standardComplex A cfg s bd).1 := by
  unfold standardComplex
  apply HF_forNames_skel c _ s (dkeys s.cplx) _ s rfl
  intro s' k hk hs'
  obtain ⟨_, _, esame, _⟩ := (skel_eq_iff _ _).1 hs'
  split
  · simp only
    split
    · exact HF.refl c s'
    · next hno =>
      have hg := h k hk
      rw [← esame] at hg
      refine HF_stdPolar A cfg c s' k ?_ ?_
      · intro e
        rcases hg (Or.inl (by rw [← cellOf_of_skel hs']; exact e)) with g | g | g
        · simp_all
          obtain ⟨x, hx, hx'⟩ := g
          have := hno.1.1.1.1.1 x hx
          rcases hx' with hx' | hx'
          · exact this.1 hx'
          · exact this.2 hx'
        · simp_all
        · simp_all
      · intro e
        rcases hg (Or.inr (by rw [← cellOf_of_skel hs']; exact e)) with g | g | g
        · simp_all
          obtain ⟨x, hx, hx'⟩ := g
          have := hno.1.1.1.1.1 x hx
          rcases hx' with hx' | hx'
          · exact this.1 hx'
          · exact this.2 hx'
        · simp_all
        · simp_all
  · exact HF.refl c s'

/-! ### `set_bound` after `fix_C08_set_bound_free_name.diff` -/

theorem dhas_foldl_dset {β : Type} (l : Dict β) (d : Dict β) (k : Name) :
    (dhas d k = true ∨ k ∈ dkeys l) → dhas (l.foldl (fun acc kv => dset acc kv.1 kv.2) d) k = true := by
  induction l generalizing d with
  | nil => intro h; rcases h with h | h
           · exact h
           · simp [dkeys] at h
  | cons kv t ih =>
    intro h
    rw [List.foldl_cons]
    apply ih
    rw [dhas_dset]
    rcases h with h | h
    · left; simp [h]
    · simp only [dkeys, List.map_cons, List.mem_cons] at h
      rcases h with h | h
      · left; simp [h]
      · right; exact h

/-- a bound given under ANY name of a tie group is registered under `bound_name` of that name -/
theorem setBound_routed_dhas (cfg : Cfg) (hb : cfg.boundHead = true) (s : State V) (b : Dict (Option V × Option V))
    (n : Name) (hn : n ∈ dkeys b) : dhas (setBound s (routeBounds cfg s b)).bnd (boundName s n) = true := by
  unfold setBound routeBounds
  simp only [hb, if_true]
  apply dhas_foldl_dset
  right
  simp only [dkeys, List.map_map, List.mem_map] at hn ⊢
  obtain ⟨kv, hkv, rfl⟩ := hn
  exact ⟨kv, hkv, rfl⟩

theorem routeBounds_keys (cfg : Cfg) (hb : cfg.boundHead = true) (s : State V) (b : Dict (Option V × Option V))
    (n : Name) (hn : n ∈ dkeys b) : boundName s n ∈ dkeys (routeBounds cfg s b) := by
  unfold routeBounds
  simp only [hb, if_true, dkeys, List.map_map, List.mem_map] at hn ⊢
  obtain ⟨kv, hkv, rfl⟩ := hn
  exact ⟨kv, hkv, rfl⟩

/-- `bound_name` of a member of the first group that lists it is that group's first entry -/
theorem boundName_of_group (s : State V) (n : Name) (g : List Name) (h : s.same.find? (fun g => g.contains n) = some g) :
    boundName s n = g.headD n := by
  unfold boundName; rw [h]

theorem boundName_no_group (s : State V) (n : Name) (h : s.same.find? (fun g => g.contains n) = none) :
    boundName s n = n := by
  unfold boundName; rw [h]

/-! ### `bound_name` under the C16 tie invariant (disjoint groups, members on one object) -/

theorem pairwise_mem_disj (l : List (List Name)) (hp : l.Pairwise GDisj) (x y : List Name) (hx : x ∈ l) (hy : y ∈ l)
    (hne : x ≠ y) : GDisj x y := by
  induction l with
  | nil => cases hx
  | cons a t ih =>
    rw [List.pairwise_cons] at hp
    rcases List.mem_cons.1 hx with rfl | hx' <;> rcases List.mem_cons.1 hy with rfl | hy'
    · exact absurd rfl hne
    · exact hp.1 y hy'
    · exact (hp.1 x hx').symm
    · exact ih hp.2 hx' hy'

/-- with pairwise disjoint groups `bound_name` is idempotent: the first entry of a group is routed to itself -/
theorem boundName_idem_of_disj (s : State V) (hd : s.same.Pairwise GDisj) (n : Name) :
    boundName s (boundName s n) = boundName s n := by
  cases h : s.same.find? (fun g => g.contains n) with
  | none => rw [boundName_no_group s n h, boundName_no_group s n h]
  | some g =>
    rw [boundName_of_group s n g h]
    have hg : g ∈ s.same := List.mem_of_find?_eq_some h
    have hn : g.contains n = true := by have := List.find?_some h; simpa using this
    cases g with
    | nil => simp at hn
    | cons a t =>
      simp only [List.headD_cons]
      cases h2 : s.same.find? (fun g => g.contains a) with
      | none =>
        have := List.find?_eq_none.1 h2 (a :: t) hg
        simp at this
      | some g' =>
        rw [boundName_of_group s a g' h2]
        have hg' := List.mem_of_find?_eq_some h2
        have ha' : g'.contains a = true := by have := List.find?_some h2; simpa using this
        by_cases e : g' = a :: t
        · rw [e]; rfl
        · exfalso
          have := pairwise_mem_disj _ hd (a :: t) g' hg hg' (Ne.symm e)
          exact this a (by simp) (by simpa using ha')

/-- a member of a tie group is routed to a member of the same group -/
theorem boundName_mem_group (s : State V) (hd : s.same.Pairwise GDisj) (n : Name) (g : List Name) (hg : g ∈ s.same)
    (hn : n ∈ g) : boundName s n ∈ g := by
  cases h : s.same.find? (fun g => g.contains n) with
  | none =>
    have := List.find?_eq_none.1 h g hg
    simp [hn] at this
  | some g' =>
    rw [boundName_of_group s n g' h]
    have hg' := List.mem_of_find?_eq_some h
    have hn' : g'.contains n = true := by have := List.find?_some h; simpa using this
    have e : g' = g := by
      apply Classical.byContradiction
      intro e
      exact pairwise_mem_disj _ hd g' g hg' hg e n (by simpa using hn') hn
    subst e
    cases g' with
    | nil => simp at hn
    | cons a t => simp

end TfPwaV.Fit
