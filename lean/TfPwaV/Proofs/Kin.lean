import TfPwaV.Gen.KinR
import Mathlib.Tactic.LinearCombination
import Mathlib.Tactic.FieldSimp
import Mathlib.Tactic.Positivity
/-! Helper lemmas for C11 (real-number algebra of `LorentzVector.boost`); certificates derived by hand/sympy. -/
open TfPwaV.ScalarR
namespace TfPwaV.KinR

theorem eps_pos : (0 : ℝ) < eps := by unfold eps; norm_num

/-- facts about γ and γ₂ in the regular branch -/
theorem gamma_facts (b2 : ℝ) (h1 : eps < b2) (h2 : b2 < 1) :
    (gammaOf b2) ^ 2 * (1 - b2) = 1 ∧ gamma2Of b2 * b2 = gammaOf b2 - 1 ∧ 0 < gammaOf b2 := by
  have hpos : 0 < 1 - b2 := by linarith
  have hb : b2 ≠ 0 := by have := eps_pos; intro h; rw [h] at h1; linarith
  have hs : 0 < Real.sqrt (1 - b2) := Real.sqrt_pos.mpr hpos
  have hsq : Real.sqrt (1 - b2) ^ 2 = 1 - b2 := Real.sq_sqrt hpos.le
  refine ⟨?_, ?_, ?_⟩
  · unfold gammaOf ksqrt
    rw [div_pow, one_pow, hsq]
    field_simp
  · unfold gamma2Of
    rw [if_pos h1]
    field_simp
  · unfold gammaOf ksqrt
    positivity

@[simp] theorem norm2_neg (v : V3) : v.neg.norm2 = v.norm2 := by
  simp only [V3.neg, V3.norm2]; ring

theorem boost_inv_aux (t x y z vx vy vz g h : ℝ)
    (hb : vx * vx + vy * vy + vz * vz ≠ 0)
    (R1 : g ^ 2 * (1 - (vx * vx + vy * vy + vz * vz)) = 1)
    (R2 : h * (vx * vx + vy * vy + vz * vz) = g - 1) :
    let bp := vx * x + vy * y + vz * z
    let t' := g * (t + bp)
    let x' := x + h * bp * vx + g * t * vx
    let y' := y + h * bp * vy + g * t * vy
    let z' := z + h * bp * vz + g * t * vz
    let bp' := (-vx) * x' + (-vy) * y' + (-vz) * z'
    g * (t' + bp') = t ∧
    x' + h * bp' * (-vx) + g * t' * (-vx) = x ∧
    y' + h * bp' * (-vy) + g * t' * (-vy) = y ∧
    z' + h * bp' * (-vz) + g * t' * (-vz) = z := by
  intro bp t' x' y' z' bp'
  refine ⟨?_, ?_, ?_, ?_⟩
  · linear_combination t * R1 - g * bp * R2
  · apply mul_left_cancel₀ hb
    linear_combination vx * (bp * R1 + (bp * (1 + g) + (vx * vx + vy * vy + vz * vz) * (g * t + h * bp)) * R2)
  · apply mul_left_cancel₀ hb
    linear_combination vy * (bp * R1 + (bp * (1 + g) + (vx * vx + vy * vy + vz * vz) * (g * t + h * bp)) * R2)
  · apply mul_left_cancel₀ hb
    linear_combination vz * (bp * R1 + (bp * (1 + g) + (vx * vx + vy * vy + vz * vz) * (g * t + h * bp)) * R2)
theorem boost_dot_aux (E px py pz F qx qy qz vx vy vz g h : ℝ)
    (hb : vx * vx + vy * vy + vz * vz ≠ 0)
    (R1 : g ^ 2 * (1 - (vx * vx + vy * vy + vz * vz)) = 1)
    (R2 : h * (vx * vx + vy * vy + vz * vz) = g - 1) :
    g * (E + (vx * px + vy * py + vz * pz)) * (g * (F + (vx * qx + vy * qy + vz * qz)))
      - (px + h * (vx * px + vy * py + vz * pz) * vx + g * E * vx) * (qx + h * (vx * qx + vy * qy + vz * qz) * vx + g * F * vx)
      - (py + h * (vx * px + vy * py + vz * pz) * vy + g * E * vy) * (qy + h * (vx * qx + vy * qy + vz * qz) * vy + g * F * vy)
      - (pz + h * (vx * px + vy * py + vz * pz) * vz + g * E * vz) * (qz + h * (vx * qx + vy * qy + vz * qz) * vz + g * F * vz)
    = E * F - px * qx - py * qy - pz * qz := by
  apply mul_left_cancel₀ hb
  linear_combination ((vx * vx + vy * vy + vz * vz) * E * F - (vx * px + vy * py + vz * pz) * (vx * qx + vy * qy + vz * qz)) * R1
    - (g * (vx * vx + vy * vy + vz * vz) * (E * (vx * qx + vy * qy + vz * qz) + F * (vx * px + vy * py + vz * pz))
       + (g + 1) * (vx * px + vy * py + vz * pz) * (vx * qx + vy * qy + vz * qz)
       + h * (vx * vx + vy * vy + vz * vz) * (vx * px + vy * py + vz * pz) * (vx * qx + vy * qy + vz * qz)) * R2

end TfPwaV.KinR
