import TfPwaV.Gen.LineShapeR
import TfPwaV.Model.Bessel
import Mathlib.Tactic.LinearCombination
import Mathlib.Tactic.FieldSimp
import Mathlib.Tactic.Positivity
import Mathlib.Tactic.IntervalCases
import Mathlib.Tactic.NormNum
import Mathlib.Analysis.SpecialFunctions.Trigonometric.Basic
/-! Helper lemmas for C15: bridge `Cx → ℂ`, Horner polynomials of the Blatt–Weisskopf table, list sums. -/
open TfPwaV.ScalarR TfPwaV.BprimeTable
namespace TfPwaV.LineShapeR

/-- the model's (re, im) pair as a Mathlib complex number -/
def toC (a : Cx) : ℂ := ⟨a.re, a.im⟩

@[simp] theorem toC_re (a : Cx) : (toC a).re = a.re := rfl
@[simp] theorem toC_im (a : Cx) : (toC a).im = a.im := rfl
@[simp] theorem toC_mk (x y : ℝ) : toC ⟨x, y⟩ = ⟨x, y⟩ := rfl

theorem toC_add (a b : Cx) : toC (a.add b) = toC a + toC b := by
  apply Complex.ext <;> simp [Cx.add]
theorem toC_sub (a b : Cx) : toC (a.sub b) = toC a - toC b := by
  apply Complex.ext <;> simp [Cx.sub]
theorem toC_mul (a b : Cx) : toC (a.mul b) = toC a * toC b := by
  apply Complex.ext <;> simp [Cx.mul]
theorem toC_neg (a : Cx) : toC a.neg = -toC a := by
  apply Complex.ext <;> simp [Cx.neg]
theorem toC_smul (c : ℝ) (a : Cx) : toC (Cx.smul c a) = (c : ℂ) * toC a := by
  apply Complex.ext <;> simp [Cx.smul]
theorem toC_ofReal (x : ℝ) : toC (Cx.ofReal x) = (x : ℂ) := by
  apply Complex.ext <;> simp [Cx.ofReal]
theorem toC_conj (a : Cx) : toC a.conj = (starRingEnd ℂ) (toC a) := by
  apply Complex.ext <;> simp [Cx.conj]
theorem toC_I : toC ⟨0, 1⟩ = Complex.I := by
  apply Complex.ext <;> simp
theorem toC_exp (a : Cx) : toC a.exp = Complex.exp (toC a) := by
  apply Complex.ext
  · simp [Cx.exp, kexp, kcos, Complex.exp_re]
  · simp [Cx.exp, kexp, ksin, Complex.exp_im]

/-- `(x/s, y/s)` with `s = x²+y²` is the inverse of `x - i y` -/
theorem inv_sub_I (x y : ℝ) :
    (⟨x / (x * x + y * y), y / (x * x + y * y)⟩ : ℂ) = 1 / ((x : ℂ) - Complex.I * y) := by
  rw [one_div]
  apply Complex.ext
  · simp [Complex.inv_re, Complex.normSq_apply]
  · simp [Complex.inv_im, Complex.normSq_apply]

/-- `(x/s, -y/s)` with `s = x²+y²` is the inverse of `x + i y` -/
theorem inv_add_I (x y : ℝ) :
    (⟨x / (x * x + y * y), -y / (x * x + y * y)⟩ : ℂ) = 1 / ((x : ℂ) + Complex.I * y) := by
  rw [one_div]
  apply Complex.ext
  · simp [Complex.inv_re, Complex.normSq_apply]
  · simp [Complex.inv_im, Complex.normSq_apply]

theorem toC_div (a b : Cx) : toC (a.div b) = toC a / toC b := by
  rw [div_eq_mul_inv]
  apply Complex.ext
  · simp [Cx.div, Cx.normSq, Complex.inv_re, Complex.inv_im, Complex.normSq_apply]
    ring
  · simp [Cx.div, Cx.normSq, Complex.inv_re, Complex.inv_im, Complex.normSq_apply]
    ring

theorem kpowN_eq (x : ℝ) (n : ℕ) : kpowN x n = x ^ n := by
  induction n with
  | zero => simp [kpowN]
  | succ k ih => simp [kpowN, ih, pow_succ]

theorem eps15_pos : (0 : ℝ) < eps15 := by unfold eps15; norm_num

/-! ### the Blatt–Weisskopf polynomial -/

/-- the polynomial is strictly positive for `z ≥ 0`, for every `L ≤ 8` of the extracted table -/
theorem BprimePolynomial_pos (L : ℕ) (hL : L ≤ 8) (z : ℝ) (hz : 0 ≤ z) : 0 < BprimePolynomial L z := by
  interval_cases L <;> simp [BprimePolynomial, tfCoeff, polyval, kofNat] <;> positivity

/-- the two tables (numeric and sympy side) define the same polynomial -/
theorem BprimePolynomialSym_eq (L : ℕ) (hL : L ≤ 8) (z : ℝ) : BprimePolynomialSym L z = BprimePolynomial L z := by
  interval_cases L <;> simp [BprimePolynomial, BprimePolynomialSym, symCoeff, tfCoeff]

/-! ### reciprocals and list sums -/

/-- `(x/s, y/s)` times `x - i y` is one unless both vanish -/
theorem recip_mul (x y : ℝ) (h : x ≠ 0 ∨ y ≠ 0) :
    (⟨x / (x * x + y * y), y / (x * x + y * y)⟩ : ℂ) * ⟨x, -y⟩ = 1 := by
  have hs : x * x + y * y ≠ 0 := by
    rcases h with h | h
    · have := mul_self_pos.mpr h; have := mul_self_nonneg y; positivity
    · have := mul_self_pos.mpr h; have := mul_self_nonneg x; positivity
  apply Complex.ext
  · simp only [Complex.mul_re, Complex.one_re]
    rw [show x / (x * x + y * y) * x - y / (x * x + y * y) * -y = (x * x + y * y) / (x * x + y * y) by ring,
      div_self hs]
  · simp only [Complex.mul_im, Complex.one_im]
    ring

/-- `1/(a.re + i a.im)` in components -/
theorem inv_toC (a : Cx) :
    (⟨a.re / (a.re * a.re + a.im * a.im), -a.im / (a.re * a.re + a.im * a.im)⟩ : ℂ) = 1 / toC a := by
  rw [inv_add_I]
  congr 1
  apply Complex.ext <;> simp

theorem sumFrom_eq (acc : ℝ) (l : List ℝ) : sumFrom acc l = acc + l.sum := by
  induction l generalizing acc with
  | nil => simp [sumFrom]
  | cons x r ih => simp [sumFrom, ih, add_assoc]

theorem Cx.sumFrom_eq (acc : Cx) (l : List Cx) : toC (Cx.sumFrom acc l) = toC acc + (l.map toC).sum := by
  induction l generalizing acc with
  | nil => simp [Cx.sumFrom]
  | cons x r ih => simp [Cx.sumFrom, ih, toC_add, add_assoc]

/-- `Σ γ_i² = f²` for the spherical-coordinate parametrisation started at radius `f` -/
theorem factorGammaAux_sq_sum (f : ℝ) (ts : List ℝ) :
    ((factorGammaAux f ts).map fun i => i * i).sum = f * f := by
  induction ts generalizing f with
  | nil => simp [factorGammaAux]
  | cons t r ih =>
    simp only [factorGammaAux, List.map_cons, List.sum_cons, ih, kcos, ksin]
    have := Real.cos_sq_add_sin_sq t
    linear_combination (f * f) * this

theorem polyvalF32_eq (cs : List ℝ) (z : ℝ) : polyvalF32 cs z = polyval cs z := by
  simp [polyvalF32, polyval, kf32]

theorem ktanh_eq (x : ℝ) : ktanh x = Real.tanh x := by
  unfold ktanh kexp
  rw [Real.tanh_eq_sinh_div_cosh, Real.sinh_eq, Real.cosh_eq]
  have : Real.exp x + Real.exp (-x) ≠ 0 := by positivity
  field_simp

/-- above threshold the clamped numeric momentum equals the symbolic one -/
theorem getRelativeP_eq_sym (m m1 m2 : ℝ) (h : m1 + m2 < m) : getRelativeP m m1 m2 = symRelP m m1 m2 := by
  unfold getRelativeP symRelP ksqrt
  simp only [if_pos h]
  have e : (m - (m1 + m2)) * (m + (m1 + m2)) * (m - (m1 - m2)) * (m + (m1 - m2))
      = (m * m - (m1 + m2) * (m1 + m2)) * (m * m - (m1 - m2) * (m1 - m2)) := by ring
  rw [e, div_div]

/-! ### principal complex square root -/

theorem sqrt_aux (x y : ℝ) :
    let r := Real.sqrt (x * x + y * y)
    0 ≤ (r + x) / 2 ∧ 0 ≤ (r - x) / 2 ∧ (r + x) / 2 * ((r - x) / 2) = (y / 2) * (y / 2) := by
  intro r
  have hn : 0 ≤ x * x + y * y := add_nonneg (mul_self_nonneg _) (mul_self_nonneg _)
  have hr : r * r = x * x + y * y := Real.mul_self_sqrt hn
  have hr0 : 0 ≤ r := Real.sqrt_nonneg _
  have h1 : |x| ≤ r := by
    apply Real.abs_le_sqrt
    nlinarith [mul_self_nonneg y]
  have h2 := abs_le.mp h1
  refine ⟨by linarith [h2.1], by linarith [h2.2], ?_⟩
  linear_combination (1 / 4 : ℝ) * hr

/-- `Cx.sqrt a` squares to `a` (all branches) … -/
theorem Cx.sqrt_mul_self (a : Cx) : toC a.sqrt * toC a.sqrt = toC a := by
  obtain ⟨hA, hB, hAB⟩ := sqrt_aux a.re a.im
  have huu := Real.mul_self_sqrt hA
  have hvv := Real.mul_self_sqrt hB
  have huv : Real.sqrt ((Real.sqrt (a.re * a.re + a.im * a.im) + a.re) / 2)
      * Real.sqrt ((Real.sqrt (a.re * a.re + a.im * a.im) - a.re) / 2) = |a.im| / 2 := by
    rw [← Real.sqrt_mul hA, hAB, Real.sqrt_mul_self_eq_abs, abs_div]
    simp
  unfold Cx.sqrt Cx.normSq ksqrt
  split_ifs with h1 h2 h3
  · apply Complex.ext
    · simp only [Complex.mul_re, toC_re, toC_im]; linarith
    · simp only [Complex.mul_im, toC_re, toC_im]
      rw [abs_of_pos h1] at huv
      linarith [mul_comm (Real.sqrt ((Real.sqrt (a.re * a.re + a.im * a.im) + a.re) / 2))
        (Real.sqrt ((Real.sqrt (a.re * a.re + a.im * a.im) - a.re) / 2))]
  · apply Complex.ext
    · simp only [Complex.mul_re, toC_re, toC_im]; nlinarith
    · simp only [Complex.mul_im, toC_re, toC_im]
      rw [abs_of_neg h2] at huv
      nlinarith [mul_comm (Real.sqrt ((Real.sqrt (a.re * a.re + a.im * a.im) + a.re) / 2))
        (Real.sqrt ((Real.sqrt (a.re * a.re + a.im * a.im) - a.re) / 2))]
  · have him : a.im = 0 := le_antisymm (not_lt.mp h1) (not_lt.mp h2)
    have := Real.mul_self_sqrt (neg_nonneg.mpr h3.le)
    apply Complex.ext
    · simp only [Complex.mul_re, toC_re, toC_im]; linarith
    · simp only [Complex.mul_im, toC_re, toC_im]; rw [him]; ring
  · have him : a.im = 0 := le_antisymm (not_lt.mp h1) (not_lt.mp h2)
    have := Real.mul_self_sqrt (not_lt.mp h3)
    apply Complex.ext
    · simp only [Complex.mul_re, toC_re, toC_im]; linarith
    · simp only [Complex.mul_im, toC_re, toC_im]; rw [him]; ring

/-- … and lies in the closed right half plane, with non-negative imaginary part on the negative real axis:
it is the principal root -/
theorem Cx.sqrt_principal (a : Cx) : 0 ≤ a.sqrt.re ∧ (a.sqrt.re = 0 → 0 ≤ a.sqrt.im) := by
  unfold Cx.sqrt ksqrt
  split_ifs with h1 h2 h3
  · exact ⟨Real.sqrt_nonneg _, fun _ => Real.sqrt_nonneg _⟩
  · refine ⟨Real.sqrt_nonneg _, fun h => ?_⟩
    -- re = 0 would force r + a.re ≤ 0, i.e. a.im = 0: impossible here
    exfalso
    have hn : 0 ≤ a.re * a.re + a.im * a.im := add_nonneg (mul_self_nonneg _) (mul_self_nonneg _)
    have hr := Real.mul_self_sqrt hn
    have hr0 := Real.sqrt_nonneg (a.re * a.re + a.im * a.im)
    have h0 : (Real.sqrt (a.re * a.re + a.im * a.im) + a.re) / 2 ≤ 0 := Real.sqrt_eq_zero'.mp h
    have : 0 < a.im * a.im := mul_pos_of_neg_of_neg h2 h2
    nlinarith
  · exact ⟨le_refl _, fun _ => Real.sqrt_nonneg _⟩
  · exact ⟨Real.sqrt_nonneg _, fun _ => le_refl _⟩

/-! ### BWR_LS: numeric and symbolic partial widths -/

theorem zipMul_sq (gs : List ℝ) (ls : List ℕ) (f g : ℕ → ℝ) (h : ∀ l ∈ ls, f l * f l = g l) :
    (zipMul gs (ls.map f)).map (fun i => i * i) = zipMul (gs.map fun j => j * j) (ls.map g) := by
  induction gs generalizing ls with
  | nil => simp [zipMul]
  | cons x r ih =>
    cases ls with
    | nil => simp [zipMul]
    | cons l t =>
      simp only [List.map_cons, zipMul, List.cons.injEq]
      refine ⟨?_, ih t fun l' hl' => h l' (List.mem_cons_of_mem _ hl')⟩
      rw [← h l (List.mem_cons_self)]
      ring

theorem getRelativeP2_eq_sym (m m1 m2 : ℝ) : getRelativeP2 m m1 m2 = symRelP2 m m1 m2 := by
  unfold getRelativeP2 symRelP2
  by_cases hm : m = 0
  · simp [hm]
  · field_simp
    ring

/-! ### the reverse Bessel polynomial evaluated in ℂ -/

/-- evaluate an ascending integer coefficient list at a complex point (Horner) -/
def evalAsc : List ℤ → ℂ → ℂ
  | [], _ => 0
  | c :: r, x => (c : ℂ) + x * evalAsc r x

/-- the values of `Bessel.theta` (computed by the kernel from the closed formula) -/
theorem thetaTab : ∀ L ∈ List.range 9, Bessel.theta L = [[1], [1, 1], [3, 3, 1], [15, 15, 6, 1], [105, 105, 45, 10, 1],
    [945, 945, 420, 105, 15, 1], [10395, 10395, 4725, 1260, 210, 21, 1],
    [135135, 135135, 62370, 17325, 3150, 378, 28, 1],
    [2027025, 2027025, 945945, 270270, 51975, 6930, 630, 36, 1]].getD L [] := by decide +kernel

/-! ### MultiBWR: products of zipped lists -/

theorem zipCx_map_toC (res : List (ℝ × ℝ)) (f : ℝ × ℝ → Cx) (g : ℝ × ℝ → ℂ) (h : ∀ r, toC (f r) = g r) (cs : List Cx) :
    ((zipCx (res.map f) cs).map toC) = List.zipWith (fun r c => g r * toC c) res cs := by
  induction res generalizing cs with
  | nil => simp [zipCx]
  | cons r t ih =>
    cases cs with
    | nil => simp [zipCx]
    | cons c u => simp [zipCx, toC_mul, h, ih]

theorem foldl_min_le (ls : List ℕ) (a l : ℕ) (hl : l ∈ ls) : ls.foldl Nat.min a ≤ l := by
  induction ls generalizing a with
  | nil => cases hl
  | cons x t ih =>
    simp only [List.foldl_cons]
    rcases List.mem_cons.mp hl with h | h
    · subst h
      have : ∀ (t : List ℕ) (b : ℕ), t.foldl Nat.min b ≤ b := by
        intro t
        induction t with
        | nil => intro b; simp
        | cons y u ihu => intro b; simp only [List.foldl_cons]; exact le_trans (ihu _) (Nat.min_le_left _ _)
      exact le_trans (this t _) (Nat.min_le_right _ _)
    · exact ih _ h

/-! ### Flatte: numeric channel momentum = sympy channel momentum (sheet bit 1) for real m > 0 -/

theorem sqrt_quarter (x m : ℝ) (hx : 0 ≤ x) (hm : 0 < m) : Real.sqrt (x / 4 / (m * m)) = Real.sqrt x / 2 / m := by
  have h : x / 4 / (m * m) = (Real.sqrt x / 2 / m) * (Real.sqrt x / 2 / m) := by
    have e : (Real.sqrt x / 2 / m) * (Real.sqrt x / 2 / m) = (Real.sqrt x * Real.sqrt x) / 4 / (m * m) := by ring
    rw [e, Real.mul_self_sqrt hx]
  rw [h, Real.sqrt_mul_self (by positivity)]

theorem calMomentum_eq_sym (m ma mb : ℝ) (hm : 0 < m) : calMomentum m ma mb = symCalMomentum m ma mb := by
  unfold calMomentum symCalMomentum ksqrt kabs
  simp only
  set P := (m * m - (ma + mb) * (ma + mb)) * (m * m - (ma - mb) * (ma - mb)) with hP
  have hmm : 0 < m * m := mul_pos hm hm
  rcases lt_trichotomy P 0 with h | h | h
  · have hneg : P / 4 / (m * m) < 0 := by
      apply div_neg_of_neg_of_pos _ hmm
      linarith
    rw [if_neg (not_lt.mpr hneg.le), if_pos h, abs_of_neg hneg]
    have : -(P / 4 / (m * m)) = (-P) / 4 / (m * m) := by ring
    rw [this, sqrt_quarter (-P) m (by linarith) hm]
  · simp [h]
  · have hpos : 0 < P / 4 / (m * m) := by positivity
    rw [if_pos hpos, if_neg (not_lt.mpr h.le), abs_of_pos hpos, sqrt_quarter P m h.le hm]

/-- `(x/s, -y/s)` times `x + i y` is one unless both vanish -/
theorem recip_mul' (x y : ℝ) (h : x ≠ 0 ∨ y ≠ 0) :
    (⟨x / (x * x + y * y), -y / (x * x + y * y)⟩ : ℂ) * ⟨x, y⟩ = 1 := by
  have := recip_mul x (-y) (by rcases h with h | h; exact Or.inl h; exact Or.inr (neg_ne_zero.mpr h))
  simpa using this

end TfPwaV.LineShapeR
