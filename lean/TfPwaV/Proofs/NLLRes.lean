import TfPwaV.Proofs.NLL
/-! Helper lemmas for C06b: `_data_split` as a recursion, grouping of `resolution_size` consecutive rows,
batches that are multiples of the group, α over per-event weights. -/
open TfPwaV.ScalarR
namespace TfPwaV.NLLR

/-! ### `chunk` as a recursion -/

theorem chunkAux_fuel {α : Type} (n : ℕ) (hn : 0 < n) :
    ∀ (fuel : ℕ) (l : List α), l.length ≤ fuel → chunkAux n fuel l = chunkAux n l.length l := by
  intro fuel
  induction fuel using Nat.strong_induction_on with
  | _ fuel ih =>
    intro l hl
    cases fuel with
    | zero =>
      have : l = [] := List.length_eq_zero_iff.mp (Nat.le_zero.mp hl)
      subst this; rfl
    | succ fuel =>
      cases l with
      | nil => simp [chunkAux]
      | cons x xs =>
        have h1 : ((x :: xs).drop n).length ≤ fuel := by
          simp only [List.length_drop, List.length_cons] at hl ⊢; omega
        have h2 : ((x :: xs).drop n).length ≤ xs.length := by
          simp only [List.length_drop, List.length_cons]; omega
        have hl' : xs.length < fuel + 1 := by simp only [List.length_cons] at hl; omega
        show chunkAux n (fuel + 1) (x :: xs) = chunkAux n (xs.length + 1) (x :: xs)
        simp only [chunkAux, List.isEmpty_cons, Bool.false_eq_true, ↓reduceIte]
        rw [ih fuel (Nat.lt_succ_self _) _ h1, ih xs.length hl' _ h2]

theorem chunk_nil {α : Type} (n : ℕ) : chunk n ([] : List α) = [] := rfl

/-- `_data_split`: first slice `[0:n]`, then the split of the rest -/
theorem chunk_step {α : Type} (n : ℕ) (hn : 0 < n) (l : List α) (hl : l ≠ []) :
    chunk n l = l.take n :: chunk n (l.drop n) := by
  cases l with
  | nil => exact absurd rfl hl
  | cons x xs =>
    have h2 : ((x :: xs).drop n).length ≤ xs.length := by
      simp only [List.length_drop, List.length_cons]; omega
    show chunkAux n (xs.length + 1) (x :: xs) = _
    simp only [chunkAux, List.isEmpty_cons, Bool.false_eq_true, ↓reduceIte]
    unfold chunk
    rw [chunkAux_fuel n hn xs.length _ h2]

/-- a first part whose length is a multiple of `r` is grouped independently of what follows -/
theorem chunk_append_mul {α : Type} (r : ℕ) (hr : 0 < r) :
    ∀ (k : ℕ) (a b : List α), a.length = k * r → chunk r (a ++ b) = chunk r a ++ chunk r b := by
  intro k
  induction k with
  | zero =>
    intro a b ha
    have : a = [] := List.length_eq_zero_iff.mp (by simpa using ha)
    subst this; simp [chunk_nil]
  | succ k ih =>
    intro a b ha
    have hge : r ≤ a.length := by rw [ha]; exact Nat.le_mul_of_pos_left r (Nat.succ_pos k)
    have hne : a ≠ [] := by
      intro h; subst h; simp at hge; omega
    have hne' : a ++ b ≠ [] := by simp [hne]
    rw [chunk_step r hr _ hne', chunk_step r hr a hne, List.take_append_of_le_length hge,
      List.drop_append_of_le_length hge]
    have hd : (a.drop r).length = k * r := by
      rw [List.length_drop, ha, Nat.succ_mul]; omega
    rw [ih (a.drop r) b hd]
    rfl

theorem chunkAux_map {α β : Type} (f : α → β) (n : ℕ) :
    ∀ (fuel : ℕ) (l : List α), chunkAux n fuel (l.map f) = (chunkAux n fuel l).map (List.map f) := by
  intro fuel
  induction fuel with
  | zero => intro l; rfl
  | succ fuel ih =>
    intro l
    cases l with
    | nil => simp [chunkAux]
    | cons x xs =>
      simp only [chunkAux, List.map_cons, List.isEmpty_cons, Bool.false_eq_true, ↓reduceIte]
      rw [← List.map_cons, ← List.map_take, ← List.map_drop, ih]

theorem chunk_map {α β : Type} (f : α → β) (n : ℕ) (l : List α) :
    chunk n (l.map f) = (chunk n l).map (List.map f) := by
  unfold chunk
  rw [List.length_map, chunkAux_map]

/-! ### per-event weights -/

theorem lsum_id_flatten (bs : List (List ℝ)) : lsum (bs.map lsum) = lsum bs.flatten := by
  have := lsum_flatten (fun x : ℝ => x) bs
  simpa using this

theorem lsum_groupW (r : ℕ) (hr : 0 < r) (w : List ℝ) : lsum (groupW r w) = lsum w := by
  unfold groupW
  rw [lsum_id_flatten, chunk_flatten r hr]

theorem groupW_map_mul (r : ℕ) (a : ℝ) (w : List ℝ) :
    groupW r (w.map fun x => a * x) = (groupW r w).map fun x => a * x := by
  unfold groupW
  rw [chunk_map, List.map_map, List.map_map]
  apply List.map_congr_left
  intro g _
  simp only [Function.comp_apply]
  simpa using lsum_map_mul_left a (fun x => x) g

theorem alphaRes_eq (r : ℕ) (w : List ℝ) : alphaRes r w = alphaOf (groupW r w) := rfl

/-- re-applying the per-event α to already α-scaled weights gives 1 -/
theorem alphaRes_scaleWRes (r : ℕ) (hr : 0 < r) (w : List ℝ) (h : lsum w ≠ 0) :
    alphaRes r (scaleWRes r w) = 1 := by
  have hg : lsum (groupW r w) ≠ 0 := by rw [lsum_groupW r hr]; exact h
  rw [alphaRes_eq]
  unfold scaleWRes
  rw [groupW_map_mul, alphaRes_eq]
  exact alphaOf_scaleW (groupW r w) hg

theorem alphaRes_ne_zero (r : ℕ) (hr : 0 < r) (w : List ℝ) (h : lsum w ≠ 0) : alphaRes r w ≠ 0 := by
  have hg : lsum (groupW r w) ≠ 0 := by rw [lsum_groupW r hr]; exact h
  unfold alphaRes
  exact div_ne_zero hg (ne_of_gt (lsum_sq_pos _ hg))

/-! ### one smeared event -/

/-- the event term without the `tf.where` guard -/
noncomputable def cleanTerm (t : ℝ → ℝ) (g : List (ℝ × ℝ)) : ℝ := lsum (weights g) * t (dotp g / lsum (weights g))

/-- the guard `dom` is harmless: for `W_G = 0` the term is `0·trans(…) = 0` -/
theorem groupTerm_eq_clean (t : ℝ → ℝ) (g : List (ℝ × ℝ)) : groupTerm t g = cleanTerm t g := by
  unfold groupTerm cleanTerm dom
  by_cases h : lsum (weights g) < 0 ∨ 0 < lsum (weights g)
  · rw [if_pos h]
  · have hw : lsum (weights g) = 0 := by
      rcases lt_trichotomy (lsum (weights g)) 0 with h' | h' | h'
      · exact absurd (Or.inl h') h
      · exact h'
      · exact absurd (Or.inr h') h
    rw [hw]; simp

theorem dotp_scaleEv (a : ℝ) (g : List (ℝ × ℝ)) : dotp (scaleEv a g) = a * dotp g := by
  have := plainSum_scaleEv kid a g
  rwa [plainSum_kid, plainSum_kid] at this

theorem cleanTerm_scaleEv (t : ℝ → ℝ) (a : ℝ) (ha : a ≠ 0) (g : List (ℝ × ℝ)) :
    cleanTerm t (scaleEv a g) = a * cleanTerm t g := by
  unfold cleanTerm
  rw [lsum_weights_scaleEv, dotp_scaleEv, mul_div_mul_left _ _ ha]
  ring

theorem scaleEv_eq_map (a : ℝ) (d : List (ℝ × ℝ)) : scaleEv a d = d.map fun p => (a * p.1, p.2) := rfl

theorem batchSumRes_scaleEv (t : ℝ → ℝ) (r : ℕ) (a : ℝ) (ha : a ≠ 0) (d : List (ℝ × ℝ)) :
    batchSumRes t r (scaleEv a d) = a * batchSumRes t r d := by
  unfold batchSumRes
  rw [scaleEv_eq_map, chunk_map, List.map_map, ← lsum_map_mul_left]
  apply lsum_map_congr
  intro g _
  simp only [Function.comp_apply]
  rw [groupTerm_eq_clean, groupTerm_eq_clean]
  exact cleanTerm_scaleEv t a ha g

theorem batchSumRes_clean (t : ℝ → ℝ) (r : ℕ) (d : List (ℝ × ℝ)) :
    batchSumRes t r d = lsum ((chunk r d).map (cleanTerm t)) := by
  unfold batchSumRes
  exact lsum_map_congr _ _ _ (fun g _ => groupTerm_eq_clean t g)

theorem batchSumRes_nil (t : ℝ → ℝ) (r : ℕ) : batchSumRes t r [] = 0 := by
  unfold batchSumRes; rw [chunk_nil]; rfl

/-- a batch whose length is a multiple of the group size can be summed separately -/
theorem batchSumRes_append (t : ℝ → ℝ) (r : ℕ) (hr : 0 < r) (k : ℕ) (a b : List (ℝ × ℝ)) (ha : a.length = k * r) :
    batchSumRes t r (a ++ b) = batchSumRes t r a + batchSumRes t r b := by
  unfold batchSumRes
  rw [chunk_append_mul r hr k a b ha, List.map_append, lsum_append]

/-- ★ batches that are multiples of the group: the batched sum is the one-batch sum of the concatenation -/
theorem sumBatchesRes_flatten (t : ℝ → ℝ) (r : ℕ) (hr : 0 < r) (bs : List (List (ℝ × ℝ)))
    (h : ∀ b ∈ bs, r ∣ b.length) : sumBatchesRes t r bs = batchSumRes t r bs.flatten := by
  induction bs with
  | nil => simp [sumBatchesRes, batchSumRes_nil]
  | cons b bs ih =>
    obtain ⟨k, hk⟩ := h b (by simp)
    have ih' := ih (fun c hc => h c (by simp [hc]))
    unfold sumBatchesRes at ih' ⊢
    rw [List.map_cons, lsum_cons, List.flatten_cons, batchSumRes_append t r hr k b _ (by rw [hk, Nat.mul_comm]), ih']

/-- the batches `_data_split` makes with a batch size `k·r`: no condition on the sample size -/
theorem sumBatchesRes_chunk (t : ℝ → ℝ) (r k : ℕ) (hr : 0 < r) (hk : 0 < k) :
    ∀ (m : ℕ) (l : List (ℝ × ℝ)), l.length ≤ m → sumBatchesRes t r (chunk (k * r) l) = batchSumRes t r l := by
  have hn : 0 < k * r := Nat.mul_pos hk hr
  intro m
  induction m with
  | zero =>
    intro l hl
    have : l = [] := List.length_eq_zero_iff.mp (Nat.le_zero.mp hl)
    subst this
    rw [chunk_nil, batchSumRes_nil]; rfl
  | succ m ih =>
    intro l hl
    by_cases hne : l = []
    · subst hne; rw [chunk_nil, batchSumRes_nil]; rfl
    · rw [chunk_step (k * r) hn l hne]
      have hpos : 0 < l.length := List.length_pos_iff.mpr hne
      have hd : (l.drop (k * r)).length ≤ m := by rw [List.length_drop]; omega
      show batchSumRes t r (l.take (k * r)) + sumBatchesRes t r (chunk (k * r) (l.drop (k * r))) = _
      rw [ih _ hd]
      by_cases hlen : k * r ≤ l.length
      · rw [← batchSumRes_append t r hr k _ _ (by rw [List.length_take]; omega), List.take_append_drop]
      · have h1 : l.take (k * r) = l := List.take_of_length_le (by omega)
        have h2 : l.drop (k * r) = [] := List.drop_of_length_le (by omega)
        rw [h1, h2, batchSumRes_nil, add_zero]

theorem weights_chunk (r : ℕ) (d : List (ℝ × ℝ)) : (chunk r d).map weights = chunk r (weights d) := by
  unfold weights
  rw [chunk_map]

theorem groupW_weights (r : ℕ) (d : List (ℝ × ℝ)) :
    groupW r (weights d) = (chunk r d).map fun g => lsum (weights g) := by
  unfold groupW
  rw [← weights_chunk, List.map_map]
  rfl

theorem reweightRes_of_alpha_one (r : ℕ) (d : List (ℝ × ℝ)) (h : alphaRes r (weights d) = 1) : reweightRes r d = d := by
  unfold reweightRes
  rw [h]
  simp

theorem weights_scaleEv_alphaRes (r : ℕ) (d : List (ℝ × ℝ)) :
    weights (scaleEv (alphaRes r (weights d)) d) = scaleWRes r (weights d) := by
  rw [weights_scaleEv]; rfl

theorem zip_scaleWRes (r : ℕ) (W f : List ℝ) : (scaleWRes r W).zip f = scaleEv (alphaRes r W) (W.zip f) := by
  unfold scaleWRes scaleEv
  rw [List.zip_map_left]
  simp [Prod.map]

theorem sumBatches_kid_chunk (n : ℕ) (hn : 0 < n) (m : List (ℝ × ℝ)) : sumBatches kid (chunk n m) = dotp m := by
  rw [sumBatches_flatten, chunk_flatten n hn, batchSum_eq_plain, plainSum_kid]

theorem sumW_chunk (n : ℕ) (hn : 0 < n) (d : List (ℝ × ℝ)) : sumW (chunk n d) = lsum (weights d) := by
  rw [sumW_flatten, chunk_flatten n hn]

/-- the FCN state with `resolution_size = r`: what the three value paths reduce to -/
theorem res_paths_core (ext : Bool) (r k : ℕ) (hr : 0 < r) (hk : 0 < k) (D M : List (ℝ × ℝ))
    (hW : lsum (weights D) ≠ 0) (hV : lsum (weights M) ≠ 0) :
    let d := scaleEv (alphaRes r (weights D)) D
    let m := normMcEv M
    modelNllRes ext r d m = -(batchSumRes clipLog r d) + lsum (weights d) * intF ext (dotp m)
      ∧ modelNllGradBatchRes ext r (chunk (k * r) d) (chunk (k * r) m)
          = -(batchSumRes clipLog r d) + lsum (weights d) * intF ext (dotp m)
      ∧ modelNllGradHessianRes ext r (k * r) d m
          = -(batchSumRes clipLog r d) + lsum (weights d) * intF ext (dotp m) := by
  intro d m
  have hn : 0 < k * r := Nat.mul_pos hk hr
  have hα1 : alphaRes r (weights d) = 1 := by
    show alphaRes r (weights (scaleEv (alphaRes r (weights D)) D)) = 1
    rw [weights_scaleEv_alphaRes]; exact alphaRes_scaleWRes r hr _ hW
  have hre : reweightRes r d = d := reweightRes_of_alpha_one r d hα1
  have hone : lsum (weights m) = 1 := lsum_weights_normMcEv M hV
  have hα : lsum (weights d) / lsum ((groupW r (weights d)).map NLLR.sq) = 1 := by
    have := hα1
    unfold alphaRes at this
    rwa [lsum_groupW r hr] at this
  have hgrad : modelNllGradBatchRes ext r (chunk (k * r) d) (chunk (k * r) m)
      = -(batchSumRes clipLog r d) + lsum (weights d) * intF ext (dotp m) := by
    unfold modelNllGradBatchRes
    rw [sumBatchesRes_chunk clipLog r k hr hk d.length d le_rfl, sumW_chunk _ hn, sumBatches_kid_chunk _ hn]
  refine ⟨?_, hgrad, ?_⟩
  · unfold modelNllRes baseNllRes
    simp only []
    rw [hre, hα, hone]
    simp only [div_one]
    ring
  · unfold modelNllGradHessianRes
    simp only []
    rw [hre, hre, normMcEv_of_sum_one m hone, sumBatchesRes_chunk clipLog r k hr hk d.length d le_rfl,
      sumBatches_kid_chunk _ hn]

/-! ### `constr_frac` -/

theorem fracAdd_eq (i0 : ℝ) (cs : List (ℝ × ℝ × ℝ)) : ∀ acc : ℝ, fracAdd i0 acc cs = acc + lsum (cs.map (fracTerm i0)) := by
  induction cs with
  | nil => intro acc; simp [fracAdd]
  | cons c cs ih => intro acc; simp only [fracAdd, ih, List.map_cons, lsum_cons]; ring

theorem lsum_chunk_dotp (n : ℕ) (hn : 0 < n) (m : List (ℝ × ℝ)) : lsum ((chunk n m).map dotp) = dotp m := by
  have := lsum_flatten (fun p : ℝ × ℝ => p.1 * p.2) (chunk n m)
  rw [chunk_flatten n hn] at this
  exact this

theorem simplePart_chunks (lg : ℝ → ℝ) (nrm : ℝ) (bs : List (List (ℝ × ℝ))) :
    lsum (bs.map (simplePart lg nrm)) = simplePart lg nrm bs.flatten := by
  unfold simplePart
  induction bs with
  | nil => simp [weights]
  | cons b bs ih =>
    simp only [List.map_cons, lsum_cons, List.flatten_cons, List.map_append, lsum_append, weights_append] at ih ⊢
    rw [ih]
    ring

end TfPwaV.NLLR
